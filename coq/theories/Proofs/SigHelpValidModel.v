(* C14 - signature help on VALID programs, part 2 (the model side, no typing yet):
     R  the text range of a token segment ([seg_range]) is what AstInfo::to_text_range computes for a
        node whose range is the segment ([info_range_seg]);
     F  find_call_stmt on the mandated tree of a statement IS "the first call site (Proofs/
        SigHelpValidSites.v) whose text range contains the cursor index" - it never fails and never
        looks at the ranges of the enclosing if / while / block statements ([find_call_sites]);
        sites do not overlap, so a site whose range contains the index is the one found ([find_site]);
     P  find_proc returns the procedure declaration whose tokens contain the cursor ([find_proc_hit]);
     H  the handler computed at a call site of a procedure of the program ([sighelp_at_site]) and
        where no site contains the cursor ([sighelp_no_site]). *)
From Coq Require Import PeanoNat Lia.
From Spl Require Import Proofs.GrammarBase Proofs.GrammarExpr Proofs.GrammarStmt.
From Spl Require Import Proofs.GrammarProofs Spec.Grammar Model.Errors.
From Spl Require Import Model.Hover Model.SigHelp Model.Fold Proofs.LexerProofs Proofs.FoldProofs Proofs.HoverProofs.
From Spl Require Import Proofs.HoverValid Proofs.GotoValidModel Proofs.SigHelpValidSites.
Local Open Scope nat_scope.

(* ---------------------------------------------------------------------------------------- *)
(* R: text ranges of token segments                                                          *)

Definition dtok : token := {| tk := Eof; ts := 0; te := 0; terr := [] |}.

(* from the start of token o to the end of token o + n - 1 *)
Definition seg_range (toks : list token) (o n : nat) : N * N :=
  (ts (nth o toks dtok), te (nth (o + n - 1) toks dtok)).

Definition site_range (toks : list token) (x : site) : N * N :=
  seg_range toks (fst x) (len (fl_call (snd x))).

Lemma info_range_seg toks o n :
  1 <= n -> o + n <= len toks -> info_text_range (skipn o toks) (mkinfo 0 n) = ROk (seg_range toks o n).
Proof.
  intros Hp H. unfold info_text_range, byte_range, mkinfo, seg_range. cbn [e_s e_e e_m i_s i_e].
  destruct (Nat.ltb_spec 0 n); [|lia]. rewrite skipn_length. destruct (Nat.ltb_spec (len toks - o) n); [lia|].
  cbn [skipn]. rewrite Nat.sub_0_r. set (sl := firstn n (skipn o toks)).
  assert (Hl : len sl = n) by (unfold sl; rewrite firstn_length, skipn_length; lia).
  assert (Hnth : forall i, i < n -> nth_error sl i = nth_error toks (o + i)).
  { intros i Hi. unfold sl. rewrite nth_firstn_lt by exact Hi. apply nth_skipn. }
  rewrite hd_rev, Hl, (Hnth (n - 1)) by lia.
  assert (Hhd : hd_error sl = nth_error toks o).
  { replace (hd_error sl) with (nth_error sl 0) by (destruct sl; reflexivity). rewrite (Hnth 0) by lia. now rewrite Nat.add_0_r. }
  rewrite Hhd. replace (o + (n - 1)) with (o + n - 1) by lia.
  rewrite (nth_error_nth' toks dtok (n := o)) by lia. rewrite (nth_error_nth' toks dtok (n := o + n - 1)) by lia.
  reflexivity.
Qed.

Lemma slice_seg toks o n :
  o + n <= len toks -> slice toks (shift_range (info_range (mkinfo 0 n)) o) = ROk (firstn n (skipn o toks)).
Proof.
  intros H. rewrite slice_eq; unfold shift_range, info_range, mkinfo; cbn [fst snd i_s i_e]; [|lia|lia].
  replace (n + o - (0 + o)) with n by lia. reflexivity.
Qed.

Local Open Scope N_scope.

(* a token inside a segment lies inside the segment's text range *)
Lemma seg_range_tok toks o n j tok :
  toks_sorted toks = true -> (o <= j)%nat -> (j < o + n)%nat -> (o + n <= len toks)%nat -> nth_error toks j = Some tok ->
  fst (seg_range toks o n) <= ts tok /\ te tok <= snd (seg_range toks o n).
Proof.
  intros Hs H1 H2 H3 Hn. unfold seg_range. cbn [fst snd].
  pose proof (nth_error_nth' toks dtok (n := o) ltac:(lia)) as Ha.
  pose proof (nth_error_nth' toks dtok (n := (o + n - 1)%nat) ltac:(lia)) as Hb.
  destruct (sorted_le toks o j _ _ Hs H1 Ha Hn) as [Hx _].
  destruct (sorted_le toks j (o + n - 1) _ _ Hs ltac:(lia) Hn Hb) as [_ Hy]. split; assumption.
Qed.

(* segments one behind the other: the first ends before the second starts *)
Lemma seg_range_before toks o n o' n' :
  toks_sorted toks = true -> (1 <= n)%nat -> (o + n <= o')%nat -> (1 <= n')%nat -> (o' + n' <= len toks)%nat ->
  snd (seg_range toks o n) <= fst (seg_range toks o' n').
Proof.
  intros Hs H1 H2 H3 H4. unfold seg_range. cbn [fst snd].
  pose proof (nth_error_nth' toks dtok (n := (o + n - 1)%nat) ltac:(lia)) as Ha.
  pose proof (nth_error_nth' toks dtok (n := o') ltac:(lia)) as Hb.
  exact (sorted_pair _ Hs (o + n - 1)%nat o' _ _ ltac:(lia) Ha Hb).
Qed.

Lemma in_range_false_before r index : snd r <= index -> in_range r index = false.
Proof. intros H. unfold in_range. destruct (N.ltb_spec index (snd r)); [lia|]. apply andb_false_r. Qed.

Lemma in_range_false_after r index : index < fst r -> in_range r index = false.
Proof. intros H. unfold in_range. destruct (N.leb_spec (fst r) index); [lia|]. reflexivity. Qed.

Lemma in_range_iff r index : in_range r index = true <-> fst r <= index /\ index < snd r.
Proof. unfold in_range. now rewrite andb_true_iff, N.leb_le, N.ltb_lt. Qed.

Local Open Scope nat_scope.

(* ---------------------------------------------------------------------------------------- *)
(* F: find_call_stmt = the first site whose range contains the index                         *)

Lemma find_app_s {A} (f : A -> bool) (a b : list A) :
  find f (a ++ b) = match find f a with Some x => Some x | None => find f b end.
Proof. induction a as [|x a IH]; [reflexivity|]. cbn [app find]. destruct (f x); [reflexivity | exact IH]. Qed.

Lemma find_none_s {A} (f : A -> bool) (l : list A) : (forall x, In x l -> f x = false) -> find f l = None.
Proof.
  induction l as [|x l IH]; intros H; [reflexivity|]. cbn [find]. rewrite (H x (or_introl eq_refl)).
  apply IH. intros y Hy. apply H. now right.
Qed.

Lemma find_block toks index body inf off :
  find_call_in_stmt toks index (SBlock body inf) off = find_call_in_stmts toks index body off.
Proof.
  induction body as [|[s n] body IH]; [reflexivity|].
  cbn [find_call_in_stmts]. rewrite <- IH. reflexivity.
Qed.

Definition site_hit (toks : list token) (index : N) (x : site) : bool := in_range (site_range toks x) index.

Ltac lenh H := cbn [fl_stmt fl_stmts] in H; repeat (rewrite app_length in H || rewrite cm_length in H || cbn [length] in H).

Ltac at_off o' :=
  match goal with |- context [find_call_in_stmt _ _ (x_stmt 0 _) ?o] => replace o with o' by lia end.

Theorem find_call_sites toks index :
  (forall s off, off + len (fl_stmt s) <= len toks ->
     find_call_in_stmt toks index (x_stmt 0 s) off
     = ROk (option_map hit_of (find (site_hit toks index) (sites_stmt off s)))) /\
  (forall b off o, off + o + len (fl_stmts b) <= len toks ->
     find_call_in_stmts toks index (x_stmts o b) off
     = ROk (option_map hit_of (find (site_hit toks index) (sites_stmts (off + o) b)))).
Proof.
  apply astmt_mutind.
  - (* SEmp *) intros c off H. reflexivity.
  - (* SAsg *) intros v c1 e c2 off H. reflexivity.
  - (* SCal *) intros c1 f c2 a c3 c4 off H.
    pose proof (stmt_len_pos (SCal c1 f c2 a c3 c4)) as Hp.
    cbn [x_stmt find_call_in_stmt sites_stmt find Nat.add]. unfold slice_from.
    destruct (Nat.ltb_spec (len toks) off); [lia|]. cbn [rbind].
    rewrite (info_range_seg toks off _ Hp H). cbn [rbind].
    unfold site_hit, site_range, fl_call, call_stmt. cbn [fst snd k_c1 k_f k_c2 k_a k_c3 k_c4].
    destruct (in_range _ index); reflexivity.
  - (* SIfT *) intros c1 c2 e c3 t IHt off H. lenh H. cbn [x_stmt find_call_in_stmt sites_stmt].
    at_off (off + len c1 + 1 + len c2 + 1 + len (fl_cmp e) + len c3 + 1).
    rewrite IHt by lia. cbn [rbind]. destruct (find _ _); reflexivity.
  - (* SIfE *) intros c1 c2 e c3 t IHt c4 s IHs off H. lenh H. cbn [x_stmt find_call_in_stmt sites_stmt].
    at_off (off + len c1 + 1 + len c2 + 1 + len (fl_cmp e) + len c3 + 1).
    rewrite IHt by lia. cbn [rbind]. rewrite find_app_s. destruct (find _ (sites_stmt _ t)); [reflexivity|].
    at_off (off + len c1 + 1 + len c2 + 1 + len (fl_cmp e) + len c3 + 1 + len (fl_stmt t) + len c4 + 1).
    apply IHs. lia.
  - (* SWhl *) intros c1 c2 e c3 b IHb off H. lenh H. cbn [x_stmt find_call_in_stmt sites_stmt].
    at_off (off + len c1 + 1 + len c2 + 1 + len (fl_cmp e) + len c3 + 1).
    apply IHb. lia.
  - (* SBlk *) intros c1 b IHb c2 off H. lenh H. cbn [x_stmt sites_stmt]. rewrite find_block.
    rewrite IHb by lia. do 4 f_equal. lia.
  - (* SNil *) intros off o H. reflexivity.
  - (* SCons *) intros s IHs r IHr off o H. lenh H. cbn [x_stmts find_call_in_stmts sites_stmts].
    rewrite IHs by lia. cbn [rbind]. rewrite find_app_s. destruct (find _ (sites_stmt _ s)); [reflexivity|]. cbn [option_map].
    rewrite IHr by lia. do 4 f_equal. lia.
Qed.

Definition find_stmts_sites toks index := proj2 (find_call_sites toks index).

(* the sites of a chain inside the token vector have text ranges in text order: the one that contains
   the index is the first one *)
Lemma find_site toks index l1 x l2 lo hi :
  toks_sorted toks = true -> hi <= len toks -> chain lo hi (l1 ++ x :: l2) ->
  site_hit toks index x = true -> find (site_hit toks index) (l1 ++ x :: l2) = Some x.
Proof.
  intros Hs Hhi Hc Hx. destruct (chain_split _ _ _ _ _ Hc) as [Hl1 [_ [Hxe _]]].
  rewrite find_app_s. rewrite find_none_s; [cbn [find]; now rewrite Hx|].
  intros y Hy. rewrite Forall_forall in Hl1. specialize (Hl1 y Hy).
  unfold site_hit, site_range in *. apply in_range_iff in Hx as [Hx1 _].
  apply in_range_false_before.
  pose proof (call_len_pos (snd y)). pose proof (call_len_pos (snd x)).
  pose proof (seg_range_before toks (fst y) (len (fl_call (snd y))) (fst x) (len (fl_call (snd x))) Hs ltac:(lia) Hl1 ltac:(lia) ltac:(lia)).
  lia.
Qed.

(* no site contains the index *)
Lemma find_no_site toks index l :
  (forall x, In x l -> site_hit toks index x = false) -> find (site_hit toks index) l = None.
Proof. apply find_none_s. Qed.

(* ---------------------------------------------------------------------------------------- *)
(* P: the procedure around the cursor                                                        *)

Definition is_dproc (d : adecl) : bool := match d with DProc _ _ _ _ _ _ _ _ _ _ => true | DType _ _ _ _ _ _ => false end.

Lemma x_decl_proc d : is_dproc d = true -> x_decl d = GProc (the_proc d).
Proof. destruct d; [discriminate | reflexivity]. Qed.

Lemma the_proc_info d : is_dproc d = true -> pd_info (the_proc d) = mkinfo 0 (len (fl_decl d)).
Proof. destruct d; [discriminate | reflexivity]. Qed.

Lemma find_proc_hit toks index :
  toks_sorted toks = true ->
  forall l1 o d l2,
    o + len (flat_map fl_decl (l1 ++ d :: l2)) <= len toks -> is_dproc d = true ->
    in_range (seg_range toks (o + len (flat_map fl_decl l1)) (len (fl_decl d))) index = true ->
    find_proc toks index (x_decls o (l1 ++ d :: l2)) = ROk (Some (the_proc d, o + len (flat_map fl_decl l1))).
Proof.
  intros Hs. induction l1 as [|d' l1 IH]; intros o d l2 Hlen Hd Hin.
  - cbn [app flat_map length] in *. rewrite Nat.add_0_r in *. rewrite app_length in Hlen.
    pose proof (fl_decl_pos d) as Hp.
    cbn [x_decls find_proc]. rewrite (x_decl_proc d Hd), (the_proc_info d Hd). unfold slice_from.
    destruct (Nat.ltb_spec (len toks) o); [lia|]. cbn [rbind].
    rewrite (info_range_seg toks o _ Hp ltac:(lia)). cbn [rbind]. now rewrite Hin.
  - cbn [app flat_map] in *. rewrite app_length in *. pose proof (fl_decl_pos d') as Hp. pose proof (fl_decl_pos d) as Hpd.
    rewrite flat_map_app in Hlen. cbn [flat_map] in Hlen. rewrite !app_length in Hlen.
    assert (Hrec : find_proc toks index (x_decls (o + len (fl_decl d')) (l1 ++ d :: l2))
                   = ROk (Some (the_proc d, o + (len (fl_decl d') + len (flat_map fl_decl l1))))).
    { rewrite (IH (o + len (fl_decl d')) d l2).
      - do 3 f_equal. lia.
      - rewrite flat_map_app. cbn [flat_map]. rewrite !app_length. lia.
      - exact Hd.
      - replace (o + len (fl_decl d') + len (flat_map fl_decl l1)) with (o + (len (fl_decl d') + len (flat_map fl_decl l1))) by lia.
        exact Hin. }
    cbn [x_decls find_proc]. destruct (is_dproc d') eqn:Ed'.
    + rewrite (x_decl_proc d' Ed'), (the_proc_info d' Ed'). unfold slice_from.
      destruct (Nat.ltb_spec (len toks) o); [lia|]. cbn [rbind].
      rewrite (info_range_seg toks o _ Hp ltac:(lia)). cbn [rbind].
      apply in_range_iff in Hin as [Hin _].
      pose proof (seg_range_before toks o (len (fl_decl d')) (o + (len (fl_decl d') + len (flat_map fl_decl l1))) (len (fl_decl d))
                    Hs Hp ltac:(lia) Hpd ltac:(lia)) as Hb.
      rewrite in_range_false_before by lia. exact Hrec.
    + destruct d'; [|discriminate]. cbn [x_decl]. exact Hrec.
Qed.

(* find_proc never fails on the declarations of a mandated tree, and what it returns is one of them *)
Lemma find_proc_total_x toks index : forall l o,
  o + len (flat_map fl_decl l) <= len toks ->
  find_proc toks index (x_decls o l) = ROk None \/
  exists l1 d l2, l = l1 ++ d :: l2 /\ is_dproc d = true /\
    find_proc toks index (x_decls o l) = ROk (Some (the_proc d, o + len (flat_map fl_decl l1))).
Proof.
  induction l as [|d l IH]; intros o H; [now left|].
  cbn [flat_map] in H. rewrite app_length in H. pose proof (fl_decl_pos d) as Hp.
  assert (Hrec : find_proc toks index (x_decls (o + len (fl_decl d)) l) = ROk None \/
                 exists l1 d0 l2, d :: l = l1 ++ d0 :: l2 /\ is_dproc d0 = true /\
                   find_proc toks index (x_decls (o + len (fl_decl d)) l) = ROk (Some (the_proc d0, o + len (flat_map fl_decl l1)))).
  { destruct (IH (o + len (fl_decl d)) ltac:(lia)) as [Hn | [l1 [d0 [l2 [-> [Hd0 Hf]]]]]]; [now left|].
    right. exists (d :: l1), d0, l2. split; [reflexivity|]. split; [exact Hd0|]. rewrite Hf.
    cbn [flat_map]. rewrite app_length. do 3 f_equal. lia. }
  cbn [x_decls find_proc]. destruct (is_dproc d) eqn:Ed.
  - rewrite (x_decl_proc d Ed), (the_proc_info d Ed). unfold slice_from.
    destruct (Nat.ltb_spec (len toks) o); [lia|]. cbn [rbind].
    rewrite (info_range_seg toks o _ Hp ltac:(lia)). cbn [rbind].
    destruct (in_range _ index); [|exact Hrec].
    right. exists [], d, l. cbn [app flat_map length]. rewrite Nat.add_0_r. auto.
  - destruct d; [|discriminate]. cbn [x_decl]. exact Hrec.
Qed.

(* ---------------------------------------------------------------------------------------- *)
(* H: the handler                                                                            *)

(* the index of the first statement token of a procedure declaration, relative to the declaration *)
Definition body_off (d : adecl) : nat :=
  match d with
  | DProc c1 c2 x c3 ps c4 c5 vs b c6 =>
      len c1 + 1 + len c2 + 1 + len c3 + 1 + len (fl_sep fl_param ps) + len c4 + 1 + len c5 + 1 + len (flat_map fl_vardecl vs)
  | DType _ _ _ _ _ _ => 0
  end.
Definition body_of (d : adecl) : astmts :=
  match d with DProc _ _ _ _ _ _ _ _ b _ => b | DType _ _ _ _ _ _ => SNil end.

(* the call sites of a declaration that starts at token D *)
Definition decl_sites (D : nat) (d : adecl) : list site := sites_stmts (D + body_off d) (body_of d).

Lemma the_proc_stmts d : is_dproc d = true -> pd_stmts (the_proc d) = x_stmts (body_off d) (body_of d).
Proof. destruct d; [discriminate | reflexivity]. Qed.

Lemma decl_body_seg d : is_dproc d = true ->
  exists a b, fl_decl d = a ++ fl_stmts (body_of d) ++ b /\ len a = body_off d /\ 1 <= len b.
Proof.
  destruct d as [|c1 c2 x c3 ps c4 c5 vs b c6]; [discriminate|]. intros _. cbn [fl_decl body_of body_off].
  exists (cm c1 ++ KProc :: cm c2 ++ Ident x :: cm c3 ++ LParen :: fl_sep fl_param ps ++ cm c4 ++ RParen :: cm c5 ++ LCurly :: flat_map fl_vardecl vs),
         (cm c6 ++ [RCurly]).
  split; [listeq|]. split; leneq.
Qed.

(* the sites of a declaration lie inside the declaration *)
Lemma decl_sites_chain D d : chain (D + body_off d) (D + len (fl_decl d)) (decl_sites D d).
Proof.
  unfold decl_sites. destruct (is_dproc d) eqn:Ed.
  - destruct (decl_body_seg d Ed) as [a [b [Hfl [Ha Hb]]]].
    eapply chain_weaken; [apply (proj2 sites_chain) | lia|]. rewrite Hfl, !app_length. lia.
  - destruct d; [|discriminate]. cbn [body_of body_off sites_stmts chain]. pose proof (fl_decl_pos (DType c1 c2 x c3 t c4)). lia.
Qed.

Lemma decl_sites_seg K D d : seg_at K D (fl_decl d) ->
  Forall (fun x => seg_at K (fst x) (fl_call (snd x))) (decl_sites D d).
Proof.
  intros H. unfold decl_sites. destruct (is_dproc d) eqn:Ed.
  - destruct (decl_body_seg d Ed) as [a [b [Hfl [Ha Hb]]]].
    apply (proj2 (sites_seg K)). eapply (seg_in _ _ _ a _ b); [exact H | exact Hfl | lia].
  - destruct d; [|discriminate]. constructor.
Qed.

Local Open Scope N_scope.

Definition sighelp_answer (pe : pentry) (sl : list token) (index : N) : sighelp :=
  {| sh_label := show_pentry pe; sh_doc := sig_documentation (pe_doc pe);
     sh_params := map show_ventry (pe_params pe);
     sh_active := match pe_params pe with [] => None | _ :: _ => Some (commas_before sl index) end |}.

(* the site's range lies inside its declaration's range *)
Lemma site_in_decl toks D d x index :
  toks_sorted toks = true -> (D + len (fl_decl d) <= len toks)%nat -> In x (decl_sites D d) ->
  site_hit toks index x = true -> in_range (seg_range toks D (len (fl_decl d))) index = true.
Proof.
  intros Hs Hlen Hin Hx. apply in_split in Hin as [l1 [l2 Hl]].
  pose proof (decl_sites_chain D d) as Hc. rewrite Hl in Hc.
  destruct (chain_split _ _ _ _ _ Hc) as [_ [Hlo [Hhi _]]].
  pose proof (call_len_pos (snd x)) as Hp.
  unfold site_hit, site_range in Hx. apply in_range_iff in Hx as [H1 H2]. apply in_range_iff.
  pose proof (nth_error_nth' toks dtok (n := fst x) ltac:(lia)) as Ha.
  pose proof (nth_error_nth' toks dtok (n := (fst x + len (fl_call (snd x)) - 1)%nat) ltac:(lia)) as Hb.
  destruct (seg_range_tok toks D (len (fl_decl d)) (fst x) _ Hs ltac:(lia) ltac:(lia) Hlen Ha) as [Hx1 _].
  destruct (seg_range_tok toks D (len (fl_decl d)) (fst x + len (fl_call (snd x)) - 1) _ Hs ltac:(lia) ltac:(lia) Hlen Hb) as [_ Hx2].
  unfold seg_range in H1, H2. cbn [fst snd] in H1, H2. split; lia.
Qed.

(* the handler at a call site of declaration d of the program *)
Theorem sighelp_at_site (p : aprog) (G : gtable) (t : text) (toks : list token) l1 d l2 x pe line col :
  let doc := {| d_text := t; d_toks := toks; d_ast := expected p; d_table := G |} in
  let index := get_insertion_index line col t in
  toks_sorted toks = true -> a_decls p = l1 ++ d :: l2 -> is_dproc d = true ->
  (len (flat_map fl_decl (a_decls p)) <= len toks)%nat ->
  In x (decl_sites (len (flat_map fl_decl l1)) d) ->
  site_hit toks index x = true ->
  lookup G (k_f (snd x)) = Some (GProcE pe) ->
  signature_help doc line col
  = ROk (Some (sighelp_answer pe (firstn (len (fl_call (snd x))) (skipn (fst x) toks)) index)).
Proof.
  intros doc index Hs Hds Hd Hlen Hin Hx Hl.
  set (D := len (flat_map fl_decl l1)) in *.
  assert (HlenD : (D + len (fl_decl d) <= len toks)%nat).
  { rewrite Hds, flat_map_app in Hlen. cbn [flat_map] in Hlen. rewrite !app_length in Hlen. unfold D. lia. }
  unfold signature_help, doc_cursor, doc. cbn [d_text d_toks d_ast d_table]. fold index.
  unfold expected. cbn [pg_decls].
  destruct (find_decl_total_x toks index (a_decls p) 0 ltac:(cbn [Nat.add]; exact Hlen)) as [g Hg].
  rewrite Hg. cbn [rbind c_index].
  rewrite Hds. rewrite (find_proc_hit toks index Hs l1 0 d l2); [|rewrite <- Hds; exact Hlen | exact Hd|].
  2:{ cbn [Nat.add]. fold D. exact (site_in_decl toks D d x index Hs HlenD Hin Hx). }
  cbn [rbind Nat.add]. fold D. rewrite (the_proc_stmts d Hd).
  pose proof (decl_sites_chain D d) as Hc. unfold decl_sites in *.
  rewrite (find_stmts_sites toks index (body_of d) D (body_off d)).
  2:{ pose proof (chain_le _ _ _ Hc). destruct (is_dproc d) eqn:Ed; [|discriminate].
      destruct (decl_body_seg d Ed) as [a [b [Hfl [Ha Hb]]]]. rewrite Hfl, !app_length in HlenD. lia. }
  apply in_split in Hin as [s1 [s2 Hsp]]. rewrite Hsp in *.
  rewrite (find_site toks index s1 x s2 _ _ Hs HlenD Hc Hx). cbn [rbind option_map hit_of].
  cbn [id_val x_ident]. rewrite Hl.
  destruct (chain_split _ _ _ _ _ Hc) as [_ [_ [Hhi _]]].
  rewrite (slice_seg toks (fst x) (len (fl_call (snd x))) ltac:(lia)). cbn [rbind]. unfold sighelp_answer. do 3 f_equal.
  unfold get_active_param. destruct (pe_params pe) as [|v r]; [reflexivity|]. cbn [map]. f_equal.
  apply count_commas_spec. now apply toks_sorted_firstn, toks_sorted_skipn.
Qed.

(* no call site of the program contains the cursor: no answer *)
Theorem sighelp_no_site (p : aprog) (G : gtable) (t : text) (toks : list token) line col :
  let doc := {| d_text := t; d_toks := toks; d_ast := expected p; d_table := G |} in
  let index := get_insertion_index line col t in
  (len (flat_map fl_decl (a_decls p)) <= len toks)%nat ->
  (forall l1 d l2 x, a_decls p = l1 ++ d :: l2 -> In x (decl_sites (len (flat_map fl_decl l1)) d) ->
                     site_hit toks index x = false) ->
  signature_help doc line col = ROk None.
Proof.
  intros doc index Hlen Hno.
  unfold signature_help, doc_cursor, doc. cbn [d_text d_toks d_ast d_table]. fold index.
  unfold expected. cbn [pg_decls].
  destruct (find_decl_total_x toks index (a_decls p) 0 ltac:(cbn [Nat.add]; exact Hlen)) as [g Hg].
  rewrite Hg. cbn [rbind c_index].
  destruct (find_proc_total_x toks index (a_decls p) 0 ltac:(cbn [Nat.add]; exact Hlen)) as [Hn | [l1 [d [l2 [Hds [Hd Hf]]]]]].
  - rewrite Hn. reflexivity.
  - rewrite Hf. cbn [rbind Nat.add]. set (D := len (flat_map fl_decl l1)) in *.
    assert (HlenD : (D + len (fl_decl d) <= len toks)%nat).
    { rewrite Hds, flat_map_app in Hlen. cbn [flat_map] in Hlen. rewrite !app_length in Hlen. unfold D. lia. }
    rewrite (the_proc_stmts d Hd).
    rewrite (find_stmts_sites toks index (body_of d) D (body_off d)).
    2:{ destruct (decl_body_seg d Hd) as [a [b [Hfl [Ha Hb]]]]. rewrite Hfl, !app_length in HlenD. lia. }
    rewrite find_no_site; [reflexivity|]. intros x Hx. exact (Hno l1 d l2 x Hds Hx).
Qed.
