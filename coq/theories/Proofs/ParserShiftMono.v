(* Fuel monotonicity of the parser model: a run that does not end in PFuel returns the same result
   with any larger fuel (needed by the shift theorems because `parse_fuel` depends on the length of the
   whole token list).  [Mono p q]: wherever p does not run out of fuel, q returns what p returns.
   One lemma per combinator, then every non-terminal by induction on the smaller fuel. *)
From Coq Require Import Arith Lia List.
From Spl Require Import Model.Parser Proofs.ParserEqns.
Import ListNotations.
Local Open Scope nat_scope.

Definition Mono {A} (p q : parser A) : Prop := forall s, p s <> PFuel -> q s = p s.

Lemma Mono_refl {A} (p : parser A) : Mono p p.
Proof. intros s _. reflexivity. Qed.

Lemma Mono_trans {A} (p q r : parser A) : Mono p q -> Mono q r -> Mono p r.
Proof. intros H1 H2 s Hn. rewrite <- (H1 s Hn). apply H2. rewrite (H1 s Hn). exact Hn. Qed.

(* destructs the run of the smaller parser; the PFuel case contradicts the hypothesis *)
Ltac mono_case H s Hn :=
  let Hs := fresh "Hs" in
  pose proof (H s) as Hs;
  match type of Hs with ?p s <> _ -> _ =>
    destruct (p s) eqn:?; [ rewrite Hs by discriminate | rewrite Hs by discriminate | exfalso; apply Hn; reflexivity ]
  end.

Lemma Mono_map {A B} (f : A -> B) p q : Mono p q -> Mono (p_map f p) (p_map f q).
Proof. intros H s Hn. unfold p_map in *. mono_case H s Hn; reflexivity. Qed.

Lemma Mono_alt {A} (p q p' q' : parser A) : Mono p q -> Mono p' q' -> Mono (p_alt p p') (p_alt q q').
Proof. intros H H' s Hn. unfold p_alt in *. mono_case H s Hn; [reflexivity | apply H'; exact Hn]. Qed.

Lemma Mono_opt {A} (p q : parser A) : Mono p q -> Mono (p_opt p) (p_opt q).
Proof. intros H s Hn. unfold p_opt in *. mono_case H s Hn; reflexivity. Qed.

Lemma Mono_bind {A B} (p q : parser A) (k1 k2 : st -> A -> pres B) :
  Mono p q -> (forall a, Mono (fun s => k1 s a) (fun s => k2 s a)) ->
  Mono (fun s => bind (p s) k1) (fun s => bind (q s) k2).
Proof.
  intros H Hk s Hn. cbv beta in *. mono_case H s Hn; cbn [bind] in *; [|reflexivity].
  apply (Hk a). exact Hn.
Qed.

Lemma Mono_pair {A B} (p q : parser A) (p' q' : parser B) : Mono p q -> Mono p' q' -> Mono (p_pair p p') (p_pair q q').
Proof.
  intros H H'. unfold p_pair. apply Mono_bind; [exact H|]. intros a s Hn. cbv beta in *.
  mono_case H' s Hn; reflexivity.
Qed.

Lemma Mono_preceded {A B} (p q : parser A) (p' q' : parser B) :
  Mono p q -> Mono p' q' -> Mono (p_preceded p p') (p_preceded q q').
Proof. intros H H'. unfold p_preceded. apply Mono_map, Mono_pair; assumption. Qed.

Lemma Mono_terminated {A B} (p q : parser A) (p' q' : parser B) :
  Mono p q -> Mono p' q' -> Mono (p_terminated p p') (p_terminated q q').
Proof. intros H H'. unfold p_terminated. apply Mono_map, Mono_pair; assumption. Qed.

Lemma Mono_many0 {A} (p q : parser A) : Mono p q -> forall f f', f <= f' -> Mono (p_many0 f p) (p_many0 f' q).
Proof.
  intros H. induction f as [|f IH]; intros f' Hle s Hn; [exfalso; apply Hn; reflexivity|].
  destruct f' as [|f']; [lia|]. cbn [p_many0] in *.
  mono_case H s Hn; [|reflexivity]. destruct (Nat.eqb (pos s0) (pos s)); [reflexivity|].
  assert (Hn' : p_many0 f p s0 <> PFuel) by (intros E; apply Hn; rewrite E; reflexivity).
  rewrite (IH f' ltac:(lia) s0 Hn'). reflexivity.
Qed.

Lemma Mono_info {A} (p q : parser A) : Mono p q -> Mono (p_info p) (p_info q).
Proof. intros H s Hn. unfold p_info in *. mono_case H (set_ebuf s []) Hn; reflexivity. Qed.

Lemma Mono_expect {A} (p q : parser A) m : Mono p q -> Mono (p_expect p m) (p_expect q m).
Proof. intros H s Hn. unfold p_expect in *. mono_case H s Hn; reflexivity. Qed.

Lemma Mono_ref {A} (p q : parser A) : Mono p q -> Mono (p_ref p) (p_ref q).
Proof. intros H s Hn. unfold p_ref in *. mono_case H (set_refp s (pos s)) Hn; reflexivity. Qed.

Lemma Mono_confusable {A} (p q : parser A) m : Mono p q -> Mono (p_confusable p m) (p_confusable q m).
Proof. intros H. unfold p_confusable. apply Mono_bind; [apply Mono_info; exact H|]. intros a. apply Mono_refl. Qed.

Lemma Mono_restore {A} (p q : parser A) :
  Mono p q -> Mono (fun s => match p s with PErr _ => PErr s | r => r end) (fun s => match q s with PErr _ => PErr s | r => r end).
Proof. intros H s Hn. cbv beta in *. mono_case H s Hn; reflexivity. Qed.

Section Fuel.
Variable toks : list token.

Lemma Mono_list {A} (p q : parser A) f f' : Mono p q -> f <= f' -> Mono (p_list toks f p) (p_list toks f' q).
Proof.
  intros H Hle. unfold p_list. apply Mono_bind; [apply Mono_ref; exact H|]. intros hd.
  apply (Mono_bind
    (p_many0 f (p_map (fun r => (fst (fst r), snd r + snd (fst r))) (p_ref (p_preceded (p_tag toks (is_k Comma)) (p_ref p)))))
    (p_many0 f' (p_map (fun r => (fst (fst r), snd r + snd (fst r))) (p_ref (p_preceded (p_tag toks (is_k Comma)) (p_ref q)))))).
  - apply Mono_many0; [|exact Hle]. apply Mono_map, Mono_ref, Mono_preceded; [apply Mono_refl | apply Mono_ref; exact H].
  - intros tl. apply Mono_refl.
Qed.

Ltac mono_auto :=
  first
  [ eassumption
  | apply Mono_refl
  | lazymatch goal with
    | |- Mono (p_map _ _) (p_map _ _) => apply Mono_map; mono_auto
    | |- Mono (p_alt _ _) (p_alt _ _) => apply Mono_alt; mono_auto
    | |- Mono (p_pair _ _) (p_pair _ _) => apply Mono_pair; mono_auto
    | |- Mono (p_opt _) (p_opt _) => apply Mono_opt; mono_auto
    | |- Mono (p_info _) (p_info _) => apply Mono_info; mono_auto
    | |- Mono (p_expect _ _) (p_expect _ _) => apply Mono_expect; mono_auto
    | |- Mono (p_ref _) (p_ref _) => apply Mono_ref; mono_auto
    | |- Mono (p_confusable _ _) (p_confusable _ _) => apply Mono_confusable; mono_auto
    | |- Mono (p_preceded _ _) (p_preceded _ _) => apply Mono_preceded; mono_auto
    | |- Mono (p_terminated _ _) (p_terminated _ _) => apply Mono_terminated; mono_auto
    | |- Mono (p_many0 _ _) (p_many0 _ _) => apply Mono_many0; [mono_auto | lia]
    | |- Mono (p_list _ _ _) (p_list _ _ _) => apply Mono_list; [mono_auto | lia]
    | _ => apply Mono_restore; mono_auto
    end ].

Lemma Mono_rhs p q lhs op : Mono p q -> Mono (p_rhs p lhs op) (p_rhs q lhs op).
Proof. intros H. unfold p_rhs. apply Mono_bind; [apply Mono_expect; exact H|]. intros a. apply Mono_refl. Qed.

Definition LoopMono (l1 l2 : st -> expr -> pres expr) : Prop := forall s lhs, l1 s lhs <> PFuel -> l2 s lhs = l1 s lhs.

Lemma loop_mono (isop : kind -> bool) (pa pb : parser expr) (la lb : st -> expr -> pres expr) s lhs :
  Mono pa pb -> LoopMono la lb ->
  match p_tag toks isop s with
  | POk s1 op => bind (p_rhs pa lhs (op_of (tk op)) s1) (fun s2 e => la s2 e)
  | PErr _ => POk s lhs
  | PFuel => PFuel
  end <> PFuel ->
  match p_tag toks isop s with
  | POk s1 op => bind (p_rhs pb lhs (op_of (tk op)) s1) (fun s2 e => lb s2 e)
  | PErr _ => POk s lhs
  | PFuel => PFuel
  end =
  match p_tag toks isop s with
  | POk s1 op => bind (p_rhs pa lhs (op_of (tk op)) s1) (fun s2 e => la s2 e)
  | PErr _ => POk s lhs
  | PFuel => PFuel
  end.
Proof.
  intros Hp Hl Hn. destruct (p_tag toks isop s) as [s1 op| |]; try reflexivity.
  apply (Mono_bind (p_rhs pa lhs (op_of (tk op))) (p_rhs pb lhs (op_of (tk op))) la lb); [apply Mono_rhs; exact Hp | | exact Hn].
  intros e s2. apply Hl.
Qed.

Definition expr_mono (f : nat) : Prop := forall f', f <= f' ->
  Mono (p_variable toks f) (p_variable toks f') /\
  Mono (p_primary toks f) (p_primary toks f') /\
  Mono (p_factor toks f) (p_factor toks f') /\
  LoopMono (mul_loop toks f) (mul_loop toks f') /\
  Mono (p_mul toks f) (p_mul toks f') /\
  LoopMono (add_loop toks f) (add_loop toks f') /\
  Mono (p_add toks f) (p_add toks f') /\
  Mono (p_comparison toks f) (p_comparison toks f').

Lemma Mono_expr_all : forall f, expr_mono f.
Proof.
  induction f as [|f IH]; intros f' Hle.
  - unfold Mono, LoopMono. repeat split; intros; exfalso; match goal with H : _ <> PFuel |- _ => apply H; reflexivity end.
  - destruct f' as [|f']; [lia|]. destruct (IH f' ltac:(lia)) as (IHv & IHp & IHf & IHml & IHm & IHal & IHa & IHc).
    repeat split.
    + rewrite !p_variable_S. apply Mono_bind; [mono_auto|]. intros a. apply Mono_refl.
    + rewrite !p_primary_S. refine (_ : Mono (p_alt _ _) (p_alt _ _)). apply Mono_alt; [mono_auto|].
      apply Mono_alt; [mono_auto|]. apply Mono_bind; [mono_auto|]. intros a. apply Mono_refl.
    + rewrite !p_factor_S. refine (_ : Mono (p_alt _ _) (p_alt _ _)). mono_auto.
    + intros s lhs. rewrite !mul_loop_S. apply loop_mono; assumption.
    + rewrite !p_mul_S. apply (Mono_bind (p_factor toks f) (p_factor toks f')); [exact IHf|]. intros e s. apply IHml.
    + intros s lhs. rewrite !add_loop_S. apply loop_mono; assumption.
    + rewrite !p_add_S. apply (Mono_bind (p_mul toks f) (p_mul toks f')); [exact IHm|]. intros e s. apply IHal.
    + rewrite !p_comparison_S. apply (Mono_bind (p_add toks f) (p_add toks f')); [exact IHa|]. intros e s Hn. cbv beta in *.
      destruct (p_tag toks is_cmpop s) as [s1 op| |]; try reflexivity. apply Mono_rhs; [exact IHa | exact Hn].
Qed.

Lemma Mono_variable f f' : f <= f' -> Mono (p_variable toks f) (p_variable toks f').
Proof. intros H. apply (Mono_expr_all f f' H). Qed.
Lemma Mono_comparison f f' : f <= f' -> Mono (p_comparison toks f) (p_comparison toks f').
Proof. intros H. apply (Mono_expr_all f f' H). Qed.
Lemma Mono_expr f f' : f <= f' -> Mono (p_expr toks f) (p_expr toks f').
Proof. unfold p_expr. apply Mono_comparison. Qed.

Lemma Mono_texpr : forall f f', f <= f' -> Mono (p_texpr toks f) (p_texpr toks f').
Proof.
  induction f as [|f IH]; intros f' Hle; [intros s Hn; exfalso; apply Hn; reflexivity|].
  destruct f' as [|f']; [lia|]. pose proof (IH f' ltac:(lia)). rewrite !p_texpr_S.
  refine (_ : Mono (p_alt _ _) (p_alt _ _)). mono_auto.
Qed.

Lemma Mono_typedecl f f' : f <= f' -> Mono (p_typedecl toks f) (p_typedecl toks f').
Proof. intros Hle. pose proof (Mono_texpr f f' Hle). unfold p_typedecl. mono_auto. Qed.

Lemma Mono_vardecl f f' : f <= f' -> Mono (p_vardecl toks f) (p_vardecl toks f').
Proof. intros Hle. pose proof (Mono_texpr f f' Hle). unfold p_vardecl. mono_auto. Qed.

Lemma Mono_paramdecl f f' : f <= f' -> Mono (p_paramdecl toks f) (p_paramdecl toks f').
Proof. intros Hle. pose proof (Mono_texpr f f' Hle). unfold p_paramdecl. mono_auto. Qed.

Lemma Mono_argument f f' : f <= f' -> Mono (p_argument toks f) (p_argument toks f').
Proof. intros Hle. pose proof (Mono_expr f f' Hle). unfold p_argument. mono_auto. Qed.

Lemma Mono_call f f' : f <= f' -> Mono (p_call toks f) (p_call toks f').
Proof. intros Hle. pose proof (Mono_argument f f' Hle). unfold p_call. mono_auto. Qed.

Lemma Mono_assign f f' : f <= f' -> Mono (p_assign toks f) (p_assign toks f').
Proof. intros Hle. pose proof (Mono_variable f f' Hle). pose proof (Mono_expr f f' Hle). unfold p_assign. mono_auto. Qed.

Lemma Mono_stmt : forall f f', f <= f' -> Mono (p_stmt toks f) (p_stmt toks f').
Proof.
  induction f as [|f IH]; intros f' Hle; [intros s Hn; exfalso; apply Hn; reflexivity|].
  destruct f' as [|f']; [lia|]. assert (Hle' : f <= f') by lia.
  pose proof (IH f' Hle'). pose proof (Mono_expr f f' Hle'). pose proof (Mono_call f f' Hle'). pose proof (Mono_assign f f' Hle').
  rewrite !p_stmt_S. refine (_ : Mono (p_alt _ _) (p_alt _ _)). mono_auto.
Qed.

Lemma Mono_procdecl f f' : f <= f' -> Mono (p_procdecl toks f) (p_procdecl toks f').
Proof.
  intros Hle. pose proof (Mono_paramdecl f f' Hle). pose proof (Mono_vardecl f f' Hle). pose proof (Mono_stmt f f' Hle).
  unfold p_procdecl. mono_auto.
Qed.

Lemma Mono_gdecl f f' : f <= f' -> Mono (p_gdecl toks f) (p_gdecl toks f').
Proof.
  intros Hle. pose proof (Mono_typedecl f f' Hle). pose proof (Mono_procdecl f f' Hle). unfold p_gdecl. mono_auto.
Qed.

Lemma Mono_program f f' : f <= f' -> Mono (p_program toks f) (p_program toks f').
Proof. intros Hle. pose proof (Mono_gdecl f f' Hle). unfold p_program. mono_auto. Qed.

End Fuel.

(* fuel irrelevance: two runs that both terminate agree *)
Theorem gdecl_fuel_irrelevant toks f f' s :
  p_gdecl toks f s <> PFuel -> p_gdecl toks f' s <> PFuel -> p_gdecl toks f s = p_gdecl toks f' s.
Proof.
  intros H H'. destruct (le_ge_dec f f') as [Hle|Hge].
  - symmetry. exact (Mono_gdecl toks f f' Hle s H).
  - exact (Mono_gdecl toks f' f Hge s H').
Qed.
