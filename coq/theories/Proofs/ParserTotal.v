(* T3: on a token list whose last token is its only Eof token, the parser cannot fail:
   p_program never returns PErr, i.e. parse toks <> Panic. *)
From Coq Require Import Arith Lia List.
From Spl Require Import Model.Parser Proofs.ParserComb Proofs.ParserEqns Proofs.ParserFwd Proofs.ParserDecl.
Local Open Scope nat_scope.

(* what the lexer guarantees (Props/C06.v, C06_one_eof) *)
Definition EofLast (toks : list token) : Prop :=
  exists body e, toks = body ++ [e] /\ tk e = Eof /\ Forall (fun t => tk t <> Eof) body.

Section Total.
Variable toks : list token.
Hypothesis HE : EofLast toks.
Notation N := (length toks).
Notation Fwd0 := (Fwd toks sync_none).
Notation FwdF := (Fwd toks sync_full).

Lemma N_pos : 0 < N.
Proof. destruct HE as (b & e & -> & _). rewrite app_length. cbn. lia. Qed.

Lemma eof_at_last : exists e, nth_error toks (N - 1) = Some e /\ tk e = Eof.
Proof.
  destruct HE as (b & e & -> & He & _). exists e. split; [|exact He].
  rewrite app_length. cbn [length]. replace (length b + 1 - 1) with (length b) by lia.
  rewrite nth_error_app2 by lia. now rewrite Nat.sub_diag.
Qed.

Lemma eof_only_last i t : nth_error toks i = Some t -> tk t = Eof -> i = N - 1.
Proof.
  destruct HE as (b & e & -> & He & Hb). intros Ht Hk. rewrite app_length. cbn [length].
  destruct (le_lt_dec (length b) i) as [Hle|Hlt].
  - assert (i < length (b ++ [e])) by (apply nth_error_Some; congruence). rewrite app_length in H. cbn in H. lia.
  - rewrite nth_error_app1 in Ht by exact Hlt. apply nth_error_In in Ht.
    rewrite Forall_forall in Hb. now apply Hb in Ht.
Qed.

Lemma noneof_lt i t : nth_error toks i = Some t -> tk t <> Eof -> S i < N.
Proof.
  intros Ht Hk. assert (i < N) by (apply nth_error_Some; congruence).
  destruct (Nat.eq_dec i (N - 1)) as [->|]; [|lia].
  destruct eof_at_last as (e & He & Hke). congruence.
Qed.

Lemma sig_lt p : p < N -> sig_at toks p < N.
Proof.
  intros Hp. destruct eof_at_last as (e & He & Hke).
  assert (sig_at toks p <= N - 1); [|lia].
  apply sig_at_stop with e; [lia | exact He | now rewrite Hke].
Qed.

Lemma sig_tok p : p < N -> exists t, nth_error toks (sig_at toks p) = Some t.
Proof.
  intros Hp. apply sig_lt in Hp. apply nth_error_Some in Hp.
  destruct (nth_error toks (sig_at toks p)); [eauto | congruence].
Qed.

Lemma Skips_full_lt a b : a < N -> Skips toks sync_full a b -> b <= N -> b < N.
Proof.
  intros Ha Hsk Hb. destruct (Nat.eq_dec b N) as [->|]; [|lia]. exfalso.
  destruct eof_at_last as (e & He & Hke). assert (H : a <= N - 1 < N) by lia.
  specialize (Hsk (N - 1) H e He). now rewrite Hke in Hsk.
Qed.

Lemma Mv_full_lt s s' : Mv toks sync_full s s' -> pos s < N -> pos s' < N.
Proof. intros (_ & M2 & _ & M4) Hs. eapply Skips_full_lt; eassumption. Qed.

Lemma la_global_last : la_global toks (N - 1) = true.
Proof.
  destruct eof_at_last as (e & He & Hke). unfold la_global. rewrite la_tag_spec.
  rewrite (sig_at_self toks (N - 1) e He) by now rewrite Hke. now rewrite He, Hke.
Qed.

Lemma la_stmt_last : la_stmt toks (N - 1) = true.
Proof. unfold la_stmt. rewrite la_global_last. now rewrite orb_true_r. Qed.
Lemma la_var_dec_last : la_var_dec toks (N - 1) = true.
Proof. unfold la_var_dec. rewrite la_stmt_last. now rewrite orb_true_r. Qed.
Lemma la_param_last : la_param toks (N - 1) = true.
Proof. unfold la_param. rewrite la_var_dec_last. now rewrite orb_true_r. Qed.

(* ---------------------------------------------------------------------------------------- *)
Definition NoErr {A} (p : parser A) : Prop := forall s e, pos s < N -> p s <> PErr e.

Lemma NoErr_expect {A} (p : parser A) m : NoErr (p_expect p m).
Proof. intros s e _. apply p_expect_noerr. Qed.

Lemma NoErr_map {A B} (f : A -> B) p : NoErr p -> NoErr (p_map f p).
Proof. intros Hp s e Hs H. apply p_map_err in H. now apply Hp in H. Qed.

Lemma NoErr_info {A} (p : parser A) : NoErr p -> NoErr (p_info p).
Proof. intros Hp s e Hs H. apply p_info_err in H as (s1 & H & _). now apply Hp in H. Qed.

Lemma NoErr_ref {A} (p : parser A) : NoErr p -> NoErr (p_ref p).
Proof. intros Hp s e Hs H. apply p_ref_err in H as (s1 & H & _). now apply Hp in H. Qed.

Lemma NoErr_alt_r {A} (p q : parser A) : NoErr q -> NoErr (p_alt p q).
Proof. intros Hq s e Hs H. apply p_alt_err in H as [_ H]. now apply Hq in H. Qed.

Lemma NoErr_alt_l {A} (p q : parser A) : NoErr p -> NoErr (p_alt p q).
Proof. intros Hp s e Hs H. apply p_alt_err in H as [[e' H] _]. now apply Hp in H. Qed.

Lemma NoErr_pair {A B} (p : parser A) (q : parser B) : NoErr p -> FwdF p -> NoErr q -> NoErr (p_pair p q).
Proof.
  intros Hp Fp Hq s e Hs H. apply p_pair_err in H as [H|(s1 & a & H1 & H)]; [now apply Hp in H|].
  apply (Fwd_ok _ _ _ _ _ _ Fp) in H1; [|lia]. apply Hq in H; [exact H | eapply Mv_full_lt; eassumption].
Qed.

Lemma NoErr_many0 {A} fuel (p : parser A) : Prog toks p -> Fwd0 p -> NoErr (p_many0 fuel p).
Proof. intros Hp Fp s e Hs. apply (many0_noerr toks); [assumption | assumption | lia]. Qed.

Lemma ignore_from_total n la s :
  la (N - 1) = true -> pos s < N -> N - 1 - pos s <= n -> exists s', ignore_from toks n la s = POk s' tt.
Proof.
  intros Hla. revert s. induction n as [|n IH]; intros s Hs Hn; cbn [ignore_from];
    destruct (la (pos s)) eqn:E; eauto.
  - replace (pos s) with (N - 1) in E by lia. congruence.
  - assert (pos s <> N - 1) by (intros Heq; rewrite Heq in E; congruence).
    rewrite (proj2 (Nat.ltb_lt (pos s) N)) by lia. apply IH; cbn [pos adv]; lia.
Qed.

Lemma NoErr_ignore0 la : la (N - 1) = true -> NoErr (p_ignore0 toks la).
Proof.
  intros Hla s e Hs. unfold p_ignore0.
  destruct (ignore_from_total (S (N - pos s)) la s Hla Hs) as [s' ->]; [lia|]. discriminate.
Qed.

Lemma HsF : forall k, sync_full k = true -> k = KProc \/ k = KType \/ k = Eof.
Proof. exact sync_full_ok. Qed.

Lemma NoErr_paramdecl f : NoErr (p_paramdecl toks f).
Proof. unfold p_paramdecl. apply NoErr_alt_r, NoErr_map, NoErr_info, NoErr_ignore0, la_param_last. Qed.

Lemma NoErr_list {A} fuel (p : parser A) : NoErr p -> FwdF p -> Fwd0 p -> NoErr (p_list toks fuel p).
Proof.
  intros Hp Fp F0 s e Hs H. unfold p_list in H.
  apply bind_err in H as [H|(s1 & hd & H1 & H)]; [now apply (NoErr_ref p Hp) in H|].
  apply (Fwd_ok _ _ _ _ _ _ (Fwd_ref _ _ _ Fp)) in H1; [|lia].
  apply bind_err in H as [H|(s2 & tl & _ & H)]; [|discriminate].
  revert H. apply NoErr_many0; [| |eapply Mv_full_lt; eassumption].
  - apply Prog_map, Prog_ref, Prog_map, Prog_pair_l; [apply Prog_tag| |]; fwd_solve Hs0.
  - fwd_solve Hs0.
Qed.

Lemma NoErr_typedecl_rest f : NoErr (typedecl_rest toks f).
Proof.
  unfold typedecl_rest.
  repeat (apply NoErr_pair; [apply NoErr_expect | solve [fwd_solve HsF] |]). apply NoErr_expect.
Qed.

Lemma NoErr_procdecl_rest f : NoErr (procdecl_rest toks f).
Proof.
  unfold procdecl_rest.
  do 2 (apply NoErr_pair; [apply NoErr_expect | solve [fwd_solve HsF] |]).
  apply NoErr_pair; [|solve [fwd_solve HsF]|].
  { apply NoErr_alt_r, NoErr_list; [apply NoErr_paramdecl | fwd_solve HsF | fwd_solve Hs0]. }
  do 2 (apply NoErr_pair; [apply NoErr_expect | solve [fwd_solve HsF] |]).
  apply NoErr_pair; [|solve [fwd_solve HsF]|].
  { apply NoErr_many0; [apply Prog_ref, Prog_vardecl | fwd_solve Hs0]. }
  apply NoErr_pair; [|solve [fwd_solve HsF]|apply NoErr_expect].
  apply NoErr_many0; [apply Prog_ref, Prog_stmt | fwd_solve Hs0].
Qed.

(* a declaration introduced by a keyword succeeds whenever the next significant token is the keyword *)
Lemma head_noerr {B} f (rest : parser B) s t e :
  NoErr rest -> pos s < N -> nth_error toks (sig_at toks (pos s)) = Some t -> f (tk t) = true -> tk t <> Eof ->
  p_info (p_pair (p_comments toks) (p_pair (p_tag toks f) rest)) s <> PErr e.
Proof.
  intros Hr Hs Ht Hf Hk H. apply p_info_err in H as (s1 & H & _).
  apply p_pair_err in H as [H|(s2 & cs & H2 & H)]; [discriminate H|].
  apply p_comments_ok in H2 as [-> _]. cbn [pos set_ebuf] in H.
  pose proof (sig_at_ge toks (pos s)) as Hge.
  assert (Hpos : pos (adv (set_ebuf s []) (sig_at toks (pos s) - pos s)) = sig_at toks (pos s))
    by (cbn [pos adv set_ebuf]; lia).
  assert (Ht' : nth_error toks (sig_at toks (pos (adv (set_ebuf s []) (sig_at toks (pos s) - pos s)))) = Some t)
    by (rewrite Hpos, sig_at_idem; exact Ht).
  apply p_pair_err in H as [H|(s3 & t' & H3 & H)].
  - rewrite (p_tag_hit toks f _ t Ht' Hf) in H. discriminate.
  - rewrite (p_tag_hit toks f _ t Ht' Hf) in H3.
    assert (E3 : s3 = adv (adv (set_ebuf s []) (sig_at toks (pos s) - pos s))
                          (S (sig_at toks (pos s)) - sig_at toks (pos s))).
    { rewrite Hpos, sig_at_idem in H3. congruence. }
    apply Hr in H; [exact H|]. rewrite E3. cbn [pos adv set_ebuf].
    pose proof (noneof_lt _ _ Ht Hk). lia.
Qed.

Lemma typedecl_noerr fuel s t e :
  pos s < N -> nth_error toks (sig_at toks (pos s)) = Some t -> tk t = KType -> p_typedecl toks fuel s <> PErr e.
Proof.
  intros Hs Ht Hk H. rewrite p_typedecl_eq in H. apply p_map_err in H. revert H.
  apply head_noerr with t; [apply NoErr_typedecl_rest | exact Hs | exact Ht | now rewrite Hk | now rewrite Hk].
Qed.

Lemma procdecl_noerr fuel s t e :
  pos s < N -> nth_error toks (sig_at toks (pos s)) = Some t -> tk t = KProc -> p_procdecl toks fuel s <> PErr e.
Proof.
  intros Hs Ht Hk H. rewrite p_procdecl_eq in H. apply p_map_err in H. revert H.
  apply head_noerr with t; [apply NoErr_procdecl_rest | exact Hs | exact Ht | now rewrite Hk | now rewrite Hk].
Qed.

(* the error alternative succeeds whenever the next significant token is none of proc/type/Eof *)
Lemma gerror_noerr s e :
  pos s < N -> la_global toks (pos s) = false -> p_info (p_ignore1 toks (la_global toks)) s <> PErr e.
Proof.
  intros Hs Hla H. apply p_info_err in H as (s1 & H & _). unfold p_ignore1 in H.
  cbn [pos set_ebuf] in H. rewrite Hla in H. revert H. apply NoErr_ignore0; [apply la_global_last | exact Hs].
Qed.

(* a global declaration fails only in front of (comments +) Eof *)
Lemma gdecl_err_eof fuel s e :
  pos s < N -> p_gdecl toks fuel s = PErr e ->
  exists t, nth_error toks (sig_at toks (pos s)) = Some t /\ tk t = Eof.
Proof.
  intros Hs H. destruct (sig_tok _ Hs) as [t Ht]. exists t. split; [exact Ht|].
  unfold p_gdecl in H. apply p_alt_err in H as [[e1 H1] H]. apply p_alt_err in H as [[e2 H2] H].
  apply p_map_err in H1, H2, H.
  destruct (tk t) eqn:Hk; try reflexivity; exfalso;
    try (revert H; apply gerror_noerr; [exact Hs|]; unfold la_global; rewrite la_tag_spec, Ht, Hk; reflexivity).
  - revert H2. now apply procdecl_noerr with t.
  - revert H1. now apply typedecl_noerr with t.
Qed.

(* and it does fail there *)
Lemma decl_span_lt g a b : a < N -> b <= N -> decl_span toks g a b -> b < N.
Proof.
  intros Ha Hb. destruct g; cbn [decl_span].
  - intros (t & Ht & Hk & Hlt & Hsk). apply Skips_full_lt with (S (sig_at toks a)); [|exact Hsk|exact Hb].
    apply (noneof_lt _ _ Ht). now rewrite Hk.
  - intros (t & Ht & Hk & Hlt & Hsk). apply Skips_full_lt with (S (sig_at toks a)); [|exact Hsk|exact Hb].
    apply (noneof_lt _ _ Ht). now rewrite Hk.
  - intros (_ & Hsk & _). eapply Skips_full_lt; eassumption.
Qed.

Lemma many0_inv {A} (P : st -> Prop) fuel (p : parser A) :
  (forall s s' a, P s -> p s = POk s' a -> P s') ->
  forall s s' l, P s -> p_many0 fuel p s = POk s' l -> P s'.
Proof.
  intros Hp. induction fuel as [|f IH]; intros s s' l Hs; cbn [p_many0]; [discriminate|].
  destruct (p s) as [s1 a|e1|] eqn:E; [| intros [= <- _]; exact Hs | discriminate].
  destruct (Nat.eqb (pos s1) (pos s)); [discriminate|]. intros H.
  apply bind_ok in H as (s2 & l2 & H & [= -> _]). eapply IH; [|exact H]. eapply Hp; eassumption.
Qed.

Lemma many0_gdecl_lt fuel fuel' s s' l :
  pos s < N -> p_many0 fuel (p_ref (p_gdecl toks fuel')) s = POk s' l -> pos s' < N.
Proof.
  apply (many0_inv (fun s => pos s < N)). intros s1 s2 [g off] H1 H.
  apply ref_gdecl_shape in H as (_ & A1 & A2 & _ & _ & _ & _ & A3); [|lia].
  eapply decl_span_lt; eassumption.
Qed.

Lemma eof_all_ok s t :
  nth_error toks (sig_at toks (pos s)) = Some t -> tk t = Eof ->
  p_eof_all toks s = POk (adv s (N - pos s)) tt.
Proof.
  intros Ht Hk. unfold p_eof_all. rewrite (p_tag_hit toks (is_k Eof) s t Ht) by now rewrite Hk.
  cbn [bind pos adv]. pose proof (eof_only_last _ _ Ht Hk) as Hl. pose proof N_pos.
  pose proof (sig_at_ge toks (pos s)).
  replace (pos s + (S (sig_at toks (pos s)) - pos s)) with N by lia.
  rewrite Nat.ltb_irrefl. do 2 f_equal. lia.
Qed.

(* T3 *)
Theorem program_noerr fuel s e : pos s < N -> p_program toks fuel s <> PErr e.
Proof.
  intros Hs H. unfold p_program in H. apply p_map_err in H.
  apply p_pair_err in H as [H|(s1 & a & H1 & H)].
  - apply p_info_err in H as (s1 & H & _). revert H. apply many0_gdecl_noerr. cbn; lia.
  - apply p_info_ok in H1 as (s2 & H1 & -> & _).
    pose proof (many0_gdecl_lt _ _ (set_ebuf s []) _ _ Hs H1) as Hlt.
    apply many0_ok_stop in H1 as [e1 H1]. apply p_ref_err in H1 as (s3 & H1 & _).
    apply gdecl_err_eof in H1 as (t & Ht & Hk); [|exact Hlt]. cbn [pos set_refp] in Ht.
    rewrite (eof_all_ok (set_ebuf s2 (ebuf s)) t Ht Hk) in H. discriminate.
Qed.

End Total.

Theorem parse_no_panic toks : EofLast toks -> parse toks <> Panic.
Proof.
  intros HE. unfold parse.
  destruct (p_program toks (parse_fuel toks) {| pos := 0; refp := 0; ebuf := [] |}) as [s p|e|] eqn:E;
    try discriminate.
  exfalso. revert E. apply program_noerr; [exact HE|]. cbn. now apply N_pos.
Qed.
