(* C03 - syntax faults: what errors() collects from the mandated tree (exactly the one prescribed message, the empty range
   at the token in front of the gap), the analysis (it adds nothing when the tree is well-typed: the typing judgements of
   Spec/Typing.v never look at an attached error), and the statement from texts on. *)
From Coq Require Import List Lia Arith Bool.
From Spl Require Import Proofs.GrammarProofs Spec.Typing Model.Errors Proofs.SemProofs Proofs.TypingProofs Proofs.DeclFaultsText.
From Spl Require Import Proofs.SynFaults Proofs.SynFaultsEP Proofs.SynFaultsStmt Proofs.SynFaultsProg.
Import ListNotations.
Local Open Scope nat_scope.

(* the prescribed diagnostic, as a token range: the message of the missing token, the empty range at token g *)
Definition fault_err (k : kind) (g : nat) : err := gap_err (msg_of_kind k) g.

Lemma x_args_errors a o : args_errors (x_sep fl_cmp (x_cmp 0) o a) = [].
Proof.
  apply args_errors_clean. destruct a as [[e l]|]; cbn [x_sep forallb fst]; [|reflexivity]. now rewrite clean_cmp, clean_tail.
Qed.

Lemma x_stmt_errors o s : stmt_errors (x_stmt o s) = [].
Proof. apply clean_stmt_errors, clean_stmt_all. Qed.

Lemma x_stmts_errors o b : stmts_errors (x_stmts o b) = [].
Proof. apply stmts_errors_clean, clean_stmt_all. Qed.

Lemma x_cmp_errors o e : expr_errors (x_cmp o e) = [].
Proof. apply cl_e, clean_cmp. Qed.

Ltac one_err0 := unfold fault_err, gap_err, shift_e; cbn [e_s e_e e_m]; f_equal; f_equal; lia.

Lemma x_var_errors o v : var_errors (x_var o v) = [].
Proof. apply cl_v, clean_var_ok. Qed.
Lemma x_fac_errors o f : expr_errors (x_fac o f) = [].
Proof. apply cl_e, clean_expr_all. Qed.
Lemma x_mul_errors o m : expr_errors (x_mul o m) = [].
Proof. apply cl_e, clean_expr_all. Qed.
Lemma x_add_errors o a : expr_errors (x_add o a) = [].
Proof. apply cl_e, clean_expr_all. Qed.

(* exactly one error in the faulty expression: at the token in front of the gap *)
Lemma fxe_errors :
  (forall v o, var_errors (fx_var o v) = [fault_err (gk_var v) (o + gap_var v)]) /\
  (forall f o, expr_errors (fx_fac o f) = [fault_err (gk_fac f) (o + gap_fac f)]) /\
  (forall m o, expr_errors (fx_mul o m) = [fault_err (gk_mul m) (o + gap_mul m)]) /\
  (forall a o, expr_errors (fx_add o a) = [fault_err (gk_add a) (o + gap_add a)]) /\
  (forall e o, expr_errors (fx_cmp o e) = [fault_err (gk_cmp e) (o + gap_cmp e)]).
Proof.
  apply fexpr_mutind; intros; fxg_eqs; cbn [var_errors expr_errors gk_var gk_fac gk_mul gk_add gk_cmp gap_var gap_fac gap_mul gap_add gap_cmp
                                             einfo mkinfo i_errs app];
    rewrite ?x_var_errors, ?x_cmp_errors, ?x_fac_errors, ?x_mul_errors, ?x_add_errors, ?H; cbn [shift_es map app]; rewrite ?app_nil_r;
    try reflexivity; try one_err0.
Qed.

Ltac one_err := unfold fault_err, gap_err, shift_e; cbn [e_s e_e e_m]; f_equal; f_equal; lia.

Lemma x_tail_errors o l : args_errors (x_tail fl_cmp (x_cmp 0) o l) = [].
Proof. apply args_errors_clean, clean_tail. Qed.

Lemma fx_args_errors a o : args_errors (fx_args o a) = [fault_err (gk_args a) (o + gap_args a)].
Proof.
  destruct a as [e l|e0 pre c e post]; cbn [fxg_args gk_args gap_args]; cbv zeta; unfold args_errors; cbn [flat_map fst snd].
  - fold (args_errors (x_tail fl_cmp (x_cmp 0) (o + len (ffl_cmp e)) l)).
    rewrite x_tail_errors, (proj2 (proj2 (proj2 (proj2 fxe_errors)))), app_nil_r. cbn [shift_es map]. one_err.
  - rewrite flat_map_app. cbn [flat_map fst snd].
    fold (args_errors (x_tail fl_cmp (x_cmp 0) (o + len (fl_cmp e0)) pre)).
    match goal with |- context [flat_map _ (x_tail fl_cmp (x_cmp 0) ?o2 post)] => fold (args_errors (x_tail fl_cmp (x_cmp 0) o2 post)) end.
    rewrite !x_tail_errors, x_cmp_errors, (proj2 (proj2 (proj2 (proj2 fxe_errors)))), app_nil_r. cbn [shift_es map app]. one_err.
Qed.

(* exactly one error in the faulty statement: at the token in front of the gap *)
Lemma fx_errors :
  (forall s o, stmt_errors (fx_stmt o s) = [fault_err (gk_stmt s) (o + gap_stmt s)]) /\
  (forall b o, stmts_errors (fx_stmts o b) = [fault_err (gk_stmts b) (o + gap_stmts b)]).
Proof.
  apply fstmt_mutind.
  - intros v c1 e o. cbn [fxg_stmt stmt_errors opt_expr_errors einfo i_errs gk_stmt].
    rewrite (cl_v _ (clean_var_ok v o)), x_cmp_errors. reflexivity.
  - intros c1 f c2 a c3 o. cbn [fxg_stmt gk_stmt]. rewrite call_errors. cbn [einfo i_errs]. unfold ident_errors, x_ident.
    cbn [id_info mkinfo i_errs]. rewrite x_args_errors. reflexivity.
  - intros c1 f c2 a c4 o. cbn [fxg_stmt gk_stmt]. rewrite call_errors. cbn [einfo i_errs]. unfold ident_errors, x_ident.
    cbn [id_info mkinfo i_errs]. rewrite x_args_errors. reflexivity.
  - intros c1 c2 e t o. cbn [fxg_stmt gk_stmt]. rewrite stmt_errors_if. cbn [einfo i_errs opt_expr_errors opt_stmt_errors].
    rewrite x_cmp_errors, x_stmt_errors. reflexivity.
  - intros c1 c2 e t c4 s o. cbn [fxg_stmt gk_stmt]. rewrite stmt_errors_if. cbn [einfo i_errs opt_expr_errors opt_stmt_errors].
    rewrite x_cmp_errors, !x_stmt_errors. reflexivity.
  - intros c1 c2 e b o. cbn [fxg_stmt gk_stmt]. rewrite stmt_errors_while. cbn [einfo i_errs opt_expr_errors opt_stmt_errors].
    rewrite x_cmp_errors, x_stmt_errors. reflexivity.
  - intros v c1 e c2 o. cbn [fxg_stmt gap_stmt gk_stmt stmt_errors opt_expr_errors mkinfo i_errs app].
    rewrite (proj1 fxe_errors), x_cmp_errors. cbn [shift_es map]. rewrite app_nil_r. reflexivity.
  - intros v c1 e c2 o. cbn [fxg_stmt gap_stmt gk_stmt stmt_errors opt_expr_errors mkinfo i_errs app].
    rewrite x_var_errors, (proj2 (proj2 (proj2 (proj2 fxe_errors)))). cbn [shift_es map app]. one_err.
  - intros c1 c2 e c3 t o. cbn [fxg_stmt gap_stmt gk_stmt]. rewrite stmt_errors_if. cbn [mkinfo i_errs opt_expr_errors opt_stmt_errors app].
    rewrite (proj2 (proj2 (proj2 (proj2 fxe_errors)))), x_stmt_errors. cbn [shift_es map app]. one_err.
  - intros c1 c2 e c3 t c4 s o. cbn [fxg_stmt gap_stmt gk_stmt]. rewrite stmt_errors_if. cbn [mkinfo i_errs opt_expr_errors opt_stmt_errors app].
    rewrite (proj2 (proj2 (proj2 (proj2 fxe_errors)))), !x_stmt_errors. cbn [shift_es map app]. one_err.
  - intros c1 c2 e c3 b o. cbn [fxg_stmt gap_stmt gk_stmt]. rewrite stmt_errors_while. cbn [mkinfo i_errs opt_expr_errors opt_stmt_errors app].
    rewrite (proj2 (proj2 (proj2 (proj2 fxe_errors)))), x_stmt_errors. cbn [shift_es map app]. one_err.
  - intros c1 f c2 a c3 c4 o. cbn [fxg_stmt gap_stmt gk_stmt]. rewrite call_errors. cbn [mkinfo i_errs]. unfold ident_errors, x_ident.
    cbn [id_info mkinfo i_errs app]. rewrite fx_args_errors. one_err.
  - intros c1 c2 e c3 t IH o. cbn [fxg_stmt gap_stmt gk_stmt]. rewrite stmt_errors_if. cbn [mkinfo i_errs opt_expr_errors opt_stmt_errors app].
    rewrite x_cmp_errors, IH. cbn [shift_es map app]. rewrite ?app_nil_r. one_err.
  - intros c1 c2 e c3 t IH c4 s o. cbn [fxg_stmt gap_stmt gk_stmt]. rewrite stmt_errors_if. cbn [mkinfo i_errs opt_expr_errors opt_stmt_errors app].
    rewrite x_cmp_errors, IH, x_stmt_errors. cbn [shift_es map app]. one_err.
  - intros c1 c2 e c3 t c4 s IH o. cbn [fxg_stmt gap_stmt gk_stmt]. rewrite stmt_errors_if. cbn [mkinfo i_errs opt_expr_errors opt_stmt_errors app].
    rewrite x_cmp_errors, IH, x_stmt_errors. cbn [shift_es map app]. one_err.
  - intros c1 c2 e c3 b IH o. cbn [fxg_stmt gap_stmt gk_stmt]. rewrite stmt_errors_while. cbn [mkinfo i_errs opt_expr_errors opt_stmt_errors app].
    rewrite x_cmp_errors, IH. cbn [shift_es map app]. one_err.
  - intros c1 b IH c2 o.
    change (fx_stmt o (FBlk c1 b c2)) with (SBlock (fx_stmts (o + len c1 + 1) b) (mkinfo o (o + len (ffl_stmt (FBlk c1 b c2))))).
    cbn [gap_stmt gk_stmt]. rewrite stmt_errors_block. cbn [mkinfo i_errs app].
    fold (stmts_errors (fx_stmts (o + len c1 + 1) b)). rewrite IH. one_err.
  - intros s IH r o.
    change (fx_stmts o (FHere s r)) with ((fx_stmt 0 s, o) :: x_stmts (o + len (ffl_stmt s)) r).
    cbn [gap_stmts gk_stmts]. unfold stmts_errors. cbn [flat_map fst snd].
    fold (stmts_errors (x_stmts (o + len (ffl_stmt s)) r)). rewrite x_stmts_errors, IH, app_nil_r. cbn [shift_es map]. one_err.
  - intros s r IH o.
    change (fx_stmts o (FLater s r)) with ((x_stmt 0 s, o) :: fx_stmts (o + len (fl_stmt s)) r).
    cbn [gap_stmts gk_stmts]. unfold stmts_errors. cbn [flat_map fst snd].
    fold (stmts_errors (fx_stmts (o + len (fl_stmt s)) r)). rewrite x_stmt_errors, IH. cbn [shift_es map app]. one_err.
Qed.

Lemma x_params_errors o ps :
  flat_map (fun x : paramdecl * nat => shift_es (snd x) (paramdecl_errors (fst x))) (x_sep fl_param x_param o ps) = [].
Proof.
  apply flat_map_nil. intros [q off] Hin.
  assert (Hc : clean_paramdecl q = true).
  { destruct ps as [[p l]|]; cbn [x_sep] in Hin; [|contradiction]. destruct Hin as [Hin|Hin].
    - injection Hin as <- _. apply clean_param.
    - pose proof (clean_params_tail l (o + len (fl_param p))) as Hf. rewrite forallb_forall in Hf. exact (Hf _ Hin). }
  cbn [fst snd]. destruct q as [doc r name ty inf | inf]; [|discriminate]. cbn [clean_paramdecl paramdecl_errors] in *.
  apply andb_true_iff in Hc. destruct Hc as [Hq Hqi]. apply andb_true_iff in Hq. destruct Hq as [Hqn Hqt].
  rewrite (clean_nil _ Hqi), (clean_opt_name_errors _ Hqn), (clean_opt_texpr_errors _ Hqt). reflexivity.
Qed.

Lemma x_vardecls_errors o vs :
  flat_map (fun x : vardecl * nat => shift_es (snd x) (vardecl_errors (fst x))) (x_vardecls o vs) = [].
Proof.
  apply flat_map_nil. intros [v off] Hin. pose proof (clean_vardecls vs o) as Hf. rewrite forallb_forall in Hf.
  specialize (Hf _ Hin). cbn [fst snd] in *. destruct v as [doc name ty inf | inf]; [|discriminate]. cbn [clean_vardecl vardecl_errors] in *.
  apply andb_true_iff in Hf. destruct Hf as [Hv Hvi]. apply andb_true_iff in Hv. destruct Hv as [Hvn Hvt].
  rewrite (clean_nil _ Hvi), (clean_opt_name_errors _ Hvn), (clean_opt_texpr_errors _ Hvt). reflexivity.
Qed.

Lemma x_type_errors o t : texpr_errors (x_type o t) = [].
Proof. apply clean_texpr_errors, clean_type. Qed.

Lemma fx_decl_errors d : gdecl_errors (fx_decl d) = [fault_err (gk_decl d) (gap_decl d)].
Proof.
  destruct d as [c1 c2 x c3 ps c4 c5 vs b c6|c1 c2 x c3 ps c4 c5 vs1 d1 d2 y d3 t vs2 b c6|c1 c2 x c3 ps c4 c5 vs b|c1 c2 x c3 t];
    cbn [fxg_decl gdecl_errors gk_decl gap_decl]; cbv zeta.
  - unfold procdecl_errors. cbn [pd_info pd_name pd_params pd_vars pd_stmts mkinfo i_errs opt_ident_errors app].
    unfold ident_errors, x_ident. cbn [id_info mkinfo i_errs app]. rewrite x_params_errors, x_vardecls_errors. cbn [app].
    match goal with |- flat_map _ (fx_stmts ?o b) = _ => fold (stmts_errors (fx_stmts o b)); rewrite (proj2 fx_errors b o) end.
    reflexivity.
  - unfold procdecl_errors. cbn [pd_info pd_name pd_params pd_vars pd_stmts mkinfo i_errs opt_ident_errors app].
    unfold ident_errors, x_ident. cbn [id_info mkinfo i_errs app]. rewrite x_params_errors. cbn [app].
    rewrite flat_map_app. cbn [flat_map fst snd]. rewrite !x_vardecls_errors.
    match goal with |- context [flat_map _ (x_stmts ?o b)] => fold (stmts_errors (x_stmts o b)); rewrite (x_stmts_errors o b) end.
    unfold fxg_vdecl. cbv zeta. cbn [vardecl_errors einfo i_errs opt_ident_errors opt_texpr_errors]. unfold ident_errors, x_ident.
    cbn [id_info mkinfo i_errs]. rewrite x_type_errors. cbn [shift_es map app]. pose proof (ffl_vdecl_pos d1 d2 y d3 t). unfold e_real. rewrite !app_nil_r. cbn [shift_es map]. one_err.
  - unfold procdecl_errors. cbn [pd_info pd_name pd_params pd_vars pd_stmts einfo i_errs opt_ident_errors app].
    unfold ident_errors, x_ident. cbn [id_info mkinfo i_errs app]. rewrite x_params_errors, x_vardecls_errors.
    match goal with |- context [flat_map _ (x_stmts ?o b)] => fold (stmts_errors (x_stmts o b)); rewrite (x_stmts_errors o b) end.
    reflexivity.
  - unfold typedecl_errors. cbn [td_info td_name td_ty einfo i_errs opt_ident_errors opt_texpr_errors].
    unfold ident_errors, x_ident. cbn [id_info mkinfo i_errs]. rewrite x_type_errors. reflexivity.
Qed.

Lemma x_decls_errors o ds : gdecls_errors (x_decls o ds) = [].
Proof.
  apply gdecls_errors_clean. revert o. induction ds as [|d ds IH]; intros o; cbn [x_decls forallb fst]; [reflexivity|].
  now rewrite clean_decl, IH.
Qed.

(* errors() of the mandated tree: the one diagnostic, in absolute token indices *)
Theorem fexpected_errors p : tree_errors (fexpected p) = [fault_err (gk_prog p) (gap_prog p)].
Proof.
  unfold tree_errors, fxg_prog. cbn [pg_info pg_decls mkinfo i_errs app]. rewrite flat_map_app. cbn [flat_map fst snd].
  fold (gdecls_errors (x_decls 0 (fp_pre p))).
  match goal with |- context [flat_map _ (x_decls ?o (fp_post p))] => fold (gdecls_errors (x_decls o (fp_post p))) end.
  rewrite !x_decls_errors, fx_decl_errors, app_nil_r. cbn [app shift_es map]. unfold gap_prog, gk_prog. one_err.
Qed.

(* ---- the analysis: the tree goes through build and analyze unchanged when it is well-typed (build_sound and
   analyze_sound hold for ALL trees; tree_clean is only needed to say that no error was there before) ---- *)
Theorem missing_token_tree p G toks :
  fprog_ok p = true -> map tk toks = fflatten p ++ [Eof] -> well_typed (fexpected p) G ->
  parse toks = Done (fexpected p) /\ build_res (fexpected p) = ROk (fexpected p, G) /\
  analyze_res (fexpected p) G = ROk (fexpected p) /\ tree_errors (fexpected p) = [fault_err (gk_prog p) (gap_prog p)].
Proof.
  intros Hok Hk [Hwf Hwt]. split; [exact (fparse p toks Hok Hk)|]. split; [apply build_sound, Hwf|].
  split; [apply analyze_sound, Hwt | apply fexpected_errors].
Qed.

(* there is a token in front of the gap *)
Lemma gap_token p toks : map tk toks = fflatten p ++ [Eof] -> exists tok, nth_error toks (gap_prog p) = Some tok.
Proof.
  intros Hk. destruct (nth_error toks (gap_prog p)) as [tok|] eqn:E; [eauto|]. exfalso.
  apply nth_error_None in E. rewrite <- (map_length tk), Hk, app_length in E. pose proof (gap_prog_lt p). lia.
Qed.

(* from texts on: every text that lexes to the faulty token vector gets exactly ONE diagnostic: the message of the missing
   token, the empty byte range at the END of the token in front of the gap - and no semantic follow-up *)
Theorem missing_token_text p t G toks tok :
  fprog_ok p = true -> lex t = Some toks -> map tk toks = fflatten p ++ [Eof] -> well_typed (fexpected p) G ->
  nth_error toks (gap_prog p) = Some tok ->
  diagnostics t = Done [(te tok, te tok, EParse (msg_of_kind (gk_prog p)))].
Proof.
  intros Hok Hlex Hk Hwt Htok. destruct (missing_token_tree p G toks Hok Hk Hwt) as [Hp [Hb [Ha He]]].
  unfold diagnostics, new_doc, new_doc_res. rewrite Hlex, Hp, Hb, Ha.
  cbn [ores_outcome]. unfold doc_errors, doc_errors_res. cbn [d_ast d_toks]. rewrite He. cbn [byte_ranges].
  rewrite (byte_range_empty toks (fault_err (gk_prog p) (gap_prog p)) tok eq_refl Htok). reflexivity.
Qed.
