(* C09 for comments ANYWHERE, part 1: what the printers return, as a function of the abstract program.

   [pp_*] is a pretty printer over the abstract syntax of Spec/Grammar.v that looks at the comment slots exactly as the
   Rust printers look at the token slices: expressions, variables and type expressions print no comment at all (NamedVar
   prints its value, IntLiteral searches its slice for the literal token and skips the comments in front of it);
   `;`, assignments, calls (and, in FormatAnyProg.v, parameters and variable declarations) print ALL comments of their
   token range in front of the construct (add_all_comments); if / while / blocks / declarations print the comments in
   front of their first token only (add_leading_comments); fmt_branch prints no comment of its own.

   Proved here, WITHOUT any hypothesis on the comment slots (and none on validity): on the tree the grammar mandates and a
   token vector that holds the kinds of the construct, the printers return exactly [pp_*] - they never panic. *)
From Coq Require Import String Lia PeanoNat.
From Spl Require Import Model.Format Model.Lexer Spec.Grammar Proofs.RenderProofs Proofs.FormatProofs
  Proofs.FormatStructText Proofs.FormatStructTok Proofs.FormatStructExpr Proofs.FormatStructStmt.
From Spl Require Proofs.GrammarExpr Proofs.GrammarStmt.
Import ListNotations.
Local Open Scope nat_scope.

(* ================================================================================================
   1. Comments and code of a list of kinds
   ================================================================================================ *)
Definition cmts (ks : list kind) : cs := flat_map (fun k => match k with Comment s => [s] | _ => [] end) ks.
Definition code (ks : list kind) : list kind := filter (fun k => negb (is_comment k)) ks.

Lemma cmts_app a b : cmts (a ++ b) = cmts a ++ cmts b.
Proof. apply flat_map_app. Qed.
Lemma cmts_cm c : cmts (cm c) = c.
Proof. induction c as [|s c IH]; [reflexivity|]. unfold cmts, cm in *. cbn [map flat_map app]. rewrite IH. reflexivity. Qed.
Lemma cmts_cons k r : is_comment k = false -> cmts (k :: r) = cmts r.
Proof. destruct k; try discriminate; reflexivity. Qed.

Lemma code_app a b : code (a ++ b) = code a ++ code b.
Proof. apply filter_app. Qed.
Lemma code_cm c : code (cm c) = [].
Proof. induction c as [|s c IH]; [reflexivity | exact IH]. Qed.
Lemma code_cons k r : is_comment k = false -> code (k :: r) = k :: code r.
Proof. intros H. unfold code. cbn [filter]. rewrite H. reflexivity. Qed.

(* add_all_comments prints every comment of the slice, whatever stands between them *)
Lemma all_comments_kinds sl body : add_all_comments body sl = lead_text (cmts (map tk sl)) ++ body.
Proof.
  unfold add_all_comments, all_comment_text. f_equal.
  induction sl as [|t sl IH]; [reflexivity|]. cbn [filter map]. unfold is_comment_tok at 1.
  destruct (tk t) eqn:Et; try exact IH.
  cbn [flat_map cmts]. unfold show_tok at 1. rewrite Et. cbn [app]. unfold lead_text in *. cbn [flat_map].
  f_equal. exact IH.
Qed.

Lemma finish_all_any toks o e ks body :
  At toks o ks -> e = o + length ks ->
  with_slice (mkinfo o e) toks (fun sl => FOk (add_all_comments body sl)) = FOk (lead_text (cmts ks) ++ body).
Proof.
  intros H He. destruct (with_slice_At toks o e _ (fun sl => FOk (add_all_comments body sl)) H He) as (sl & E & M).
  rewrite E, all_comments_kinds, M. reflexivity.
Qed.

(* ================================================================================================
   2. Expressions, variables, type expressions: no comment is printed
   ================================================================================================ *)
Fixpoint pp_var (v : avar) : text :=
  match v with
  | AName _ x => x
  | AIndex v' _ e _ => pp_var v' ++ sh LBracket ++ pp_cmp e ++ sh RBracket
  end
with pp_fac (f : afac) : text :=
  match f with
  | FLit _ l => sh (k_lit l)
  | FVar v => pp_var v
  | FNeg _ f' => sh Minus ++ pp_fac f'
  | FPar _ e _ => sh LParen ++ pp_cmp e ++ sh RParen
  end
with pp_mul (m : amul) : text :=
  match m with
  | MFac f => pp_fac f
  | MBin m' _ op f => pp_mul m' ++ [32%N] ++ sh (k_mul op) ++ [32%N] ++ pp_fac f
  end
with pp_add (a : aadd) : text :=
  match a with
  | AMul m => pp_mul m
  | ABin a' _ op m => pp_add a' ++ [32%N] ++ sh (k_add op) ++ [32%N] ++ pp_mul m
  end
with pp_cmp (e : acmp) : text :=
  match e with
  | CAdd a => pp_add a
  | CBin l _ op r => pp_add l ++ [32%N] ++ sh (k_cmp op) ++ [32%N] ++ pp_add r
  end.

(* impl Format for IntLiteral: find_map skips the comments in front of the literal *)
Lemma fmt_intlit_any toks o c l rest : At toks o (cm c ++ k_lit l :: rest) -> fmt_intlit (x_lit o c l) toks = FOk (sh (k_lit l)).
Proof.
  intros H0. assert (H : At toks o (cm c ++ [k_lit l])).
  { apply (At_app_l _ _ _ rest). rewrite <- app_assoc. exact H0. }
  clear H0. unfold fmt_intlit, x_lit. cbn [il_info].
  destruct (with_slice_At toks o (o + length c + 1) (cm c ++ [k_lit l])
              (fun sl => match find is_lit_tok sl with Some t => FOk (show_tok t) | None => FPanic end) H ltac:(len_lia))
    as (sl & E & M).
  rewrite E. clear E H. revert sl M. induction c as [|s c IH]; intros sl M.
  - destruct sl as [|t [|t2 sl]]; try discriminate M. cbn [cm map app] in M. injection M as M.
    cbn [find]. unfold is_lit_tok. rewrite M. destruct l; cbn [k_lit]; unfold show_tok; rewrite M; reflexivity.
  - destruct sl as [|t sl]; [discriminate M|]. cbn [cm map app] in M. injection M as Mt M.
    cbn [find]. unfold is_lit_tok at 1. rewrite Mt. apply IH. exact M.
Qed.

Definition var_pp (v : avar) : Prop := forall toks o, At toks o (fl_var v) -> fmt_var (x_var o v) toks = FOk (pp_var v).
Definition fac_pp (f : afac) : Prop := forall toks o, At toks o (fl_fac f) -> fmt_expr (x_fac o f) toks = FOk (pp_fac f).
Definition mul_pp (m : amul) : Prop := forall toks o, At toks o (fl_mul m) -> fmt_expr (x_mul o m) toks = FOk (pp_mul m).
Definition add_pp (a : aadd) : Prop := forall toks o, At toks o (fl_add a) -> fmt_expr (x_add o a) toks = FOk (pp_add a).
Definition cmp_pp (e : acmp) : Prop := forall toks o, At toks o (fl_cmp e) -> fmt_expr (x_cmp o e) toks = FOk (pp_cmp e).

(* a Reference<Expression>: printed on the token slice that starts at its offset *)
Lemma ref_expr_pp e toks off :
  cmp_pp e -> At toks off (fl_cmp e) -> with_from off toks (fun t' => fmt_expr (x_cmp 0 e) t') = FOk (pp_cmp e).
Proof.
  intros IH H. destruct (with_from_At toks off 0 (fl_cmp e) (fun t' => fmt_expr (x_cmp 0 e) t')) as [E A]; [at_solve|].
  rewrite E. exact (IH _ 0 A).
Qed.

Theorem expr_pp : (forall v, var_pp v) /\ (forall f, fac_pp f) /\ (forall m, mul_pp m) /\ (forall a, add_pp a) /\ (forall e, cmp_pp e).
Proof.
  apply GrammarExpr.aexpr_mutind.
  - intros c x toks o H. reflexivity.
  - intros v IHv c1 e IHe c2 toks o H. cbn [fl_var] in H. cbn [x_var pp_var]. rewrite fmt_var_idx. at_split.
    rewrite (ref_expr_pp e toks (o + length (fl_var v) + length c1 + 1) IHe) by at_solve. cbn [fbind].
    rewrite (IHv toks o) by at_solve. reflexivity.
  - intros c l toks o H. cbn [fl_fac] in H. cbn [x_fac pp_fac]. rewrite fmt_expr_int. apply (fmt_intlit_any toks o c l []). exact H.
  - intros v IHv toks o H. cbn [fl_fac x_fac pp_fac] in *. rewrite fmt_expr_var. exact (IHv toks o H).
  - intros c f IHf toks o H. cbn [fl_fac] in H. cbn [x_fac pp_fac]. rewrite fmt_expr_un. at_split.
    rewrite (IHf toks (o + length c + 1)) by at_solve. reflexivity.
  - intros c1 e IHe c2 toks o H. cbn [fl_fac] in H. cbn [x_fac pp_fac]. rewrite fmt_expr_brack. at_split.
    rewrite (IHe toks (o + length c1 + 1)) by at_solve. reflexivity.
  - intros f IHf toks o H. exact (IHf toks o H).
  - intros m IHm c op f IHf toks o H. cbn [fl_mul] in H. cbn [x_mul pp_mul]. rewrite fmt_expr_bin. at_split.
    rewrite (IHm toks o) by at_solve. cbn [fbind].
    rewrite (IHf toks (o + length (fl_mul m) + length c + 1)) by at_solve. cbn [fbind]. rewrite show_op_mul. reflexivity.
  - intros m IHm toks o H. exact (IHm toks o H).
  - intros a IHa c op m IHm toks o H. cbn [fl_add] in H. cbn [x_add pp_add]. rewrite fmt_expr_bin. at_split.
    rewrite (IHa toks o) by at_solve. cbn [fbind].
    rewrite (IHm toks (o + length (fl_add a) + length c + 1)) by at_solve. cbn [fbind]. rewrite show_op_add. reflexivity.
  - intros a IHa toks o H. exact (IHa toks o H).
  - intros l IHl c op r IHr toks o H. cbn [fl_cmp] in H. cbn [x_cmp pp_cmp]. rewrite fmt_expr_bin. at_split.
    rewrite (IHl toks o) by at_solve. cbn [fbind].
    rewrite (IHr toks (o + length (fl_add l) + length c + 1)) by at_solve. cbn [fbind]. rewrite show_op_cmp. reflexivity.
Qed.

Lemma var_pp_all v : var_pp v.
Proof. apply expr_pp. Qed.
Lemma cmp_pp_all e : cmp_pp e.
Proof. apply expr_pp. Qed.

Fixpoint pp_type (t : atype) : text :=
  match t with
  | TName _ x => x
  | TArr _ _ _ size _ _ base =>
      sh KArray ++ [32%N] ++ sh LBracket ++ sh (k_lit size) ++ sh RBracket ++ [32%N] ++ sh KOf ++ [32%N] ++ pp_type base
  end.

Theorem type_pp t : forall toks o, At toks o (fl_type t) -> fmt_texpr (x_type o t) toks = FOk (pp_type t).
Proof.
  induction t as [c x|ca cl cz size cr co base IH]; intros toks o H; cbn [fl_type] in H; cbn [x_type pp_type]; cbv zeta.
  - reflexivity.
  - rewrite fmt_texpr_array. pose proof H as HL.
    apply At_app_r in HL. apply At_cons_r in HL. apply At_app_r in HL. apply At_cons_r in HL.
    rewrite (fmt_intlit_any toks (o + length ca + 1 + length cl + 1) cz size _) by (eapply At_eq; [exact HL | len_lia]).
    clear HL. at_split.
    cbn [fbind].
    destruct (with_from_At toks (o + length ca + 1 + length cl + 1 + length cz + 1 + length cr + 1 + length co + 1) 0 (fl_type base)
                (fun t' => fmt_texpr (x_type 0 base) t')) as [E0 AT0]; [at_solve|].
    rewrite E0, (IH _ 0 AT0). reflexivity.
Qed.

Lemma ref_type_pp t toks off : At toks off (fl_type t) -> fmt_ref_texpr (Some (x_type 0 t, off)) toks = FOk (pp_type t).
Proof.
  intros H. cbn [fmt_ref_texpr].
  destruct (with_from_At toks off 0 (fl_type t) (fun t' => fmt_texpr (x_type 0 t) t')) as [E A]; [at_solve|].
  rewrite E. exact (type_pp t _ 0 A).
Qed.

(* ================================================================================================
   3. Comma-separated lists
   ================================================================================================ *)
Definition sep_list {A} (o : option (A * list (cs * A))) : list A :=
  match o with None => [] | Some (a, l) => a :: map snd l end.

Section SepPP.
Context {A B : Type}.
Variable fl : A -> list kind.
Variable x : A -> B.
Variable toks : list token.
Variable g : B * nat -> fres.
Variable pp : A -> text.
Hypothesis elem_pp : forall a off, At toks off (fl a) -> g (x a, off) = FOk (pp a).

Lemma tail_pp l : forall o k, At toks o (fl_tail fl l) -> fmap g (x_tail fl x o l) k = k (map pp (map snd l)).
Proof.
  induction l as [|[c a] r IH]; intros o k H; [reflexivity|].
  rewrite fl_tail_cons in H. at_split. cbn [x_tail map snd]. rewrite fmap_cons.
  rewrite (elem_pp a (o + length c + 1)) by at_solve. cbn [fbind].
  apply (IH (o + length c + 1 + length (fl a))). at_solve.
Qed.

Lemma sep_pp ps o k : At toks o (fl_sep fl ps) -> fmap g (x_sep fl x o ps) k = k (map pp (sep_list ps)).
Proof.
  intros H. destruct ps as [[a l]|]; [|reflexivity]. cbn [fl_sep] in H. at_split. cbn [x_sep sep_list map]. rewrite fmap_cons.
  rewrite (elem_pp a o) by at_solve. cbn [fbind]. apply (tail_pp l (o + length (fl a))). at_solve.
Qed.
End SepPP.

(* ================================================================================================
   4. Statements
   ================================================================================================ *)
Section StmtPP.
Variable f : fopts.

Fixpoint pp_stmt (s : astmt) : text :=
  let branch (t : astmt) (ending : char) : text :=
    match t with
    | SBlk _ b _ =>
        match b with
        | SNil => str " {}" ++ [10%N]
        | SCons _ _ => str " {" ++ [10%N] ++ indent (pp_stmts b) f ++ [125%N] ++ [ending]
        end
    | _ => [10%N] ++ indent (pp_stmt t) f
    end in
  match s with
  | SEmp c => lead_text c ++ sh Semic ++ [10%N]
  | SAsg v _ e _ =>
      lead_text (cmts (fl_stmt s)) ++ pp_var v ++ [32%N] ++ sh Assign ++ [32%N] ++ pp_cmp e ++ sh Semic ++ [10%N]
  | SCal _ fn _ a _ _ =>
      lead_text (cmts (fl_stmt s)) ++ fn ++ sh LParen ++ join (sh Comma ++ [32%N]) (map pp_cmp (sep_list a))
      ++ sh RParen ++ sh Semic ++ [10%N]
  | SIfT c1 _ e _ t => lead_text c1 ++ sh KIf ++ [32%N] ++ sh LParen ++ pp_cmp e ++ sh RParen ++ branch t 10%N
  | SIfE c1 _ e _ t _ s' =>
      lead_text c1 ++ sh KIf ++ [32%N] ++ sh LParen ++ pp_cmp e ++ sh RParen ++ branch t 32%N ++ sh KElse ++
      match s' with
      | SIfT _ _ _ _ _ | SIfE _ _ _ _ _ _ _ => [32%N] ++ pp_stmt s'
      | _ => branch s' 10%N
      end
  | SWhl c1 _ e _ b => lead_text c1 ++ sh KWhile ++ [32%N] ++ sh LParen ++ pp_cmp e ++ sh RParen ++ branch b 10%N
  | SBlk c1 b _ =>
      lead_text c1 ++
      match b with
      | SNil => sh LCurly ++ sh RCurly ++ [10%N]
      | SCons _ _ => sh LCurly ++ [10%N] ++ indent (pp_stmts b) f ++ sh RCurly ++ [10%N]
      end
  end
with pp_stmts (b : astmts) : text :=
  match b with SNil => [] | SCons s r => pp_stmt s ++ pp_stmts r end.

(* fn fmt_branch on the abstract syntax: no comment of the branch's own first token is printed *)
Definition pp_branch (t : astmt) (ending : char) : text :=
  match t with
  | SBlk _ b _ =>
      match b with
      | SNil => str " {}" ++ [10%N]
      | SCons _ _ => str " {" ++ [10%N] ++ indent (pp_stmts b) f ++ [125%N] ++ [ending]
      end
  | _ => [10%N] ++ indent (pp_stmt t) f
  end.

Definition is_aif (s : astmt) : bool := match s with SIfT _ _ _ _ _ | SIfE _ _ _ _ _ _ _ => true | _ => false end.
Definition is_ablk (s : astmt) : bool := match s with SBlk _ _ _ => true | _ => false end.

Lemma pp_ift c1 c2 e c3 t :
  pp_stmt (SIfT c1 c2 e c3 t) = lead_text c1 ++ sh KIf ++ [32%N] ++ sh LParen ++ pp_cmp e ++ sh RParen ++ pp_branch t 10%N.
Proof. reflexivity. Qed.
Lemma pp_whl c1 c2 e c3 t :
  pp_stmt (SWhl c1 c2 e c3 t) = lead_text c1 ++ sh KWhile ++ [32%N] ++ sh LParen ++ pp_cmp e ++ sh RParen ++ pp_branch t 10%N.
Proof. reflexivity. Qed.
Lemma pp_ife c1 c2 e c3 t c4 s' :
  pp_stmt (SIfE c1 c2 e c3 t c4 s') =
  lead_text c1 ++ sh KIf ++ [32%N] ++ sh LParen ++ pp_cmp e ++ sh RParen ++ pp_branch t 32%N ++ sh KElse ++
  (if is_aif s' then [32%N] ++ pp_stmt s' else pp_branch s' 10%N).
Proof. destruct s'; reflexivity. Qed.
Lemma pp_blk c1 b c2 :
  pp_stmt (SBlk c1 b c2) =
  lead_text c1 ++ match b with
                  | SNil => sh LCurly ++ sh RCurly ++ [10%N]
                  | SCons _ _ => sh LCurly ++ [10%N] ++ indent (pp_stmts b) f ++ sh RCurly ++ [10%N]
                  end.
Proof. reflexivity. Qed.
Lemma pp_branch_plain t ending : is_ablk t = false -> pp_branch t ending = [10%N] ++ indent (pp_stmt t) f.
Proof. destruct t; try discriminate; reflexivity. Qed.

Lemma is_if_aif s o : is_if (x_stmt o s) = is_aif s.
Proof. destruct s; reflexivity. Qed.
Lemma is_block_ablk s o : is_block (x_stmt o s) = is_ablk s.
Proof. destruct s; reflexivity. Qed.

Definition stmt_pp (s : astmt) : Prop :=
  forall toks o, At toks o (fl_stmt s) -> fmt_stmt f (x_stmt o s) toks = FOk (pp_stmt s).
Definition branch_pp (s : astmt) : Prop :=
  forall toks off ending, At toks off (fl_stmt s) ->
  fmt_branch f (Some (x_stmt 0 s, off)) toks ending = FOk (pp_branch s ending).
Definition stmts_pp (b : astmts) : Prop :=
  forall toks o, At toks o (fl_stmts b) -> fmt_stmts f (x_stmts o b) toks = FOk (pp_stmts b).

Lemma finish_leading_any toks o e c k ks body :
  At toks o (cm c ++ k :: ks) -> is_comment k = false -> e = o + length (cm c ++ k :: ks) ->
  with_slice (mkinfo o e) toks (fun sl => FOk (add_leading_comments body sl)) = FOk (lead_text c ++ body).
Proof. intros H Hk He. exact (finish_leading toks o e _ c k ks body H eq_refl Hk He). Qed.

Lemma ref_stmt_pp toks off s :
  stmt_pp s -> At toks off (fl_stmt s) -> with_from off toks (fun t' => fmt_stmt f (x_stmt 0 s) t') = FOk (pp_stmt s).
Proof.
  intros IH H. destruct (with_from_At toks off 0 (fl_stmt s) (fun t' => fmt_stmt f (x_stmt 0 s) t')) as [E A0]; [at_solve|].
  rewrite E. exact (IH _ 0 A0).
Qed.

Lemma branch_of_stmt_pp s : is_ablk s = false -> stmt_pp s -> branch_pp s.
Proof.
  intros Hb IH toks off ending H.
  rewrite (fmt_branch_plain f _ _ _ _ ltac:(rewrite is_block_ablk; exact Hb)), (pp_branch_plain _ _ Hb).
  destruct (with_from_At toks off 0 (fl_stmt s) (fun t' => do st <- fmt_stmt f (x_stmt 0 s) t'; FOk ([10%N] ++ indent st f)))
    as [E A0]; [at_solve|].
  rewrite E, (IH _ 0 A0). reflexivity.
Qed.

Lemma stmt_emp_pp c : stmt_pp (SEmp c).
Proof.
  intros toks o H. cbn [x_stmt]. rewrite fmt_stmt_empty, (finish_all_any toks o _ _ _ H eq_refl).
  cbn [fl_stmt pp_stmt]. rewrite cmts_app, cmts_cm. cbn [cmts flat_map]. rewrite app_nil_r. reflexivity.
Qed.

Lemma stmt_asg_pp v c1 e c2 : stmt_pp (SAsg v c1 e c2).
Proof.
  intros toks o H. pose proof H as H0. cbn [fl_stmt] in H. cbn [x_stmt]. rewrite fmt_stmt_assign, fmt_assign_body_eq. at_split.
  rewrite (ref_expr_pp e toks (o + length (fl_var v) + length c1 + 1) (cmp_pp_all e)) by at_solve. cbn [fbind].
  rewrite (var_pp_all v toks o) by at_solve. cbn [fbind].
  rewrite (finish_all_any toks o _ _ _ H0 eq_refl). reflexivity.
Qed.

Lemma stmt_cal_pp c1 fn c2 a c3 c4 : stmt_pp (SCal c1 fn c2 a c3 c4).
Proof.
  intros toks o H. pose proof H as H0. cbn [fl_stmt] in H. cbn [x_stmt]. unfold x_ident.
  rewrite fmt_stmt_call, fmt_call_body_eq. cbn [id_val]. at_split.
  rewrite (sep_pp fl_cmp (x_cmp 0) toks (fun a0 : expr * nat => with_from (snd a0) toks (fun t' => fmt_expr (fst a0) t')) pp_cmp
             (fun a0 off Ha => ref_expr_pp a0 toks off (cmp_pp_all a0) Ha) a (o + length c1 + 1 + length c2 + 1)) by at_solve.
  cbn [fbind]. rewrite (finish_all_any toks o _ _ _ H0 eq_refl). reflexivity.
Qed.

Lemma stmt_blk_pp c1 b c2 : stmts_pp b -> stmt_pp (SBlk c1 b c2) /\ branch_pp (SBlk c1 b c2).
Proof.
  intros IHb. split.
  - intros toks o H. pose proof H as H0. cbn [fl_stmt] in H. cbn [x_stmt]. rewrite pp_blk. at_split.
    pose proof (IHb toks (o + length c1 + 1) ltac:(at_solve)) as IH1.
    destruct b as [|s r]; cbn [x_stmts] in IH1 |- *.
    + rewrite fmt_stmt_block_nil, (finish_leading_any toks o _ c1 LCurly _ _ H0 eq_refl eq_refl). reflexivity.
    + rewrite fmt_stmt_block_cons, IH1. cbn [fbind].
      rewrite (finish_leading_any toks o _ c1 LCurly _ _ H0 eq_refl eq_refl). reflexivity.
  - intros toks off ending H. cbn [x_stmt pp_branch].
    destruct b as [|s r]; cbn [x_stmts].
    + rewrite fmt_branch_block_nil.
      match goal with |- context [with_from off toks ?K] =>
        destruct (with_from_At toks off 0 (fl_stmt (SBlk c1 SNil c2)) K) as [E _]; [at_solve|]; rewrite E end.
      reflexivity.
    + rewrite fmt_branch_block_cons.
      match goal with |- context [with_from off toks ?K] =>
        destruct (with_from_At toks off 0 (fl_stmt (SBlk c1 (SCons s r) c2)) K) as [E A0]; [at_solve|]; rewrite E end.
      cbn [fl_stmt] in A0. at_split.
      pose proof (IHb (skipn off toks) (0 + length c1 + 1) ltac:(at_solve)) as IH1. cbn [x_stmts] in IH1.
      rewrite IH1. cbn [fbind]. unfold gp. rewrite <- !app_assoc. reflexivity.
Qed.

Lemma stmt_ift_pp c1 c2 e c3 t : branch_pp t -> stmt_pp (SIfT c1 c2 e c3 t).
Proof.
  intros IHt toks o H. pose proof H as H0. cbn [fl_stmt] in H. cbn [x_stmt]. cbv zeta. rewrite fmt_stmt_if_none, pp_ift. at_split.
  rewrite (ref_expr_pp e toks (o + length c1 + 1 + length c2 + 1) (cmp_pp_all e)) by at_solve. cbn [fbind].
  rewrite (IHt toks (o + length c1 + 1 + length c2 + 1 + length (fl_cmp e) + length c3 + 1) 10%N) by at_solve. cbn [fbind].
  rewrite (finish_leading_any toks o _ c1 KIf _ _ H0 eq_refl eq_refl). reflexivity.
Qed.

Lemma stmt_whl_pp c1 c2 e c3 t : branch_pp t -> stmt_pp (SWhl c1 c2 e c3 t).
Proof.
  intros IHt toks o H. pose proof H as H0. cbn [fl_stmt] in H. cbn [x_stmt]. cbv zeta. rewrite fmt_stmt_while_eq, pp_whl. at_split.
  rewrite (ref_expr_pp e toks (o + length c1 + 1 + length c2 + 1) (cmp_pp_all e)) by at_solve. cbn [fbind].
  rewrite (IHt toks (o + length c1 + 1 + length c2 + 1 + length (fl_cmp e) + length c3 + 1) 10%N) by at_solve. cbn [fbind].
  rewrite (finish_leading_any toks o _ c1 KWhile _ _ H0 eq_refl eq_refl). reflexivity.
Qed.

Lemma stmt_ife_pp c1 c2 e c3 t c4 s' : branch_pp t -> stmt_pp s' -> branch_pp s' -> stmt_pp (SIfE c1 c2 e c3 t c4 s').
Proof.
  intros IHt IHs IHsb toks o H. pose proof H as H0. cbn [fl_stmt] in H. cbn [x_stmt]. cbv zeta. rewrite pp_ife. at_split.
  pose proof (is_if_aif s' 0) as Hif. destruct (is_aif s') eqn:Ha.
  - rewrite (fmt_stmt_if_elseif f _ _ _ _ _ _ _ Hif).
    rewrite (ref_expr_pp e toks (o + length c1 + 1 + length c2 + 1) (cmp_pp_all e)) by at_solve. cbn [fbind].
    rewrite (IHt toks (o + length c1 + 1 + length c2 + 1 + length (fl_cmp e) + length c3 + 1) 32%N) by at_solve. cbn [fbind].
    rewrite (ref_stmt_pp toks (o + length c1 + 1 + length c2 + 1 + length (fl_cmp e) + length c3 + 1 + length (fl_stmt t) + length c4 + 1) s' IHs)
      by at_solve.
    cbn [fbind]. rewrite (finish_leading_any toks o _ c1 KIf _ _ H0 eq_refl eq_refl). reflexivity.
  - rewrite (fmt_stmt_if_else f _ _ _ _ _ _ _ Hif).
    rewrite (ref_expr_pp e toks (o + length c1 + 1 + length c2 + 1) (cmp_pp_all e)) by at_solve. cbn [fbind].
    rewrite (IHt toks (o + length c1 + 1 + length c2 + 1 + length (fl_cmp e) + length c3 + 1) 32%N) by at_solve. cbn [fbind].
    rewrite (IHsb toks (o + length c1 + 1 + length c2 + 1 + length (fl_cmp e) + length c3 + 1 + length (fl_stmt t) + length c4 + 1) 10%N)
      by at_solve.
    cbn [fbind]. rewrite (finish_leading_any toks o _ c1 KIf _ _ H0 eq_refl eq_refl). reflexivity.
Qed.

Lemma stmts_cons_pp s r : stmt_pp s -> stmts_pp r -> stmts_pp (SCons s r).
Proof.
  intros IHs IHr toks o H. cbn [fl_stmts] in H. at_split. cbn [x_stmts pp_stmts]. rewrite fmt_stmts_cons.
  rewrite (ref_stmt_pp toks o s IHs) by at_solve. cbn [fbind].
  rewrite (IHr toks (o + length (fl_stmt s))) by at_solve. reflexivity.
Qed.

Theorem stmt_pp_all : (forall s, stmt_pp s /\ branch_pp s) /\ (forall b, stmts_pp b).
Proof.
  apply GrammarStmt.astmt_mutind.
  - intros c. split; [|apply branch_of_stmt_pp; [reflexivity|]]; apply stmt_emp_pp.
  - intros. split; [|apply branch_of_stmt_pp; [reflexivity|]]; apply stmt_asg_pp.
  - intros. split; [|apply branch_of_stmt_pp; [reflexivity|]]; apply stmt_cal_pp.
  - intros c1 c2 e c3 t [_ IHt]. split; [|apply branch_of_stmt_pp; [reflexivity|]]; apply stmt_ift_pp; exact IHt.
  - intros c1 c2 e c3 t [_ IHt] c4 s' [IHs IHsb]. split; [|apply branch_of_stmt_pp; [reflexivity|]]; apply stmt_ife_pp; assumption.
  - intros c1 c2 e c3 b [_ IHb]. split; [|apply branch_of_stmt_pp; [reflexivity|]]; apply stmt_whl_pp; exact IHb.
  - intros c1 b IHb c2. apply stmt_blk_pp. exact IHb.
  - intros toks o _. reflexivity.
  - intros s [IHs _] r IHr. apply stmts_cons_pp; assumption.
Qed.

Lemma stmts_pp_all b : stmts_pp b.
Proof. apply stmt_pp_all. Qed.

End StmtPP.
