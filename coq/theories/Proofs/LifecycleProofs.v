From Spl Require Import Spec.Session.

Definition phase_of (s : sphase) : phase :=
  match s with SUninit => PUninit | SInitWait => PInitWait | SMain => PMain | SDown => PDown end.

(* the spec automaton as a step function, to connect [spec_phase] with the model's [step] *)
Definition sstep (s : sphase) (m : msg) : sphase :=
  match s with
  | SUninit => if is_init_req m then SInitWait else SUninit
  | SInitWait => if is_initialized m then SMain else SInitWait
  | SMain => if is_shutdown_req m then SDown else SMain
  | SDown => SDown
  end.

Definition spec_phase_from (s : sphase) (h : list msg) : sphase := fold_left sstep h s.

Lemma after_none_fold f h : after f h = None -> forallb (fun m => negb (f m)) h = true.
Proof.
  induction h as [|m r IH]; cbn [after forallb]; [reflexivity|].
  destruct (f m); [discriminate|]. intros H. now rewrite IH.
Qed.

Lemma fold_down h : fold_left sstep h SDown = SDown.
Proof. induction h as [|m r IH]; cbn [fold_left sstep]; auto. Qed.

Lemma fold_main h :
  fold_left sstep h SMain = match after is_shutdown_req h with None => SMain | Some _ => SDown end.
Proof.
  induction h as [|m r IH]; cbn [fold_left sstep after]; [reflexivity|].
  destruct (is_shutdown_req m); [apply fold_down | exact IH].
Qed.

Lemma fold_initwait h :
  fold_left sstep h SInitWait =
  match after is_initialized h with
  | None => SInitWait
  | Some h2 => match after is_shutdown_req h2 with None => SMain | Some _ => SDown end
  end.
Proof.
  induction h as [|m r IH]; cbn [fold_left sstep after]; [reflexivity|].
  destruct (is_initialized m); [apply fold_main | exact IH].
Qed.

Lemma spec_phase_fold h : spec_phase h = fold_left sstep h SUninit.
Proof.
  unfold spec_phase. induction h as [|m r IH]; cbn [fold_left sstep after]; [reflexivity|].
  destruct (is_init_req m); [symmetry; apply fold_initwait | exact IH].
Qed.

Lemma spec_phase_snoc h m : spec_phase (h ++ [m]) = sstep (spec_phase h) m.
Proof. rewrite !spec_phase_fold, fold_left_app. reflexivity. Qed.

(* one model step agrees with the specification, as long as the message is not `exit` *)
Lemma step_spec s m :
  is_exit m = false ->
  step (phase_of s) m =
  (phase_of (sstep s m),
   match m with Req id me => [ {| rid := id; rans := spec_answer s me |} ] | Notif _ => [] end).
Proof.
  destruct s, m as [id me | me]; destruct me; cbn; try reflexivity; discriminate.
Qed.

Lemma step_exit s : step (phase_of s) (Notif MExit) = (PExited (match s with SDown => 0 | _ => 1 end), []).
Proof. destruct s; reflexivity. Qed.

Lemma steps_exited n ms : steps (PExited n) ms = (PExited n, []).
Proof. induction ms as [|m r IH]; cbn [steps step]; [reflexivity|]. now rewrite IH. Qed.

Lemma is_exit_true m : is_exit m = true -> m = Notif MExit.
Proof. destruct m as [id me|me]; [discriminate|]. destruct me; try discriminate. reflexivity. Qed.

(* main simulation lemma *)
Lemma steps_spec h ms :
  steps (phase_of (spec_phase h)) ms =
  (if has_exit ms
   then PExited (match spec_phase (h ++ before_exit ms) with SDown => 0 | _ => 1 end)
   else phase_of (spec_phase (h ++ ms)),
   spec_responses h (before_exit ms)).
Proof.
  revert h; induction ms as [|m r IH]; intros h.
  - cbn. now rewrite app_nil_r.
  - cbn [steps has_exit existsb before_exit]. destruct (is_exit m) eqn:E.
    + apply is_exit_true in E. subst m. rewrite step_exit, steps_exited.
      cbn [orb spec_responses app]. now rewrite app_nil_r.
    + rewrite (step_spec _ _ E). rewrite <- spec_phase_snoc. rewrite IH.
      cbn [orb]. fold (has_exit r). rewrite <- !app_assoc. cbn [app].
      destruct m as [id me|me]; cbn [spec_responses app]; reflexivity.
Qed.

Lemma run_spec ms clean :
  run ms clean = (PExited (spec_status ms clean), spec_responses [] (before_exit ms)).
Proof.
  unfold run. change PUninit with (phase_of (spec_phase [])). rewrite steps_spec. cbn [app].
  unfold spec_status. destruct (has_exit ms); [reflexivity|].
  destruct (spec_phase ms); reflexivity.
Qed.

Lemma spec_responses_ids h ms : map rid (spec_responses h ms) = req_ids ms.
Proof.
  revert h; induction ms as [|m r IH]; intros h; [reflexivity|].
  destruct m as [id me|me]; cbn [spec_responses map req_ids flat_map app]; [f_equal|]; apply IH.
Qed.

Lemma one_response ms clean : map rid (snd (run ms clean)) = req_ids (before_exit ms).
Proof. rewrite run_spec. apply spec_responses_ids. Qed.

Lemma terminates ms clean : exists n, fst (run ms clean) = PExited n.
Proof. rewrite run_spec. cbn [fst]. eexists. reflexivity. Qed.
