(* C13 - on the trees of the grammar the three tree walks of find-references (Model/Refs.v) return their
   identifiers in STRICTLY ASCENDING token order: [find_types_sorted], [find_procs_sorted],
   [vars_of_proc_sorted].

   The token of an identifier node i is [itok i] = i_e (id_info i) - 1 (after all Reference offsets
   have been added).  The proof works with the key [ke i] = i_e (id_info i) itself, which shifts
   painlessly: [asc lo hi l] says that the keys of l are strictly ascending and all in (lo, hi], i.e.
   the tokens are ascending and in [lo, hi).  For every syntactic category X of Spec/Grammar.v

       asc o (o + len (fl_X x)) (walk all (x_X o x))

   by the grammar inductions (same shape as [located] in Proofs/HoverValid.v); a walk under a
   shift-invariant test f is the walk under [all] filtered by f (Proofs/RefsValidWalks.v, section
   Filter), and [filter] preserves [asc]. *)
From Coq Require Import PeanoNat Lia List Sorting.Sorted.
From Spl Require Import Spec.Grammar Model.Refs Spec.Nav.
From Spl Require Import Proofs.GrammarBase Proofs.GrammarExpr Proofs.GrammarStmt Proofs.HoverValid Proofs.RefsValidWalks.
Import ListNotations.
Local Open Scope nat_scope.

Definition itok (i : ident) : nat := i_e (id_info i) - 1.
Definition fshift (f : ident -> bool) : Prop := forall i off, f (shift_ident i off) = f i.

(* ---------------------------------------------------------------------------------------- *)
(* ascending keys inside (lo, hi]                                                            *)

Definition ke (i : ident) : nat := i_e (id_info i).

Definition asc (lo hi : nat) (l : list ident) : Prop :=
  StronglySorted lt (map ke l) /\ Forall (fun i => lo < ke i <= hi) l.

Lemma Forall_map_ke (P : nat -> Prop) (l : list ident) : Forall P (map ke l) <-> Forall (fun i => P (ke i)) l.
Proof. apply Forall_map. Qed.

Lemma asc_nil lo hi : asc lo hi [].
Proof. split; constructor. Qed.

Lemma asc_one lo hi i : lo < ke i <= hi -> asc lo hi [i].
Proof. intros H. split; cbn [map]; repeat constructor; apply H. Qed.

Lemma asc_weaken lo hi lo' hi' l : asc lo hi l -> lo' <= lo /\ hi <= hi' -> asc lo' hi' l.
Proof.
  intros [S B] H. split; [exact S|]. revert B. apply Forall_impl. intros i Hi. lia.
Qed.

Lemma sorted_app (a b : list nat) m :
  StronglySorted lt a -> StronglySorted lt b -> Forall (fun x => x <= m) a -> Forall (fun y => m < y) b ->
  StronglySorted lt (a ++ b).
Proof.
  intros Ha Hb Hla Hlb. induction a as [|x a IH]; [exact Hb|].
  apply StronglySorted_inv in Ha as [Ha Hx]. inversion Hla as [|? ? Hxm Hla']; subst.
  cbn [app]. constructor; [now apply IH|]. apply Forall_app. split; [exact Hx|].
  revert Hlb. apply Forall_impl. intros y Hy. lia.
Qed.

(* two pieces that follow each other *)
Lemma asc_app lo hi a1 b1 a2 b2 l1 l2 :
  asc a1 b1 l1 -> asc a2 b2 l2 -> lo <= a1 /\ b1 <= a2 /\ b2 <= hi /\ b1 <= hi /\ lo <= a2 ->
  asc lo hi (l1 ++ l2).
Proof.
  intros [S1 B1] [S2 B2] H. split.
  - rewrite map_app. apply (sorted_app _ _ b1); [exact S1 | exact S2 | |]; apply Forall_map_ke.
    + revert B1. apply Forall_impl. intros i Hi. lia.
    + revert B2. apply Forall_impl. intros i Hi. lia.
  - apply Forall_app. split; [revert B1 | revert B2]; apply Forall_impl; intros i Hi; lia.
Qed.

(* the same with the bounds of the pieces *)
Lemma asc_cat a1 b1 a2 b2 l1 l2 :
  asc a1 b1 l1 -> asc a2 b2 l2 -> b1 <= a2 /\ a1 <= a2 /\ b1 <= b2 -> asc a1 b2 (l1 ++ l2).
Proof. intros H1 H2 H. apply (asc_app _ _ _ _ _ _ _ _ H1 H2). lia. Qed.

Lemma sorted_map_add off l : StronglySorted lt l -> StronglySorted lt (map (fun k => k + off) l).
Proof.
  induction 1 as [|a l Hs IH Ha]; cbn [map]; constructor; [exact IH|].
  apply (proj2 (Forall_map (fun k => k + off) (lt (a + off)) l)). revert Ha. apply Forall_impl. intros b Hb. lia.
Qed.

Lemma asc_shift lo hi l off : asc lo hi l -> asc (lo + off) (hi + off) (shift_idents l off).
Proof.
  intros [S B]. unfold shift_idents. split.
  - replace (map ke (map (fun i => shift_ident i off) l)) with (map (fun k => k + off) (map ke l))
      by (rewrite !map_map; reflexivity).
    now apply sorted_map_add.
  - apply (proj2 (Forall_map (fun i => shift_ident i off) (fun i => lo + off < ke i <= hi + off) l)). revert B. apply Forall_impl. intros i Hi.
    change (ke (shift_ident i off)) with (ke i + off). lia.
Qed.

Lemma asc_filter f lo hi l : asc lo hi l -> asc lo hi (filter f l).
Proof.
  intros [S B]. split.
  - clear B. induction l as [|i l IH]; [constructor|]. cbn [map] in S. apply StronglySorted_inv in S as [S Hi].
    cbn [filter]. destruct (f i); [|now apply IH].
    cbn [map]. constructor; [now apply IH|]. apply Forall_map_ke in Hi. apply Forall_map_ke.
    rewrite Forall_forall in *. intros x Hx. apply Hi. apply filter_In in Hx. tauto.
  - rewrite Forall_forall in *. intros x Hx. apply B. apply filter_In in Hx. tauto.
Qed.

(* ascending keys >= 1 are ascending tokens *)
Lemma asc_itok lo hi l : asc lo hi l -> StronglySorted lt (map itok l).
Proof.
  induction l as [|i l IH]; intros [S B]; [constructor|].
  cbn [map] in *. apply StronglySorted_inv in S as [S Hi]. inversion B as [|? ? Bi B']; subst.
  constructor; [apply IH; now split|]. apply Forall_map_ke in Hi. apply (proj2 (Forall_map itok (lt (itok i)) l)).
  rewrite Forall_forall in *. intros x Hx. specialize (Hi x Hx). specialize (B' x Hx). unfold itok, ke in *. lia.
Qed.

Ltac bnd :=
  cbn [fl_var fl_fac fl_mul fl_add fl_cmp fl_type fl_stmt fl_stmts fl_param fl_vardecl fl_decl fl_sep
       v_c1 v_c2 v_x v_c3 v_t v_c4];
  leneq.
Ltac key := unfold ke, shift_ident, x_ident; cbn [id_info shift_info i_e mkinfo]; bnd.

(* ---------------------------------------------------------------------------------------- *)
(* expressions                                                                               *)

Theorem expr_asc :
  (forall v o, asc o (o + len (fl_var v)) (vars_in_variable all (x_var o v))) /\
  (forall f o, asc o (o + len (fl_fac f)) (vars_in_expr all (x_fac o f))) /\
  (forall m o, asc o (o + len (fl_mul m)) (vars_in_expr all (x_mul o m))) /\
  (forall a o, asc o (o + len (fl_add a)) (vars_in_expr all (x_add o a))) /\
  (forall e o, asc o (o + len (fl_cmp e)) (vars_in_expr all (x_cmp o e))).
Proof.
  apply aexpr_mutind.
  - (* AName *) intros c x o. cbn [x_var vars_in_variable all]. apply asc_one. key.
  - (* AIndex *) intros v IHv c1 e IHe c2 o. cbn [x_var vars_in_variable].
    eapply asc_app; [apply IHv | apply asc_shift, IHe | bnd].
  - (* FLit *) intros c l o. apply asc_nil.
  - (* FVar *) intros v IHv o. cbn [x_fac vars_in_expr fl_fac]. apply IHv.
  - (* FNeg *) intros c f IHf o. cbn [x_fac vars_in_expr]. eapply asc_weaken; [apply IHf | bnd].
  - (* FPar *) intros c1 e IHe c2 o. cbn [x_fac vars_in_expr]. eapply asc_weaken; [apply IHe | bnd].
  - (* MFac *) intros f IHf o. apply IHf.
  - (* MBin *) intros m IHm c op f IHf o. cbn [x_mul vars_in_expr]. eapply asc_app; [apply IHm | apply IHf | bnd].
  - (* AMul *) intros m IHm o. apply IHm.
  - (* ABin *) intros a IHa c op m IHm o. cbn [x_add vars_in_expr]. eapply asc_app; [apply IHa | apply IHm | bnd].
  - (* CAdd *) intros a IHa o. apply IHa.
  - (* CBin *) intros l IHl c op r IHr o. cbn [x_cmp vars_in_expr]. eapply asc_app; [apply IHl | apply IHr | bnd].
Qed.

Definition var_asc := proj1 expr_asc.
Definition cmp_asc := proj2 (proj2 (proj2 (proj2 expr_asc))).

(* an expression behind a Reference at D *)
Lemma ref_cmp_asc e D : asc D (D + len (fl_cmp e)) (shift_idents (vars_in_expr all (x_cmp 0 e)) D).
Proof. eapply asc_weaken; [apply asc_shift, cmp_asc | lia]. Qed.

(* ---------------------------------------------------------------------------------------- *)
(* type expressions                                                                          *)

Lemma opt_list_shift (X : option ident) off :
  opt_list (match X with Some i => Some (shift_ident i off) | None => None end) = shift_idents (opt_list X) off.
Proof. destruct X; reflexivity. Qed.

Lemma opt_list_map (X : option ident) off :
  opt_list (option_map (fun i => shift_ident i off) X) = shift_idents (opt_list X) off.
Proof. destruct X; reflexivity. Qed.

Lemma type_asc : forall t o off,
  asc (o + off) (o + off + len (fl_type t)) (opt_list (ident_in_texpr (x_type o t) off)).
Proof.
  induction t as [c x | ca cl cz size cr co base IH]; intros o off.
  - cbn [x_type ident_in_texpr opt_list]. apply asc_one. key.
  - cbn [x_type ident_in_texpr]. rewrite opt_list_shift.
    eapply asc_weaken; [apply asc_shift, (IH 0) | bnd].
Qed.

(* the type expression of a declaration: a Reference at toff inside a Reference at D *)
Lemma ref_type_asc t toff D :
  asc (toff + D) (toff + D + len (fl_type t)) (shift_idents (opt_list (ident_in_texpr (x_type 0 t) toff)) D).
Proof. eapply asc_weaken; [apply asc_shift, (type_asc t 0) | lia]. Qed.

(* ---------------------------------------------------------------------------------------- *)
(* lists of References with a running offset                                                 *)

Lemma tail_asc {A B} (fl : A -> list kind) (x : A -> B) (F : B * nat -> list ident) :
  (forall a D, asc D (D + len (fl a)) (F (x a, D))) ->
  forall l o, asc o (o + len (fl_tail fl l)) (flat_map F (x_tail fl x o l)).
Proof.
  intros HF. induction l as [|[c a] l IH]; intros o; [apply asc_nil|].
  unfold fl_tail in *. cbn [x_tail flat_map fst snd]. eapply asc_app; [apply HF | apply IH | leneq].
Qed.

Lemma sep_asc {A B} (fl : A -> list kind) (x : A -> B) (F : B * nat -> list ident) :
  (forall a D, asc D (D + len (fl a)) (F (x a, D))) ->
  forall l o, asc o (o + len (fl_sep fl l)) (flat_map F (x_sep fl x o l)).
Proof.
  intros HF [[a r]|] o; [|apply asc_nil].
  cbn [x_sep fl_sep flat_map]. eapply asc_app; [apply HF | apply (tail_asc fl x F HF) | leneq].
Qed.

Lemma vardecls_asc (F : vardecl * nat -> list ident) :
  (forall v D, asc D (D + len (fl_vardecl v)) (F (x_vardecl v, D))) ->
  forall vs o, asc o (o + len (flat_map fl_vardecl vs)) (flat_map F (x_vardecls o vs)).
Proof.
  intros HF. induction vs as [|v vs IH]; intros o; [apply asc_nil|].
  cbn [x_vardecls flat_map]. eapply asc_app; [apply HF | apply IH | leneq].
Qed.

Lemma decls_asc (F : gdecl * nat -> list ident) :
  (forall d D, asc D (D + len (fl_decl d)) (F (x_decl d, D))) ->
  forall l o, asc o (o + len (flat_map fl_decl l)) (flat_map F (x_decls o l)).
Proof.
  intros HF. induction l as [|d l IH]; intros o; [apply asc_nil|].
  cbn [x_decls flat_map]. eapply asc_app; [apply HF | apply IH | leneq].
Qed.

(* ---------------------------------------------------------------------------------------- *)
(* statements                                                                                *)

Definition argF (a : expr * nat) : list ident := shift_idents (vars_in_expr all (fst a)) (snd a).

Lemma arg_asc e D : asc D (D + len (fl_cmp e)) (argF (x_cmp 0 e, D)).
Proof. apply ref_cmp_asc. Qed.

Theorem stmt_vars_asc :
  (forall s o, asc o (o + len (fl_stmt s)) (vars_in_stmt all (x_stmt o s))) /\
  (forall b o, asc o (o + len (fl_stmts b)) (vars_in_stmts all (x_stmts o b))).
Proof.
  apply astmt_mutind.
  - (* SEmp *) intros c o. apply asc_nil.
  - (* SAsg *) intros v c1 e c2 o. cbn [x_stmt vars_in_stmt vars_in_oexpr].
    eapply asc_app; [apply var_asc | apply ref_cmp_asc | bnd].
  - (* SCal *) intros c1 f c2 a c3 c4 o. cbn [x_stmt vars_in_stmt].
    eapply asc_weaken; [apply (sep_asc fl_cmp (x_cmp 0) argF arg_asc) | bnd].
  - (* SIfT *) intros c1 c2 e c3 t IHt o. cbn [x_stmt vars_in_stmt vars_in_oexpr]. rewrite app_nil_r.
    eapply asc_app; [apply ref_cmp_asc | apply asc_shift, IHt | bnd].
  - (* SIfE *) intros c1 c2 e c3 t IHt c4 s IHs o. cbn [x_stmt vars_in_stmt vars_in_oexpr].
    eapply asc_app; [apply ref_cmp_asc | eapply asc_cat; [apply asc_shift, IHt | apply asc_shift, IHs | bnd] | bnd].
  - (* SWhl *) intros c1 c2 e c3 b IHb o. cbn [x_stmt vars_in_stmt vars_in_oexpr].
    eapply asc_app; [apply ref_cmp_asc | apply asc_shift, IHb | bnd].
  - (* SBlk *) intros c1 b IHb c2 o. cbn [x_stmt vars_in_stmt]. rewrite (block_go (vars_in_stmt all) shift_idents).
    eapply asc_weaken; [apply IHb | bnd].
  - (* SNil *) intros o. apply asc_nil.
  - (* SCons *) intros s IHs r IHr o. unfold vars_in_stmts in *. cbn [x_stmts flat_map fst snd].
    eapply asc_app; [apply asc_shift, IHs | apply IHr | bnd].
Qed.

Theorem stmt_procs_asc :
  (forall s o, asc o (o + len (fl_stmt s)) (procs_in_stmt all (x_stmt o s))) /\
  (forall b o, asc o (o + len (fl_stmts b)) (procs_in_stmts all (x_stmts o b))).
Proof.
  apply astmt_mutind.
  - (* SEmp *) intros c o. apply asc_nil.
  - (* SAsg *) intros v c1 e c2 o. apply asc_nil.
  - (* SCal *) intros c1 f c2 a c3 c4 o. cbn [x_stmt procs_in_stmt all]. apply asc_one. key.
  - (* SIfT *) intros c1 c2 e c3 t IHt o. cbn [x_stmt procs_in_stmt]. rewrite app_nil_r.
    eapply asc_weaken; [apply asc_shift, IHt | bnd].
  - (* SIfE *) intros c1 c2 e c3 t IHt c4 s IHs o. cbn [x_stmt procs_in_stmt].
    eapply asc_app; [apply asc_shift, IHt | apply asc_shift, IHs | bnd].
  - (* SWhl *) intros c1 c2 e c3 b IHb o. cbn [x_stmt procs_in_stmt].
    eapply asc_weaken; [apply asc_shift, IHb | bnd].
  - (* SBlk *) intros c1 b IHb c2 o. cbn [x_stmt procs_in_stmt]. rewrite (block_go (procs_in_stmt all) shift_idents).
    eapply asc_weaken; [apply IHb | bnd].
  - (* SNil *) intros o. apply asc_nil.
  - (* SCons *) intros s IHs r IHr o. unfold procs_in_stmts in *. cbn [x_stmts flat_map fst snd].
    eapply asc_app; [apply asc_shift, IHs | apply IHr | bnd].
Qed.

(* ---------------------------------------------------------------------------------------- *)
(* parameters and variable declarations: names and types                                     *)

Definition pnameF (x : paramdecl * nat) : list ident :=
  match fst x with PValid _ _ (Some i) _ _ => if all i then [shift_ident i (snd x)] else [] | _ => [] end.
Definition ptypeF (x : paramdecl * nat) : list ident :=
  match fst x with
  | PValid _ _ _ (Some (te, toff)) _ => filter all (opt_list (option_map (fun i => shift_ident i (snd x)) (ident_in_texpr te toff)))
  | _ => []
  end.
Definition vnameF (x : vardecl * nat) : list ident :=
  match fst x with VValid _ (Some i) _ _ => if all i then [shift_ident i (snd x)] else [] | _ => [] end.
Definition vtypeF (x : vardecl * nat) : list ident :=
  match fst x with
  | VValid _ _ (Some (te, toff)) _ => filter all (opt_list (option_map (fun i => shift_ident i (snd x)) (ident_in_texpr te toff)))
  | _ => []
  end.

Lemma pname_asc p D : asc D (D + len (fl_param p)) (pnameF (x_param p, D)).
Proof. destruct p as [c x cc t | cr c x cc t]; cbn [pnameF x_param fst snd all]; apply asc_one; key. Qed.

Lemma ptype_asc p D : asc D (D + len (fl_param p)) (ptypeF (x_param p, D)).
Proof.
  destruct p as [c x cc t | cr c x cc t]; cbn [ptypeF x_param fst snd]; rewrite opt_list_map; apply asc_filter;
    (eapply asc_weaken; [apply ref_type_asc | bnd]).
Qed.

Lemma vname_asc v D : asc D (D + len (fl_vardecl v)) (vnameF (x_vardecl v, D)).
Proof. destruct v as [c1 c2 x c3 t c4]. unfold x_vardecl, fl_vardecl. cbn [vnameF fst snd all v_c1 v_c2 v_x]. apply asc_one. key. Qed.

Lemma vtype_asc v D : asc D (D + len (fl_vardecl v)) (vtypeF (x_vardecl v, D)).
Proof.
  destruct v as [c1 c2 x c3 t c4]. unfold x_vardecl, fl_vardecl. cbn [vtypeF fst snd v_c1 v_c2 v_x v_c3 v_t]. rewrite opt_list_map.
  apply asc_filter. eapply asc_weaken; [apply ref_type_asc | bnd].
Qed.

(* ---------------------------------------------------------------------------------------- *)
(* declarations                                                                              *)

Lemma vars_of_proc_asc c1 c2 x c3 ps c4 c5 vs b c6 D :
  let d := DProc c1 c2 x c3 ps c4 c5 vs b c6 in
  asc D (D + len (fl_decl d)) (vars_of_proc all (the_proc d) D).
Proof.
  cbv zeta. unfold vars_of_proc, the_proc. cbn [x_decl pd_params pd_vars pd_stmts].
  eapply asc_weaken; [apply asc_shift | ].
  - eapply asc_cat; [apply (sep_asc fl_param x_param pnameF pname_asc) | | ].
    + eapply asc_cat; [apply (vardecls_asc vnameF vname_asc) | apply (proj2 stmt_vars_asc) | lia].
    + bnd.
  - bnd.
Qed.

Definition typesF (g : gdecl * nat) : list ident :=
  shift_idents
    (match fst g with
     | GType td =>
         (match td_name td with Some i => if all i then [i] else [] | None => [] end)
         ++ (match td_ty td with Some (te, toff) => filter all (opt_list (ident_in_texpr te toff)) | None => [] end)
     | GProc pd => types_in_params all (pd_params pd) ++ types_in_vars all (pd_vars pd)
     | GError _ => []
     end) (snd g).

Lemma types_decl_asc d D : asc D (D + len (fl_decl d)) (typesF (x_decl d, D)).
Proof.
  destruct d as [c1 c2 x c3 t c4 | c1 c2 x c3 ps c4 c5 vs b c6]; unfold typesF; cbn [x_decl fst snd td_name td_ty pd_params pd_vars all].
  - eapply asc_weaken; [apply asc_shift | ].
    + eapply asc_cat; [apply (asc_one (len c1 + 1 + len c2) (len c1 + 1 + len c2 + 1)); key | apply asc_filter, (type_asc t 0) | bnd].
    + bnd.
  - eapply asc_weaken; [apply asc_shift | ].
    + eapply asc_cat; [apply (sep_asc fl_param x_param ptypeF ptype_asc) | apply (vardecls_asc vtypeF vtype_asc) | bnd].
    + bnd.
Qed.

Definition procsF (g : gdecl * nat) : list ident :=
  match fst g with
  | GProc pd =>
      shift_idents
        ((match pd_name pd with Some i => if all i then [i] else [] | None => [] end) ++ procs_in_stmts all (pd_stmts pd))
        (snd g)
  | _ => []
  end.

Lemma procs_decl_asc d D : asc D (D + len (fl_decl d)) (procsF (x_decl d, D)).
Proof.
  destruct d as [c1 c2 x c3 t c4 | c1 c2 x c3 ps c4 c5 vs b c6]; unfold procsF; cbn [x_decl fst snd pd_name pd_stmts all];
    [apply asc_nil|].
  eapply asc_weaken; [apply asc_shift | ].
  - eapply asc_cat; [apply (asc_one (len c1 + 1 + len c2) (len c1 + 1 + len c2 + 1)); key | apply (proj2 stmt_procs_asc) | bnd].
  - bnd.
Qed.

(* ---------------------------------------------------------------------------------------- *)
(* a walk under a shift-invariant test is the walk under [all], filtered                      *)

Lemma find_types_filter f p : fshift f -> find_types_f f p = filter f (find_types_f all p).
Proof.
  intros Hf. change (flt f (find_types_f f p) (find_types_f all p)). unfold find_types_f.
  apply flt_flat_map. intros [g off] _. cbn [fst snd]. apply flt_shift; [exact Hf|].
  destruct g as [td|pd|inf]; [| |apply flt_nil].
  - apply flt_app.
    + destruct (td_name td) as [i|]; [apply flt_test | apply flt_nil].
    + destruct (td_ty td) as [[te toff]|]; [apply flt_filter | apply flt_nil].
  - apply flt_app; [apply types_in_params_flt | apply types_in_vars_flt].
Qed.

Lemma find_procs_filter f p : fshift f -> find_procs_f f p = filter f (find_procs_f all p).
Proof.
  intros Hf. change (flt f (find_procs_f f p) (find_procs_f all p)). unfold find_procs_f.
  apply flt_flat_map. intros [g off] _. cbn [fst snd]. destruct g as [td|pd|inf]; try apply flt_nil.
  apply flt_shift; [exact Hf|]. apply flt_app; [|apply procs_in_stmts_flt; exact Hf].
  destruct (pd_name pd) as [i|]; [apply flt_test | apply flt_nil].
Qed.

Lemma vars_of_proc_filter f pd D : fshift f -> vars_of_proc f pd D = filter f (vars_of_proc all pd D).
Proof.
  intros Hf. change (flt f (vars_of_proc f pd D) (vars_of_proc all pd D)). unfold vars_of_proc.
  apply flt_shift; [exact Hf|].
  repeat apply flt_app; [apply var_names_in_params_flt | apply var_names_in_vars_flt | apply vars_in_stmts_flt]; exact Hf.
Qed.

(* ---------------------------------------------------------------------------------------- *)
(* the three walks on the trees of the grammar                                               *)

Lemma find_types_asc (p : aprog) : asc 0 (0 + len (flat_map fl_decl (a_decls p))) (find_types_f all (expected p)).
Proof. exact (decls_asc typesF types_decl_asc (a_decls p) 0). Qed.

Lemma find_procs_asc (p : aprog) : asc 0 (0 + len (flat_map fl_decl (a_decls p))) (find_procs_f all (expected p)).
Proof. exact (decls_asc procsF procs_decl_asc (a_decls p) 0). Qed.

Theorem find_types_sorted : forall (p : aprog) f, fshift f -> StronglySorted lt (map itok (find_types_f f (expected p))).
Proof. intros p f Hf. rewrite (find_types_filter f _ Hf). eapply asc_itok, asc_filter, find_types_asc. Qed.

Theorem find_procs_sorted : forall (p : aprog) f, fshift f -> StronglySorted lt (map itok (find_procs_f f (expected p))).
Proof. intros p f Hf. rewrite (find_procs_filter f _ Hf). eapply asc_itok, asc_filter, find_procs_asc. Qed.

Theorem vars_of_proc_sorted : forall c1 c2 x c3 ps c4 c5 vs b c6 D f, fshift f ->
  StronglySorted lt (map itok (vars_of_proc f (the_proc (DProc c1 c2 x c3 ps c4 c5 vs b c6)) D)).
Proof.
  intros c1 c2 x c3 ps c4 c5 vs b c6 D f Hf. rewrite (vars_of_proc_filter f _ _ Hf).
  eapply asc_itok, asc_filter, vars_of_proc_asc.
Qed.

Print Assumptions find_types_sorted.
Print Assumptions find_procs_sorted.
Print Assumptions vars_of_proc_sorted.
