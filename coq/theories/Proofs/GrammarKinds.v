(* C04 - the parser is a function of the token KINDS: byte ranges and lexical error lists of the tokens never
   reach it.  For all token vectors (valid or not):  map tk toks1 = map tk toks2 -> parse toks1 = parse toks2.
   Logical-relations argument over the combinators of Model/Parser.v. *)
From Coq Require Import List Lia Arith Bool.
From Spl Require Import Model.Parser Spec.Grammar Proofs.GrammarBase Proofs.GrammarExpr Proofs.GrammarStmt Proofs.GrammarProg.
Import ListNotations.
Local Open Scope nat_scope.

Definition Rt (a b : token) : Prop := tk a = tk b.
Definition Rprod {A B} (RA : A -> A -> Prop) (RB : B -> B -> Prop) (x y : A * B) : Prop :=
  RA (fst x) (fst y) /\ RB (snd x) (snd y).
Definition Ropt {A} (R : A -> A -> Prop) (x y : option A) : Prop :=
  match x, y with Some a, Some b => R a b | None, None => True | _, _ => False end.

Inductive Rres {A} (R : A -> A -> Prop) : pres A -> pres A -> Prop :=
| ROk s a b : R a b -> Rres R (POk s a) (POk s b)
| RErr s : Rres R (PErr s) (PErr s)
| RFuel : Rres R PFuel PFuel.
Definition Rp {A} (R : A -> A -> Prop) (p q : parser A) : Prop := forall s, Rres R (p s) (q s).

Lemma Rres_eq {A} (r1 r2 : pres A) : Rres eq r1 r2 <-> r1 = r2.
Proof. split; [intros []; congruence | intros <-; destruct r1; constructor; reflexivity]. Qed.
Lemma Rp_eq {A} (p q : parser A) : Rp eq p q <-> forall s, p s = q s.
Proof. unfold Rp; split; intros H s; apply Rres_eq, H. Qed.

Lemma Forall2_eq {A} (l l' : list A) : Forall2 eq l l' -> l = l'.
Proof. induction 1; congruence. Qed.

Lemma Forall2_prod_eq {A B} (l l' : list (A * B)) :
  Forall2 (fun x y => fst x = fst y /\ snd x = snd y) l l' -> l = l'.
Proof. induction 1 as [|[a b] [a' b'] l l' [H1 H2] _ IH]; cbn in *; congruence. Qed.

(* ---- combinators ---- *)
Lemma rel_bind {A B} (RA : A -> A -> Prop) (RB : B -> B -> Prop) r1 r2 (k1 k2 : st -> A -> pres B) :
  Rres RA r1 r2 -> (forall s a b, RA a b -> Rres RB (k1 s a) (k2 s b)) -> Rres RB (bind r1 k1) (bind r2 k2).
Proof. intros [] Hk; cbn; [now apply Hk | constructor | constructor]. Qed.

Lemma rel_map {A B} (RA : A -> A -> Prop) (RB : B -> B -> Prop) (f g : A -> B) p q :
  Rp RA p q -> (forall a b, RA a b -> RB (f a) (g b)) -> Rp RB (p_map f p) (p_map g q).
Proof. intros Hp Hf s. unfold p_map. eapply rel_bind; [apply Hp|]. intros; constructor; auto. Qed.

Lemma rel_alt {A} (R : A -> A -> Prop) p q p' q' : Rp R p p' -> Rp R q q' -> Rp R (p_alt p q) (p_alt p' q').
Proof. intros Hp Hq s. unfold p_alt. destruct (Hp s); [constructor; auto | apply Hq | constructor]. Qed.

Lemma rel_restore {A} (R : A -> A -> Prop) p p' : Rp R p p' -> Rp R (p_restore p) (p_restore p').
Proof. intros Hp s. unfold p_restore. destruct (Hp s); constructor; auto. Qed.

Lemma rel_opt {A} (R : A -> A -> Prop) p p' : Rp R p p' -> Rp (Ropt R) (p_opt p) (p_opt p').
Proof. intros Hp s. unfold p_opt. destruct (Hp s); constructor; cbn; auto. Qed.

Lemma rel_pair {A B} (RA : A -> A -> Prop) (RB : B -> B -> Prop) p q p' q' :
  Rp RA p p' -> Rp RB q q' -> Rp (Rprod RA RB) (p_pair p q) (p_pair p' q').
Proof.
  intros Hp Hq s. unfold p_pair. eapply rel_bind; [apply Hp|]. intros s1 a b Hab.
  eapply rel_bind; [apply Hq|]. intros; constructor; split; auto.
Qed.

Lemma rel_preceded {A B} (RA : A -> A -> Prop) (RB : B -> B -> Prop) p q p' q' :
  Rp RA p p' -> Rp RB q q' -> Rp RB (p_preceded p q) (p_preceded p' q').
Proof. intros Hp Hq. unfold p_preceded. eapply rel_map; [apply (rel_pair _ _ _ _ _ _ Hp Hq)|]. now intros a b []. Qed.

Lemma rel_terminated {A B} (RA : A -> A -> Prop) (RB : B -> B -> Prop) p q p' q' :
  Rp RA p p' -> Rp RB q q' -> Rp RA (p_terminated p q) (p_terminated p' q').
Proof. intros Hp Hq. unfold p_terminated. eapply rel_map; [apply (rel_pair _ _ _ _ _ _ Hp Hq)|]. now intros a b []. Qed.

Lemma rel_many0 {A} (R : A -> A -> Prop) p p' fuel : Rp R p p' -> Rp (Forall2 R) (p_many0 fuel p) (p_many0 fuel p').
Proof.
  intros Hp. induction fuel as [|f IH]; intros s; cbn [p_many0]; [constructor|].
  destruct (Hp s) as [s' a b Hab| |]; [|constructor; constructor|constructor].
  destruct (Nat.eqb (pos s') (pos s)); [constructor|].
  eapply rel_bind; [apply IH|]. intros; constructor; constructor; auto.
Qed.

Lemma rel_info {A} (R : A -> A -> Prop) p p' : Rp R p p' -> Rp (Rprod R eq) (p_info p) (p_info p').
Proof. intros Hp s. unfold p_info. destruct (Hp (set_ebuf s [])); constructor. split; cbn; auto. Qed.

Lemma rel_expect {A} (R : A -> A -> Prop) p p' m : Rp R p p' -> Rp (Ropt R) (p_expect p m) (p_expect p' m).
Proof. intros Hp s. unfold p_expect. destruct (Hp s); constructor; cbn; auto. Qed.

Lemma rel_ref {A} (R : A -> A -> Prop) p p' : Rp R p p' -> Rp (Rprod R eq) (p_ref p) (p_ref p').
Proof. intros Hp s. unfold p_ref. destruct (Hp (set_refp s (pos s))); constructor. split; cbn; auto. Qed.

Lemma rel_confusable {A} (R : A -> A -> Prop) p p' m : Rp R p p' -> Rp R (p_confusable p m) (p_confusable p' m).
Proof.
  intros Hp s. unfold p_confusable. eapply rel_bind; [apply (rel_info _ _ _ Hp)|].
  intros s1 a b [H1 H2]. rewrite H2. constructor. exact H1.
Qed.

Ltac crush_rel :=
  repeat (progress (
    repeat match goal with x : (_ * _)%type |- _ => destruct x end;
    unfold Rprod, Rt in *; cbn [fst snd] in *;
    repeat match goal with H : _ /\ _ |- _ => destruct H end;
    repeat match goal with
           | H : Ropt _ ?x ?y |- _ => is_var x; is_var y; destruct x, y; cbn [Ropt] in H; try contradiction
           | H : True |- _ => clear H
           | H : (_, _) = (_, _) |- _ => injection H as ? ?
           end; subst));
  repeat match goal with H : tk _ = tk _ |- _ => rewrite H; clear H end.

(* structural steps through the combinators; leaves are closed by the hints passed in [leaf] *)
Ltac rel_with leaf :=
  repeat first
    [ leaf
    | apply rel_alt | eapply rel_pair | eapply rel_preceded | eapply rel_terminated | apply rel_opt
    | apply rel_info | apply rel_expect | apply rel_ref | apply rel_confusable | apply rel_many0 ].

Section Kinds.
Variables toks1 toks2 : list token.
Hypothesis HK : map tk toks1 = map tk toks2.

Lemma len_eq : length toks1 = length toks2.
Proof. now rewrite <- (map_length tk toks1), HK, map_length. Qed.

Fixpoint lead_k (l : list kind) : list text :=
  match l with Comment c :: r => c :: lead_k r | _ => [] end.
Lemma leading_kinds l : leading_comments l = lead_k (map tk l).
Proof. induction l as [|t l IH]; cbn; [reflexivity|]. destruct (tk t); try reflexivity. now rewrite IH. Qed.

Lemma comments_eq p : comments_at toks1 p = comments_at toks2 p.
Proof. unfold comments_at. now rewrite !leading_kinds, <- !skipn_map, HK. Qed.

Lemma nth_rel i : Ropt Rt (nth_error toks1 i) (nth_error toks2 i).
Proof.
  pose proof (f_equal (fun l => nth_error l i) HK) as H. cbn in H. rewrite !nth_error_map in H.
  destruct (nth_error toks1 i), (nth_error toks2 i); cbn in *; try discriminate; [now injection H|exact I].
Qed.

Lemma rel_tag f : Rp Rt (p_tag toks1 f) (p_tag toks2 f).
Proof.
  intros s. unfold p_tag. rewrite comments_eq.
  pose proof (nth_rel (pos (adv s (length (comments_at toks2 (pos s)))))) as H.
  destruct (nth_error toks1 _) as [t1|], (nth_error toks2 _) as [t2|]; cbn in H; try contradiction; [|constructor].
  rewrite H. destruct (f (tk t2)); constructor. exact H.
Qed.

Lemma comments_p_eq s : p_comments toks1 s = p_comments toks2 s.
Proof. unfold p_comments. now rewrite comments_eq. Qed.

Lemma la_tag_eq f p : la_tag toks1 f p = la_tag toks2 f p.
Proof.
  unfold la_tag, sig_at. rewrite comments_eq. pose proof (nth_rel (p + length (comments_at toks2 p))) as H.
  destruct (nth_error toks1 _), (nth_error toks2 _); cbn in H; try contradiction; [now rewrite H|reflexivity].
Qed.
Lemma la_ident_then_eq f p : la_ident_then toks1 f p = la_ident_then toks2 f p.
Proof.
  unfold la_ident_then, sig_at. rewrite comments_eq. pose proof (nth_rel (p + length (comments_at toks2 p))) as H.
  destruct (nth_error toks1 _), (nth_error toks2 _); cbn in H; try contradiction; [|reflexivity].
  rewrite H. destruct (is_ident _); [apply la_tag_eq|reflexivity].
Qed.
Lemma la_global_eq p : la_global toks1 p = la_global toks2 p.
Proof. apply la_tag_eq. Qed.
Lemma la_stmt_eq p : la_stmt toks1 p = la_stmt toks2 p.
Proof. unfold la_stmt. now rewrite la_tag_eq, la_ident_then_eq, la_global_eq. Qed.
Lemma la_var_dec_eq p : la_var_dec toks1 p = la_var_dec toks2 p.
Proof. unfold la_var_dec. now rewrite la_tag_eq, la_stmt_eq, la_ident_then_eq. Qed.
Lemma la_param_eq p : la_param toks1 p = la_param toks2 p.
Proof. unfold la_param. now rewrite la_tag_eq, la_var_dec_eq. Qed.

Lemma ignore_from_eq la1 la2 : (forall p, la1 p = la2 p) -> forall n s, ignore_from toks1 n la1 s = ignore_from toks2 n la2 s.
Proof.
  intros Hla n. induction n as [|n IH]; intros s; cbn [ignore_from]; rewrite Hla; [reflexivity|]. rewrite len_eq.
  destruct (la2 (pos s)); [reflexivity|]. destruct (Nat.ltb _ _); [apply IH|reflexivity].
Qed.

Lemma skipped_rel s s' : Forall2 Rt (skipped toks1 s s') (skipped toks2 s s').
Proof.
  unfold skipped. generalize (pos s' - pos s) as n. generalize (pos s) as k. clear s s'.
  intros k n. revert HK. generalize toks1 toks2. clear.
  intros l1. revert k n. induction l1 as [|a l1 IH]; intros k n [|b l2] H; try discriminate.
  - rewrite !skipn_nil, !firstn_nil. constructor.
  - cbn in H. injection H as Hab Hl. destruct k as [|k]; cbn [skipn].
    + destruct n as [|n]; cbn [firstn]; constructor; [exact Hab|]. apply (IH 0 n l2 Hl).
    + apply IH, Hl.
Qed.

Lemma show_tokens_rel l l' : Forall2 Rt l l' -> show_tokens l = show_tokens l'.
Proof. induction 1 as [|a b l l' Hab _ IH]; cbn; [reflexivity|]. unfold show_tokens in IH. now rewrite Hab, IH. Qed.

Lemma rel_ignore0 la1 la2 : (forall p, la1 p = la2 p) -> Rp (Forall2 Rt) (p_ignore0 toks1 la1) (p_ignore0 toks2 la2).
Proof.
  intros Hla s. unfold p_ignore0. rewrite len_eq, (ignore_from_eq la1 la2 Hla).
  destruct (ignore_from toks2 _ la2 s); cbn; constructor. apply skipped_rel.
Qed.
Lemma rel_ignore1 la1 la2 : (forall p, la1 p = la2 p) -> Rp (Forall2 Rt) (p_ignore1 toks1 la1) (p_ignore1 toks2 la2).
Proof. intros Hla s. unfold p_ignore1. rewrite Hla. destruct (la2 (pos s)); [constructor|now apply rel_ignore0]. Qed.

Lemma rel_peek la1 la2 : (forall p, la1 p = la2 p) -> Rp eq (p_peek_la la1) (p_peek_la la2).
Proof. intros Hla s. unfold p_peek_la. rewrite Hla. destruct (la2 (pos s)); constructor; reflexivity. Qed.


Ltac leaf0 := first [ apply rel_tag | (apply rel_peek; first [apply la_param_eq | intros; apply la_tag_eq]) ].

Lemma rel_ident : Rp eq (p_ident toks1) (p_ident toks2).
Proof. unfold p_ident. eapply rel_map; [rel_with leaf0|]. intros a b H. crush_rel. reflexivity. Qed.

Lemma rel_intlit : Rp eq (p_intlit toks1) (p_intlit toks2).
Proof.
  unfold p_intlit. eapply rel_map; [apply rel_info; eapply rel_map; [rel_with leaf0|]|].
  - intros a b H. unfold lit_value. now rewrite H.
  - intros a b H. crush_rel. reflexivity.
Qed.

Ltac leaf1 := first [ leaf0 | apply rel_ident | apply rel_intlit | (apply Rp_eq; intros; apply comments_p_eq) ].

(* ---- expressions ---- *)
Definition ExprRel (f : nat) : Prop :=
  Rp eq (p_variable toks1 f) (p_variable toks2 f) /\ Rp eq (p_primary toks1 f) (p_primary toks2 f) /\
  Rp eq (p_factor toks1 f) (p_factor toks2 f) /\
  (forall s lhs, Rres eq (mul_loop toks1 f s lhs) (mul_loop toks2 f s lhs)) /\ Rp eq (p_mul toks1 f) (p_mul toks2 f) /\
  (forall s lhs, Rres eq (add_loop toks1 f s lhs) (add_loop toks2 f s lhs)) /\ Rp eq (p_add toks1 f) (p_add toks2 f) /\
  Rp eq (p_comparison toks1 f) (p_comparison toks2 f).

Lemma rel_rhs p1 p2 lhs op : Rp eq p1 p2 -> Rp eq (p_rhs p1 lhs op) (p_rhs p2 lhs op).
Proof.
  intros Hp s. unfold p_rhs. eapply rel_bind; [apply (rel_expect _ _ _ _ Hp)|].
  intros s' a b H. crush_rel; apply ROk; reflexivity.
Qed.

Lemma fold_acc_rel vinfo (l l' : list acc_item) w :
  Forall2 (Rprod (Rprod (Ropt (Rprod eq eq)) (Ropt Rt)) eq) l l' ->
  fold_left (fun v a => ArrAccess v (fst (fst a)) (extend_range (snd a) vinfo)) l w =
  fold_left (fun v a => ArrAccess v (fst (fst a)) (extend_range (snd a) vinfo)) l' w.
Proof.
  intros H. revert w. induction H as [|a b l l' Hab _ IH]; intros w; cbn [fold_left]; [reflexivity|].
  destruct Hab as [[H1 _] H2]. rewrite H2, IH. f_equal. f_equal.
  destruct (fst (fst a)) as [[? ?]|], (fst (fst b)) as [[? ?]|]; cbn in H1; try contradiction; [|reflexivity].
  destruct H1 as [E1 E2]; cbn in E1, E2. now subst.
Qed.

Lemma expr_rel f : ExprRel f.
Proof.
  induction f as [|f (Hv & Hp & Hf & Hml & Hm & Hal & Ha & Hc)].
  - repeat split; intros; constructor.
  - assert (Hv' : Rp eq (p_variable toks1 (S f)) (p_variable toks2 (S f))).
    { intros s. rewrite !p_variable_S. unfold acc_p.
      eapply rel_bind; [apply rel_pair; [apply rel_info; eapply rel_map; [apply rel_ident|intros ? ? ->; reflexivity]|
                                         apply rel_many0; rel_with ltac:(first [leaf1 | exact Hc])]|].
      intros s' a b H. destruct a as [[v0 vi] acc], b as [[v0' vi'] acc']. destruct H as [[H1 H2] H3]. cbn [fst snd] in *. subst.
      constructor. now apply fold_acc_rel. }
    assert (Hp' : Rp eq (p_primary toks1 (S f)) (p_primary toks2 (S f))).
    { intros s. rewrite !p_primary_S. revert s. apply rel_alt; [eapply rel_map; [apply rel_intlit|intros ? ? ->; reflexivity]|].
      apply rel_alt; [eapply rel_map; [exact Hv|intros ? ? ->; reflexivity]|].
      intros s. unfold bracketed_p. eapply rel_bind; [revert s; rel_with ltac:(first [leaf1 | exact Hc])|].
      intros s' a b H. crush_rel; apply ROk; reflexivity. }
    assert (Hf' : Rp eq (p_factor toks1 (S f)) (p_factor toks2 (S f))).
    { intros s. rewrite !p_factor_S. revert s. apply rel_alt; [exact Hp|].
      eapply rel_map; [rel_with ltac:(first [leaf1 | exact Hf])|]. intros a b H. crush_rel. reflexivity. }
    assert (Hml' : forall s lhs, Rres eq (mul_loop toks1 (S f) s lhs) (mul_loop toks2 (S f) s lhs)).
    { intros s lhs. rewrite !mul_loop_S. destruct (rel_tag is_mulop s) as [s1 a b Hab| |]; [|constructor; reflexivity|constructor].
      rewrite Hab. eapply rel_bind; [apply (rel_rhs _ _ _ _ Hf)|]. intros s2 x y ->. apply Hml. }
    assert (Hm' : Rp eq (p_mul toks1 (S f)) (p_mul toks2 (S f))).
    { intros s. rewrite !p_mul_S. eapply rel_bind; [apply Hf|]. intros s1 x y ->. apply Hml. }
    assert (Hal' : forall s lhs, Rres eq (add_loop toks1 (S f) s lhs) (add_loop toks2 (S f) s lhs)).
    { intros s lhs. rewrite !add_loop_S. destruct (rel_tag is_addop s) as [s1 a b Hab| |]; [|constructor; reflexivity|constructor].
      rewrite Hab. eapply rel_bind; [apply (rel_rhs _ _ _ _ Hm)|]. intros s2 x y ->. apply Hal. }
    assert (Ha' : Rp eq (p_add toks1 (S f)) (p_add toks2 (S f))).
    { intros s. rewrite !p_add_S. eapply rel_bind; [apply Hm|]. intros s1 x y ->. apply Hal. }
    assert (Hc' : Rp eq (p_comparison toks1 (S f)) (p_comparison toks2 (S f))).
    { intros s. rewrite !p_comparison_S. eapply rel_bind; [apply Ha|]. intros s1 x y ->.
      destruct (rel_tag is_cmpop s1) as [s2 a b Hab| |]; [|constructor; reflexivity|constructor].
      rewrite Hab. apply (rel_rhs _ _ _ _ Ha). }
    repeat split; assumption.
Qed.

Lemma rel_expr f : Rp eq (p_expr toks1 f) (p_expr toks2 f).
Proof. apply expr_rel. Qed.
Lemma rel_variable f : Rp eq (p_variable toks1 f) (p_variable toks2 f).
Proof. apply expr_rel. Qed.


(* ---- types, declarations, statements ---- *)
Lemma rel_texpr f : Rp eq (p_texpr toks1 f) (p_texpr toks2 f).
Proof.
  induction f as [|f IH]; [intros s; constructor|].
  intros s. rewrite !p_texpr_S. revert s. apply rel_alt.
  - eapply rel_map; [rel_with ltac:(first [leaf1 | exact IH])|]. intros a b H. crush_rel; reflexivity.
  - eapply rel_map; [apply rel_ident|]. now intros ? ? ->.
Qed.

Ltac leaf2 := first [ leaf1 | apply rel_texpr | apply rel_expr | apply rel_variable
                    | (apply rel_peek; first [apply la_param_eq | intros; apply la_tag_eq])
                    | (first [apply rel_ignore0 | apply rel_ignore1];
                       first [apply la_param_eq | apply la_var_dec_eq | apply la_stmt_eq | apply la_global_eq]) ].

Lemma rel_typedecl f : Rp eq (p_typedecl toks1 f) (p_typedecl toks2 f).
Proof. unfold p_typedecl. eapply rel_map; [rel_with leaf2|]. intros a b H. crush_rel; reflexivity. Qed.

Lemma rel_vardecl f : Rp eq (p_vardecl toks1 f) (p_vardecl toks2 f).
Proof.
  unfold p_vardecl. apply rel_alt.
  - eapply rel_map; [rel_with leaf2|]. intros a b H. crush_rel; reflexivity.
  - eapply rel_map; [rel_with leaf2|]. intros a b H. crush_rel. reflexivity.
Qed.

Lemma rel_paramdecl f : Rp eq (p_paramdecl toks1 f) (p_paramdecl toks2 f).
Proof.
  unfold p_paramdecl. apply rel_alt.
  - eapply rel_map; [apply rel_info; eapply rel_pair; [leaf2|eapply rel_pair; [|rel_with leaf2]]|].
    + apply rel_alt; (eapply rel_map; [rel_with leaf2|]); intros a b H; crush_rel; reflexivity.
    + intros a b H. crush_rel; reflexivity.
  - eapply rel_map; [rel_with leaf2|]. intros a b H. crush_rel. reflexivity.
Qed.

Lemma rel_list {A} (p1 p2 : parser A) f : Rp eq p1 p2 -> Rp eq (p_list toks1 f p1) (p_list toks2 f p2).
Proof.
  intros Hp s. unfold p_list. eapply rel_bind; [apply (rel_ref _ _ _ Hp)|]. intros s1 a b Hab.
  eapply rel_bind; [apply rel_many0; eapply rel_map; [rel_with ltac:(first [leaf2 | exact Hp])|]|].
  - intros x y H. instantiate (1 := eq). crush_rel. reflexivity.
  - intros s2 x y H. apply Forall2_eq in H. crush_rel. apply ROk. reflexivity.
Qed.

Lemma rel_argument f : Rp eq (p_argument toks1 f) (p_argument toks2 f).
Proof.
  unfold p_argument. apply rel_alt.
  - eapply rel_terminated; [apply rel_expr|apply rel_peek, la_param_eq].
  - eapply rel_map; [rel_with leaf2|]. intros a b H. crush_rel. reflexivity.
Qed.

Lemma rel_call f : Rp eq (p_call toks1 f) (p_call toks2 f).
Proof.
  unfold p_call. eapply rel_map; [apply rel_info; eapply rel_pair; [rel_with leaf2|eapply rel_pair; [|rel_with leaf2]]|].
  - apply rel_alt; [eapply rel_map; [leaf2|intros; reflexivity]|apply rel_list, rel_argument].
  - intros a b H. crush_rel; reflexivity.
Qed.

Lemma rel_assign f : Rp eq (p_assign toks1 f) (p_assign toks2 f).
Proof. unfold p_assign. eapply rel_map; [rel_with leaf2|]. intros a b H. crush_rel; reflexivity. Qed.

Lemma rel_stmt f : Rp eq (p_stmt toks1 f) (p_stmt toks2 f).
Proof.
  induction f as [|f IH]; [intros s; constructor|].
  intros s. rewrite !p_stmt_S. unfold stmt_ref. revert s.
  apply rel_alt; [|apply rel_alt; [|apply rel_alt; [|apply rel_alt; [|apply rel_alt; [apply rel_call|
    apply rel_alt; [apply rel_assign|apply rel_restore]]]]]].
  - eapply rel_map; [rel_with leaf2|]. intros a b H. crush_rel; reflexivity.
  - eapply rel_map; [rel_with ltac:(first [leaf2 | exact IH])|]. intros a b H. crush_rel; reflexivity.
  - eapply rel_map; [rel_with ltac:(first [leaf2 | exact IH])|]. intros a b H. crush_rel; reflexivity.
  - eapply rel_map; [rel_with ltac:(first [leaf2 | exact IH])|]. intros a b H. crush_rel.
    all: match goal with H : Forall2 _ _ _ |- _ => apply Forall2_prod_eq in H; subst end; reflexivity.
  - eapply rel_map; [rel_with leaf2|]. intros a b H. crush_rel.
    all: match goal with H : Forall2 _ _ _ |- _ => rewrite (show_tokens_rel _ _ H) end; reflexivity.
Qed.


Ltac leaf3 := first [ leaf2 | apply rel_vardecl | apply rel_stmt | apply rel_typedecl ].

Lemma rel_procdecl f : Rp eq (p_procdecl toks1 f) (p_procdecl toks2 f).
Proof.
  unfold p_procdecl.
  eapply rel_map; [apply rel_info; eapply rel_pair; [leaf3|]; do 3 (eapply rel_pair; [rel_with leaf3|]);
                   eapply rel_pair; [|rel_with leaf3]|].
  - apply rel_alt; [eapply rel_map; [leaf3|intros; reflexivity]|apply rel_list, rel_paramdecl].
  - intros a b H. crush_rel;
      repeat match goal with H : Forall2 _ _ _ |- _ => apply Forall2_prod_eq in H; subst end; reflexivity.
Qed.

Lemma rel_gdecl f : Rp eq (p_gdecl toks1 f) (p_gdecl toks2 f).
Proof.
  unfold p_gdecl. apply rel_alt; [eapply rel_map; [apply rel_typedecl|now intros ? ? ->]|].
  apply rel_alt; [eapply rel_map; [apply rel_procdecl|now intros ? ? ->]|].
  eapply rel_map; [rel_with leaf3|]. intros a b H. crush_rel.
  match goal with H : Forall2 _ _ _ |- _ => rewrite (show_tokens_rel _ _ H) end. reflexivity.
Qed.

Lemma rel_eof : Rp eq (p_eof_all toks1) (p_eof_all toks2).
Proof.
  intros s. unfold p_eof_all. eapply rel_bind; [apply rel_tag|]. intros s' a b _. rewrite len_eq.
  destruct (Nat.ltb _ _); constructor. reflexivity.
Qed.

Lemma rel_program f : Rp eq (p_program toks1 f) (p_program toks2 f).
Proof.
  unfold p_program. eapply rel_map; [eapply rel_pair; [apply rel_info, rel_many0, rel_ref, rel_gdecl|apply rel_eof]|].
  intros a b H. crush_rel. match goal with H : Forall2 _ _ _ |- _ => apply Forall2_prod_eq in H; subst end. reflexivity.
Qed.

End Kinds.

Theorem parse_kinds_only toks1 toks2 : map tk toks1 = map tk toks2 -> parse toks1 = parse toks2.
Proof.
  intros H. unfold parse, parse_fuel. rewrite (len_eq _ _ H).
  destruct (rel_program toks1 toks2 H (16 * (length toks2 + 2)) {| pos := 0; refp := 0; ebuf := [] |}); congruence.
Qed.
