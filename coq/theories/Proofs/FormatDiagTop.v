(* C09 "same diagnostics" for programs with comments, part 4: the top level of build and analyze, two-sided.

   Two trees whose declarations agree up to erasure are built and analysed to trees that agree up to erasure.  The only
   place where the analysis READS a token range is `analyze`: the body of a procedure declaration is analysed iff its
   range is the range stored in the table entry of its name (i.e. iff it is the declaration that made the entry).  So the
   relation carries a correspondence [rho] between the declaration ranges of the two trees that is injective both ways. *)
From Coq Require Import String List Lia PeanoNat.
From Spl Require Import Model.Errors Proofs.FormatDiagErase Proofs.FormatDiagSem Proofs.FormatDiagMsgs.
Import ListNotations.
Local Open Scope nat_scope.

(* ================================================================================================
   1. Two-sided corollaries of the erasure lemmas
   ================================================================================================ *)
Lemma ident_flag_2 n n' m a b :
  er_ident n = er_ident n' -> ident_flag n m = ROk a -> ident_flag n' m = ROk b -> er_ident a = er_ident b.
Proof.
  intros E Ha Hb.
  destruct (rsim_ok _ _ _ _ (ident_flag_er n m) Ha) as (c & Hc & ->).
  destruct (rsim_ok _ _ _ _ (ident_flag_er n' m) Hb) as (c' & Hc' & ->).
  rewrite E in Hc. congruence.
Qed.

Lemma gdt_2 l l' g g' c ty ty' a dt b dt' :
  olt l = olt l' -> ogt g = ogt g' -> er_oty ty = er_oty ty' ->
  get_data_type l g c ty = ROk (a, dt) -> get_data_type l' g' c ty' = ROk (b, dt') -> er_oty a = er_oty b /\ dt = dt'.
Proof.
  intros Hl Hg E Ha Hb.
  destruct (rsim_ok _ _ _ _ (gdt_er l l g g eq_refl eq_refl c ty) Ha) as (r & Hr & ->).
  destruct (rsim_ok _ _ _ _ (gdt_er l' l g' g (eq_sym Hl) (eq_sym Hg) c ty') Hb) as (r' & Hr' & ->).
  rewrite E in Hr. cbn [fst snd] in *. split; congruence.
Qed.

Lemma bparams_2 ps ps' name g g' r r' :
  er_params ps = er_params ps' -> er_gt g = er_gt g' ->
  build_parameters ps name g [] = ROk r -> build_parameters ps' name g' [] = ROk r' ->
  er_params (fst (fst r)) = er_params (fst (fst r')) /\ er_lt (snd (fst r)) = er_lt (snd (fst r')) /\ map er_ve (snd r) = map er_ve (snd r').
Proof.
  intros E Hg Ha Hb.
  destruct (rsim_ok _ _ _ _ (build_parameters_er ps name g g eq_refl [] [] eq_refl) Ha) as (c & Hc & C1 & C2 & C3).
  destruct (rsim_ok _ _ _ _ (build_parameters_er ps' name g' g (eq_sym Hg) [] [] eq_refl) Hb) as (c' & Hc' & D1 & D2 & D3).
  rewrite E in Hc. rewrite Hc in Hc'. injection Hc' as <-. repeat split; congruence.
Qed.

Lemma bvars_2 vs vs' name g g' local local' r r' :
  er_vars vs = er_vars vs' -> er_gt g = er_gt g' -> er_lt local = er_lt local' ->
  build_variables vs name g local = ROk r -> build_variables vs' name g' local' = ROk r' ->
  er_vars (fst r) = er_vars (fst r') /\ er_lt (snd r) = er_lt (snd r').
Proof.
  intros E Hg Hl Ha Hb.
  destruct (rsim_ok _ _ _ _ (build_variables_er vs name g g eq_refl local local eq_refl) Ha) as (c & Hc & C1 & C2).
  destruct (rsim_ok _ _ _ _ (build_variables_er vs' name g' g (eq_sym Hg) local' local (eq_sym Hl)) Hb) as (c' & Hc' & D1 & D2).
  rewrite E in Hc. rewrite Hc in Hc'. injection Hc' as <-. split; congruence.
Qed.

Lemma an_stmts_2 L L' G G' s s' a b :
  olt L = olt L' -> ogt G = ogt G' -> er_stmts s = er_stmts s' ->
  an_stmts L G s = ROk a -> an_stmts L' G' s' = ROk b -> er_stmts a = er_stmts b.
Proof.
  intros Hl Hg E Ha Hb.
  destruct (rsim_ok _ _ _ _ (an_stmts_er L L G G eq_refl eq_refl s) Ha) as (c & Hc & ->).
  destruct (rsim_ok _ _ _ _ (an_stmts_er L' L G' G (eq_sym Hl) (eq_sym Hg) s') Hb) as (c' & Hc' & ->).
  rewrite E in Hc. congruence.
Qed.

Lemma range_eqb_eq a b : range_eqb a b = true <-> a = b.
Proof.
  destruct a as [a1 a2], b as [b1 b2]. unfold range_eqb. cbn [fst snd]. rewrite andb_true_iff, !Nat.eqb_eq. split; [intros [-> ->]; reflexivity|].
  intros E. injection E as -> ->. split; reflexivity.
Qed.

Lemma lookup_app {V} (t : list (text * V)) k v k0 :
  lookup (t ++ [(k, v)]) k0 = match lookup t k0 with Some x => Some x | None => if text_eqb k k0 then Some v else None end.
Proof.
  induction t as [|[k1 v1] r IH]; [reflexivity|]. cbn [app lookup]. destruct (text_eqb k1 k0); [reflexivity | exact IH].
Qed.

Section Top.
Variable rho : range -> range -> Prop.
Hypothesis rho_inj : forall a a' b b', rho a a' -> rho b b' -> (a = b <-> a' = b').

(* global tables: equal up to erasure, and the ranges of corresponding procedure entries correspond *)
Definition tsim (T T' : gtable) : Prop :=
  er_gt T = er_gt T' /\
  forall k pe pe', lookup T k = Some (GProcE pe) -> lookup T' k = Some (GProcE pe') -> rho (pe_range pe) (pe_range pe').

Lemma tsim_lookup T T' k : tsim T T' -> option_map er_ge (lookup T k) = option_map er_ge (lookup T' k).
Proof. intros [E _]. unfold er_gt in E. rewrite <- !(lookup_map er_ge), E. reflexivity. Qed.

Lemma enter_tsim T T' k v v' :
  tsim T T' -> er_ge v = er_ge v' ->
  (forall pe pe', v = GProcE pe -> v' = GProcE pe' -> rho (pe_range pe) (pe_range pe')) ->
  tsim (fst (enter T k v)) (fst (enter T' k v')) /\ snd (enter T k v) = snd (enter T' k v').
Proof.
  intros Ht Ev Hr. destruct (enter_sim er_ge T T' k v v' (proj1 Ht) Ev) as [E1 E2]. split; [|exact E2]. split; [exact E1|].
  pose proof (tsim_lookup T T' k Ht) as Ek. unfold enter.
  destruct (lookup T k) as [x|], (lookup T' k) as [x'|]; try discriminate Ek; cbn [fst]; [exact (proj2 Ht)|].
  intros k0 pe pe'. rewrite !lookup_app. pose proof (tsim_lookup T T' k0 Ht) as Ek0.
  destruct (lookup T k0) as [y|] eqn:L0, (lookup T' k0) as [y'|] eqn:L0'; try discriminate Ek0.
  - intros E E'. injection E as ->. injection E' as ->. apply (proj2 Ht k0); assumption.
  - destruct (text_eqb k k0); [|discriminate]. intros E E'. injection E as ->. injection E' as ->. apply Hr; reflexivity.
Qed.

(* a declaration with its offset: erasures agree, shifted ranges correspond *)
Definition drange (x : gdecl * nat) : range := shift_range (info_range (gdecl_info (fst x))) (snd x).
Definition dsim (x x' : gdecl * nat) : Prop := er_gdecl (fst x) = er_gdecl (fst x') /\ rho (drange x) (drange x').

Lemma opt_ident_eq (n n' : ident) : option_map er_ident (Some n) = option_map er_ident (Some n') -> er_ident n = er_ident n' /\ id_val n = id_val n'.
Proof.
  intros E. assert (E1 : er_ident n = er_ident n') by (cbn [option_map] in E; congruence). split; [exact E1|].
  apply (f_equal id_val) in E1. exact E1.
Qed.

(* ---- build ---- *)
Lemma build_typedecl_2 d d' T T' o o' d1 T1 d1' T1' :
  er_typedecl d = er_typedecl d' -> tsim T T' ->
  build_typedecl d T o = ROk (d1, T1) -> build_typedecl d' T' o' = ROk (d1', T1') ->
  er_typedecl d1 = er_typedecl d1' /\ tsim T1 T1'.
Proof.
  intros Ed Ht H H'. destruct d as [docs nm ty inf], d' as [docs' nm' ty' inf'].
  pose proof (f_equal td_name Ed) as En. pose proof (f_equal td_ty Ed) as Ety. pose proof (f_equal td_info Ed) as Einf.
  cbn [er_typedecl td_name td_ty td_info] in En, Ety, Einf.
  unfold build_typedecl in H, H'. cbn [td_name td_doc td_ty td_info] in H, H'.
  destruct nm as [n|], nm' as [n'|]; try discriminate En.
  2: { injection H as <- <-. injection H' as <- <-. split; [exact Ed | exact Ht]. }
  destruct (opt_ident_eq n n' En) as [En1 Ev]. rewrite <- Ev in H'.
  destruct (text_eqb (id_val n) s_main).
  - destruct (ident_flag n _) as [a|] eqn:Ea; [|discriminate H]. cbn [rbind] in H. injection H as <- <-.
    destruct (ident_flag n' _) as [b|] eqn:Eb; [|discriminate H']. cbn [rbind] in H'. injection H' as <- <-.
    split; [|exact Ht]. unfold er_typedecl. cbn [td_name td_ty td_info option_map].
    rewrite (ident_flag_2 n n' _ a b En1 Ea Eb), Ety, Einf. reflexivity.
  - destruct (get_data_type None (Some T) (Some (id_val n)) ty) as [[ty1 dt]|] eqn:E1; [|discriminate H]. cbn [rbind] in H.
    destruct (get_data_type None (Some T') (Some (id_val n)) ty') as [[ty1' dt']|] eqn:E1'; [|discriminate H']. cbn [rbind] in H'.
    destruct (gdt_2 None None (Some T) (Some T') _ ty ty' ty1 dt ty1' dt' eq_refl (f_equal Some (proj1 Ht)) Ety E1 E1') as [Ety1 <-].
    match type of H with context [enter T (id_val n) ?X] => set (e := X) in H end.
    match type of H' with context [enter T' (id_val n) ?X] => set (e' := X) in H' end.
    assert (Ee : er_ge e = er_ge e').
    { unfold e, e', er_ge, er_te. cbn [ten_name ten_ty]. rewrite En1. reflexivity. }
    destruct (enter_tsim T T' (id_val n) e e' Ht Ee ltac:(intros pe pe' E; discriminate E)) as [Ht1 Eok].
    destruct (enter T (id_val n) e) as [t1 ok], (enter T' (id_val n) e') as [t1' ok']. cbn [fst snd] in Ht1, Eok. subst ok'.
    destruct ok.
    + cbn [rbind] in H, H'. injection H as <- <-. injection H' as <- <-. split; [|exact Ht1].
      unfold er_typedecl. cbn [td_name td_ty td_info option_map]. rewrite En1, Ety1, Einf. reflexivity.
    + destruct (ident_flag n _) as [a|] eqn:Ea; [|discriminate H]. cbn [rbind] in H. injection H as <- <-.
      destruct (ident_flag n' _) as [b|] eqn:Eb; [|discriminate H']. cbn [rbind] in H'. injection H' as <- <-.
      split; [|exact Ht1]. unfold er_typedecl. cbn [td_name td_ty td_info option_map].
      rewrite (ident_flag_2 n n' _ a b En1 Ea Eb), Ety1, Einf. reflexivity.
Qed.

Lemma build_procdecl_2 d d' T T' o o' d1 T1 d1' T1' :
  er_procdecl d = er_procdecl d' -> tsim T T' ->
  rho (shift_range (info_range (pd_info d)) o) (shift_range (info_range (pd_info d')) o') ->
  build_procdecl d T o = ROk (d1, T1) -> build_procdecl d' T' o' = ROk (d1', T1') ->
  er_procdecl d1 = er_procdecl d1' /\ tsim T1 T1' /\ pd_info d1 = pd_info d /\ pd_info d1' = pd_info d'.
Proof.
  intros Ed Ht Hr H H'. destruct d as [docs nm ps vs ss inf], d' as [docs' nm' ps' vs' ss' inf'].
  pose proof (f_equal pd_name Ed) as En. pose proof (f_equal pd_params Ed) as Eps. pose proof (f_equal pd_vars Ed) as Evs.
  pose proof (f_equal pd_stmts Ed) as Ess. pose proof (f_equal pd_info Ed) as Einf.
  cbn [er_procdecl pd_name pd_params pd_vars pd_stmts pd_info] in En, Eps, Evs, Ess, Einf, Hr.
  unfold build_procdecl in H, H'. cbn [pd_name pd_doc pd_params pd_vars pd_stmts pd_info] in H, H'.
  destruct nm as [n|], nm' as [n'|]; try discriminate En.
  2: { injection H as <- <-. injection H' as <- <-. repeat split; [exact Ed | apply Ht | apply Ht]. }
  destruct (opt_ident_eq n n' En) as [En1 Ev]. rewrite <- Ev in H'.
  destruct (build_parameters ps (id_val n) T []) as [[[ps1 l1] es]|] eqn:E1; [|discriminate H]. cbn [rbind] in H.
  destruct (build_parameters ps' (id_val n) T' []) as [[[ps1' l1'] es']|] eqn:E1'; [|discriminate H']. cbn [rbind] in H'.
  destruct (bparams_2 ps ps' _ T T' _ _ Eps (proj1 Ht) E1 E1') as (P1 & P2 & P3). cbn [fst snd] in P1, P2, P3.
  destruct (build_variables vs (id_val n) T l1) as [[vs1 l2]|] eqn:E2; [|discriminate H]. cbn [rbind] in H.
  destruct (build_variables vs' (id_val n) T' l1') as [[vs1' l2']|] eqn:E2'; [|discriminate H']. cbn [rbind] in H'.
  destruct (bvars_2 vs vs' _ T T' l1 l1' _ _ Evs (proj1 Ht) P2 E2 E2') as (V1 & V2). cbn [fst snd] in V1, V2.
  match type of H with context [enter T (id_val n) ?X] => set (e := X) in H end.
  match type of H' with context [enter T' (id_val n) ?X] => set (e' := X) in H' end.
  assert (Ee : er_ge e = er_ge e').
  { unfold e, e', er_ge, er_pe. cbn [pe_name pe_local pe_params]. rewrite En1, V2, P3. reflexivity. }
  assert (Hre : forall pe pe', e = GProcE pe -> e' = GProcE pe' -> rho (pe_range pe) (pe_range pe')).
  { intros pe pe' E E'. unfold e in E. unfold e' in E'. injection E as <-. injection E' as <-. cbn [pe_range]. exact Hr. }
  destruct (enter_tsim T T' (id_val n) e e' Ht Ee Hre) as [Ht1 Eok].
  destruct (enter T (id_val n) e) as [t1 ok], (enter T' (id_val n) e') as [t1' ok']. cbn [fst snd] in Ht1, Eok. subst ok'.
  destruct ok.
  - cbn [rbind] in H, H'. injection H as <- <-. injection H' as <- <-. split; [|split; [exact Ht1 | split; reflexivity]].
    unfold er_procdecl. cbn [pd_name pd_params pd_vars pd_stmts pd_info option_map]. rewrite En1, P1, V1, Ess, Einf. reflexivity.
  - destruct (ident_flag n _) as [a|] eqn:Ea; [|discriminate H]. cbn [rbind] in H. injection H as <- <-.
    destruct (ident_flag n' _) as [b|] eqn:Eb; [|discriminate H']. cbn [rbind] in H'. injection H' as <- <-.
    split; [|split; [exact Ht1 | split; reflexivity]]. unfold er_procdecl. cbn [pd_name pd_params pd_vars pd_stmts pd_info option_map].
    rewrite (ident_flag_2 n n' _ a b En1 Ea Eb), P1, V1, Ess, Einf. reflexivity.
Qed.

Lemma build_typedecl_info d T o d1 T1 : build_typedecl d T o = ROk (d1, T1) -> td_info d1 = td_info d.
Proof.
  unfold build_typedecl. destruct (td_name d) as [n|]; [|intros H; injection H as <- _; reflexivity].
  destruct (text_eqb (id_val n) s_main).
  - destruct (ident_flag n _); cbn [rbind]; [|discriminate]. intros H. injection H as <- _. reflexivity.
  - destruct (get_data_type _ _ _ _) as [[ty1 dt]|]; cbn [rbind]; [|discriminate].
    destruct (enter _ _ _) as [t1 ok]. destruct (if ok then _ else _); cbn [rbind]; [|discriminate]. intros H. injection H as <- _. reflexivity.
Qed.

Lemma build_gdecl_2 x x' T T' g1 T1 g1' T1' :
  dsim x x' -> tsim T T' ->
  build_gdecl (fst x) T (snd x) = ROk (g1, T1) -> build_gdecl (fst x') T' (snd x') = ROk (g1', T1') ->
  dsim (g1, snd x) (g1', snd x') /\ tsim T1 T1'.
Proof.
  intros [Eg Hr] Ht H H'. destruct x as [g o], x' as [g' o']. cbn [fst snd] in *. unfold drange in Hr. cbn [fst snd] in Hr.
  destruct g as [d|d|inf], g' as [d'|d'|inf']; try discriminate Eg; cbn [build_gdecl] in H, H'; cbn [er_gdecl] in Eg.
  - destruct (build_typedecl d T o) as [[d1 t1]|] eqn:E; [|discriminate H]. cbn [rbind] in H. injection H as <- <-.
    destruct (build_typedecl d' T' o') as [[d1' t1']|] eqn:E'; [|discriminate H']. cbn [rbind] in H'. injection H' as <- <-.
    assert (Ed : er_typedecl d = er_typedecl d') by congruence.
    destruct (build_typedecl_2 d d' T T' o o' _ _ _ _ Ed Ht E E') as [E1 Ht1]. split; [|exact Ht1].
    split; [cbn [fst er_gdecl]; rewrite E1; reflexivity|]. unfold drange. cbn [fst snd gdecl_info] in *.
    rewrite (build_typedecl_info _ _ _ _ _ E), (build_typedecl_info _ _ _ _ _ E'). exact Hr.
  - destruct (build_procdecl d T o) as [[d1 t1]|] eqn:E; [|discriminate H]. cbn [rbind] in H. injection H as <- <-.
    destruct (build_procdecl d' T' o') as [[d1' t1']|] eqn:E'; [|discriminate H']. cbn [rbind] in H'. injection H' as <- <-.
    assert (Ed : er_procdecl d = er_procdecl d') by congruence. cbn [gdecl_info] in Hr.
    destruct (build_procdecl_2 d d' T T' o o' _ _ _ _ Ed Ht Hr E E') as (E1 & Ht1 & I1 & I1'). split; [|exact Ht1].
    split; [cbn [fst er_gdecl]; rewrite E1; reflexivity|]. unfold drange. cbn [fst snd gdecl_info]. rewrite I1, I1'. exact Hr.
  - injection H as <- <-. injection H' as <- <-. split; [|exact Ht]. split; [exact Eg | exact Hr].
Qed.

Lemma build_gdecls_2 ds : forall ds' T T' r r',
  Forall2 dsim ds ds' -> tsim T T' ->
  build_gdecls ds T 0 = ROk r -> build_gdecls ds' T' 0 = ROk r' ->
  Forall2 dsim (fst r) (fst r') /\ tsim (snd r) (snd r').
Proof.
  induction ds as [|[d off] ds IH]; intros ds' T T' r r' HF Ht H H'; inversion HF as [|x y l l' Hx Hl]; subst.
  - injection H as <-. injection H' as <-. split; [constructor | exact Ht].
  - destruct y as [d' off']. cbn [build_gdecls Nat.add] in H, H'.
    destruct (build_gdecl d T off) as [[d1 t1]|] eqn:E; [|discriminate H]. cbn [rbind] in H.
    destruct (build_gdecl d' T' off') as [[d1' t1']|] eqn:E'; [|discriminate H']. cbn [rbind] in H'.
    destruct (build_gdecl_2 (d, off) (d', off') T T' _ _ _ _ Hx Ht E E') as [Hd Ht1]. cbn [snd] in Hd.
    destruct (build_gdecls ds t1 0) as [[r1 t2]|] eqn:E2; [|discriminate H]. cbn [rbind] in H. injection H as <-.
    destruct (build_gdecls l' t1' 0) as [[r1' t2']|] eqn:E2'; [|discriminate H']. cbn [rbind] in H'. injection H' as <-.
    destruct (IH l' t1 t1' _ _ Hl Ht1 E2 E2') as [F2 Ht2]. cbn [fst snd] in *. split; [constructor; assumption | exact Ht2].
Qed.

(* programs: declarations pairwise [dsim], the same messages on the program node *)
Definition prsim (p p' : program) : Prop :=
  Forall2 dsim (pg_decls p) (pg_decls p') /\ msgs (i_errs (pg_info p)) = msgs (i_errs (pg_info p')).

Lemma msgs_append i i' x x' : msgs (i_errs i) = msgs (i_errs i') -> e_m x = e_m x' ->
  msgs (i_errs (info_append i x)) = msgs (i_errs (info_append i' x')).
Proof. intros H1 H2. cbn [info_append i_errs]. rewrite !map_app, H1. cbn [map]. rewrite H2. reflexivity. Qed.

Lemma build_program_2 p p' T T' r r' :
  prsim p p' -> tsim T T' ->
  build_program p T 0 = ROk r -> build_program p' T' 0 = ROk r' ->
  prsim (fst r) (fst r') /\ tsim (snd r) (snd r').
Proof.
  intros [HF Hm] Ht H H'. unfold build_program in H, H'.
  destruct (build_gdecls (pg_decls p) T 0) as [[ds1 t1]|] eqn:E; [|discriminate H]. cbn [rbind] in H.
  destruct (build_gdecls (pg_decls p') T' 0) as [[ds1' t1']|] eqn:E'; [|discriminate H']. cbn [rbind] in H'.
  destruct (build_gdecls_2 _ _ T T' _ _ HF Ht E E') as [F1 Ht1]. cbn [fst snd] in F1, Ht1.
  pose proof (tsim_lookup t1 t1' s_main Ht1) as Em.
  destruct (lookup t1 s_main) as [[te|main]|], (lookup t1' s_main) as [[te'|main']|]; try discriminate Em; try discriminate H.
  - cbn [option_map er_ge] in Em.
    assert (Ep : map er_ve (pe_params main) = map er_ve (pe_params main')).
    { apply (f_equal (fun o => match o with Some (GProcE q) => pe_params q | _ => [] end)) in Em. exact Em. }
    destruct (pe_params main) as [|v vr], (pe_params main') as [|v' vr']; try discriminate Ep.
    + injection H as <-. injection H' as <-. cbn [fst snd]. split; [split; [exact F1 | exact Hm] | exact Ht1].
    + destruct (to_error (pe_name main) _) as [e|]; [|discriminate H]. cbn [rbind] in H. injection H as <-.
      destruct (to_error (pe_name main') _) as [e'|]; [|discriminate H']. cbn [rbind] in H'. injection H' as <-.
      cbn [fst snd]. split; [split; [exact F1|] | exact Ht1]. cbn [pg_info]. apply msgs_append; [exact Hm | reflexivity].
  - injection H as <-. injection H' as <-. cbn [fst snd]. split; [split; [exact F1|] | exact Ht1]. cbn [pg_info].
    apply msgs_append; [exact Hm | reflexivity].
Qed.

(* ---- analyze ---- *)
Lemma analyze_gdecl_2 T T' x x' y y' :
  dsim x x' -> tsim T T' -> analyze_gdecl T x = ROk y -> analyze_gdecl T' x' = ROk y' -> dsim y y'.
Proof.
  intros Hx Ht H H'. pose proof Hx as [Eg Hr]. destruct x as [g o], x' as [g' o']. cbn [fst snd] in Eg. unfold drange in Hr. cbn [fst snd] in Hr.
  unfold analyze_gdecl in H, H'.
  destruct g as [d|d|inf], g' as [d'|d'|inf']; try discriminate Eg;
    try (injection H as <-; injection H' as <-; exact Hx).
  cbn [er_gdecl] in Eg. assert (Ed : er_procdecl d = er_procdecl d') by congruence. cbn [gdecl_info] in Hr.
  pose proof (f_equal pd_name Ed) as En. pose proof (f_equal pd_stmts Ed) as Ess. cbn [er_procdecl pd_name pd_stmts] in En, Ess.
  destruct (pd_name d) as [n|] eqn:Nd, (pd_name d') as [n'|] eqn:Nd'; try discriminate En;
    try (injection H as <-; injection H' as <-; exact Hx).
  destruct (opt_ident_eq n n' En) as [En1 Ev]. rewrite <- Ev in H'.
  pose proof (tsim_lookup T T' (id_val n) Ht) as El.
  destruct (lookup T (id_val n)) as [[te|pe]|] eqn:L1, (lookup T' (id_val n)) as [[te'|pe']|] eqn:L1'; try discriminate El;
    try discriminate H; try (injection H as <-; injection H' as <-; exact Hx).
  pose proof (proj2 Ht _ _ _ L1 L1') as Hp.
  assert (Eb : range_eqb (pe_range pe) (shift_range (info_range (pd_info d)) o)
               = range_eqb (pe_range pe') (shift_range (info_range (pd_info d')) o')).
  { pose proof (rho_inj _ _ _ _ Hp Hr) as Hi. apply Bool.eq_iff_eq_true. rewrite !range_eqb_eq. exact Hi. }
  rewrite <- Eb in H'. destruct (negb (range_eqb (pe_range pe) (shift_range (info_range (pd_info d)) o))).
  - injection H as <-. injection H' as <-. exact Hx.
  - destruct (an_stmts (Some (pe_local pe)) (Some T) (pd_stmts d)) as [s1|] eqn:E; [|discriminate H]. cbn [rbind] in H. injection H as <-.
    destruct (an_stmts (Some (pe_local pe')) (Some T') (pd_stmts d')) as [s1'|] eqn:E'; [|discriminate H']. cbn [rbind] in H'. injection H' as <-.
    cbn [option_map er_ge] in El.
    assert (Elo : er_lt (pe_local pe) = er_lt (pe_local pe')).
    { apply (f_equal (fun o => match o with Some (GProcE q) => pe_local q | _ => [] end)) in El. exact El. }
    pose proof (an_stmts_2 (Some (pe_local pe)) (Some (pe_local pe')) (Some T) (Some T') _ _ _ _ (f_equal Some Elo) (f_equal Some (proj1 Ht)) Ess E E') as Es.
    split; [|exact Hr]. cbn [fst er_gdecl]. f_equal. unfold er_procdecl. cbn [pd_name pd_params pd_vars pd_stmts pd_info].
    rewrite Es. pose proof (f_equal pd_params Ed) as Q1. pose proof (f_equal pd_vars Ed) as Q2. pose proof (f_equal pd_info Ed) as Q3.
    cbn [er_procdecl pd_params pd_vars pd_info] in Q1, Q2, Q3. rewrite Q1, Q2, Q3, En. reflexivity.
Qed.

Lemma analyze_gdecls_2 T T' ds : forall ds' r r',
  Forall2 dsim ds ds' -> tsim T T' -> analyze_gdecls T ds = ROk r -> analyze_gdecls T' ds' = ROk r' -> Forall2 dsim r r'.
Proof.
  induction ds as [|x ds IH]; intros ds' r r' HF Ht H H'; inversion HF as [|x0 y l l' Hx Hl]; subst.
  - injection H as <-. injection H' as <-. constructor.
  - cbn [analyze_gdecls] in H, H'.
    destruct (analyze_gdecl T x) as [x1|] eqn:E; [|discriminate H]. cbn [rbind] in H.
    destruct (analyze_gdecl T' y) as [y1|] eqn:E'; [|discriminate H']. cbn [rbind] in H'.
    destruct (analyze_gdecls T ds) as [r1|] eqn:E2; [|discriminate H]. cbn [rbind] in H. injection H as <-.
    destruct (analyze_gdecls T' l') as [r1'|] eqn:E2'; [|discriminate H']. cbn [rbind] in H'. injection H' as <-.
    constructor; [exact (analyze_gdecl_2 T T' x y x1 y1 Hx Ht E E') | exact (IH l' r1 r1' Hl Ht eq_refl E2')].
Qed.

Lemma analyze_res_2 p p' T T' r r' :
  prsim p p' -> tsim T T' -> analyze_res p T = ROk r -> analyze_res p' T' = ROk r' -> prsim r r'.
Proof.
  intros [HF Hm] Ht H H'. unfold analyze_res in H, H'.
  destruct (analyze_gdecls T (pg_decls p)) as [r1|] eqn:E; [|discriminate H]. cbn [rbind] in H. injection H as <-.
  destruct (analyze_gdecls T' (pg_decls p')) as [r1'|] eqn:E'; [|discriminate H']. cbn [rbind] in H'. injection H' as <-.
  split; [exact (analyze_gdecls_2 T T' _ _ _ _ HF Ht E E') | exact Hm].
Qed.

(* the messages of two such programs *)
Lemma prsim_msgs p p' : prsim p p' -> msgs (tree_errors p) = msgs (tree_errors p').
Proof.
  intros [HF Hm]. unfold tree_errors. rewrite !map_app, Hm. f_equal. apply m_decls_eq.
  induction HF as [|x x' l l' [Hx _] _ IH]; constructor; assumption.
Qed.

End Top.
