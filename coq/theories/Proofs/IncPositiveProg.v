(* C01, positive part (4c/4): procedure declarations, global declarations, the program - and the
   theorem on token vectors: under an EMPTY TokenChange, parser::update on (an analysed copy of) the
   scratch tree of a token vector without parse errors returns that tree. *)
From Coq Require Import List Arith Lia.
From Spl Require Import Model.ParserInc Model.Errors Proofs.ParserComb Proofs.ParserFwd Proofs.UpdateDocProofsSim
  Proofs.UpdateDocProofsStrip
  Proofs.IncPositiveMono Proofs.IncPositiveSim Proofs.IncPositiveList Proofs.IncPositiveExpr Proofs.IncPositiveRng
  Proofs.IncPositiveTree Proofs.IncPositiveStmt.
Import ListNotations.
Local Open Scope nat_scope.

Definition RPr (th t : procdecl) : Prop := t = strip_procdecl th /\ procdecl_errors t = [].
Definition RG (th t : gdecl) : Prop := t = strip_gdecl th /\ gdecl_errors t = [].

Lemma strip_vardecl_rng t : i_s (vardecl_info (strip_vardecl t)) = i_s (vardecl_info t).
Proof. destruct t; reflexivity. Qed.
Lemma strip_paramdecl_rng t : i_s (paramdecl_info (strip_paramdecl t)) = i_s (paramdecl_info t).
Proof. destruct t; reflexivity. Qed.
Lemma strip_gdecl_rng t : i_s (gdecl_info (strip_gdecl t)) = i_s (gdecl_info t).
Proof. destruct t as [[]|[]|]; reflexivity. Qed.

Section P.
Variable toks : list token.
Variable w : nat.
Hypothesis Hncc : NCC toks.
Notation N := (length toks).
Notation FwdT := (Fwd toks sync_none).
Notation WF := (WF toks).
Notation Good := (Good toks).
Notation SG := (Stable_Good toks).
Notation Rng := (Rng toks).
Notation Adv := (Adv toks).
Notation QSpair := (QS_pair toks Good SG).
Notation QSinfo := (QS_info toks Good SG).
Notation QS_ident := (QS_ident toks w).
Notation QS_expect_this := (QS_expect_this toks).
Notation QS_affected' := (QS_affected' toks w).

Ltac fw := fwd_solve sync_none_ok.
Ltac wf := split; [fwd_solve sync_none_ok | mono_solve].
Ltac destruct_pairs := repeat match goal with r : (_ * _)%type |- _ => destruct r end.

(* ---- where the info of a declaration starts ---- *)
Lemma vardecl_start_at f s s1 t : p_vardecl toks f s = POk s1 t -> i_s (vardecl_info t) = pos s - refp s.
Proof.
  unfold p_vardecl. intros E. apply p_alt_ok in E as [E|[_ E]];
    apply p_map_ok in E as (r & E & ->); apply p_info_ok in E as (s0 & _ & _ & Hi); destruct_pairs; cbn [snd] in Hi; subst; reflexivity.
Qed.

Lemma paramdecl_start_at f s s1 t : p_paramdecl toks f s = POk s1 t -> i_s (paramdecl_info t) = pos s - refp s.
Proof.
  unfold p_paramdecl. intros E. apply p_alt_ok in E as [E|[_ E]];
    apply p_map_ok in E as (r & E & ->); apply p_info_ok in E as (s0 & _ & _ & Hi); destruct_pairs; cbn [snd] in Hi; subst; reflexivity.
Qed.

Lemma gdecl_start_at f s s1 t : p_gdecl toks f s = POk s1 t -> i_s (gdecl_info t) = pos s - refp s.
Proof.
  unfold p_gdecl. intros E. apply p_alt_ok in E as [E|[_ E]]; [|apply p_alt_ok in E as [E|[_ E]]].
  - apply p_map_ok in E as (d & E & ->). unfold p_typedecl in E.
    apply p_map_ok in E as (r & E & ->); apply p_info_ok in E as (s0 & _ & _ & Hi); destruct_pairs; cbn [snd] in Hi; subst; reflexivity.
  - apply p_map_ok in E as (d & E & ->). unfold p_procdecl in E.
    apply p_map_ok in E as (r & E & ->); apply p_info_ok in E as (s0 & _ & _ & Hi); destruct_pairs; cbn [snd] in Hi; subst; reflexivity.
  - apply p_map_ok in E as (r & E & ->); apply p_info_ok in E as (s0 & _ & _ & Hi); destruct_pairs; cbn [snd] in Hi; subst; reflexivity.
Qed.

Lemma vardecl_ref_start f (o a : vardecl * nat) s s1 :
  Rref RVd o a -> refp s <= pos s -> p_ref (p_vardecl toks f) s = POk s1 a -> vardecl_start o <= pos s.
Proof.
  intros [Ho1 [Ho2 _]] Hr E. apply p_ref_ok in E as (sx & E & _ & Hoff). apply vardecl_start_at in E. cbn [pos refp set_refp] in E.
  unfold vardecl_start. rewrite <- (strip_vardecl_rng (fst o)), <- Ho2, E, <- Ho1, Hoff. lia.
Qed.

Lemma gdecl_ref_start f (o a : gdecl * nat) s s1 :
  Rref RG o a -> refp s <= pos s -> p_ref (p_gdecl toks f) s = POk s1 a -> gdecl_start o <= pos s.
Proof.
  intros [Ho1 [Ho2 _]] Hr E. apply p_ref_ok in E as (sx & E & _ & Hoff). apply gdecl_start_at in E. cbn [pos refp set_refp] in E.
  unfold gdecl_start. rewrite <- (strip_gdecl_rng (fst o)), <- Ho2, E, <- Ho1, Hoff. lia.
Qed.

(* ---- the parameter list ---- *)
Lemma QS_params f (a : list (paramdecl * nat)) la :
  QSg Good (fun l => l = map (fun x => (strip_paramdecl (fst x), snd x)) a /\ Forall (fun x => paramdecl_errors (fst x) = []) l)
    (p_alt (p_map (fun _ => []) (p_peek_la la)) (p_list toks f (p_paramdecl toks f)))
    (i_alt (i_map (fun _ => []) (i_peek_la la)) (i_list toks w w 0 (i_paramdecl toks w w 0 f) paramdecl_info f (Some a))).
Proof.
  intros s s1 l Hg E He [Hl Hc]. apply p_alt_ok in E as [E|[[e Ee] E]].
  - assert (Q : QSg Good (fun _ => True) (p_map (fun _ : unit => @nil (paramdecl * nat)) (p_peek_la la)) (i_map (fun _ => []) (i_peek_la la))).
    { apply QS_map, QS_peek_la. }
    destruct (Q s s1 l Hg E He I) as (s' & E' & A). exists s'. unfold i_alt at 1. rewrite E'. exact (conj eq_refl A).
  - assert (Hs : Sim (p_map (fun _ : unit => @nil (paramdecl * nat)) (p_peek_la la)) (i_map (fun _ => []) (i_peek_la la))) by sim_auto.
    specialize (Hs s). rewrite Ee in Hs. unfold i_alt at 1.
    destruct (i_map (fun _ : unit => []) (i_peek_la la) s) as [sx x|sx fl| |]; cbn in Hs; try contradiction.
    assert (Q : QSg Good (fun l => Forall2 (fun o x => snd x = snd o /\ RPd (fst o) (fst x)) a l)
                  (p_list toks f (p_paramdecl toks f)) (i_list toks w w 0 (i_paramdecl toks w w 0 f) paramdecl_info f (Some a))).
    { apply (QS_list toks w (p_paramdecl toks f) (i_paramdecl toks w w 0 f) paramdecl_info RPd).
      - wf.
      - apply Sim_paramdecl.
      - intros o. apply QS_paramdecl.
      - intros o x s0 s0' [Hx1 Hx2] Hr Hs0 E0. rewrite <- (paramdecl_start_at f s0 s0' x E0), Hx1. symmetry. apply strip_paramdecl_rng.
      - exact Hncc. }
    apply (Q s s1 l Hg E He). unfold RPd. apply (Forall2_of_map strip_paramdecl (fun e => paramdecl_errors e = [])); assumption.
Qed.

(* ---- procedure declarations ---- *)
Lemma QS_procdecl f th : QSg Good (RPr th) (p_procdecl toks f) (i_procdecl toks w w 0 f (Some th)).
Proof.
  unfold i_procdecl, p_procdecl, RPr. cbn [option_map]. apply QS_affected'.
  - fw.
  - intros s s1 t Hr Hs E _ _. revert s s1 t Hr Hs E. apply Rng_map_info.
    + intros [doc [k [name [lp [ps [rp [lc [vs [ss rc]]]]]]]]] i. auto.
    + apply Adv_pair_r; [fw|]. apply Adv_pair_l; [apply Adv_tag | fw | fw].
  - destruct th; reflexivity.
  - destruct th; reflexivity.
  - apply QS_map. eapply QS_impl; cycle 1.
    { apply QSinfo, QSpair; [wf | mono_solve | apply QS_comments |].
      apply QSpair; [wf | mono_solve | apply QS_tag |].
      apply QSpair; [wf | mono_solve | apply (QS_expect_this (pd_name th) RI); [mono_solve | apply QS_ident] |].
      apply QSpair; [wf | mono_solve | apply (QS_expect0 Good (fun _ => True)); [mono_solve | apply QS_tag] |].
      apply QSpair; [wf | mono_solve | apply (QS_params f (pd_params th)) |].
      apply QSpair; [wf | mono_solve | apply (QS_expect0 Good (fun _ => True)); [mono_solve | apply QS_tag] |].
      apply QSpair; [wf | mono_solve | apply (QS_expect0 Good (fun _ => True)); [mono_solve | apply QS_tag] |].
      apply QSpair; [wf | mono_solve | |].
      - apply (QS_many toks w (p_ref (p_vardecl toks f)) (fun t => i_ref t (i_vardecl toks w w 0 f)) vardecl_start (Rref RVd)).
        + wf.
        + pose proof (Sim_vardecl toks w w 0 f). sim_auto.
        + intros [x off]. unfold Rref. cbn [fst snd]. apply QS_ref_some, QS_vardecl.
        + intros o a0 s0 s0'. apply vardecl_ref_start.
      - apply QSpair; [wf | mono_solve | | apply (QS_expect0 Good (fun _ => True)); [mono_solve | apply QS_tag]].
        apply (QS_many toks w (p_ref (p_stmt toks f)) (fun t => i_ref t (i_stmt toks w w 0 f)) stmt_start (Rref RS)).
        + wf.
        + pose proof (Sim_stmt toks w w 0 f). sim_auto.
        + intros [x off]. unfold Rref. cbn [fst snd]. apply QS_ref_some, QS_stmt. exact Hncc.
        + intros o a0 s0 s0'. apply stmt_ref_start. }
    intros [[doc [k [name [lp [ps [rp [lc [vs [ss rc]]]]]]]]] i] [Ht Hc]. cbn [fst snd] in *. destruct th as [d0 n0 p0 v0 s0 i0].
    unfold strip_procdecl in Ht. cbn [pd_doc pd_name pd_params pd_vars pd_stmts pd_info] in *. injection Ht as -> -> -> -> -> ->.
    unfold procdecl_errors in Hc. cbn [pd_name pd_params pd_vars pd_stmts pd_info] in Hc. nil_split Hc.
    split; [assumption|]. split; [exact I|]. split; [exact I|].
    split; [destruct n0; cbn [option_map]; [eexists; split; reflexivity | exact I]|].
    split; [opt_triv|].
    split; [split; [reflexivity | apply (flat_map_errors_nil paramdecl_errors); assumption]|].
    split; [opt_triv|]. split; [opt_triv|].
    split; [apply (Forall2_of_map strip_vardecl (fun x => vardecl_errors x = [])); [reflexivity | apply (flat_map_errors_nil vardecl_errors); assumption]|].
    split; [|opt_triv].
    apply (Forall2_of_map strip_stmt (fun x => stmt_errors x = [])); [reflexivity | apply (flat_map_errors_nil stmt_errors); assumption].
Qed.

(* ---- global declarations ---- *)
Lemma QS_gdecl f th : QSg Good (RG th) (p_gdecl toks f) (i_gdecl toks w w 0 f (Some th)).
Proof.
  intros s s1 t Hg E He [Ht Hc]. unfold p_gdecl in E.
  apply p_alt_ok in E as [E|[_ E]]; [|apply p_alt_ok in E as [E|[_ E]]].
  - destruct th as [td|pd|inf]; cbn [strip_gdecl] in Ht.
    + assert (Q : QSg Good (RG (GType td)) (p_map GType (p_typedecl toks f)) (i_map GType (i_typedecl toks w w 0 f (Some td)))).
      { apply QS_map. eapply QS_impl; [|apply QS_typedecl]. intros a [Ha Hc']. cbn [strip_gdecl] in Ha. injection Ha as ->.
        split; [reflexivity | exact Hc']. }
      exact (Q s s1 t Hg E He (conj Ht Hc)).
    + exfalso. apply p_map_ok in E as (r & _ & Hr). rewrite Hr in Ht. discriminate Ht.
    + exfalso. apply p_map_ok in E as (r & _ & Hr). rewrite Hr in Ht. discriminate Ht.
  - destruct th as [td|pd|inf]; cbn [strip_gdecl] in Ht.
    + exfalso. apply p_map_ok in E as (r & _ & Hr). rewrite Hr in Ht. discriminate Ht.
    + assert (Q : QSg Good (RG (GProc pd)) (p_map GProc (p_procdecl toks f)) (i_map GProc (i_procdecl toks w w 0 f (Some pd)))).
      { apply QS_map. eapply QS_impl; [|apply QS_procdecl]. intros a [Ha Hc']. cbn [strip_gdecl] in Ha. injection Ha as ->.
        split; [reflexivity | exact Hc']. }
      exact (Q s s1 t Hg E He (conj Ht Hc)).
    + exfalso. apply p_map_ok in E as (r & _ & Hr). rewrite Hr in Ht. discriminate Ht.
  - exfalso. apply p_map_ok in E as (r & _ & Hr). destruct_pairs. cbv beta iota in Hr. rewrite Hr in Hc.
    cbn [gdecl_errors info_append i_errs] in Hc. apply app_eq_nil in Hc as [_ Hc]. discriminate Hc.
Qed.

(* ---- the program ---- *)
Lemma NoIncr_eof_all : NoIncr (i_eof_all toks).
Proof.
  intros s. unfold i_eof_all. pose proof (NoIncr_tag toks (is_k Eof) s) as H.
  destruct (i_tag toks (is_k Eof) s) as [s' t| | |]; cbn [ibind]; auto.
  destruct (Nat.ltb (ipos s') (length toks)); auto.
Qed.

Lemma QS_program f old :
  QSg Good (fun t => t = strip_program old /\ tree_errors t = []) (p_program toks f) (i_program toks w w 0 f (Some old)).
Proof.
  unfold p_program, i_program. cbn [option_map]. apply QS_map. eapply QS_impl; cycle 1.
  { apply QSpair; [wf | | apply QSinfo | apply QS_noincr; [apply Sim_eof_all | apply NoIncr_eof_all]].
    - unfold p_eof_all. apply MonoE_bind; [mono_solve|]. intros t s. destruct (Nat.ltb (pos s) (length toks)); apply ext_refl.
    - apply (QS_many toks w (p_ref (p_gdecl toks f)) (fun t => i_ref t (i_gdecl toks w w 0 f)) gdecl_start (Rref RG)).
      + wf.
      + pose proof (Sim_gdecl toks w w 0 f). sim_auto.
      + intros [x off]. unfold Rref. cbn [fst snd]. apply QS_ref_some, QS_gdecl.
      + intros o a0 s0 s0'. apply gdecl_ref_start. }
  intros [[ds i] u] [Ht Hc]. cbn [fst snd] in *. unfold strip_program in Ht. injection Ht as -> ->.
  unfold tree_errors in Hc. cbn [pg_decls pg_info] in Hc. apply app_eq_nil in Hc as [Hc1 Hc2].
  split; [|exact I]. split; [exact Hc1|].
  apply (Forall2_of_map strip_gdecl (fun x => gdecl_errors x = [])); [reflexivity | apply (flat_map_errors_nil gdecl_errors); exact Hc2].
Qed.

Lemma p_program_quiet f s s1 p : p_program toks f s = POk s1 p -> ebuf s1 = ebuf s.
Proof.
  unfold p_program. intros E. apply p_map_ok in E as (r & E & _). apply p_pair_ok in E as (sa & E1 & E2).
  apply p_info_ok in E1 as (s0 & _ & -> & _). unfold p_eof_all in E2. apply bind_ok in E2 as (sb & t & Et & E2).
  apply p_tag_ok in Et as (_ & _ & ->). destruct (Nat.ltb _ _); [discriminate|]. injection E2 as <-. reflexivity.
Qed.

End P.

(* parser::update with an empty TokenChange (position w arbitrary) on a tree whose remove_messages
   image is the scratch tree p of the tokens, when p carries no parse error and no comment stands
   directly before a comma: the result is p *)
Theorem inc_empty_change (old : program) toks w p :
  NCC toks -> parse toks = Done p -> tree_errors p = [] -> strip_program old = p ->
  parse_update old toks w w 0 = Done p.
Proof.
  intros Hncc Hp Hc Hs. unfold parse in Hp. unfold parse_update.
  set (s0 := {| ipos := 0; irefp := 0; iebuf := []; incr := [] |}).
  change {| pos := 0; refp := 0; ebuf := [] |} with (proj s0) in Hp.
  destruct (p_program toks (parse_fuel toks) (proj s0)) as [s1 p'| |] eqn:E; try discriminate. injection Hp as ->.
  assert (Hg : Good toks s0) by (unfold Good, old_reference, s0; cbn; lia).
  pose proof (p_program_quiet toks _ _ _ _ E) as Hq.
  destruct (QS_program toks w Hncc (parse_fuel toks) old s0 s1 p Hg E Hq (conj (eq_sym Hs) Hc)) as (s' & E' & _).
  rewrite E'. reflexivity.
Qed.
