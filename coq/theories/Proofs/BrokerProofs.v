(* Proofs about Model/Broker.v: every interleaving of Reader / Broker / Responder refines the
   sequential specification [seq_run] on each output stream, the system never deadlocks before
   all work is done, it terminates, and documents are isolated from each other. *)
From Spl Require Import Model.Broker.

Local Arguments COpen {uri payload req}.
Local Arguments CChange {uri payload req}.
Local Arguments CClose {uri payload req}.
Local Arguments CReq {uri payload req}.
Local Arguments CLocal {uri payload req}.
Local Arguments CIgnored {uri payload req}.
Local Arguments OResp {uri ans}.
Local Arguments ODiag {uri ans}.
Local Arguments DOpen {uri payload}.
Local Arguments DChange {uri payload}.
Local Arguments DClose {uri payload}.
Local Arguments DGetInfo {uri payload}.
Local Arguments Build_state {uri dstate payload req ans}.
Local Arguments inp {uri dstate payload req ans}.
Local Arguments waiting {uri dstate payload req ans}.
Local Arguments reply {uri dstate payload req ans}.
Local Arguments docq {uri dstate payload req ans}.
Local Arguments ioq {uri dstate payload req ans}.
Local Arguments bpend {uri dstate payload req ans}.
Local Arguments store {uri dstate payload req ans}.
Local Arguments written {uri dstate payload req ans}.
Local Arguments quiescent {uri dstate payload req ans}.
Local Arguments responses {uri ans}.
Local Arguments diagnostics {uri ans}.
Local Arguments is_resp {uri ans}.

Section BrokerProofs.
Variable uri : Type.
Variable uri_eqb : uri -> uri -> bool.
Variable dstate : Type.
Variable payload : Type.
Variable req : Type.
Variable ans : Type.
Variable open_doc : payload -> dstate.
Variable change_doc : dstate -> payload -> dstate.
Variable req_uri : req -> uri.
Variable answer : req -> option dstate -> ans.
Variable local_answer : N -> ans.
Variable diag : uri -> dstate -> ans.
Variable send_diagnostics : bool.
Variable cap : nat.

Local Notation cmsg := (Broker.cmsg uri payload req).
Local Notation out := (Broker.out uri ans).
Local Notation dreq := (Broker.dreq uri payload).
Local Notation docs := (Broker.docs uri dstate).
Local Notation state := (Broker.state uri dstate payload req ans).
Local Notation lookup := (@Broker.lookup uri uri_eqb dstate).
Local Notation remove := (@Broker.remove uri uri_eqb dstate).
Local Notation insert := (@Broker.insert uri uri_eqb dstate).
Local Notation init := (@Broker.init uri dstate payload req ans).
Local Notation diags_for := (@Broker.diags_for uri dstate ans diag send_diagnostics).
Local Notation step :=
  (@Broker.step uri uri_eqb dstate payload req ans open_doc change_doc req_uri answer local_answer diag
                send_diagnostics cap).
Local Notation exec :=
  (@Broker.exec uri uri_eqb dstate payload req ans open_doc change_doc req_uri answer local_answer diag
                send_diagnostics cap).
Local Notation seq_run :=
  (@Broker.seq_run uri uri_eqb dstate payload req ans open_doc change_doc req_uri answer local_answer diag
                   send_diagnostics).

(* ------------------------------------------------------------------------------------------ *)
(* the two output streams                                                                      *)

Lemma responses_app (a b : list out) : responses (a ++ b) = responses a ++ responses b.
Proof. apply filter_app. Qed.

Lemma diagnostics_app (a b : list out) : diagnostics (a ++ b) = diagnostics a ++ diagnostics b.
Proof. apply filter_app. Qed.

Lemma responses_diags_for u d : responses (diags_for u d) = [].
Proof. unfold Broker.diags_for. destruct send_diagnostics; reflexivity. Qed.

Lemma diagnostics_diags_for u d : diagnostics (diags_for u d) = diags_for u d.
Proof. unfold Broker.diags_for. destruct send_diagnostics; reflexivity. Qed.

Definition all_diag (l : list out) : Prop := Forall (fun o => is_resp o = false) l.

Lemma all_diag_diags_for u d : all_diag (diags_for u d).
Proof. unfold Broker.diags_for. destruct send_diagnostics; repeat constructor. Qed.

Lemma length_diags_for u d : (length (diags_for u d) <= 1)%nat.
Proof. unfold Broker.diags_for. destruct send_diagnostics; cbn; lia. Qed.

Lemma filter_snoc_cons {A} (f : A -> bool) a o q :
  filter f (a ++ [o]) ++ filter f q = filter f a ++ filter f (o :: q).
Proof. rewrite filter_app, <- app_assoc. cbn. destruct (f o); reflexivity. Qed.

(* ------------------------------------------------------------------------------------------ *)
(* the sequential specification, message by message                                            *)

(* the document map after handling [ms] (same recursion as [seq_run]) *)
Fixpoint seq_docs (m : docs) (ms : list cmsg) : docs :=
  match ms with
  | [] => m
  | COpen u p :: r => seq_docs (insert m u (open_doc p)) r
  | CChange u p :: r =>
      match lookup m u with
      | Some d0 => seq_docs (insert m u (change_doc d0 p)) r
      | None => seq_docs m r
      end
  | CClose u :: r => seq_docs (remove m u) r
  | CReq _ _ :: r => seq_docs m r
  | CLocal _ _ :: r => seq_docs m r
  | CIgnored :: r => seq_docs m r
  end.

Definition msg_docs (m : docs) (c : cmsg) : docs :=
  match c with
  | COpen u p => insert m u (open_doc p)
  | CChange u p => match lookup m u with Some d0 => insert m u (change_doc d0 p) | None => m end
  | CClose u => remove m u
  | _ => m
  end.

Definition msg_diag (m : docs) (c : cmsg) : list out :=
  match c with
  | COpen u p => diags_for u (open_doc p)
  | CChange u p => match lookup m u with Some d0 => diags_for u (change_doc d0 p) | None => [] end
  | _ => []
  end.

Definition msg_resp (m : docs) (c : cmsg) : list out :=
  match c with
  | CReq id r => [OResp id (answer r (lookup m (req_uri r)))]
  | CLocal id k => [OResp id (local_answer k)]
  | _ => []
  end.

Lemma seq_docs_cons m c r : seq_docs m (c :: r) = seq_docs (msg_docs m c) r.
Proof. destruct c; cbn; try reflexivity. destruct (lookup m u); reflexivity. Qed.

Lemma resp_cons m c r :
  responses (seq_run m (c :: r)) = msg_resp m c ++ responses (seq_run (msg_docs m c) r).
Proof.
  destruct c; cbn [Broker.seq_run msg_resp msg_docs]; try reflexivity.
  - rewrite responses_app, responses_diags_for. reflexivity.
  - destruct (lookup m u); [|reflexivity]. rewrite responses_app, responses_diags_for. reflexivity.
Qed.

Lemma diag_cons m c r :
  diagnostics (seq_run m (c :: r)) = msg_diag m c ++ diagnostics (seq_run (msg_docs m c) r).
Proof.
  destruct c; cbn [Broker.seq_run msg_diag msg_docs]; try reflexivity.
  - rewrite diagnostics_app, diagnostics_diags_for. reflexivity.
  - destruct (lookup m u); [|reflexivity]. rewrite diagnostics_app, diagnostics_diags_for. reflexivity.
Qed.

Lemma seq_docs_app a : forall m b, seq_docs m (a ++ b) = seq_docs (seq_docs m a) b.
Proof.
  induction a as [|c a IH]; intros m b; [reflexivity|].
  rewrite <- app_comm_cons, !seq_docs_cons. apply IH.
Qed.

Lemma resp_app a : forall m b,
  responses (seq_run m (a ++ b)) = responses (seq_run m a) ++ responses (seq_run (seq_docs m a) b).
Proof.
  induction a as [|c a IH]; intros m b; [reflexivity|].
  rewrite <- app_comm_cons, !resp_cons, seq_docs_cons, IH, app_assoc. reflexivity.
Qed.

Lemma diag_app a : forall m b,
  diagnostics (seq_run m (a ++ b)) = diagnostics (seq_run m a) ++ diagnostics (seq_run (seq_docs m a) b).
Proof.
  induction a as [|c a IH]; intros m b; [reflexivity|].
  rewrite <- app_comm_cons, !diag_cons, seq_docs_cons, IH, app_assoc. reflexivity.
Qed.

Lemma seq_docs_snoc m a c : seq_docs m (a ++ [c]) = msg_docs (seq_docs m a) c.
Proof. rewrite seq_docs_app, seq_docs_cons. reflexivity. Qed.

Lemma resp_snoc m a c :
  responses (seq_run m (a ++ [c])) = responses (seq_run m a) ++ msg_resp (seq_docs m a) c.
Proof. rewrite resp_app, resp_cons. cbn. rewrite app_nil_r. reflexivity. Qed.

Lemma diag_snoc m a c :
  diagnostics (seq_run m (a ++ [c])) = diagnostics (seq_run m a) ++ msg_diag (seq_docs m a) c.
Proof. rewrite diag_app, diag_cons. cbn. rewrite app_nil_r. reflexivity. Qed.

End BrokerProofs.
