(* Proofs about Model/Broker.v: every interleaving of Reader / Broker / Responder refines the
   sequential specification [seq_run] on each output stream, the system never deadlocks before
   all work is done, it terminates, and documents are isolated from each other. *)
From Coq Require Import PeanoNat.
From Spl Require Import Model.Broker.

Local Arguments COpen {uri payload req}.
Local Arguments CChange {uri payload req}.
Local Arguments CClose {uri payload req}.
Local Arguments CReq {uri payload req}.
Local Arguments CLocal {uri payload req}.
Local Arguments CIgnored {uri payload req}.
Local Arguments OResp {uri ans}.
Local Arguments ODiag {uri ans}.
Local Arguments DOpen {uri payload}.
Local Arguments DChange {uri payload}.
Local Arguments DClose {uri payload}.
Local Arguments DGetInfo {uri payload}.
Local Arguments Build_state {uri dstate payload req ans}.
Local Arguments inp {uri dstate payload req ans}.
Local Arguments waiting {uri dstate payload req ans}.
Local Arguments reply {uri dstate payload req ans}.
Local Arguments docq {uri dstate payload req ans}.
Local Arguments ioq {uri dstate payload req ans}.
Local Arguments bpend {uri dstate payload req ans}.
Local Arguments store {uri dstate payload req ans}.
Local Arguments written {uri dstate payload req ans}.
Local Arguments quiescent {uri dstate payload req ans}.
Local Arguments responses {uri ans}.
Local Arguments diagnostics {uri ans}.
Local Arguments is_resp {uri ans}.

Section BrokerProofs.
Variable uri : Type.
Variable uri_eqb : uri -> uri -> bool.
Variable dstate : Type.
Variable payload : Type.
Variable req : Type.
Variable ans : Type.
Variable open_doc : payload -> dstate.
Variable change_doc : dstate -> payload -> dstate.
Variable req_uri : req -> uri.
Variable answer : req -> option dstate -> ans.
Variable local_answer : N -> ans.
Variable diag : uri -> dstate -> ans.
Variable send_diagnostics : bool.
Variable cap : nat.

Local Notation cmsg := (Broker.cmsg uri payload req).
Local Notation out := (Broker.out uri ans).
Local Notation dreq := (Broker.dreq uri payload).
Local Notation docs := (Broker.docs uri dstate).
Local Notation state := (Broker.state uri dstate payload req ans).
Local Notation lookup := (@Broker.lookup uri uri_eqb dstate).
Local Notation remove := (@Broker.remove uri uri_eqb dstate).
Local Notation insert := (@Broker.insert uri uri_eqb dstate).
Local Notation init := (@Broker.init uri dstate payload req ans).
Local Notation diags_for := (@Broker.diags_for uri dstate ans diag send_diagnostics).
Local Notation step :=
  (@Broker.step uri uri_eqb dstate payload req ans open_doc change_doc req_uri answer local_answer diag
                send_diagnostics cap).
Local Notation exec :=
  (@Broker.exec uri uri_eqb dstate payload req ans open_doc change_doc req_uri answer local_answer diag
                send_diagnostics cap).
Local Notation seq_run :=
  (@Broker.seq_run uri uri_eqb dstate payload req ans open_doc change_doc req_uri answer local_answer diag
                   send_diagnostics).
Local Notation seq_docs := (@Broker.seq_docs uri uri_eqb dstate payload req open_doc change_doc).
Local Notation about := (@Broker.about uri uri_eqb payload req).
Local Notation diag_of := (@Broker.diag_of uri uri_eqb ans).
Local Notation diags_of := (@Broker.diags_of uri uri_eqb ans).
Local Notation req_id := (@Broker.req_id uri payload req).
Local Notation out_id := (@Broker.out_id uri ans).
Local Notation fired :=
  (@Broker.fired uri uri_eqb dstate payload req ans open_doc change_doc req_uri answer local_answer diag
                 send_diagnostics cap).

(* ------------------------------------------------------------------------------------------ *)
(* the two output streams                                                                      *)

Lemma responses_app (a b : list out) : responses (a ++ b) = responses a ++ responses b.
Proof. apply filter_app. Qed.

Lemma diagnostics_app (a b : list out) : diagnostics (a ++ b) = diagnostics a ++ diagnostics b.
Proof. apply filter_app. Qed.

Lemma responses_diags_for u d : responses (diags_for u d) = [].
Proof. unfold Broker.diags_for. destruct send_diagnostics; reflexivity. Qed.

Lemma diagnostics_diags_for u d : diagnostics (diags_for u d) = diags_for u d.
Proof. unfold Broker.diags_for. destruct send_diagnostics; reflexivity. Qed.

Definition all_diag (l : list out) : Prop := Forall (fun o => is_resp o = false) l.

Lemma all_diag_diags_for u d : all_diag (diags_for u d).
Proof. unfold Broker.diags_for. destruct send_diagnostics; repeat constructor. Qed.

Lemma length_diags_for u d : (length (diags_for u d) <= 1)%nat.
Proof. unfold Broker.diags_for. destruct send_diagnostics; cbn; lia. Qed.

Lemma filter_snoc_cons {A} (f : A -> bool) a o q :
  filter f (a ++ [o]) ++ filter f q = filter f a ++ filter f (o :: q).
Proof. rewrite filter_app, <- app_assoc. cbn. destruct (f o); reflexivity. Qed.

(* ------------------------------------------------------------------------------------------ *)
(* the sequential specification, message by message                                            *)

Definition msg_docs (m : docs) (c : cmsg) : docs :=
  match c with
  | COpen u p => insert m u (open_doc p)
  | CChange u p => match lookup m u with Some d0 => insert m u (change_doc d0 p) | None => m end
  | CClose u => remove m u
  | _ => m
  end.

Definition msg_diag (m : docs) (c : cmsg) : list out :=
  match c with
  | COpen u p => diags_for u (open_doc p)
  | CChange u p => match lookup m u with Some d0 => diags_for u (change_doc d0 p) | None => [] end
  | _ => []
  end.

Definition msg_resp (m : docs) (c : cmsg) : list out :=
  match c with
  | CReq id r => [OResp id (answer r (lookup m (req_uri r)))]
  | CLocal id k => [OResp id (local_answer k)]
  | _ => []
  end.

Lemma seq_docs_cons m c r : seq_docs m (c :: r) = seq_docs (msg_docs m c) r.
Proof. destruct c; cbn; try reflexivity. destruct (lookup m u); reflexivity. Qed.

Lemma resp_cons m c r :
  responses (seq_run m (c :: r)) = msg_resp m c ++ responses (seq_run (msg_docs m c) r).
Proof.
  destruct c; cbn [Broker.seq_run msg_resp msg_docs]; try reflexivity.
  - rewrite responses_app, responses_diags_for. reflexivity.
  - destruct (lookup m u); [|reflexivity]. rewrite responses_app, responses_diags_for. reflexivity.
Qed.

Lemma diag_cons m c r :
  diagnostics (seq_run m (c :: r)) = msg_diag m c ++ diagnostics (seq_run (msg_docs m c) r).
Proof.
  destruct c; cbn [Broker.seq_run msg_diag msg_docs]; try reflexivity.
  - rewrite diagnostics_app, diagnostics_diags_for. reflexivity.
  - destruct (lookup m u); [|reflexivity]. rewrite diagnostics_app, diagnostics_diags_for. reflexivity.
Qed.

Lemma seq_docs_app a : forall m b, seq_docs m (a ++ b) = seq_docs (seq_docs m a) b.
Proof.
  induction a as [|c a IH]; intros m b; [reflexivity|].
  rewrite <- app_comm_cons, !seq_docs_cons. apply IH.
Qed.

Lemma resp_app a : forall m b,
  responses (seq_run m (a ++ b)) = responses (seq_run m a) ++ responses (seq_run (seq_docs m a) b).
Proof.
  induction a as [|c a IH]; intros m b; [reflexivity|].
  rewrite <- app_comm_cons, !resp_cons, seq_docs_cons, IH, app_assoc. reflexivity.
Qed.

Lemma diag_app a : forall m b,
  diagnostics (seq_run m (a ++ b)) = diagnostics (seq_run m a) ++ diagnostics (seq_run (seq_docs m a) b).
Proof.
  induction a as [|c a IH]; intros m b; [reflexivity|].
  rewrite <- app_comm_cons, !diag_cons, seq_docs_cons, IH, app_assoc. reflexivity.
Qed.

Lemma seq_docs_snoc m a c : seq_docs m (a ++ [c]) = msg_docs (seq_docs m a) c.
Proof. rewrite seq_docs_app, seq_docs_cons. reflexivity. Qed.

Lemma resp_snoc m a c :
  responses (seq_run m (a ++ [c])) = responses (seq_run m a) ++ msg_resp (seq_docs m a) c.
Proof. rewrite resp_app, resp_cons. cbn. rewrite app_nil_r. reflexivity. Qed.

Lemma diag_snoc m a c :
  diagnostics (seq_run m (a ++ [c])) = diagnostics (seq_run m a) ++ msg_diag (seq_docs m a) c.
Proof. rewrite diag_app, diag_cons. cbn. rewrite app_nil_r. reflexivity. Qed.

(* ------------------------------------------------------------------------------------------ *)
(* what the broker will still do with its queue                                                *)

Definition apply_dreq (m : docs) (x : dreq) : docs :=
  match x with
  | DOpen u p => insert m u (open_doc p)
  | DChange u p => match lookup m u with Some d0 => insert m u (change_doc d0 p) | None => m end
  | DClose u => remove m u
  | DGetInfo _ => m
  end.

Definition diag_dreq (m : docs) (x : dreq) : list out :=
  match x with
  | DOpen u p => diags_for u (open_doc p)
  | DChange u p => match lookup m u with Some d0 => diags_for u (change_doc d0 p) | None => [] end
  | _ => []
  end.

Fixpoint apply_q (m : docs) (q : list dreq) : docs :=
  match q with
  | [] => m
  | x :: q' => apply_q (apply_dreq m x) q'
  end.

Fixpoint diags_q (m : docs) (q : list dreq) : list out :=
  match q with
  | [] => []
  | x :: q' => diag_dreq m x ++ diags_q (apply_dreq m x) q'
  end.

Definition is_getinfo (x : dreq) : bool := match x with DGetInfo _ => true | _ => false end.
Definition no_getinfo (q : list dreq) : Prop := Forall (fun x => is_getinfo x = false) q.

Lemma apply_q_snoc q : forall m x, apply_q m (q ++ [x]) = apply_dreq (apply_q m q) x.
Proof. induction q as [|y q IH]; intros m x; [reflexivity|]. cbn. apply IH. Qed.

Lemma diags_q_snoc q : forall m x, diags_q m (q ++ [x]) = diags_q m q ++ diag_dreq (apply_q m q) x.
Proof.
  induction q as [|y q IH]; intros m x; cbn [app diags_q apply_q].
  - rewrite app_nil_r. reflexivity.
  - rewrite IH, app_assoc. reflexivity.
Qed.

Lemma no_getinfo_snoc q x : no_getinfo q -> is_getinfo x = false -> no_getinfo (q ++ [x]).
Proof. intros H1 H2. apply Forall_app. split; [assumption|]. constructor; [assumption|constructor]. Qed.

(* ------------------------------------------------------------------------------------------ *)
(* the invariant                                                                               *)

(* the part about the pending request and the response stream; [R] is the response stream
   already committed (written or in the output channel) *)
Definition resp_inv (w : option (N * req)) (rp : option (option dstate)) (dq : list dreq) (st : docs)
                    (R : list out) (done : list cmsg) : Prop :=
  match w with
  | None => rp = None /\ no_getinfo dq /\ R = responses (seq_run [] done)
  | Some (id, r) =>
      exists done', done = done' ++ [CReq id r] /\ R = responses (seq_run [] done') /\
        match rp with
        | Some d => dq = [] /\ d = lookup st (req_uri r)
        | None => exists q, dq = q ++ [DGetInfo (req_uri r)] /\ no_getinfo q
        end
  end.

Definition Inv (ms : list cmsg) (s : state) : Prop :=
  exists done,
    ms = done ++ inp s /\
    apply_q (store s) (docq s) = seq_docs [] done /\
    diagnostics (written s) ++ diagnostics (ioq s) ++ bpend s ++ diags_q (store s) (docq s)
      = diagnostics (seq_run [] done) /\
    all_diag (bpend s) /\
    resp_inv (waiting s) (reply s) (docq s) (store s) (responses (written s) ++ responses (ioq s)) done.

Lemma Inv_init ms : Inv ms (init ms).
Proof.
  exists []. cbn. repeat split; constructor.
Qed.

(* the broker takes a notification from its queue *)
Lemma resp_inv_pop w rp x q st st' R done :
  is_getinfo x = false -> resp_inv w rp (x :: q) st R done -> resp_inv w rp q st' R done.
Proof.
  intros Hx. unfold resp_inv. destruct w as [[id r]|].
  - intros (done' & E1 & E2 & H). exists done'. split; [assumption|]. split; [assumption|].
    destruct rp as [d|].
    + destruct H as [H _]. discriminate.
    + destruct H as (q0 & E & Hq0). destruct q0 as [|y q0]; cbn in E; injection E as -> E.
      * discriminate.
      * exists q0. split; [assumption|]. inversion Hq0; assumption.
  - intros (E1 & H & E2). split; [assumption|]. split; [|assumption]. inversion H; assumption.
Qed.

(* the broker serves GetInfo *)
Lemma resp_inv_getinfo w rp u q st R done :
  resp_inv w rp (DGetInfo u :: q) st R done -> resp_inv w (Some (lookup st u)) q st R done.
Proof.
  unfold resp_inv. destruct w as [[id r]|].
  - intros (done' & E1 & E2 & H). exists done'. split; [assumption|]. split; [assumption|].
    destruct rp as [d|].
    + destruct H as [H _]. discriminate.
    + destruct H as (q0 & E & Hq0). destruct q0 as [|y q0]; cbn in E; injection E as E E'.
      * subst. split; reflexivity.
      * subst y. inversion Hq0; discriminate.
  - intros (_ & H & _). inversion H; discriminate.
Qed.

Lemma step_inv ms p s s' : Inv ms s -> step p s = Some s' -> Inv ms s'.
Proof.
  intros (done & Hms & Hst & Hdg & Hbp & Hr) Hstep.
  destruct s as [i w rp dq io bp st wr].
  unfold Broker.step in Hstep.
  cbn [inp waiting reply docq ioq bpend store written] in *.
  destruct p.
  - (* Reader *)
    destruct w as [[id r]|].
    + (* deliver the response of the pending request *)
      destruct rp as [d|]; [|discriminate]. destruct (room cap io); [|discriminate].
      injection Hstep as <-.
      destruct Hr as (done' & E1 & E2 & -> & Ed). cbn in Hst.
      exists done. cbn [inp waiting reply docq ioq bpend store written].
      split; [assumption|]. split; [assumption|].
      split. { rewrite diagnostics_app. cbn. rewrite app_nil_r. assumption. }
      split; [assumption|].
      split; [reflexivity|]. split; [constructor|].
      rewrite responses_app, app_assoc, E2, E1, resp_snoc. cbn.
      rewrite Ed, Hst, E1, seq_docs_snoc. reflexivity.
    + (* read the next message *)
      destruct i as [|m rest]; [discriminate|].
      destruct Hr as (-> & Hng & ER).
      assert (Hms' : ms = (done ++ [m]) ++ rest) by (rewrite <- app_assoc; exact Hms).
      destruct m as [u p|u p|u|id r|id k|].
      * destruct (room cap dq); [|discriminate]. injection Hstep as <-.
        exists (done ++ [COpen u p]). cbn [inp waiting reply docq ioq bpend store written].
        split; [assumption|].
        split. { rewrite apply_q_snoc, seq_docs_snoc, Hst. reflexivity. }
        split. { rewrite diags_q_snoc, diag_snoc, Hst, <- Hdg, <- !app_assoc. reflexivity. }
        split; [assumption|].
        split; [reflexivity|]. split; [apply no_getinfo_snoc; [assumption|reflexivity]|].
        rewrite resp_snoc, ER. cbn. rewrite app_nil_r. reflexivity.
      * destruct (room cap dq); [|discriminate]. injection Hstep as <-.
        exists (done ++ [CChange u p]). cbn [inp waiting reply docq ioq bpend store written].
        split; [assumption|].
        split. { rewrite apply_q_snoc, seq_docs_snoc, Hst. reflexivity. }
        split. { rewrite diags_q_snoc, diag_snoc, Hst, <- Hdg, <- !app_assoc. reflexivity. }
        split; [assumption|].
        split; [reflexivity|]. split; [apply no_getinfo_snoc; [assumption|reflexivity]|].
        rewrite resp_snoc, ER. cbn. rewrite app_nil_r. reflexivity.
      * destruct (room cap dq); [|discriminate]. injection Hstep as <-.
        exists (done ++ [CClose u]). cbn [inp waiting reply docq ioq bpend store written].
        split; [assumption|].
        split. { rewrite apply_q_snoc, seq_docs_snoc, Hst. reflexivity. }
        split. { rewrite diags_q_snoc, diag_snoc, Hst, <- Hdg, <- !app_assoc. reflexivity. }
        split; [assumption|].
        split; [reflexivity|]. split; [apply no_getinfo_snoc; [assumption|reflexivity]|].
        rewrite resp_snoc, ER. cbn. rewrite app_nil_r. reflexivity.
      * destruct (room cap dq); [|discriminate]. injection Hstep as <-.
        exists (done ++ [CReq id r]). cbn [inp waiting reply docq ioq bpend store written].
        split; [assumption|].
        split. { rewrite apply_q_snoc, seq_docs_snoc, Hst. reflexivity. }
        split. { rewrite diags_q_snoc, diag_snoc, Hst, <- Hdg, <- !app_assoc. reflexivity. }
        split; [assumption|].
        exists done. split; [reflexivity|]. split; [assumption|].
        exists dq. split; [reflexivity|assumption].
      * destruct (room cap io); [|discriminate]. injection Hstep as <-.
        exists (done ++ [CLocal id k]). cbn [inp waiting reply docq ioq bpend store written].
        split; [assumption|].
        split. { rewrite seq_docs_snoc, Hst. reflexivity. }
        split. { rewrite diagnostics_app, diag_snoc, <- Hdg. cbn. rewrite !app_nil_r. reflexivity. }
        split; [assumption|].
        split; [reflexivity|]. split; [assumption|].
        rewrite resp_snoc, responses_app, app_assoc, ER. reflexivity.
      * injection Hstep as <-.
        exists (done ++ [CIgnored]). cbn [inp waiting reply docq ioq bpend store written].
        split; [assumption|].
        split. { rewrite seq_docs_snoc, Hst. reflexivity. }
        split. { rewrite diag_snoc, <- Hdg. cbn. rewrite !app_nil_r. reflexivity. }
        split; [assumption|].
        split; [reflexivity|]. split; [assumption|].
        rewrite resp_snoc, ER. cbn. rewrite app_nil_r. reflexivity.
  - (* Broker *)
    destruct bp as [|o b].
    + destruct dq as [|x q]; [discriminate|].
      destruct x as [u p|u p|u|u].
      * injection Hstep as <-. exists done. cbn [inp waiting reply docq ioq bpend store written].
        split; [assumption|]. split; [exact Hst|]. split; [exact Hdg|].
        split; [apply all_diag_diags_for|].
        eapply resp_inv_pop; [|exact Hr]. reflexivity.
      * cbn in Hst, Hdg. destruct (lookup st u) as [d0|]; injection Hstep as <-;
          exists done; cbn [inp waiting reply docq ioq bpend store written].
        -- split; [assumption|]. split; [exact Hst|]. split; [exact Hdg|].
           split; [apply all_diag_diags_for|].
           eapply resp_inv_pop; [|exact Hr]. reflexivity.
        -- split; [assumption|]. split; [exact Hst|]. split; [exact Hdg|].
           split; [constructor|].
           eapply resp_inv_pop; [|exact Hr]. reflexivity.
      * injection Hstep as <-. exists done. cbn [inp waiting reply docq ioq bpend store written].
        split; [assumption|]. split; [exact Hst|]. split; [exact Hdg|].
        split; [constructor|].
        eapply resp_inv_pop; [|exact Hr]. reflexivity.
      * injection Hstep as <-. exists done. cbn [inp waiting reply docq ioq bpend store written].
        split; [assumption|]. split; [exact Hst|]. split; [exact Hdg|].
        split; [constructor|].
        eapply resp_inv_getinfo. exact Hr.
    + destruct (room cap io); [|discriminate]. injection Hstep as <-.
      inversion Hbp as [|o' b' Ho Hb]; subst o' b'.
      exists done. cbn [inp waiting reply docq ioq bpend store written].
      split; [assumption|]. split; [assumption|].
      split. { rewrite diagnostics_app, <- Hdg. cbn. rewrite Ho. cbn. rewrite <- !app_assoc. reflexivity. }
      split; [assumption|].
      rewrite responses_app. cbn. rewrite Ho, app_nil_r. assumption.
  - (* Responder *)
    destruct io as [|o q]; [discriminate|]. injection Hstep as <-.
    exists done. cbn [inp waiting reply docq ioq bpend store written].
    split; [assumption|]. split; [assumption|].
    split. { rewrite app_assoc. unfold diagnostics. rewrite filter_snoc_cons, <- app_assoc. exact Hdg. }
    split; [assumption|].
    unfold responses. rewrite filter_snoc_cons. exact Hr.
Qed.

Lemma exec_inv ms sched : forall s, Inv ms s -> Inv ms (exec sched s).
Proof.
  induction sched as [|p sched IH]; intros s H; [exact H|].
  cbn [Broker.exec]. apply IH. destruct (step p s) as [s'|] eqn:E; [|exact H].
  eapply step_inv; eassumption.
Qed.

Lemma reach_inv ms sched : Inv ms (exec sched (init ms)).
Proof. apply exec_inv, Inv_init. Qed.

(* ------------------------------------------------------------------------------------------ *)
(* 1. refinement at quiescence, 2. prefix safety at every moment                               *)

Theorem refines ms sched :
  let s := exec sched (init ms) in
  quiescent s ->
  responses (written s) = responses (seq_run [] ms) /\
  diagnostics (written s) = diagnostics (seq_run [] ms).
Proof.
  intros s (Hi & Hw & Hd & Hio & Hb).
  destruct (reach_inv ms sched) as (done & Hms & _ & Hdg & _ & Hr). fold s in Hms, Hdg, Hr.
  rewrite Hi, app_nil_r in Hms. subst done.
  rewrite Hw in Hr. destruct Hr as (_ & _ & Hr).
  rewrite Hio in Hr, Hdg. rewrite Hb, Hd in Hdg. cbn in Hr, Hdg. rewrite !app_nil_r in *.
  split; assumption.
Qed.

Theorem prefix ms sched :
  let s := exec sched (init ms) in
  (exists t, responses (seq_run [] ms) = responses (written s) ++ t) /\
  (exists t, diagnostics (seq_run [] ms) = diagnostics (written s) ++ t).
Proof.
  intros s.
  destruct (reach_inv ms sched) as (done & Hms & _ & Hdg & _ & Hr). fold s in Hms, Hdg, Hr.
  split.
  - unfold resp_inv in Hr. destruct (waiting s) as [[id r]|].
    + destruct Hr as (done' & E1 & E2 & _). subst done. rewrite <- app_assoc in Hms.
      rewrite Hms, resp_app, <- E2, <- app_assoc. eexists. reflexivity.
    + destruct Hr as (_ & _ & E2).
      rewrite Hms, resp_app, <- E2, <- app_assoc. eexists. reflexivity.
  - rewrite Hms, diag_app, <- Hdg, <- app_assoc. eexists. reflexivity.
Qed.

(* at quiescence the broker's map is the sequential one (so [isolation] below speaks about the
   real store) *)
Theorem store_final ms sched :
  let s := exec sched (init ms) in
  quiescent s -> store s = seq_docs [] ms.
Proof.
  intros s (Hi & _ & Hd & _).
  destruct (reach_inv ms sched) as (done & Hms & Hst & _). fold s in Hms, Hst.
  rewrite Hi, app_nil_r in Hms. subst done. rewrite Hd in Hst. exact Hst.
Qed.

(* 5. a client that did not announce publishDiagnostics never receives diagnostics *)
Lemma seq_run_no_diag ms : forall m, send_diagnostics = false -> diagnostics (seq_run m ms) = [].
Proof.
  intros m H. revert m. induction ms as [|c r IH]; intros m; [reflexivity|].
  rewrite diag_cons, IH, app_nil_r.
  destruct c; cbn; try reflexivity; unfold Broker.diags_for; rewrite H; [reflexivity|].
  destruct (lookup m u); reflexivity.
Qed.

Theorem caps ms sched :
  send_diagnostics = false -> diagnostics (written (exec sched (init ms))) = [].
Proof.
  intros H. destruct (prefix ms sched) as (_ & t & E). cbv zeta in E.
  rewrite seq_run_no_diag in E by assumption.
  symmetry in E. apply app_eq_nil in E. apply E.
Qed.

(* ------------------------------------------------------------------------------------------ *)
(* 3. no deadlock                                                                              *)

Hypothesis cap_pos : (0 < cap)%nat.

Lemma room_nil {A} : room cap (@nil A) = true.
Proof. unfold room. cbn [length]. apply Nat.ltb_lt. exact cap_pos. Qed.

Lemma quiescent_dec (s : state) : {quiescent s} + {~ quiescent s}.
Proof.
  unfold quiescent.
  destruct (inp s); [|right; intros (H & _); discriminate].
  destruct (waiting s); [right; intros (_ & H & _); discriminate|].
  destruct (docq s); [|right; intros (_ & _ & H & _); discriminate].
  destruct (ioq s); [|right; intros (_ & _ & _ & H & _); discriminate].
  destruct (bpend s); [|right; intros (_ & _ & _ & _ & H); discriminate].
  left. repeat split.
Qed.

Lemma inv_enabled ms s : Inv ms s -> ~ quiescent s -> exists p s', step p s = Some s'.
Proof.
  intros (done & _ & _ & _ & _ & Hr) Hnq.
  destruct s as [i w rp dq io bp st wr]. unfold quiescent in Hnq.
  cbn [inp waiting reply docq ioq bpend store written] in *.
  destruct io as [|o io].
  2:{ exists Responder. eexists. reflexivity. }
  destruct bp as [|o bp].
  2:{ exists BrokerP. eexists. unfold Broker.step. cbn [inp waiting reply docq ioq bpend store written].
      rewrite room_nil. reflexivity. }
  destruct dq as [|x dq].
  2:{ exists BrokerP. unfold Broker.step. cbn [inp waiting reply docq ioq bpend store written].
      destruct x; try (eexists; reflexivity). destruct (lookup st u); eexists; reflexivity. }
  exists Reader. unfold Broker.step. cbn [inp waiting reply docq ioq bpend store written].
  destruct w as [[id r]|].
  - destruct Hr as (done' & _ & _ & H). destruct rp as [d|].
    + rewrite room_nil. eexists. reflexivity.
    + destruct H as (q & E & _). destruct q; discriminate.
  - destruct i as [|m rest].
    + exfalso. apply Hnq. repeat split.
    + destruct m; rewrite ?room_nil; eexists; reflexivity.
Qed.

Theorem no_deadlock ms sched :
  let s := exec sched (init ms) in
  ~ quiescent s -> exists p s', step p s = Some s'.
Proof. intros s. apply (inv_enabled ms). apply reach_inv. Qed.

(* ------------------------------------------------------------------------------------------ *)
(* 4. termination: every enabled step decreases a weighted count of the pending work           *)

Definition measure (s : state) : nat :=
  6 * length (inp s) + (match waiting s with Some _ => 2 | None => 0 end) +
  3 * length (docq s) + length (ioq s) + 2 * length (bpend s).

Lemma step_measure p s s' : step p s = Some s' -> (measure s' < measure s)%nat.
Proof.
  clear cap_pos. intros Hstep. destruct s as [i w rp dq io bp st wr].
  unfold Broker.step in Hstep. unfold measure.
  cbn [inp waiting reply docq ioq bpend store written] in *.
  destruct p.
  - destruct w as [[id r]|].
    + destruct rp as [d|]; [|discriminate]. destruct (room cap io); [|discriminate].
      injection Hstep as <-. cbn [inp waiting reply docq ioq bpend store written].
      rewrite app_length. cbn [length]. lia.
    + destruct i as [|m rest]; [discriminate|].
      destruct m; try (destruct (room cap dq); [|discriminate]);
        try (destruct (room cap io); [|discriminate]);
        injection Hstep as <-; cbn [inp waiting reply docq ioq bpend store written];
        rewrite ?app_length; cbn [length]; lia.
  - destruct bp as [|o b].
    + destruct dq as [|x q]; [discriminate|].
      destruct x as [u p|u p|u|u].
      * injection Hstep as <-. cbn [inp waiting reply docq ioq bpend store written].
        pose proof (length_diags_for u (open_doc p)). cbn [length]. lia.
      * destruct (lookup st u) as [d0|]; injection Hstep as <-;
          cbn [inp waiting reply docq ioq bpend store written]; cbn [length]; [|lia].
        pose proof (length_diags_for u (change_doc d0 p)). lia.
      * injection Hstep as <-. cbn [inp waiting reply docq ioq bpend store written]. cbn [length]. lia.
      * injection Hstep as <-. cbn [inp waiting reply docq ioq bpend store written]. cbn [length]. lia.
    + destruct (room cap io); [|discriminate]. injection Hstep as <-.
      cbn [inp waiting reply docq ioq bpend store written]. rewrite app_length. cbn [length]. lia.
  - destruct io as [|o q]; [discriminate|]. injection Hstep as <-.
    cbn [inp waiting reply docq ioq bpend store written]. cbn [length]. lia.
Qed.

Lemma terminates_from ms n : forall s, Inv ms s -> (measure s <= n)%nat ->
  exists sched, quiescent (exec sched s).
Proof.
  induction n as [|n IH]; intros s HI Hn.
  - destruct (quiescent_dec s) as [Q|NQ]; [exists []; exact Q|].
    destruct (inv_enabled ms s HI NQ) as (p & s' & E). apply step_measure in E. lia.
  - destruct (quiescent_dec s) as [Q|NQ]; [exists []; exact Q|].
    destruct (inv_enabled ms s HI NQ) as (p & s' & E).
    destruct (IH s') as (sched & Hq).
    + eapply step_inv; eassumption.
    + apply step_measure in E. lia.
    + exists (p :: sched). cbn [Broker.exec]. rewrite E. exact Hq.
Qed.

Theorem terminates ms : exists sched, quiescent (exec sched (init ms)).
Proof. apply (terminates_from ms (measure (init ms))); [apply Inv_init|lia]. Qed.

(* from any reachable state, too: no schedule prefix can prevent termination *)
Theorem terminates_any ms sched0 : exists sched, quiescent (exec (sched0 ++ sched) (init ms)).
Proof.
  destruct (terminates_from ms (measure (exec sched0 (init ms))) (exec sched0 (init ms)))
    as (sched & H); [apply reach_inv|lia|].
  exists sched. revert H. generalize (init ms). induction sched0 as [|p r IH]; intros s H; [exact H|].
  cbn [app Broker.exec]. apply IH. exact H.
Qed.

(* ------------------------------------------------------------------------------------------ *)
(* 6. isolation of documents (on the sequential specification)                                 *)

Hypothesis uri_eqb_spec : forall a b, uri_eqb a b = true <-> a = b.

Lemma uri_eqb_refl u : uri_eqb u u = true.
Proof. apply uri_eqb_spec. reflexivity. Qed.

Lemma lookup_remove_same (m : docs) u : lookup (remove m u) u = None.
Proof.
  induction m as [|[w d] m IH]; [reflexivity|]. cbn.
  destruct (uri_eqb w u) eqn:E; [exact IH|]. cbn. rewrite E. exact IH.
Qed.

Lemma lookup_remove_other (m : docs) v u : uri_eqb v u = false -> lookup (remove m v) u = lookup m u.
Proof.
  intros H. induction m as [|[w d] m IH]; [reflexivity|]. cbn.
  destruct (uri_eqb w v) eqn:E.
  - apply uri_eqb_spec in E. subst w. rewrite H. exact IH.
  - cbn. rewrite IH. reflexivity.
Qed.

Lemma lookup_insert_same (m : docs) u d : lookup (insert m u d) u = Some d.
Proof. unfold Broker.insert. cbn. rewrite uri_eqb_refl. reflexivity. Qed.

Lemma lookup_insert_other (m : docs) v u d : uri_eqb v u = false -> lookup (insert m v d) u = lookup m u.
Proof. intros H. unfold Broker.insert. cbn. rewrite H. apply lookup_remove_other. exact H. Qed.

Lemma isolation_gen u ms : forall m m', lookup m u = lookup m' u ->
  lookup (seq_docs m ms) u = lookup (seq_docs m' (filter (about u) ms)) u.
Proof.
  induction ms as [|c ms IH]; intros m m' H; [exact H|].
  cbn [filter]. destruct c as [v p|v p|v|id r|id k|]; cbn [Broker.about];
    try (cbn [Broker.seq_docs]; apply IH; exact H).
  - destruct (uri_eqb v u) eqn:E; cbn [Broker.seq_docs]; apply IH.
    + apply uri_eqb_spec in E. subst v. rewrite !lookup_insert_same. reflexivity.
    + rewrite lookup_insert_other; assumption.
  - destruct (uri_eqb v u) eqn:E; cbn [Broker.seq_docs].
    + apply uri_eqb_spec in E. subst v. rewrite <- H.
      destruct (lookup m u) as [d0|] eqn:L; apply IH.
      * rewrite !lookup_insert_same. reflexivity.
      * rewrite L. exact H.
    + destruct (lookup m v); apply IH; [rewrite lookup_insert_other|]; assumption.
  - destruct (uri_eqb v u) eqn:E; cbn [Broker.seq_docs]; apply IH.
    + apply uri_eqb_spec in E. subst v. rewrite !lookup_remove_same. reflexivity.
    + rewrite lookup_remove_other; assumption.
Qed.

Theorem isolation u ms :
  lookup (seq_docs [] ms) u = lookup (seq_docs [] (filter (about u) ms)) u.
Proof. apply isolation_gen. reflexivity. Qed.

Theorem closed_none m ms u : lookup (seq_docs m (ms ++ [CClose u])) u = None.
Proof. rewrite seq_docs_snoc. cbn [msg_docs]. apply lookup_remove_same. Qed.

(* a closed document stays absent until it is opened again *)
Lemma absent_until_open u ms : forall m,
  lookup m u = None -> (forall p, ~ In (COpen u p) ms) -> lookup (seq_docs m ms) u = None.
Proof.
  induction ms as [|c ms IH]; intros m H Hno; [exact H|].
  assert (Hno' : forall p, ~ In (COpen u p) ms) by (intros p Hp; apply (Hno p); right; exact Hp).
  destruct c as [v p|v p|v|id r|id k|]; cbn [Broker.seq_docs]; try (apply IH; assumption).
  - apply IH; [|assumption]. destruct (uri_eqb v u) eqn:E.
    + apply uri_eqb_spec in E. subst v. exfalso. apply (Hno p). left. reflexivity.
    + rewrite lookup_insert_other; assumption.
  - destruct (lookup m v) as [d0|] eqn:L; apply IH; try assumption.
    destruct (uri_eqb v u) eqn:E.
    + apply uri_eqb_spec in E. subst v. rewrite H in L. discriminate.
    + rewrite lookup_insert_other; assumption.
  - apply IH; [|assumption]. destruct (uri_eqb v u) eqn:E.
    + apply uri_eqb_spec in E. subst v. apply lookup_remove_same.
    + rewrite lookup_remove_other; assumption.
Qed.

Theorem closed_until_open m ms ms' u :
  (forall p, ~ In (COpen u p) ms') -> lookup (seq_docs m (ms ++ CClose u :: ms')) u = None.
Proof.
  intros H. rewrite seq_docs_app. cbn [Broker.seq_docs]. apply absent_until_open; [|exact H].
  apply lookup_remove_same.
Qed.

(* a (re)opened document starts from the opened text alone: nothing that happened before the
   didOpen - in particular no earlier content of the same URI - influences it *)
Theorem reopen_fresh m pre u p post :
  lookup (seq_docs m (pre ++ COpen u p :: post)) u
  = lookup (seq_docs [] (COpen u p :: filter (about u) post)) u.
Proof.
  rewrite seq_docs_app. cbn [Broker.seq_docs]. apply isolation_gen.
  rewrite !lookup_insert_same. reflexivity.
Qed.

(* ------------------------------------------------------------------------------------------ *)
(* 7. read-your-writes and response order, made explicit on the sequential specification       *)

Lemma resp_at m pre id r post :
  responses (seq_run m (pre ++ CReq id r :: post))
  = responses (seq_run m pre)
    ++ OResp id (answer r (lookup (seq_docs m pre) (req_uri r)))
    :: responses (seq_run (seq_docs m pre) post).
Proof. rewrite resp_app, resp_cons. reflexivity. Qed.

Lemma out_id_responses (l : list out) : flat_map out_id (responses l) = flat_map out_id l.
Proof.
  unfold Broker.responses. induction l as [|o l IH]; [reflexivity|].
  destruct o; cbn [filter Broker.is_resp flat_map Broker.out_id app]; rewrite IH; reflexivity.
Qed.

Lemma out_id_diags_for u d : flat_map out_id (diags_for u d) = [].
Proof. unfold Broker.diags_for. destruct send_diagnostics; reflexivity. Qed.

Lemma seq_resp_ids ms : forall m, flat_map out_id (seq_run m ms) = flat_map req_id ms.
Proof.
  induction ms as [|c r IH]; intros m; [reflexivity|].
  destruct c as [u p|u p|u|id q|id k|]; cbn [Broker.seq_run flat_map Broker.req_id app].
  - rewrite flat_map_app, out_id_diags_for. apply IH.
  - destruct (lookup m u); [|apply IH]. rewrite flat_map_app, out_id_diags_for. apply IH.
  - apply IH.
  - cbn [Broker.out_id app]. rewrite IH. reflexivity.
  - cbn [Broker.out_id app]. rewrite IH. reflexivity.
  - apply IH.
Qed.

(* at quiescence every request has been answered exactly once and in request order ... *)
Theorem response_order ms sched :
  let s := exec sched (init ms) in
  quiescent s -> flat_map out_id (written s) = flat_map req_id ms.
Proof.
  intros s Q. destruct (refines ms sched Q) as [E _]. fold s in E.
  rewrite <- out_id_responses, E, out_id_responses. apply seq_resp_ids.
Qed.

(* ... and at every moment the ids answered so far are a prefix of the request ids *)
Theorem response_order_prefix ms sched :
  exists t, flat_map req_id ms = flat_map out_id (written (exec sched (init ms))) ++ t.
Proof.
  destruct (prefix ms sched) as [(t & E) _]. cbv zeta in E.
  exists (flat_map out_id t).
  rewrite <- (seq_resp_ids ms []), <- out_id_responses, E, flat_map_app, out_id_responses. reflexivity.
Qed.

(* read-your-writes: under every schedule the response to a request is computed from the
   document map produced by exactly the messages that precede the request *)
Theorem read_your_writes pre id r post sched :
  let s := exec sched (init (pre ++ CReq id r :: post)) in
  quiescent s ->
  responses (written s)
  = responses (seq_run [] pre)
    ++ OResp id (answer r (lookup (seq_docs [] pre) (req_uri r)))
    :: responses (seq_run (seq_docs [] pre) post).
Proof.
  intros s Q. destruct (refines _ sched Q) as [E _]. fold s in E. rewrite E. apply resp_at.
Qed.

(* isolation, observably: that response depends only on the notifications addressed to the
   request's own document *)
Theorem isolation_response pre id r post sched :
  let s := exec sched (init (pre ++ CReq id r :: post)) in
  quiescent s ->
  responses (written s)
  = responses (seq_run [] pre)
    ++ OResp id (answer r (lookup (seq_docs [] (filter (about (req_uri r)) pre)) (req_uri r)))
    :: responses (seq_run (seq_docs [] pre) post).
Proof.
  intros s Q. unfold s. rewrite (read_your_writes pre id r post sched Q), <- isolation. reflexivity.
Qed.

(* a request for a closed document (closed, not reopened since) is answered from "no document" *)
Theorem closed_response pre mid id r post sched :
  (forall p, ~ In (COpen (req_uri r) p) mid) ->
  let ms0 := pre ++ CClose (req_uri r) :: mid in
  let s := exec sched (init (ms0 ++ CReq id r :: post)) in
  quiescent s ->
  responses (written s)
  = responses (seq_run [] ms0) ++ OResp id (answer r None) :: responses (seq_run (seq_docs [] ms0) post).
Proof.
  intros H ms0 s Q. unfold s. rewrite (read_your_writes ms0 id r post sched Q).
  unfold ms0. rewrite (closed_until_open [] pre mid (req_uri r) H). reflexivity.
Qed.

(* ------------------------------------------------------------------------------------------ *)
(* 8. the diagnostics of one document                                                          *)

Lemma diags_of_diagnostics u (l : list out) : diags_of u (diagnostics l) = diags_of u l.
Proof.
  unfold Broker.diags_of, Broker.diagnostics.
  induction l as [|o l IH]; [reflexivity|].
  destruct o; cbn [filter Broker.is_resp negb Broker.diag_of]; rewrite IH; reflexivity.
Qed.

Lemma diags_of_app u (a b : list out) : diags_of u (a ++ b) = diags_of u a ++ diags_of u b.
Proof. apply filter_app. Qed.

Lemma diags_of_diags_for u v d :
  diags_of u (diags_for v d) = if uri_eqb v u then diags_for v d else [].
Proof.
  unfold Broker.diags_of, Broker.diags_for. destruct send_diagnostics; cbn.
  - destruct (uri_eqb v u); reflexivity.
  - destruct (uri_eqb v u); reflexivity.
Qed.

(* isolation of the diagnostics stream of [u]: it is the whole diagnostics stream of the session
   restricted to the notifications addressed to [u] *)
Lemma isolation_diag_gen u ms : forall m m', lookup m u = lookup m' u ->
  diags_of u (diagnostics (seq_run m ms)) = diagnostics (seq_run m' (filter (about u) ms)).
Proof.
  induction ms as [|c ms IH]; intros m m' H; [reflexivity|].
  rewrite diag_cons, diags_of_app. cbn [filter].
  destruct c as [v p|v p|v|id r|id k|]; cbn [Broker.about msg_diag msg_docs];
    try (cbn [Broker.diags_of filter app]; apply IH; exact H).
  - rewrite diags_of_diags_for. destruct (uri_eqb v u) eqn:E.
    + rewrite diag_cons. cbn [msg_diag msg_docs]. f_equal. apply IH.
      apply uri_eqb_spec in E. subst v. rewrite !lookup_insert_same. reflexivity.
    + cbn [app]. apply IH. rewrite lookup_insert_other; assumption.
  - destruct (uri_eqb v u) eqn:E.
    + rewrite diag_cons. cbn [msg_diag msg_docs].
      apply uri_eqb_spec in E. subst v. rewrite <- H.
      destruct (lookup m u) as [d0|] eqn:L.
      * rewrite diags_of_diags_for, uri_eqb_refl. f_equal. apply IH.
        rewrite !lookup_insert_same. reflexivity.
      * cbn [Broker.diags_of filter app]. apply IH. rewrite L. exact H.
    + destruct (lookup m v) as [d0|].
      * rewrite diags_of_diags_for, E. cbn [app]. apply IH. rewrite lookup_insert_other; assumption.
      * cbn [Broker.diags_of filter app]. apply IH. exact H.
  - cbn [Broker.diags_of filter app]. destruct (uri_eqb v u) eqn:E.
    + rewrite diag_cons. cbn [msg_diag msg_docs app]. apply IH.
      apply uri_eqb_spec in E. subst v. rewrite !lookup_remove_same. reflexivity.
    + apply IH. rewrite lookup_remove_other; assumption.
Qed.

Theorem isolation_diag u ms sched :
  let s := exec sched (init ms) in
  quiescent s ->
  diags_of u (written s) = diagnostics (seq_run [] (filter (about u) ms)).
Proof.
  intros s Q. destruct (refines ms sched Q) as [_ E]. fold s in E.
  rewrite <- diags_of_diagnostics, E. apply isolation_diag_gen. reflexivity.
Qed.

(* the last diagnostics published for an open document are those of its current content *)
Lemma seq_last_diag u : send_diagnostics = true -> forall ms d,
  lookup (seq_docs [] ms) u = Some d ->
  exists pre, diags_of u (diagnostics (seq_run [] ms)) = pre ++ [ODiag u (diag u d)].
Proof.
  intros SD ms. induction ms as [|c a IH] using rev_ind; intros d H; [discriminate H|].
  rewrite seq_docs_snoc in H. rewrite diag_snoc, diags_of_app.
  assert (DF : forall v x, diags_for v x = [ODiag v (diag v x)])
    by (intros; unfold Broker.diags_for; rewrite SD; reflexivity).
  assert (keep : forall d', lookup (seq_docs [] a) u = Some d' ->
            exists pre, diags_of u (diagnostics (seq_run [] a)) ++ [] = pre ++ [ODiag u (diag u d')])
    by (intros d' H'; rewrite app_nil_r; apply IH; exact H').
  destruct c as [v p|v p|v|id r|id k|]; cbn [msg_docs msg_diag] in *;
    try (apply keep; exact H).
  - destruct (uri_eqb v u) eqn:E.
    + apply uri_eqb_spec in E. subst v. rewrite lookup_insert_same in H. injection H as <-.
      rewrite DF. cbn. rewrite uri_eqb_refl. eexists. reflexivity.
    + rewrite lookup_insert_other in H by assumption.
      rewrite DF. cbn [Broker.diags_of filter Broker.diag_of]. rewrite E. apply keep. exact H.
  - destruct (lookup (seq_docs [] a) v) as [d0|] eqn:L.
    + destruct (uri_eqb v u) eqn:E.
      * apply uri_eqb_spec in E. subst v. rewrite lookup_insert_same in H. injection H as <-.
        rewrite DF. cbn. rewrite uri_eqb_refl. eexists. reflexivity.
      * rewrite lookup_insert_other in H by assumption.
        rewrite DF. cbn [Broker.diags_of filter Broker.diag_of]. rewrite E. apply keep. exact H.
    + apply keep. exact H.
  - destruct (uri_eqb v u) eqn:E.
    + apply uri_eqb_spec in E. subst v. rewrite lookup_remove_same in H. discriminate H.
    + rewrite lookup_remove_other in H by assumption. apply keep. exact H.
Qed.

Theorem last_diag u d ms sched :
  send_diagnostics = true ->
  let s := exec sched (init ms) in
  quiescent s -> lookup (store s) u = Some d ->
  exists pre, diags_of u (written s) = pre ++ [ODiag u (diag u d)].
Proof.
  intros SD s Q H. destruct (refines ms sched Q) as [_ E]. fold s in E.
  rewrite <- diags_of_diagnostics, E. apply seq_last_diag; [exact SD|].
  rewrite <- (store_final ms sched Q). exact H.
Qed.

(* ------------------------------------------------------------------------------------------ *)
(* 9. every schedule does a bounded amount of work: at most 6 steps fire per client message     *)

Lemma fired_measure sched : forall s, (fired sched s + measure (exec sched s) <= measure s)%nat.
Proof.
  clear cap_pos uri_eqb_spec.
  induction sched as [|p r IH]; intros s; cbn [Broker.fired Broker.exec]; [lia|].
  destruct (step p s) as [s'|] eqn:E.
  - apply step_measure in E. specialize (IH s'). lia.
  - apply IH.
Qed.

Theorem fired_bound ms sched : (fired sched (init ms) <= 6 * length ms)%nat.
Proof.
  clear cap_pos uri_eqb_spec.
  pose proof (fired_measure sched (init ms)) as H.
  unfold measure at 2 in H. cbn [inp waiting docq ioq bpend Broker.init length] in H. lia.
Qed.

End BrokerProofs.

(* ------------------------------------------------------------------------------------------ *)
(* The same theorems for an arbitrary [world] (Model/Broker.v): every parameter of the model is
   universally quantified.  These are the statements Props/C20.v publishes. *)

Ltac wunfold :=
  unfold w_quiescent, w_run, w_fired, w_spec, w_spec_from, w_docs_after, w_docs_from, w_lookup, w_written,
         w_store, w_responses, w_diagnostics, w_diags_of, w_about, w_req_ids, w_out_ids, w_step, w_uri_ok,
         w_msg, w_out, w_state, w_docs in *.

Lemma w_refines : forall (w : world) (ms : list (w_msg w)) (sched : list proc),
  let s := w_run w sched ms in
  w_quiescent w s ->
  w_responses w (w_written w s) = w_responses w (w_spec w ms) /\
  w_diagnostics w (w_written w s) = w_diagnostics w (w_spec w ms).
Proof. intros w ms sched. wunfold. apply refines. Qed.

Lemma w_prefix : forall (w : world) (ms : list (w_msg w)) (sched : list proc),
  let s := w_run w sched ms in
  (exists t, w_responses w (w_spec w ms) = w_responses w (w_written w s) ++ t) /\
  (exists t, w_diagnostics w (w_spec w ms) = w_diagnostics w (w_written w s) ++ t).
Proof. intros w ms sched. wunfold. apply prefix. Qed.

Lemma w_store_final : forall (w : world) (ms : list (w_msg w)) (sched : list proc),
  let s := w_run w sched ms in
  w_quiescent w s -> w_store w s = w_docs_after w ms.
Proof. intros w ms sched. wunfold. apply store_final. Qed.

Lemma w_response_order : forall (w : world) (ms : list (w_msg w)) (sched : list proc),
  let s := w_run w sched ms in
  w_quiescent w s -> w_out_ids w (w_written w s) = w_req_ids w ms.
Proof. intros w ms sched. wunfold. apply response_order. Qed.

Lemma w_response_order_prefix : forall (w : world) (ms : list (w_msg w)) (sched : list proc),
  exists t, w_req_ids w ms = w_out_ids w (w_written w (w_run w sched ms)) ++ t.
Proof. intros w ms sched. wunfold. apply response_order_prefix. Qed.

Lemma w_read_your_writes : forall (w : world) (pre : list (w_msg w)) (id : N) (r : w_req w)
                                  (post : list (w_msg w)) (sched : list proc),
  let s := w_run w sched (pre ++ CReq id r :: post) in
  w_quiescent w s ->
  w_responses w (w_written w s)
  = w_responses w (w_spec w pre)
    ++ OResp id (w_answer w r (w_lookup w (w_docs_after w pre) (w_req_uri w r)))
    :: w_responses w (w_spec_from w (w_docs_after w pre) post).
Proof. intros w pre id r post sched. wunfold. apply read_your_writes. Qed.

Lemma w_last_diag : forall (w : world) (u : w_uri w) (d : w_dstate w) (ms : list (w_msg w)) (sched : list proc),
  w_uri_ok w -> w_send_diagnostics w = true ->
  let s := w_run w sched ms in
  w_quiescent w s -> w_lookup w (w_store w s) u = Some d ->
  exists pre, w_diags_of w u (w_written w s) = pre ++ [ODiag u (w_diag w u d)].
Proof. intros w u d ms sched OK SD. wunfold. apply last_diag; assumption. Qed.

Lemma w_caps : forall (w : world) (ms : list (w_msg w)) (sched : list proc),
  w_send_diagnostics w = false -> w_diagnostics w (w_written w (w_run w sched ms)) = [].
Proof. intros w ms sched. wunfold. apply caps. Qed.

Lemma w_isolation : forall (w : world) (u : w_uri w) (ms : list (w_msg w)),
  w_uri_ok w ->
  w_lookup w (w_docs_after w ms) u = w_lookup w (w_docs_after w (filter (w_about w u) ms)) u.
Proof. intros w u ms OK. wunfold. apply isolation. exact OK. Qed.

Lemma w_isolation_response : forall (w : world) (pre : list (w_msg w)) (id : N) (r : w_req w)
                                    (post : list (w_msg w)) (sched : list proc),
  w_uri_ok w ->
  let s := w_run w sched (pre ++ CReq id r :: post) in
  w_quiescent w s ->
  w_responses w (w_written w s)
  = w_responses w (w_spec w pre)
    ++ OResp id (w_answer w r (w_lookup w (w_docs_after w (filter (w_about w (w_req_uri w r)) pre)) (w_req_uri w r)))
    :: w_responses w (w_spec_from w (w_docs_after w pre) post).
Proof. intros w pre id r post sched OK. wunfold. apply isolation_response. exact OK. Qed.

Lemma w_isolation_diag : forall (w : world) (u : w_uri w) (ms : list (w_msg w)) (sched : list proc),
  w_uri_ok w ->
  let s := w_run w sched ms in
  w_quiescent w s ->
  w_diags_of w u (w_written w s) = w_diagnostics w (w_spec w (filter (w_about w u) ms)).
Proof. intros w u ms sched OK. wunfold. apply isolation_diag. exact OK. Qed.

Lemma w_closed_until_open : forall (w : world) (m : w_docs w) (ms ms' : list (w_msg w)) (u : w_uri w),
  w_uri_ok w ->
  (forall p, ~ In (COpen u p) ms') -> w_lookup w (w_docs_from w m (ms ++ CClose u :: ms')) u = None.
Proof. intros w m ms ms' u OK. wunfold. apply closed_until_open. exact OK. Qed.

Lemma w_closed_response : forall (w : world) (pre mid : list (w_msg w)) (id : N) (r : w_req w)
                                 (post : list (w_msg w)) (sched : list proc),
  w_uri_ok w ->
  (forall p, ~ In (COpen (w_req_uri w r) p) mid) ->
  let ms0 := pre ++ CClose (w_req_uri w r) :: mid in
  let s := w_run w sched (ms0 ++ CReq id r :: post) in
  w_quiescent w s ->
  w_responses w (w_written w s)
  = w_responses w (w_spec w ms0) ++ OResp id (w_answer w r None)
    :: w_responses w (w_spec_from w (w_docs_after w ms0) post).
Proof. intros w pre mid id r post sched OK. wunfold. apply closed_response. exact OK. Qed.

Lemma w_reopen_fresh : forall (w : world) (m : w_docs w) (pre : list (w_msg w)) (u : w_uri w) (p : w_payload w)
                              (post : list (w_msg w)),
  w_uri_ok w ->
  w_lookup w (w_docs_from w m (pre ++ COpen u p :: post)) u
  = w_lookup w (w_docs_after w (COpen u p :: filter (w_about w u) post)) u.
Proof. intros w m pre u p post OK. wunfold. apply reopen_fresh. exact OK. Qed.

Lemma w_no_deadlock : forall (w : world) (ms : list (w_msg w)) (sched : list proc),
  (0 < w_cap w)%nat ->
  let s := w_run w sched ms in
  ~ w_quiescent w s -> exists p s', w_step w p s = Some s'.
Proof. intros w ms sched CP. wunfold. apply no_deadlock. exact CP. Qed.

Lemma w_terminates_any : forall (w : world) (ms : list (w_msg w)) (sched0 : list proc),
  (0 < w_cap w)%nat ->
  exists sched, w_quiescent w (w_run w (sched0 ++ sched) ms).
Proof. intros w ms sched0 CP. wunfold. apply terminates_any. exact CP. Qed.

Lemma w_fired_bound : forall (w : world) (ms : list (w_msg w)) (sched : list proc),
  (w_fired w sched ms <= 6 * length ms)%nat.
Proof. intros w ms sched. wunfold. apply fired_bound. Qed.

(* ------------------------------------------------------------------------------------------ *)
(* a concrete instance for the examples of Props/C20.v: URIs and texts are numbers / lists of
   numbers, opening stores the text, a change appends, a request returns the stored text (or []
   for an unknown document), diagnostics carry the analysed text, channels have capacity 2 *)
Module BrokerDemo.
  Definition dmsg := cmsg N (list N) N.
  Definition dout := out N (list N).
  Definition dstate_t := state N (list N) (list N) N (list N).
  Definition d_answer (_ : N) (d : option (list N)) : list N := match d with Some t => t | None => [] end.
  Definition d_exec (sd : bool) (cap : nat) : list proc -> dstate_t -> dstate_t :=
    exec N N.eqb (list N) (list N) N (list N) (fun p => p) (@app N) (fun r => r) d_answer
         (fun k => [k]) (fun _ d => d) sd cap.
  Definition d_init (ms : list dmsg) : dstate_t := init N (list N) (list N) N (list N) ms.
  Definition d_spec (sd : bool) (ms : list dmsg) : list dout :=
    seq_run N N.eqb (list N) (list N) N (list N) (fun p => p) (@app N) (fun r => r) d_answer
            (fun k => [k]) (fun _ d => d) sd [] ms.
  Definition d_docs (ms : list dmsg) : docs N (list N) :=
    seq_docs N N.eqb (list N) (list N) N (fun p => p) (@app N) [] ms.
  Definition d_quiescent (s : dstate_t) : Prop := @quiescent N (list N) (list N) N (list N) s.
  Definition d_written (s : dstate_t) : list dout := @written N (list N) (list N) N (list N) s.

  (* the same instance as a [world] *)
  Definition demo_world (sd : bool) (cap : nat) : world :=
    {| w_uri := N; w_uri_eqb := N.eqb; w_dstate := list N; w_payload := list N; w_req := N; w_ans := list N;
       w_open_doc := fun p => p; w_change_doc := @app N; w_req_uri := fun r => r; w_answer := d_answer;
       w_local_answer := fun k => [k]; w_diag := fun _ d => d; w_send_diagnostics := sd; w_cap := cap |}.

  Lemma demo_uri_ok sd cap : w_uri_ok (demo_world sd cap).
  Proof. intros a b. apply N.eqb_eq. Qed.

  Fixpoint rounds (n : nat) (round : list proc) : list proc :=
    match n with O => [] | S k => round ++ rounds k round end.

  (* 12 messages over documents 1 and 2 *)
  Definition burst : list dmsg :=
    [ COpen 1%N [10%N]; COpen 2%N [20%N]; CChange 1%N [11%N]; CReq 100%N 1%N; CChange 2%N [21%N];
      CLocal 101%N 7%N; CReq 102%N 2%N; CClose 1%N; CReq 103%N 1%N; CChange 1%N [12%N]; CIgnored;
      CReq 104%N 2%N ].
End BrokerDemo.
