(* C09 part (A), text level: what it means for a text to be "the spellings of these token kinds, in
   order, separated only by admissible whitespace" ([Wv]), how such texts compose, that [indent] maps
   them to texts of the same kind, and that they lex back to exactly these kinds.

   The spelling of a kind is what the formatter prints for it, [show_kind] (Display for TokenType):
   for literals it may differ from the canonical [spelling] of Proofs/RenderProofs.v only by the zero
   padding of `{:#04X}` (`0xA` / `0x0A`); kind and VALUE are the same. *)
From Coq Require Import String Lia.
From Spl Require Import Model.Format Model.Lexer Spec.LexSpec Proofs.LexerProofs Proofs.LexLocality Proofs.LexConformOne
  Proofs.LexConform Proofs.RenderProofs Proofs.FormatProofs.
Import ListNotations.
Local Open Scope N_scope.

Notation sh := show_kind.

(* ================================================================================================
   1. Kinds of a valid comment-free program, and what the formatter prints for them
   ================================================================================================ *)
Definition is_comment (k : kind) : bool := match k with Comment _ => true | _ => false end.
Definition nice (k : kind) : bool := valid_kind k && negb (is_comment k).

Lemma nice_valid k : nice k = true -> valid_kind k = true.
Proof. unfold nice. intros H. apply andb_true_iff in H. tauto. Qed.

Lemma forallb_nice_split ks :
  forallb nice ks = true <-> forallb valid_kind ks = true /\ forallb (fun k => negb (is_comment k)) ks = true.
Proof.
  induction ks as [|k ks IH]; cbn [forallb]; [tauto|]. unfold nice at 1.
  rewrite !andb_true_iff, IH. tauto.
Qed.

(* ---- Display of numbers = the positional numerals of RenderProofs ---- *)
Lemma print_base_digits b (dig : N -> char) :
  2 <= b -> (forall d, d < b -> dig d = digit_char d) ->
  forall f1 f2 n acc, n < 2 ^ N.of_nat f1 -> n < b ^ N.of_nat f2 -> (0 < f1)%nat -> (0 < f2)%nat ->
  print_base_fuel f1 b n acc = digits_of f2 b dig n ++ acc.
Proof.
  intros Hb Hd. induction f1 as [|f1 IH]; intros f2 n acc H1 H2 L1 L2; [lia|].
  destruct f2 as [|f2]; [lia|]. cbn [print_base_fuel digits_of].
  assert (Hm : n mod b < b) by (apply N.mod_lt; lia).
  destruct (N.ltb_spec n b) as [L|L].
  - rewrite N.div_small by exact L. cbn [N.eqb]. rewrite N.mod_small by exact L. rewrite Hd by exact L. reflexivity.
  - assert (Hq : n / b <> 0).
    { intros E. pose proof (N.div_mod n b ltac:(lia)) as Hdm. rewrite E in Hdm. lia. }
    apply N.eqb_neq in Hq. rewrite Hq. apply N.eqb_neq in Hq.
    assert (Q1 : n / b < 2 ^ N.of_nat f1).
    { apply N.div_lt_upper_bound; [lia|]. rewrite Nat2N.inj_succ, N.pow_succ_r' in H1.
      assert (2 * 2 ^ N.of_nat f1 <= b * 2 ^ N.of_nat f1) by (apply N.mul_le_mono_r; exact Hb). lia. }
    assert (Q2 : n / b < b ^ N.of_nat f2).
    { apply N.div_lt_upper_bound; [lia|]. rewrite Nat2N.inj_succ, N.pow_succ_r' in H2. exact H2. }
    assert (P1 : (0 < f1)%nat).
    { destruct f1; [|lia]. cbn in Q1. lia. }
    assert (P2 : (0 < f2)%nat).
    { destruct f2; [|lia]. cbn in Q2. lia. }
    rewrite (IH f2 (n / b) _ Q1 Q2 P1 P2). rewrite <- app_assoc. cbn [app]. rewrite Hd by exact Hm. reflexivity.
Qed.

Lemma print_dec_spelling v : v < 4294967296 -> print_dec v = dec_spelling v.
Proof.
  intros Hv. unfold print_dec, dec_spelling.
  rewrite (print_base_digits 10 dec_char ltac:(lia)) with (f2 := 10%nat); [apply app_nil_r | | | | lia | lia].
  - intros d Hd. unfold dec_char, digit_char. apply N.ltb_lt in Hd. rewrite Hd. reflexivity.
  - pose proof (size_nat_bound v). rewrite Nat2N.inj_succ, N.pow_succ_r'. lia.
  - change (10 ^ N.of_nat 10) with 10000000000. lia.
Qed.

Lemma print_hex_spelling v : v < 4294967296 -> print_hex_upper v = digits_of 8 16 hex_char v.
Proof.
  intros Hv. unfold print_hex_upper.
  rewrite (print_base_digits 16 hex_char ltac:(lia)) with (f2 := 8%nat); [apply app_nil_r | | | | lia | lia].
  - intros d _. reflexivity.
  - pose proof (size_nat_bound v). rewrite Nat2N.inj_succ, N.pow_succ_r'. lia.
  - change (16 ^ N.of_nat 8) with 4294967296. exact Hv.
Qed.

(* what Display prints for a kind, relative to the canonical spelling: the same text, except that a
   one-digit hexadecimal literal is padded with one zero *)
Lemma show_vs_spelling k :
  nice k = true ->
  sh k = spelling k \/ exists v a, k = HexT (IntOk v) /\ spelling k = [48; 120; a] /\ sh k = [48; 120; 48; a].
Proof.
  intros Hn. unfold nice in Hn. apply andb_true_iff in Hn. destruct Hn as [Hv Hc].
  destruct k as [ | | | | | | | | | | | | | | | | | | | | | | | | | | | | | s | c | r | r | b | u | ];
    try (left; reflexivity); try discriminate Hv; try discriminate Hc.
  - destruct r as [v|]; [|discriminate Hv]. cbn [valid_kind] in Hv. apply N.ltb_lt in Hv.
    left. cbn [show_kind spelling spell]. apply print_dec_spelling. exact Hv.
  - destruct r as [v|]; [|discriminate Hv]. cbn [valid_kind] in Hv. apply N.ltb_lt in Hv.
    cbn [show_kind spelling spell]. unfold print_hex04, hex_spelling. cbv zeta.
    rewrite (print_hex_spelling v Hv).
    destruct (digits_of 8 16 hex_char v) as [|a [|b D]] eqn:E.
    + exfalso. revert E. apply digits_nonempty.
    + right. exists v, a. repeat split.
    + left. reflexivity.
Qed.

(* ---- the printed form is a lexeme of the kind, with its value ---- *)
Lemma show_lexeme k : nice k = true -> Lexeme k (sh k).
Proof.
  intros Hn. destruct (show_vs_spelling k Hn) as [E|(v & a & -> & E1 & E2)].
  - rewrite E. apply spelling_lexeme. apply nice_valid. exact Hn.
  - rewrite E2. pose proof (spelling_lexeme _ (nice_valid _ Hn)) as HL. rewrite E1 in HL.
    inversion HL as [p k Hin E0 | p k Hin E0 | | | d v' Hne Hd Hval Hlt | | | |]; subst.
    + exfalso. cbn in Hin. repeat (destruct Hin as [Hin|Hin]; [discriminate Hin|]). exact Hin.
    + exfalso. cbn in Hin. repeat (destruct Hin as [Hin|Hin]; [discriminate Hin|]). exact Hin.
    + apply (Lx_hex [48; a]); [discriminate | | | exact Hlt].
      * cbn [forallb] in *. rewrite Hd. reflexivity.
      * cbn [fold_left]. cbn [fold_left] in *. reflexivity.
Qed.

Lemma show_nonempty k : nice k = true -> sh k <> [].
Proof. intros Hn. apply (lexeme_nonempty k). apply show_lexeme. exact Hn. Qed.

(* the first character is that of the canonical spelling *)
Lemma show_agree k : nice k = true -> agree1 (spelling k) (sh k).
Proof.
  intros Hn. destruct (show_vs_spelling k Hn) as [E|(v & a & _ & E1 & E2)].
  - rewrite E. destruct (spelling k); reflexivity.
  - rewrite E1, E2. reflexivity.
Qed.

(* no line feed inside, no carriage return at the end *)
Definition plain_char (c : char) : bool := negb (c =? 10).

Lemma alnum_ascii_plain c : is_alnum_ascii c = true -> plain_char c = true /\ c <> 13.
Proof.
  intros H. split.
  - unfold plain_char. destruct (N.eqb_spec c 10) as [->|]; [discriminate H | reflexivity].
  - intros ->. discriminate H.
Qed.

Lemma forallb_impl {A} (P Q : A -> bool) l : (forall x, P x = true -> Q x = true) -> forallb P l = true -> forallb Q l = true.
Proof.
  intros HPQ. induction l as [|x l IH]; [reflexivity|]. cbn [forallb]. intros H.
  apply andb_true_iff in H. destruct H as [H1 H2]. rewrite (HPQ x H1), (IH H2). reflexivity.
Qed.

Lemma last_forallb (P : char -> bool) l d : l <> [] -> forallb P l = true -> P (last l d) = true.
Proof.
  induction l as [|x l IH]; [congruence|]. intros _ H. cbn [forallb] in H. apply andb_true_iff in H. destruct H as [H1 H2].
  destruct l as [|y l']; [exact H1|]. change (P (last (y :: l') d) = true). apply IH; [discriminate | exact H2].
Qed.

Lemma digits_all_ascii fuel b dig : b <> 0 -> (forall d, d < b -> is_alnum_ascii (dig d) = true) ->
  forall v, forallb is_alnum_ascii (digits_of fuel b dig v) = true.
Proof. intros. apply digits_all; assumption. Qed.

Lemma hex_ascii c : is_hex c = true -> is_alnum_ascii c = true.
Proof.
  intros H. apply FormatProofs.hex_range in H. unfold is_alnum_ascii, is_alpha, is_upper, is_lower, is_digit.
  destruct H as [H|[H|H]].
  - replace (48 <=? c) with true by (symmetry; apply N.leb_le; lia).
    replace (c <=? 57) with true by (symmetry; apply N.leb_le; lia). rewrite !orb_true_r. reflexivity.
  - replace (65 <=? c) with true by (symmetry; apply N.leb_le; lia).
    replace (c <=? 90) with true by (symmetry; apply N.leb_le; lia). reflexivity.
  - replace (97 <=? c) with true by (symmetry; apply N.leb_le; lia).
    replace (c <=? 122) with true by (symmetry; apply N.leb_le; lia). rewrite !orb_true_r. reflexivity.
Qed.

Lemma spelling_plain k : nice k = true -> forallb plain_char (spelling k) = true /\ last (spelling k) 0 <> 13.
Proof.
  intros Hn. unfold nice in Hn. apply andb_true_iff in Hn. destruct Hn as [Hv Hc].
  assert (Hal : forall l, l <> [] -> forallb is_alnum_ascii l = true -> forallb plain_char l = true /\ last l 0 <> 13).
  { intros l Hne Hl. split.
    - revert Hl. apply forallb_impl. intros x Hx. apply alnum_ascii_plain. exact Hx.
    - pose proof (last_forallb _ l 0 Hne Hl) as H. apply alnum_ascii_plain in H. tauto. }
  destruct k as [ | | | | | | | | | | | | | | | | | | | | | | | | | | | | | s | c | r | r | b | u | ];
    try (split; [reflexivity | discriminate]); try discriminate Hv; try discriminate Hc.
  - cbn [spelling spell]. destruct s as [|c r]; [discriminate Hv|]. cbn [valid_kind valid_ident] in Hv.
    apply andb_true_iff in Hv. destruct Hv as [Hv _]. apply andb_true_iff in Hv. destruct Hv as [H1 H2].
    apply Hal; [discriminate|]. cbn [forallb]. rewrite (ident_start_ascii c H1), H2. reflexivity.
  - cbn [spelling spell]. destruct (N.eqb_spec c 10) as [->|Hne].
    + split; [reflexivity | discriminate].
    + split; [|discriminate]. cbn [forallb]. unfold plain_char at 2. apply N.eqb_neq in Hne. rewrite Hne. reflexivity.
  - destruct r as [v|]; [|discriminate Hv]. cbn [spelling spell]. unfold dec_spelling. apply Hal.
    + apply digits_nonempty.
    + apply digits_all_ascii; [discriminate|]. intros d Hd. apply digit_ascii. apply dec_char_digit. exact Hd.
  - destruct r as [v|]; [|discriminate Hv]. cbn [spelling spell]. unfold hex_spelling. apply Hal; [discriminate|].
    cbn [forallb]. apply digits_all_ascii; [discriminate|]. intros d Hd. apply hex_ascii. apply hex_char_hex. exact Hd.
Qed.

Lemma show_plain k : nice k = true -> forallb plain_char (sh k) = true /\ last (sh k) 0 <> 13.
Proof.
  intros Hn. destruct (spelling_plain k Hn) as [H1 H2].
  destruct (show_vs_spelling k Hn) as [E|(v & a & _ & E1 & E2)].
  - rewrite E. split; assumption.
  - rewrite E1 in H1, H2. rewrite E2. cbn [forallb last] in *. split; [|exact H2].
    rewrite !andb_true_iff in H1. rewrite !andb_true_iff. tauto.
Qed.

Lemma plain_no_nl l : forallb plain_char l = true -> no_nl l.
Proof.
  intros H Hin. rewrite forallb_forall in H. specialize (H 10 Hin). discriminate H.
Qed.

(* ================================================================================================
   1b. Comments: Display prints "// " + trimmed text + LF; the lexer reads that back as a comment whose
       text is " " + trimmed text
   ================================================================================================ *)
(* the printed form without its final line feed: what stands on the line *)
Definition shc (k : kind) : text :=
  match k with Comment s => [47; 47; 32] ++ trim s | _ => sh k end.

(* the kind the printed form lexes to *)
Definition canon (k : kind) : kind :=
  match k with Comment s => Comment (32 :: trim s) | _ => k end.

Lemma shc_nice k : nice k = true -> shc k = sh k.
Proof. intros H. destruct k; try reflexivity. unfold nice in H. cbn in H. rewrite andb_false_r in H. discriminate H. Qed.

Lemma canon_nice k : nice k = true -> canon k = k.
Proof. intros H. destruct k; try reflexivity. unfold nice in H. cbn in H. rewrite andb_false_r in H. discriminate H. Qed.

Lemma sh_comment s : sh (Comment s) = shc (Comment s) ++ [10].
Proof. cbn [show_kind shc]. rewrite <- !app_assoc. reflexivity. Qed.

Lemma valid_cases k : valid_kind k = true -> nice k = true \/ exists s, k = Comment s /\ forallb not_nl s = true.
Proof.
  intros H. destruct k; try (left; unfold nice; rewrite H; reflexivity). right. exists s. split; [reflexivity | exact H].
Qed.

Lemma trim_start_in c s : In c (trim_start s) -> In c s.
Proof.
  induction s as [|x s IH]; [intros []|]. cbn [trim_start]. destruct (is_unicode_ws x); [intros H; right; apply IH; exact H | intros H; exact H].
Qed.

Lemma trim_in c s : In c (trim s) -> In c s.
Proof.
  unfold trim. intros H. apply in_rev in H. apply trim_start_in in H. apply in_rev in H. apply trim_start_in in H. exact H.
Qed.

Lemma trim_start_head s : match trim_start s with [] => True | x :: _ => is_unicode_ws x = false end.
Proof.
  induction s as [|x s IH]; [exact I|]. cbn [trim_start]. destruct (is_unicode_ws x) eqn:E; [exact IH | exact E].
Qed.

Lemma trim_last s : trim s = [] \/ is_unicode_ws (last (trim s) 0) = false.
Proof.
  unfold trim. pose proof (trim_start_head (rev (trim_start s))) as H.
  destruct (trim_start (rev (trim_start s))) as [|x r]; [left; reflexivity|]. right.
  cbn [rev]. rewrite last_app_single. exact H.
Qed.

Lemma trim_plain s : forallb not_nl s = true -> forallb plain_char (trim s) = true.
Proof.
  intros H. apply forallb_forall. intros c Hc. apply trim_in in Hc. rewrite forallb_forall in H. exact (H c Hc).
Qed.

Lemma last_cons_ne {A} (x : A) l d : l <> [] -> last (x :: l) d = last l d.
Proof. destruct l; [congruence | reflexivity]. Qed.

Lemma shc_plain k : valid_kind k = true -> forallb plain_char (shc k) = true /\ last (shc k) 0 <> 13.
Proof.
  intros Hv. destruct (valid_cases k Hv) as [Hn|(s & -> & Hs)].
  - rewrite (shc_nice k Hn). apply show_plain. exact Hn.
  - cbn [shc]. split.
    + rewrite forallb_app. apply andb_true_iff. split; [reflexivity | exact (trim_plain s Hs)].
    + destruct (trim_last s) as [E|E].
      * rewrite E. cbn. discriminate.
      * destruct (trim s) as [|x r] eqn:Et; [cbn; discriminate|].
        change ([47; 47; 32] ++ x :: r) with (47 :: 47 :: 32 :: x :: r).
        rewrite !last_cons_ne by discriminate. intros E13. rewrite E13 in E. discriminate E.
Qed.

Lemma shc_nonempty k : valid_kind k = true -> shc k <> [].
Proof.
  intros Hv. destruct (valid_cases k Hv) as [Hn|(s & -> & Hs)].
  - rewrite (shc_nice k Hn). apply show_nonempty. exact Hn.
  - discriminate.
Qed.

(* what is printed for a valid kind is a lexeme of the canonical kind *)
Lemma show_lexeme_canon k : valid_kind k = true -> Lexeme (canon k) (sh k).
Proof.
  intros Hv. destruct (valid_cases k Hv) as [Hn|(s & -> & Hs)].
  - rewrite (canon_nice k Hn). apply show_lexeme. exact Hn.
  - cbn [canon show_kind]. apply (Lx_comment (32 :: trim s)). cbn [forallb]. exact (trim_plain s Hs).
Qed.

Lemma show_agree_valid k : valid_kind k = true -> agree1 (spelling k) (sh k).
Proof.
  intros Hv. destruct (valid_cases k Hv) as [Hn|(s & -> & Hs)]; [apply show_agree; exact Hn | reflexivity].
Qed.

(* ================================================================================================
   2. Woven texts
   ================================================================================================ *)
(* the characters the printers put between tokens: blank, tab, line feed *)
Definition gapc (c : char) : bool := (c =? 32) || (c =? 9) || (c =? 10).

Lemma gapc_ws c : gapc c = true -> is_ws c = true.
Proof.
  unfold gapc, is_ws. intros H0. rewrite !orb_true_iff in H0. destruct H0 as [[H|H]|H]; rewrite H; rewrite ?orb_true_r; reflexivity.
Qed.

Lemma gap_ws g : forallb gapc g = true -> forallb is_ws g = true.
Proof. apply forallb_impl. exact gapc_ws. Qed.

Definition starts_nl (g : text) : bool := match g with c :: _ => c =? 10 | [] => false end.

(* a gap between the kinds a and b: gap characters only; non-empty where the two spellings would merge; behind a
   comment it begins with the line feed that ends the comment *)
Definition sepok (a b : kind) (g : text) : bool :=
  forallb gapc g && (if is_comment a then starts_nl g else negb (is_nil g) || negb (needs_sep a b)).

Lemma sepok_ne a b g : is_comment a = false -> forallb gapc g = true -> g <> [] -> sepok a b g = true.
Proof. intros Ha H Hne. unfold sepok. rewrite H, Ha. destruct g; [congruence | reflexivity]. Qed.

Lemma sepok_glue a b : is_comment a = false -> needs_sep a b = false -> sepok a b [] = true.
Proof. intros Ha H. unfold sepok. rewrite H, Ha. reflexivity. Qed.

(* spelling, gap, spelling, ..., spelling *)
Fixpoint iw (ks : list kind) (gs : list text) : text :=
  match ks, gs with
  | k :: ks', g :: gs' => shc k ++ g ++ iw ks' gs'
  | k :: _, [] => shc k
  | [], _ => []
  end.

Fixpoint inner_ok (ks : list kind) (gs : list text) : bool :=
  match ks, gs with
  | [_], [] => true
  | k :: ((k' :: _) as ks'), g :: gs' => sepok k k' g && inner_ok ks' gs'
  | _, _ => false
  end.

Definition hdk (ks : list kind) : kind := hd Eof ks.
Definition lastk (ks : list kind) : kind := last ks Eof.

(* [Wv ks t]: t is the printed forms of ks (all valid) in order, starting with the first and ending with the last one,
   which is not a comment, with an admissible gap between any two neighbours; a comment is followed by its line feed *)
Definition Wv (ks : list kind) (t : text) : Prop :=
  exists gs, t = iw ks gs /\ inner_ok ks gs = true /\ forallb valid_kind ks = true /\ is_comment (lastk ks) = false.

Lemma inner_ok_length ks : forall gs, inner_ok ks gs = true -> length ks = S (length gs).
Proof.
  induction ks as [|k ks IH]; intros gs H; [discriminate H|].
  destruct ks as [|k' ks].
  - destruct gs; [reflexivity | discriminate H].
  - destruct gs as [|g gs]; [discriminate H|]. cbn [inner_ok] in H. apply andb_true_iff in H. destruct H as [_ H].
    pose proof (IH gs H) as E. cbn [length] in *. rewrite E. reflexivity.
Qed.

Lemma Wv_nonempty ks t : Wv ks t -> ks <> [].
Proof. intros (gs & _ & H & _). destruct ks; [discriminate H | discriminate]. Qed.

Lemma Wv_valid ks t : Wv ks t -> forallb valid_kind ks = true.
Proof. intros (gs & _ & _ & H & _). exact H. Qed.

Lemma Wv_last ks t : Wv ks t -> is_comment (lastk ks) = false.
Proof. intros (gs & _ & _ & _ & H). exact H. Qed.

Lemma nice_not_comment k : nice k = true -> is_comment k = false.
Proof. unfold nice. intros H. apply andb_true_iff in H. destruct H as [_ H]. apply negb_true_iff in H. exact H. Qed.

Lemma Wv_one k : nice k = true -> Wv [k] (sh k).
Proof.
  intros H. exists []. cbn [iw inner_ok forallb]. rewrite (shc_nice k H), (nice_valid k H). repeat split.
  apply nice_not_comment. exact H.
Qed.

Lemma iw_app ks1 : forall gs1 ks2 g gs2, length ks1 = S (length gs1) -> ks2 <> [] ->
  iw (ks1 ++ ks2) (gs1 ++ g :: gs2) = iw ks1 gs1 ++ g ++ iw ks2 gs2.
Proof.
  induction ks1 as [|k ks1 IH]; intros gs1 ks2 g gs2 Hl Hne; [discriminate Hl|].
  destruct gs1 as [|g1 gs1].
  - destruct ks1; [|discriminate Hl]. cbn [app iw]. reflexivity.
  - cbn [length] in Hl. injection Hl as Hl. cbn [app iw]. rewrite (IH gs1 ks2 g gs2 Hl Hne), <- !app_assoc. reflexivity.
Qed.

Lemma inner_ok_app ks1 : forall gs1 ks2 g gs2,
  inner_ok ks1 gs1 = true -> inner_ok ks2 gs2 = true -> sepok (lastk ks1) (hdk ks2) g = true ->
  inner_ok (ks1 ++ ks2) (gs1 ++ g :: gs2) = true.
Proof.
  induction ks1 as [|k ks1 IH]; intros gs1 ks2 g gs2 H1 H2 Hs; [discriminate H1|].
  destruct ks1 as [|k' ks1].
  - destruct gs1; [|discriminate H1]. cbn [app]. destruct ks2 as [|k2 ks2]; [discriminate H2|].
    change (inner_ok (k :: k2 :: ks2) (g :: gs2)) with (sepok k k2 g && inner_ok (k2 :: ks2) gs2).
    cbn [lastk last hdk hd] in Hs. rewrite Hs, H2. reflexivity.
  - destruct gs1 as [|g1 gs1]; [discriminate H1|]. cbn [inner_ok] in H1. apply andb_true_iff in H1. destruct H1 as [Ha Hb].
    change (inner_ok ((k :: k' :: ks1) ++ ks2) ((g1 :: gs1) ++ g :: gs2))
      with (sepok k k' g1 && inner_ok ((k' :: ks1) ++ ks2) (gs1 ++ g :: gs2)).
    rewrite Ha. cbn [andb]. apply (IH gs1 ks2 g gs2 Hb H2). exact Hs.
Qed.

Lemma last_app_ne {A} (a b : list A) d : b <> [] -> last (a ++ b) d = last b d.
Proof.
  intros Hb. induction a as [|x a IH]; [reflexivity|]. cbn [app]. destruct (a ++ b) as [|y r] eqn:E.
  - apply app_eq_nil in E. destruct E as [_ E]. contradiction.
  - change (last (y :: r) d = last b d). exact IH.
Qed.

Theorem Wv_app ks1 ks2 t1 g t2 :
  Wv ks1 t1 -> Wv ks2 t2 -> sepok (lastk ks1) (hdk ks2) g = true -> Wv (ks1 ++ ks2) (t1 ++ g ++ t2).
Proof.
  intros (gs1 & -> & H1 & N1 & L1) (gs2 & -> & H2 & N2 & L2) Hs.
  assert (Hne : ks2 <> []) by (destruct ks2; [discriminate H2 | discriminate]).
  exists (gs1 ++ g :: gs2). split; [|split; [|split]].
  - symmetry. apply iw_app; [apply inner_ok_length; exact H1 | exact Hne].
  - apply inner_ok_app; assumption.
  - rewrite forallb_app, N1, N2. reflexivity.
  - unfold lastk in *. rewrite last_app_ne by exact Hne. exact L2.
Qed.

Lemma Wv_app0 ks1 ks2 t1 t2 :
  Wv ks1 t1 -> Wv ks2 t2 -> needs_sep (lastk ks1) (hdk ks2) = false -> Wv (ks1 ++ ks2) (t1 ++ t2).
Proof. intros H1 H2 Hs. apply (Wv_app ks1 ks2 t1 [] t2 H1 H2). apply sepok_glue; [apply (Wv_last ks1 t1 H1) | exact Hs]. Qed.

(* a comment line in front of a woven text *)
Lemma Wv_comment c ks g t :
  valid_kind (Comment c) = true -> Wv ks t -> forallb gapc g = true ->
  Wv (Comment c :: ks) (shc (Comment c) ++ (10 :: g) ++ t).
Proof.
  intros Hc (gs & -> & H & N & L) Hg. exists ((10 :: g) :: gs).
  destruct ks as [|k' ks]; [discriminate H|]. split; [reflexivity|]. split; [|split].
  - change (inner_ok (Comment c :: k' :: ks) ((10 :: g) :: gs)) with (sepok (Comment c) k' (10 :: g) && inner_ok (k' :: ks) gs).
    rewrite H, andb_true_r. unfold sepok. cbn [is_comment starts_nl forallb]. rewrite Hg. reflexivity.
  - change (forallb valid_kind (Comment c :: k' :: ks)) with (valid_kind (Comment c) && forallb valid_kind (k' :: ks)).
    rewrite Hc, N. reflexivity.
  - exact L.
Qed.

(* ---- to the gap lists of Proofs/RenderProofs.v: there the line feed belongs to the comment lexeme ---- *)
Fixpoint lexgaps (ks : list kind) (gs : list text) : list text :=
  match ks, gs with
  | k :: ks', g :: gs' => (if is_comment k then tl g else g) :: lexgaps ks' gs'
  | _, _ => []
  end.

Lemma sepok_comment_gap s b g : sepok (Comment s) b g = true -> g = 10 :: tl g /\ forallb gapc (tl g) = true.
Proof.
  unfold sepok. cbn [is_comment]. intros H. apply andb_true_iff in H. destruct H as [Hg Hs].
  destruct g as [|c g]; [discriminate Hs|]. cbn [starts_nl] in Hs. apply N.eqb_eq in Hs. subst c.
  cbn [tl forallb] in *. split; [reflexivity|]. apply andb_true_iff in Hg. exact (proj2 Hg).
Qed.

Lemma weave_iw ks : forall (g0 : text) (gs : list text) (gn : text),
  inner_ok ks gs = true -> is_comment (lastk ks) = false ->
  weave (g0 :: lexgaps ks gs ++ [gn]) (map sh ks) = g0 ++ iw ks gs ++ gn.
Proof.
  induction ks as [|k ks IH]; intros g0 gs gn H L; [discriminate H|].
  destruct ks as [|k' ks].
  - destruct gs; [|discriminate H]. cbn [lastk last] in L. cbn [lexgaps map app weave iw].
    destruct k; try reflexivity. discriminate L.
  - destruct gs as [|g gs]; [discriminate H|]. cbn [inner_ok] in H. apply andb_true_iff in H. destruct H as [Hs H].
    assert (L' : is_comment (lastk (k' :: ks)) = false) by exact L.
    change (weave (g0 :: lexgaps (k :: k' :: ks) (g :: gs) ++ [gn]) (map sh (k :: k' :: ks)))
      with (g0 ++ sh k ++ weave ((if is_comment k then tl g else g) :: lexgaps (k' :: ks) gs ++ [gn]) (map sh (k' :: ks))).
    rewrite (IH _ gs gn H L'). change (iw (k :: k' :: ks) (g :: gs)) with (shc k ++ g ++ iw (k' :: ks) gs).
    destruct (is_comment k) eqn:Ec.
    + destruct k; try discriminate Ec. destruct (sepok_comment_gap _ _ _ Hs) as [Eg _].
      rewrite sh_comment. rewrite Eg at 2. rewrite <- !app_assoc. reflexivity.
    + assert (E : shc k = sh k) by (destruct k; try reflexivity; discriminate Ec). rewrite E, <- !app_assoc. reflexivity.
Qed.

Lemma needs_sep_comment s b : valid_kind (Comment s) = true -> valid_kind b = true -> needs_sep (Comment s) b = false.
Proof.
  intros Hs Hb. unfold needs_sep. rewrite (spell_total b Hb). cbn [spell delimitedb].
  destruct (spelling b); [reflexivity|].
  change (47 :: 47 :: s ++ [10]) with ((47 :: 47 :: s) ++ [10]). rewrite last_app_single. reflexivity.
Qed.

Lemma gaps_okb_iw ks : forall (g0 : text) (gs : list text) (gn : text),
  forallb is_ws g0 = true -> forallb is_ws gn = true -> inner_ok ks gs = true -> forallb valid_kind ks = true ->
  gaps_okb ks (g0 :: lexgaps ks gs ++ [gn]) = true /\ Forall (fun g => forallb is_ws g = true) (lexgaps ks gs).
Proof.
  induction ks as [|k ks IH]; intros g0 gs gn H0 Hn H Hv; [discriminate H|].
  destruct ks as [|k' ks].
  - destruct gs; [|discriminate H]. cbn [lexgaps app gaps_okb sep_okb]. rewrite H0, Hn.
    split; [destruct gn; reflexivity | constructor].
  - destruct gs as [|g gs]; [discriminate H|]. cbn [inner_ok] in H. apply andb_true_iff in H. destruct H as [Hs H].
    cbn [forallb] in Hv. apply andb_true_iff in Hv. destruct Hv as [Hk Hv].
    assert (Hk' : valid_kind k' = true) by (cbn [forallb] in Hv; apply andb_true_iff in Hv; exact (proj1 Hv)).
    set (g' := if is_comment k then tl g else g).
    assert (Hg' : forallb gapc g' = true /\ (g' = [] -> needs_sep k k' = false)).
    { unfold g'. destruct (is_comment k) eqn:Ec.
      - destruct k; try discriminate Ec. destruct (sepok_comment_gap _ _ _ Hs) as [_ Hg]. split; [exact Hg|].
        intros _. apply needs_sep_comment; assumption.
      - unfold sepok in Hs. rewrite Ec in Hs. apply andb_true_iff in Hs. destruct Hs as [Hg Hs]. split; [exact Hg|].
        intros ->. cbn [is_nil negb orb] in Hs. apply negb_true_iff in Hs. exact Hs. }
    destruct Hg' as [Hg Hsep].
    destruct (IH g' gs gn (gap_ws g' Hg) Hn H Hv) as [IH1 IH2].
    change (lexgaps (k :: k' :: ks) (g :: gs)) with (g' :: lexgaps (k' :: ks) gs).
    split; [|constructor; [apply gap_ws; exact Hg | exact IH2]].
    change (gaps_okb (k :: k' :: ks) (g0 :: (g' :: lexgaps (k' :: ks) gs) ++ [gn]))
      with (forallb is_ws g0 && sep_okb k (k' :: ks) (g' :: lexgaps (k' :: ks) gs ++ [gn])
            && gaps_okb (k' :: ks) (g' :: lexgaps (k' :: ks) gs ++ [gn])).
    apply andb_true_iff. split; [apply andb_true_iff; split; [exact H0|] | exact IH1].
    destruct g' as [|c r]; [|reflexivity]. cbn [sep_okb]. rewrite (Hsep eq_refl). reflexivity.
Qed.

(* a woven text with a gap in front and a gap behind is a layout of its kinds in the sense of RenderProofs *)
Theorem Wv_layout ks t g0 gn :
  Wv ks t -> forallb is_ws g0 = true -> forallb is_ws gn = true ->
  exists gaps, g0 ++ t ++ gn = weave gaps (map sh ks) /\ gaps_ok ks gaps /\
               hd [] gaps = g0 /\ last gaps [] = gn /\ Forall (fun g => forallb is_ws g = true) gaps.
Proof.
  intros (gs & -> & H & Hv & L) H0 Hn. exists (g0 :: lexgaps ks gs ++ [gn]).
  destruct (gaps_okb_iw ks g0 gs gn H0 Hn H Hv) as [G1 G2]. split; [|split; [|split; [|split]]].
  - symmetry. apply weave_iw; assumption.
  - exact G1.
  - reflexivity.
  - change (g0 :: lexgaps ks gs ++ [gn]) with ((g0 :: lexgaps ks gs) ++ [gn]). apply last_app_single.
  - constructor; [exact H0|]. apply Forall_app. split; [exact G2 | constructor; [exact Hn | constructor]].
Qed.

(* ================================================================================================
   3. A layout of valid kinds in their printed form lexes back to these kinds (comments: to their canonical kinds)
   ================================================================================================ *)
Definition show_ls (ks : list kind) : list (kind * text) := map (fun k => (canon k, sh k)) ks.

Lemma show_ls_fst ks : map fst (show_ls ks) = map canon ks.
Proof. unfold show_ls. rewrite map_map. reflexivity. Qed.

Lemma show_ls_snd ks : map snd (show_ls ks) = map sh ks.
Proof. unfold show_ls. rewrite map_map. reflexivity. Qed.

Lemma show_ls_lexemes ks : forallb valid_kind ks = true -> Forall (fun kl => Lexeme (fst kl) (snd kl)) (show_ls ks).
Proof.
  induction ks as [|k ks IH]; [constructor|]. cbn [forallb]. intros H. apply andb_true_iff in H. destruct H as [Hk Hks].
  constructor; [cbn [fst snd]; apply show_lexeme_canon; exact Hk | apply IH; exact Hks].
Qed.

Lemma show_closed k : valid_kind k = true -> closed_comment (canon k) (sh k).
Proof.
  intros H. destruct k; try exact I. cbn [canon closed_comment]. rewrite sh_comment. apply last_app_single.
Qed.

(* [Delimited] with the canonical spellings carries over to the printed forms *)
Lemma delimited_show k k' :
  valid_kind k = true -> valid_kind k' = true -> Delimited k (spelling k) (spelling k') -> Delimited (canon k) (sh k) (sh k').
Proof.
  intros Hk Hk' HD.
  assert (HD' : Delimited k (spelling k) (sh k')) by (eapply delimited_agree; [apply show_agree_valid; exact Hk' | exact HD]).
  destruct (valid_cases k Hk) as [Hn|(s & -> & Hs)].
  - rewrite (canon_nice k Hn). destruct (show_vs_spelling k Hn) as [E|(v & a & -> & _ & _)].
    + rewrite E. exact HD'.
    + exact HD'.
  - cbn [canon Delimited]. destruct (sh k'); [exact I|]. rewrite sh_comment. apply last_app_single.
Qed.

Lemma show_separated ks : forall gaps,
  forallb valid_kind ks = true -> gaps_ok ks gaps ->
  length gaps = S (length ks) /\ Forall (fun g => forallb is_ws g = true) gaps /\ SeparatedOK (show_ls ks) gaps.
Proof.
  unfold gaps_ok. induction ks as [|k ks IH]; intros gaps Hv H.
  - destruct gaps as [|g [|g2 gaps]]; try discriminate H. cbn [gaps_okb] in H.
    split; [reflexivity|]. split; [now repeat constructor | exact I].
  - destruct gaps as [|g gaps]; [discriminate H|]. cbn [gaps_okb] in H.
    apply andb_true_iff in H as [H H3]. apply andb_true_iff in H as [H1 H2].
    cbn [forallb] in Hv. apply andb_true_iff in Hv as [Hk Hks].
    destruct (IH gaps Hks H3) as [Hl [Hw Hsep]].
    split; [cbn [length]; now rewrite Hl|]. split; [now constructor|].
    cbn [show_ls map SeparatedOK fst snd]. split; [|exact Hsep].
    destruct gaps as [|g2 gaps]; [discriminate H2|]. cbn [sep_okb] in H2.
    destruct g2 as [|c g2].
    + cbn [follow]. destruct ks as [|k' ks]; [apply delimited_nil|]. cbn [map snd].
      cbn [forallb] in Hks. apply andb_true_iff in Hks as [Hk' _].
      apply negb_true_iff in H2. unfold needs_sep in H2.
      rewrite (spell_total k Hk), (spell_total k' Hk') in H2. apply negb_false_iff in H2.
      apply delimited_show; [exact Hk | exact Hk' | now apply delimitedb_sound].
    + cbn [follow]. inversion Hw as [|? ? Hg2 _]; subst. cbn [forallb] in Hg2.
      apply andb_true_iff in Hg2 as [Hc _]. apply delimited_ws; [exact Hc | apply show_closed; exact Hk].
Qed.

Theorem show_layout_lexes ks gaps :
  forallb valid_kind ks = true -> gaps_ok ks gaps ->
  exists toks, lex (weave gaps (map sh ks)) = Some toks /\ map tk toks = map canon ks ++ [Eof] /\
               Forall (fun x => terr x = []) toks.
Proof.
  intros Hv Hg. destruct (show_separated ks gaps Hv Hg) as [Hl [Hw Hsep]].
  assert (Hl' : length gaps = S (length (show_ls ks))) by (unfold show_ls; now rewrite map_length).
  exists (place 0 gaps (show_ls ks)). split; [|split].
  - rewrite <- show_ls_snd. apply conformance_place; try assumption. now apply show_ls_lexemes.
  - rewrite (place_kinds (show_ls ks) gaps 0 Hl'), show_ls_fst. reflexivity.
  - apply place_no_errors.
Qed.

Lemma map_canon_nice ks : forallb nice ks = true -> map canon ks = ks.
Proof.
  induction ks as [|k ks IH]; [reflexivity|]. cbn [forallb map]. intros H. apply andb_true_iff in H. destruct H as [Hk H].
  rewrite (canon_nice k Hk), (IH H). reflexivity.
Qed.

(* ================================================================================================
   4. indent
   ================================================================================================ *)
(* the unit is inserted after every line feed *)
Definition ins_after (u s : text) : text := flat_map (fun c : char => if c =? 10 then @cons char 10 u else [c]) s.

Lemma ins_after_app u a b : ins_after u (a ++ b) = ins_after u a ++ ins_after u b.
Proof. unfold ins_after. apply flat_map_app. Qed.

Lemma ins_after_cons u c s : ins_after u (c :: s) = (if c =? 10 then @cons char 10 u else [c]) ++ ins_after u s.
Proof. reflexivity. Qed.

Lemma ins_after_plain u s : forallb plain_char s = true -> ins_after u s = s.
Proof.
  induction s as [|c s IH]; [reflexivity|]. cbn [forallb]. intros H. apply andb_true_iff in H. destruct H as [Hc Hs].
  rewrite ins_after_cons. unfold plain_char in Hc. apply negb_true_iff in Hc. rewrite Hc. cbn [app].
  f_equal. apply IH. exact Hs.
Qed.

Lemma ins_after_gap u g : forallb gapc u = true -> forallb gapc g = true -> forallb gapc (ins_after u g) = true.
Proof.
  intros Hu. induction g as [|c g IH]; [reflexivity|]. cbn [forallb]. intros H. apply andb_true_iff in H. destruct H as [Hc Hg].
  rewrite ins_after_cons, forallb_app. apply andb_true_iff. split; [|exact (IH Hg)].
  destruct (c =? 10); cbn [forallb]; [exact Hu | rewrite Hc; reflexivity].
Qed.

Lemma ins_after_nil u g : is_nil (ins_after u g) = is_nil g.
Proof. destruct g as [|c g]; [reflexivity|]. rewrite ins_after_cons. destruct (c =? 10); reflexivity. Qed.

Lemma ins_after_starts u g : starts_nl (ins_after u g) = starts_nl g.
Proof.
  destruct g as [|c g]; [reflexivity|]. rewrite ins_after_cons. cbn [starts_nl].
  destruct (c =? 10) eqn:E; cbn [app starts_nl]; [reflexivity | exact E].
Qed.

Lemma iw_ins u ks : forallb gapc u = true -> forall gs, forallb valid_kind ks = true -> inner_ok ks gs = true ->
  ins_after u (iw ks gs) = iw ks (map (ins_after u) gs) /\ inner_ok ks (map (ins_after u) gs) = true.
Proof.
  intros Hu. induction ks as [|k ks IH]; intros gs Hn H; [discriminate H|].
  cbn [forallb] in Hn. apply andb_true_iff in Hn. destruct Hn as [Hk Hn].
  destruct ks as [|k' ks].
  - destruct gs; [|discriminate H]. cbn [iw map inner_ok]. split; [|reflexivity].
    apply ins_after_plain. apply shc_plain. exact Hk.
  - destruct gs as [|g gs]; [discriminate H|]. cbn [inner_ok] in H. apply andb_true_iff in H. destruct H as [Hs H].
    destruct (IH gs Hn H) as [E1 E2]. cbn [map]. split.
    + change (iw (k :: k' :: ks) (g :: gs)) with (shc k ++ g ++ iw (k' :: ks) gs).
      change (iw (k :: k' :: ks) (ins_after u g :: map (ins_after u) gs)) with (shc k ++ ins_after u g ++ iw (k' :: ks) (map (ins_after u) gs)).
      rewrite !ins_after_app, E1. rewrite (ins_after_plain u (shc k)) by (apply shc_plain; exact Hk). reflexivity.
    + change (inner_ok (k :: k' :: ks) (ins_after u g :: map (ins_after u) gs))
        with (sepok k k' (ins_after u g) && inner_ok (k' :: ks) (map (ins_after u) gs)).
      apply andb_true_iff. split; [|exact E2]. unfold sepok in *. apply andb_true_iff in Hs. destruct Hs as [Hg Hs].
      apply andb_true_iff. split; [exact (ins_after_gap u g Hu Hg)|]. rewrite ins_after_nil, ins_after_starts. exact Hs.
Qed.

Lemma Wv_ins u ks t : forallb gapc u = true -> Wv ks t -> Wv ks (ins_after u t).
Proof.
  intros Hu (gs & -> & H & Hn & L). destruct (iw_ins u ks Hu gs Hn H) as [E1 E2].
  exists (map (ins_after u) gs). repeat split; assumption.
Qed.

Section IndentWv.
Variable f : fopts.
Hypothesis sym_ok : ind_sym f = 32 \/ ind_sym f = 9.

Notation unit := (indentation f).

Lemma unit_gap : forallb gapc unit = true.
Proof.
  unfold indentation. induction (ind_depth f) as [|n IH]; [reflexivity|]. cbn [repeat forallb]. rewrite IH.
  destruct sym_ok as [-> | ->]; reflexivity.
Qed.

Lemma sym_not_nl : ind_sym f <> 10.
Proof. destruct sym_ok as [-> | ->]; discriminate. Qed.
Lemma sym_not_cr : ind_sym f <> 13.
Proof. destruct sym_ok as [-> | ->]; discriminate. Qed.

Lemma indent_nil : indent [] f = [].
Proof. reflexivity. Qed.

Lemma indent_line l rest : no_nl l -> indent (l ++ 10 :: rest) f = unit ++ strip_cr l ++ [10] ++ indent rest f.
Proof.
  intros H. unfold indent.
  transitivity (flat_map (fun line => unit ++ line ++ [10]) ([strip_cr l] ++ lines rest)).
  - f_equal. etransitivity; [apply lines_app_nl|]. f_equal. apply lines_single. exact H.
  - cbn [app flat_map]. rewrite <- !app_assoc. reflexivity.
Qed.

Lemma indent_last l : no_nl l -> l <> [] -> indent l f = unit ++ l ++ [10].
Proof.
  intros H Hne. unfold indent, lines. rewrite (split_incl_last l H Hne). cbn [map flat_map].
  rewrite (strip_line_no_nl l H), app_nil_r. reflexivity.
Qed.

Lemma strip_cr_keep l : last l 0 <> 13 -> strip_cr l = l.
Proof.
  destruct l as [|x l'] using rev_ind; [reflexivity|]. rewrite last_app_single. intros H.
  unfold strip_cr. rewrite rev_app_distr. cbn [rev app]. apply N.eqb_neq in H. rewrite H. reflexivity.
Qed.

(* the text [rest] stands behind the line fragment [l] that contains no line feed and does not end with CR;
   [tail] is what follows the woven text: nothing, or the line feed that ends its last line *)
Section Tail.
Variable tail : text.
Hypothesis tail_cases : tail = [] \/ tail = [10].

Definition ind_goal (l rest : text) : Prop := indent (l ++ rest ++ tail) f = unit ++ l ++ ins_after unit rest ++ [10].

Lemma indent_gap g : forall l rest, no_nl l -> last l 0 <> 13 -> forallb gapc g = true ->
  (forall l', no_nl l' -> last l' 0 <> 13 -> ind_goal l' rest) -> ind_goal l (g ++ rest).
Proof.
  induction g as [|c g IH]; intros l rest Hl Hc Hg Hrest; [apply Hrest; assumption|].
  cbn [forallb] in Hg. apply andb_true_iff in Hg. destruct Hg as [Hcg Hg]. unfold ind_goal.
  destruct (N.eqb_spec c 10) as [->|Hne].
  - cbn [app]. rewrite (indent_line l _ Hl), (strip_cr_keep l Hc).
    pose proof (IH [] rest ltac:(intros []) ltac:(discriminate) Hg Hrest) as E. unfold ind_goal in E. cbn [app] in E.
    rewrite E. rewrite (ins_after_cons unit 10). cbn [N.eqb Pos.eqb].
    rewrite <- !app_assoc. reflexivity.
  - assert (Hc' : c = 32 \/ c = 9).
    { unfold gapc in Hcg. rewrite !orb_true_iff, !N.eqb_eq in Hcg. tauto. }
    assert (Hl' : no_nl (l ++ [c])) by (apply no_nl_app; [exact Hl | intros [E|[]]; congruence]).
    assert (Hcc : last (l ++ [c]) 0 <> 13) by (rewrite last_app_single; destruct Hc' as [-> | ->]; discriminate).
    pose proof (IH (l ++ [c]) rest Hl' Hcc Hg Hrest) as E. unfold ind_goal in E.
    rewrite <- app_assoc in E. cbn [app] in E. cbn [app]. rewrite E.
    rewrite (ins_after_cons unit c). apply N.eqb_neq in Hne. rewrite Hne.
    rewrite <- !app_assoc. reflexivity.
Qed.

Lemma indent_iw ks : forall gs, forallb valid_kind ks = true -> inner_ok ks gs = true ->
  forall l, no_nl l -> ind_goal l (iw ks gs).
Proof.
  induction ks as [|k ks IH]; intros gs Hn H l Hl; [discriminate H|].
  cbn [forallb] in Hn. apply andb_true_iff in Hn. destruct Hn as [Hk Hn].
  destruct (shc_plain k Hk) as [Hp Hcr]. pose proof (shc_nonempty k Hk) as Hne.
  assert (Hlk : no_nl (l ++ shc k)) by (apply no_nl_app; [exact Hl | apply plain_no_nl; exact Hp]).
  destruct ks as [|k' ks].
  - destruct gs; [|discriminate H]. cbn [iw]. unfold ind_goal. rewrite (ins_after_plain _ _ Hp).
    destruct tail_cases as [-> | ->].
    + rewrite app_nil_r. rewrite indent_last; [rewrite <- !app_assoc; reflexivity | exact Hlk |].
      destruct l; [exact Hne | discriminate].
    + rewrite app_assoc. rewrite (indent_line (l ++ shc k) [] Hlk). change (indent [] f) with (@nil char). rewrite strip_cr_keep.
      * rewrite <- !app_assoc. reflexivity.
      * rewrite last_app_ne by exact Hne. exact Hcr.
  - destruct gs as [|g gs]; [discriminate H|]. cbn [inner_ok] in H. apply andb_true_iff in H. destruct H as [Hs H].
    unfold sepok in Hs. apply andb_true_iff in Hs. destruct Hs as [Hg _].
    change (iw (k :: k' :: ks) (g :: gs)) with (shc k ++ g ++ iw (k' :: ks) gs).
    assert (G : ind_goal (l ++ shc k) (g ++ iw (k' :: ks) gs)).
    { apply indent_gap.
      - exact Hlk.
      - rewrite last_app_ne by exact Hne. exact Hcr.
      - exact Hg.
      - intros l' Hl' _. apply IH; assumption. }
    unfold ind_goal in *. rewrite <- !app_assoc in G. rewrite <- !app_assoc. rewrite G.
    rewrite (ins_after_app _ (shc k)), (ins_after_plain _ _ Hp), <- !app_assoc. reflexivity.
Qed.
End Tail.

(* [indent] of a woven text, with or without a final line feed *)
Theorem indent_Wv ks t : Wv ks t -> indent t f = unit ++ ins_after unit t ++ [10].
Proof.
  intros (gs & -> & H & Hn & _).
  pose proof (indent_iw [] (or_introl eq_refl) ks gs Hn H [] ltac:(intros [])) as E.
  unfold ind_goal in E. cbn [app] in E. rewrite app_nil_r in E. exact E.
Qed.

Theorem indent_Wv_nl ks t : Wv ks t -> indent (t ++ [10]) f = unit ++ ins_after unit t ++ [10].
Proof.
  intros (gs & -> & H & Hn & _).
  pose proof (indent_iw [10] (or_intror eq_refl) ks gs Hn H [] ltac:(intros [])) as E.
  unfold ind_goal in E. cbn [app] in E. exact E.
Qed.

Lemma Wv_unit ks t : Wv ks t -> Wv ks (ins_after unit t).
Proof. apply Wv_ins. exact unit_gap. Qed.

End IndentWv.
