(* C11: idempotence of formatting for programs with comments in leading position.
   The second run sees other comment tokens (text " " + trimmed text) and a tree with other doc fields; the printers
   read of a token only what Display prints for it and whether it is a comment / a literal, and never read a doc field. *)
From Coq Require Import String Lia PeanoNat.
From Spl Require Import Model.Format Model.Lexer Spec.Grammar Proofs.LexerProofs Proofs.RenderProofs Proofs.PipelineText
  Proofs.FormatProofs Proofs.FormatStructText Proofs.FormatStructTok Proofs.FormatStructExpr Proofs.FormatStructStmt
  Proofs.FormatStructProg.
From Spl Require Proofs.GrammarExpr Proofs.GrammarStmt Proofs.GrammarProg.
Import ListNotations.
Local Open Scope nat_scope.

(* ================================================================================================
   1. The printers read of a token: its printed form, whether it is a comment, whether it is a literal
   ================================================================================================ *)
Definition tok_eq (a b : token) : Prop :=
  show_tok a = show_tok b /\ is_comment_tok a = is_comment_tok b /\ is_lit_tok a = is_lit_tok b.
Definition same_show (a b : list token) : Prop := Forall2 tok_eq a b.

Lemma same_show_length a b : same_show a b -> length a = length b.
Proof. induction 1 as [|x y a b _ _ IH]; [reflexivity|]. cbn [length]. rewrite IH. reflexivity. Qed.

Lemma same_show_skipn n : forall a b, same_show a b -> same_show (skipn n a) (skipn n b).
Proof.
  induction n as [|n IH]; intros a b H; [exact H|]. destruct H as [|x y a b _ H]; [constructor|]. cbn [skipn]. apply IH. exact H.
Qed.

Lemma same_show_firstn n : forall a b, same_show a b -> same_show (firstn n a) (firstn n b).
Proof.
  induction n as [|n IH]; intros a b H; [constructor|]. destruct H as [|x y a b Hxy H]; [constructor|].
  cbn [firstn]. constructor; [exact Hxy | apply IH; exact H].
Qed.

Lemma with_from_show a b off F G :
  same_show a b -> (forall x y, same_show x y -> F x = G y) -> with_from off a F = with_from off b G.
Proof.
  intros H HFG. unfold with_from, slice_from. rewrite (same_show_length _ _ H).
  destruct (Nat.leb off (length b)); [|reflexivity]. apply HFG. apply same_show_skipn. exact H.
Qed.

Lemma with_slice_show a b i F G :
  same_show a b -> (forall x y, same_show x y -> F x = G y) -> with_slice i a F = with_slice i b G.
Proof.
  intros H HFG. unfold with_slice, slice. rewrite (same_show_length _ _ H).
  destruct (Nat.leb (i_s i) (i_e i) && Nat.leb (i_e i) (length b)); [|reflexivity].
  apply HFG. apply same_show_firstn. apply same_show_skipn. exact H.
Qed.

Lemma leading_comment_show a b : same_show a b -> leading_comment_text a = leading_comment_text b.
Proof.
  induction 1 as [|x y a b (Hs & Hc & _) _ IH]; [reflexivity|]. cbn [leading_comment_text]. rewrite Hc, Hs, IH. reflexivity.
Qed.

Lemma all_comment_show a b : same_show a b -> all_comment_text a = all_comment_text b.
Proof.
  unfold all_comment_text. induction 1 as [|x y a b (Hs & Hc & _) _ IH]; [reflexivity|]. cbn [filter]. rewrite Hc.
  destruct (is_comment_tok y); [|exact IH]. cbn [flat_map]. rewrite Hs, IH. reflexivity.
Qed.

Lemma show_toks_show a b : same_show a b -> map show_tok a = map show_tok b.
Proof. induction 1 as [|x y a b (Hs & _) _ IH]; [reflexivity|]. cbn [map]. rewrite Hs, IH. reflexivity. Qed.

Lemma fmt_info_show i a b : same_show a b -> fmt_info i a = fmt_info i b.
Proof.
  intros H. unfold fmt_info. apply with_slice_show; [exact H|]. intros x y Hxy.
  rewrite (show_toks_show _ _ Hxy). reflexivity.
Qed.

Lemma fmt_intlit_show i a b : same_show a b -> fmt_intlit i a = fmt_intlit i b.
Proof.
  intros H. unfold fmt_intlit. apply with_slice_show; [exact H|]. intros x y Hxy.
  induction Hxy as [|u v x y (Hs & _ & Hl) _ IH]; [reflexivity|]. cbn [find]. rewrite Hl.
  destruct (is_lit_tok v); [rewrite Hs; reflexivity | exact IH].
Qed.



Lemma fmt_var_show : forall v a b, same_show a b -> fmt_var v a = fmt_var v b
with fmt_expr_show : forall e a b, same_show a b -> fmt_expr e a = fmt_expr e b.
Proof.
  - intros [i|arr idx inf] a b H; cbn [fmt_var]; [reflexivity|].
    rewrite (fmt_var_show arr a b H).
    apply fbind_ext; [|reflexivity].
    destruct idx as [[e off]|]; [|reflexivity].
    apply with_from_show; [exact H|]. intros x y Hxy. apply fmt_expr_show. exact Hxy.
  - intros [op l r inf|x inf|i|op x inf|v|inf] a b H; cbn [fmt_expr].
    + rewrite (fmt_expr_show l a b H), (fmt_expr_show r a b H). reflexivity.
    + rewrite (fmt_expr_show x a b H). reflexivity.
    + apply fmt_intlit_show. exact H.
    + rewrite (fmt_expr_show x a b H). reflexivity.
    + apply fmt_var_show. exact H.
    + apply fmt_info_show. exact H.
Qed.

Lemma fmt_ref_expr_show o a b : same_show a b -> fmt_ref_expr o a = fmt_ref_expr o b.
Proof.
  intros H. destruct o as [[e off]|]; [|reflexivity]. cbn [fmt_ref_expr].
  apply with_from_show; [exact H|]. intros x y Hxy. apply fmt_expr_show. exact Hxy.
Qed.

Lemma fmt_texpr_show : forall t a b, same_show a b -> fmt_texpr t a = fmt_texpr t b.
Proof.
  fix IH 1. intros [i|size base inf] a b H; cbn [fmt_texpr]; [reflexivity|].
  assert (Hs : match size with None => FOk [] | Some i => fmt_intlit i a end =
               match size with None => FOk [] | Some i => fmt_intlit i b end)
    by (destruct size; [apply fmt_intlit_show; exact H | reflexivity]).
  rewrite Hs. apply fbind_ext; [reflexivity|]. intros sz. destruct base as [[bt off]|]; [|reflexivity].
  apply fbind_ext; [|reflexivity].
  apply with_from_show; [exact H|]. intros x y Hxy. apply IH. exact Hxy.
Qed.

Lemma fmt_ref_texpr_show o a b : same_show a b -> fmt_ref_texpr o a = fmt_ref_texpr o b.
Proof.
  intros H. destruct o as [[e off]|]; [|reflexivity]. cbn [fmt_ref_texpr].
  apply with_from_show; [exact H|]. intros x y Hxy. apply fmt_texpr_show. exact Hxy.
Qed.





Section ShowStmt.
Variable f : fopts.

Definition show_ok (s : stmt) : Prop :=
  (forall a b, same_show a b -> fmt_stmt f s a = fmt_stmt f s b) /\
  (forall body i, s = SBlock body i -> forall a b, same_show a b -> fmt_stmts f body a = fmt_stmts f body b).

Lemma fmt_stmts_show l a b :
  (forall x off, In (x, off) l -> show_ok x) -> same_show a b -> fmt_stmts f l a = fmt_stmts f l b.
Proof.
  intros IH H. unfold fmt_stmts. apply fconcat_ext. intros [x off] Hin. cbn [fst snd].
  apply with_from_show; [exact H|]. intros u v Huv. apply (IH x off Hin). exact Huv.
Qed.

Lemma fmt_branch_show br a b ending :
  (forall x off, br = Some (x, off) -> show_ok x) ->
  same_show a b -> fmt_branch f br a ending = fmt_branch f br b ending.
Proof.
  intros IH H. destruct br as [[x off]|]; [|reflexivity]. cbn [fmt_branch].
  apply with_from_show; [exact H|]. intros u v Huv.
  destruct (IH x off eq_refl) as [IH1 IH2].
  destruct x as [i|v0 e i|n a0 i|c t e i|c b1 i|body i|i]; try (rewrite (IH1 u v Huv); reflexivity).
  destruct body as [|b0 body']; [reflexivity|].
  rewrite (IH2 _ _ eq_refl u v Huv). reflexivity.
Qed.

Lemma fmt_stmt_show : forall s, show_ok s.
Proof.
  induction s as [inf|v e inf|n a inf|c t e inf IHt IHe|c b inf IHb|body inf IHbody|inf] using stmt_ind';
    (split; [|intros body' i' E; try discriminate E]); intros x y H.
  - cbn [fmt_stmt]. apply with_slice_show; [exact H|]. intros u v Huv.
    unfold add_all_comments. rewrite (all_comment_show _ _ Huv). reflexivity.
  - cbn [fmt_stmt]. unfold fmt_assign_body.
    rewrite (fmt_ref_expr_show e x y H), (fmt_var_show v x y H).
    apply fbind_ext; [reflexivity|]. intros body. apply with_slice_show; [exact H|]. intros u w Huw.
    unfold add_all_comments. rewrite (all_comment_show _ _ Huw). reflexivity.
  - cbn [fmt_stmt]. unfold fmt_call_body.
    apply fbind_ext.
    + apply fmap_ext. intros [ex off] _. cbn [fst snd]. apply with_from_show; [exact H|].
      intros u w Huw. apply fmt_expr_show. exact Huw.
    + intros body. apply with_slice_show; [exact H|]. intros u w Huw.
      unfold add_all_comments. rewrite (all_comment_show _ _ Huw). reflexivity.
  - rewrite !fmt_stmt_if. rewrite (fmt_ref_expr_show c x y H).
    apply fbind_ext; [reflexivity|]. intros cond.
    apply fbind_ext.
    + destruct e as [[z off]|].
      * destruct z as [i|v0 e0 i|n0 a0 i|c0 t0 e0 i|c0 b1 i|body0 i|i];
          rewrite (fmt_branch_show t x y _ IHt H);
          try (rewrite (fmt_branch_show _ x y _ IHe H); reflexivity).
        apply fbind_ext; [reflexivity|]. intros b0.
        apply fbind_ext; [|reflexivity].
        apply with_from_show; [exact H|]. intros u w Huw. apply (IHe _ _ eq_refl). exact Huw.
      * rewrite (fmt_branch_show t x y _ IHt H). reflexivity.
    + intros st. apply with_slice_show; [exact H|]. intros u w Huw.
      unfold add_leading_comments. rewrite (leading_comment_show _ _ Huw). reflexivity.
  - rewrite !fmt_stmt_while. rewrite (fmt_ref_expr_show c x y H).
    apply fbind_ext; [reflexivity|]. intros cond.
    rewrite (fmt_branch_show b x y _ IHb H).
    apply fbind_ext; [reflexivity|]. intros br. apply with_slice_show; [exact H|]. intros u w Huw.
    unfold add_leading_comments. rewrite (leading_comment_show _ _ Huw). reflexivity.
  - rewrite !fmt_stmt_block. apply fbind_ext.
    + destruct body as [|b0 body']; [reflexivity|].
      rewrite (fmt_stmts_show _ x y IHbody H). reflexivity.
    + intros st. apply with_slice_show; [exact H|]. intros u w Huw.
      unfold add_leading_comments. rewrite (leading_comment_show _ _ Huw). reflexivity.
  - injection E as <- <-. apply fmt_stmts_show; [exact IHbody | exact H].
  - cbn [fmt_stmt]. rewrite (fmt_info_show inf x y H). reflexivity.
Qed.

Lemma fmt_vardecl_show v a b : same_show a b -> fmt_vardecl v a = fmt_vardecl v b.
Proof.
  intros H. destruct v as [doc name ty inf|inf]; cbn [fmt_vardecl].
  - rewrite (fmt_ref_texpr_show ty a b H). reflexivity.
  - apply fmt_info_show. exact H.
Qed.

Lemma fmt_paramdecl_show v a b : same_show a b -> fmt_paramdecl v a = fmt_paramdecl v b.
Proof.
  intros H. destruct v as [doc r name ty inf|inf]; cbn [fmt_paramdecl].
  - rewrite (fmt_ref_texpr_show ty a b H). reflexivity.
  - apply fmt_info_show. exact H.
Qed.

Lemma fmt_gdecl_show g a b : same_show a b -> fmt_gdecl f g a = fmt_gdecl f g b.
Proof.
  intros H. destruct g as [d|d|inf]; cbn [fmt_gdecl].
  - unfold fmt_typedecl. rewrite (fmt_ref_texpr_show (td_ty d) a b H).
    apply fbind_ext; [reflexivity|]. intros t. apply with_slice_show; [exact H|]. intros u w Huw.
    unfold add_leading_comments. rewrite (leading_comment_show _ _ Huw). reflexivity.
  - unfold fmt_procdecl.
    apply fbind_ext.
    { unfold fmt_params. apply fmap_ext. intros [p off] _. cbn [fst snd].
      apply with_from_show; [exact H|]. intros u w Huw. rewrite (fmt_paramdecl_show p u w Huw).
      apply fbind_ext; [reflexivity|]. intros body. apply with_slice_show; [exact Huw|]. intros u' w' Huw'.
      unfold add_all_comments. rewrite (all_comment_show _ _ Huw'). reflexivity. }
    intros params. apply fbind_ext.
    { unfold fmt_vardecls. apply fconcat_ext. intros [v off] _. cbn [fst snd].
      apply with_from_show; [exact H|]. intros u w Huw. rewrite (fmt_vardecl_show v u w Huw).
      apply fbind_ext; [reflexivity|]. intros body. apply with_slice_show; [exact Huw|]. intros u' w' Huw'.
      unfold add_all_comments. rewrite (all_comment_show _ _ Huw'). reflexivity. }
    intros vd0. apply fbind_ext.
    { apply fmt_stmts_show; [|exact H]. intros x off _. apply fmt_stmt_show. }
    intros st0. apply with_slice_show; [exact H|]. intros u w Huw.
    unfold add_leading_comments. rewrite (leading_comment_show _ _ Huw). reflexivity.
  - apply fmt_info_show. exact H.
Qed.

(* the whole printer: same printed forms, same text *)
Theorem fmt_program_show p a b : same_show a b -> fmt_program f p a = fmt_program f p b.
Proof.
  intros H. unfold fmt_program. apply fmap_ext. intros [g off] _. cbn [fst snd].
  apply with_from_show; [exact H|]. intros u w Huw. apply fmt_gdecl_show. exact Huw.
Qed.

End ShowStmt.

(* ================================================================================================
   2. The printers never read a doc field
   ================================================================================================ *)
Definition nodoc_param (p : paramdecl) : paramdecl :=
  match p with PValid _ r n t i => PValid [] r n t i | PError i => PError i end.
Definition nodoc_var (v : vardecl) : vardecl :=
  match v with VValid _ n t i => VValid [] n t i | VError i => VError i end.
Definition nodoc_gdecl (g : gdecl) : gdecl :=
  match g with
  | GType d => GType {| td_doc := []; td_name := td_name d; td_ty := td_ty d; td_info := td_info d |}
  | GProc d => GProc {| pd_doc := []; pd_name := pd_name d;
                        pd_params := map (fun p : paramdecl * nat => (nodoc_param (fst p), snd p)) (pd_params d);
                        pd_vars := map (fun v : vardecl * nat => (nodoc_var (fst v), snd v)) (pd_vars d);
                        pd_stmts := pd_stmts d; pd_info := pd_info d |}
  | GError i => GError i
  end.
Definition nodoc (p : program) : program :=
  {| pg_decls := map (fun g : gdecl * nat => (nodoc_gdecl (fst g), snd g)) (pg_decls p); pg_info := pg_info p |}.

Lemma fmap_map {A B} (g : B -> fres) (h : A -> B) l : forall k, fmap g (map h l) k = fmap (fun x => g (h x)) l k.
Proof. induction l as [|x r IH]; intros k; [reflexivity|]. cbn [map fmap]. apply fbind_ext; [reflexivity|]. intros a. apply IH. Qed.

Lemma fconcat_map {A B} (g : B -> fres) (h : A -> B) l : fconcat g (map h l) = fconcat (fun x => g (h x)) l.
Proof. induction l as [|x r IH]; [reflexivity|]. cbn [map fconcat]. rewrite IH. reflexivity. Qed.

Lemma fmt_gdecl_nodoc f g toks : fmt_gdecl f (nodoc_gdecl g) toks = fmt_gdecl f g toks.
Proof.
  destruct g as [d|d|i]; [reflexivity| |reflexivity]. cbn [nodoc_gdecl fmt_gdecl]. unfold fmt_procdecl.
  cbn [pd_name pd_params pd_vars pd_stmts pd_info].
  apply fbind_ext.
  { unfold fmt_params. rewrite fmap_map. apply fmap_ext. intros [p off] _. cbn [fst snd]. destruct p; reflexivity. }
  intros params. apply fbind_ext; [|reflexivity].
  unfold fmt_vardecls. rewrite fconcat_map. apply fconcat_ext. intros [v off] _. cbn [fst snd]. destruct v; reflexivity.
Qed.

Lemma fmt_program_nodoc f p toks : fmt_program f (nodoc p) toks = fmt_program f p toks.
Proof.
  unfold fmt_program, nodoc. cbn [pg_decls]. rewrite fmap_map. apply fmap_ext. intros [g off] _. cbn [fst snd].
  unfold with_from. destruct (slice_from off toks); [apply fmt_gdecl_nodoc | reflexivity].
Qed.

(* ================================================================================================
   3. The program the formatted text is a layout of: every comment text s replaced by " " + trim s
   ================================================================================================ *)
Definition ct (s : text) : text := 32%N :: trim s.
Definition ccs (c : cs) : cs := map ct c.

Fixpoint c_var (v : avar) : avar :=
  match v with
  | AName c x => AName (ccs c) x
  | AIndex v' c1 e c2 => AIndex (c_var v') (ccs c1) (c_cmp e) (ccs c2)
  end
with c_fac (f : afac) : afac :=
  match f with
  | FLit c l => FLit (ccs c) l
  | FVar v => FVar (c_var v)
  | FNeg c f' => FNeg (ccs c) (c_fac f')
  | FPar c1 e c2 => FPar (ccs c1) (c_cmp e) (ccs c2)
  end
with c_mul (m : amul) : amul :=
  match m with MFac f => MFac (c_fac f) | MBin m' c op f => MBin (c_mul m') (ccs c) op (c_fac f) end
with c_add (a : aadd) : aadd :=
  match a with AMul m => AMul (c_mul m) | ABin a' c op m => ABin (c_add a') (ccs c) op (c_mul m) end
with c_cmp (e : acmp) : acmp :=
  match e with CAdd a => CAdd (c_add a) | CBin l c op r => CBin (c_add l) (ccs c) op (c_add r) end.

Fixpoint c_type (t : atype) : atype :=
  match t with
  | TName c x => TName (ccs c) x
  | TArr ca cl cz size cr co base => TArr (ccs ca) (ccs cl) (ccs cz) size (ccs cr) (ccs co) (c_type base)
  end.

Definition c_tail {A} (cf : A -> A) (l : list (cs * A)) : list (cs * A) := map (fun ca => (ccs (fst ca), cf (snd ca))) l.
Definition c_sep {A} (cf : A -> A) (o : option (A * list (cs * A))) : option (A * list (cs * A)) :=
  match o with None => None | Some (a, l) => Some (cf a, c_tail cf l) end.

Fixpoint c_stmt (s : astmt) : astmt :=
  match s with
  | SEmp c => SEmp (ccs c)
  | SAsg v c1 e c2 => SAsg (c_var v) (ccs c1) (c_cmp e) (ccs c2)
  | SCal c1 fn c2 a c3 c4 => SCal (ccs c1) fn (ccs c2) (c_sep c_cmp a) (ccs c3) (ccs c4)
  | SIfT c1 c2 e c3 t => SIfT (ccs c1) (ccs c2) (c_cmp e) (ccs c3) (c_stmt t)
  | SIfE c1 c2 e c3 t c4 s' => SIfE (ccs c1) (ccs c2) (c_cmp e) (ccs c3) (c_stmt t) (ccs c4) (c_stmt s')
  | SWhl c1 c2 e c3 b => SWhl (ccs c1) (ccs c2) (c_cmp e) (ccs c3) (c_stmt b)
  | SBlk c1 b c2 => SBlk (ccs c1) (c_stmts b) (ccs c2)
  end
with c_stmts (b : astmts) : astmts :=
  match b with SNil => SNil | SCons s r => SCons (c_stmt s) (c_stmts r) end.

Definition c_param (p : aparam) : aparam :=
  match p with
  | PVal c x cc t => PVal (ccs c) x (ccs cc) (c_type t)
  | PRef cr c x cc t => PRef (ccs cr) (ccs c) x (ccs cc) (c_type t)
  end.
Definition c_vardecl (v : avardecl) : avardecl :=
  {| v_c1 := ccs (v_c1 v); v_c2 := ccs (v_c2 v); v_x := v_x v; v_c3 := ccs (v_c3 v); v_t := c_type (v_t v); v_c4 := ccs (v_c4 v) |}.
Definition c_decl (d : adecl) : adecl :=
  match d with
  | DType c1 c2 x c3 t c4 => DType (ccs c1) (ccs c2) x (ccs c3) (c_type t) (ccs c4)
  | DProc c1 c2 x c3 ps c4 c5 vs b c6 =>
      DProc (ccs c1) (ccs c2) x (ccs c3) (c_sep c_param ps) (ccs c4) (ccs c5) (map c_vardecl vs) (c_stmts b) (ccs c6)
  end.
Definition c_prog (p : aprog) : aprog := {| a_decls := map c_decl (a_decls p); a_ceof := ccs (a_ceof p) |}.

(* ---- its tokens are the canonical kinds of the program's tokens ---- *)
Lemma cm_ccs c : cm (ccs c) = map canon (cm c).
Proof. unfold cm, ccs. rewrite !map_map. reflexivity. Qed.

Lemma canon_lit l : canon (k_lit l) = k_lit l.
Proof. destruct l; reflexivity. Qed.
Lemma canon_mul op : canon (k_mul op) = k_mul op.
Proof. destruct op; reflexivity. Qed.
Lemma canon_add op : canon (k_add op) = k_add op.
Proof. destruct op; reflexivity. Qed.
Lemma canon_cmp op : canon (k_cmp op) = k_cmp op.
Proof. destruct op; reflexivity. Qed.

Ltac canon_norm :=
  repeat (rewrite map_app || cbn [map]); cbn [canon]; rewrite ?canon_lit, ?canon_mul, ?canon_add, ?canon_cmp, ?cm_ccs.

Lemma fl_expr_canon :
  (forall v, fl_var (c_var v) = map canon (fl_var v)) /\ (forall f, fl_fac (c_fac f) = map canon (fl_fac f)) /\
  (forall m, fl_mul (c_mul m) = map canon (fl_mul m)) /\ (forall a, fl_add (c_add a) = map canon (fl_add a)) /\
  (forall e, fl_cmp (c_cmp e) = map canon (fl_cmp e)).
Proof.
  apply GrammarExpr.aexpr_mutind; intros; cbn [c_var c_fac c_mul c_add c_cmp fl_var fl_fac fl_mul fl_add fl_cmp]; canon_norm;
    repeat match goal with H : _ = map canon _ |- _ => rewrite H; clear H end; reflexivity.
Qed.

Lemma fl_type_canon t : fl_type (c_type t) = map canon (fl_type t).
Proof. induction t as [c x|ca cl cz size cr co base IH]; cbn [c_type fl_type]; canon_norm; rewrite ?IH; reflexivity. Qed.

Lemma fl_tail_canon {A} (fl : A -> list kind) (cf : A -> A) l :
  (forall a, fl (cf a) = map canon (fl a)) -> fl_tail fl (c_tail cf l) = map canon (fl_tail fl l).
Proof.
  intros H. induction l as [|[c a] r IH]; [reflexivity|]. unfold c_tail in *. cbn [map fst snd]. rewrite !fl_tail_cons, IH.
  canon_norm. rewrite H. reflexivity.
Qed.

Lemma fl_sep_canon {A} (fl : A -> list kind) (cf : A -> A) o :
  (forall a, fl (cf a) = map canon (fl a)) -> fl_sep fl (c_sep cf o) = map canon (fl_sep fl o).
Proof.
  intros H. destruct o as [[a l]|]; [|reflexivity]. cbn [c_sep fl_sep]. rewrite (fl_tail_canon fl cf l H), H, map_app. reflexivity.
Qed.

Lemma fl_stmt_canon :
  (forall s, fl_stmt (c_stmt s) = map canon (fl_stmt s)) /\ (forall b, fl_stmts (c_stmts b) = map canon (fl_stmts b)).
Proof.
  apply GrammarStmt.astmt_mutind; intros; cbn [c_stmt c_stmts fl_stmt fl_stmts]; canon_norm;
    rewrite ?(proj1 fl_expr_canon), ?(proj2 (proj2 (proj2 (proj2 fl_expr_canon)))), ?(fl_sep_canon fl_cmp c_cmp _ (proj2 (proj2 (proj2 (proj2 fl_expr_canon)))));
    repeat match goal with H : _ = map canon _ |- _ => rewrite H; clear H end; reflexivity.
Qed.

Lemma fl_param_canon p : fl_param (c_param p) = map canon (fl_param p).
Proof. destruct p; cbn [c_param fl_param]; canon_norm; rewrite fl_type_canon; reflexivity. Qed.

Lemma fl_vardecl_canon v : fl_vardecl (c_vardecl v) = map canon (fl_vardecl v).
Proof. unfold fl_vardecl, c_vardecl. cbn [v_c1 v_c2 v_x v_c3 v_t v_c4]. canon_norm. rewrite fl_type_canon. reflexivity. Qed.

Lemma flat_map_canon {A} (fl : A -> list kind) (cf : A -> A) l :
  (forall a, fl (cf a) = map canon (fl a)) -> flat_map fl (map cf l) = map canon (flat_map fl l).
Proof. intros H. induction l as [|a r IH]; [reflexivity|]. cbn [map flat_map]. rewrite IH, H, map_app. reflexivity. Qed.

Lemma fl_decl_canon d : fl_decl (c_decl d) = map canon (fl_decl d).
Proof.
  destruct d; cbn [c_decl fl_decl]; canon_norm;
    rewrite ?fl_type_canon, ?(fl_sep_canon fl_param c_param _ fl_param_canon), ?(flat_map_canon fl_vardecl c_vardecl _ fl_vardecl_canon),
      ?(proj2 fl_stmt_canon); reflexivity.
Qed.

Theorem flatten_canon p : flatten (c_prog p) = map canon (flatten p).
Proof.
  unfold flatten, c_prog. cbn [a_decls a_ceof]. rewrite (flat_map_canon fl_decl c_decl _ fl_decl_canon), cm_ccs, map_app. reflexivity.
Qed.

(* ---- same dangling-else shape ---- *)
Lemma open_if_canon s : open_if (c_stmt s) = open_if s.
Proof. induction s; cbn [c_stmt open_if]; auto. Qed.

Lemma else_ok_canon : (forall s, else_ok (c_stmt s) = else_ok s) /\ (forall b, else_oks (c_stmts b) = else_oks b).
Proof.
  apply GrammarStmt.astmt_mutind; intros; cbn [c_stmt c_stmts else_ok else_oks]; rewrite ?open_if_canon;
    repeat match goal with H : _ = _ |- _ => rewrite H; clear H end; reflexivity.
Qed.

Lemma prog_ok_canon p : prog_ok (c_prog p) = prog_ok p.
Proof.
  unfold prog_ok, c_prog. cbn [a_decls]. induction (a_decls p) as [|d r IH]; [reflexivity|]. cbn [map forallb]. rewrite IH. f_equal.
  destruct d; cbn [c_decl decl_ok]; [reflexivity | apply else_ok_canon].
Qed.

(* ---- same tree, up to the doc fields: every range and offset is computed from lengths only ---- *)
Lemma len_ccs c : length (ccs c) = length c.
Proof. apply map_length. Qed.

Lemma len_var v : length (fl_var (c_var v)) = length (fl_var v).
Proof. rewrite (proj1 fl_expr_canon). apply map_length. Qed.
Lemma len_fac f : length (fl_fac (c_fac f)) = length (fl_fac f).
Proof. rewrite (proj1 (proj2 fl_expr_canon)). apply map_length. Qed.
Lemma len_mul m : length (fl_mul (c_mul m)) = length (fl_mul m).
Proof. rewrite (proj1 (proj2 (proj2 fl_expr_canon))). apply map_length. Qed.
Lemma len_add a : length (fl_add (c_add a)) = length (fl_add a).
Proof. rewrite (proj1 (proj2 (proj2 (proj2 fl_expr_canon)))). apply map_length. Qed.
Lemma len_cmp e : length (fl_cmp (c_cmp e)) = length (fl_cmp e).
Proof. rewrite (proj2 (proj2 (proj2 (proj2 fl_expr_canon)))). apply map_length. Qed.
Lemma len_type t : length (fl_type (c_type t)) = length (fl_type t).
Proof. rewrite fl_type_canon. apply map_length. Qed.
Lemma len_stmt s : length (fl_stmt (c_stmt s)) = length (fl_stmt s).
Proof. rewrite (proj1 fl_stmt_canon). apply map_length. Qed.
Lemma len_stmts b : length (fl_stmts (c_stmts b)) = length (fl_stmts b).
Proof. rewrite (proj2 fl_stmt_canon). apply map_length. Qed.
Lemma len_param p : length (fl_param (c_param p)) = length (fl_param p).
Proof. rewrite fl_param_canon. apply map_length. Qed.
Lemma len_vardecl v : length (fl_vardecl (c_vardecl v)) = length (fl_vardecl v).
Proof. rewrite fl_vardecl_canon. apply map_length. Qed.
Lemma len_decl d : length (fl_decl (c_decl d)) = length (fl_decl d).
Proof. rewrite fl_decl_canon. apply map_length. Qed.

Ltac x_same LEN X :=
  let L := fresh "L" in
  pose proof (LEN X) as L; cbn [c_var c_fac c_mul c_add c_cmp c_type c_stmt c_stmts] in L;
  cbn [c_var c_fac c_mul c_add c_cmp c_type c_stmt c_stmts x_var x_fac x_mul x_add x_cmp x_type x_stmt x_stmts]; cbv zeta;
  unfold x_ident, x_lit;
  rewrite ?L, ?len_ccs, ?len_var, ?len_fac, ?len_mul, ?len_add, ?len_cmp, ?len_type, ?len_stmt, ?len_stmts;
  repeat match goal with H : forall o : nat, _ = _ |- _ => rewrite H; clear H end; try reflexivity.

Lemma x_expr_canon :
  (forall v o, x_var o (c_var v) = x_var o v) /\ (forall f o, x_fac o (c_fac f) = x_fac o f) /\
  (forall m o, x_mul o (c_mul m) = x_mul o m) /\ (forall a o, x_add o (c_add a) = x_add o a) /\
  (forall e o, x_cmp o (c_cmp e) = x_cmp o e).
Proof.
  apply GrammarExpr.aexpr_mutind.
  - intros c x o. x_same len_var (AName c x).
  - intros v IHv c1 e IHe c2 o. x_same len_var (AIndex v c1 e c2).
  - intros c l o. x_same len_fac (FLit c l).
  - intros v IHv o. x_same len_fac (FVar v).
  - intros c f IHf o. x_same len_fac (FNeg c f).
  - intros c1 e IHe c2 o. x_same len_fac (FPar c1 e c2).
  - intros f IHf o. x_same len_mul (MFac f).
  - intros m IHm c op f IHf o. x_same len_mul (MBin m c op f).
  - intros m IHm o. x_same len_add (AMul m).
  - intros a IHa c op m IHm o. x_same len_add (ABin a c op m).
  - intros a IHa o. x_same len_cmp (CAdd a).
  - intros l IHl c op r IHr o. x_same len_cmp (CBin l c op r).
Qed.

Lemma x_cmp_canon e o : x_cmp o (c_cmp e) = x_cmp o e.
Proof. apply x_expr_canon. Qed.
Lemma x_var_canon v o : x_var o (c_var v) = x_var o v.
Proof. apply x_expr_canon. Qed.

Lemma x_type_canon t : forall o, x_type o (c_type t) = x_type o t.
Proof.
  induction t as [c x|ca cl cz size cr co base IH]; intros o.
  - x_same len_type (TName c x).
  - x_same len_type (TArr ca cl cz size cr co base).
Qed.

Lemma x_tail_canon {A B} (fl : A -> list kind) (x : A -> B) (cf : A -> A) l :
  (forall a, x (cf a) = x a) -> (forall a, length (fl (cf a)) = length (fl a)) ->
  forall o, x_tail fl x o (c_tail cf l) = x_tail fl x o l.
Proof.
  intros Hx Hl. induction l as [|[c a] r IH]; intros o; [reflexivity|]. unfold c_tail in *. cbn [map fst snd x_tail].
  rewrite Hx, Hl, len_ccs, IH. reflexivity.
Qed.

Lemma x_sep_canon {A B} (fl : A -> list kind) (x : A -> B) (cf : A -> A) ps :
  (forall a, x (cf a) = x a) -> (forall a, length (fl (cf a)) = length (fl a)) ->
  forall o, x_sep fl x o (c_sep cf ps) = x_sep fl x o ps.
Proof.
  intros Hx Hl o. destruct ps as [[a l]|]; [|reflexivity]. cbn [c_sep x_sep]. rewrite Hx, Hl, (x_tail_canon fl x cf l Hx Hl). reflexivity.
Qed.

Lemma len_sep {A} (fl : A -> list kind) (cf : A -> A) ps :
  (forall a, fl (cf a) = map canon (fl a)) -> length (fl_sep fl (c_sep cf ps)) = length (fl_sep fl ps).
Proof. intros H. rewrite (fl_sep_canon fl cf ps H). apply map_length. Qed.

Lemma x_stmt_canon :
  (forall s o, x_stmt o (c_stmt s) = x_stmt o s) /\ (forall b o, x_stmts o (c_stmts b) = x_stmts o b).
Proof.
  apply GrammarStmt.astmt_mutind.
  - intros c o. x_same len_stmt (SEmp c).
  - intros v c1 e c2 o. x_same len_stmt (SAsg v c1 e c2). rewrite x_var_canon, x_cmp_canon. reflexivity.
  - intros c1 fn c2 a c3 c4 o. x_same len_stmt (SCal c1 fn c2 a c3 c4).
    rewrite (x_sep_canon fl_cmp (x_cmp 0) c_cmp a (fun e => x_cmp_canon e 0) len_cmp). reflexivity.
  - intros c1 c2 e c3 t IHt o. x_same len_stmt (SIfT c1 c2 e c3 t). rewrite x_cmp_canon. reflexivity.
  - intros c1 c2 e c3 t IHt c4 s' IHs o. x_same len_stmt (SIfE c1 c2 e c3 t c4 s'). rewrite x_cmp_canon. reflexivity.
  - intros c1 c2 e c3 b IHb o. x_same len_stmt (SWhl c1 c2 e c3 b). rewrite x_cmp_canon. reflexivity.
  - intros c1 b IHb c2 o. x_same len_stmt (SBlk c1 b c2).
  - intros o. reflexivity.
  - intros s IHs r IHr o. x_same len_stmts (SCons s r).
Qed.

Lemma x_param_canon p : nodoc_param (x_param (c_param p)) = nodoc_param (x_param p).
Proof.
  destruct p as [c x cc t|cr c x cc t].
  - pose proof (len_param (PVal c x cc t)) as L. cbn [c_param] in L. cbn [c_param x_param nodoc_param]. unfold x_ident.
    rewrite L, ?len_ccs, x_type_canon. reflexivity.
  - pose proof (len_param (PRef cr c x cc t)) as L. cbn [c_param] in L. cbn [c_param x_param nodoc_param]. unfold x_ident.
    rewrite L, ?len_ccs, x_type_canon. reflexivity.
Qed.

Lemma x_vardecl_canon v : nodoc_var (x_vardecl (c_vardecl v)) = nodoc_var (x_vardecl v).
Proof.
  pose proof (len_vardecl v) as L. unfold x_vardecl, x_ident. rewrite L. unfold c_vardecl. cbn [v_c1 v_c2 v_x v_c3 v_t v_c4 nodoc_var].
  rewrite ?len_ccs, x_type_canon. reflexivity.
Qed.

Lemma x_vardecls_canon l : forall o,
  map (fun v : vardecl * nat => (nodoc_var (fst v), snd v)) (x_vardecls o (map c_vardecl l))
  = map (fun v : vardecl * nat => (nodoc_var (fst v), snd v)) (x_vardecls o l).
Proof.
  induction l as [|v r IH]; intros o; [reflexivity|]. cbn [map x_vardecls fst snd]. rewrite x_vardecl_canon, len_vardecl, IH. reflexivity.
Qed.

Lemma x_params_tail_canon l : forall o,
  map (fun p : paramdecl * nat => (nodoc_param (fst p), snd p)) (x_tail fl_param x_param o (c_tail c_param l))
  = map (fun p : paramdecl * nat => (nodoc_param (fst p), snd p)) (x_tail fl_param x_param o l).
Proof.
  induction l as [|[c p] r IH]; intros o; [reflexivity|]. unfold c_tail in *. cbn [map x_tail fst snd].
  rewrite x_param_canon, len_param, len_ccs, IH. reflexivity.
Qed.

Lemma x_params_canon ps o :
  map (fun p : paramdecl * nat => (nodoc_param (fst p), snd p)) (x_sep fl_param x_param o (c_sep c_param ps))
  = map (fun p : paramdecl * nat => (nodoc_param (fst p), snd p)) (x_sep fl_param x_param o ps).
Proof.
  destruct ps as [[p l]|]; [|reflexivity]. cbn [c_sep x_sep map fst snd]. rewrite x_param_canon, len_param, x_params_tail_canon. reflexivity.
Qed.

Lemma x_decl_canon d : nodoc_gdecl (x_decl (c_decl d)) = nodoc_gdecl (x_decl d).
Proof.
  destruct d as [c1 c2 x c3 t c4|c1 c2 x c3 ps c4 c5 vs b c6].
  - pose proof (len_decl (DType c1 c2 x c3 t c4)) as L. cbn [c_decl] in L. cbn [c_decl x_decl nodoc_gdecl td_name td_ty td_info].
    unfold x_ident. rewrite L, ?len_ccs, x_type_canon. reflexivity.
  - pose proof (len_decl (DProc c1 c2 x c3 ps c4 c5 vs b c6)) as L. cbn [c_decl] in L.
    cbn [c_decl x_decl]. cbv zeta. cbn [nodoc_gdecl pd_name pd_params pd_vars pd_stmts pd_info]. unfold x_ident.
    rewrite L, ?len_ccs, (len_sep fl_param c_param ps fl_param_canon), x_params_canon, x_vardecls_canon.
    rewrite (flat_map_canon fl_vardecl c_vardecl vs fl_vardecl_canon), map_length, (proj2 x_stmt_canon). reflexivity.
Qed.

Lemma x_decls_canon l : forall o,
  map (fun g : gdecl * nat => (nodoc_gdecl (fst g), snd g)) (x_decls o (map c_decl l))
  = map (fun g : gdecl * nat => (nodoc_gdecl (fst g), snd g)) (x_decls o l).
Proof.
  induction l as [|d r IH]; intros o; [reflexivity|]. cbn [map x_decls fst snd]. rewrite x_decl_canon, len_decl, IH. reflexivity.
Qed.

Theorem expected_canon p : nodoc (expected (c_prog p)) = nodoc (expected p).
Proof.
  unfold nodoc, expected, c_prog. cbn [pg_decls pg_info a_decls]. rewrite x_decls_canon.
  rewrite (flat_map_canon fl_decl c_decl _ fl_decl_canon), map_length. reflexivity.
Qed.

(* ================================================================================================
   4. Idempotence
   ================================================================================================ *)
Lemma canon_same_show (toks toks' : list token) : map tk toks' = map canon (map tk toks) -> same_show toks' toks.
Proof.
  revert toks'. induction toks as [|t toks IH]; intros toks' H.
  - destruct toks'; [constructor | discriminate H].
  - destruct toks' as [|t' toks']; [discriminate H|]. cbn [map] in H. injection H as Ht H.
    constructor; [|apply IH; exact H]. unfold tok_eq, show_tok, is_comment_tok, is_lit_tok. rewrite Ht.
    destruct (tk t); cbn [canon]; repeat split. cbn [show_kind]. rewrite trim_trim. reflexivity.
Qed.

(* formatting the text printed for a valid program with comments in leading position only answers null *)
Theorem idempotent_lead p toks ins ts txt :
  prog_ok p = true -> lead_only p = true -> aprog_valid p = true -> map tk toks = flatten p ++ [Eof] ->
  fmt_program (options_of ins ts) (expected p) toks = FOk txt ->
  format_request txt ins ts = Done None.
Proof.
  intros Hok Hlo Hv Hk Ht.
  destruct (tokens_lead p toks _ txt (options_unit_ok ins ts) Hlo Hv Hk Ht) as (toks' & El & Ek & _).
  assert (Ek' : map tk toks' = flatten (c_prog p) ++ [Eof]) by (rewrite flatten_canon; exact Ek).
  assert (Hs : same_show toks' toks) by (apply canon_same_show; rewrite Ek, Hk, map_app; reflexivity).
  assert (Hok' : prog_ok (c_prog p) = true) by (rewrite prog_ok_canon; exact Hok).
  unfold format_request. rewrite El, (GrammarProg.roundtrip (c_prog p) toks' Hok' Ek').
  rewrite <- (fmt_program_nodoc _ (expected (c_prog p))), expected_canon, fmt_program_nodoc.
  rewrite (fmt_program_show _ (expected p) toks' toks Hs), Ht, text_eqb_refl. reflexivity.
Qed.

Theorem idempotent_document_lead p doc toks ins ts :
  prog_ok p = true -> lead_only p = true -> aprog_valid p = true ->
  lex doc = Some toks -> map tk toks = flatten p ++ [Eof] ->
  exists out, formatted_text doc ins ts = Done out /\ format_request out ins ts = Done None.
Proof.
  intros Hok Hlo Hv El Hk.
  destruct (structure_lead p toks _ (options_unit_ok ins ts) Hlo Hv Hk) as (txt & gaps & E & _).
  exists txt. split.
  - unfold formatted_text. rewrite El, (GrammarProg.roundtrip p toks Hok Hk), E. reflexivity.
  - exact (idempotent_lead p toks ins ts txt Hok Hlo Hv Hk E).
Qed.

Print Assumptions idempotent_lead.
Print Assumptions idempotent_document_lead.
