(* C03 - the single-fault variants for the ten DECLARATION rules: definitions, and what `build` does to one
   faulty type expression / parameter / local variable / global declaration.

   `decl_fault_program p G ys` (at the end of this file): the tree p is valid SPL except for ONE violation of ONE
   declaration rule; G is the table SPL prescribes for it and ys are the prescribed diagnostics with their
   absolute token ranges.  What SPL (and the model, Model/Build.v) prescribes about the faulty entity:

     UndefinedType / NotAType   the name at the leaf of one type expression (of a type declaration, a parameter or a
                                local variable) is unbound / bound to something that is not a type.  The entity IS
                                entered all the same, with an UNKNOWN type: `None` when the expression is the name
                                itself, `array [n] of <unknown>` otherwise (`fault_texpr`).  The rest of the program
                                is checked against the table that contains this entry; since no typing rule of
                                Spec/Typing.v accepts an unknown type, "the rest is valid" implies that a variable or
                                parameter of unknown type is not used, a procedure with such a parameter is not
                                called, a type `t = <undefined>` is not used by later declarations.
     RedeclarationAs*           a second declaration of a name in the same scope.  The FIRST declaration stays in force,
                                the table is unchanged.  A redeclared parameter still counts as a parameter of the
                                procedure (its entry is appended to the parameter list, callers pass an argument
                                for it); a redeclared procedure has no entry of its own and its body is not checked
                                (nothing is prescribed for it, /repo commit c2dcb80).
     MustBeAReferenceParameter  a value parameter whose type is an array type; it is entered as declared.
     MainIsNotAProcedure        `type main = ...`; nothing is entered.  If there is no procedure main either, the program
                                ALSO gets MainIsMissing (DESIGN 10.3 "Not defects").
     MainIsMissing              all declarations well-formed, no entry for main: an EMPTY token range (0,0).
     MainMustNotHaveParameters  all declarations well-formed, main has parameters: on main's name.

   Soundness of the whole (build; analyze; errors) is in DeclFaultsSound.v, the lifting to texts in DeclFaultsText.v. *)
From Coq Require Import PeanoNat Lia.
From Spl Require Import Proofs.GrammarProofs Spec.Typing Model.Errors Proofs.SemProofs Proofs.TypingProofs.
Local Open Scope nat_scope.

(* the entry of a parameter / variable `name` with (possibly unknown) type ty *)
Definition mk_ventry (name : ident) (is_ref : bool) (ty : option dtype) (inf : info) (off : nat) (doc : list text) : ventry :=
  {| ve_name := name; ve_ref := is_ref; ve_ty := ty; ve_range := shift_range (info_range inf) off; ve_doc := doc_of doc |}.

(* ------------------------------------------------------------------------------------------ *)
(* one faulty type expression *)

(* fault_texpr L G c te x o: the type expression te (a chain `array [n] of ... of name`) is well-formed except that
   the name at its leaf does not denote a type; x is the prescribed diagnostic (on that name, relative to te's
   Reference), o the type recorded for te: unknown at the leaf, an array of it above *)
Inductive fault_texpr (L : ltable) (G : gtable) (c : text) : typeexpr -> err -> option dtype -> Prop :=
| FT_undefined i :
    unbound L G (id_val i) -> i_e (id_info i) <> 0 ->
    fault_texpr L G c (TNamed i) (name_err i (EBuild (UndefinedType (id_val i)))) None
| FT_not_a_type i e :
    binds L G (id_val i) e -> (forall te, e <> EntType te) -> i_e (id_info i) <> 0 ->
    fault_texpr L G c (TNamed i) (name_err i (EBuild (NotAType (id_val i)))) None
| FT_array il b off inf x o :
    fault_texpr L G c b x o ->
    fault_texpr L G c (TArray (Some il) (Some (b, off)) inf) (err_shift off x) (Some (DArray (il_val il) o c)).

(* an unknown type at the leaf never yields a primitive type above *)
Lemma fault_texpr_type L G c te x o d : fault_texpr L G c te x o -> o = Some d -> is_primitive d = false.
Proof. intros H. destruct H; intros E; [discriminate | discriminate | injection E as <-; reflexivity]. Qed.

Lemma ident_errors_append i x : clean_ident i = true -> ident_errors (ident_append i x) = [x].
Proof. intros H. unfold ident_errors, ident_append. cbn [id_info info_append i_errs]. rewrite (clean_nil _ H). reflexivity. Qed.

Section TexprSound.
Variable l : option ltable.
Variable L : ltable.
Variable G : gtable.
Variable c : text.
Hypothesis Hl : forall x, lt_lookup l (Some G) x = lt_lookup (Some L) (Some G) x.

Lemma fault_texpr_sound te x o :
  fault_texpr L G c te x o -> clean_texpr te = true ->
  exists te', get_data_type_te l (Some G) (Some c) te = ROk (te', o) /\ texpr_errors te' = [x].
Proof using Hl.
  induction 1 as [i Hu He | i e Hb Hnt He | il b off inf x o _ IH]; intros Hc.
  - eexists. split.
    + cbn [get_data_type_te]. rewrite Hl. apply lt_lookup_unbound in Hu. rewrite Hu, (ident_flag_some _ _ He). reflexivity.
    + cbn [texpr_errors]. apply ident_errors_append. exact Hc.
  - eexists. split.
    + cbn [get_data_type_te]. rewrite Hl. apply lt_lookup_binds in Hb. rewrite Hb.
      destruct e as [t|p|ve|ve]; try (rewrite (ident_flag_some _ _ He); reflexivity). exfalso. exact (Hnt t eq_refl).
    + cbn [texpr_errors]. apply ident_errors_append. exact Hc.
  - cbn [clean_texpr clean_opt fst] in Hc. apply andb_true_iff in Hc. destruct Hc as [Hc Hi].
    apply andb_true_iff in Hc. destruct Hc as [_ Hb]. destruct (IH Hb) as [b' [Hb' Hx]].
    exists (TArray (Some il) (Some (b', off)) inf). split.
    + cbn [get_data_type_te]. rewrite Hb'. reflexivity.
    + cbn [texpr_errors]. rewrite (clean_nil _ Hi), Hx. reflexivity.
Qed.

Lemma fault_get_data_type te off x o :
  fault_texpr L G c te x o -> clean_texpr te = true ->
  exists te', get_data_type l (Some G) (Some c) (Some (te, off)) = ROk (Some (te', off), o) /\
              opt_texpr_errors (Some (te', off)) = [err_shift off x].
Proof using Hl.
  intros H Hc. destruct (fault_texpr_sound _ _ _ H Hc) as [te' [Hg Hx]]. exists te'. split.
  - unfold get_data_type. rewrite Hg. reflexivity.
  - cbn [opt_texpr_errors]. rewrite Hx. reflexivity.
Qed.
End TexprSound.

(* ------------------------------------------------------------------------------------------ *)
(* one faulty parameter *)

(* fault_param G pname L p off L' pe x: the parameter p (a Reference at offset off in its procedure pname) violates
   exactly one rule; L' is the local table afterwards, pe the entry appended to the procedure's parameter list,
   x the diagnostic relative to p's Reference *)
Inductive fault_param (G : gtable) (pname : text) (L : ltable) : paramdecl -> nat -> ltable -> ventry -> err -> Prop :=
| FP_type doc is_ref name te o inf off x odt :
    fault_texpr [] G (anon_creator pname name) te x odt ->
    (odt <> None -> is_ref = true) ->
    lookup L (id_val name) = None ->
    fault_param G pname L (PValid doc is_ref (Some name) (Some (te, o)) inf) off
      (L ++ [(id_val name, LParam (mk_ventry name is_ref odt inf off doc))]) (mk_ventry name is_ref odt inf off doc)
      (err_shift o x)
| FP_must_be_reference doc name te o inf off t :
    denotes [] G (anon_creator pname name) te t -> is_array t ->
    lookup L (id_val name) = None -> i_e (id_info name) <> 0 ->
    fault_param G pname L (PValid doc false (Some name) (Some (te, o)) inf) off
      (L ++ [(id_val name, LParam (mk_ventry name false (Some t) inf off doc))]) (mk_ventry name false (Some t) inf off doc)
      (name_err name (EBuild (MustBeAReferenceParameter (id_val name))))
| FP_redeclared doc is_ref name te o inf off t old :
    denotes [] G (anon_creator pname name) te t -> (is_array t -> is_ref = true) ->
    lookup L (id_val name) = Some old -> i_e (id_info name) <> 0 ->
    fault_param G pname L (PValid doc is_ref (Some name) (Some (te, o)) inf) off
      L (mk_ventry name is_ref (Some t) inf off doc)
      (name_err name (EBuild (RedeclarationAsParameter (id_val name)))).

Lemma fault_param_sound G pname L p off L' pe x :
  int_ok G -> fault_param G pname L p off L' pe x -> clean_paramdecl p = true ->
  exists p', build_parameter (p, off) pname G L = ROk ((p', off), L', Some pe) /\ paramdecl_errors p' = [x].
Proof.
  intros Hint H Hc.
  destruct H as [doc is_ref name te o inf off x odt Hf Href Hfresh | doc name te o inf off t Hd Harr Hfresh He
                 | doc is_ref name te o inf off t old Hd Href Hold He];
    cbn [clean_paramdecl clean_opt fst] in Hc; split_clean Hc.
  - destruct (fault_get_data_type None [] G _ (fun _ => eq_refl) te o x odt Hf Hc1) as [te' [Hg Hx]].
    exists (PValid doc is_ref (Some name) (Some (te', o)) inf). split.
    + cbn [build_parameter]. change (anonymous_creator pname name) with (anon_creator pname name). rewrite Hg. cbn [rbind].
      assert (Hm : match odt with
                   | Some d => if negb (is_primitive d) && negb is_ref
                               then ident_flag name (fun n => EBuild (MustBeAReferenceParameter n)) else ROk name
                   | None => ROk name
                   end = ROk name).
      { destruct odt as [d|]; [|reflexivity]. rewrite (Href ltac:(discriminate)), andb_false_r. reflexivity. }
      rewrite Hm. cbn [rbind]. rewrite (enter_absent _ _ _ Hfresh). reflexivity.
    + cbn [paramdecl_errors opt_ident_errors]. unfold ident_errors. rewrite (clean_nil _ Hc0), (clean_nil _ Hc), Hx. reflexivity.
  - eexists. split.
    + apply rule_must_be_a_reference_parameter; assumption.
    + cbn [paramdecl_errors opt_ident_errors]. rewrite (clean_nil _ Hc0), (ident_errors_append _ _ Hc), (clean_opt_texpr_errors (Some (te, o)) Hc1).
      reflexivity.
  - eexists. split.
    + eapply rule_redeclaration_as_parameter; eassumption.
    + cbn [paramdecl_errors opt_ident_errors]. rewrite (clean_nil _ Hc0), (ident_errors_append _ _ Hc), (clean_opt_texpr_errors (Some (te, o)) Hc1).
      reflexivity.
Qed.

(* the parameter list of a procedure with one faulty parameter: the others are well-formed *)
Inductive fault_params (G : gtable) (pname : text) (L : ltable) : list (paramdecl * nat) -> ltable -> list ventry -> err -> Prop :=
| FPS pre p off post L1 es1 L2 pe x L3 es2 :
    wf_params G pname L pre L1 es1 -> fault_param G pname L1 p off L2 pe x -> wf_params G pname L2 post L3 es2 ->
    fault_params G pname L (pre ++ (p, off) :: post) L3 (es1 ++ pe :: es2) (err_shift off x).

Definition params_errors (l : list (paramdecl * nat)) : list err :=
  flat_map (fun x => shift_es (snd x) (paramdecl_errors (fst x))) l.
Definition vars_errors (l : list (vardecl * nat)) : list err :=
  flat_map (fun x => shift_es (snd x) (vardecl_errors (fst x))) l.

Lemma params_errors_clean l : forallb (fun r => clean_paramdecl (fst r)) l = true -> params_errors l = [].
Proof.
  intros Hq. rewrite forallb_forall in Hq. apply flat_map_nil. intros [q off] Hin. cbn [fst snd]. specialize (Hq _ Hin). cbn [fst] in Hq.
  destruct q as [doc r name ty inf | inf]; [|discriminate]. cbn [clean_paramdecl paramdecl_errors] in *. split_clean Hq.
  rewrite (clean_nil _ Hq0), (clean_opt_name_errors _ Hq), (clean_opt_texpr_errors _ Hq1). reflexivity.
Qed.

Lemma vars_errors_clean l : forallb (fun r => clean_vardecl (fst r)) l = true -> vars_errors l = [].
Proof.
  intros Hq. rewrite forallb_forall in Hq. apply flat_map_nil. intros [q off] Hin. cbn [fst snd]. specialize (Hq _ Hin). cbn [fst] in Hq.
  destruct q as [doc name ty inf | inf]; [|discriminate]. cbn [clean_vardecl vardecl_errors] in *. split_clean Hq.
  rewrite (clean_nil _ Hq0), (clean_opt_name_errors _ Hq), (clean_opt_texpr_errors _ Hq1). reflexivity.
Qed.

Lemma build_parameters_app ps1 ps2 pname G L ps1' L1 es1 ps2' L2 es2 :
  build_parameters ps1 pname G L = ROk (ps1', L1, es1) -> build_parameters ps2 pname G L1 = ROk (ps2', L2, es2) ->
  build_parameters (ps1 ++ ps2) pname G L = ROk (ps1' ++ ps2', L2, es1 ++ es2).
Proof.
  revert L ps1' es1. induction ps1 as [|p r IH]; intros L ps1' es1 H1 H2.
  - cbn [build_parameters] in H1. injection H1 as <- <- <-. exact H2.
  - cbn [build_parameters app] in *. destruct (build_parameter p pname G L) as [[[p' La] oe]|]; cbn [rbind] in *; [|discriminate].
    destruct (build_parameters r pname G La) as [[[r' Lb] es]|] eqn:Er; cbn [rbind] in *; [|discriminate].
    injection H1 as <- <- <-. rewrite (IH _ _ _ Er H2). cbn [rbind]. destruct oe; reflexivity.
Qed.

Lemma fault_params_sound G pname L ps L' es x :
  int_ok G -> fault_params G pname L ps L' es x -> forallb (fun r => clean_paramdecl (fst r)) ps = true ->
  exists ps', build_parameters ps pname G L = ROk (ps', L', es) /\ params_errors ps' = [x].
Proof.
  intros Hint H Hc. destruct H as [pre p off post L1 es1 L2 pe x L3 es2 Hpre Hp Hpost].
  apply forallb_app_inv in Hc. destruct Hc as [Hcpre [Hcp Hcpost]]. cbn [fst] in Hcp.
  destruct (fault_param_sound _ _ _ _ _ _ _ _ Hint Hp Hcp) as [p' [Hb Hx]].
  exists (pre ++ (p', off) :: post). split.
  - apply (build_parameters_app pre ((p, off) :: post) pname G L pre L1 es1 ((p', off) :: post) L3 (pe :: es2)).
    + apply build_parameters_sound; assumption.
    + cbn [build_parameters]. rewrite Hb. cbn [rbind]. rewrite (build_parameters_sound _ _ _ _ _ _ Hint Hpost). reflexivity.
  - unfold params_errors. rewrite flat_map_app. cbn [flat_map fst snd]. fold (params_errors pre). fold (params_errors post).
    rewrite (params_errors_clean _ Hcpre), (params_errors_clean _ Hcpost), Hx, app_nil_r. reflexivity.
Qed.

(* ------------------------------------------------------------------------------------------ *)
(* one faulty local variable *)

Inductive fault_vardecl (G : gtable) (pname : text) (L : ltable) : vardecl -> nat -> ltable -> err -> Prop :=
| FVD_type doc name te o inf off x odt :
    fault_texpr L G (anon_creator pname name) te x odt ->
    lookup L (id_val name) = None ->
    fault_vardecl G pname L (VValid doc (Some name) (Some (te, o)) inf) off
      (L ++ [(id_val name, LVar (mk_ventry name false odt inf off doc))]) (err_shift o x)
| FVD_redeclared doc name te o inf off t old :
    denotes L G (anon_creator pname name) te t ->
    lookup L (id_val name) = Some old -> i_e (id_info name) <> 0 ->
    fault_vardecl G pname L (VValid doc (Some name) (Some (te, o)) inf) off L
      (name_err name (EBuild (RedeclarationAsVariable (id_val name)))).

Lemma fault_vardecl_sound G pname L v off L' x :
  int_ok G -> fault_vardecl G pname L v off L' x -> clean_vardecl v = true ->
  exists v', build_variable (v, off) pname G L = ROk ((v', off), L') /\ vardecl_errors v' = [x].
Proof.
  intros Hint H Hc.
  destruct H as [doc name te o inf off x odt Hf Hfresh | doc name te o inf off t old Hd Hold He];
    cbn [clean_vardecl clean_opt fst] in Hc; split_clean Hc.
  - destruct (fault_get_data_type (Some L) L G _ (fun _ => eq_refl) te o x odt Hf Hc1) as [te' [Hg Hx]].
    exists (VValid doc (Some name) (Some (te', o)) inf). split.
    + cbn [build_variable]. change (anonymous_creator pname name) with (anon_creator pname name). rewrite Hg. cbn [rbind].
      rewrite (enter_absent _ _ _ Hfresh). reflexivity.
    + cbn [vardecl_errors opt_ident_errors]. unfold ident_errors. rewrite (clean_nil _ Hc0), (clean_nil _ Hc), Hx. reflexivity.
  - eexists. split.
    + eapply rule_redeclaration_as_variable; eassumption.
    + cbn [vardecl_errors opt_ident_errors]. rewrite (clean_nil _ Hc0), (ident_errors_append _ _ Hc), (clean_opt_texpr_errors (Some (te, o)) Hc1).
      reflexivity.
Qed.

Inductive fault_vars (G : gtable) (pname : text) (L : ltable) : list (vardecl * nat) -> ltable -> err -> Prop :=
| FVS pre v off post L1 L2 x L3 :
    wf_vars G pname L pre L1 -> fault_vardecl G pname L1 v off L2 x -> wf_vars G pname L2 post L3 ->
    fault_vars G pname L (pre ++ (v, off) :: post) L3 (err_shift off x).

Lemma build_variables_app vs1 vs2 pname G L vs1' L1 vs2' L2 :
  build_variables vs1 pname G L = ROk (vs1', L1) -> build_variables vs2 pname G L1 = ROk (vs2', L2) ->
  build_variables (vs1 ++ vs2) pname G L = ROk (vs1' ++ vs2', L2).
Proof.
  revert L vs1'. induction vs1 as [|v r IH]; intros L vs1' H1 H2.
  - cbn [build_variables] in H1. injection H1 as <- <-. exact H2.
  - cbn [build_variables app] in *. destruct (build_variable v pname G L) as [[v' La]|]; cbn [rbind] in *; [|discriminate].
    destruct (build_variables r pname G La) as [[r' Lb]|] eqn:Er; cbn [rbind] in *; [|discriminate].
    injection H1 as <- <-. rewrite (IH _ _ Er H2). reflexivity.
Qed.

Lemma fault_vars_sound G pname L vs L' x :
  int_ok G -> fault_vars G pname L vs L' x -> forallb (fun r => clean_vardecl (fst r)) vs = true ->
  exists vs', build_variables vs pname G L = ROk (vs', L') /\ vars_errors vs' = [x].
Proof.
  intros Hint H Hc. destruct H as [pre v off post L1 L2 x L3 Hpre Hv Hpost].
  apply forallb_app_inv in Hc. destruct Hc as [Hcpre [Hcv Hcpost]]. cbn [fst] in Hcv.
  destruct (fault_vardecl_sound _ _ _ _ _ _ _ Hint Hv Hcv) as [v' [Hb Hx]].
  exists (pre ++ (v', off) :: post). split.
  - apply (build_variables_app pre ((v, off) :: post) pname G L pre L1 ((v', off) :: post) L3).
    + apply build_variables_sound; assumption.
    + cbn [build_variables]. rewrite Hb. cbn [rbind]. rewrite (build_variables_sound _ _ _ _ _ Hint Hpost). reflexivity.
  - unfold vars_errors. rewrite flat_map_app. cbn [flat_map fst snd]. fold (vars_errors pre). fold (vars_errors post).
    rewrite (vars_errors_clean _ Hcpre), (vars_errors_clean _ Hcpost), Hx, app_nil_r. reflexivity.
Qed.

(* ------------------------------------------------------------------------------------------ *)
(* one faulty global declaration *)

(* fault_gdecl G off d kes ys: the declaration d (a Reference at absolute offset off) violates exactly one declaration
   rule under the declarations seen so far (G); kes are the entries it contributes to the table (none or one),
   ys the prescribed diagnostics relative to d's Reference *)
Inductive fault_gdecl (G : gtable) (off : nat) : gdecl -> list (text * gentry) -> list err -> Prop :=
(* type t = <faulty type expression>: t is entered with the unknown type *)
| FG_type_texpr d name te o x odt :
    td_name d = Some name -> id_val name <> s_main -> lookup G (id_val name) = None ->
    td_ty d = Some (te, o) -> fault_texpr [] G (id_val name) te x odt ->
    fault_gdecl G off (GType d)
      [(id_val name, GTypeE {| ten_name := name; ten_ty := odt; ten_range := shift_range (info_range (td_info d)) off;
                               ten_doc := doc_of (td_doc d) |})]
      [err_shift o x]
(* a second global declaration of the name, as a type *)
| FG_type_redeclared d name te o t old :
    td_name d = Some name -> id_val name <> s_main -> lookup G (id_val name) = Some old ->
    td_ty d = Some (te, o) -> denotes [] G (id_val name) te t -> i_e (id_info name) <> 0 ->
    fault_gdecl G off (GType d) [] [name_err name (EBuild (RedeclarationAsType (id_val name)))]
(* type main = ... *)
| FG_type_main d name te o t :
    td_name d = Some name -> id_val name = s_main ->
    td_ty d = Some (te, o) -> denotes [] G (id_val name) te t -> i_e (id_info name) <> 0 ->
    fault_gdecl G off (GType d) [] [name_err name (EBuild MainIsNotAProcedure)]
(* a second global declaration of the name, as a procedure *)
| FG_proc_redeclared d name L1 ps L2 old :
    pd_name d = Some name -> lookup G (id_val name) = Some old ->
    wf_params G (id_val name) [] (pd_params d) L1 ps -> wf_vars G (id_val name) L1 (pd_vars d) L2 ->
    i_e (id_info name) <> 0 ->
    fault_gdecl G off (GProc d) [] [name_err name (EBuild (RedeclarationAsProcedure (id_val name)))]
(* one faulty parameter *)
| FG_proc_param d name L1 ps x L2 :
    pd_name d = Some name -> lookup G (id_val name) = None ->
    fault_params G (id_val name) [] (pd_params d) L1 ps x -> wf_vars G (id_val name) L1 (pd_vars d) L2 ->
    fault_gdecl G off (GProc d)
      [(id_val name, GProcE {| pe_name := name; pe_local := L2; pe_params := ps;
                               pe_range := shift_range (info_range (pd_info d)) off; pe_doc := doc_of (pd_doc d) |})]
      [x]
(* one faulty local variable *)
| FG_proc_var d name L1 ps x L2 :
    pd_name d = Some name -> lookup G (id_val name) = None ->
    wf_params G (id_val name) [] (pd_params d) L1 ps -> fault_vars G (id_val name) L1 (pd_vars d) L2 x ->
    fault_gdecl G off (GProc d)
      [(id_val name, GProcE {| pe_name := name; pe_local := L2; pe_params := ps;
                               pe_range := shift_range (info_range (pd_info d)) off; pe_doc := doc_of (pd_doc d) |})]
      [x].

(* what `build` leaves untouched in a declaration: everything `analyze` looks at *)
Definition same_body (d d' : gdecl) : Prop :=
  match d, d' with
  | GType _, GType _ => True
  | GProc a, GProc b =>
      option_map id_val (pd_name a) = option_map id_val (pd_name b) /\ pd_info a = pd_info b /\ pd_stmts a = pd_stmts b
  | GError _, GError _ => True
  | _, _ => False
  end.

Lemma fault_gdecl_sound G off d kes ys :
  int_ok G -> fault_gdecl G off d kes ys -> clean_gdecl d = true ->
  exists d', build_gdecl d G off = ROk (d', G ++ kes) /\ gdecl_errors d' = ys /\ same_body d d'.
Proof.
  intros Hint H Hc.
  destruct H as [d name te o x odt Hn Hmain Hfresh Hty Hf | d name te o t old Hn Hmain Hold Hty Hd He
                 | d name te o t Hn Hmain Hty Hd He | d name L1 ps L2 old Hn Hold Hp Hv He
                 | d name L1 ps x L2 Hn Hfresh Hp Hv | d name L1 ps x L2 Hn Hfresh Hp Hv];
    cbn [clean_gdecl] in Hc; split_clean Hc.
  - rewrite Hn in Hc. rewrite Hty in Hc1. cbn [clean_opt fst] in Hc, Hc1.
    destruct (fault_get_data_type None [] G _ (fun _ => eq_refl) te o x odt Hf Hc1) as [te' [Hg Hx]].
    eexists. split; [|split].
    + cbn [build_gdecl]. unfold build_typedecl. rewrite Hn, (text_eqb_neq _ _ Hmain), Hty, Hg. cbn [rbind].
      rewrite (enter_absent _ _ _ Hfresh). cbn [rbind]. reflexivity.
    + cbn [gdecl_errors]. unfold typedecl_errors. cbn [td_info td_name td_ty].
      rewrite (clean_nil _ Hc0), Hx. cbn [opt_ident_errors]. unfold ident_errors. rewrite (clean_nil _ Hc). reflexivity.
    + exact I.
  - rewrite Hn in Hc. cbn [clean_opt] in Hc. eexists. split; [|split].
    + cbn [build_gdecl]. rewrite (rule_redeclaration_as_type G off d name te o t old); try assumption. cbn [rbind].
      rewrite app_nil_r. reflexivity.
    + cbn [gdecl_errors]. unfold typedecl_errors. cbn [td_info td_name td_ty opt_ident_errors].
      rewrite (clean_nil _ Hc0), (ident_errors_append _ _ Hc), (clean_opt_texpr_errors _ Hc1). reflexivity.
    + exact I.
  - rewrite Hn in Hc. cbn [clean_opt] in Hc. eexists. split; [|split].
    + cbn [build_gdecl]. rewrite (rule_main_is_not_a_procedure G off d name); try assumption. cbn [rbind].
      rewrite app_nil_r. reflexivity.
    + cbn [gdecl_errors]. unfold typedecl_errors. cbn [td_info td_name td_ty opt_ident_errors].
      rewrite (clean_nil _ Hc0), (ident_errors_append _ _ Hc), (clean_opt_texpr_errors _ Hc1). reflexivity.
    + exact I.
  - rewrite Hn in Hc. cbn [clean_opt] in Hc. eexists. split; [|split].
    + cbn [build_gdecl]. rewrite (rule_redeclaration_as_procedure G off d name L1 ps L2 old); try assumption. cbn [rbind].
      rewrite app_nil_r. reflexivity.
    + cbn [gdecl_errors]. unfold procdecl_errors. cbn [pd_info pd_name pd_params pd_vars pd_stmts opt_ident_errors].
      fold (params_errors (pd_params d)). fold (vars_errors (pd_vars d)). fold (stmts_errors (pd_stmts d)).
      rewrite (clean_nil _ Hc0), (ident_errors_append _ _ Hc), (params_errors_clean _ Hc3), (vars_errors_clean _ Hc2),
        (stmts_errors_clean _ Hc1). reflexivity.
    + cbn [same_body pd_name pd_info pd_stmts option_map ident_append id_val]. rewrite Hn. repeat split; reflexivity.
  - rewrite Hn in Hc. cbn [clean_opt] in Hc.
    destruct (fault_params_sound _ _ _ _ _ _ _ Hint Hp Hc3) as [ps' [Hb Hx]].
    eexists. split; [|split].
    + cbn [build_gdecl]. unfold build_procdecl. rewrite Hn, Hb. cbn [rbind].
      rewrite (build_variables_sound _ _ _ _ _ Hint Hv). cbn [rbind]. rewrite (enter_absent _ _ _ Hfresh). cbn [rbind]. reflexivity.
    + cbn [gdecl_errors]. unfold procdecl_errors. cbn [pd_info pd_name pd_params pd_vars pd_stmts opt_ident_errors].
      fold (params_errors ps'). fold (vars_errors (pd_vars d)). fold (stmts_errors (pd_stmts d)).
      unfold ident_errors. rewrite (clean_nil _ Hc0), (clean_nil _ Hc), Hx, (vars_errors_clean _ Hc2), (stmts_errors_clean _ Hc1).
      reflexivity.
    + cbn [same_body pd_name pd_info pd_stmts option_map]. rewrite Hn. repeat split; reflexivity.
  - rewrite Hn in Hc. cbn [clean_opt] in Hc.
    destruct (fault_vars_sound _ _ _ _ _ _ Hint Hv Hc2) as [vs' [Hb Hx]].
    eexists. split; [|split].
    + cbn [build_gdecl]. unfold build_procdecl. rewrite Hn.
      rewrite (build_parameters_sound _ _ _ _ _ _ Hint Hp). cbn [rbind]. rewrite Hb. cbn [rbind].
      rewrite (enter_absent _ _ _ Hfresh). cbn [rbind]. reflexivity.
    + cbn [gdecl_errors]. unfold procdecl_errors. cbn [pd_info pd_name pd_params pd_vars pd_stmts opt_ident_errors].
      fold (params_errors (pd_params d)). fold (vars_errors vs'). fold (stmts_errors (pd_stmts d)).
      unfold ident_errors. rewrite (clean_nil _ Hc0), (clean_nil _ Hc), Hx, (params_errors_clean _ Hc3), (stmts_errors_clean _ Hc1).
      reflexivity.
    + cbn [same_body pd_name pd_info pd_stmts option_map]. rewrite Hn. repeat split; reflexivity.
Qed.

(* ------------------------------------------------------------------------------------------ *)
(* programs *)

(* main exists, is a procedure and has no parameters *)
Definition main_ok (G : gtable) : Prop := exists pe, lookup G s_main = Some (GProcE pe) /\ pe_params pe = [].

(* p is valid SPL except for ONE violation of ONE declaration rule.  G: the table the rest of the program is checked
   against = the predefined entries, then the entries of the declarations in order, the faulty one contributing
   what `fault_gdecl` says.  ys: the prescribed diagnostics, absolute token ranges, in the order of errors(). *)
Inductive decl_fault_program (p : program) (G : gtable) : list err -> Prop :=
(* one faulty declaration (UndefinedType, NotAType, the four Redeclaration messages, MustBeAReferenceParameter,
   MainIsNotAProcedure next to a procedure main); main is fine *)
| DF_decl dpre d off dpost es1 kes es2 ys :
    pg_decls p = dpre ++ (d, off) :: dpost ->
    wf_gdecls initialized dpre es1 ->
    fault_gdecl (initialized ++ es1) off d kes ys ->
    wf_gdecls (initialized ++ es1 ++ kes) dpost es2 ->
    G = initialized ++ es1 ++ kes ++ es2 ->
    main_ok G -> wt_bodies G p ->
    decl_fault_program p G (shift_es off ys)
(* `type main = ...` and no procedure main: MainIsMissing (empty range) and MainIsNotAProcedure *)
| DF_main_type dpre d off dpost es1 es2 name te o t :
    pg_decls p = dpre ++ (GType d, off) :: dpost ->
    wf_gdecls initialized dpre es1 ->
    td_name d = Some name -> id_val name = s_main ->
    td_ty d = Some (te, o) -> denotes [] (initialized ++ es1) (id_val name) te t -> i_e (id_info name) <> 0 ->
    wf_gdecls (initialized ++ es1) dpost es2 ->
    G = initialized ++ es1 ++ es2 ->
    lookup G s_main = None -> wt_bodies G p ->
    decl_fault_program p G [mkerr_t (0, 0) (EBuild MainIsMissing); shift_e off (name_err name (EBuild MainIsNotAProcedure))]
(* no declaration of main at all *)
| DF_main_missing es :
    wf_gdecls initialized (pg_decls p) es -> G = initialized ++ es ->
    lookup G s_main = None -> wt_bodies G p ->
    decl_fault_program p G [mkerr_t (0, 0) (EBuild MainIsMissing)]
(* main has parameters: on main's name (the declaration's own range starts at its Reference) *)
| DF_main_params dpre d off dpost es name :
    pg_decls p = dpre ++ (GProc d, off) :: dpost ->
    pd_name d = Some name -> id_val name = s_main -> pd_params d <> [] ->
    i_s (pd_info d) = 0 -> i_e (id_info name) <> 0 ->
    wf_gdecls initialized (pg_decls p) es -> G = initialized ++ es ->
    wt_bodies G p ->
    decl_fault_program p G [shift_e off (name_err name (EBuild MainMustNotHaveParameters))].
