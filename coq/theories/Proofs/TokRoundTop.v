(* C08 - "any range the server reports for a token, sent back as a request position, addresses that same
   token": the position round trip of Proofs/DocProofs.v [roundtrip] at the boundaries of the lexer's tokens.

   For every text t and every token tok of lex t (Eof included):
     [tok_start_roundtrip]   get_insertion_index (as_position (ts tok) t) t = ts tok;
     [tok_end_roundtrip]     get_insertion_index (as_position (te tok) t) t = te tok
                             unless tok is the unterminated character literal "'" CR directly followed by LF;
     [tok_end_roundtrip_cr]  for that token the end is the boundary between CR and LF, its reported position is
                             the position in front of the CR, and the round trip yields te tok - 1 = ts tok + 1;
     [tok_start_lookup]      the round trip of the start of a token (not Eof) is looked up (DocumentCursor::ident,
                             [token_at]) as that same token; [tok_start_cursor] the same through [doc_cursor]. *)
From Spl Require Import Model.Lexer Model.Doc Model.Cursor Spec.LexSpec
  Proofs.LexerProofs Proofs.LexLocality Proofs.LexRun Proofs.DocProofs Proofs.TokRoundLex.

(* ---------------------------------------------------------------------------------------- *)
(* token boundaries as cuts of the text                                                      *)

Lemma forall_in {A} (P : A -> Prop) l x : Forall P l -> In x l -> P x.
Proof. intros H. rewrite Forall_forall in H. apply H. Qed.

(* (1) a token starts on a character boundary that is not between a CR and its LF *)
Theorem tok_start_boundary t toks tok :
  lex t = Some toks -> In tok toks ->
  exists a b, t = a ++ b /\ blen a = ts tok /\ ~ (exists a' b', a = a' ++ [13] /\ b = 10 :: b').
Proof.
  intros Hl Hin.
  destruct (forall_in _ _ _ (lex_tok_at t toks Hl) Hin) as (a & lx & b & Ht & Hts & _ & Hst & _).
  exists a, (lx ++ b). split; [exact Ht|]. split; [lia|].
  intros (a' & b' & _ & Hb). rewrite Hb in Hst. cbn [stops] in Hst. discriminate Hst.
Qed.

(* (2) a token ends on a character boundary; between a CR and its LF only as the literal "'" CR *)
Theorem tok_end_boundary t toks tok :
  lex t = Some toks -> In tok toks ->
  exists a b, t = a ++ b /\ blen a = te tok /\
    ((exists a' b', a = a' ++ [13] /\ b = 10 :: b') ->
     tk tok = CharT 13 /\ terr tok = [mkerr (te tok) (te tok) MissingClosingTick] /\ te tok = ts tok + 2).
Proof.
  intros Hl Hin.
  destruct (forall_in _ _ _ (lex_tok_at t toks Hl) Hin) as (a & lx & b & Ht & Hts & Hte & _ & Hnil & _ & Hcr & _).
  exists (a ++ lx), b. split; [rewrite <- app_assoc; exact Ht|]. split; [rewrite blen_app; lia|].
  intros (a' & b' & Ha & Hb).
  destruct lx as [|c lx0].
  { destruct (Hnil eq_refl) as [Hb0 _]. rewrite Hb0 in Hb. discriminate Hb. }
  apply tail_app in Ha as [lx' Hlx]; [|discriminate].
  destruct (Hcr lx' b' Hlx Hb) as [Hk [Hlx' He]].
  split; [exact Hk|]. split; [exact He|]. rewrite Hte, Hlx, Hlx'. reflexivity.
Qed.

(* ---------------------------------------------------------------------------------------- *)
(* the round trips                                                                           *)

Theorem tok_start_roundtrip t toks tok :
  lex t = Some toks -> In tok toks ->
  let p := as_position (ts tok) t in
  get_insertion_index (fst p) (snd p) t = ts tok.
Proof.
  intros Hl Hin. destruct (tok_start_boundary t toks tok Hl Hin) as (a & b & Ht & Ha & Hcut).
  subst t. rewrite <- Ha. exact (roundtrip a b Hcut).
Qed.

Theorem tok_end_roundtrip t toks tok :
  lex t = Some toks -> In tok toks ->
  ~ (tk tok = CharT 13 /\ terr tok <> [] /\ exists a b', t = a ++ 10 :: b' /\ blen a = te tok) ->
  let p := as_position (te tok) t in
  get_insertion_index (fst p) (snd p) t = te tok.
Proof.
  intros Hl Hin Hex. destruct (tok_end_boundary t toks tok Hl Hin) as (a & b & Ht & Ha & Hcut).
  subst t. rewrite <- Ha. apply (roundtrip a b). intros Hc.
  destruct (Hcut Hc) as [Hk [He _]]. destruct Hc as (a' & b' & _ & Hb).
  apply Hex. split; [exact Hk|]. split; [rewrite He; discriminate|].
  exists a, b'. split; [rewrite Hb; reflexivity | exact Ha].
Qed.

(* the boundary between CR and LF: its position is the position in front of the CR ... *)
Lemma pos_from_crlf a b : forall line ch i,
  pos_from (i + blen a + 1) line ch i (a ++ 13 :: 10 :: b) = pos_from (i + blen a) line ch i (a ++ 13 :: 10 :: b).
Proof.
  induction a as [|c a IH]; intros line ch i; cbn [app blen].
  - rewrite !pos_cons. rewrite N.add_0_r, N.leb_refl.
    destruct (N.leb_spec (i + 1) i) as [Hle|_]; [lia|].
    unfold step. change (13 =? 10) with false. change (13 =? 13) with true. cbn [lf_next].
    change (10 =? 10) with true. cbn [fst snd]. change (ulen 13) with 1. now rewrite N.leb_refl.
  - pose proof (ulen_pos c) as Hu. rewrite !pos_cons.
    destruct (N.leb_spec (i + (ulen c + blen a) + 1) i) as [Hle|_]; [lia|].
    destruct (N.leb_spec (i + (ulen c + blen a)) i) as [Hle|_]; [lia|].
    replace (i + (ulen c + blen a) + 1) with (i + ulen c + blen a + 1) by lia.
    replace (i + (ulen c + blen a)) with (i + ulen c + blen a) by lia.
    apply IH.
Qed.

Lemma as_position_crlf a b :
  as_position (blen a + 1) (a ++ 13 :: 10 :: b) = as_position (blen a) (a ++ 13 :: 10 :: b).
Proof. unfold as_position. exact (pos_from_crlf a b 0 0 0). Qed.

(* ... so the round trip ends one byte earlier, in front of the CR *)
Theorem roundtrip_crlf a b :
  let p := as_position (blen a + 1) (a ++ 13 :: 10 :: b) in
  get_insertion_index (fst p) (snd p) (a ++ 13 :: 10 :: b) = blen a.
Proof.
  cbv zeta. rewrite as_position_crlf. apply (roundtrip a (13 :: 10 :: b)).
  intros (a' & b' & _ & Hb). discriminate Hb.
Qed.

Theorem tok_end_roundtrip_cr t toks tok :
  lex t = Some toks -> In tok toks ->
  tk tok = CharT 13 -> terr tok <> [] -> (exists a b', t = a ++ 10 :: b' /\ blen a = te tok) ->
  let p := as_position (te tok) t in
  te tok = ts tok + 2 /\
  p = as_position (ts tok + 1) t /\
  get_insertion_index (fst p) (snd p) t = ts tok + 1.
Proof.
  intros Hl Hin Hk He (a2 & b' & Ht2 & Ha2).
  destruct (forall_in _ _ _ (lex_tok_at t toks Hl) Hin) as (a & lx & b & Ht & Hts & Hte & _ & _ & _ & _ & Hlx).
  specialize (Hlx Hk He). subst lx. change (blen [39; 13]) with 2 in Hte.
  assert (Hsplit : a2 = a ++ [39; 13] /\ 10 :: b' = b).
  { apply app_blen_inj.
    - rewrite <- app_assoc. exact (eq_trans (eq_sym Ht2) Ht).
    - rewrite blen_app. change (blen [39; 13]) with 2. lia. }
  destruct Hsplit as [_ Hb]. subst b.
  assert (Ht' : t = (a ++ [39]) ++ 13 :: 10 :: b') by (rewrite Ht, <- app_assoc; reflexivity).
  assert (Hb1 : blen (a ++ [39]) = ts tok + 1) by (rewrite blen_app; change (blen [39]) with 1; lia).
  cbv zeta. split; [exact Hte|].
  replace (te tok) with (blen (a ++ [39]) + 1) by lia. rewrite <- Hb1. rewrite Ht'.
  split; [apply as_position_crlf | apply roundtrip_crlf].
Qed.

(* ---------------------------------------------------------------------------------------- *)
(* (3) looking the index up in the token vector                                              *)

Lemma ordered_lb lo toks tok : Ordered lo toks -> In tok toks -> lo <= ts tok.
Proof.
  induction 1 as [lo | lo x tl H1 H2 H3 H4 IH]; intros Hin; [destruct Hin|].
  destruct Hin as [->|Hin]; [exact H1|]. specialize (IH Hin). lia.
Qed.

Lemma token_at_ordered lo toks tok index :
  Ordered lo toks -> In tok toks -> ts tok <= index -> index < te tok -> token_at toks index = Some tok.
Proof.
  unfold token_at. induction 1 as [lo | lo x tl H1 H2 H3 H4 IH]; intros Hin Ha Hb; [destruct Hin|].
  cbn [find]. unfold in_range at 1. cbn [fst snd].
  destruct Hin as [->|Hin].
  - destruct (N.leb_spec (ts tok) index) as [_|Hc]; [|lia].
    destruct (N.ltb_spec index (te tok)) as [_|Hc]; [|lia]. reflexivity.
  - pose proof (ordered_lb _ _ _ H4 Hin) as Hlb.
    destruct (N.ltb_spec index (te x)) as [Hc|_]; [lia|]. rewrite andb_false_r. exact (IH Hin Ha Hb).
Qed.

Lemma lex_ordered t toks : lex t = Some toks -> Ordered 0 toks.
Proof. intros Hl. exact (tiles_ordered 0 t toks (lex_tiles t toks Hl)). Qed.

Lemma tok_nonempty t toks tok : lex t = Some toks -> In tok toks -> tk tok <> Eof -> ts tok < te tok.
Proof.
  intros Hl Hin Hk.
  destruct (forall_in _ _ _ (lex_tok_at t toks Hl) Hin) as (a & lx & b & _ & _ & Hte & _ & Hnil & _).
  destruct lx as [|c lx0]; [destruct (Hnil eq_refl) as [_ Hk']; contradiction|].
  rewrite Hte. cbn [blen]. pose proof (ulen_pos c). lia.
Qed.

Theorem tok_start_lookup t toks tok :
  lex t = Some toks -> In tok toks -> tk tok <> Eof ->
  let p := as_position (ts tok) t in
  token_at toks (get_insertion_index (fst p) (snd p) t) = Some tok.
Proof.
  intros Hl Hin Hk. cbv zeta. rewrite (tok_start_roundtrip t toks tok Hl Hin).
  apply (token_at_ordered 0); [exact (lex_ordered t toks Hl) | exact Hin | lia |].
  exact (tok_nonempty t toks tok Hl Hin Hk).
Qed.

(* the exceptional token: the reported END position is looked up as the token itself *)
Theorem tok_end_lookup_cr t toks tok :
  lex t = Some toks -> In tok toks ->
  tk tok = CharT 13 -> terr tok <> [] -> (exists a b', t = a ++ 10 :: b' /\ blen a = te tok) ->
  let p := as_position (te tok) t in
  token_at toks (get_insertion_index (fst p) (snd p) t) = Some tok.
Proof.
  intros Hl Hin Hk He Hlf. cbv zeta.
  destruct (tok_end_roundtrip_cr t toks tok Hl Hin Hk He Hlf) as [Hte [_ Hrt]]. rewrite Hrt.
  apply (token_at_ordered 0); [exact (lex_ordered t toks Hl) | exact Hin | lia | lia].
Qed.

(* through the request handlers' entry point: features.rs doc_cursor + DocumentCursor::ident *)
Lemma doc_cursor_fields d line col cur :
  doc_cursor d line col = ROk cur -> c_doc cur = d /\ c_index cur = get_insertion_index line col (d_text d).
Proof.
  unfold doc_cursor. destruct (find_decl _ _ _) as [g|s]; cbn [rbind]; [|discriminate].
  intros [= <-]. split; reflexivity.
Qed.

Theorem tok_start_cursor d tok cur :
  lex (d_text d) = Some (d_toks d) -> In tok (d_toks d) -> tk tok <> Eof ->
  let p := as_position (ts tok) (d_text d) in
  doc_cursor d (fst p) (snd p) = ROk cur ->
  token_at (d_toks (c_doc cur)) (c_index cur) = Some tok /\
  (forall name, tk tok = Ident name -> cursor_ident cur = Some (name, (ts tok, te tok))).
Proof.
  intros Hl Hin Hk. cbv zeta. intros Hc.
  apply doc_cursor_fields in Hc as [Hd Hi].
  assert (Hat : token_at (d_toks (c_doc cur)) (c_index cur) = Some tok).
  { rewrite Hd, Hi. exact (tok_start_lookup (d_text d) (d_toks d) tok Hl Hin Hk). }
  split; [exact Hat|]. intros name Hn. unfold cursor_ident. rewrite Hat, Hn. reflexivity.
Qed.
