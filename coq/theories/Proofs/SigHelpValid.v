(* C14 - signature help on every call statement of a VALID program, in ANY layout: [sighelp_valid].

   p ranges over the abstract programs of the grammar (Spec/Grammar.v), G over the global tables with
   [well_typed (expected p) G] (Spec/Typing.v), t over the texts that lex to p's token kinds.  The call
   statements are located by the grammar: [program_sites p] lists (owner, (k, c)) - the call statement
   c = `c1 f c2 ( a c3 ) c4 ;` inside the procedure named owner, whose first token (the first comment of c1,
   or the callee) is token number k; its `(` is token k + lp_pos c, its `)` token k + rp_pos c, its `;`
   token k + len (fl_call c) - 1 (all from lengths of flattened pieces).

     [sighelp_valid_stmt]  at EVERY cursor index from the start of the statement's first token up to (not
                           including) the end of its `;`: the answer is the signature of THE procedure
                           entry lookup G f (label, documentation, one parameter label per parameter, as
                           many as the call has arguments), active parameter = number of Comma tokens of
                           the statement that start before the index.  This is the interval on which the
                           model (and signature_help.rs) answers: the whole text range of the call
                           statement, leading comments, callee name and `;` included.
     [sighelp_valid]       in particular between the parentheses: te `(` <= index <= ts `)`.
     [sighelp_valid_full]  the same in the vocabulary of HoverProofs.sighelp_full_statement (call_hits of
                           the tree, first `(` / last `)` of the statement's token slice): that statement
                           with "document without diagnostics" replaced by "layout of a well-typed
                           abstract program".
     [sighelp_valid_none]  no call statement's text range contains the index => no answer.  (NOT true:
                           "outside every call's parentheses => no answer" - on the callee name, inside the
                           comments in front of the statement and between `)` and `;` the answer is given.)
     [site_tokens]         the tokens at a site: the slice's kinds are the flattening of the call
                           statement, `(` and `)` sit where lp_pos / rp_pos say.
     [site_commas]         the Comma tokens of the slice are the separators of the call's own arguments
                           (arguments are expressions and contain no call): one less than arguments.

   The proof composes C04 [roundtrip] + C03 [no_false_positive_tree] (through HoverValid.valid_doc), the
   grammar inductions of SigHelpValidSites.v, the model computations of SigHelpValidModel.v and
     T  what the static semantics says about a call statement: the callee is a procedure of the GLOBAL
        table with as many parameters as the call has arguments ([wt_sites]). *)
From Coq Require Import PeanoNat Lia.
From Spl Require Import Proofs.GrammarBase Proofs.GrammarExpr Proofs.GrammarStmt.
From Spl Require Import Proofs.GrammarProofs Spec.Typing Model.Errors Proofs.SemProofs Proofs.TypingProofs.
From Spl Require Import Model.Hover Model.SigHelp Model.Fold Proofs.LexerProofs Proofs.FoldProofs Proofs.HoverProofs.
From Spl Require Import Proofs.HoverValid Proofs.GotoValidModel Proofs.SigHelpValidSites Proofs.SigHelpValidModel.
Local Open Scope nat_scope.

(* ---------------------------------------------------------------------------------------- *)
(* the call sites of a program                                                               *)

Definition decl_name (d : adecl) : text :=
  match d with DType _ _ x _ _ _ => x | DProc _ _ x _ _ _ _ _ _ _ => x end.

Fixpoint decls_sites (o : nat) (l : list adecl) : list (text * site) :=
  match l with
  | [] => []
  | d :: r => map (pair (decl_name d)) (decl_sites o d) ++ decls_sites (o + len (fl_decl d)) r
  end.

(* (name of the enclosing procedure, (index of the statement's first token, the call statement)) *)
Definition program_sites (p : aprog) : list (text * site) := decls_sites 0 (a_decls p).

Lemma decls_sites_in : forall l o owner x, In (owner, x) (decls_sites o l) ->
  exists l1 d l2, l = l1 ++ d :: l2 /\ owner = decl_name d /\ In x (decl_sites (o + len (flat_map fl_decl l1)) d).
Proof.
  induction l as [|d l IH]; intros o owner x H; [contradiction|]. cbn [decls_sites] in H.
  apply in_app_or in H as [H|H].
  - apply in_map_iff in H as [y [Hy Hin]]. injection Hy as <- <-. exists [], d, l.
    cbn [app flat_map length]. rewrite Nat.add_0_r. auto.
  - destruct (IH _ _ _ H) as [l1 [d0 [l2 [-> [-> Hin]]]]]. exists (d :: l1), d0, l2. cbn [app flat_map].
    rewrite app_length. repeat split. now rewrite Nat.add_assoc.
Qed.

Lemma decls_sites_intro : forall l1 o d l2 x, In x (decl_sites (o + len (flat_map fl_decl l1)) d) ->
  In (decl_name d, x) (decls_sites o (l1 ++ d :: l2)).
Proof.
  induction l1 as [|d' l1 IH]; intros o d l2 x H; cbn [app decls_sites flat_map length] in *.
  - rewrite Nat.add_0_r in H. apply in_or_app. left. now apply in_map.
  - apply in_or_app. right. apply IH. rewrite app_length, Nat.add_assoc in H. exact H.
Qed.

Lemma x_decls_intro : forall l1 o d l2, In (x_decl d, o + len (flat_map fl_decl l1)) (x_decls o (l1 ++ d :: l2)).
Proof.
  induction l1 as [|d' l1 IH]; intros o d l2.
  - cbn [app flat_map length x_decls]. rewrite Nat.add_0_r. now left.
  - cbn [app flat_map x_decls]. right. rewrite app_length, Nat.add_assoc. apply IH.
Qed.

(* the call statements of the mandated tree (HoverProofs.calls_of_stmts) are the sites *)
Lemma program_calls p pd pd_off h :
  In (GProc pd, pd_off) (pg_decls (expected p)) -> In h (calls_of_stmts (pd_stmts pd) pd_off) ->
  exists owner x, In (owner, x) (program_sites p) /\ h = hit_of x /\ option_map id_val (pd_name pd) = Some owner.
Proof.
  unfold expected. cbn [pg_decls]. intros Hg Hh.
  destruct (x_decls_in _ _ _ _ Hg) as [l1 [d [l2 [Hds [Hgd HD]]]]]. cbn [Nat.add] in HD.
  destruct d as [c1 c2 x c3 ty c4 | c1 c2 x c3 ps c4 c5 vs b c6]; [discriminate Hgd|].
  set (d := DProc c1 c2 x c3 ps c4 c5 vs b c6) in *.
  assert (Hpd : pd = the_proc d) by (change (x_decl d) with (GProc (the_proc d)) in Hgd; now injection Hgd).
  subst pd pd_off. rewrite (the_proc_stmts d eq_refl), (proj2 calls_sites) in Hh.
  apply in_map_iff in Hh as [s [Hs Hin]]. exists (decl_name d), s. split; [|split; [now symmetry | reflexivity]].
  unfold program_sites. rewrite Hds. apply decls_sites_intro. exact Hin.
Qed.

(* ---------------------------------------------------------------------------------------- *)
(* T: the callee of a well-typed call statement                                              *)

Definition callee_ok (G : gtable) (x : site) : Prop :=
  exists pe, lookup G (k_f (snd x)) = Some (GProcE pe) /\ len (pe_params pe) = nargs (k_a (snd x)).

Theorem wt_sites L G :
  (forall s, wt_stmt L G (x_stmt 0 s) -> forall o, Forall (callee_ok G) (sites_stmt o s)) /\
  (forall b o', wt_stmts L G (x_stmts o' b) -> forall o, Forall (callee_ok G) (sites_stmts o b)).
Proof.
  apply astmt_mutind.
  - intros c H o. constructor.
  - intros v c1 e c2 H o. constructor.
  - intros c1 f c2 a c3 c4 H o. cbn [x_stmt] in H. cbn [sites_stmt]. constructor; [|constructor].
    inversion H as [| |name args inf pe Hb Ha| | | |]; subst. cbn [id_val x_ident] in Hb.
    unfold callee_ok. cbn [snd k_f k_a]. exists pe. split.
    + inversion Hb as [le Hl He | ge Hl Hg He]; [destruct le; discriminate He|].
      destruct ge; [discriminate He|]. injection He as <-. exact Hg.
    + rewrite <- (forall2_length _ _ _ Ha), x_sep_length. reflexivity.
  - intros c1 c2 e c3 t IHt H o. cbn [x_stmt] in H. cbn [sites_stmt].
    inversion H as [| | |c oc t0 ot inf Hc Ht| | |]; subst. now apply IHt.
  - intros c1 c2 e c3 t IHt c4 s IHs H o. cbn [x_stmt] in H. cbn [sites_stmt].
    inversion H as [| | | |c oc t0 ot e0 oe inf Hc Ht He| |]; subst. apply Forall_app. split; [now apply IHt | now apply IHs].
  - intros c1 c2 e c3 b IHb H o. cbn [x_stmt] in H. cbn [sites_stmt].
    inversion H as [| | | | |c oc b0 ob inf Hc Hb|]; subst. now apply IHb.
  - intros c1 b IHb c2 H o. cbn [x_stmt] in H. cbn [sites_stmt].
    inversion H as [| | | | | |body inf Hb]; subst. exact (IHb _ Hb _).
  - intros o' H o. constructor.
  - intros s IHs r IHr o' H o. cbn [x_stmts] in H. cbn [sites_stmts].
    inversion H as [|s0 off r0 Hs Hr]; subst. apply Forall_app. split; [now apply IHs | exact (IHr _ Hr _)].
Qed.

(* ---------------------------------------------------------------------------------------- *)
(* the frame shared by the theorems                                                          *)

Lemma layout_facts (p : aprog) (t : text) (toks : list token) :
  lex t = Some toks -> map tk toks = flatten p ++ [Eof] ->
  toks_sorted toks = true /\ Ordered 0 toks /\ len (flat_map fl_decl (a_decls p)) <= len toks.
Proof.
  intros Hlex Hk. pose proof (tiles_ordered 0 t _ (lex_tiles t _ Hlex)) as Ho.
  split; [exact (ordered_sorted 0 _ Ho)|]. split; [exact Ho|].
  rewrite <- (map_length tk toks), Hk. unfold flatten. rewrite !app_length. lia.
Qed.

(* the declaration that holds a site *)
Lemma site_decl (p : aprog) owner x : In (owner, x) (program_sites p) ->
  exists l1 d l2, a_decls p = l1 ++ d :: l2 /\ owner = decl_name d /\ is_dproc d = true /\
                  In x (decl_sites (len (flat_map fl_decl l1)) d).
Proof.
  intros H. destruct (decls_sites_in _ _ _ _ H) as [l1 [d [l2 [Hds [Ho Hin]]]]]. cbn [Nat.add] in Hin.
  exists l1, d, l2. repeat split; try assumption.
  destruct d; [|reflexivity]. unfold decl_sites in Hin. cbn [body_of sites_stmts] in Hin. contradiction.
Qed.

(* the token kinds at the declaration that holds a site *)
Lemma decl_seg (p : aprog) l1 d l2 :
  a_decls p = l1 ++ d :: l2 -> seg_at (flatten p ++ [Eof]) (len (flat_map fl_decl l1)) (fl_decl d).
Proof.
  intros Hds. exists (flat_map fl_decl l1), (flat_map fl_decl l2 ++ cm (a_ceof p) ++ [Eof]). split; [|reflexivity].
  unfold flatten. rewrite Hds, flat_map_app. cbn [flat_map]. now rewrite <- !app_assoc.
Qed.

Lemma seg_slice (toks : list token) o seg :
  seg_at (map tk toks) o seg -> map tk (firstn (len seg) (skipn o toks)) = seg.
Proof.
  intros [pre [post [Hk <-]]]. rewrite map_firstn, <- skipn_map, Hk, skipn_app, skipn_all, Nat.sub_diag.
  cbn [skipn app]. apply firstn_exact.
Qed.

(* ---- where the tokens of a site are ---- *)
Theorem site_tokens (p : aprog) (t : text) (toks : list token) owner k c :
  lex t = Some toks -> map tk toks = flatten p ++ [Eof] -> In (owner, (k, c)) (program_sites p) ->
  k + len (fl_call c) <= len toks /\
  map tk (firstn (len (fl_call c)) (skipn k toks)) = fl_call c /\
  (exists first, nth_error toks k = Some first) /\
  (exists name, nth_error toks (k + len (k_c1 c)) = Some name /\ tk name = Ident (k_f c)) /\
  (exists lp, nth_error toks (k + lp_pos c) = Some lp /\ tk lp = LParen) /\
  (exists rp, nth_error toks (k + rp_pos c) = Some rp /\ tk rp = RParen) /\
  (exists last, nth_error toks (k + len (fl_call c) - 1) = Some last /\ tk last = Semic).
Proof.
  intros Hlex Hk Hin. destruct (site_decl p owner (k, c) Hin) as [l1 [d [l2 [Hds [_ [Hd Hs]]]]]].
  pose proof (decl_seg p l1 d l2 Hds) as Hseg. rewrite <- Hk in Hseg.
  pose proof (decl_sites_seg _ _ _ Hseg) as Hf. rewrite Forall_forall in Hf. specialize (Hf _ Hs). cbn [fst snd] in Hf.
  pose proof (seg_at_bound _ _ _ Hf) as Hb. rewrite map_length in Hb. pose proof (call_len_pos c) as Hp.
  assert (Hkind : forall j kd, nth_error (fl_call c) j = Some kd -> exists tok, nth_error toks (k + j) = Some tok /\ tk tok = kd).
  { intros j kd Hj. pose proof (seg_at_nth _ _ _ _ _ Hf Hj) as Hn.
    rewrite nth_error_map in Hn. destruct (nth_error toks (k + j)) as [tok|]; [|discriminate].
    injection Hn as Hn. eauto. }
  split; [exact Hb|]. split; [exact (seg_slice toks k _ Hf)|].
  split. { destruct (nth_error toks k) eqn:E; [eauto | apply nth_error_None in E; lia]. }
  split. { apply Hkind. unfold fl_call, call_stmt. cbn [fl_stmt]. rewrite <- (cm_length (k_c1 c)). apply nth_error_at. }
  split; [exact (Hkind _ _ (call_lp c))|]. split; [exact (Hkind _ _ (call_rp c))|].
  replace (k + len (fl_call c) - 1) with (k + (len (fl_call c) - 1)) by lia. apply Hkind.
  unfold fl_call, call_stmt. cbn [fl_stmt].
  replace (cm (k_c1 c) ++ Ident (k_f c) :: cm (k_c2 c) ++ LParen :: fl_sep fl_cmp (k_a c) ++ cm (k_c3 c) ++ RParen :: cm (k_c4 c) ++ [Semic])
    with ((cm (k_c1 c) ++ Ident (k_f c) :: cm (k_c2 c) ++ LParen :: fl_sep fl_cmp (k_a c) ++ cm (k_c3 c) ++ RParen :: cm (k_c4 c)) ++ [Semic]) by listeq.
  rewrite app_length. cbn [length]. rewrite Nat.add_sub. apply nth_error_at.
Qed.

(* the Comma tokens of the call statement's token slice are the separators of its own arguments *)
Theorem site_commas (p : aprog) (t : text) (toks : list token) owner k c :
  lex t = Some toks -> map tk toks = flatten p ++ [Eof] -> In (owner, (k, c)) (program_sites p) ->
  len (filter is_comma (firstn (len (fl_call c)) (skipn k toks))) = nargs (k_a c) - 1.
Proof.
  intros Hlex Hk Hin. destruct (site_tokens p t toks owner k c Hlex Hk Hin) as [_ [Hsl _]].
  remember (firstn (len (fl_call c)) (skipn k toks)) as sl eqn:E. clear E.
  rewrite <- call_comma_count, <- Hsl. unfold count_commas_k. clear.
  induction sl as [|x l IH]; [reflexivity|].
  cbn [map filter]. unfold is_comma at 1. unfold is_comma_k at 1.
  destruct (tk x); cbn [length]; rewrite IH; reflexivity.
Qed.

(* ---------------------------------------------------------------------------------------- *)
(* the theorems                                                                              *)
Local Open Scope N_scope.

Lemma ordered_nonempty : forall toks lo i tok,
  Ordered lo toks -> nth_error toks i = Some tok -> tk tok <> Eof -> ts tok < te tok.
Proof.
  induction toks as [|x r IH]; intros lo i tok Ho Hn Hk; [destruct i; discriminate|].
  inversion Ho as [|lo' t' tl H1 H2 H3 H4]; subst. destruct i as [|i]; cbn [nth_error] in Hn.
  - injection Hn as <-. exact (H3 Hk).
  - exact (IH _ _ _ H4 Hn Hk).
Qed.

(* the whole text range of the call statement: from the start of its first token (a leading comment
   or the callee) to the end of its `;` *)
Theorem sighelp_valid_stmt (p : aprog) (G : gtable) (t : text) (toks : list token) (d : doc) :
  prog_ok p = true -> well_typed (expected p) G ->
  lex t = Some toks -> map tk toks = flatten p ++ [Eof] -> new_doc_res t = ODone d ->
  forall owner k c, In (owner, (k, c)) (program_sites p) ->
  exists pe, lookup G (k_f c) = Some (GProcE pe) /\ len (pe_params pe) = nargs (k_a c) /\
  forall first last line col,
    nth_error toks k = Some first -> nth_error toks (k + len (fl_call c) - 1) = Some last ->
    ts first <= get_insertion_index line col t -> get_insertion_index line col t < te last ->
    signature_help d line col
    = ROk (Some (sighelp_answer pe (firstn (len (fl_call c)) (skipn k toks)) (get_insertion_index line col t))).
Proof.
  intros Hok Hwt Hlex Hk Hd owner k c Hin.
  rewrite (valid_doc p G t toks d Hok Hwt Hlex Hk Hd). clear Hd d.
  destruct (layout_facts p t toks Hlex Hk) as [Hs [_ Hlen]].
  destruct (site_decl p owner (k, c) Hin) as [l1 [dd [l2 [Hds [Hown [Hdp Hsite]]]]]].
  (* T *)
  assert (Hcal : callee_ok G (k, c)).
  { destruct dd as [|c1 c2 xn c3 ps c4 c5 vs b c6]; [discriminate Hdp|].
    set (dd := DProc c1 c2 xn c3 ps c4 c5 vs b c6) in *.
    pose proof (x_decls_intro l1 0 dd l2) as Hg. rewrite <- Hds in Hg. cbn [Nat.add] in Hg.
    change (x_decls 0 (a_decls p)) with (pg_decls (expected p)) in Hg.
    destruct Hwt as [[es [Hwf [HG _]]] Hbodies].
    destruct (wf_gdecls_in _ _ _ Hwf _ _ Hg) as [Gi [ke [Hke [Hlk _]]]]. rewrite <- HG in Hlk. clear HG.
    change (x_decl dd) with (GProc (the_proc dd)) in Hke, Hg.
    assert (Hname0 : pd_name (the_proc dd) = Some (x_ident (len c1 + 1) c2 xn)) by reflexivity.
    inversion Hke as [ | d0 name L1 pes L2 Hname _ Hpar Hvar]; subst. rewrite Hname0 in Hname. injection Hname as <-.
    cbn [fst snd] in Hlk.
    match type of Hlk with lookup G _ = Some (GProcE ?pe0) => set (pe := pe0) in * end.
    assert (Hoe : own_entry G (the_proc dd) (len (flat_map fl_decl l1)) pe).
    { exists (x_ident (len c1 + 1) c2 xn). repeat split; [exact Hlk]. }
    unfold wt_bodies in Hbodies. rewrite Forall_forall in Hbodies. destruct (Hbodies _ Hg) as [_ Hwb].
    unfold wt_body in Hwb. cbn [fst snd] in Hwb. specialize (Hwb pe Hoe).
    rewrite (the_proc_stmts dd eq_refl) in Hwb.
    pose proof (proj2 (wt_sites (pe_local pe) G) _ _ Hwb (len (flat_map fl_decl l1) + body_off dd)%nat) as Hf.
    rewrite Forall_forall in Hf. exact (Hf _ Hsite). }
  destruct Hcal as [pe [Hl Hn]]. cbn [snd k_f k_a] in Hl, Hn. exists pe. split; [exact Hl|]. split; [exact Hn|].
  intros first last line col Hf Hla H1 H2.
  apply (sighelp_at_site p G t toks l1 dd l2 (k, c) pe line col Hs Hds Hdp Hlen Hsite); [|exact Hl].
  unfold site_hit, site_range, seg_range. cbn [fst snd]. apply in_range_iff. cbn [fst snd].
  rewrite (nth_error_nth _ _ dtok Hf), (nth_error_nth _ _ dtok Hla). split; assumption.
Qed.

(* ... in particular between the parentheses: from the end of `(` to the start of `)` *)
Theorem sighelp_valid (p : aprog) (G : gtable) (t : text) (toks : list token) (d : doc) :
  prog_ok p = true -> well_typed (expected p) G ->
  lex t = Some toks -> map tk toks = flatten p ++ [Eof] -> new_doc_res t = ODone d ->
  forall owner k c, In (owner, (k, c)) (program_sites p) ->
  exists pe, lookup G (k_f c) = Some (GProcE pe) /\ len (pe_params pe) = nargs (k_a c) /\
  forall lp rp line col,
    nth_error toks (k + lp_pos c) = Some lp -> nth_error toks (k + rp_pos c) = Some rp ->
    te lp <= get_insertion_index line col t -> get_insertion_index line col t <= ts rp ->
    signature_help d line col
    = ROk (Some (sighelp_answer pe (firstn (len (fl_call c)) (skipn k toks)) (get_insertion_index line col t))).
Proof.
  intros Hok Hwt Hlex Hk Hd owner k c Hin.
  destruct (sighelp_valid_stmt p G t toks d Hok Hwt Hlex Hk Hd owner k c Hin) as [pe [Hl [Hn Hsig]]].
  exists pe. split; [exact Hl|]. split; [exact Hn|]. intros lp rp line col Hlp Hrp H1 H2.
  destruct (layout_facts p t toks Hlex Hk) as [Hs [Hord _]].
  destruct (site_tokens p t toks owner k c Hlex Hk Hin) as [Hb [_ [[first Hf] [_ [_ [[rp' [Hrp' Hkr]] [last [Hla _]]]]]]]].
  rewrite Hrp in Hrp'. injection Hrp' as <-.
  destruct (rp_pos_lt c) as [Hlr Hrl].
  apply (Hsig first last line col Hf Hla).
  - destruct (sorted_le toks k (k + lp_pos c) _ _ Hs ltac:(lia) Hf Hlp) as [Ha _].
    pose proof (sorted_self _ Hs _ _ Hlp). lia.
  - assert (Hne : ts rp < te rp) by (apply (ordered_nonempty toks 0 _ rp Hord Hrp); rewrite Hkr; discriminate).
    pose proof (sorted_pair _ Hs (k + rp_pos c)%nat (k + len (fl_call c) - 1)%nat _ _ ltac:(lia) Hrp Hla).
    pose proof (sorted_self _ Hs _ _ Hla). lia.
Qed.

(* ---- the vocabulary of HoverProofs.sighelp_full_statement ---- *)

Lemma find_first_kind kd : forall sl j,
  nth_error (map tk sl) j = Some kd -> (forall i, (i < j)%nat -> nth_error (map tk sl) i <> Some kd) ->
  find (is_kind kd) sl = nth_error sl j.
Proof.
  induction sl as [|x r IH]; intros j Hj Hfirst; [destruct j; discriminate|]. cbn [find]. unfold is_kind at 1.
  destruct j as [|j]; cbn [map nth_error] in *.
  - injection Hj as Hj. rewrite Hj. now rewrite (proj2 (kind_eqb_eq kd kd) eq_refl).
  - destruct (kind_eqb (tk x) kd) eqn:E.
    + apply kind_eqb_eq in E. exfalso. apply (Hfirst 0%nat ltac:(lia)). cbn [nth_error]. now rewrite E.
    + apply IH; [exact Hj|]. intros i Hi. exact (Hfirst (S i) ltac:(lia)).
Qed.

Lemma find_last_kind kd : forall sl j,
  nth_error (map tk sl) j = Some kd -> (forall i, (j < i)%nat -> nth_error (map tk sl) i <> Some kd) ->
  find (is_kind kd) (rev sl) = nth_error sl j.
Proof.
  induction sl as [|x r IH] using rev_ind; intros j Hj Hlast; [destruct j; discriminate|].
  rewrite rev_app_distr. cbn [rev app find]. unfold is_kind at 1. rewrite map_app in Hj, Hlast. cbn [map] in Hj, Hlast.
  destruct (Nat.lt_ge_cases j (len r)) as [Hlt|Hge].
  - rewrite nth_error_app1 in Hj by (now rewrite map_length). rewrite nth_error_app1 by exact Hlt.
    destruct (kind_eqb (tk x) kd) eqn:E.
    + apply kind_eqb_eq in E. exfalso. apply (Hlast (len r) Hlt).
      rewrite <- (map_length tk r), nth_error_at. now rewrite E.
    + apply IH; [exact Hj|]. intros i Hi Hn. apply (Hlast i Hi).
      rewrite nth_error_app1; [exact Hn|]. apply nth_error_Some. congruence.
  - assert (Hjr : j = len r).
    { assert (j < len (map tk r ++ [tk x]))%nat by (apply nth_error_Some; congruence).
      rewrite app_length, map_length in H. cbn [length] in H. lia. }
    subst j. rewrite <- (map_length tk r), nth_error_at in Hj. injection Hj as Hj.
    rewrite nth_error_at, Hj. now rewrite (proj2 (kind_eqb_eq kd kd) eq_refl).
Qed.

(* HoverProofs.sighelp_full_statement with "document without diagnostics" replaced by "layout of a
   well-typed abstract program" *)
Theorem sighelp_valid_full (p : aprog) (G : gtable) (t : text) (toks : list token) (d : doc) :
  prog_ok p = true -> well_typed (expected p) G ->
  lex t = Some toks -> map tk toks = flatten p ++ [Eof] -> new_doc_res t = ODone d ->
  forall pd pd_off name inf off sl lp rp,
    In (GProc pd, pd_off) (pg_decls (d_ast d)) ->
    In (name, inf, off) (calls_of_stmts (pd_stmts pd) pd_off) ->
    slice (d_toks d) (shift_range (info_range inf) off) = ROk sl ->
    find (is_kind LParen) sl = Some lp -> find (is_kind RParen) (rev sl) = Some rp ->
  forall line col, te lp <= get_insertion_index line col t -> get_insertion_index line col t <= ts rp ->
    exists pe, lookup (d_table d) (id_val name) = Some (GProcE pe) /\
      signature_help d line col =
        ROk (Some {| sh_label := show_pentry pe; sh_doc := sig_documentation (pe_doc pe);
                     sh_params := map show_ventry (pe_params pe);
                     sh_active := match pe_params pe with
                                  | [] => None
                                  | _ :: _ => Some (commas_before sl (get_insertion_index line col t))
                                  end |}).
Proof.
  intros Hok Hwt Hlex Hk Hd pd pd_off name inf off sl lp rp.
  pose proof (valid_doc p G t toks d Hok Hwt Hlex Hk Hd) as Hdoc.
  subst d. cbn [d_ast d_toks d_table].
  intros Hg Hh Hsl Hlp Hrp line col H1 H2.
  destruct (program_calls p pd pd_off _ Hg Hh) as [owner [[k c] [Hin [Hhit _]]]].
  unfold hit_of in Hhit. cbn [fst snd] in Hhit. injection Hhit as -> -> ->.
  destruct (sighelp_valid p G t toks _ Hok Hwt Hlex Hk Hd owner k c Hin) as [pe [Hl [_ Hsig]]].
  exists pe. cbn [id_val x_ident]. split; [exact Hl|].
  destruct (site_tokens p t toks owner k c Hlex Hk Hin) as [Hb [Hkinds [_ [_ [[lp' [Hlp' _]] [[rp' [Hrp' _]] _]]]]]].
  rewrite (slice_seg toks k _ Hb) in Hsl. injection Hsl as <-.
  set (sl := firstn (len (fl_call c)) (skipn k toks)) in *.
  pose proof (call_len_pos c) as Hp. destruct (rp_pos_lt c) as [Hlr Hrl].
  assert (Hnth : forall j, (j < len (fl_call c))%nat -> nth_error sl j = nth_error toks (k + j)).
  { intros j Hj. unfold sl. apply nth_slice. exact Hj. }
  rewrite (find_first_kind LParen sl (lp_pos c)) in Hlp;
    [|rewrite Hkinds; apply call_lp | rewrite Hkinds; apply call_first_lp].
  rewrite (find_last_kind RParen sl (rp_pos c)) in Hrp;
    [|rewrite Hkinds; apply call_rp | rewrite Hkinds; apply call_last_rp].
  rewrite Hnth in Hlp, Hrp by lia.
  exact (Hsig lp rp line col Hlp Hrp H1 H2).
Qed.

(* no call statement's text range contains the cursor: no answer *)
Theorem sighelp_valid_none (p : aprog) (G : gtable) (t : text) (toks : list token) (d : doc) :
  prog_ok p = true -> well_typed (expected p) G ->
  lex t = Some toks -> map tk toks = flatten p ++ [Eof] -> new_doc_res t = ODone d ->
  forall line col,
  (forall owner k c first last, In (owner, (k, c)) (program_sites p) ->
     nth_error toks k = Some first -> nth_error toks (k + len (fl_call c) - 1) = Some last ->
     get_insertion_index line col t < ts first \/ te last <= get_insertion_index line col t) ->
  signature_help d line col = ROk None.
Proof.
  intros Hok Hwt Hlex Hk Hd line col Hno.
  rewrite (valid_doc p G t toks d Hok Hwt Hlex Hk Hd). clear Hd d.
  destruct (layout_facts p t toks Hlex Hk) as [Hs [_ Hlen]].
  apply sighelp_no_site; [exact Hlen|]. intros l1 dd l2 [k c] Hds Hx.
  assert (Hin : In (decl_name dd, (k, c)) (program_sites p)).
  { unfold program_sites. rewrite Hds. apply decls_sites_intro. exact Hx. }
  destruct (site_tokens p t toks _ k c Hlex Hk Hin) as [Hb [_ [[first Hf] [_ [_ [_ [last [Hla _]]]]]]]].
  unfold site_hit, site_range, seg_range. cbn [fst snd].
  rewrite (nth_error_nth _ _ dtok Hf), (nth_error_nth _ _ dtok Hla).
  destruct (Hno _ k c first last Hin Hf Hla) as [H|H];
    [apply in_range_false_after | apply in_range_false_before]; exact H.
Qed.
