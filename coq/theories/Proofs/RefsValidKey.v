(* C13 on valid programs, part 2b - the walk the handlers of Model/Refs.v choose, for EVERY tree pr and
   table G with [well_typed pr G]: with the context entry of the declaration around an occurrence o and
   the "global position" bit its role prescribes, [find_referenced_identifiers] returns the identifiers
   of exactly the occurrences with the key of o, in the order of [occurrences], and [is_predefined] says
   whether o has no declaration ([referenced_key]). *)
From Coq Require Import PeanoNat Lia Bool List.
From Spl Require Import Spec.Typing Proofs.SemProofs Proofs.TypingProofs Proofs.HoverProofs Proofs.HoverValid.
From Spl Require Import Proofs.GotoProofs Proofs.RefsProofs Spec.Nav Proofs.RefsValidWalks Proofs.RefsValidSem.
Import ListNotations.
Local Open Scope nat_scope.

(* ---------------------------------------------------------------------------------------- *)
(* lists *)

Lemma flat_map_nil_in {A B} (F : A -> list B) l : (forall x, In x l -> F x = []) -> flat_map F l = [].
Proof.
  induction l as [|a l IH]; intros H; [reflexivity|]. cbn [flat_map]. rewrite (H a (or_introl eq_refl)), IH; [reflexivity|].
  intros x Hx. apply H. now right.
Qed.

Lemma flat_map_unique {A B K} (key : A -> K) (F : A -> list B) l d :
  NoDup (map key l) -> In d l -> (forall d', In d' l -> key d' <> key d -> F d' = []) -> flat_map F l = F d.
Proof.
  induction l as [|a l IH]; intros Hn Hin HF; [contradiction|]. cbn [map] in Hn. inversion Hn as [|? ? Ha Hl]; subst. cbn [flat_map].
  destruct Hin as [->|Hin].
  - rewrite flat_map_nil_in; [apply app_nil_r|]. intros x Hx. apply HF; [now right|]. intros E. apply Ha. rewrite <- E. now apply in_map.
  - rewrite (HF a (or_introl eq_refl)); [|intros E; apply Ha; rewrite E; now apply in_map]. cbn [app].
    apply IH; auto. intros d' Hd'. apply HF. now right.
Qed.

Lemma filter_ext_in' {A} (f g : A -> bool) l : (forall x, In x l -> f x = g x) -> filter f l = filter g l.
Proof.
  induction l as [|a l IH]; intros H; [reflexivity|]. cbn [filter]. rewrite (H a (or_introl eq_refl)), IH; [reflexivity|].
  intros x Hx. apply H. now right.
Qed.

(* the first procedure declaration named pn, when names do not repeat *)
Lemma find_proc_decl_hit pn : forall l pd D name,
  NoDup (map (fun d => gname (fst d)) l) -> In (GProc pd, D) l -> pd_name pd = Some name -> id_val name = pn ->
  find_proc_decl pn l = Some (pd, D).
Proof.
  induction l as [|[g off] l IH]; intros pd D name Hn Hin Hnm Hv; [contradiction|].
  cbn [map fst] in Hn. inversion Hn as [|? ? Ha Hl]; subst.
  destruct Hin as [Hin|Hin].
  - injection Hin as -> ->. cbn [find_proc_decl]. rewrite Hnm. unfold named. now rewrite text_eqb_refl.
  - assert (Hne : gname g <> Some (id_val name)).
    { intros E. apply Ha. rewrite E. apply in_map_iff. exists (GProc pd, D). split; [|exact Hin].
      unfold gname. cbn [fst gdecl_name]. now rewrite Hnm. }
    destruct g as [td|pd0|inf]; cbn [find_proc_decl]; try (eapply IH; eauto).
    destruct (pd_name pd0) as [i|] eqn:E; [|eapply IH; eauto].
    destruct (named (id_val name) i) eqn:En; [|eapply IH; eauto].
    exfalso. apply Hne. unfold gname. cbn [gdecl_name]. rewrite E. cbn [option_map]. f_equal. now apply text_eqb_eq.
Qed.

(* ---------------------------------------------------------------------------------------- *)
Section Walks.
Variables (pr : program) (G : gtable).
Hypothesis Hwt : well_typed pr G.
Notation occs := (occurrences pr).

Lemma walk_types o : cls (o_role o) = CType -> map o_id (filter (fun x => samekey x o) occs) = find_types (o_name o) pr.
Proof.
  intros Hc. rewrite <- occs_types. f_equal. apply filter_ext. intros x. unfold samekey, sel, key_R, key_Q. now rewrite Hc.
Qed.

Lemma walk_procs o : cls (o_role o) = CProc -> map o_id (filter (fun x => samekey x o) occs) = find_procs (o_name o) pr.
Proof.
  intros Hc. rewrite <- occs_procs. f_equal. apply filter_ext. intros x. unfold samekey, sel, key_R, key_Q. now rewrite Hc.
Qed.

Lemma walk_vars o pd D name : cls (o_role o) = CLocal -> In (GProc pd, D) (pg_decls pr) -> pd_name pd = Some name ->
  o_proc o = Some (id_val name) ->
  map o_id (filter (fun x => samekey x o) occs) = vars_of_proc (named (o_name o)) pd D.
Proof.
  intros Hc Hin Hn Hp.
  set (Q := fun p : option text => opt_text_eqb p (Some (id_val name))).
  assert (Hext : forall x, samekey x o = sel is_local_role (named (o_name o)) Q x).
  { intros x. unfold samekey, sel, key_R, key_Q, Q. now rewrite Hc, Hp. }
  unfold occurrences. rewrite filter_flat_map.
  rewrite (flat_map_unique (fun d => gname (fst d)) _ _ (GProc pd, D) (well_typed_nodup pr G Hwt) Hin).
  - rewrite (filter_ext _ _ Hext), occs_vars_decl. unfold Q. rewrite Hn. cbn [option_map opt_text_eqb]. now rewrite text_eqb_refl.
  - intros [g' D'] Hin' Hne. rewrite (filter_ext _ _ Hext). destruct g' as [td|pd'|inf]; [apply occs_vars_type | | reflexivity].
    apply filter_none. intros x Hx. apply link_decl_proc in Hx as [Hpx _]. unfold sel, Q. rewrite Hpx.
    unfold gname in Hne. cbn [fst gdecl_name] in Hne. rewrite Hn in Hne. cbn [option_map] in Hne.
    destruct (opt_text_eqb (option_map id_val (pd_name pd')) (Some (id_val name))) eqn:E; [|now rewrite andb_false_r].
    apply opt_text_eqb_eq in E. contradiction.
Qed.

Definition gp_of_role (r : role) : bool := match r with RTypeDecl | RProcDecl | RTypeUse => true | _ => false end.
(* inside a procedure declaration the "global position" bit matters; it is what the role prescribes *)
Definition gp_ok (g : gdecl) (o : occ) (gp : bool) : Prop :=
  match g with GProc _ => gp = gp_of_role (o_role o) | _ => True end.

Theorem referenced_key g D o ctx gp : In (g, D) (pg_decls pr) -> In o (occs_of_decl (g, D)) ->
  match gdecl_name g with Some n => lookup G (id_val n) | None => None end = Some ctx -> gp_ok g o gp ->
  find_referenced_identifiers (o_name o) ctx pr G gp = map o_id (filter (fun x => samekey x o) occs)
  /\ is_predefined (o_name o) ctx G gp = match binding occs o with Some _ => false | None => true end.
Proof.
  intros Hg Ho Hctx Hgp. pose proof (in_occs pr _ _ _ Hg Ho) as Hin. pose proof (well_typed_facts pr G Hwt _ Hg) as Hf.
  unfold decl_facts in Hf. cbn [fst snd] in Hf.
  destruct (occ_table pr G Hwt o Hin) as [Ht [Hcall _]].
  assert (Hglobal : forall ge, lookup G (o_name o) = Some ge -> cls (o_role o) <> CLocal ->
            is_default (entry_of_g ge) = match binding occs o with Some _ => false | None => true end).
  { intros ge Hl Hc. rewrite (entry_default pr G Hwt _ _ Hl). symmetry. now apply (binding_predefined pr G Hwt). }
  destruct g as [td|pd|inf]; [| |contradiction].
  - (* in a type declaration: everything is a type *)
    destruct Hf as [name [te [Hn [Hl [Hten [Hinit Huse]]]]]]. cbn [gdecl_name] in Hctx. rewrite Hn, Hl in Hctx. injection Hctx as <-.
    assert (Hc : cls (o_role o) = CType). { apply link_decl_type in Ho as [_ [i Hr _ _ | i ? ? Hr _ _ _ _]]; now rewrite Hr. }
    rewrite Hc in Ht. destruct Ht as [te' Hl']. split.
    + cbn [find_referenced_identifiers]. symmetry. now apply walk_types.
    + unfold is_predefined. cbn [resolve]. rewrite Hl'. cbn [option_map]. apply (Hglobal _ Hl'). rewrite Hc. discriminate.
  - (* in a procedure declaration *)
    destruct Hf as [name [pe [Hn [Hl [Hpn [Hinit [Hty [Hk [Hnd [Hv Hcl]]]]]]]]]]. cbn [gdecl_name] in Hctx. rewrite Hn, Hl in Hctx. injection Hctx as <-.
    unfold gp_ok in Hgp. pose proof Ho as Ho'. apply link_decl_proc in Ho' as [Hp Hpiece]. rewrite Hn in Hp. cbn [option_map] in Hp.
    unfold is_predefined. cbn [find_referenced_identifiers resolve]. unfold lookup_for, lt_lookup.
    assert (Hlocal : cls (o_role o) = CLocal -> gp = false ->
              (match (if gp then None else Some (pe_local pe)) with Some t => lookup t (o_name o) | None => None end) <> None).
    { intros Hc ->. rewrite Hc in Ht. destruct Ht as [pn [pe' [Hpo [Hlp Hsome]]]]. rewrite Hp in Hpo. injection Hpo as <-.
      rewrite Hl in Hlp. injection Hlp as <-. exact Hsome. }
    destruct (o_role o) eqn:Er; cbn [cls gp_of_role] in *; subst gp.
    + (* RTypeDecl: not in a procedure *)
      exfalso. destruct Hpiece as [i Hr _ _ | i Hr _ _ _ | i Hr _ _ _ | i Hr _ _ _ | i Hr _ _ _ | i Hr _ _ _ | i Hr _ _ _]; congruence.
    + (* RProcDecl *) destruct Ht as [pe' Hl']. rewrite Hl'. cbn [entry_of_g]. split.
      * symmetry. apply walk_procs. now rewrite Er.
      * apply (Hglobal _ Hl'). discriminate.
    + (* RParamDecl *) destruct (lookup (pe_local pe) (o_name o)) as [le|] eqn:El; [|exfalso; now apply Hlocal]. split.
      * rewrite Hpn. unfold find_vars. rewrite (find_proc_decl_hit _ _ pd D name (well_typed_nodup pr G Hwt) Hg Hn eq_refl).
        destruct le; cbn [entry_of_l]; symmetry; apply (walk_vars o pd D name); auto; now rewrite Er.
      * destruct (binding occs o) eqn:Eb; [now destruct le|]. exfalso. revert Eb. apply (binding_local pr G Hwt o Hin). now rewrite Er.
    + (* RVarDecl *) destruct (lookup (pe_local pe) (o_name o)) as [le|] eqn:El; [|exfalso; now apply Hlocal]. split.
      * rewrite Hpn. unfold find_vars. rewrite (find_proc_decl_hit _ _ pd D name (well_typed_nodup pr G Hwt) Hg Hn eq_refl).
        destruct le; cbn [entry_of_l]; symmetry; apply (walk_vars o pd D name); auto; now rewrite Er.
      * destruct (binding occs o) eqn:Eb; [now destruct le|]. exfalso. revert Eb. apply (binding_local pr G Hwt o Hin). now rewrite Er.
    + (* RTypeUse *) destruct Ht as [te' Hl']. rewrite Hl'. cbn [entry_of_g]. split.
      * symmetry. apply walk_types. now rewrite Er.
      * apply (Hglobal _ Hl'). discriminate.
    + (* RVarUse *) destruct (lookup (pe_local pe) (o_name o)) as [le|] eqn:El; [|exfalso; now apply Hlocal]. split.
      * rewrite Hpn. unfold find_vars. rewrite (find_proc_decl_hit _ _ pd D name (well_typed_nodup pr G Hwt) Hg Hn eq_refl).
        destruct le; cbn [entry_of_l]; symmetry; apply (walk_vars o pd D name); auto; now rewrite Er.
      * destruct (binding occs o) eqn:Eb; [now destruct le|]. exfalso. revert Eb. apply (binding_local pr G Hwt o Hin). now rewrite Er.
    + (* RCall *) destruct (Hcall eq_refl) as [pn [pe2 [Hpo [Hlp Hnone]]]]. rewrite Hp in Hpo. injection Hpo as <-.
      rewrite Hl in Hlp. injection Hlp as <-. rewrite Hnone. destruct Ht as [pe' Hl']. rewrite Hl'. cbn [entry_of_g]. split.
      * symmetry. apply walk_procs. now rewrite Er.
      * apply (Hglobal _ Hl'). discriminate.
Qed.

End Walks.
