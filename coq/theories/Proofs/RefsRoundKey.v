(* C13, second half - the renaming of ONE KEY (the occurrences bound to the same entity as an occurrence o of a
   well-typed tree, Proofs/RefsValidSem.v [samekey]) to a fresh name:
     [kg], [kv], [kphi]   the renaming by name it amounts to (global names, locals of the procedure, creators of
                          array types: `T`, `p.x`);
     [key_well_typed]     the renamed tree is well-typed with the renamed table (instance of
                          Proofs/RefsRoundTyping.v [alpha_well_typed]; not for the procedure `main`);
     [tok_key_inj]        on the trees of the grammar, occurrences with the same token have the same key;
     [key_rn_program]     respelling the TOKENS of the occurrences with the key = renaming by name;
     [occN_program], [key_samekey]  the occurrences of the renamed tree and their keys. *)
From Coq Require Import PeanoNat Lia Bool List NArith.
From Spl Require Import Spec.Typing Proofs.SemProofs Proofs.TypingProofs Proofs.HoverProofs Proofs.HoverValid.
From Spl Require Import Proofs.GotoProofs Proofs.RefsProofs Spec.Nav Proofs.RefsValidWalks Proofs.RefsValidSem.
From Spl Require Import Proofs.RefsValidKey Proofs.RefsValid Proofs.LexerProofs Proofs.RefsRoundAbs Proofs.RefsRoundLex Proofs.RefsRoundDefs Proofs.RefsRoundOcc Proofs.RefsRoundTyping.
Import ListNotations.
Local Open Scope nat_scope.

(* ---------------------------------------------------------------------------------------- *)
(* strings without `.` *)
Definition dot : text := [46%N].
Definition nodot (x : text) : Prop := ~ In 46%N x.

Lemma nodot_split (a a' b b' : text) : nodot a -> nodot a' -> a ++ dot ++ b = a' ++ dot ++ b' -> a = a' /\ b = b'.
Proof.
  unfold nodot, dot. revert a'. induction a as [|c a IH]; intros [|c' a'] Ha Ha' E; cbn [app] in E.
  - injection E as E. auto.
  - injection E as E1 E2. exfalso. apply Ha'. left. now symmetry.
  - injection E as E1 E2. exfalso. apply Ha. now left.
  - injection E as -> E. destruct (IH a') as [-> ->]; auto; intros H; [apply Ha | apply Ha']; now right.
Qed.

Lemma nodot_ne (x a b : text) : nodot x -> x <> a ++ dot ++ b.
Proof. intros H ->. apply H. apply in_or_app. right. now left. Qed.

Lemma starts_app p r : starts p (p ++ r) = true.
Proof. induction p as [|c p IH]; [reflexivity|]. cbn [app starts]. now rewrite N.eqb_refl, IH. Qed.

Lemma starts_split p s : starts p s = true -> exists r, s = p ++ r.
Proof. intros H. exists (skipn (length p) s). now apply starts_skipn. Qed.

Lemma skipn_app_len {A} (a b : list A) : skipn (length a) (a ++ b) = b.
Proof. induction a as [|x a IH]; [reflexivity|]. exact IH. Qed.

(* ---------------------------------------------------------------------------------------- *)
(* the renaming of one key *)
Section KeyFns.
Variables (kc : rclass) (kp : option text) (old new : text).

Definition sw (x : text) : text := if text_eqb x old then new else x.
Definition kg (x : text) : text := match kc with CLocal => x | _ => sw x end.
Definition kv (q x : text) : text :=
  match kc with CLocal => if opt_text_eqb (Some q) kp then sw x else x | _ => x end.
Definition kphi (c : text) : text :=
  match kc with
  | CType => sw c
  | CProc => if starts (old ++ dot) c then new ++ skipn (length old) c else c
  | CLocal => match kp with Some P => if text_eqb c (P ++ dot ++ old) then P ++ dot ++ new else c | None => c end
  end.
Definition inuse (x : text) : Prop := x <> new /\ nodot x.

Lemma sw_old : sw old = new.
Proof. unfold sw. now rewrite text_eqb_refl. Qed.
Lemma sw_other x : x <> old -> sw x = x.
Proof. unfold sw. intros H. destruct (text_eqb x old) eqn:E; [apply text_eqb_eq in E; contradiction | reflexivity]. Qed.

Lemma sw_inj x y : x <> new -> y <> new -> sw x = sw y -> x = y.
Proof.
  unfold sw. intros Hx Hy. destruct (text_eqb x old) eqn:Ex, (text_eqb y old) eqn:Ey; intros E.
  - apply text_eqb_eq in Ex, Ey. congruence.
  - congruence.
  - congruence.
  - exact E.
Qed.

Lemma sw_sep x y : x <> new -> y <> new -> sw x = y -> x = y.
Proof. unfold sw. intros Hx Hy. destruct (text_eqb x old); congruence. Qed.

Lemma kg_inj x y : inuse x -> inuse y -> kg x = kg y -> x = y.
Proof. intros [Hx _] [Hy _]. unfold kg. destruct kc; auto using sw_inj. Qed.

Lemma kv_inj q x y : inuse x -> inuse y -> kv q x = kv q y -> x = y.
Proof. intros [Hx _] [Hy _]. unfold kv. destruct kc; auto. destruct (opt_text_eqb (Some q) kp); auto using sw_inj. Qed.

Lemma kgv_sep q x y : inuse x -> inuse y -> kg x = kv q y -> x = y.
Proof.
  intros [Hx _] [Hy _]. unfold kg, kv. destruct kc; try (now apply sw_sep).
  destruct (opt_text_eqb (Some q) kp); [|auto]. intros E. symmetry. now apply sw_sep.
Qed.
End KeyFns.

Lemma init_keys_nodot : Forall nodot (map fst initialized).
Proof.
  unfold nodot. repeat constructor; intros H; vm_compute in H; repeat (destruct H as [H|H]; [discriminate H|]); exact H.
Qed.

Lemma main_not_init : lookup initialized s_main = None.
Proof. vm_compute. reflexivity. Qed.

(* ---------------------------------------------------------------------------------------- *)
Section Key.
Variables (pr : program) (G : gtable) (o : occ) (new : text).
Hypothesis Hwt : well_typed pr G.
Hypothesis Ho : In o (occurrences pr).
Hypothesis Hb : binding (occurrences pr) o <> None.
Hypothesis Hnames : forall x, In x (occurrences pr) -> o_name x <> new /\ nodot (o_name x).
Hypothesis Hnew_init : lookup initialized new = None.
Hypothesis Hmain : ~ (cls (o_role o) = CProc /\ o_name o = s_main).

Notation occs := (occurrences pr).
Notation old := (o_name o).
Notation kc := (cls (o_role o)).
Notation kp := (o_proc o).
Notation g := (kg kc old new).
Notation v := (kv kc kp old new).
Notation phi := (kphi kc kp old new).
Notation U := (inuse new).

Lemma U_occ x : In x occs -> U (o_name x).
Proof. exact (Hnames x). Qed.

Lemma old_not_init : kc <> CLocal -> lookup initialized old = None.
Proof.
  intros Hc. pose proof (binding_predefined pr G Hwt o Ho Hc) as H. destruct (binding occs o); [|contradiction].
  destruct (lookup initialized old); [discriminate H | reflexivity].
Qed.

(* the procedure around a local key *)
Lemma local_proc : kc = CLocal -> exists pn, kp = Some pn /\ lookup initialized pn = None /\ U pn.
Proof.
  intros Hc. destruct (occ_decl pr o Ho) as [g0 [D [Hg Hin]]]. pose proof (well_typed_facts pr G Hwt _ Hg) as Hf.
  unfold decl_facts in Hf. cbn [fst snd] in Hf. destruct g0 as [td|pd|inf]; [| |contradiction].
  - apply link_decl_type in Hin as [_ [i Hr _ _ | i te0 toff Hr _ _ _ _]]; rewrite Hr in Hc; discriminate.
  - destruct Hf as [name [pe [Hn [Hl [Hpn [Hinit _]]]]]]. pose proof Hin as Hin'. apply link_decl_proc in Hin' as [Hp _].
    rewrite Hn in Hp. cbn [option_map] in Hp. exists (id_val name). split; [exact Hp|]. split; [exact Hinit|].
    destruct (name_occ_proc pd D name Hn) as [a [Ha [Hid _]]]. rewrite <- (o_name_shift a name D Hid). apply U_occ. exact (in_occs pr _ _ _ Hg Ha).
Qed.

Lemma main_occ : exists a, In a occs /\ o_name a = s_main.
Proof.
  destruct Hwt as [[es [_ [_ [pe [Hl _]]]]] _]. destruct (global_decl_occ pr G Hwt _ _ Hl main_not_init) as [a [Ha [Hn _]]]. eauto.
Qed.

Lemma new_not_main : new <> s_main.
Proof. destruct main_occ as [a [Ha Hn]]. destruct (Hnames a Ha) as [H _]. congruence. Qed.

Lemma kc_cases : kc = CType \/ kc = CProc \/ kc = CLocal.
Proof. destruct (o_role o); cbn [cls]; auto. Qed.

Lemma old_not_main : kc <> CLocal -> old <> s_main.
Proof.
  intros Hc E. destruct Hwt as [[es [_ [_ [pe [Hl _]]]]] _]. destruct (occ_table pr G Hwt o Ho) as [Ht _].
  destruct kc_cases as [Ek|[Ek|Ek]]; [| |contradiction]; rewrite Ek in Ht.
  - destruct Ht as [te Hl']. rewrite E in Hl'. congruence.
  - apply Hmain. auto.
Qed.

Lemma key_U_init x : lookup initialized x <> None -> U x.
Proof.
  intros H. split; [intros ->; now rewrite Hnew_init in H|]. apply lookup_some_keys in H.
  pose proof init_keys_nodot as Hf. rewrite Forall_forall in Hf. now apply Hf.
Qed.

Lemma key_g_init x : lookup initialized x <> None -> g x = x.
Proof.
  intros H. unfold kg. destruct kc eqn:Ek; try reflexivity; apply sw_other; intros ->; apply H, old_not_init; rewrite Ek; discriminate.
Qed.

Lemma key_v_init q x : lookup initialized q <> None -> v q x = x.
Proof.
  intros H. unfold kv. destruct kc eqn:Ek; try reflexivity. destruct (local_proc Ek) as [pn [Hp [Hi _]]]. rewrite Hp.
  destruct (opt_text_eqb (Some q) (Some pn)) eqn:E; [|reflexivity]. apply opt_text_eqb_eq in E. injection E as ->. contradiction.
Qed.

Lemma key_g_main x : U x -> (g x = s_main <-> x = s_main).
Proof.
  intros [Hx _]. unfold kg. destruct kc_cases as [Ek|[Ek|Ek]]; rewrite Ek; try tauto.
  - split; intros E.
    + apply (sw_sep old new x s_main Hx); [intros E'; now apply new_not_main | exact E].
    + subst x. apply sw_other. intros E'. apply old_not_main; [rewrite Ek; discriminate | now symmetry].
  - split; intros E.
    + apply (sw_sep old new x s_main Hx); [intros E'; now apply new_not_main | exact E].
    + subst x. apply sw_other. intros E'. apply old_not_main; [rewrite Ek; discriminate | now symmetry].
Qed.

(* the table entry of the key's name *)
Lemma old_entry :
  match kc with
  | CType => exists te, lookup G old = Some (GTypeE te)
  | CProc => exists pe, lookup G old = Some (GProcE pe)
  | CLocal => True
  end.
Proof. destruct (occ_table pr G Hwt o Ho) as [Ht _]. destruct kc_cases as [Ek|[Ek|Ek]]; rewrite Ek in Ht |- *; auto. Qed.

Lemma key_decl_ok : Forall (decl_ok g v phi U) (pg_decls pr).
Proof.
  apply Forall_forall. intros [g0 D] Hg. pose proof (well_typed_facts pr G Hwt _ Hg) as Hf.
  unfold decl_facts in Hf. cbn [fst snd] in Hf. unfold decl_ok. cbn [fst].
  pose proof old_entry as Hold. destruct (U_occ o Ho) as [_ Hod].
  destruct g0 as [td|pd|inf]; [| |exact I].
  - (* a type declaration *)
    destruct Hf as [name [te [Hn [Hl _]]]]. intros name' E. rewrite Hn in E. injection E as <-.
    destruct (name_occ_type td D name Hn) as [a [Ha [Hid _]]]. pose proof (U_occ a (in_occs pr _ _ _ Hg Ha)) as Hu.
    rewrite (o_name_shift a name D Hid) in Hu. split; [exact Hu|]. destruct Hu as [_ Hnd].
    unfold kphi, kg. destruct kc_cases as [Ek|[Ek|Ek]]; rewrite Ek in Hold |- *.
    + reflexivity.
    + destruct Hold as [pe Hlo].
      destruct (starts (old ++ dot) (id_val name)) eqn:Es.
      * exfalso. apply starts_split in Es as [r Es]. rewrite <- app_assoc in Es. exact (nodot_ne _ _ _ Hnd Es).
      * symmetry. apply sw_other. intros E. rewrite E in Hl. congruence.
    + destruct kp as [P|]; [|reflexivity]. destruct (text_eqb (id_val name) (P ++ dot ++ old)) eqn:Es; [|reflexivity].
      exfalso. apply text_eqb_eq in Es. exact (nodot_ne _ _ _ Hnd Es).
  - (* a procedure declaration *)
    destruct Hf as [name [pe [Hn [Hl _]]]]. intros name' E. rewrite Hn in E. injection E as <-.
    destruct (name_occ_proc pd D name Hn) as [a [Ha [Hid _]]]. pose proof (U_occ a (in_occs pr _ _ _ Hg Ha)) as Hu.
    rewrite (o_name_shift a name D Hid) in Hu. split; [exact Hu|]. destruct Hu as [_ Hnd]. split.
    + intros x [_ Hxd]. unfold kphi, kg, kv. destruct kc_cases as [Ek|[Ek|Ek]]; rewrite Ek in Hold |- *.
      * destruct Hold as [te Hlo]. rewrite (sw_other old new (id_val name)); [|intros E; rewrite E in Hl; congruence].
        apply sw_other. intros E. symmetry in E. exact (nodot_ne _ _ _ Hod E).
      * destruct (text_eqb (id_val name) old) eqn:En.
        -- apply text_eqb_eq in En. rewrite En, sw_old.
           assert (E1 : starts (old ++ dot) (old ++ [46%N] ++ x) = true).
           { change (old ++ [46%N] ++ x) with (old ++ dot ++ x). rewrite app_assoc. apply starts_app. }
           rewrite E1, skipn_app_len. reflexivity.
        -- assert (Hne : id_val name <> old) by (intros E; rewrite E, text_eqb_refl in En; discriminate).
           rewrite (sw_other _ _ _ Hne). destruct (starts (old ++ dot) (id_val name ++ [46%N] ++ x)) eqn:Es; [|reflexivity].
           exfalso. apply starts_split in Es as [r Es]. rewrite <- app_assoc in Es. apply (nodot_split _ _ _ _ Hnd Hod) in Es as [E _]. contradiction.
      * destruct (local_proc eq_refl) as [P [Hp [_ [_ HPd]]]] || destruct (local_proc Ek) as [P [Hp [_ [_ HPd]]]]. rewrite Hp.
        cbn [opt_text_eqb]. destruct (text_eqb (id_val name) P) eqn:En.
        -- apply text_eqb_eq in En. rewrite En. unfold sw. destruct (text_eqb x old) eqn:Ex.
           ++ apply text_eqb_eq in Ex. subst x. now rewrite text_eqb_refl.
           ++ destruct (text_eqb (P ++ [46%N] ++ x) (P ++ dot ++ old)) eqn:Ey; [|reflexivity].
              apply text_eqb_eq in Ey. apply app_inv_head in Ey. injection Ey as Ey. subst x. rewrite text_eqb_refl in Ex. discriminate.
        -- destruct (text_eqb (id_val name ++ [46%N] ++ x) (P ++ dot ++ old)) eqn:Ey; [|reflexivity].
           apply text_eqb_eq in Ey. apply (nodot_split _ _ _ _ Hnd HPd) in Ey as [E _]. rewrite E, text_eqb_refl in En. discriminate.
    + intros i Hi. destruct (local_occ_of_name pd D i Hi) as [a' [Ha' [Hid' _]]].
      rewrite <- (o_name_shift a' i D Hid'). apply U_occ. exact (in_occs pr _ _ _ Hg Ha').
Qed.

(* the renamed tree is well-typed *)
Theorem key_well_typed : well_typed (rn_program (nmf g v) pr) (rn_gtable g v phi G).
Proof.
  apply (alpha_well_typed g v phi U).
  - intros x y. apply kg_inj.
  - intros q x y. apply kv_inj.
  - intros q x y. apply kgv_sep.
  - exact key_U_init.
  - exact key_g_init.
  - exact key_v_init.
  - exact key_g_main.
  - exact Hwt.
  - exact key_decl_ok.
Qed.
End Key.

(* ---------------------------------------------------------------------------------------- *)
(* occurrences with the same token have the same key *)
Section TokKey.
Variables (pr : program) (G : gtable).
Hypothesis Hwt : well_typed pr G.
Notation occs := (occurrences pr).

(* same name, same procedure around, same side of the global-position bit: the same class *)
Lemma class_of_place a b : In a occs -> In b occs -> o_name a = o_name b -> o_proc a = o_proc b ->
  gp_of_role (o_role a) = gp_of_role (o_role b) -> cls (o_role a) = cls (o_role b).
Proof.
  intros Ha Hb Hn Hp Hg. destruct (occ_table pr G Hwt a Ha) as [Ta [Ca _]]. destruct (occ_table pr G Hwt b Hb) as [Tb [Cb _]].
  assert (Hloc : forall x y, In x occs -> o_role y = RCall -> cls (o_role x) = CLocal -> o_name x = o_name y -> o_proc x = o_proc y ->
            (exists pn pe, o_proc y = Some pn /\ lookup G pn = Some (GProcE pe) /\ lookup (pe_local pe) (o_name y) = None) -> False).
  { intros x y Hx Hr Hc Hnm Hpr Hcall. destruct (occ_table pr G Hwt x Hx) as [Tx _]. rewrite Hc in Tx.
    destruct Tx as [pn [pe [Hpx [Hlx Hsome]]]]. destruct Hcall as [pn' [pe' [Hpy [Hly Hnone]]]].
    rewrite Hpr, Hpy in Hpx. injection Hpx as ->. rewrite Hlx in Hly. injection Hly as ->. rewrite Hnm in Hsome. contradiction. }
  rewrite Hn in Ta.
  destruct (o_role a) eqn:Ra, (o_role b) eqn:Rb; cbn [cls gp_of_role] in *; try reflexivity; try discriminate Hg;
    try (destruct Ta as [? Ta], Tb as [? Tb]; congruence).
  - exfalso. apply (Hloc a b Ha Rb); [now rewrite Ra | exact Hn | exact Hp | exact (Cb eq_refl)].
  - exfalso. apply (Hloc a b Ha Rb); [now rewrite Ra | exact Hn | exact Hp | exact (Cb eq_refl)].
  - exfalso. apply (Hloc a b Ha Rb); [now rewrite Ra | exact Hn | exact Hp | exact (Cb eq_refl)].
  - exfalso. apply (Hloc b a Hb Ra); [now rewrite Rb | now symmetry | now symmetry | exact (Ca eq_refl)].
  - exfalso. apply (Hloc b a Hb Ra); [now rewrite Rb | now symmetry | now symmetry | exact (Ca eq_refl)].
  - exfalso. apply (Hloc b a Hb Ra); [now rewrite Rb | now symmetry | now symmetry | exact (Ca eq_refl)].
Qed.
End TokKey.

Theorem tok_key_inj (p : aprog) (G : gtable) : well_typed (expected p) G ->
  forall a b, In a (occurrences (expected p)) -> In b (occurrences (expected p)) -> o_tok a = o_tok b -> samekey a b = true.
Proof.
  intros Hwt a b Ha Hb Ht.
  destruct (occ_placed p a Ha) as [l1 [dd [l2 [j [Hds [Hoa [Hja [Hna Hga]]]]]]]].
  destruct (occ_placed p b Hb) as [l1' [dd' [l2' [j' [Hds' [Hob [Hjb [Hnb Hgb]]]]]]]].
  assert (Hlt : j < len (fl_decl dd)) by (apply nth_error_Some; congruence).
  assert (Hlt' : j' < len (fl_decl dd')) by (apply nth_error_Some; congruence).
  rewrite Hds in Hds'. destruct (split_unique _ _ _ _ _ _ (o_tok a) Hds') as [E1 [E2 E3]]; [lia | lia |]. subst l1' dd' l2'.
  assert (j' = j) by lia. subst j'. rewrite Hna in Hnb. injection Hnb as Hnm.
  apply samekey_spec. destruct dd as [c1 c2 xn c3 ty c4 | c1 c2 xn c3 ps c4 c5 vs b0 c6].
  - cbn [x_decl] in Hoa, Hob.
    apply link_decl_type in Hoa as [_ [ia Hra _ _ | ia ? ? Hra _ _ _ _]];
      apply link_decl_type in Hob as [_ [ib Hrb _ _ | ib ? ? Hrb _ _ _ _]]; rewrite Hra, Hrb; (split; [reflexivity|]; split; [exact Hnm | discriminate]).
  - set (dd := DProc c1 c2 xn c3 ps c4 c5 vs b0 c6) in *. change (x_decl dd) with (GProc (the_proc dd)) in *.
    rewrite Hga in Hgb. apply link_decl_proc in Hoa as [Hpa _]. apply link_decl_proc in Hob as [Hpb _].
    split; [|split; [exact Hnm | intros _; now rewrite Hpa, Hpb]].
    apply (class_of_place (expected p) G Hwt a b Ha Hb Hnm); [now rewrite Hpa, Hpb | exact Hgb].
Qed.

(* ---------------------------------------------------------------------------------------- *)
(* renaming the tokens of the occurrences with the key of o = renaming by name *)
Lemma bool_iff (a b : bool) : (a = true <-> b = true) -> a = b.
Proof. destruct a, b; intros [H1 H2]; auto; try (symmetry; now auto). Qed.

Lemma Forall2_impl_in {A B} (R R' : A -> B -> Prop) l l' :
  (forall a b, In a l -> R a b -> R' a b) -> Forall2 R l l' -> Forall2 R' l l'.
Proof.
  intros H. induction 1 as [|a b l l' Hab _ IH]; constructor; [apply H; [now left | exact Hab]|].
  apply IH. intros x y Hx. apply H. now right.
Qed.

(* x' is the occurrence x renamed by name *)
Definition occN (g : text -> text) (v : text -> text -> text) (x x' : occ) : Prop :=
  o_id x' = {| id_val := F_occ (nmf g v) x; id_info := id_info (o_id x) |} /\ o_role x' = o_role x
  /\ o_proc x' = option_map g (o_proc x).

Theorem occN_program g v (T : program) : Forall2 (occN g v) (occurrences T) (occurrences (rn_program (nmf g v) T)).
Proof.
  unfold occurrences, rn_program. cbn [pg_decls]. apply Forall2_flat_map_map. intros [g0 D] _. cbn [fst snd].
  apply (Forall2_impl_in (occR (nmf g v) (new_proc (nmf g v) (g0, D)))); [|apply occR_decl].
  intros a b Ha [H1 [H2 H3]]. split; [exact H1|]. split; [exact H2|]. rewrite H3. unfold new_proc. cbn [fst snd].
  destruct g0 as [td|pd|inf]; [| |destruct Ha].
  - apply link_decl_type in Ha as [Hp _]. now rewrite Hp.
  - apply link_decl_proc in Ha as [Hp _]. rewrite Hp. now destruct (pd_name pd).
Qed.

Lemma occN_tok g v x x' : occN g v x x' -> o_tok x' = o_tok x /\ o_name x' = F_occ (nmf g v) x.
Proof. intros [H _]. unfold o_tok, o_name. now rewrite H. Qed.

Section Agree.
Variables (pr : program) (G : gtable) (o : occ) (new : text).
Hypothesis Hwt : well_typed pr G.
Hypothesis Ho : In o (occurrences pr).
Hypothesis Hnames : forall x, In x (occurrences pr) -> o_name x <> new /\ nodot (o_name x).
Hypothesis Htok : forall a b, In a (occurrences pr) -> In b (occurrences pr) -> o_tok a = o_tok b -> samekey a b = true.

Notation occs := (occurrences pr).
Notation old := (o_name o).
Notation kc := (cls (o_role o)).
Notation kp := (o_proc o).
Notation g := (kg kc old new).
Notation v := (kv kc kp old new).
Notation U := (inuse new).

Definition keyL : list occ := filter (fun x => samekey x o) occs.
Definition keysel (k : nat) : bool := existsb (fun y => Nat.eqb (o_tok y) k) keyL.

Lemma keysel_spec x : In x occs -> keysel (o_tok x) = samekey x o.
Proof.
  intros Hx. apply bool_iff. unfold keysel, keyL. rewrite existsb_exists. split.
  - intros [y [Hy He]]. apply filter_In in Hy as [Hy Hk]. apply Nat.eqb_eq in He.
    apply (samekey_trans x y o); [apply Htok; auto | exact Hk].
  - intros Hk. exists x. split; [apply filter_In; auto | apply Nat.eqb_refl].
Qed.

Lemma local_proc_of x : In x occs -> cls (o_role x) = CLocal -> exists pn, o_proc x = Some pn.
Proof. intros Hx Hc. destruct (occ_table pr G Hwt x Hx) as [T _]. rewrite Hc in T. destruct T as [pn [pe [H _]]]. eauto. Qed.

Theorem key_agree x : In x occs -> F_occ (Fh (hS keysel new)) x = F_occ (nmf g v) x.
Proof.
  intros Hx. unfold F_occ, Fh, hS. rewrite (keysel_spec x Hx). unfold nmf, kg, kv.
  destruct (samekey x o) eqn:Ek.
  - apply samekey_spec in Ek as [Hc [Hn Hp]]. rewrite Hc, Hn. destruct kc eqn:Ekc; try (now rewrite sw_old).
    rewrite (Hp eq_refl). destruct (local_proc_of o Ho) as [pn Epn]; [now rewrite Ekc|]. rewrite Epn.
    cbn [opt_text_eqb]. now rewrite text_eqb_refl, sw_old.
  - assert (Hne : cls (o_role x) = kc -> (kc = CLocal -> o_proc x = kp) -> o_name x <> old).
    { intros H1 H2 H3. assert (samekey x o = true) by (apply samekey_spec; auto). congruence. }
    destruct (cls (o_role x)) eqn:Ecx.
    + destruct kc eqn:Ekc; try reflexivity.
      * symmetry. apply sw_other. apply Hne; [reflexivity | discriminate].
      * symmetry. apply sw_other. intros E. pose proof (class_of_name pr G Hwt x o Hx Ho) as Hcl. rewrite Ecx, Ekc in Hcl.
        discriminate Hcl; [discriminate | discriminate | exact E].
    + destruct kc eqn:Ekc; try reflexivity.
      * symmetry. apply sw_other. intros E. pose proof (class_of_name pr G Hwt x o Hx Ho) as Hcl. rewrite Ecx, Ekc in Hcl.
        discriminate Hcl; [discriminate | discriminate | exact E].
      * symmetry. apply sw_other. apply Hne; [reflexivity | discriminate].
    + destruct (local_proc_of x Hx Ecx) as [pn Epn]. rewrite Epn. destruct kc eqn:Ekc; try reflexivity.
      destruct (opt_text_eqb (Some pn) kp) eqn:Ep; [|reflexivity]. apply opt_text_eqb_eq in Ep.
      symmetry. apply sw_other. apply Hne; [reflexivity | intros _; congruence].
Qed.

(* the renamed tree: by tokens = by name *)
Theorem key_rn_program : rn_program (Fh (hS keysel new)) pr = rn_program (nmf g v) pr.
Proof. apply rn_program_ext. exact key_agree. Qed.

(* the procedure around an occurrence is a declared name *)
Lemma proc_U x pn : In x occs -> o_proc x = Some pn -> U pn.
Proof.
  intros Hx Hp. destruct (occ_decl pr x Hx) as [g0 [D [Hg Hin]]]. destruct g0 as [td|pd|inf]; [| |destruct Hin].
  - apply link_decl_type in Hin as [Hp' _]. congruence.
  - apply link_decl_proc in Hin as [Hp' _]. rewrite Hp in Hp'. destruct (pd_name pd) as [name|] eqn:Hn; [|discriminate].
    injection Hp' as ->. destruct (name_occ_proc pd D name Hn) as [a [Ha [Hid _]]].
    rewrite <- (o_name_shift a name D Hid). apply Hnames. exact (in_occs pr _ _ _ Hg Ha).
Qed.

(* the keys are preserved *)
Theorem key_samekey a b a' b' : In a occs -> In b occs -> occN g v a a' -> occN g v b b' -> samekey a' b' = samekey a b.
Proof.
  intros Ha Hb Na Nb. destruct (occN_tok _ _ _ _ Na) as [_ Ena]. destruct (occN_tok _ _ _ _ Nb) as [_ Enb].
  destruct Na as [_ [Ra Pa]]. destruct Nb as [_ [Rb Pb]]. apply bool_iff. rewrite !samekey_spec, Ena, Enb, Ra, Rb, Pa, Pb.
  unfold F_occ, nmf. pose proof (Hnames a Ha) as Ua. pose proof (Hnames b Hb) as Ub.
  split; intros [Hc [Hn Hp]]; (split; [exact Hc|]).
  - destruct (cls (o_role b)) eqn:Ecb; rewrite Hc in Hn.
    + split; [apply (kg_inj kc old new _ _ Ua Ub Hn) | discriminate].
    + split; [apply (kg_inj kc old new _ _ Ua Ub Hn) | discriminate].
    + specialize (Hp eq_refl). destruct (local_proc_of a Ha Hc) as [pa Epa]. destruct (local_proc_of b Hb Ecb) as [pb Epb].
      rewrite Epa, Epb in Hp, Hn |- *. cbn [option_map] in Hp. injection Hp as Hp.
      apply (kg_inj kc old new _ _ (proc_U a pa Ha Epa) (proc_U b pb Hb Epb)) in Hp. subst pb.
      split; [apply (kv_inj kc kp old new pa _ _ Ua Ub Hn) | reflexivity].
  - destruct (cls (o_role b)) eqn:Ecb; rewrite Hc.
    + split; [now rewrite Hn | discriminate].
    + split; [now rewrite Hn | discriminate].
    + specialize (Hp eq_refl). rewrite Hp, Hn. split; reflexivity.
Qed.
End Agree.
