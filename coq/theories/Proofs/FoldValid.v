(* C17 - the folding ranges of a syntactically valid program, in ANY layout, are the extents of its
   procedure declarations: [fold_valid].

   p ranges over the abstract programs of the grammar (Spec/Grammar.v: a comment slot in front of
   every token; [prog_ok] = the dangling-else discipline), t over the texts that lex to p's token
   kinds - i.e. over all layouts of p (white space, line breaks, comment texts, spellings of
   literals are free).  The proof composes
     C04  Proofs/GrammarProg.v [roundtrip]: parse = expected p, whose procedure declarations sit at
          the token offsets of their first token and span [0, number of their tokens);
     table construction and semantic analysis keep every declaration's range and offset;
     the slice of a declaration's tokens starts with its doc comments c1, then `proc`, and ends with `}`. *)
From Coq Require Import PeanoNat.
From Spl Require Import Model.Fold Spec.Grammar Proofs.FoldProofs Proofs.GrammarProg.
Local Open Scope nat_scope.

(* ---------------------------------------------------------------------------------------- *)
(* the handler only looks at the procedure ranges                                            *)

Definition fold_range (d : doc) (r : range) : res (N * N) :=
  do sl <- slice (d_toks d) r;
  let pr := pos_range (fold_text_range (skip_leading_comments sl)) (d_text d) in
  ROk (fst (fst pr), fst (snd pr)).

Fixpoint fold_ranges (d : doc) (rs : list range) : res (list (N * N)) :=
  match rs with
  | [] => ROk []
  | r :: rest => do x <- fold_range d r; do xs <- fold_ranges d rest; ROk (x :: xs)
  end.

Lemma fold_decls_ranges d l : fold_decls d l = fold_ranges d (proc_ranges l).
Proof.
  induction l as [|[g off] l IH]; [reflexivity|].
  destruct g; cbn [fold_decls proc_ranges fold_ranges]; try exact IH.
  now rewrite IH.
Qed.

(* ---------------------------------------------------------------------------------------- *)
(* table construction and semantic analysis keep ranges and offsets                          *)

Lemma build_procdecl_info d table off d' table' :
  build_procdecl d table off = ROk (d', table') -> pd_info d' = pd_info d.
Proof.
  unfold build_procdecl. destruct (pd_name d) as [name|]; [|intros [= <- _]; reflexivity].
  destruct (build_parameters _ _ _ _) as [[[ps local1] parameters]|]; cbn [rbind]; [|discriminate].
  destruct (build_variables _ _ _ _) as [[vs local2]|]; cbn [rbind]; [|discriminate].
  destruct (enter _ _ _) as [table2 ok].
  destruct (if ok then _ else _) as [name'|]; cbn [rbind]; [|discriminate].
  intros [= <- _]. reflexivity.
Qed.

Lemma build_gdecls_ranges : forall ds table off ds' table',
  build_gdecls ds table off = ROk (ds', table') -> proc_ranges ds' = proc_ranges ds.
Proof.
  induction ds as [|[g o] ds IH]; intros table off ds' table' H; cbn [build_gdecls] in H.
  - injection H as <- _. reflexivity.
  - destruct (build_gdecl g table (off + o)) as [[g' table1]|] eqn:Eg; cbn [rbind] in H; [|discriminate].
    destruct (build_gdecls ds table1 off) as [[r' table2]|] eqn:Er; cbn [rbind] in H; [|discriminate].
    injection H as <- _. specialize (IH _ _ _ _ Er).
    destruct g as [td|pd|inf]; cbn [build_gdecl] in Eg.
    + destruct (build_typedecl td table (off + o)) as [[t' tb]|]; cbn [rbind] in Eg; [|discriminate].
      injection Eg as <- _. exact IH.
    + destruct (build_procdecl pd table (off + o)) as [[p' tb]|] eqn:Ep; cbn [rbind] in Eg; [|discriminate].
      injection Eg as <- _. cbn [proc_ranges]. now rewrite IH, (build_procdecl_info _ _ _ _ _ Ep).
    + injection Eg as <- _. exact IH.
Qed.

Lemma build_res_ranges p p1 table :
  build_res p = ROk (p1, table) -> proc_ranges (pg_decls p1) = proc_ranges (pg_decls p).
Proof.
  unfold build_res, build_program.
  destruct (build_gdecls (pg_decls p) initialized 0) as [[ds' table']|] eqn:E; cbn [rbind]; [|discriminate].
  pose proof (build_gdecls_ranges _ _ _ _ _ E) as Hr.
  destruct (lookup table' s_main) as [[te|main]|].
  - discriminate.
  - destruct (pe_params main).
    + intros [= <- _]. exact Hr.
    + destruct (to_error _ _); cbn [rbind]; [|discriminate]. intros [= <- _]. exact Hr.
  - intros [= <- _]. exact Hr.
Qed.

Lemma analyze_gdecl_ranges table x x' :
  analyze_gdecl table x = ROk x' -> proc_ranges [x'] = proc_ranges [x].
Proof.
  destruct x as [g off]. unfold analyze_gdecl.
  destruct g as [td|pd|inf]; try (intros [= <-]; reflexivity).
  destruct (pd_name pd) as [name|]; [|intros [= <-]; reflexivity].
  destruct (lookup table (id_val name)) as [[te|pe]|]; try discriminate; try (intros [= <-]; reflexivity).
  destruct (negb _); [intros [= <-]; reflexivity|].
  destruct (an_stmts _ _ _); cbn [rbind]; [|discriminate]. intros [= <-]. reflexivity.
Qed.

Lemma proc_ranges_cons x l : proc_ranges (x :: l) = proc_ranges [x] ++ proc_ranges l.
Proof. destruct x as [[td|pd|inf] off]; reflexivity. Qed.

Lemma analyze_gdecls_ranges table : forall ds ds',
  analyze_gdecls table ds = ROk ds' -> proc_ranges ds' = proc_ranges ds.
Proof.
  induction ds as [|x ds IH]; intros ds' H; cbn [analyze_gdecls] in H.
  - injection H as <-. reflexivity.
  - destruct (analyze_gdecl table x) as [x'|] eqn:Ex; cbn [rbind] in H; [|discriminate].
    destruct (analyze_gdecls table ds) as [r'|] eqn:Er; cbn [rbind] in H; [|discriminate].
    injection H as <-. rewrite (proc_ranges_cons x'), (proc_ranges_cons x).
    now rewrite (analyze_gdecl_ranges _ _ _ Ex), (IH _ eq_refl).
Qed.

Lemma analyze_res_ranges p table p2 :
  analyze_res p table = ROk p2 -> proc_ranges (pg_decls p2) = proc_ranges (pg_decls p).
Proof.
  unfold analyze_res. destruct (analyze_gdecls table (pg_decls p)) as [ds'|] eqn:E; cbn [rbind]; [|discriminate].
  intros [= <-]. exact (analyze_gdecls_ranges _ _ _ E).
Qed.

(* the pipeline on a text whose tokens parse to tree p0 *)
Lemma new_doc_ranges t toks p0 d :
  lex t = Some toks -> parse toks = Done p0 -> new_doc_res t = ODone d ->
  d_text d = t /\ d_toks d = toks /\ proc_ranges (pg_decls (d_ast d)) = proc_ranges (pg_decls p0).
Proof.
  intros Hl Hp. unfold new_doc_res. rewrite Hl, Hp.
  destruct (build_res p0) as [[p1 table]|] eqn:Eb; [|discriminate].
  destruct (analyze_res p1 table) as [p2|] eqn:Ea; [|discriminate].
  intros [= <-]. cbn [d_text d_toks d_ast]. repeat split.
  now rewrite (analyze_res_ranges _ _ _ Ea), (build_res_ranges _ _ _ Eb).
Qed.

(* ---------------------------------------------------------------------------------------- *)
(* the procedure ranges of the mandated tree                                                 *)

(* (index of the first token, index one past the last token) of every procedure declaration *)
Fixpoint decl_spans (o : nat) (l : list adecl) : list range :=
  match l with
  | [] => []
  | d :: r =>
      match d with
      | DProc _ _ _ _ _ _ _ _ _ _ => [(0 + o, length (fl_decl d) + o)]
      | DType _ _ _ _ _ _ => []
      end ++ decl_spans (o + length (fl_decl d)) r
  end.

Lemma proc_ranges_x_decls : forall l o, proc_ranges (x_decls o l) = decl_spans o l.
Proof.
  induction l as [|d l IH]; intros o; [reflexivity|].
  cbn [x_decls decl_spans]. destruct d; cbn [x_decl proc_ranges]; rewrite IH; reflexivity.
Qed.

(* (index of the `proc` keyword, index of the closing brace) *)
Fixpoint proc_spans (o : nat) (l : list adecl) : list (nat * nat) :=
  match l with
  | [] => []
  | d :: r =>
      match d with
      | DProc c1 _ _ _ _ _ _ _ _ _ => [(o + length c1, o + length (fl_decl d) - 1)]
      | DType _ _ _ _ _ _ => []
      end ++ proc_spans (o + length (fl_decl d)) r
  end.

(* ---------------------------------------------------------------------------------------- *)
(* one declaration's token slice                                                             *)

Lemma skip_comments_kinds : forall (c1 : list text) (sl : list token) k rest,
  map tk sl = cm c1 ++ k :: rest -> (forall s, k <> Comment s) ->
  exists pre f post, sl = pre ++ f :: post /\ length pre = length c1 /\ tk f = k /\
                     skip_leading_comments sl = f :: post.
Proof.
  induction c1 as [|c c1 IH]; intros sl k rest H Hk.
  - destruct sl as [|f post]; [discriminate|]. cbn [cm map app] in H. injection H as H1 H2.
    exists [], f, post. repeat split; try assumption.
    cbn [skip_leading_comments]. rewrite H1. destruct k; try reflexivity. exfalso. eapply Hk. reflexivity.
  - destruct sl as [|x sl]; [discriminate|]. cbn [cm map app] in H. injection H as H1 H2.
    destruct (IH sl k rest H2 Hk) as [pre [f [post [-> [Hl [Hf Hs]]]]]].
    exists (x :: pre), f, post. repeat split; cbn [length app]; try congruence.
    cbn [skip_leading_comments]. rewrite H1. exact Hs.
Qed.

Lemma last_kind (sl : list token) ks k l0 rr :
  map tk sl = ks ++ [k] -> rev sl = l0 :: rr -> tk l0 = k /\ nth_error sl (length sl - 1) = Some l0.
Proof.
  intros H Hr. split.
  - apply (f_equal (@rev _)) in H. rewrite <- map_rev, Hr, rev_app_distr in H. cbn in H. congruence.
  - apply (f_equal (@rev _)) in Hr. rewrite rev_involutive in Hr. subst sl. cbn [rev].
    rewrite app_length. cbn [length].
    rewrite Nat.add_sub.
    rewrite nth_error_app2 by apply Nat.le_refl. rewrite Nat.sub_diag. reflexivity.
Qed.

Definition extent_rel (t : text) (toks : list token) (span : nat * nat) (se : N * N) : Prop :=
  exists first last, nth_error toks (fst span) = Some first /\ nth_error toks (snd span) = Some last /\
                     tk first = KProc /\ tk last = RCurly /\
                     se = (line_of t (ts first), line_of t (te last)).

Lemma fold_range_proc d o c1 ks :
  map tk (firstn (length (cm c1 ++ KProc :: ks ++ [RCurly])) (skipn o (d_toks d))) = cm c1 ++ KProc :: ks ++ [RCurly] ->
  exists se, fold_range d (0 + o, length (cm c1 ++ KProc :: ks ++ [RCurly]) + o) = ROk se /\
             extent_rel (d_text d) (d_toks d) (o + length c1, o + length (cm c1 ++ KProc :: ks ++ [RCurly]) - 1) se.
Proof.
  set (n := length (cm c1 ++ KProc :: ks ++ [RCurly])). intros H.
  assert (Hn : length (firstn n (skipn o (d_toks d))) = n).
  { rewrite <- (map_length tk), H. reflexivity. }
  assert (Hn1 : 1 <= n) by (unfold n; rewrite app_length; cbn [length]; lia).
  assert (Hlen : o + n <= length (d_toks d)).
  { rewrite firstn_length, skipn_length in Hn. lia. }
  unfold fold_range. rewrite slice_ok by lia. cbn [rbind].
  replace (n + o - (0 + o)) with n by lia. cbn [Nat.add].
  set (sl := firstn n (skipn o (d_toks d))) in *.
  destruct (skip_comments_kinds c1 sl KProc (ks ++ [RCurly]) H ltac:(discriminate)) as [pre [f [post [Hsl [Hpre [Hf Hskip]]]]]].
  rewrite Hskip. unfold fold_text_range.
  destruct (rev (f :: post)) as [|l0 rr] eqn:Er.
  { apply (f_equal (@length _)) in Er. rewrite rev_length in Er. discriminate. }
  cbn [hd_error].
  assert (Hrev : rev sl = l0 :: rr ++ rev pre).
  { rewrite Hsl, rev_app_distr, Er. reflexivity. }
  destruct (last_kind sl (cm c1 ++ KProc :: ks) RCurly l0 (rr ++ rev pre)) as [Hk Hnth].
  { rewrite H. now rewrite <- app_assoc. }
  { exact Hrev. }
  eexists. split; [reflexivity|]. unfold extent_rel. cbn [fst snd pos_range].
  exists f, l0. repeat split; try assumption.
  - assert (Hx : nth_error sl (length c1) = Some f).
    { rewrite Hsl, nth_error_app2 by lia. rewrite Hpre, Nat.sub_diag. reflexivity. }
    unfold sl in Hx. apply nth_firstn in Hx as [Hx _]. now rewrite nth_skipn in Hx.
  - rewrite Hn in Hnth. unfold sl in Hnth. apply nth_firstn in Hnth as [Hx _]. rewrite nth_skipn in Hx.
    replace (o + n - 1) with (o + (n - 1)) by lia. exact Hx.
Qed.

(* ---------------------------------------------------------------------------------------- *)
(* all declarations                                                                          *)

Lemma map_tk_skipn (toks : list token) o : map tk (skipn o toks) = skipn o (map tk toks).
Proof. revert toks; induction o as [|o IH]; intros [|x l]; cbn [skipn map]; auto. Qed.

Lemma map_tk_firstn (toks : list token) n : map tk (firstn n toks) = firstn n (map tk toks).
Proof. revert toks; induction n as [|n IH]; intros [|x l]; cbn [firstn map]; auto. now rewrite IH. Qed.

Lemma firstn_exact {A} (a b : list A) : firstn (length a) (a ++ b) = a.
Proof. induction a; cbn [length firstn app]; [destruct b; reflexivity | now rewrite IHa]. Qed.

Lemma skipn_exact {A} (a b : list A) : skipn (length a) (a ++ b) = b.
Proof. induction a; cbn [length skipn app]; auto. Qed.

Lemma skipn_add {A} : forall a b (l : list A), skipn b (skipn a l) = skipn (a + b) l.
Proof.
  induction a as [|a IH]; intros b l; [reflexivity|].
  destruct l as [|x l]; [now rewrite !skipn_nil|]. cbn [skipn Nat.add]. apply IH.
Qed.

Lemma fl_decl_proc_shape c1 c2 x c3 ps c4 c5 vs b c6 :
  exists ks, fl_decl (DProc c1 c2 x c3 ps c4 c5 vs b c6) = cm c1 ++ KProc :: ks ++ [RCurly].
Proof.
  cbn [fl_decl]. eexists. f_equal. f_equal.
  repeat (rewrite ?app_comm_cons, ?app_assoc). reflexivity.
Qed.

Lemma fold_spans d : forall (ds : list adecl) o rest,
  map tk (skipn o (d_toks d)) = flat_map fl_decl ds ++ rest ->
  exists rs, fold_ranges d (decl_spans o ds) = ROk rs /\
             Forall2 (extent_rel (d_text d) (d_toks d)) (proc_spans o ds) rs.
Proof.
  induction ds as [|d0 ds IH]; intros o rest H.
  - exists []. split; [reflexivity | constructor].
  - cbn [flat_map] in H. rewrite <- app_assoc in H.
    assert (Hnext : map tk (skipn (o + length (fl_decl d0)) (d_toks d)) = flat_map fl_decl ds ++ rest).
    { rewrite <- skipn_add, map_tk_skipn, H. apply skipn_exact. }
    destruct (IH _ _ Hnext) as [rs [Hrs Hf]].
    cbn [decl_spans proc_spans].
    destruct d0 as [c1 c2 x c3 ty c4 | c1 c2 x c3 ps c4 c5 vs b c6].
    + exists rs. split; assumption.
    + destruct (fl_decl_proc_shape c1 c2 x c3 ps c4 c5 vs b c6) as [ks Hks].
      set (dd := DProc c1 c2 x c3 ps c4 c5 vs b c6) in *.
      destruct (fold_range_proc d o c1 ks) as [se [Hse Hrel]].
      { rewrite <- Hks, map_tk_firstn, H. apply firstn_exact. }
      rewrite <- Hks in Hse, Hrel.
      exists (se :: rs). split.
      * cbn [app fold_ranges]. rewrite Hse. cbn [rbind]. rewrite Hrs. reflexivity.
      * cbn [app]. constructor; assumption.
Qed.

(* ---------------------------------------------------------------------------------------- *)
(* the theorem                                                                               *)

Theorem fold_valid (p : aprog) (t : text) (toks : list token) (d : doc) :
  prog_ok p = true -> lex t = Some toks -> map tk toks = flatten p ++ [Eof] ->
  new_doc_res t = ODone d ->
  exists rs, fold d = ROk rs /\ Forall2 (extent_rel t toks) (proc_spans 0 (a_decls p)) rs.
Proof.
  intros Hok Hl Hk Hd.
  destruct (new_doc_ranges t toks (expected p) d Hl (roundtrip p toks Hok Hk) Hd) as [Ht [Htoks Hr]].
  unfold fold. rewrite fold_decls_ranges, Hr. unfold expected. cbn [pg_decls].
  rewrite proc_ranges_x_decls. rewrite <- Ht, <- Htoks.
  apply (fold_spans d (a_decls p) 0 (cm (a_ceof p) ++ [Eof])).
  rewrite Htoks. cbn [skipn]. rewrite Hk. unfold flatten. now rewrite <- app_assoc.
Qed.
