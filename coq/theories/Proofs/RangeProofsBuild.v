(* R0 and R1, semantic side: on a tree whose identifier ranges are all non-empty
   (IdentsNonEmpty, RangeProofsIdent.v) `build` and `analyze` never reach the assert of
   Identifier::to_error, and they return trees with the same property.  Together with the lexer
   and parser theorems: AnalyzedSource::new never panics and never runs out of fuel. *)
From Coq Require Import Arith Lia List.
From Spl Require Import Model.Errors Proofs.SemProofs Proofs.LexerProofs Spec.LexSpec.
From Spl Require Import Proofs.ParserProofs Proofs.RangeProofsIdent.
Import ListNotations.
Local Open Scope nat_scope.

(* ------------------------------------------------------------------------------------------ *)
(* R0: what the lexer returns ends with its only Eof token *)

Theorem lex_eoflast s toks : lex s = Some toks -> EofLast toks.
Proof.
  intros H. destruct (tiles_last_eof 0 s toks (lex_tiles s toks H)) as (body & -> & Hb).
  exists body. eexists. split; [reflexivity|]. split; [reflexivity | exact Hb].
Qed.

Theorem lex_parse_ok s : exists toks p, lex s = Some toks /\ parse toks = Done p.
Proof.
  destruct (lex_total s) as [toks H]. destruct (parse_ok toks (lex_eoflast _ _ H)) as [p Hp]. eauto.
Qed.

(* ------------------------------------------------------------------------------------------ *)
(* results that are either good values or failures at another site than the identifier assert *)

Definition OkRes {A} (P : A -> Prop) (r : res A) : Prop :=
  match r with ROk a => P a | RFail s => s <> SiteIdentEmpty end.

Lemma okr_ret {A} (P : A -> Prop) a : P a -> OkRes P (ROk a).
Proof. exact (fun H => H). Qed.

Lemma okr_bind {A B} (P : A -> Prop) (Q : B -> Prop) (r : res A) (k : A -> res B) :
  OkRes P r -> (forall a, P a -> OkRes Q (k a)) -> OkRes Q (rbind r k).
Proof. destruct r as [a|s]; cbn [OkRes rbind]; auto. Qed.

Lemma okr_weaken {A} (P Q : A -> Prop) r : (forall a, P a -> Q a) -> OkRes P r -> OkRes Q r.
Proof. destruct r; cbn; auto. Qed.

Lemma IdOk_append i x : IdOk i -> IdOk (ident_append i x).
Proof. exact (fun H => H). Qed.

Lemma to_error_ok i m : IdOk i ->
  to_error i m = ROk {| e_s := i_e (id_info i) - 1; e_e := i_e (id_info i); e_m := m (id_val i) |}.
Proof.
  intros H. unfold to_error. apply IdOk_pos in H.
  destruct (Nat.eqb_spec (i_e (id_info i)) 0) as [E|_]; [lia | reflexivity].
Qed.

Lemma ident_flag_ok i m : IdOk i ->
  ident_flag i m = ROk (ident_append i {| e_s := i_e (id_info i) - 1; e_e := i_e (id_info i); e_m := m (id_val i) |}).
Proof. intros H. unfold ident_flag. rewrite (to_error_ok i m H). reflexivity. Qed.

Lemma okr_ident_flag i m : IdOk i -> OkRes IdOk (ident_flag i m).
Proof. intros H. rewrite (ident_flag_ok i m H). exact H. Qed.

(* ------------------------------------------------------------------------------------------ *)
(* build *)

Fixpoint okr_gdt_te l g c (t : typeexpr) {struct t} :
  TexprOk t -> OkRes (fun r => TexprOk (fst r)) (get_data_type_te l g c t).
Proof.
  destruct t as [n | size base inf]; cbn [get_data_type_te TexprOk].
  - intros H. try (destruct (text_eqb _ _); [exact H|]).
    destruct (lt_lookup l g _) as [[]|];
      try (apply okr_bind with (P := IdOk); [apply okr_ident_flag, H | intros n' Hn'; exact Hn']).
    exact H.
  - destruct base as [[b off]|]; intros H; [|exact I].
    apply okr_bind with (P := fun r => TexprOk (fst r)); [apply okr_gdt_te, H|].
    intros [b' bt] Hb. exact Hb.
Qed.

Lemma okr_gdt l g c t :
  OptP (RefP TexprOk) t -> OkRes (fun r => OptP (RefP TexprOk) (fst r)) (get_data_type l g c t).
Proof.
  unfold get_data_type. destruct t as [[te off]|]; intros H; [|exact I].
  apply okr_bind with (P := fun r => TexprOk (fst r)); [apply okr_gdt_te, H|].
  intros [te' dt] H'. exact H'.
Qed.

(* the only table entry whose name Identifier::to_error is applied to is `main` *)
Definition TabOk (t : gtable) : Prop := forall pe, lookup t s_main = Some (GProcE pe) -> IdOk (pe_name pe).

Lemma TabOk_initialized : TabOk initialized.
Proof. intros pe H. vm_compute in H. discriminate H. Qed.

Lemma TabOk_enter t k v t' ok :
  enter t k v = (t', ok) -> TabOk t -> (forall pe, v = GProcE pe -> IdOk (pe_name pe)) -> TabOk t'.
Proof.
  unfold enter. destruct (lookup t k); intros [= <- <-] Ht Hv; [exact Ht|].
  intros pe Hl. rewrite lookup_app in Hl. destruct (lookup t s_main) eqn:E.
  - apply Ht. congruence.
  - destruct (text_eqb k s_main); [|discriminate]. apply Hv. congruence.
Qed.

Lemma okr_build_typedecl d t off :
  TypedeclOk d -> TabOk t -> OkRes (fun r => TypedeclOk (fst r) /\ TabOk (snd r)) (build_typedecl d t off).
Proof.
  intros [Hn Hty] Ht. unfold build_typedecl. destruct (td_name d) as [name|] eqn:En.
  2:{ cbn. split; [split; [rewrite En; exact I | exact Hty] | exact Ht]. }
  cbn [OptP] in Hn. destruct (text_eqb _ _).
  - apply okr_bind with (P := IdOk); [apply okr_ident_flag, Hn|].
    intros n' Hn'. cbn. repeat split; assumption.
  - apply okr_bind with (P := fun r => OptP (RefP TexprOk) (fst r)); [apply okr_gdt, Hty|].
    intros [ty' dt] Hty'. cbn [fst] in Hty'.
    destruct (enter t (id_val name) _) as [t' ok] eqn:Een.
    apply okr_bind with (P := IdOk); [destruct ok; [exact Hn | apply okr_ident_flag, Hn]|].
    intros n' Hn'. cbn. repeat split; try assumption.
    eapply TabOk_enter; [exact Een | exact Ht | intros pe E; discriminate E].
Qed.

Lemma okr_build_parameter p pn g l :
  RefP ParamdeclOk p -> OkRes (fun r => RefP ParamdeclOk (fst (fst r))) (build_parameter p pn g l).
Proof.
  unfold build_parameter, RefP. destruct p as [pd off]. cbn [fst].
  destruct pd as [doc is_ref [name|] ty inf | inf]; intros H; try exact H.
  destruct H as [Hn Hty]. cbn [OptP] in Hn.
  apply okr_bind with (P := fun r => OptP (RefP TexprOk) (fst r)); [apply okr_gdt, Hty|].
  intros [ty' dt] Hty'. cbn [fst] in Hty'.
  apply okr_bind with (P := IdOk).
  { destruct dt as [d|]; [|exact Hn]. destruct (_ && _); [apply okr_ident_flag, Hn | exact Hn]. }
  intros name1 Hn1. destruct (enter l (id_val name) _) as [l' ok].
  apply okr_bind with (P := IdOk); [destruct ok; [exact Hn1 | apply okr_ident_flag, Hn1]|].
  intros name2 Hn2. cbn. split; assumption.
Qed.

Lemma okr_build_parameters ps pn g l :
  Forall (RefP ParamdeclOk) ps ->
  OkRes (fun r => Forall (RefP ParamdeclOk) (fst (fst r))) (build_parameters ps pn g l).
Proof.
  intros H. revert l. induction H as [|p r Hp Hr IH]; intros l; cbn [build_parameters]; [constructor|].
  apply okr_bind with (P := fun r => RefP ParamdeclOk (fst (fst r))); [apply okr_build_parameter, Hp|].
  intros [[p' l1] oe] Hp'. cbn [fst] in Hp'.
  apply okr_bind with (P := fun r => Forall (RefP ParamdeclOk) (fst (fst r))); [apply IH|].
  intros [[r' l2] es] Hr'. cbn. constructor; assumption.
Qed.

Lemma okr_build_variable v pn g l :
  RefP VardeclOk v -> OkRes (fun r => RefP VardeclOk (fst r)) (build_variable v pn g l).
Proof.
  unfold build_variable, RefP. destruct v as [vd off]. cbn [fst].
  destruct vd as [doc [name|] ty inf | inf]; intros H; try exact H.
  destruct H as [Hn Hty]. cbn [OptP] in Hn.
  apply okr_bind with (P := fun r => OptP (RefP TexprOk) (fst r)); [apply okr_gdt, Hty|].
  intros [ty' dt] Hty'. cbn [fst] in Hty'.
  destruct (enter l (id_val name) _) as [l' ok].
  apply okr_bind with (P := IdOk); [destruct ok; [exact Hn | apply okr_ident_flag, Hn]|].
  intros name' Hn'. cbn. split; assumption.
Qed.

Lemma okr_build_variables vs pn g l :
  Forall (RefP VardeclOk) vs -> OkRes (fun r => Forall (RefP VardeclOk) (fst r)) (build_variables vs pn g l).
Proof.
  intros H. revert l. induction H as [|v r Hv Hr IH]; intros l; cbn [build_variables]; [constructor|].
  apply okr_bind with (P := fun r => RefP VardeclOk (fst r)); [apply okr_build_variable, Hv|].
  intros [v' l1] Hv'. cbn [fst] in Hv'.
  apply okr_bind with (P := fun r => Forall (RefP VardeclOk) (fst r)); [apply IH|].
  intros [r' l2] Hr'. cbn. constructor; assumption.
Qed.

Lemma okr_build_procdecl d t off :
  ProcdeclOk d -> TabOk t -> OkRes (fun r => ProcdeclOk (fst r) /\ TabOk (snd r)) (build_procdecl d t off).
Proof.
  intros (Hn & Hps & Hvs & Hss) Ht. unfold build_procdecl. destruct (pd_name d) as [name|] eqn:En.
  2:{ cbn. split; [|exact Ht]. unfold ProcdeclOk. rewrite En. repeat split; assumption. }
  cbn [OptP] in Hn.
  apply okr_bind with (P := fun r => Forall (RefP ParamdeclOk) (fst (fst r))); [apply okr_build_parameters, Hps|].
  intros [[ps' l1] params] Hps'. cbn [fst] in Hps'.
  apply okr_bind with (P := fun r => Forall (RefP VardeclOk) (fst r)); [apply okr_build_variables, Hvs|].
  intros [vs' l2] Hvs'. cbn [fst] in Hvs'.
  destruct (enter t (id_val name) _) as [t' ok] eqn:Een.
  apply okr_bind with (P := IdOk); [destruct ok; [exact Hn | apply okr_ident_flag, Hn]|].
  intros n' Hn'. cbn. split; [repeat split; assumption|].
  eapply TabOk_enter; [exact Een | exact Ht |]. intros pe [= <-]. exact Hn.
Qed.

Lemma okr_build_gdecl d t off :
  GdeclOk d -> TabOk t -> OkRes (fun r => GdeclOk (fst r) /\ TabOk (snd r)) (build_gdecl d t off).
Proof.
  destruct d as [td | pd | inf]; cbn [build_gdecl GdeclOk]; intros H Ht.
  - apply okr_bind with (P := fun r => TypedeclOk (fst r) /\ TabOk (snd r)); [now apply okr_build_typedecl|].
    intros [t' tb] H'. exact H'.
  - apply okr_bind with (P := fun r => ProcdeclOk (fst r) /\ TabOk (snd r)); [now apply okr_build_procdecl|].
    intros [p' tb] H'. exact H'.
  - cbn. auto.
Qed.

Lemma okr_build_gdecls ds t off :
  Forall (RefP GdeclOk) ds -> TabOk t ->
  OkRes (fun r => Forall (RefP GdeclOk) (fst r) /\ TabOk (snd r)) (build_gdecls ds t off).
Proof.
  intros H. revert t. induction H as [|[d o] r Hd Hr IH]; intros t Ht; cbn [build_gdecls].
  - cbn. auto.
  - apply okr_bind with (P := fun r => GdeclOk (fst r) /\ TabOk (snd r)); [now apply okr_build_gdecl|].
    intros [d' t1] [Hd' Ht1]. cbn [fst snd] in *.
    apply okr_bind with (P := fun r => Forall (RefP GdeclOk) (fst r) /\ TabOk (snd r)); [now apply IH|].
    intros [r' t2] [Hr' Ht2]. cbn. split; [constructor; assumption | assumption].
Qed.

Lemma okr_build_res p :
  IdentsNonEmpty p -> OkRes (fun r => IdentsNonEmpty (fst r) /\ TabOk (snd r)) (build_res p).
Proof.
  intros H. unfold build_res, build_program.
  apply okr_bind with (P := fun r => Forall (RefP GdeclOk) (fst r) /\ TabOk (snd r)).
  { apply okr_build_gdecls; [exact H | exact TabOk_initialized]. }
  intros [ds' t'] [Hd Ht]. cbn [fst snd] in *.
  destruct (lookup t' s_main) as [[te|main]|] eqn:L.
  - cbn. discriminate.
  - destruct (pe_params main); [cbn; auto|].
    rewrite (to_error_ok _ _ (Ht main L)). cbn. auto.
  - cbn. auto.
Qed.

(* `build` on a tree with non-empty identifier ranges does not panic, and returns such a tree *)
Theorem build_res_ok p :
  IdentsNonEmpty p -> exists p' t, build_res p = ROk (p', t) /\ IdentsNonEmpty p' /\ TabOk t.
Proof.
  intros H. pose proof (okr_build_res p H) as Hr. pose proof (build_sites p) as Hs.
  destruct (build_res p) as [[p' t]|s]; [exists p', t; cbn in Hr; tauto|].
  exfalso. apply Hr. exact (Hs s eq_refl).
Qed.

(* ------------------------------------------------------------------------------------------ *)
(* analyze *)

Lemma VarOk_append v x : VarOk v -> VarOk (var_append v x).
Proof. destruct v; exact (fun H => H). Qed.

Lemma ExprOk_append e x : ExprOk e -> ExprOk (expr_append e x).
Proof. destruct e; cbn [expr_append ExprOk]; try exact (fun H => H). apply VarOk_append. Qed.

Section AnalyzeOk.
Variable L : option ltable.
Variable G : option gtable.

Fixpoint okr_an_var (v : variable) {struct v} :
  VarOk v -> OkRes (fun r => VarOk (fst r)) (an_var L G v)
with okr_an_expr (e : expr) {struct e} :
  ExprOk e -> OkRes (fun r => ExprOk (fst r)) (an_expr L G e).
Proof.
  - destruct v as [named | arr index inf]; cbn [an_var VarOk].
    + intros H. destruct (lt_lookup L G _) as [[]|];
        try (apply okr_bind with (P := IdOk); [apply okr_ident_flag, H | intros n' Hn'; exact Hn']);
        exact H.
    + intros [Ha Hi].
      apply okr_bind with (P := fun idx => match idx with Some (e, _) => ExprOk e | None => True end).
      * destruct index as [[e off]|]; [|exact I].
        apply okr_bind with (P := fun r => ExprOk (fst r)); [apply okr_an_expr, Hi|].
        intros [e' ty] He'. cbn [fst] in He'. cbn.
        destruct ty as [[]|]; try exact He'; apply ExprOk_append, He'.
      * intros index' Hi'.
        apply okr_bind with (P := fun r => VarOk (fst r)); [apply okr_an_var, Ha|].
        intros [arr' aty] Ha'. cbn [fst] in Ha'.
        destruct aty as [[]|]; cbn; split; assumption.
  - destruct e as [op l r inf | a inf | i | op a inf | v | inf]; cbn [an_expr ExprOk]; intros H; try exact H.
    + destruct H as [Hl Hr].
      apply okr_bind with (P := fun r => ExprOk (fst r)); [apply okr_an_expr, Hl|].
      intros [l' lt] Hl'. cbn [fst] in Hl'.
      apply okr_bind with (P := fun r => ExprOk (fst r)); [apply okr_an_expr, Hr|].
      intros [r' rt] Hr'. cbn [fst] in Hr'. cbn. split; assumption.
    + apply okr_bind with (P := fun r => ExprOk (fst r)); [apply okr_an_expr, H|].
      intros [a' ty] Ha'. exact Ha'.
    + apply okr_bind with (P := fun r => ExprOk (fst r)); [apply okr_an_expr, H|].
      intros [a' ty] Ha'. exact Ha'.
    + apply okr_bind with (P := fun r => VarOk (fst r)); [apply okr_an_var, H|].
      intros [v' ty] Hv'. exact Hv'.
Qed.

Lemma okr_an_cond c m : OptP (RefP ExprOk) c -> OkRes (OptP (RefP ExprOk)) (an_cond L G c m).
Proof.
  unfold an_cond. destruct c as [[e off]|]; intros H; [|exact I].
  apply okr_bind with (P := fun r => ExprOk (fst r)); [apply okr_an_expr, H|].
  intros [e' ty] He'. cbn [fst] in He'. cbn. unfold RefP. cbn [fst].
  destruct ty as [[]|]; try exact He'; apply ExprOk_append, He'.
Qed.

Lemma okr_an_args cname i args params :
  Forall (RefP ExprOk) args -> OkRes (Forall (RefP ExprOk)) (an_args L G cname i args params).
Proof.
  intros H. revert i params. induction H as [|[a off] ar Ha Har IH]; intros i params; cbn [an_args]; [constructor|].
  destruct params as [|p pr]; [cbn; constructor; assumption|].
  unfold RefP in Ha. cbn [fst] in Ha.
  apply okr_bind with (P := fun r => ExprOk (fst r)).
  { apply okr_an_expr. destruct (_ && _); [apply ExprOk_append, Ha | exact Ha]. }
  intros [a2 ty] Ha2. cbn [fst] in Ha2.
  apply okr_bind with (P := Forall (RefP ExprOk)); [apply IH|].
  intros r Hr. cbn. constructor; [|exact Hr]. unfold RefP. cbn [fst].
  destruct ty as [t1|]; [|exact Ha2]. destruct (ve_ty p) as [t2|]; [|exact Ha2].
  destruct (dt_eqb t1 t2); [exact Ha2 | apply ExprOk_append, Ha2].
Qed.

Fixpoint okr_an_stmt (s : stmt) {struct s} : StmtOk s -> OkRes StmtOk (an_stmt L G s).
Proof.
  destruct s as [inf | v e inf | name args inf | c t e inf | c b inf | body inf | inf]; cbn [an_stmt];
    try (intros H; exact H).
  - intros [Hv He]. destruct e as [[e off]|]; [|cbn; split; [exact Hv | exact I]].
    apply okr_bind with (P := fun r => VarOk (fst r)); [apply okr_an_var, Hv|].
    intros [v' lty] Hv'. cbn [fst] in Hv'.
    apply okr_bind with (P := fun r => ExprOk (fst r)); [apply okr_an_expr, He|].
    intros [e' rty] He'. cbn [fst] in He'. cbn. split; assumption.
  - intros [Hn Ha]. destruct (lt_lookup L G _) as [[]|]; try (cbn; split; assumption).
    apply okr_bind with (P := Forall (RefP ExprOk)); [apply okr_an_args, Ha|].
    intros args' Ha'. cbn. split; assumption.
  - intros (Hc & Ht & He).
    apply okr_bind with (P := OptP (RefP ExprOk)); [apply okr_an_cond, Hc|]. intros c' Hc'.
    apply okr_bind with (P := fun r => match r with Some (x, _) => StmtOk x | None => True end).
    { destruct t as [[x off]|]; [|exact I].
      apply okr_bind with (P := StmtOk); [apply okr_an_stmt, Ht | intros x' Hx'; exact Hx']. }
    intros t' Ht'.
    apply okr_bind with (P := fun r => match r with Some (x, _) => StmtOk x | None => True end).
    { destruct e as [[x off]|]; [|exact I].
      apply okr_bind with (P := StmtOk); [apply okr_an_stmt, He | intros x' Hx'; exact Hx']. }
    intros e' He'. cbn. repeat split; assumption.
  - intros (Hc & Hb).
    apply okr_bind with (P := OptP (RefP ExprOk)); [apply okr_an_cond, Hc|]. intros c' Hc'.
    apply okr_bind with (P := fun r => match r with Some (x, _) => StmtOk x | None => True end).
    { destruct b as [[x off]|]; [|exact I].
      apply okr_bind with (P := StmtOk); [apply okr_an_stmt, Hb | intros x' Hx'; exact Hx']. }
    intros b' Hb'. cbn. split; assumption.
  - intros H.
    apply okr_bind with (P := Forall (RefP StmtOk)); [|intros body' Hb'; apply StmtOk_block, Hb'].
    cbn [StmtOk] in H. induction body as [|[x off] r IHr]; [constructor|].
    destruct H as [Hx Hr].
    apply okr_bind with (P := StmtOk); [apply okr_an_stmt, Hx|]. intros x' Hx'.
    apply okr_bind with (P := Forall (RefP StmtOk)); [apply IHr, Hr|]. intros r' Hr'.
    cbn. constructor; assumption.
Qed.

Lemma okr_an_stmts l : Forall (RefP StmtOk) l -> OkRes (Forall (RefP StmtOk)) (an_stmts L G l).
Proof.
  induction 1 as [|[x off] r Hx Hr IH]; cbn [an_stmts]; [constructor|].
  apply okr_bind with (P := StmtOk); [apply okr_an_stmt, Hx|]. intros x' Hx'.
  apply okr_bind with (P := Forall (RefP StmtOk)); [exact IH|]. intros r' Hr'.
  cbn. constructor; assumption.
Qed.

End AnalyzeOk.

Lemma okr_analyze_gdecl t d : RefP GdeclOk d -> OkRes (RefP GdeclOk) (analyze_gdecl t d).
Proof.
  unfold analyze_gdecl. destruct d as [g offset]. destruct g as [td | pd | inf]; intros H; try exact H.
  destruct (pd_name pd) as [name|] eqn:En; [|exact H].
  destruct (lookup t (id_val name)) as [[te|pe]|]; [exact H | | cbn; discriminate].
  destruct (negb _); [exact H|].
  destruct H as (Hn & Hps & Hvs & Hss).
  apply okr_bind with (P := Forall (RefP StmtOk)); [apply okr_an_stmts, Hss|].
  intros stmts' Hs'. unfold RefP, GdeclOk, ProcdeclOk. cbn. rewrite En in Hn. repeat split; assumption.
Qed.

Lemma okr_analyze_gdecls t ds :
  Forall (RefP GdeclOk) ds -> OkRes (Forall (RefP GdeclOk)) (analyze_gdecls t ds).
Proof.
  induction 1 as [|d r Hd Hr IH]; cbn [analyze_gdecls]; [constructor|].
  apply okr_bind with (P := RefP GdeclOk); [apply okr_analyze_gdecl, Hd|]. intros d' Hd'.
  apply okr_bind with (P := Forall (RefP GdeclOk)); [exact IH|]. intros r' Hr'.
  cbn. constructor; assumption.
Qed.

Lemma okr_analyze_res p t : IdentsNonEmpty p -> OkRes IdentsNonEmpty (analyze_res p t).
Proof.
  intros H. unfold analyze_res.
  apply okr_bind with (P := Forall (RefP GdeclOk)); [apply okr_analyze_gdecls, H|].
  intros ds' Hd. exact Hd.
Qed.

(* `analyze` applied to what `build` returned on such a tree does not panic either *)
Theorem analyze_res_ok p0 p t :
  build_res p0 = ROk (p, t) -> IdentsNonEmpty p -> exists p', analyze_res p t = ROk p' /\ IdentsNonEmpty p'.
Proof.
  intros Hb H. pose proof (okr_analyze_res p t H) as Hr. pose proof (analyze_after_build_sites _ _ _ Hb) as Hs.
  destruct (analyze_res p t) as [p'|s]; [exists p'; split; [reflexivity | exact Hr]|].
  exfalso. apply Hr. exact (Hs s eq_refl).
Qed.

(* ------------------------------------------------------------------------------------------ *)
(* AnalyzedSource::new never panics, for every text *)

Theorem new_doc_total t : exists d, new_doc_res t = ODone d.
Proof.
  unfold new_doc_res. destruct (lex_total t) as [toks Hl]. rewrite Hl.
  destruct (parse_ok toks (lex_eoflast _ _ Hl)) as [p Hp]. rewrite Hp.
  pose proof (parse_idents_nonempty _ _ Hp) as Hi.
  destruct (build_res_ok p Hi) as (p1 & tb & Hb & Hi1 & _). rewrite Hb.
  destruct (analyze_res_ok _ _ _ Hb Hi1) as (p2 & Ha & _). rewrite Ha. eauto.
Qed.

(* and the document it returns: tokens of the lexer, Eof last, tree with non-empty identifiers *)
Theorem new_doc_shape t d :
  new_doc_res t = ODone d ->
  d_text d = t /\ lex t = Some (d_toks d) /\ EofLast (d_toks d) /\ IdentsNonEmpty (d_ast d) /\
  exists p p1, parse (d_toks d) = Done p /\ build_res p = ROk (p1, d_table d) /\ analyze_res p1 (d_table d) = ROk (d_ast d).
Proof.
  unfold new_doc_res. destruct (lex t) as [toks|] eqn:Hl; [|discriminate].
  destruct (parse toks) as [p| |] eqn:Hp; [|discriminate|discriminate].
  destruct (build_res p) as [[p1 tb]|] eqn:Hb; [|discriminate].
  destruct (analyze_res p1 tb) as [p2|] eqn:Ha; [|discriminate].
  intros [= <-]. cbn [d_text d_toks d_ast d_table].
  pose proof (parse_idents_nonempty _ _ Hp) as Hi.
  destruct (build_res_ok p Hi) as (p1' & tb' & Hb' & Hi1 & _). rewrite Hb in Hb'. injection Hb' as <- <-.
  destruct (analyze_res_ok _ _ _ Hb Hi1) as (p2' & Ha' & Hi2). rewrite Ha in Ha'. injection Ha' as <-.
  repeat split; try assumption; [eapply lex_eoflast; eassumption | eauto].
Qed.
