(* COMPLETENESS of the parser: type expressions, comma-separated lists, statements.
   The statement invariant also carries the dangling-else discipline: the abstract statement
   reconstructed from a clean tree satisfies [else_ok], because the parser gives an `else` to the
   nearest `if` (after a statement that ends in an open `if` the next token is not `else`). *)
From Coq Require Import Arith Lia List Bool.
From Spl Require Import Spec.Grammar Model.Parser Model.Errors Proofs.ParserComb Proofs.GrammarBase
  Proofs.GrammarExpr Proofs.GrammarStmt Proofs.CompleteBase Proofs.CompleteExpr.
From Spl Require Proofs.TypingProofs.
Import ListNotations.
Local Open Scope nat_scope.

Lemma refs_nil {A} (errs : A -> list err) (l : list (A * nat)) :
  flat_map (fun x => shift_es (snd x) (errs (fst x))) l = [] -> Forall (fun ao => errs (fst ao) = []) l.
Proof.
  induction l as [|[a off] l IH]; intros H; [constructor|]. cbn [flat_map fst snd] in H.
  apply app_nil_inv in H as [H1 H2]. constructor; [cbn; now apply shift_es_nil in H1 | now apply IH].
Qed.

Section Stmt.
Variable toks : list token.
Hypothesis HL : LitOk toks.
Notation Spec := (Spec toks).

(* ---- type expressions ---- *)
Definition TypeInv f := Spec (p_texpr toks f) (NoErr texpr_errors) (IQ x_type fl_type).

Lemma type_inv f : TypeInv f.
Proof.
  induction f as [|f IH]; [intros s s' a H; discriminate H|]. unfold TypeInv.
  eapply Spec_ext; [intros s; symmetry; apply (p_texpr_S toks)|]. apply Spec_alt.
  - eapply Spec_map.
    + apply Spec_info. apply Spec_pair; [apply Spec_tag| | |].
      * apply Spec_pair; [apply Spec_expect; [apply Spec_tag|]| | |].
        2:{ apply Spec_pair; [apply Spec_expect; [apply (Spec_intlit toks HL)|]| | |].
            2:{ apply Spec_pair; [apply Spec_expect; [apply Spec_tag|]| | |].
                2:{ apply Spec_pair; [apply Spec_expect; [apply Spec_tag|] | apply Spec_expect; [apply Spec_ref, IH|] | |];
                    grow_solve. }
                all: grow_solve. }
            all: grow_solve. }
        all: grow_solve.
      * grow_solve.
      * grow_solve.
    + intros [[t1 [t2 [size [t3 [t4 base]]]]] inf] H. unfold NoErr in H. cbn [texpr_errors] in H.
      apply app_nil_inv in H as [H1 H2]. cbn [fst snd]. split; [exact H1|].
      repeat split; try (intros ? _; exact I).
      intros [b off] ->. apply shift_es_nil in H2. exact H2.
    + intros k r [[t1 [t2 [size [t3 [t4 base]]]]] inf] l Hr _
        (Hinf & l1 & l1' & -> & (ca & -> & Hk1) & l2 & l2' & -> & (t2' & Ht2 & cl & -> & Hk2) &
         l3 & l3' & -> & (sz & Hsz & cz & v & Hv & ->) & l4 & l4' & -> & (t3' & Ht3 & cr & -> & Hk3) &
         l5 & l5' & -> & (t4' & Ht4 & co & -> & Hk4) & ([b off] & Hb & Hoff & abs & Hx & ->)).
      cbn [fst snd] in *. subst. apply is_k_eq in Hk1, Hk2, Hk3, Hk4. rewrite Hk1, Hk2, Hk3, Hk4.
      rewrite Nat.sub_diag. exists (TArr ca cl cz v cr co abs). cbn [x_type fl_type]. split.
      * f_equal; [f_equal; f_equal; lens; lia | f_equal; f_equal; lens; lia | unfold mkinfo; f_equal; lens; lia].
      * repeat (rewrite <- !app_assoc; cbn [app]). reflexivity.
  - eapply Spec_map; [apply Spec_ident | intros a _; exact I|].
    intros k r a l _ _ (c & x & -> & ->). exists (TName c x). split; reflexivity.
Qed.

(* ---- structural solver for [Spec] goals ---- *)
Ltac spec :=
  lazymatch goal with
  | |- Grow _ => grow_solve
  | |- CompleteBase.Spec _ (p_pair _ _) _ _ => apply Spec_pair; spec
  | |- CompleteBase.Spec _ (p_expect _ _) _ _ => apply Spec_expect; spec
  | |- CompleteBase.Spec _ (p_tag _ _) _ _ => apply Spec_tag
  | |- CompleteBase.Spec _ (p_ref _) _ _ => apply Spec_ref; spec
  | |- CompleteBase.Spec _ (p_info _) _ _ => apply Spec_info; spec
  | |- CompleteBase.Spec _ (p_ident _) _ _ => apply Spec_ident
  | |- CompleteBase.Spec _ (p_comments _) _ _ => apply Spec_comments
  | |- CompleteBase.Spec _ (p_many0 _ _) _ _ => apply Spec_many0; spec
  | |- CompleteBase.Spec _ (p_peek_la _) _ _ => apply Spec_peek
  | |- _ => first [eassumption | idtac]
  end.

(* ---- comma-separated lists ---- *)
Definition el_Q {A} (Q : nat -> nat -> A -> list kind -> Prop) : nat -> nat -> A * nat -> list kind -> Prop :=
  fun k r ao l => exists c la, l = (cm c ++ [Comma]) ++ la /\ snd ao = k - r + len c + 1
                               /\ Q (k + len c + 1) (k + len c + 1) (fst ao) la.

Lemma list_spec {A} fuel (p : parser A) C Q :
  Spec p C Q -> Grow p ->
  Spec (p_list toks fuel p) (Forall (fun ao => C (fst ao)))
    (fun k r items l => exists h tl l0 lt, items = h :: tl /\ l = l0 ++ lt /\ snd h = k - r /\ Q k k (fst h) l0
                                           /\ Many (el_Q Q) (k + len l0) r tl lt).
Proof.
  intros Hp Gp.
  apply Spec_ext with (p := p_map (fun ht => fst ht :: snd ht) (p_pair (p_ref p) (p_many0 fuel (tail_p toks p)))).
  { intros s. rewrite p_list_eq. unfold p_map, p_pair.
    destruct (p_ref p s) as [s1 h| |]; cbn [bind]; [|reflexivity|reflexivity].
    destruct (p_many0 fuel (tail_p toks p) s1) as [s2 t| |]; reflexivity. }
  assert (Hel : Spec (tail_p toks p) (fun ao => C (fst ao)) (el_Q Q)).
  { unfold tail_p. eapply Spec_map.
    - apply Spec_ref. eapply Spec_preceded; [apply Spec_tag | apply Spec_ref, Hp | | | intros; exact I]; grow_solve.
    - intros [[a o1] o2] H. exact H.
    - intros k r [[a o1] o2] l Hr _ (Ho2 & t & l1 & l2 & -> & (c & -> & Hk) & Ho1 & HQ). cbn [fst snd] in *.
      apply is_k_eq in Hk. rewrite Hk in *. exists c, l2. split; [reflexivity|]. split.
      + subst. cbn [snd]. lens. lia.
      + replace (k + len c + 1) with (k + len (cm c ++ [Comma])) by (lens; lia). exact HQ. }
  eapply Spec_map.
  - apply Spec_pair; [apply Spec_ref, Hp | apply Spec_many0; [exact Hel|] | |]; unfold tail_p; grow_solve.
  - intros [h tl] H. inversion H; subst. cbn [fst snd]. split; assumption.
  - intros k r [h tl] l Hr _ (l0 & lt & -> & (Hh & HQ) & HM). cbn [fst snd] in *. exists h, tl, l0, lt. auto.
Qed.

Section Sep.
Context {A B : Type} (Q : nat -> nat -> B -> list kind -> Prop) (x0 : A -> B) (fl : A -> list kind).
Hypothesis HQ : forall k b l, Q k k b l -> exists a, b = x0 a /\ l = fl a.

Lemma tail_many k1 r tl lt :
  Many (el_Q Q) k1 r tl lt -> r <= k1 -> exists t, tl = x_tail fl x0 (k1 - r) t /\ lt = fl_tail fl t.
Proof.
  intros HM. induction HM as [k1 r|k1 r [b off] la l1 l2 (c & l' & -> & Hoff & Hb) _ IH]; intros Hr.
  - exists []. split; reflexivity.
  - destruct (IH ltac:(lia)) as (t & -> & ->). cbn [fst snd] in *. apply HQ in Hb as (a & -> & ->).
    exists ((c, a) :: t). subst. split.
    + cbn [x_tail]. f_equal. f_equal. lens. lia.
    + unfold fl_tail. cbn [flat_map fst snd]. now rewrite <- !app_assoc.
Qed.

Lemma sep_conv k r items l :
  (exists h tl l0 lt, items = h :: tl /\ l = l0 ++ lt /\ snd h = k - r /\ Q k k (fst h) l0
                      /\ Many (el_Q Q) (k + len l0) r tl lt) -> r <= k ->
  exists a, items = x_sep fl x0 (k - r) (Some a) /\ l = fl_sep fl (Some a).
Proof.
  intros ([h o] & tl & l0 & lt & -> & -> & Ho & Hh & HM) Hr. cbn [fst snd] in *. apply HQ in Hh as (a & -> & ->).
  destruct (tail_many _ _ _ _ HM ltac:(lia)) as (t & -> & ->). exists (a, t). cbn [x_sep fl_sep]. split; [|reflexivity].
  subst. f_equal. f_equal. lia.
Qed.
End Sep.

Lemma IQ_diag {A B} (x : nat -> A -> B) fl k b l : IQ x fl k k b l -> exists a, b = x 0 a /\ l = fl a.
Proof. intros (a & -> & ->). rewrite Nat.sub_diag. eauto. Qed.

(* ---- arguments, calls, assignments ---- *)
Lemma info_append_nil inf e : i_errs (info_append inf e) <> [].
Proof. cbn. destruct (i_errs inf); discriminate. Qed.

Lemma arg_spec f : Spec (p_argument toks f) (NoErr expr_errors) (IQ x_cmp fl_cmp).
Proof.
  unfold p_argument. apply Spec_alt.
  - eapply Spec_conseq; [eapply Spec_terminated; [apply (expr_inv_top toks HL f) | apply Spec_peek | | | intros; exact I]; grow_solve | |].
    + intros a H. exact H.
    + intros k r a l _ _ (b & l1 & l2 & -> & H & ->). now rewrite app_nil_r.
  - apply Spec_map_absurd. intros [ig inf] H. unfold NoErr in H. cbn [expr_errors snd] in H.
    exact (info_append_nil _ _ H).
Qed.

(* the statement invariant *)
Definition SQ (k r : nat) (res : stmt) (l : list kind) : Prop :=
  exists a, res = x_stmt (k - r) a /\ l = fl_stmt a /\ else_ok a = true
            /\ (open_if a = true -> la_tag toks (is_k KElse) (k + len l) = false).
Definition StmtInv f := Spec (p_stmt toks f) (NoErr stmt_errors) SQ.

Lemma call_spec f : Spec (p_call toks f) (NoErr stmt_errors) SQ.
Proof.
  unfold p_call. eapply Spec_map.
  - apply Spec_info. apply Spec_pair.
    + eapply Spec_terminated; [apply Spec_ident | apply Spec_tag | | | intros; exact I]; grow_solve.
    + apply Spec_pair.
      * apply Spec_alt.
        -- eapply Spec_map with (C' := Forall (fun ao : expr * nat => NoErr expr_errors (fst ao)))
             (Q' := fun k r (items : list (expr * nat)) l => r <= k -> exists a, items = x_sep fl_cmp (x_cmp 0) (k - r) a /\ l = fl_sep fl_cmp a);
             [apply Spec_peek | intros; exact I|].
           intros k r a l _ _ -> _. exists None. split; reflexivity.
        -- eapply Spec_conseq; [apply (list_spec f _ _ _ (arg_spec f)); grow_solve | intros a H; exact H|].
           intros k r a l Hr _ H _. destruct (sep_conv _ _ _ (IQ_diag x_cmp fl_cmp) _ _ _ _ H Hr) as (x & H1 & H2). exists (Some x). auto.
      * spec.
      * grow_solve.
      * grow_solve.
    + grow_solve.
    + grow_solve.
  - intros [[name [args [t1 t2]]] inf] H. unfold NoErr in H. cbn [stmt_errors] in H.
    apply app_nil_inv in H as [H1 H]. apply app_nil_inv in H as [_ H2]. cbn [fst snd]. split; [exact H1|].
    repeat split; try (intros ? _; exact I). apply refs_nil in H2. exact H2.
  - intros k r [[name [args [t1 t2]]] inf] l Hr _
      (Hinf & l1 & l1' & -> & (tp & la & lb & -> & (c1 & x & Hn & ->) & (c2 & -> & Hk1)) &
       l2 & l2' & -> & Hargs & l3 & l3' & -> & (t1' & Ht1 & c3 & -> & Hk2) & (t2' & Ht2 & c4 & -> & Hk3)).
    cbn [fst snd] in *. subst. apply is_k_eq in Hk1, Hk2, Hk3. rewrite Hk1, Hk2, Hk3.
    destruct (Hargs ltac:(lia)) as (a & -> & ->).
    exists (SCal c1 x c2 a c3 c4). cbn [x_stmt fl_stmt else_ok open_if]. split; [|split; [|split; [reflexivity | discriminate]]].
    + f_equal; [f_equal; lens; lia | unfold mkinfo; f_equal; lens; lia].
    + repeat (rewrite <- !app_assoc; cbn [app]). reflexivity.
Qed.

Lemma assign_spec f : Spec (p_assign toks f) (NoErr stmt_errors) SQ.
Proof.
  unfold p_assign. eapply Spec_map.
  - apply Spec_info. apply Spec_pair.
    + eapply Spec_terminated; [apply (var_inv toks HL f) | apply Spec_alt; [apply Spec_tag | apply Spec_confusable] | | | intros; exact I];
        grow_solve.
    + apply Spec_pair; [apply Spec_expect; [apply Spec_ref, (expr_inv_top toks HL f)|] | spec | |]; grow_solve.
    + grow_solve.
    + grow_solve.
  - intros [[v [e t]] inf] H. unfold NoErr in H. cbn [stmt_errors] in H.
    apply app_nil_inv in H as [H1 H]. apply app_nil_inv in H as [H2 H3]. cbn [fst snd]. split; [exact H1|].
    repeat split; try (intros ? _; exact I); [exact H2|].
    intros [x off] ->. cbn in H3. apply shift_es_nil in H3. exact H3.
  - intros k r [[v [e t]] inf] l Hr _
      (Hinf & l1 & l1' & -> & (tp & la & lb & -> & (av & Hv & ->) & (c1 & -> & Hk1)) &
       l2 & l2' & -> & ([x off] & He & Hoff & ae & Hx & ->) & (t' & Ht & c2 & -> & Hk2)).
    cbn [fst snd] in *. subst. apply is_k_eq in Hk1, Hk2. rewrite Hk1, Hk2. rewrite Nat.sub_diag.
    exists (SAsg av c1 ae c2). cbn [x_stmt fl_stmt else_ok open_if]. split; [|split; [|split; [reflexivity | discriminate]]].
    + f_equal; [f_equal; f_equal; lens; lia | unfold mkinfo; f_equal; lens; lia].
    + repeat (rewrite <- !app_assoc; cbn [app]). reflexivity.
Qed.

(* ---- the optional else branch ---- *)
Definition else_Q {A} (Q : nat -> nat -> A -> list kind -> Prop) (k r : nat) (oo : option (option A)) (l : list kind) : Prop :=
  (oo = None /\ l = [] /\ la_tag toks (is_k KElse) k = false) \/
  (la_tag toks (is_k KElse) k = true /\
   exists c a la, oo = Some (Some a) /\ l = (cm c ++ [KElse]) ++ la /\ Q (k + len c + 1) r a la).

Lemma else_spec {A} (q : parser A) m C Q :
  Spec q C Q -> Grow q ->
  Spec (p_opt (p_preceded (p_tag toks (is_k KElse)) (p_expect q m)))
    (fun oo => forall a, oo = Some (Some a) -> C a) (else_Q Q).
Proof.
  intros Hq Gq s s' oo H Hr Hb Hc. unfold p_opt in H.
  destruct (p_preceded _ _ s) as [s1 o|e|] eqn:E; [| |discriminate].
  - injection H as <- <-.
    assert (Hsp : Spec (p_preceded (p_tag toks (is_k KElse)) (p_expect q m)) (fun o => forall a, o = Some a -> C a)
              (fun k r o l => exists t l1 l2, l = l1 ++ l2 /\ (exists c, l1 = cm c ++ [tk t] /\ is_k KElse (tk t) = true)
                                             /\ exists a, o = Some a /\ Q (k + len l1) r a l2)).
    { eapply Spec_conseq; [eapply Spec_preceded; [apply Spec_tag | apply Spec_expect; [exact Hq | exact Gq] | | | intros; exact I]; grow_solve | |].
      - intros a H. exact H.
      - intros k r a l _ _ H. exact H. }
    destruct (Hsp _ _ _ E Hr Hb ltac:(intros a ->; now apply Hc)) as (l & S1 & P1 & R1 & t & l1 & l2 & -> & (c & -> & Hk) & a & -> & HQ).
    exists ((cm c ++ [tk t]) ++ l2). repeat split; auto. right. split.
    + unfold p_preceded in E. apply p_map_ok in E as (ab & E & _). apply p_pair_ok in E as (s2 & E & _).
      apply p_tag_ok in E as (Hn & Hf & _). rewrite la_tag_spec, Hn. exact Hf.
    + apply is_k_eq in Hk. rewrite Hk in *. exists c, a, l2. repeat split.
      replace (pos s + len c + 1) with (pos s + len (cm c ++ [KElse])) by (lens; lia). exact HQ.
  - injection H as <- <-. exists []. cbn [length]. repeat split; [apply Seg_nil | lia |]. left. repeat split.
    unfold p_preceded in E. apply p_map_err in E. apply p_pair_err in E as [E|(s1 & a & _ & E)].
    + now apply tag_err_la in E.
    + now apply p_expect_noerr in E.
Qed.

(* ---- statement sequences ---- *)
Fixpoint stmts_of (l : list astmt) : astmts := match l with [] => SNil | a :: r => SCons a (stmts_of r) end.

Lemma stmts_many k1 r items l :
  Many (fun k r (ao : stmt * nat) l => snd ao = k - r /\ SQ k k (fst ao) l) k1 r items l -> r <= k1 ->
  exists b, items = x_stmts (k1 - r) b /\ l = fl_stmts b /\ else_oks b = true.
Proof.
  intros HM. induction HM as [k1 r|k1 r [x off] la l1 l2 (Hoff & a & Hx & -> & Hok & _) _ IH]; intros Hr.
  - exists SNil. repeat split.
  - destruct (IH ltac:(lia)) as (b & -> & -> & Hb). exists (SCons a b). cbn [fst snd] in *. subst.
    cbn [x_stmts fl_stmts else_oks]. rewrite Nat.sub_diag, Hok, Hb. repeat split. f_equal. f_equal. lia.
Qed.

Lemma opt_expr_nil (c : option (expr * nat)) : opt_expr_errors c = [] -> forall a, c = Some a -> NoErr expr_errors (fst a).
Proof. intros H [e off] ->. cbn in H. now apply shift_es_nil in H. Qed.
Lemma opt_stmt_nil (c : option (stmt * nat)) : TypingProofs.opt_stmt_errors c = [] -> forall a, c = Some a -> NoErr stmt_errors (fst a).
Proof. intros H [e off] ->. cbn in H. now apply shift_es_nil in H. Qed.

Lemma stmt_step f : StmtInv f -> StmtInv (S f).
Proof.
  intros IH. unfold StmtInv in *. eapply Spec_ext; [intros s; symmetry; apply (p_stmt_S toks)|]. unfold stmt_ref.
  pose proof (expr_inv_top toks HL f) as Hexpr.
  repeat apply Spec_alt.
  - (* ; *)
    eapply Spec_map; [apply Spec_info_tag | intros a _; exact I|].
    intros k r [t inf] l Hr _ (Hinf & c & -> & Hk). cbn [fst snd] in *. subst. apply is_k_eq in Hk. rewrite Hk.
    exists (SEmp c). cbn [x_stmt fl_stmt else_ok open_if]. split; [|split; [|split; [reflexivity | discriminate]]]; [|reflexivity].
    f_equal. unfold mkinfo. f_equal. lia.
  - (* if *)
    eapply Spec_map.
    + spec. apply else_spec; [apply Spec_ref; exact IH | grow_solve].
    + intros [[t1 [t2 [c [t3 [t e]]]]] inf] H. unfold NoErr in H. rewrite TypingProofs.stmt_errors_if in H.
      apply app_nil_inv in H as [H1 H]. apply app_nil_inv in H as [H2 H]. apply app_nil_inv in H as [H3 H4].
      cbn [fst snd]. split; [exact H1|]. repeat split; try (intros ? _; exact I).
      * now apply opt_expr_nil.
      * now apply opt_stmt_nil.
      * intros a ->. now apply (opt_stmt_nil _ H4 a).
    + intros k r [[t1 [t2 [c [t3 [t e]]]]] inf] l Hr _
        (Hinf & l1 & l1' & -> & (c1 & -> & Hk1) & l2 & l2' & -> & (t2' & Ht2 & c2 & -> & Hk2) &
         l3 & l3' & -> & ([xe oe] & He & Hoe & ae & Hxe & ->) & l4 & l4' & -> & (t3' & Ht3 & c3 & -> & Hk3) &
         l5 & l5' & -> & ([xt ot] & Ht & Hot & at_ & Hxt & -> & Hok & Hopen) & Helse).
      cbn [fst snd] in *. subst. apply is_k_eq in Hk1, Hk2, Hk3. rewrite Hk1, Hk2, Hk3 in *. rewrite !Nat.sub_diag.
      destruct Helse as [(-> & -> & Hla)|(Hla & c4 & [xs os] & ls & -> & -> & Hos & as_ & Hxs & -> & Hoks & Hopens)].
      * exists (SIfT c1 c2 ae c3 at_). cbn [x_stmt fl_stmt else_ok open_if]. split; [|split; [|split; [exact Hok|]]].
        -- f_equal; [f_equal; f_equal; lens; lia | f_equal; f_equal; lens; lia | unfold mkinfo; f_equal; lens; lia].
        -- repeat (rewrite <- !app_assoc; cbn [app]). now rewrite app_nil_r.
        -- intros _. rewrite <- Hla. f_equal. lens. lia.
      * cbn [fst snd] in *. subst. rewrite !Nat.sub_diag.
        assert (Hno : open_if at_ = false).
        { destruct (open_if at_); [|reflexivity]. rewrite Hopen in Hla by reflexivity. discriminate. }
        exists (SIfE c1 c2 ae c3 at_ c4 as_). cbn [x_stmt fl_stmt else_ok open_if]. rewrite Hno, Hok, Hoks.
        split; [|split; [|split; [reflexivity|]]].
        -- f_equal; [f_equal; f_equal; lens; lia | f_equal; f_equal; lens; lia | f_equal; f_equal; lens; lia | unfold mkinfo; f_equal; lens; lia].
        -- repeat (rewrite <- !app_assoc; cbn [app]). reflexivity.
        -- intros Ho. rewrite <- (Hopens Ho). f_equal. lens. lia.
  - (* while *)
    eapply Spec_map.
    + spec.
    + intros [[t1 [t2 [c [t3 b]]]] inf] H. unfold NoErr in H. rewrite TypingProofs.stmt_errors_while in H.
      apply app_nil_inv in H as [H1 H]. apply app_nil_inv in H as [H2 H3].
      cbn [fst snd]. split; [exact H1|]. repeat split; try (intros ? _; exact I).
      * now apply opt_expr_nil.
      * now apply opt_stmt_nil.
    + intros k r [[t1 [t2 [c [t3 b]]]] inf] l Hr _
        (Hinf & l1 & l1' & -> & (c1 & -> & Hk1) & l2 & l2' & -> & (t2' & Ht2 & c2 & -> & Hk2) &
         l3 & l3' & -> & ([xe oe] & He & Hoe & ae & Hxe & ->) & l4 & l4' & -> & (t3' & Ht3 & c3 & -> & Hk3) &
         ([xb ob] & Hb & Hob & ab & Hxb & -> & Hok & Hopen)).
      cbn [fst snd] in *. subst. apply is_k_eq in Hk1, Hk2, Hk3. rewrite Hk1, Hk2, Hk3 in *. rewrite !Nat.sub_diag.
      exists (SWhl c1 c2 ae c3 ab). cbn [x_stmt fl_stmt else_ok open_if]. split; [|split; [|split; [exact Hok|]]].
      * f_equal; [f_equal; f_equal; lens; lia | f_equal; f_equal; lens; lia | unfold mkinfo; f_equal; lens; lia].
      * repeat (rewrite <- !app_assoc; cbn [app]). reflexivity.
      * intros Ho. rewrite <- (Hopen Ho). f_equal. lens. lia.
  - (* block *)
    eapply Spec_map.
    + apply Spec_info. eapply Spec_preceded; [apply Spec_tag | spec | | | intros; exact I]; grow_solve.
    + intros [[body t] inf] H. unfold NoErr in H. rewrite TypingProofs.stmt_errors_block in H. cbn [fst snd] in H.
      apply app_nil_inv in H as [H1 H2]. cbn [fst snd]. split; [exact H1|]. split; [|intros ? _; exact I].
      apply refs_nil in H2. exact H2.
    + intros k r [[body t] inf] l Hr _
        (Hinf & t1 & l1 & l1' & -> & (c1 & -> & Hk1) & l2 & l2' & -> & HM & (t2 & Ht2 & c2 & -> & Hk2)).
      cbn [fst snd] in *. subst. apply is_k_eq in Hk1, Hk2. rewrite Hk1, Hk2 in *.
      destruct (stmts_many _ _ _ _ HM ltac:(lia)) as (b & -> & -> & Hb).
      exists (SBlk c1 b c2). cbn [x_stmt fl_stmt else_ok open_if]. split; [|split; [|split; [exact Hb | discriminate]]].
      * f_equal; [f_equal; lens; lia | unfold mkinfo; f_equal; lens; lia].
      * repeat (rewrite <- !app_assoc; cbn [app]). reflexivity.
  - apply call_spec.
  - apply assign_spec.
  - (* parse_error; [p_restore p] is convertible with [p_alt p (fun s => PErr s)] *)
    apply Spec_map_absurd. intros [[cs ig] inf] H. unfold NoErr in H. cbn [stmt_errors] in H.
    exact (info_append_nil _ _ H).
  - intros s s' a H. discriminate H.
Qed.

Theorem stmt_inv f : StmtInv f.
Proof. induction f as [|f IH]; [intros s s' a H; discriminate H | now apply stmt_step]. Qed.
End Stmt.
