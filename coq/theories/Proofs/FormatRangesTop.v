(* C09 "same diagnostics" for programs with comments, the RANGES, part 4: the theorem.

   For every valid program p (comments anywhere, well-typed or not) and every layout of it: the i-th diagnostic of the
   document and the i-th diagnostic of the formatted text have the same message and cover the same non-comment tokens -
   [ord ks n], the number of non-comment tokens in front of token index n, agrees on the two range starts and on the
   two range ends.
     - the diagnostics inside declarations: both analysed trees are [own] and keep the node positions of the mandated
       trees (FormatRangesInv.v), these correspond under [ord] (FormatRangesSyn.v), and the messages attached to the
       nodes are the same because the analysed trees have the same erasure (FormatDiagTop.v, FormatRangesNodes.v);
     - the diagnostics on the program node: `main` missing has the range (0,0); `main` must not have parameters has
       the range of the name of the declaration that made the table entry of `main`, shifted by the declaration's start
       - a table invariant links the entry to its declaration ([tinv]), and the two entries belong to declarations with
       the same index because their ranges correspond ([rho], FormatDiagAny.v). *)
From Coq Require Import String List Lia PeanoNat.
From Spl Require Import Model.Errors Spec.Grammar Proofs.RenderProofs Proofs.PipelineText Proofs.FormatProofs
  Proofs.FormatStructText Proofs.FormatStructTok Proofs.FormatStructProg Proofs.FormatStructIdem Proofs.FormatAnyPP Proofs.FormatAnyKept
  Proofs.FormatAnyThm Proofs.FormatDiagErase Proofs.FormatDiagSem Proofs.FormatDiagMsgs Proofs.FormatDiagTop Proofs.FormatDiagAny
  Proofs.RangeProofs Proofs.FormatRangesNodes Proofs.FormatRangesInv Proofs.FormatRangesSyn.
From Spl Require Proofs.GrammarExpr Proofs.GrammarStmt Proofs.GrammarProg Proofs.GrammarProofs.
Import ListNotations.
Local Open Scope nat_scope.

(* ================================================================================================
   1. Corresponding diagnostics
   ================================================================================================ *)
Definition erel (phi phi' : nat -> nat) (x x' : err) : Prop :=
  e_m x' = e_m x /\ phi' (e_s x') = phi (e_s x) /\ phi' (e_e x') = phi (e_e x).

Lemma mk_rel phi phi' (N : list node) : forall N' : list node,
  map snd N = map snd N' -> pos phi N = pos phi' N' -> Forall2 (erel phi phi') (flat_map mk N) (flat_map mk N').
Proof.
  induction N as [|[t ms] N IH]; intros [|[t' ms'] N'] Hs Hp; try discriminate Hs; [constructor|].
  cbn [map fst snd] in Hs, Hp. injection Hs as <- Hs. injection Hp as Ht Hp. cbn [flat_map]. apply Forall2_app; [|apply IH; assumption].
  unfold mk. cbn [fst snd]. destruct t as [[s q] e], t' as [[s' q'] e']. cbn [mt] in Ht. injection Ht as E1 E2 E3.
  induction ms as [|m ms IHm]; [constructor|]. cbn [map]. constructor; [|exact IHm].
  unfold erel, mkerr_t, pick. cbn [e_s e_e e_m]. destruct (name_msg m); cbn [fst snd]; repeat split; congruence.
Qed.

(* ================================================================================================
   2. The mandated trees: own, and independent of the comment texts
   ================================================================================================ *)
Lemma own_x_decls l : forall o, own_refs own_gdecl (x_decls o l).
Proof.
  unfold own_refs. induction l as [|d r IH]; intros o; [constructor|]. cbn [x_decls]. constructor; [|apply IH].
  cbn [fst]. apply clean_own_gdecl, GrammarProofs.clean_decl.
Qed.

Lemma nd_refs_nodoc l :
  nd_refs nd_gdecl 0 (map (fun g : gdecl * nat => (nodoc_gdecl (fst g), snd g)) l) = nd_refs nd_gdecl 0 l.
Proof.
  unfold nd_refs. induction l as [|[g off] r IH]; [reflexivity|]. cbn [map flat_map fst snd]. rewrite nd_nodoc, IH. reflexivity.
Qed.

Lemma nd_canon r : nd_refs nd_gdecl 0 (pg_decls (expected (c_prog r))) = nd_refs nd_gdecl 0 (pg_decls (expected r)).
Proof.
  rewrite <- (nd_refs_nodoc (pg_decls (expected (c_prog r)))), <- (nd_refs_nodoc (pg_decls (expected r))).
  pose proof (f_equal pg_decls (expected_canon r)) as E. unfold nodoc in E. cbn [pg_decls] in E. rewrite E. reflexivity.
Qed.

(* ================================================================================================
   3. The entry of a procedure in the global table belongs to a declaration
   ================================================================================================ *)
Definition from_decl (all : list (gdecl * nat)) (pe : pentry) : Prop :=
  exists d off n, In (GProc d, off) all /\ pd_name d = Some n /\ i_e (id_info (pe_name pe)) = i_e (id_info n)
                  /\ pe_range pe = shift_range (info_range (pd_info d)) off.

Definition tinv (all : list (gdecl * nat)) (T : gtable) : Prop :=
  forall k pe, lookup T k = Some (GProcE pe) -> lookup initialized k = Some (GProcE pe) \/ from_decl all pe.

Lemma tinv_enter all T k v :
  tinv all T -> (forall pe, v = GProcE pe -> from_decl all pe) -> tinv all (fst (enter T k v)).
Proof.
  intros Ht Hv. unfold enter. destruct (lookup T k) as [x|] eqn:E; cbn [fst]; [exact Ht|]. intros k0 pe. rewrite lookup_app.
  destruct (lookup T k0) as [y|] eqn:E0.
  - intros H. injection H as ->. apply Ht. exact E0.
  - destruct (text_eqb k k0); [|discriminate]. intros H. injection H as ->. right. apply Hv. reflexivity.
Qed.

Lemma build_typedecl_table d T o d1 T1 :
  build_typedecl d T o = ROk (d1, T1) -> T1 = T \/ exists k e, T1 = fst (enter T k (GTypeE e)).
Proof.
  unfold build_typedecl. destruct (td_name d) as [n|]; [|intros H; injection H as _ <-; left; reflexivity].
  destruct (text_eqb (id_val n) s_main).
  - destruct (ident_flag n _); cbn [rbind]; [|discriminate]. intros H. injection H as _ <-. left. reflexivity.
  - destruct (get_data_type _ _ _ _) as [[ty1 dt]|]; cbn [rbind]; [|discriminate].
    match goal with |- context [enter T ?k ?v] => destruct (enter T k v) as [t1 ok] eqn:En; assert (Et : t1 = fst (enter T k v)) by (rewrite En; reflexivity) end.
    destruct (if ok then _ else _); cbn [rbind]; [|discriminate]. intros H. injection H as _ <-. right. eexists. eexists. exact Et.
Qed.

Lemma build_procdecl_table d T o d1 T1 :
  build_procdecl d T o = ROk (d1, T1) ->
  T1 = T \/ exists n l ps doc, pd_name d = Some n /\
    T1 = fst (enter T (id_val n) (GProcE {| pe_name := n; pe_local := l; pe_params := ps;
                                             pe_range := shift_range (info_range (pd_info d)) o; pe_doc := doc |})).
Proof.
  unfold build_procdecl. destruct (pd_name d) as [n|]; [|intros H; injection H as _ <-; left; reflexivity].
  destruct (build_parameters _ _ _ _) as [[[ps1 l1] es]|]; cbn [rbind]; [|discriminate].
  destruct (build_variables _ _ _ _) as [[vs1 l2]|]; cbn [rbind]; [|discriminate].
  match goal with |- context [enter T ?k ?v] => destruct (enter T k v) as [t1 ok] eqn:En; assert (Et : t1 = fst (enter T k v)) by (rewrite En; reflexivity) end.
  destruct (if ok then _ else _); cbn [rbind]; [|discriminate]. intros H. injection H as _ <-. right.
  eexists. eexists. eexists. eexists. split; [reflexivity | exact Et].
Qed.

Lemma build_gdecls_tinv all : forall ds T r, incl ds all -> tinv all T -> build_gdecls ds T 0 = ROk r -> tinv all (snd r).
Proof.
  induction ds as [|[d off] ds IH]; intros T r Hi Ht H.
  - injection H as <-. exact Ht.
  - cbn [build_gdecls Nat.add] in H. destruct (build_gdecl d T off) as [[d1 t1]|] eqn:E; [|discriminate H]. cbn [rbind] in H.
    destruct (build_gdecls ds t1 0) as [[r1 t2]|] eqn:E2; [|discriminate H]. cbn [rbind] in H. injection H as <-. cbn [snd].
    apply (IH t1 (r1, t2)); [intros y Hy; apply Hi; right; exact Hy | | exact E2].
    destruct d as [td|pd|inf]; cbn [build_gdecl] in E.
    + destruct (build_typedecl td T off) as [[x y]|] eqn:B; [|discriminate E]. cbn [rbind] in E. injection E as _ <-.
      destruct (build_typedecl_table _ _ _ _ _ B) as [->|(k & e & ->)]; [exact Ht|]. apply tinv_enter; [exact Ht|]. intros pe Q. discriminate Q.
    + destruct (build_procdecl pd T off) as [[x y]|] eqn:B; [|discriminate E]. cbn [rbind] in E. injection E as _ <-.
      destruct (build_procdecl_table _ _ _ _ _ B) as [->|(n & l & ps & doc & En & ->)]; [exact Ht|]. apply tinv_enter; [exact Ht|].
      intros pe Q. injection Q as <-. exists pd, off, n. cbn [pe_name pe_range]. repeat split; [apply Hi; left; reflexivity | exact En].
    + injection E as _ <-. exact Ht.
Qed.

Lemma tinv_initialized all : tinv all initialized.
Proof. intros k pe H. left. exact H. Qed.

(* the declarations only matter up to their doc fields *)
Lemma from_decl_nodoc all all' pe :
  map (fun g : gdecl * nat => (nodoc_gdecl (fst g), snd g)) all = map (fun g : gdecl * nat => (nodoc_gdecl (fst g), snd g)) all' ->
  from_decl all pe -> from_decl all' pe.
Proof.
  intros E (d & off & n & Hin & Hn & He & Hr).
  apply (in_map (fun g : gdecl * nat => (nodoc_gdecl (fst g), snd g))) in Hin. rewrite E in Hin. apply in_map_iff in Hin.
  destruct Hin as ([g' off'] & Eg & Hin'). cbn [fst snd] in Eg. injection Eg as Eg ->.
  destruct g' as [t|d'|i]; try discriminate Eg. cbn [nodoc_gdecl] in Eg. injection Eg as E1 _ _ _ E2.
  exists d', off, n. repeat split; [exact Hin' | congruence | exact He | congruence].
Qed.

(* ================================================================================================
   4. The diagnostics on the program node
   ================================================================================================ *)
Lemma build_program_info p T p1 T1 :
  build_program p T 0 = ROk (p1, T1) -> i_errs (pg_info p) = [] ->
  exists ds1, build_gdecls (pg_decls p) T 0 = ROk (ds1, T1) /\
  (i_errs (pg_info p1) = [] \/ i_errs (pg_info p1) = [mkerr_t (0, 0) (EBuild MainIsMissing)] \/
   exists main, lookup T1 s_main = Some (GProcE main) /\ i_e (id_info (pe_name main)) <> 0 /\
     i_errs (pg_info p1) = [mkerr_t (i_e (id_info (pe_name main)) - 1 + fst (pe_range main),
                                     i_e (id_info (pe_name main)) + fst (pe_range main)) (EBuild MainMustNotHaveParameters)]).
Proof.
  intros H H0. unfold build_program in H. destruct (build_gdecls (pg_decls p) T 0) as [[ds1 t1]|]; [|discriminate H]. cbn [rbind] in H.
  destruct (lookup t1 s_main) as [[te|main]|] eqn:L; [discriminate H| |].
  - destruct (pe_params main) as [|v vr].
    + injection H as <- <-. exists ds1. split; [reflexivity|]. left. exact H0.
    + unfold to_error in H. destruct (Nat.eqb (i_e (id_info (pe_name main))) 0) eqn:E0; [discriminate H|]. cbn [rbind e_s e_e] in H.
      injection H as <- <-. exists ds1. split; [reflexivity|]. right. right. exists main. split; [exact L|]. split; [apply Nat.eqb_neq; exact E0|].
      cbn [pg_info info_append i_errs]. rewrite H0. reflexivity.
  - injection H as <- <-. exists ds1. split; [reflexivity|]. right. left. cbn [pg_info info_append i_errs]. rewrite H0. reflexivity.
Qed.

Lemma in_x_decls l : forall o g off, In (g, off) (x_decls o l) ->
  exists i d, nth_error l i = Some d /\ g = x_decl d /\ nth_error (rngs o l) i = Some (off, off + length (fl_decl d)).
Proof.
  induction l as [|a l IH]; intros o g off H; [destruct H|]. cbn [x_decls] in H. destruct H as [E|H].
  - injection E as <- <-. exists 0, a. repeat split.
  - destruct (IH _ _ _ H) as (i & d & H1 & H2 & H3). exists (S i), d. repeat split; assumption.
Qed.

Lemma seg_nth phi l : forall o A i d, seg phi o A (flat_map fl_decl l) -> nth_error l i = Some d ->
  exists off, nth_error (rngs o l) i = Some (off, off + length (fl_decl d)) /\ seg phi off (A + cl (flat_map fl_decl (firstn i l))) (fl_decl d).
Proof.
  induction l as [|a l IH]; intros o A i d H Hn; [destruct i; discriminate Hn|]. cbn [flat_map] in H. destruct (seg_app _ _ _ _ _ H) as [S1 S2].
  destruct i as [|i]; cbn [nth_error] in Hn.
  - injection Hn as <-. exists o. split; [reflexivity|]. cbn [firstn flat_map]. apply (seg_eq phi o o A); [reflexivity | unfold cl; cbn; lia | exact S1].
  - destruct (IH _ _ i d S2 Hn) as (off & H1 & H2). exists off. split; [exact H1|]. cbn [firstn flat_map]. rewrite cl_app.
    apply (seg_eq phi off off (A + cl (fl_decl a) + cl (flat_map fl_decl (firstn i l)))); [reflexivity | lia | exact H2].
Qed.

Lemma proc_name_pos phi off A c1 c2 x c3 ps c4 c5 vs b c6 :
  seg phi off A (fl_decl (DProc c1 c2 x c3 ps c4 c5 vs b c6)) ->
  phi (length c1 + 1 + length c2 + 1 - 1 + off) = A + 1 /\ phi (length c1 + 1 + length c2 + 1 + off) = A + 2.
Proof. intros H. cbn [fl_decl] in H. seg_dec H. cm_facts. split; phi_tac. Qed.

Lemma rngs_canon l : forall o, rngs o (map c_decl l) = rngs o l.
Proof. induction l as [|d r IH]; intros o; [reflexivity|]. cbn [map rngs]. rewrite len_decl, IH. reflexivity. Qed.

Lemma cl_flat_k l : cl (flat_map fl_decl (map k_decl l)) = cl (flat_map fl_decl l).
Proof. induction l as [|d r IH]; [reflexivity|]. cbn [map flat_map]. rewrite !cl_app, cl_k_decl, IH. reflexivity. Qed.

(* an entry that belongs to a declaration of the mandated tree: where its name sits *)
Lemma from_decl_pos phi l pe :
  seg phi 0 0 (flat_map fl_decl l) -> from_decl (x_decls 0 l) pe ->
  exists i off len, nth_error (rngs 0 l) i = Some (off, off + len) /\ pe_range pe = (0 + off, len + off) /\
    phi (i_e (id_info (pe_name pe)) - 1 + off) = cl (flat_map fl_decl (firstn i l)) + 1 /\
    phi (i_e (id_info (pe_name pe)) + off) = cl (flat_map fl_decl (firstn i l)) + 2.
Proof.
  intros Hs (d & off & n & Hin & Hn & He & Hr). destruct (in_x_decls _ _ _ _ Hin) as (i & ad & H1 & H2 & H3).
  destruct (seg_nth phi l 0 0 i ad Hs H1) as (off2 & H4 & H5). rewrite H3 in H4. injection H4 as <-. cbn [Nat.add] in H5.
  destruct ad as [c1 c2 x c3 t c4|c1 c2 x c3 ps c4 c5 vs b c6]; [discriminate H2|]. cbn [x_decl] in H2. cbv zeta in H2. injection H2 as ->.
  cbn [pd_name pd_info] in Hn, Hr. injection Hn as <-. unfold x_ident, mkinfo in He. cbn [id_info i_e] in He.
  exists i, off, (length (fl_decl (DProc c1 c2 x c3 ps c4 c5 vs b c6))). split; [exact H3|]. split; [exact Hr|]. rewrite He.
  exact (proc_name_pos phi off _ c1 c2 x c3 ps c4 c5 vs b c6 H5).
Qed.

Lemma rngs_pos l : forall o i off len, nth_error (rngs o l) i = Some (off, off + len) -> 0 < len.
Proof. intros o i off len H. destruct (rngs_bound _ _ _ _ H) as [_ H2]. cbn [fst snd] in H2. lia. Qed.

Theorem main_error_rel p tb tb' main main' :
  tinv (x_decls 0 (a_decls p)) tb -> tinv (x_decls 0 (a_decls (c_prog (kept p)))) tb' ->
  lookup tb s_main = Some (GProcE main) -> lookup tb' s_main = Some (GProcE main') ->
  rho (a_decls p) (a_decls (c_prog (kept p))) (pe_range main) (pe_range main') ->
  ord (flatten (kept p)) (i_e (id_info (pe_name main')) - 1 + fst (pe_range main')) = ord (flatten p) (i_e (id_info (pe_name main)) - 1 + fst (pe_range main)) /\
  ord (flatten (kept p)) (i_e (id_info (pe_name main')) + fst (pe_range main')) = ord (flatten p) (i_e (id_info (pe_name main)) + fst (pe_range main)).
Proof.
  intros Ht Ht' L L' Hr.
  assert (Hni : lookup initialized s_main = None) by (vm_compute; reflexivity).
  destruct (Ht _ _ L) as [Hi|Hd]; [rewrite Hni in Hi; discriminate Hi|].
  destruct (Ht' _ _ L') as [Hi|Hd']; [rewrite Hni in Hi; discriminate Hi|].
  assert (Hd2 : from_decl (x_decls 0 (map k_decl (a_decls p))) main').
  { apply (from_decl_nodoc _ _ _ (x_decls_canon (map k_decl (a_decls p)) 0)). exact Hd'. }
  assert (S1 : seg (ord (flatten p)) 0 0 (flat_map fl_decl (a_decls p))) by (unfold flatten; exact (proj1 (seg_app _ _ _ _ _ (seg_ord _)))).
  assert (S2 : seg (ord (flatten (kept p))) 0 0 (flat_map fl_decl (map k_decl (a_decls p)))).
  { unfold flatten, kept. cbn [a_decls a_ceof]. exact (proj1 (seg_app _ _ _ _ _ (seg_ord _))). }
  destruct (from_decl_pos _ _ _ S1 Hd) as (i & off & len & N1 & R1 & P1 & P2).
  destruct (from_decl_pos _ _ _ S2 Hd2) as (i' & off' & len' & N1' & R1' & P1' & P2').
  pose proof (rngs_pos _ _ _ _ _ N1) as Hl. pose proof (rngs_pos _ _ _ _ _ N1') as Hl'.
  assert (Eii : i' = i).
  { destruct Hr as [[E1 E2]|(j & Hj & Hj')].
    - rewrite R1 in E1. injection E1 as E1 E1'. lia.
    - unfold c_prog, kept in Hj'. cbn [a_decls] in Hj'. rewrite rngs_canon in Hj'.
      rewrite R1 in Hj. replace (0 + off, len + off) with (off, off + len) in Hj by (f_equal; lia).
      rewrite R1' in Hj'. replace (0 + off', len' + off') with (off', off' + len') in Hj' by (f_equal; lia).
      rewrite (rngs_inj _ _ _ _ _ N1 Hj), (rngs_inj _ _ _ _ _ N1' Hj'). reflexivity. }
  subst i'. rewrite R1, R1'. cbn [fst Nat.add]. rewrite P1, P2, P1', P2', firstn_map, cl_flat_k. split; reflexivity.
Qed.

(* ================================================================================================
   5. The theorem
   ================================================================================================ *)
Theorem same_ranges_any p doc toks ins ts :
  prog_ok p = true -> aprog_valid p = true -> lex doc = Some toks -> map tk toks = flatten p ++ [Eof] ->
  exists txt d d',
    formatted_text doc ins ts = Done txt /\ new_doc_res doc = ODone d /\ new_doc_res txt = ODone d' /\
    Forall2 (fun x x' => e_m x' = e_m x /\ ord (flatten (kept p)) (e_s x') = ord (flatten p) (e_s x)
                         /\ ord (flatten (kept p)) (e_e x') = ord (flatten p) (e_e x))
            (tree_errors (d_ast d)) (tree_errors (d_ast d')).
Proof.
  intros Hok Hv El Hk.
  destruct (document_kept p doc toks ins ts Hok Hv El Hk) as (txt & toks' & Ef & El' & Ek').
  set (q := c_prog (kept p)).
  assert (Hkq : map tk toks' = flatten q ++ [Eof]) by (unfold q; rewrite flatten_canon; exact Ek').
  assert (Hokq : prog_ok q = true) by (unfold q; rewrite prog_ok_canon, kept_prog_ok; exact Hok).
  destruct (new_doc_total doc) as [d Hd]. destruct (new_doc_total txt) as [d' Hd'].
  destruct (new_doc_inv doc toks _ d El (GrammarProg.roundtrip p toks Hok Hk) Hd) as (p1 & tb & p2 & B1 & A1 & Ea & Et).
  destruct (new_doc_inv txt toks' _ d' El' (GrammarProg.roundtrip q toks' Hokq Hkq) Hd') as (p1' & tb' & p2' & B1' & A1' & Ea' & Et').
  exists txt, d, d'. split; [exact Ef|]. split; [exact Hd|]. split; [exact Hd'|]. rewrite Ea, Ea'.
  set (R := rho (a_decls p) (a_decls q)).
  assert (Rinj : forall a a' b b', R a a' -> R b b' -> (a = b <-> a' = b')) by (apply rho_inj).
  assert (Hdq : a_decls q = map kc (a_decls p)).
  { unfold q, c_prog, kept. cbn [a_decls]. rewrite map_map. reflexivity. }
  assert (P0 : prsim R (expected p) (expected q)).
  { split; [|reflexivity]. unfold expected. cbn [pg_decls]. rewrite Hdq. apply decls_dsim.
    intros i r r' Hi Hi'. right. exists i. rewrite Hdq. split; assumption. }
  assert (T0 : tsim R initialized initialized).
  { split; [reflexivity|]. intros k pe pe' L1 L2. rewrite (initialized_ranges k pe L1), (initialized_ranges k pe' L2). left. split; reflexivity. }
  unfold build_res in B1, B1'.
  destruct (build_program_2 R _ _ _ _ _ _ P0 T0 B1 B1') as [P1 T1]. cbn [fst snd] in P1, T1.
  pose proof (analyze_res_2 R Rinj _ _ _ _ _ _ P1 T1 A1 A1') as P2.
  destruct (pipeline_keeps _ _ _ _ B1 A1) as [[O2 N2] I2]. destruct (pipeline_keeps _ _ _ _ B1' A1') as [[O2' N2'] I2'].
  unfold tree_errors. apply Forall2_app.
  - (* the program node *)
    rewrite I2, I2'.
    destruct (build_program_info _ _ _ _ B1 eq_refl) as (ds1 & G1 & C1). destruct (build_program_info _ _ _ _ B1' eq_refl) as (ds1' & G1' & C1').
    pose proof (proj2 P1) as Hm.
    pose proof (build_gdecls_tinv _ _ _ _ (incl_refl _) (tinv_initialized _) G1) as TI. cbn [snd] in TI.
    pose proof (build_gdecls_tinv _ _ _ _ (incl_refl _) (tinv_initialized _) G1') as TI'. cbn [snd] in TI'.
    destruct C1 as [C1|[C1|(main & L & Hne & C1)]], C1' as [C1'|[C1'|(main' & L' & Hne' & C1')]]; rewrite C1, C1' in Hm |- *; try discriminate Hm.
    + constructor.
    + constructor; [|constructor]. repeat split.
    + constructor; [|constructor]. cbn [mkerr_t e_s e_e e_m fst snd]. split; [reflexivity|].
      apply (main_error_rel p tb tb' main main' TI TI' L L'). exact (proj2 T1 _ _ _ L L').
  - (* the declarations *)
    rewrite (decls_mk _ (O2 (own_x_decls _ _))), (decls_mk _ (O2' (own_x_decls _ _))).
    apply (mk_rel (ord (flatten p)) (ord (flatten (kept p)))).
    + apply decls_ms. destruct P2 as [HF _]. clear - HF. induction HF as [|x x' l l' [Hx _] _ IH]; constructor; assumption.
    + rewrite (N2 0), (N2' 0). unfold q. rewrite nd_canon. apply kept_positions.
Qed.

Print Assumptions same_ranges_any.

(* ... hence the same messages in the same order, also in what `errors()` returns (byte ranges and messages) *)
Lemma forall2_msgs (P : err -> err -> Prop) l l' :
  (forall x x', P x x' -> e_m x' = e_m x) -> Forall2 P l l' -> map e_m l' = map e_m l.
Proof. intros H. induction 1 as [|x x' l l' Hx _ IH]; [reflexivity|]. cbn [map]. rewrite (H x x' Hx), IH. reflexivity. Qed.

Theorem same_diagnostics_any p doc toks ins ts :
  prog_ok p = true -> aprog_valid p = true -> lex doc = Some toks -> map tk toks = flatten p ++ [Eof] ->
  exists txt d d',
    formatted_text doc ins ts = Done txt /\ new_doc_res doc = ODone d /\ new_doc_res txt = ODone d' /\
    Forall2 (fun x x' => e_m x' = e_m x /\ ord (flatten (kept p)) (e_s x') = ord (flatten p) (e_s x)
                         /\ ord (flatten (kept p)) (e_e x') = ord (flatten p) (e_e x))
            (tree_errors (d_ast d)) (tree_errors (d_ast d')) /\
    map e_m (tree_errors (d_ast d')) = map e_m (tree_errors (d_ast d)) /\
    forall l, doc_errors_res d = ROk l -> exists l', doc_errors_res d' = ROk l' /\ map snd l' = map snd l.
Proof.
  intros Hok Hv El Hk. destruct (same_ranges_any p doc toks ins ts Hok Hv El Hk) as (txt & d & d' & Ef & Hd & Hd' & HF).
  pose proof (forall2_msgs _ _ _ (fun x x' H => proj1 H) HF) as Hm.
  exists txt, d, d'. split; [exact Ef|]. split; [exact Hd|]. split; [exact Hd'|]. split; [exact HF|]. split; [exact Hm|].
  intros l Hl. destruct (doc_errors_total txt d' Hd') as [l' Hl']. exists l'. split; [exact Hl'|].
  unfold doc_errors_res in Hl, Hl'. rewrite (byte_ranges_msgs _ _ _ Hl), (byte_ranges_msgs _ _ _ Hl'). exact Hm.
Qed.

Print Assumptions same_diagnostics_any.
