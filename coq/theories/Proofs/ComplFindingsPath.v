(* C16 - the position classifier on VALID programs, decided at EVERY position: part 3, pure facts about
   the specification functions [st_spec], [sts_spec], [proc_spec] (no model, no tokens):

   [snest s g s']      statement s' is s or is nested in s at any depth (blocks, branches of `if`, bodies of
                       `while`); its first token (leading comments included) is token g of s;
   [st_spec_nest]      with the position inside s' and `token_before` not a `}`: the answer for s is the
                       answer for s';
   [sts_spec_past], [sts_spec_front], [sts_spec_skip], [sts_spec_hit]   statement lists;
   [proc_spec_nested]  the same from the procedure declaration down to a statement nested in a top-level
                       statement of its body;
   [first_real_*]      the `in_statements` test. *)
From Coq Require Import PeanoNat NArith Lia List Bool.
From Spl Require Import Proofs.GrammarBase Proofs.GrammarExpr Proofs.GrammarStmt.
From Spl Require Import Proofs.GrammarProofs Spec.Typing Model.Errors Proofs.SemProofs Proofs.TypingProofs.
From Spl Require Import Model.Hover Model.Fold Proofs.LexerProofs Proofs.FoldProofs Proofs.HoverProofs.
From Spl Require Import Proofs.HoverValid Model.Completion Proofs.CompletionProofs.
From Spl Require Import Proofs.ComplValidBase Proofs.ComplValidProc Proofs.ComplValidNest Proofs.ComplValid.
From Spl Require Import Proofs.ComplFindingsSpec Proofs.ComplFindingsProc.
Import ListNotations.
Local Open Scope nat_scope.

(* ---------------------------------------------------------------------------------------- *)
(* the equations of the specification                                                         *)

Definition else_or (pi : bool) (k : kind) (a : shape) : shape := if pi && is_rcurly k then AElse else a.

Lemma st_spec_emp c a lo hi k pi : st_spec (SEmp c) a lo hi k pi = else_or pi k AStmt.
Proof. reflexivity. Qed.
Lemma st_spec_asg v c1 e c2 a lo hi k pi :
  st_spec (SAsg v c1 e c2) a lo hi k pi = else_or pi k (vars_if (a + len (fl_var v) + len c1 <? hi)).
Proof. reflexivity. Qed.
Lemma st_spec_cal c1 f c2 args c3 c4 a lo hi k pi :
  st_spec (SCal c1 f c2 args c3 c4) a lo hi k pi = else_or pi k (vars_if (a + len c1 + 1 + len c2 <? hi)).
Proof. reflexivity. Qed.
Lemma st_spec_ift c1 c2 e c3 t a lo hi k pi :
  st_spec (SIfT c1 c2 e c3 t) a lo hi k pi =
  else_or pi k
    (let ot := a + len c1 + 1 + len c2 + 1 + len (fl_cmp e) + len c3 + 1 in
     if inside ot (len (fl_stmt t)) lo hi then st_spec t ot lo hi k false
     else vars_if (a + len c1 + 1 + len c2 <? hi)).
Proof. reflexivity. Qed.
Lemma st_spec_ife c1 c2 e c3 t c4 s a lo hi k pi :
  st_spec (SIfE c1 c2 e c3 t c4 s) a lo hi k pi =
  else_or pi k
    (let ot := a + len c1 + 1 + len c2 + 1 + len (fl_cmp e) + len c3 + 1 in
     let os := ot + len (fl_stmt t) + len c4 + 1 in
     if inside ot (len (fl_stmt t)) lo hi then st_spec t ot lo hi k false
     else if inside os (len (fl_stmt s)) lo hi then st_spec s os lo hi k false
     else vars_if (a + len c1 + 1 + len c2 <? hi)).
Proof. reflexivity. Qed.
Lemma st_spec_whl c1 c2 e c3 b a lo hi k pi :
  st_spec (SWhl c1 c2 e c3 b) a lo hi k pi =
  else_or pi k
    (let ob := a + len c1 + 1 + len c2 + 1 + len (fl_cmp e) + len c3 + 1 in
     if inside ob (len (fl_stmt b)) lo hi then st_spec b ob lo hi k false
     else vars_if (a + len c1 + 1 + len c2 <? hi)).
Proof. reflexivity. Qed.
Lemma st_spec_blk c1 b c2 a lo hi k pi :
  st_spec (SBlk c1 b c2) a lo hi k pi = else_or pi k (sts_spec b (a + len c1 + 1) lo hi k false).
Proof. reflexivity. Qed.
Lemma sts_spec_nil a lo hi k pi : sts_spec SNil a lo hi k pi = AStmt.
Proof. reflexivity. Qed.
Lemma sts_spec_cons s r a lo hi k pi :
  sts_spec (SCons s r) a lo hi k pi =
  if inside a (len (fl_stmt s)) lo hi then st_spec s a lo hi k pi
  else sts_spec r (a + len (fl_stmt s)) lo hi k (is_ifa s).
Proof. reflexivity. Qed.

(* all of them, for Props/C16.v *)
Lemma spec_equations :
  (forall c a lo hi k pi, st_spec (SEmp c) a lo hi k pi = else_or pi k AStmt) /\
  (forall v c1 e c2 a lo hi k pi,
     st_spec (SAsg v c1 e c2) a lo hi k pi = else_or pi k (vars_if (a + len (fl_var v) + len c1 <? hi))) /\
  (forall c1 f c2 args c3 c4 a lo hi k pi,
     st_spec (SCal c1 f c2 args c3 c4) a lo hi k pi = else_or pi k (vars_if (a + len c1 + 1 + len c2 <? hi))) /\
  (forall c1 c2 e c3 t a lo hi k pi,
     st_spec (SIfT c1 c2 e c3 t) a lo hi k pi =
     else_or pi k
       (let ot := a + len c1 + 1 + len c2 + 1 + len (fl_cmp e) + len c3 + 1 in
        if inside ot (len (fl_stmt t)) lo hi then st_spec t ot lo hi k false
        else vars_if (a + len c1 + 1 + len c2 <? hi))) /\
  (forall c1 c2 e c3 t c4 s a lo hi k pi,
     st_spec (SIfE c1 c2 e c3 t c4 s) a lo hi k pi =
     else_or pi k
       (let ot := a + len c1 + 1 + len c2 + 1 + len (fl_cmp e) + len c3 + 1 in
        let os := ot + len (fl_stmt t) + len c4 + 1 in
        if inside ot (len (fl_stmt t)) lo hi then st_spec t ot lo hi k false
        else if inside os (len (fl_stmt s)) lo hi then st_spec s os lo hi k false
        else vars_if (a + len c1 + 1 + len c2 <? hi))) /\
  (forall c1 c2 e c3 b a lo hi k pi,
     st_spec (SWhl c1 c2 e c3 b) a lo hi k pi =
     else_or pi k
       (let ob := a + len c1 + 1 + len c2 + 1 + len (fl_cmp e) + len c3 + 1 in
        if inside ob (len (fl_stmt b)) lo hi then st_spec b ob lo hi k false
        else vars_if (a + len c1 + 1 + len c2 <? hi))) /\
  (forall c1 b c2 a lo hi k pi,
     st_spec (SBlk c1 b c2) a lo hi k pi = else_or pi k (sts_spec b (a + len c1 + 1) lo hi k false)) /\
  (forall a lo hi k pi, sts_spec SNil a lo hi k pi = AStmt) /\
  (forall s r a lo hi k pi,
     sts_spec (SCons s r) a lo hi k pi =
     if inside a (len (fl_stmt s)) lo hi then st_spec s a lo hi k pi
     else sts_spec r (a + len (fl_stmt s)) lo hi k (is_ifa s)) /\
  (forall D c1 c2 x c3 ps c4 c5 vs b c6 lo hi k,
     proc_spec D (DProc c1 c2 x c3 ps c4 c5 vs b c6) lo hi k =
     let o := D + len (proc_head c1 c2 x c3 ps c4 c5) + len (flat_map fl_vardecl vs) in
     if lo <? D + len (proc_sig c1 c2 x c3 ps c4) then sig_answer k
     else if in_stmts_spec b o lo then sts_spec b o lo hi k false
     else decl_answer k).
Proof. repeat split. Qed.

Lemma else_or_norc pi k a : is_rcurly k = false -> else_or pi k a = a.
Proof. intros H. unfold else_or. now rewrite H, andb_false_r. Qed.
Lemma else_or_false k a : else_or false k a = a.
Proof. reflexivity. Qed.

Lemma inside_true a n lo hi : a <= lo -> hi < a + n -> inside a n lo hi = true.
Proof.
  intros H1 H2. unfold inside. destruct (Nat.leb_spec a lo); [|lia]. destruct (Nat.ltb_spec hi (a + n)); [reflexivity | lia].
Qed.
Lemma inside_lo a n lo hi : lo < a -> inside a n lo hi = false.
Proof. intros H. unfold inside. destruct (Nat.leb_spec a lo); [lia | reflexivity]. Qed.
Lemma inside_hi a n lo hi : a + n <= hi -> inside a n lo hi = false.
Proof. intros H. unfold inside. destruct (Nat.ltb_spec hi (a + n)); [lia | apply andb_false_r]. Qed.
Lemma inside_inv a n lo hi : inside a n lo hi = true -> a <= lo /\ hi < a + n.
Proof. unfold inside. intros H. apply andb_true_iff in H as [H1 H2]. apply Nat.leb_le in H1. apply Nat.ltb_lt in H2. lia. Qed.

(* when `token_before` is not a `}` the `last_stmt_is_if` flag is irrelevant *)
Lemma st_spec_norc s a lo hi k pi : is_rcurly k = false -> st_spec s a lo hi k pi = st_spec s a lo hi k false.
Proof.
  intros H. destruct s; rewrite ?st_spec_emp, ?st_spec_asg, ?st_spec_cal, ?st_spec_ift, ?st_spec_ife, ?st_spec_whl, ?st_spec_blk;
    now rewrite !else_or_norc by exact H.
Qed.

Lemma sts_spec_norc : forall b a lo hi k pi, is_rcurly k = false -> sts_spec b a lo hi k pi = sts_spec b a lo hi k false.
Proof.
  destruct b as [|s r]; intros a lo hi k pi H; [reflexivity|]. rewrite !sts_spec_cons.
  destruct (inside _ _ _ _); [now apply st_spec_norc | reflexivity].
Qed.

(* every statement ends in front of the position *)
Lemma sts_spec_past : forall b a lo hi k pi, a + len (fl_stmts b) <= hi -> sts_spec b a lo hi k pi = AStmt.
Proof.
  induction b as [|s r IH]; intros a lo hi k pi H; [reflexivity|]. rewrite sts_spec_cons.
  cbn [fl_stmts] in H. rewrite app_length in H. rewrite inside_hi by lia. apply IH. lia.
Qed.

(* every statement starts behind it *)
Lemma sts_spec_front : forall b a lo hi k pi, lo < a -> sts_spec b a lo hi k pi = AStmt.
Proof.
  induction b as [|s r IH]; intros a lo hi k pi H; [reflexivity|]. rewrite sts_spec_cons.
  rewrite inside_lo by lia. apply IH. lia.
Qed.

Lemma sts_spec_skip : forall b1 b2 a lo hi k pi,
  a + len (fl_stmts b1) <= hi ->
  exists pi', sts_spec (sapp b1 b2) a lo hi k pi = sts_spec b2 (a + len (fl_stmts b1)) lo hi k pi'.
Proof.
  induction b1 as [|s r IH]; intros b2 a lo hi k pi H; cbn [sapp fl_stmts length].
  - exists pi. now rewrite Nat.add_0_r.
  - cbn [fl_stmts] in H. rewrite app_length in *. rewrite sts_spec_cons, inside_hi by lia.
    destruct (IH b2 (a + len (fl_stmt s)) lo hi k (is_ifa s) ltac:(lia)) as [pi' ->]. exists pi'. f_equal. lia.
Qed.

(* the statement s behind b1 holds the position *)
Lemma sts_spec_hit b1 s b2 a lo hi k pi :
  inside (a + len (fl_stmts b1)) (len (fl_stmt s)) lo hi = true -> lo <= hi ->
  exists pi', sts_spec (sapp b1 (SCons s b2)) a lo hi k pi = st_spec s (a + len (fl_stmts b1)) lo hi k pi'.
Proof.
  intros Hin Hle. apply inside_inv in Hin as [H1 H2].
  destruct (sts_spec_skip b1 (SCons s b2) a lo hi k pi ltac:(lia)) as [pi' ->]. exists pi'.
  rewrite sts_spec_cons, inside_true by lia. reflexivity.
Qed.

(* ---------------------------------------------------------------------------------------- *)
(* nested statements                                                                          *)

Inductive snest : astmt -> nat -> astmt -> Prop :=
| SN_here s : snest s 0 s
| SN_blk c1 b1 s b2 c2 g s' : snest s g s' ->
    snest (SBlk c1 (sapp b1 (SCons s b2)) c2) (len c1 + 1 + len (fl_stmts b1) + g) s'
| SN_ift c1 c2 e c3 t g s' : snest t g s' ->
    snest (SIfT c1 c2 e c3 t) (len c1 + 1 + len c2 + 1 + len (fl_cmp e) + len c3 + 1 + g) s'
| SN_ife_t c1 c2 e c3 t c4 s g s' : snest t g s' ->
    snest (SIfE c1 c2 e c3 t c4 s) (len c1 + 1 + len c2 + 1 + len (fl_cmp e) + len c3 + 1 + g) s'
| SN_ife_e c1 c2 e c3 t c4 s g s' : snest s g s' ->
    snest (SIfE c1 c2 e c3 t c4 s) (len c1 + 1 + len c2 + 1 + len (fl_cmp e) + len c3 + 1 + len (fl_stmt t) + len c4 + 1 + g) s'
| SN_whl c1 c2 e c3 b g s' : snest b g s' ->
    snest (SWhl c1 c2 e c3 b) (len c1 + 1 + len c2 + 1 + len (fl_cmp e) + len c3 + 1 + g) s'.

(* where the tokens of s' sit in those of s *)
Lemma snest_split s g s' : snest s g s' -> exists pre post, fl_stmt s = pre ++ fl_stmt s' ++ post /\ len pre = g.
Proof.
  induction 1 as [s | c1 b1 s b2 c2 g s' _ IH | c1 c2 e c3 t g s' _ IH | c1 c2 e c3 t c4 s g s' _ IH
                 | c1 c2 e c3 t c4 s g s' _ IH | c1 c2 e c3 b g s' _ IH].
  - exists [], []. split; [now rewrite app_nil_r | reflexivity].
  - destruct IH as [pre [post [E Hl]]].
    exists (cm c1 ++ LCurly :: fl_stmts b1 ++ pre), (post ++ fl_stmts b2 ++ cm c2 ++ [RCurly]).
    split; [cbn [fl_stmt]; rewrite fl_stmts_sapp; cbn [fl_stmts]; rewrite E; listeq | rewrite <- Hl; leneq].
  - destruct IH as [pre [post [E Hl]]].
    exists (cm c1 ++ KIf :: cm c2 ++ LParen :: fl_cmp e ++ cm c3 ++ RParen :: pre), post.
    split; [cbn [fl_stmt]; rewrite E; listeq | rewrite <- Hl; leneq].
  - destruct IH as [pre [post [E Hl]]].
    exists (cm c1 ++ KIf :: cm c2 ++ LParen :: fl_cmp e ++ cm c3 ++ RParen :: pre), (post ++ cm c4 ++ KElse :: fl_stmt s).
    split; [cbn [fl_stmt]; rewrite E; listeq | rewrite <- Hl; leneq].
  - destruct IH as [pre [post [E Hl]]].
    exists (cm c1 ++ KIf :: cm c2 ++ LParen :: fl_cmp e ++ cm c3 ++ RParen :: fl_stmt t ++ cm c4 ++ KElse :: pre), post.
    split; [cbn [fl_stmt]; rewrite E; listeq | rewrite <- Hl; leneq].
  - destruct IH as [pre [post [E Hl]]].
    exists (cm c1 ++ KWhile :: cm c2 ++ LParen :: fl_cmp e ++ cm c3 ++ RParen :: pre), post.
    split; [cbn [fl_stmt]; rewrite E; listeq | rewrite <- Hl; leneq].
Qed.

Lemma snest_bounds s g s' : snest s g s' -> g + len (fl_stmt s') <= len (fl_stmt s).
Proof. intros H. destruct (snest_split _ _ _ H) as [pre [post [E <-]]]. rewrite E, !app_length. lia. Qed.

Lemma snest_real s g s' : snest s g s' -> is_emp s' = false -> is_emp s = false.
Proof. intros Hn He. destruct Hn; try reflexivity. exact He. Qed.

(* descending to the nested statement that holds the position *)
Theorem st_spec_nest s g s' : snest s g s' ->
  forall a lo hi k pi, lo <= hi -> inside (a + g) (len (fl_stmt s')) lo hi = true -> is_rcurly k = false ->
  st_spec s a lo hi k pi = st_spec s' (a + g) lo hi k false.
Proof.
  induction 1 as [s | c1 b1 s b2 c2 g s' Hn IH | c1 c2 e c3 t g s' Hn IH | c1 c2 e c3 t c4 s g s' Hn IH
                 | c1 c2 e c3 t c4 s g s' Hn IH | c1 c2 e c3 b g s' Hn IH];
    intros a lo hi k pi Hle Hin Hk; pose proof (inside_inv _ _ _ _ Hin) as [I1 I2].
  - rewrite Nat.add_0_r. now apply st_spec_norc.
  - pose proof (snest_bounds _ _ _ Hn) as Hb.
    rewrite st_spec_blk, else_or_norc by exact Hk.
    destruct (sts_spec_hit b1 s b2 (a + len c1 + 1) lo hi k false) as [pi' ->]; [apply inside_true; lia | exact Hle|].
    rewrite (IH (a + len c1 + 1 + len (fl_stmts b1)) lo hi k pi' Hle) by (try exact Hk; apply inside_true; lia).
    f_equal. lia.
  - pose proof (snest_bounds _ _ _ Hn) as Hb.
    rewrite st_spec_ift, else_or_norc by exact Hk. cbv zeta. rewrite inside_true by lia.
    rewrite (IH _ lo hi k false Hle) by (try exact Hk; apply inside_true; lia). f_equal. lia.
  - pose proof (snest_bounds _ _ _ Hn) as Hb.
    rewrite st_spec_ife, else_or_norc by exact Hk. cbv zeta. rewrite inside_true by lia.
    rewrite (IH _ lo hi k false Hle) by (try exact Hk; apply inside_true; lia). f_equal. lia.
  - pose proof (snest_bounds _ _ _ Hn) as Hb.
    rewrite st_spec_ife, else_or_norc by exact Hk. cbv zeta. rewrite inside_hi by lia. rewrite inside_true by lia.
    rewrite (IH _ lo hi k false Hle) by (try exact Hk; apply inside_true; lia). f_equal. lia.
  - pose proof (snest_bounds _ _ _ Hn) as Hb.
    rewrite st_spec_whl, else_or_norc by exact Hk. cbv zeta. rewrite inside_true by lia.
    rewrite (IH _ lo hi k false Hle) by (try exact Hk; apply inside_true; lia). f_equal. lia.
Qed.

(* ... without the assumption on `token_before`: the `else` proposals may come first *)
Theorem st_spec_nest_any s g s' : snest s g s' ->
  forall a lo hi k pi, lo <= hi -> inside (a + g) (len (fl_stmt s')) lo hi = true ->
  st_spec s a lo hi k pi = AElse \/ exists pi', st_spec s a lo hi k pi = st_spec s' (a + g) lo hi k pi'.
Proof.
  induction 1 as [s | c1 b1 s b2 c2 g s' Hn IH | c1 c2 e c3 t g s' Hn IH | c1 c2 e c3 t c4 s g s' Hn IH
                 | c1 c2 e c3 t c4 s g s' Hn IH | c1 c2 e c3 b g s' Hn IH];
    intros a lo hi k pi Hle Hin; pose proof (inside_inv _ _ _ _ Hin) as [I1 I2].
  - right. exists pi. now rewrite Nat.add_0_r.
  - pose proof (snest_bounds _ _ _ Hn) as Hb. rewrite st_spec_blk. unfold else_or.
    destruct (pi && is_rcurly k); [now left|].
    destruct (sts_spec_hit b1 s b2 (a + len c1 + 1) lo hi k false) as [pi' ->]; [apply inside_true; lia | exact Hle|].
    destruct (IH (a + len c1 + 1 + len (fl_stmts b1)) lo hi k pi' Hle ltac:(apply inside_true; lia)) as [E | [pi2 E]]; [now left|].
    right. exists pi2. rewrite E. f_equal. lia.
  - pose proof (snest_bounds _ _ _ Hn) as Hb. rewrite st_spec_ift. unfold else_or.
    destruct (pi && is_rcurly k); [now left|]. cbv zeta. rewrite inside_true by lia.
    destruct (IH (a + len c1 + 1 + len c2 + 1 + len (fl_cmp e) + len c3 + 1) lo hi k false Hle ltac:(apply inside_true; lia)) as [E | [pi2 E]]; [now left|].
    right. exists pi2. rewrite E. f_equal. lia.
  - pose proof (snest_bounds _ _ _ Hn) as Hb. rewrite st_spec_ife. unfold else_or.
    destruct (pi && is_rcurly k); [now left|]. cbv zeta. rewrite inside_true by lia.
    destruct (IH (a + len c1 + 1 + len c2 + 1 + len (fl_cmp e) + len c3 + 1) lo hi k false Hle ltac:(apply inside_true; lia)) as [E | [pi2 E]]; [now left|].
    right. exists pi2. rewrite E. f_equal. lia.
  - pose proof (snest_bounds _ _ _ Hn) as Hb. rewrite st_spec_ife. unfold else_or.
    destruct (pi && is_rcurly k); [now left|]. cbv zeta. rewrite inside_hi by lia. rewrite inside_true by lia.
    destruct (IH (a + len c1 + 1 + len c2 + 1 + len (fl_cmp e) + len c3 + 1 + len (fl_stmt t) + len c4 + 1) lo hi k false Hle
                ltac:(apply inside_true; lia)) as [E | [pi2 E]]; [now left|].
    right. exists pi2. rewrite E. f_equal. lia.
  - pose proof (snest_bounds _ _ _ Hn) as Hb. rewrite st_spec_whl. unfold else_or.
    destruct (pi && is_rcurly k); [now left|]. cbv zeta. rewrite inside_true by lia.
    destruct (IH (a + len c1 + 1 + len c2 + 1 + len (fl_cmp e) + len c3 + 1) lo hi k false Hle ltac:(apply inside_true; lia)) as [E | [pi2 E]]; [now left|].
    right. exists pi2. rewrite E. f_equal. lia.
Qed.

(* ---------------------------------------------------------------------------------------- *)
(* the `in_statements` test                                                                   *)

Lemma first_real_emps : forall b1 b2 o, has_real b1 = false -> first_real (sapp b1 b2) o = first_real b2 (o + len (fl_stmts b1)).
Proof.
  induction b1 as [|s r IH]; intros b2 o H; cbn [sapp fl_stmts length first_real]; [now rewrite Nat.add_0_r|].
  cbn [has_real] in H. apply orb_false_iff in H as [Hs Hr]. destruct (is_emp s); [|discriminate Hs].
  rewrite IH by exact Hr. rewrite app_length. f_equal. lia.
Qed.

Lemma first_real_has : forall b1 b2 o, has_real b1 = true ->
  exists r, first_real (sapp b1 b2) o = Some r /\ r < o + len (fl_stmts b1).
Proof.
  induction b1 as [|s r IH]; intros b2 o H; [discriminate|]. cbn [sapp fl_stmts first_real]. rewrite app_length.
  pose proof (stmt_len_pos s) as Hp. cbn [has_real] in H. destruct (is_emp s); cbn [negb orb] in H.
  - destruct (IH b2 (o + len (fl_stmt s)) H) as [q [-> Hq]]. exists q. split; [reflexivity | lia].
  - exists o. split; [reflexivity | lia].
Qed.

Lemma first_real_le b1 s b2 o : is_emp s = false ->
  exists r, first_real (sapp b1 (SCons s b2)) o = Some r /\ r <= o + len (fl_stmts b1).
Proof.
  intros Hs. destruct (has_real b1) eqn:Hr.
  - destruct (first_real_has b1 (SCons s b2) o Hr) as [r [-> Hlt]]. exists r. split; [reflexivity | lia].
  - rewrite first_real_emps by exact Hr. cbn [first_real]. rewrite Hs. eexists. split; [reflexivity | lia].
Qed.

Lemma in_stmts_at_stmt b1 s b2 o lo :
  has_real b1 = true \/ is_emp s = false -> o + len (fl_stmts b1) <= lo -> in_stmts_spec (sapp b1 (SCons s b2)) o lo = true.
Proof.
  intros [H|H] Hle; unfold in_stmts_spec.
  - destruct (first_real_has b1 (SCons s b2) o H) as [r [-> Hr]]. apply Nat.leb_le. lia.
  - destruct (first_real_le b1 s b2 o H) as [r [-> Hr]]. apply Nat.leb_le. lia.
Qed.

(* ---------------------------------------------------------------------------------------- *)
(* procedures                                                                                 *)

Lemma head_after_sig c1 c2 x c3 ps c4 c5 : len (proc_sig c1 c2 x c3 ps c4) + 2 <= len (proc_head c1 c2 x c3 ps c4 c5).
Proof. rewrite proc_head_sig, app_length. cbn [length]. rewrite app_length. cbn [length]. lia. Qed.

Lemma proc_spec_body D c1 c2 x c3 ps c4 c5 vs b c6 lo hi k :
  D + len (proc_sig c1 c2 x c3 ps c4) <= lo ->
  proc_spec D (DProc c1 c2 x c3 ps c4 c5 vs b c6) lo hi k =
    let o := D + len (proc_head c1 c2 x c3 ps c4 c5) + len (flat_map fl_vardecl vs) in
    if in_stmts_spec b o lo then sts_spec b o lo hi k false else decl_answer k.
Proof. intros H. unfold proc_spec. destruct (Nat.ltb_spec lo (D + len (proc_sig c1 c2 x c3 ps c4))); [lia | reflexivity]. Qed.

(* from the declaration down to a statement s' nested in the top-level statement s of the body *)
Theorem proc_spec_nested D c1 c2 x c3 ps c4 c5 vs b1 s b2 c6 g s' lo hi k :
  snest s g s' ->
  let A := D + len (proc_head c1 c2 x c3 ps c4 c5) + len (flat_map fl_vardecl vs) + len (fl_stmts b1) + g in
  has_real b1 = true \/ is_emp s = false ->
  lo <= hi -> inside A (len (fl_stmt s')) lo hi = true -> is_rcurly k = false ->
  proc_spec D (DProc c1 c2 x c3 ps c4 c5 vs (sapp b1 (SCons s b2)) c6) lo hi k = st_spec s' A lo hi k false.
Proof.
  intros Hn A Hreal Hle Hin Hk. pose proof (inside_inv _ _ _ _ Hin) as [I1 I2].
  pose proof (snest_bounds _ _ _ Hn) as Hb. pose proof (head_after_sig c1 c2 x c3 ps c4 c5) as Hh. unfold A in *.
  rewrite proc_spec_body by lia. cbv zeta.
  rewrite in_stmts_at_stmt by (try exact Hreal; lia).
  destruct (sts_spec_hit b1 s b2 (D + len (proc_head c1 c2 x c3 ps c4 c5) + len (flat_map fl_vardecl vs)) lo hi k false)
    as [pi' ->]; [apply inside_true; lia | exact Hle|].
  now apply st_spec_nest.
Qed.

Theorem proc_spec_nested_any D c1 c2 x c3 ps c4 c5 vs b1 s b2 c6 g s' lo hi k :
  snest s g s' ->
  let A := D + len (proc_head c1 c2 x c3 ps c4 c5) + len (flat_map fl_vardecl vs) + len (fl_stmts b1) + g in
  has_real b1 = true \/ is_emp s = false ->
  lo <= hi -> inside A (len (fl_stmt s')) lo hi = true ->
  proc_spec D (DProc c1 c2 x c3 ps c4 c5 vs (sapp b1 (SCons s b2)) c6) lo hi k = AElse \/
  exists pi', proc_spec D (DProc c1 c2 x c3 ps c4 c5 vs (sapp b1 (SCons s b2)) c6) lo hi k = st_spec s' A lo hi k pi'.
Proof.
  intros Hn A Hreal Hle Hin. pose proof (inside_inv _ _ _ _ Hin) as [I1 I2].
  pose proof (snest_bounds _ _ _ Hn) as Hb. pose proof (head_after_sig c1 c2 x c3 ps c4 c5) as Hh. unfold A in *.
  rewrite proc_spec_body by lia. cbv zeta.
  rewrite in_stmts_at_stmt by (try exact Hreal; lia).
  destruct (sts_spec_hit b1 s b2 (D + len (proc_head c1 c2 x c3 ps c4 c5) + len (flat_map fl_vardecl vs)) lo hi k false)
    as [pi' ->]; [apply inside_true; lia | exact Hle|].
  now apply st_spec_nest_any.
Qed.

(* kinds that are no `}` *)
Definition nrc (k : kind) : Prop := is_rcurly k = false.

Lemma nrc_cm c : Forall nrc (cm c).
Proof. induction c; constructor; [reflexivity | assumption]. Qed.

Lemma nrc_cmp e : Forall nrc (fl_cmp e).
Proof. eapply Forall_impl; [|apply expr_ek]. intros x [_ H]. exact H. Qed.
Lemma nrc_var v : Forall nrc (fl_var v).
Proof. eapply Forall_impl; [|apply expr_ek]. intros x [_ H]. exact H. Qed.

Lemma nrc_args a : Forall nrc (fl_sep fl_cmp a).
Proof.
  destruct a as [[e l]|]; [|constructor]. cbn [fl_sep]. apply Forall_app. split; [apply nrc_cmp|].
  unfold fl_tail. induction l as [|[c x] l IH]; [constructor|]. cbn [flat_map fst snd].
  apply Forall_app. split; [|exact IH]. apply Forall_app. split; [apply nrc_cm|]. constructor; [reflexivity | apply nrc_cmp].
Qed.

Lemma nrc_nth l i k : Forall nrc l -> nth_error l i = Some k -> is_rcurly k = false.
Proof. intros H Hn. rewrite Forall_forall in H. exact (H _ (nth_error_In _ _ Hn)). Qed.
