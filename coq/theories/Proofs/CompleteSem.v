(* C03 - COMPLETENESS OF THE BACK END for clean trees: if `build` followed by `analyze` publishes no
   diagnostic on a tree the parser left clean, then neither pass changed the tree and the program is
   well-typed in the sense of Spec/Typing.v (declarations well-formed, bodies well-typed).

     analyze_unchanged   analysis that publishes nothing returned its argument (any tree)
     build_complete      build that publishes nothing on a clean tree returned its argument, and the
                         declarations are well-formed with exactly the table that was built
     back_end_complete   both together with analyze_complete / wf_tables_ok of TypingProofs.v

   The proofs rest on one observation: every function of Build.v / Semantic.v returns its argument with
   errors APPENDED (never removed), so "no error in the output" forces "output = input" and excludes
   every branch that flags. *)
From Coq Require Import PeanoNat Lia.
From Spl Require Import Proofs.GrammarProofs Spec.Typing Model.Errors Proofs.SemProofs Proofs.TypingProofs.
Local Open Scope nat_scope.

(* binds with chosen names *)
Ltac bindp H a b E :=
  match type of H with
  | rbind ?r _ = _ =>
      let x := fresh "x" in
      remember r as x eqn:E in H; symmetry in E; destruct x as [[a b]|]; cbn [rbind] in H; [|discriminate H]
  end.
Ltac bindt H a b c E :=
  match type of H with
  | rbind ?r _ = _ =>
      let x := fresh "x" in
      remember r as x eqn:E in H; symmetry in E; destruct x as [[[a b] c]|]; cbn [rbind] in H; [|discriminate H]
  end.
Ltac binds H a E :=
  match type of H with
  | rbind ?r _ = _ =>
      let x := fresh "x" in
      remember r as x eqn:E in H; symmetry in E; destruct x as [a|]; cbn [rbind] in H; [|discriminate H]
  end.

(* ------------------------------------------------------------------------------------------ *)
(* an appended error is visible *)

Lemma info_append_errs inf x : i_errs (info_append inf x) <> [].
Proof. cbn [info_append i_errs]. intros H. apply app_eq_nil in H. destruct H as [_ H]. discriminate H. Qed.

Lemma shift_es_nil off l : shift_es off l = [] -> l = [].
Proof. unfold shift_es. destruct l as [|a r]; [reflexivity | discriminate]. Qed.

Lemma expr_append_errs e x : expr_errors (expr_append e x) <> [].
Proof. intros H. pose proof (ne_expr_append e x) as Hn. unfold ne_expr in Hn. rewrite H in Hn. discriminate Hn. Qed.

Lemma ident_flag_errs i m i' : ident_flag i m = ROk i' -> ident_errors i' <> [].
Proof.
  intros H. apply ident_flag_ok in H. destruct H as [_ ->]. unfold ident_errors. cbn [ident_append id_info].
  apply info_append_errs.
Qed.

Lemma index_result_nil e ty : expr_errors (index_result e ty) = [] -> index_result e ty = e.
Proof.
  unfold index_result. destruct ty as [[| |sz b c]|]; try reflexivity; intros H; exfalso; exact (expr_append_errs _ _ H).
Qed.

Lemma cond_result_nil m e ty : expr_errors (cond_result m e ty) = [] -> cond_result m e ty = e.
Proof.
  unfold cond_result. destruct ty as [[| |sz b c]|]; try reflexivity; intros H; exfalso; exact (expr_append_errs _ _ H).
Qed.

Lemma bin_info_nil op inf lt rt : i_errs (bin_info op inf lt rt) = [] -> bin_info op inf lt rt = inf.
Proof.
  unfold bin_info. destruct lt as [a|], rt as [b|]; try reflexivity.
  destruct (is_int a && is_int b); [reflexivity|].
  destruct (is_int a || is_int b); [|destruct (is_arithmetic op)]; intros H; exfalso; exact (info_append_errs _ _ H).
Qed.

Lemma un_info_nil inf ty : i_errs (un_info inf ty) = [] -> un_info inf ty = inf.
Proof.
  unfold un_info. destruct ty as [t|]; [|reflexivity]. destruct (is_int t); [reflexivity|].
  intros H; exfalso; exact (info_append_errs _ _ H).
Qed.

Lemma assign_info_nil inf lty rty : i_errs (assign_info inf lty rty) = [] -> assign_info inf lty rty = inf.
Proof.
  unfold assign_info. destruct lty as [a|], rty as [b|]; try reflexivity.
  destruct (negb (dt_eqb a b)); [intros H; exfalso; exact (info_append_errs _ _ H)|].
  destruct (negb (is_int a)); [intros H; exfalso; exact (info_append_errs _ _ H) | reflexivity].
Qed.

Lemma call_info_nil name n m inf : i_errs (call_info name n m inf) = [] -> call_info name n m inf = inf.
Proof.
  unfold call_info. destruct (Nat.compare n m); [reflexivity | |]; intros H; exfalso; exact (info_append_errs _ _ H).
Qed.

Lemma arg_flag_ref_nil cname i p a : expr_errors (arg_flag_ref cname i p a) = [] -> arg_flag_ref cname i p a = a.
Proof.
  unfold arg_flag_ref. destruct (ve_ref p && negb _); [|reflexivity]. intros H; exfalso; exact (expr_append_errs _ _ H).
Qed.

Lemma arg_flag_type_nil cname i p rng a ty :
  expr_errors (arg_flag_type cname i p rng a ty) = [] -> arg_flag_type cname i p rng a ty = a.
Proof.
  unfold arg_flag_type. destruct ty as [t1|]; [|reflexivity]. destruct (ve_ty p) as [t2|]; [|reflexivity].
  destruct (dt_eqb t1 t2); [reflexivity|]. intros H; exfalso; exact (expr_append_errs _ _ H).
Qed.

Lemma access_result_nil arr' idx inf aty v ty :
  access_result arr' idx inf aty = ROk (v, ty) -> var_errors v = [] -> v = ArrAccess arr' idx inf.
Proof.
  unfold access_result. destruct aty as [[| |sz b c]|]; intros H Hn; injection H as <- _; try reflexivity;
    exfalso; cbn [var_errors] in Hn; apply app_eq_nil in Hn; destruct Hn as [Hn _]; exact (info_append_errs _ _ Hn).
Qed.

(* ------------------------------------------------------------------------------------------ *)
(* (b) the analysis: a result without errors is the argument *)

Section AnalysisSame.
Variable L : option ltable.
Variable G : option gtable.

Lemma an_same :
  (forall v v' ty, an_var L G v = ROk (v', ty) -> var_errors v' = [] -> v' = v) /\
  (forall e e' ty, an_expr L G e = ROk (e', ty) -> expr_errors e' = [] -> e' = e).
Proof.
  apply var_expr_ind.
  - intros i v' ty H Hn. rewrite an_var_named in H.
    destruct (lt_lookup L G (id_val i)) as [[t|p|ve|ve]|]; try (injection H as <- _; reflexivity);
      binds H i' E; injection H as <- _; exfalso; exact (ident_flag_errs _ _ _ E Hn).
  - intros a inf IHa v' ty H Hn. rewrite an_var_access0 in H. bindp H a' aty E.
    pose proof (access_result_nil _ _ _ _ _ _ H Hn) as ->.
    cbn [var_errors] in Hn. apply app_eq_nil in Hn. destruct Hn as [_ Hn]. apply app_eq_nil in Hn. destruct Hn as [Ha _].
    rewrite (IHa _ _ E Ha). reflexivity.
  - intros a e off inf IHa IHe v' ty H Hn. rewrite an_var_access in H. bindp H e' ety E. bindp H a' aty E0.
    pose proof (access_result_nil _ _ _ _ _ _ H Hn) as ->.
    cbn [var_errors] in Hn. apply app_eq_nil in Hn. destruct Hn as [_ Hn]. apply app_eq_nil in Hn. destruct Hn as [Ha He].
    apply shift_es_nil in He. rewrite (index_result_nil _ _ He) in He |- *.
    rewrite (IHa _ _ E0 Ha), (IHe _ _ E He). reflexivity.
  - intros op l r inf IHl IHr e' ty H Hn. rewrite an_expr_bin in H. bindp H l' tyl E. bindp H r' tyr E0. injection H as <- _.
    cbn [expr_errors] in Hn. apply app_eq_nil in Hn. destruct Hn as [Hi Hn]. apply app_eq_nil in Hn. destruct Hn as [Hl Hr].
    rewrite (bin_info_nil _ _ _ _ Hi), (IHl _ _ E Hl), (IHr _ _ E0 Hr). reflexivity.
  - intros a inf IHa e' ty H Hn. rewrite an_expr_brack in H. bindp H a' aty E. injection H as <- _.
    cbn [expr_errors] in Hn. apply app_eq_nil in Hn. destruct Hn as [_ Ha]. rewrite (IHa _ _ E Ha). reflexivity.
  - intros i e' ty H _. rewrite an_expr_int in H. injection H as <- _. reflexivity.
  - intros op a inf IHa e' ty H Hn. rewrite an_expr_un in H. bindp H a' aty E. injection H as <- _.
    cbn [expr_errors] in Hn. apply app_eq_nil in Hn. destruct Hn as [Hi Ha].
    rewrite (un_info_nil _ _ Hi), (IHa _ _ E Ha). reflexivity.
  - intros v IHv e' ty H Hn. rewrite an_expr_var in H. bindp H v' vty E. injection H as <- _.
    cbn [expr_errors] in Hn. rewrite (IHv _ _ E Hn). reflexivity.
  - intros inf e' ty H _. rewrite an_expr_err in H. injection H as <- _. reflexivity.
Qed.

Lemma an_var_same v v' ty : an_var L G v = ROk (v', ty) -> var_errors v' = [] -> v' = v.
Proof. apply an_same. Qed.
Lemma an_expr_same e e' ty : an_expr L G e = ROk (e', ty) -> expr_errors e' = [] -> e' = e.
Proof. apply an_same. Qed.

Lemma an_args_same cname args : forall params i args',
  an_args L G cname i args params = ROk args' -> args_errors args' = [] -> args' = args.
Proof.
  induction args as [|[a off] ar IH]; intros params i args' H Hn.
  - rewrite an_args_nil_l in H. injection H as <-. reflexivity.
  - destruct params as [|p pr]; [rewrite an_args_nil_r in H; injection H as <-; reflexivity|].
    rewrite an_args_cons in H. bindp H a2 ty E. binds H r E0. injection H as <-.
    unfold args_errors in Hn. cbn [flat_map fst snd] in Hn. apply app_eq_nil in Hn. destruct Hn as [Ha Hr].
    apply shift_es_nil in Ha. rewrite (arg_flag_type_nil _ _ _ _ _ _ Ha) in Ha |- *.
    pose proof (an_expr_same _ _ _ E Ha) as Ha2. subst a2. rewrite (arg_flag_ref_nil _ _ _ _ Ha).
    rewrite (IH _ _ _ E0 Hr). reflexivity.
Qed.

Lemma an_cond_same c m c' : an_cond L G c m = ROk c' -> opt_expr_errors c' = [] -> c' = c.
Proof.
  destruct c as [[e off]|]; [|intros [= <-] _; reflexivity].
  rewrite an_cond_some. intros H Hn. bindp H e' ty E. injection H as <-.
  cbn [opt_expr_errors] in Hn. apply shift_es_nil in Hn. rewrite (cond_result_nil _ _ _ Hn) in Hn |- *.
  rewrite (an_expr_same _ _ _ E Hn). reflexivity.
Qed.

Definition stmt_same (s : stmt) : Prop := forall s', an_stmt L G s = ROk s' -> stmt_errors s' = [] -> s' = s.

Lemma an_stmts_same_aux body :
  Forall (fun x => stmt_same (fst x)) body ->
  forall body', an_stmts L G body = ROk body' -> stmts_errors body' = [] -> body' = body.
Proof.
  induction 1 as [|[x off] r Hx _ IH]; intros body' H Hn.
  - injection H as <-. reflexivity.
  - cbn [an_stmts] in H. binds H x' E. binds H r' E0. injection H as <-.
    unfold stmts_errors in Hn. cbn [flat_map fst snd] in Hn. apply app_eq_nil in Hn. destruct Hn as [Hx' Hr'].
    apply shift_es_nil in Hx'. cbn [fst] in Hx. rewrite (Hx _ E Hx'), (IH _ E0 Hr'). reflexivity.
Qed.

Lemma an_opt_same o :
  opt_stmt_P stmt_same o -> forall o', an_opt L G o = ROk o' -> opt_stmt_errors o' = [] -> o' = o.
Proof.
  destruct o as [[x off]|]; cbn [opt_stmt_P an_opt]; [|intros _ o' [= <-] _; reflexivity].
  intros Hx o' H Hn. binds H x' E. injection H as <-. cbn [opt_stmt_errors] in Hn. apply shift_es_nil in Hn.
  rewrite (Hx _ E Hn). reflexivity.
Qed.

Lemma an_stmt_same s : stmt_same s.
Proof.
  induction s as [inf | v e inf | name args inf | c t e inf IHt IHe | c b inf IHb | body inf IH | inf] using stmt_ind';
    unfold stmt_same; intros s' H Hn.
  - change (ROk (SEmpty inf) = ROk s') in H. injection H as <-. reflexivity.
  - destruct e as [[e off]|].
    + rewrite an_stmt_assign in H. bindp H v' lty E. bindp H e' rty E0. injection H as <-.
      cbn [stmt_errors opt_expr_errors] in Hn. apply app_eq_nil in Hn. destruct Hn as [Hi Hn].
      apply app_eq_nil in Hn. destruct Hn as [Hv He]. apply shift_es_nil in He.
      rewrite (assign_info_nil _ _ _ Hi), (an_var_same _ _ _ E Hv), (an_expr_same _ _ _ E0 He). reflexivity.
    + change (ROk (SAssign v None inf) = ROk s') in H. injection H as <-. reflexivity.
  - rewrite an_stmt_call in H. destruct (lt_lookup L G (id_val name)) as [[t|pe|ve|ve]|];
      try (injection H as <-; exfalso; rewrite call_errors in Hn; apply app_eq_nil in Hn; destruct Hn as [Hn _];
           exact (info_append_errs _ _ Hn)).
    binds H args' E. injection H as <-. rewrite call_errors in Hn. apply app_eq_nil in Hn. destruct Hn as [Hi Hn].
    apply app_eq_nil in Hn. destruct Hn as [_ Ha].
    rewrite (call_info_nil _ _ _ _ Hi), (an_args_same _ _ _ _ _ E Ha). reflexivity.
  - rewrite an_stmt_if in H. binds H c' E. binds H t' E0. binds H e' E1. injection H as <-.
    rewrite stmt_errors_if in Hn. apply app_eq_nil in Hn. destruct Hn as [_ Hn]. apply app_eq_nil in Hn. destruct Hn as [Hc Hn].
    apply app_eq_nil in Hn. destruct Hn as [Ht He].
    rewrite (an_cond_same _ _ _ E Hc), (an_opt_same _ IHt _ E0 Ht), (an_opt_same _ IHe _ E1 He). reflexivity.
  - rewrite an_stmt_while in H. binds H c' E. binds H b' E0. injection H as <-.
    rewrite stmt_errors_while in Hn. apply app_eq_nil in Hn. destruct Hn as [_ Hn]. apply app_eq_nil in Hn. destruct Hn as [Hc Hb].
    rewrite (an_cond_same _ _ _ E Hc), (an_opt_same _ IHb _ E0 Hb). reflexivity.
  - rewrite an_stmt_block in H. binds H body' E. injection H as <-.
    rewrite stmt_errors_block in Hn. apply app_eq_nil in Hn. destruct Hn as [_ Hb].
    rewrite (an_stmts_same_aux _ IH _ E Hb). reflexivity.
  - change (ROk (SError inf) = ROk s') in H. injection H as <-. reflexivity.
Qed.

Lemma an_stmts_same body body' : an_stmts L G body = ROk body' -> stmts_errors body' = [] -> body' = body.
Proof. apply an_stmts_same_aux. apply Forall_forall. intros x _. apply an_stmt_same. Qed.

End AnalysisSame.

Lemma analyze_gdecl_unchanged G d d' : analyze_gdecl G d = ROk d' -> gdecl_errors (fst d') = [] -> d' = d.
Proof.
  destruct d as [g off]. unfold analyze_gdecl. destruct g as [td | pd | inf]; try (intros [= <-] _; reflexivity).
  destruct (pd_name pd) as [name|] eqn:Hname; [|intros [= <-] _; reflexivity].
  destruct (lookup G (id_val name)) as [[te|pe]|]; [intros [= <-] _; reflexivity | | discriminate].
  destruct (negb _); [intros [= <-] _; reflexivity|].
  intros H Hn. binds H stmts' E. injection H as <-. cbn [fst gdecl_errors] in Hn. unfold procdecl_errors in Hn.
  cbn [pd_info pd_name pd_params pd_vars pd_stmts] in Hn.
  apply app_eq_nil in Hn. destruct Hn as [_ Hn]. apply app_eq_nil in Hn. destruct Hn as [_ Hn].
  apply app_eq_nil in Hn. destruct Hn as [_ Hn]. apply app_eq_nil in Hn. destruct Hn as [_ Hs].
  rewrite (an_stmts_same _ _ _ _ E Hs), <- Hname, procdecl_eta. reflexivity.
Qed.

Lemma analyze_gdecls_unchanged G ds : forall ds',
  analyze_gdecls G ds = ROk ds' -> gdecls_errors ds' = [] -> ds' = ds.
Proof.
  induction ds as [|d r IH]; intros ds' H Hn; [injection H as <-; reflexivity|].
  cbn [analyze_gdecls] in H. binds H d' E. binds H r' E0. injection H as <-.
  unfold gdecls_errors in Hn. cbn [flat_map] in Hn. apply app_eq_nil in Hn. destruct Hn as [Hd Hr].
  apply shift_es_nil in Hd. rewrite (analyze_gdecl_unchanged _ _ _ E Hd), (IH _ E0 Hr). reflexivity.
Qed.

(* the analysis changes nothing but the attached errors: if it publishes nothing, it returned its argument *)
Theorem analyze_unchanged p G p2 : analyze_res p G = ROk p2 -> tree_errors p2 = [] -> p2 = p.
Proof.
  unfold analyze_res. intros H Hn. binds H ds' E. injection H as <-.
  unfold tree_errors in Hn. cbn [pg_info pg_decls] in Hn. apply app_eq_nil in Hn. destruct Hn as [_ Hd].
  rewrite (analyze_gdecls_unchanged _ _ _ E Hd). apply program_eta.
Qed.

(* ------------------------------------------------------------------------------------------ *)
(* (a) build *)

(* every type entry of the table is resolved (there is no diagnostic for "the named type is unknown because
   ITS declaration was faulty": the fault was reported at that declaration) *)
Definition gtypes_some (G : gtable) : Prop :=
  forall x te, lookup G x = Some (GTypeE te) -> exists t, ten_ty te = Some t.

Lemma binds_type_global L G x te : binds L G x (EntType te) -> lookup G x = Some (GTypeE te).
Proof.
  intros H. inversion H as [le Hl Heq | ge Hl Hg Heq]; [destruct le; discriminate|].
  destruct ge; [|discriminate]. injection Heq as ->. exact Hg.
Qed.

Lemma gtypes_some_initialized : gtypes_some initialized.
Proof.
  intros x te Hx. apply lookup_In in Hx. unfold initialized, procedure_entry in Hx. cbn [In] in Hx.
  repeat match type of Hx with _ \/ _ => destruct Hx as [Hx | Hx] end; try contradiction; try discriminate Hx.
  injection Hx as _ <-. eexists. reflexivity.
Qed.

Lemma gtypes_some_proc G k pe : gtypes_some G -> gtypes_some (G ++ [(k, GProcE pe)]).
Proof.
  intros HT x te Hx. apply lookup_snoc_inv in Hx. destruct Hx as [Hx | [_ [_ Hx]]]; [eapply HT; exact Hx | discriminate].
Qed.

Lemma gtypes_some_type G k te t : gtypes_some G -> ten_ty te = Some t -> gtypes_some (G ++ [(k, GTypeE te)]).
Proof.
  intros HT Ht x te' Hx. apply lookup_snoc_inv in Hx. destruct Hx as [Hx | [_ [_ Hx]]]; [eapply HT; exact Hx|].
  injection Hx as <-. exists t. exact Ht.
Qed.

Section GetType.
Variable l : option ltable.
Variable L : ltable.
Variable G : gtable.
Hypothesis Hl : forall x, lt_lookup l (Some G) x = lt_lookup (Some L) (Some G) x.
Hypothesis HT : gtypes_some G.

Lemma get_data_type_te_complete c te : forall te' dt,
  clean_texpr te = true -> get_data_type_te l (Some G) (Some c) te = ROk (te', dt) -> texpr_errors te' = [] ->
  te' = te /\ exists t, dt = Some t /\ denotes L G c te t.
Proof using Hl HT.
  induction te as [i | size inf | size b off inf IH] using texpr_ind'; intros te' dt Hc H Hn.
  - cbn [get_data_type_te] in H. rewrite Hl in H.
    destruct (lt_lookup (Some L) (Some G) (id_val i)) as [[te0|p|ve|ve]|] eqn:El.
    + injection H as <- <-. split; [reflexivity|]. apply lt_lookup_binds in El.
      destruct (HT _ _ (binds_type_global _ _ _ _ El)) as [t Ht]. exists t. split; [exact Ht|].
      eapply Den_name; eassumption.
    + binds H i' E. injection H as <- _. exfalso. exact (ident_flag_errs _ _ _ E Hn).
    + binds H i' E. injection H as <- _. exfalso. exact (ident_flag_errs _ _ _ E Hn).
    + binds H i' E. injection H as <- _. exfalso. exact (ident_flag_errs _ _ _ E Hn).
    + binds H i' E. injection H as <- _. exfalso. exact (ident_flag_errs _ _ _ E Hn).
  - cbn [clean_texpr clean_opt] in Hc. rewrite andb_false_r in Hc. discriminate Hc.
  - cbn [clean_texpr clean_opt fst] in Hc. apply andb_true_iff in Hc. destruct Hc as [Hc _].
    apply andb_true_iff in Hc. destruct Hc as [Hcs Hcb]. destruct size as [il|]; [|discriminate Hcs].
    cbn [get_data_type_te] in H. bindp H b' bt E. injection H as <- <-.
    cbn [texpr_errors] in Hn. apply app_eq_nil in Hn. destruct Hn as [_ Hn]. apply shift_es_nil in Hn.
    destruct (IH _ _ Hcb E Hn) as [-> [t [-> Hd]]]. split; [reflexivity|].
    eexists. split; [reflexivity|]. apply Den_array, Hd.
Qed.

Lemma get_data_type_complete c ty ty' dt :
  clean_opt (fun r => clean_texpr (fst r)) ty = true ->
  get_data_type l (Some G) (Some c) ty = ROk (ty', dt) -> opt_texpr_errors ty' = [] ->
  ty' = ty /\ exists te o t, ty = Some (te, o) /\ dt = Some t /\ denotes L G c te t.
Proof using Hl HT.
  destruct ty as [[te o]|]; [|discriminate]. cbn [clean_opt fst get_data_type]. intros Hc H Hn.
  bindp H te' dt' E. injection H as <- <-. cbn [opt_texpr_errors] in Hn. apply shift_es_nil in Hn.
  destruct (get_data_type_te_complete _ _ _ _ Hc E Hn) as [-> [t [-> Hd]]]. split; [reflexivity|].
  exists te, o, t. split; [reflexivity|]. split; [reflexivity | exact Hd].
Qed.

End GetType.

(* one parameter: unchanged, entered, and the rule WFP_cons applies to whatever follows *)
Lemma build_parameter_complete G pname L p p' L' oe :
  gtypes_some G -> clean_paramdecl (fst p) = true ->
  build_parameter p pname G L = ROk (p', L', oe) -> paramdecl_errors (fst p') = [] ->
  p' = p /\ exists ve, oe = Some ve /\
    forall r L'' es, wf_params G pname L' r L'' es -> wf_params G pname L (p :: r) L'' (ve :: es).
Proof.
  intros HT Hc H Hn. destruct p as [pd off]. cbn [fst] in Hc.
  destruct pd as [doc is_ref name ty inf | inf]; [|discriminate Hc].
  cbn [clean_paramdecl] in Hc. apply andb_true_iff in Hc. destruct Hc as [Hc _].
  apply andb_true_iff in Hc. destruct Hc as [Hcn Hct]. destruct name as [name|]; [|discriminate Hcn].
  cbn [build_parameter] in H. change (anonymous_creator pname name) with (anon_creator pname name) in H.
  bindp H ty' dt E. binds H name1 E1. unfold enter in H.
  destruct (lookup L (id_val name)) as [old|] eqn:Hlk; binds H name2 E2; injection H as <- <- <-;
    cbn [fst paramdecl_errors opt_ident_errors] in Hn; apply app_eq_nil in Hn; destruct Hn as [_ Hn];
    apply app_eq_nil in Hn; destruct Hn as [Hname Hty].
  - exfalso. exact (ident_flag_errs _ _ _ E2 Hname).
  - injection E2 as ->.
    destruct (get_data_type_complete None [] G (fun _ => eq_refl) HT _ _ _ _ Hct E Hty) as [-> [te [o [t [-> [-> Hd]]]]]].
    destruct (negb (is_primitive t) && negb is_ref) eqn:Ec.
    + exfalso. exact (ident_flag_errs _ _ _ E1 Hname).
    + injection E1 as ->. split; [reflexivity|]. eexists. split; [reflexivity|].
      intros r L'' es Hr. apply WFP_cons; [exact Hd | | exact Hlk | exact Hr].
      intros [sz [b [c ->]]]. cbn [is_primitive negb andb] in Ec. destruct is_ref; [reflexivity | discriminate Ec].
Qed.

Lemma build_parameters_complete G pname ps : forall L ps' L' es,
  gtypes_some G -> forallb (fun r => clean_paramdecl (fst r)) ps = true ->
  build_parameters ps pname G L = ROk (ps', L', es) ->
  flat_map (fun x => shift_es (snd x) (paramdecl_errors (fst x))) ps' = [] ->
  ps' = ps /\ wf_params G pname L ps L' es.
Proof.
  induction ps as [|p r IH]; intros L ps' L' es HT Hc H Hn.
  - injection H as <- <- <-. split; [reflexivity | constructor].
  - cbn [forallb] in Hc. apply andb_true_iff in Hc. destruct Hc as [Hcp Hcr].
    cbn [build_parameters] in H. bindt H p' L1 oe E. bindt H r' L2 es' E0. injection H as <- <- <-.
    cbn [flat_map] in Hn. apply app_eq_nil in Hn. destruct Hn as [Hp Hr]. apply shift_es_nil in Hp.
    destruct (build_parameter_complete _ _ _ _ _ _ _ HT Hcp E Hp) as [-> [ve [-> Hwf]]].
    destruct (IH _ _ _ _ HT Hcr E0 Hr) as [-> Hwr]. split; [reflexivity|]. apply Hwf, Hwr.
Qed.

Lemma build_variable_complete G pname L v v' L' :
  gtypes_some G -> clean_vardecl (fst v) = true ->
  build_variable v pname G L = ROk (v', L') -> vardecl_errors (fst v') = [] ->
  v' = v /\ forall r L'', wf_vars G pname L' r L'' -> wf_vars G pname L (v :: r) L''.
Proof.
  intros HT Hc H Hn. destruct v as [vd off]. cbn [fst] in Hc.
  destruct vd as [doc name ty inf | inf]; [|discriminate Hc].
  cbn [clean_vardecl] in Hc. apply andb_true_iff in Hc. destruct Hc as [Hc _].
  apply andb_true_iff in Hc. destruct Hc as [Hcn Hct]. destruct name as [name|]; [|discriminate Hcn].
  cbn [build_variable] in H. change (anonymous_creator pname name) with (anon_creator pname name) in H.
  bindp H ty' dt E. unfold enter in H.
  destruct (lookup L (id_val name)) as [old|] eqn:Hlk; binds H name' E1; injection H as <- <-;
    cbn [fst vardecl_errors opt_ident_errors] in Hn; apply app_eq_nil in Hn; destruct Hn as [_ Hn];
    apply app_eq_nil in Hn; destruct Hn as [Hname Hty].
  - exfalso. exact (ident_flag_errs _ _ _ E1 Hname).
  - injection E1 as ->.
    destruct (get_data_type_complete (Some L) L G (fun _ => eq_refl) HT _ _ _ _ Hct E Hty) as [-> [te [o [t [-> [-> Hd]]]]]].
    split; [reflexivity|]. intros r L'' Hr. apply WFV_cons with (t := t); [exact Hd | exact Hlk | exact Hr].
Qed.

Lemma build_variables_complete G pname vs : forall L vs' L',
  gtypes_some G -> forallb (fun r => clean_vardecl (fst r)) vs = true ->
  build_variables vs pname G L = ROk (vs', L') ->
  flat_map (fun x => shift_es (snd x) (vardecl_errors (fst x))) vs' = [] ->
  vs' = vs /\ wf_vars G pname L vs L'.
Proof.
  induction vs as [|v r IH]; intros L vs' L' HT Hc H Hn.
  - injection H as <- <-. split; [reflexivity | constructor].
  - cbn [forallb] in Hc. apply andb_true_iff in Hc. destruct Hc as [Hcv Hcr].
    cbn [build_variables] in H. bindp H v' L1 E. bindp H r' L2 E0. injection H as <- <-.
    cbn [flat_map] in Hn. apply app_eq_nil in Hn. destruct Hn as [Hv Hr]. apply shift_es_nil in Hv.
    destruct (build_variable_complete _ _ _ _ _ _ HT Hcv E Hv) as [-> Hwf].
    destruct (IH _ _ _ HT Hcr E0 Hr) as [-> Hwr]. split; [reflexivity|]. apply Hwf, Hwr.
Qed.

Lemma build_gdecl_complete G off d d' G' :
  gtypes_some G -> clean_gdecl d = true -> build_gdecl d G off = ROk (d', G') -> gdecl_errors d' = [] ->
  d' = d /\ exists ke, wf_gdecl G off d ke /\ G' = G ++ [ke] /\ gtypes_some G'.
Proof.
  intros HT Hc H Hn. destruct d as [td | pd | inf]; [| |discriminate Hc].
  - (* type declaration *)
    cbn [clean_gdecl] in Hc. apply andb_true_iff in Hc. destruct Hc as [Hc _].
    apply andb_true_iff in Hc. destruct Hc as [Hcn Hct].
    cbn [build_gdecl] in H. bindp H td' G1 E. injection H as <- <-. unfold build_typedecl in E.
    destruct (td_name td) as [name|] eqn:Hname; [|discriminate Hcn].
    cbn [gdecl_errors] in Hn. unfold typedecl_errors in Hn.
    destruct (text_eqb (id_val name) s_main) eqn:Emain.
    + binds E name' E1. injection E as <- _. exfalso. cbn [td_info td_name td_ty opt_ident_errors] in Hn.
      apply app_eq_nil in Hn. destruct Hn as [_ Hn]. apply app_eq_nil in Hn. destruct Hn as [Hn _].
      exact (ident_flag_errs _ _ _ E1 Hn).
    + bindp E ty' dt E1. unfold enter in E.
      destruct (lookup G (id_val name)) as [old|] eqn:Hlk; binds E name' E2; injection E as <- <-;
        cbn [td_info td_name td_ty opt_ident_errors] in Hn; apply app_eq_nil in Hn; destruct Hn as [_ Hn];
        apply app_eq_nil in Hn; destruct Hn as [Hn Hty].
      * exfalso. exact (ident_flag_errs _ _ _ E2 Hn).
      * injection E2 as ->.
        destruct (get_data_type_complete None [] G (fun _ => eq_refl) HT _ _ _ _ Hct E1 Hty) as [-> [te [o [t [Hty' [-> Hd]]]]]].
        split; [rewrite <- Hname, typedecl_eta; reflexivity|].
        eexists. split; [|split; [reflexivity|]].
        -- eapply WF_type; [exact Hname | | exact Hlk | exact Hty' | exact Hd].
           intros Hm. apply text_eqb_eq in Hm. congruence.
        -- eapply gtypes_some_type; [exact HT | reflexivity].
  - (* procedure declaration *)
    cbn [clean_gdecl] in Hc. apply andb_true_iff in Hc. destruct Hc as [Hc _].
    apply andb_true_iff in Hc. destruct Hc as [Hc _]. apply andb_true_iff in Hc. destruct Hc as [Hc Hcv].
    apply andb_true_iff in Hc. destruct Hc as [Hcn Hcp].
    cbn [build_gdecl] in H. bindp H pd' G1 E. injection H as <- <-. unfold build_procdecl in E.
    destruct (pd_name pd) as [name|] eqn:Hname; [|discriminate Hcn].
    bindt E params' L1 parameters E1. bindp E vars' L2 E2. unfold enter in E.
    cbn [gdecl_errors] in Hn. unfold procdecl_errors in Hn.
    destruct (lookup G (id_val name)) as [old|] eqn:Hlk; binds E name' E3; injection E as <- <-;
      cbn [pd_info pd_name pd_params pd_vars pd_stmts opt_ident_errors] in Hn;
      apply app_eq_nil in Hn; destruct Hn as [_ Hn]; apply app_eq_nil in Hn; destruct Hn as [Hn Hrest].
    + exfalso. exact (ident_flag_errs _ _ _ E3 Hn).
    + injection E3 as ->. apply app_eq_nil in Hrest. destruct Hrest as [Hp Hrest].
      apply app_eq_nil in Hrest. destruct Hrest as [Hv _].
      destruct (build_parameters_complete _ _ _ _ _ _ _ HT Hcp E1 Hp) as [-> Hwp].
      destruct (build_variables_complete _ _ _ _ _ _ HT Hcv E2 Hv) as [-> Hwv].
      split; [rewrite <- Hname, procdecl_eta; reflexivity|].
      eexists. split; [|split; [reflexivity|]].
      * eapply WF_proc; [exact Hname | exact Hlk | exact Hwp | exact Hwv].
      * apply gtypes_some_proc, HT.
Qed.

Lemma build_gdecls_complete ds : forall G ds' G',
  gtypes_some G -> forallb (fun r => clean_gdecl (fst r)) ds = true ->
  build_gdecls ds G 0 = ROk (ds', G') -> gdecls_errors ds' = [] ->
  ds' = ds /\ exists es, wf_gdecls G ds es /\ G' = G ++ es.
Proof.
  induction ds as [|[d off] r IH]; intros G ds' G' HT Hc H Hn.
  - injection H as <- <-. split; [reflexivity|]. exists []. split; [constructor | rewrite app_nil_r; reflexivity].
  - cbn [forallb fst] in Hc. apply andb_true_iff in Hc. destruct Hc as [Hcd Hcr].
    cbn [build_gdecls] in H. change (0 + off) with off in H. bindp H d' G1 E. bindp H r' G2 E0. injection H as <- <-.
    unfold gdecls_errors in Hn. cbn [flat_map fst snd] in Hn. apply app_eq_nil in Hn. destruct Hn as [Hd Hr].
    apply shift_es_nil in Hd.
    destruct (build_gdecl_complete _ _ _ _ _ HT Hcd E Hd) as [-> [ke [Hwd [-> HT1]]]].
    destruct (IH _ _ _ HT1 Hcr E0 Hr) as [-> [es [Hwr ->]]].
    split; [reflexivity|]. exists (ke :: es). split; [constructor; assumption|].
    rewrite <- app_assoc. reflexivity.
Qed.

(* NO FALSE NEGATIVE (declarations): if `build` attaches nothing to a clean tree, it returned the tree unchanged,
   the declarations are well-formed and the table is the one the rules prescribe - i.e. every violated premise
   of a declaration rule (and of the rules about main) yields at least one diagnostic *)
Theorem build_complete p p1 G :
  tree_clean p = true -> build_res p = ROk (p1, G) -> tree_errors p1 = [] -> p1 = p /\ wf_program p G.
Proof.
  intros Hc H Hn. unfold tree_clean in Hc. apply andb_true_iff in Hc. destruct Hc as [Hcd _].
  unfold build_res, build_program in H. bindp H ds' G' E.
  destruct (lookup G' s_main) as [[te|main]|] eqn:Hm.
  - discriminate H.
  - destruct (pe_params main) as [|q qs] eqn:Hp.
    + injection H as <- <-. unfold tree_errors in Hn. cbn [pg_info pg_decls] in Hn.
      apply app_eq_nil in Hn. destruct Hn as [_ Hn].
      destruct (build_gdecls_complete _ _ _ _ gtypes_some_initialized Hcd E Hn) as [-> [es [Hwf ->]]].
      split; [apply program_eta|]. exists es. split; [exact Hwf|]. split; [reflexivity|].
      exists main. split; assumption.
    + binds H e Ee. injection H as <- _. exfalso. unfold tree_errors in Hn. cbn [pg_info] in Hn.
      apply app_eq_nil in Hn. destruct Hn as [Hn _]. exact (info_append_errs _ _ Hn).
  - injection H as <- _. exfalso. unfold tree_errors in Hn. cbn [pg_info] in Hn.
    apply app_eq_nil in Hn. destruct Hn as [Hn _]. exact (info_append_errs _ _ Hn).
Qed.

(* ------------------------------------------------------------------------------------------ *)
(* (c) COMPLETENESS OF THE BACK END: a clean tree on which build + analyze publish nothing went through both
   passes unchanged and is well-typed.  With no_false_positive_tree: for clean trees,
   "no diagnostic" <-> well_typed. *)
Theorem back_end_complete : forall p p1 G p2,
  tree_clean p = true -> build_res p = ROk (p1, G) -> analyze_res p1 G = ROk p2 -> tree_errors p2 = [] ->
  p1 = p /\ p2 = p /\ well_typed p G.
Proof.
  intros p p1 G p2 Hc Hb Ha Hn. pose proof (analyze_unchanged _ _ _ Ha Hn) as Hp2. subst p2.
  destruct (build_complete _ _ _ Hc Hb Hn) as [Hp1 Hwf]. subst p1.
  split; [reflexivity|]. split; [reflexivity|]. split; [exact Hwf|].
  apply analyze_complete; [eapply wf_tables_ok; exact Hwf | exact Hc | exact Ha].
Qed.

Corollary back_end_exact p G :
  tree_clean p = true ->
  (well_typed p G <-> build_res p = ROk (p, G) /\ analyze_res p G = ROk p).
Proof.
  intros Hc. split.
  - intros Hwt. destruct (no_false_positive_tree _ _ Hc Hwt) as [Hb [Ha _]]. tauto.
  - intros [Hb Ha]. exact (proj2 (proj2 (back_end_complete _ _ _ _ Hc Hb Ha (clean_tree_errors _ Hc)))).
Qed.

(* ------------------------------------------------------------------------------------------ *)
(* build never removes an error, on ARBITRARY trees: if its result carries no error, it returned its argument
   (names are only replaced through ident_flag, pg_info only through info_append, everything else is copied) *)

Lemma get_data_type_te_same l g c te : forall te' dt,
  get_data_type_te l g c te = ROk (te', dt) -> texpr_errors te' = [] -> te' = te.
Proof.
  induction te as [i | size inf | size b off inf IH] using texpr_ind'; intros te' dt H Hn.
  - cbn [get_data_type_te] in H.
    destruct (lt_lookup l g (id_val i)) as [[te0|p|ve|ve]|]; try (injection H as <- _; reflexivity);
      binds H i' E; injection H as <- _; exfalso; exact (ident_flag_errs _ _ _ E Hn).
  - cbn [get_data_type_te] in H. injection H as <- _. reflexivity.
  - cbn [get_data_type_te] in H. bindp H b' bt E. injection H as <- _.
    cbn [texpr_errors] in Hn. apply app_eq_nil in Hn. destruct Hn as [_ Hn]. apply shift_es_nil in Hn.
    rewrite (IH _ _ E Hn). reflexivity.
Qed.

Lemma get_data_type_same l g c ty ty' dt :
  get_data_type l g c ty = ROk (ty', dt) -> opt_texpr_errors ty' = [] -> ty' = ty.
Proof.
  destruct ty as [[te o]|]; cbn [get_data_type]; [|intros [= <- _] _; reflexivity]. intros H Hn.
  bindp H te' dt' E. injection H as <- _. cbn [opt_texpr_errors] in Hn. apply shift_es_nil in Hn.
  rewrite (get_data_type_te_same _ _ _ _ _ _ E Hn). reflexivity.
Qed.

Lemma build_parameter_same G pname L p p' L' oe :
  build_parameter p pname G L = ROk (p', L', oe) -> paramdecl_errors (fst p') = [] -> p' = p.
Proof.
  intros H Hn. destruct p as [pd off].
  destruct pd as [doc is_ref [name|] ty inf | inf]; cbn [build_parameter] in H;
    [| injection H as <- _ _; reflexivity | injection H as <- _ _; reflexivity].
  bindp H ty' dt E. binds H name1 E1. unfold enter in H.
  destruct (lookup L (id_val name)) as [old|]; binds H name2 E2; injection H as <- _ _;
    cbn [fst paramdecl_errors opt_ident_errors] in Hn; apply app_eq_nil in Hn; destruct Hn as [_ Hn];
    apply app_eq_nil in Hn; destruct Hn as [Hname Hty].
  - exfalso. exact (ident_flag_errs _ _ _ E2 Hname).
  - injection E2 as ->. rewrite (get_data_type_same _ _ _ _ _ _ E Hty).
    assert (Hx : name2 = name).
    { destruct dt as [d|]; [destruct (negb (is_primitive d) && negb is_ref)|].
      - exfalso. exact (ident_flag_errs _ _ _ E1 Hname).
      - injection E1 as ->. reflexivity.
      - injection E1 as ->. reflexivity. }
    rewrite Hx. reflexivity.
Qed.

Lemma build_parameters_same G pname ps : forall L ps' L' es,
  build_parameters ps pname G L = ROk (ps', L', es) ->
  flat_map (fun x => shift_es (snd x) (paramdecl_errors (fst x))) ps' = [] -> ps' = ps.
Proof.
  induction ps as [|p r IH]; intros L ps' L' es H Hn; [injection H as <- _ _; reflexivity|].
  cbn [build_parameters] in H. bindt H p' L1 oe E. bindt H r' L2 es' E0. injection H as <- _ _.
  cbn [flat_map] in Hn. apply app_eq_nil in Hn. destruct Hn as [Hp Hr]. apply shift_es_nil in Hp.
  rewrite (build_parameter_same _ _ _ _ _ _ _ E Hp), (IH _ _ _ _ E0 Hr). reflexivity.
Qed.

Lemma build_variable_same G pname L v v' L' :
  build_variable v pname G L = ROk (v', L') -> vardecl_errors (fst v') = [] -> v' = v.
Proof.
  intros H Hn. destruct v as [vd off].
  destruct vd as [doc [name|] ty inf | inf]; cbn [build_variable] in H;
    [| injection H as <- _; reflexivity | injection H as <- _; reflexivity].
  bindp H ty' dt E. unfold enter in H.
  destruct (lookup L (id_val name)) as [old|]; binds H name' E1; injection H as <- _;
    cbn [fst vardecl_errors opt_ident_errors] in Hn; apply app_eq_nil in Hn; destruct Hn as [_ Hn];
    apply app_eq_nil in Hn; destruct Hn as [Hname Hty].
  - exfalso. exact (ident_flag_errs _ _ _ E1 Hname).
  - injection E1 as ->. rewrite (get_data_type_same _ _ _ _ _ _ E Hty). reflexivity.
Qed.

Lemma build_variables_same G pname vs : forall L vs' L',
  build_variables vs pname G L = ROk (vs', L') ->
  flat_map (fun x => shift_es (snd x) (vardecl_errors (fst x))) vs' = [] -> vs' = vs.
Proof.
  induction vs as [|v r IH]; intros L vs' L' H Hn; [injection H as <- _; reflexivity|].
  cbn [build_variables] in H. bindp H v' L1 E. bindp H r' L2 E0. injection H as <- _.
  cbn [flat_map] in Hn. apply app_eq_nil in Hn. destruct Hn as [Hv Hr]. apply shift_es_nil in Hv.
  rewrite (build_variable_same _ _ _ _ _ _ E Hv), (IH _ _ _ E0 Hr). reflexivity.
Qed.

Lemma build_gdecl_same G off d d' G' : build_gdecl d G off = ROk (d', G') -> gdecl_errors d' = [] -> d' = d.
Proof.
  intros H Hn. destruct d as [td | pd | inf]; cbn [build_gdecl] in H; [| |injection H as <- _; reflexivity].
  - bindp H td' G1 E. injection H as <- _. unfold build_typedecl in E.
    destruct (td_name td) as [name|] eqn:Hname; [|injection E as <- _; reflexivity].
    cbn [gdecl_errors] in Hn. unfold typedecl_errors in Hn.
    destruct (text_eqb (id_val name) s_main).
    + binds E name' E1. injection E as <- _. exfalso. cbn [td_info td_name td_ty opt_ident_errors] in Hn.
      apply app_eq_nil in Hn. destruct Hn as [_ Hn]. apply app_eq_nil in Hn. destruct Hn as [Hn _].
      exact (ident_flag_errs _ _ _ E1 Hn).
    + bindp E ty' dt E1. unfold enter in E.
      destruct (lookup G (id_val name)) as [old|]; binds E name' E2; injection E as <- _;
        cbn [td_info td_name td_ty opt_ident_errors] in Hn; apply app_eq_nil in Hn; destruct Hn as [_ Hn];
        apply app_eq_nil in Hn; destruct Hn as [Hn Hty].
      * exfalso. exact (ident_flag_errs _ _ _ E2 Hn).
      * injection E2 as ->. rewrite (get_data_type_same _ _ _ _ _ _ E1 Hty), <- Hname, typedecl_eta. reflexivity.
  - bindp H pd' G1 E. injection H as <- _. unfold build_procdecl in E.
    destruct (pd_name pd) as [name|] eqn:Hname; [|injection E as <- _; reflexivity].
    bindt E params' L1 parameters E1. bindp E vars' L2 E2. unfold enter in E.
    cbn [gdecl_errors] in Hn. unfold procdecl_errors in Hn.
    destruct (lookup G (id_val name)) as [old|]; binds E name' E3; injection E as <- _;
      cbn [pd_info pd_name pd_params pd_vars pd_stmts opt_ident_errors] in Hn;
      apply app_eq_nil in Hn; destruct Hn as [_ Hn]; apply app_eq_nil in Hn; destruct Hn as [Hn Hrest].
    + exfalso. exact (ident_flag_errs _ _ _ E3 Hn).
    + injection E3 as ->. apply app_eq_nil in Hrest. destruct Hrest as [Hp Hrest].
      apply app_eq_nil in Hrest. destruct Hrest as [Hv _].
      rewrite (build_parameters_same _ _ _ _ _ _ _ E1 Hp), (build_variables_same _ _ _ _ _ _ E2 Hv), <- Hname, procdecl_eta.
      reflexivity.
Qed.

Lemma build_gdecls_same offset ds : forall G ds' G',
  build_gdecls ds G offset = ROk (ds', G') -> gdecls_errors ds' = [] -> ds' = ds.
Proof.
  induction ds as [|[d off] r IH]; intros G ds' G' H Hn; [injection H as <- _; reflexivity|].
  cbn [build_gdecls] in H. bindp H d' G1 E. bindp H r' G2 E0. injection H as <- _.
  unfold gdecls_errors in Hn. cbn [flat_map fst snd] in Hn. apply app_eq_nil in Hn. destruct Hn as [Hd Hr].
  apply shift_es_nil in Hd. rewrite (build_gdecl_same _ _ _ _ _ E Hd), (IH _ _ _ E0 Hr). reflexivity.
Qed.

Theorem build_unchanged p p1 G : build_res p = ROk (p1, G) -> tree_errors p1 = [] -> p1 = p.
Proof.
  intros H Hn. unfold build_res, build_program in H. bindp H ds' G' E.
  destruct (lookup G' s_main) as [[te|main]|].
  - discriminate H.
  - destruct (pe_params main) as [|q qs].
    + injection H as <- _. unfold tree_errors in Hn. cbn [pg_info pg_decls] in Hn.
      apply app_eq_nil in Hn. destruct Hn as [_ Hn]. rewrite (build_gdecls_same _ _ _ _ _ E Hn). apply program_eta.
    + binds H e Ee. injection H as <- _. exfalso. unfold tree_errors in Hn. cbn [pg_info] in Hn.
      apply app_eq_nil in Hn. destruct Hn as [Hn _]. exact (info_append_errs _ _ Hn).
  - injection H as <- _. exfalso. unfold tree_errors in Hn. cbn [pg_info] in Hn.
    apply app_eq_nil in Hn. destruct Hn as [Hn _]. exact (info_append_errs _ _ Hn).
Qed.

(* the back end never removes an error (no cleanliness assumed) *)
Theorem build_errors_back : forall p p1 G, build_res p = ROk (p1, G) -> tree_errors p1 = [] -> tree_errors p = [].
Proof. intros p p1 G H Hn. rewrite <- (build_unchanged _ _ _ H Hn). exact Hn. Qed.

Theorem back_end_errors_back : forall p p1 G p2,
  build_res p = ROk (p1, G) -> analyze_res p1 G = ROk p2 -> tree_errors p2 = [] -> tree_errors p = [].
Proof.
  intros p p1 G p2 Hb Ha Hn. pose proof (analyze_unchanged _ _ _ Ha Hn) as Hp2. subst p2.
  exact (build_errors_back _ _ _ Hb Hn).
Qed.

Print Assumptions build_errors_back.
Print Assumptions back_end_errors_back.
Print Assumptions back_end_complete.
