(* C08 - proofs about lsp4spl::document (Model/Doc.v) against the LSP text model (Spec/LspText.v):
   position -> index conversion is the LSP rule, always yields a character boundary, is monotone;
   content changes never panic and are the client's edits; index -> position -> index round trip. *)
From Spl Require Import Model.Doc Spec.LspText.

(* ---------------------------------------------------------------------------------------- *)
(* small facts                                                                               *)

Lemma u16len_bounds c : 1 <= u16len c <= 2.
Proof. unfold u16len. destruct (_ <? _); lia. Qed.

Ltac b2p := repeat match goal with
  | H : _ && _ = true |- _ => apply andb_true_iff in H; destruct H
  | H : _ && _ = false |- _ => apply andb_false_iff in H; destruct H
  | H : _ || _ = true |- _ => apply orb_true_iff in H; destruct H
  | H : _ || _ = false |- _ => apply orb_false_iff in H; destruct H
  | H : (_ =? _) = true |- _ => apply N.eqb_eq in H
  | H : (_ =? _) = false |- _ => apply N.eqb_neq in H
  | H : (_ <=? _) = true |- _ => apply N.leb_le in H
  | H : (_ <=? _) = false |- _ => apply N.leb_gt in H
  | H : (_ <? _) = true |- _ => apply N.ltb_lt in H
  | H : (_ <? _) = false |- _ => apply N.ltb_ge in H
  end.

(* ---------------------------------------------------------------------------------------- *)
(* one loop iteration, shared by get_insertion_index and as_position                         *)

Definition isnl (c : char) : bool := (c =? 10) || (c =? 13).
Definition lf_next (r : text) : bool := match r with c2 :: _ => c2 =? 10 | [] => false end.

(* the (line, character) counters after the character c, r being the text after c *)
Definition step (c : char) (r : text) (line ch : N) : N * N :=
  if c =? 10 then (line + 1, 0)
  else if c =? 13 then (if lf_next r then (line, ch) else (line + 1, 0))
  else (line, ch + u16len c).

Lemma gii_cons pl pc line ch i c r :
  gii_from pl pc line ch i (c :: r) =
  if (line =? pl) && (pc <=? ch) then i
  else if isnl c && (line =? pl) then i
  else gii_from pl pc (fst (step c r line ch)) (snd (step c r line ch)) (i + ulen c) r.
Proof.
  cbn [gii_from]. unfold step, lf_next, isnl.
  destruct ((line =? pl) && (pc <=? ch)); [reflexivity|].
  destruct (((c =? 10) || (c =? 13)) && (line =? pl)); [reflexivity|].
  destruct (c =? 10) eqn:E10.
  { apply N.eqb_eq in E10; subst c. reflexivity. }
  destruct (c =? 13) eqn:E13.
  { apply N.eqb_eq in E13; subst c. destruct r as [|c2 r']; [reflexivity|].
    destruct (c2 =? 10); reflexivity. }
  reflexivity.
Qed.

Lemma pos_cons idx line ch i c r :
  pos_from idx line ch i (c :: r) =
  if idx <=? i then (line, ch)
  else pos_from idx (fst (step c r line ch)) (snd (step c r line ch)) (i + ulen c) r.
Proof.
  cbn [pos_from]. unfold step, lf_next.
  destruct (idx <=? i); [reflexivity|].
  destruct (c =? 10) eqn:E10.
  { apply N.eqb_eq in E10; subst c. reflexivity. }
  destruct (c =? 13) eqn:E13.
  { apply N.eqb_eq in E13; subst c. destruct r as [|c2 r']; [reflexivity|].
    destruct (c2 =? 10); reflexivity. }
  reflexivity.
Qed.

Lemma step_regular c r line ch : isnl c = false -> step c r line ch = (line, ch + u16len c).
Proof. unfold isnl, step. intros H. b2p. apply N.eqb_neq in H, H0. now rewrite H, H0. Qed.

Lemma step_line c r line ch :
  fst (step c r line ch) = line \/ fst (step c r line ch) = line + 1.
Proof. unfold step. repeat destruct (_ : bool); cbn [fst]; auto. Qed.

Lemma step_mono c r line ch :
  line < fst (step c r line ch) \/ (line = fst (step c r line ch) /\ ch <= snd (step c r line ch)).
Proof. unfold step. repeat destruct (_ : bool); cbn [fst snd]; lia. Qed.

(* ---------------------------------------------------------------------------------------- *)
(* byte-offset surgery                                                                       *)

Lemma split_bytes_0 s : split_bytes 0 s = Some ([], s).
Proof. destruct s; reflexivity. Qed.

Lemma split_bytes_app a b : split_bytes (blen a) (a ++ b) = Some (a, b).
Proof.
  induction a as [|c a IH]; cbn [blen app]; [apply split_bytes_0|].
  cbn [split_bytes]. pose proof (ulen_pos c).
  destruct (ulen c + blen a =? 0) eqn:E0; [b2p; lia|].
  destruct (ulen c + blen a <? ulen c) eqn:E1; [b2p; lia|].
  replace (ulen c + blen a - ulen c) with (blen a) by lia.
  now rewrite IH.
Qed.

Lemma replace_bytes_app a m b ins :
  replace_bytes (a ++ m ++ b) (blen a) (blen a + blen m) ins = Some (a ++ ins ++ b).
Proof.
  unfold replace_bytes.
  destruct (blen a + blen m <? blen a) eqn:E; [b2p; lia|].
  rewrite split_bytes_app.
  replace (blen a + blen m - blen a) with (blen m) by lia.
  now rewrite split_bytes_app.
Qed.

Lemma replace_bytes_all t new : replace_bytes t 0 (blen t) new = Some new.
Proof.
  pose proof (replace_bytes_app [] t [] new) as H.
  cbn [app blen] in H. rewrite !app_nil_r, N.add_0_l in H. exact H.
Qed.

Lemma app_split_le (a1 : text) : forall b1 a2 b2,
  a1 ++ b1 = a2 ++ b2 -> blen a1 <= blen a2 -> exists m, a2 = a1 ++ m /\ b1 = m ++ b2.
Proof.
  induction a1 as [|c a1 IH]; intros b1 a2 b2 E L.
  - exists a2. split; [reflexivity | exact E].
  - destruct a2 as [|c' a2].
    + cbn [blen] in L. pose proof (ulen_pos c). lia.
    + cbn [app] in E. injection E as -> E. cbn [blen] in L.
      destruct (IH b1 a2 b2 E) as [m [-> ->]]; [lia|].
      exists m. split; reflexivity.
Qed.

Lemma splice_is_replace_bytes t a b ins : splice t a b ins = replace_bytes t a b ins.
Proof. reflexivity. Qed.

(* ---------------------------------------------------------------------------------------- *)
(* 2. every returned index is a character boundary of the text                               *)

Lemma gii_boundary s : forall pl pc line ch i,
  exists a b, s = a ++ b /\ gii_from pl pc line ch i s = i + blen a.
Proof.
  induction s as [|c r IH]; intros pl pc line ch i.
  - exists [], []. split; [reflexivity|]. cbn [gii_from blen]. lia.
  - rewrite gii_cons.
    destruct ((line =? pl) && (pc <=? ch)).
    { exists [], (c :: r). split; [reflexivity|]. cbn [blen]. lia. }
    destruct (isnl c && (line =? pl)).
    { exists [], (c :: r). split; [reflexivity|]. cbn [blen]. lia. }
    destruct (IH pl pc (fst (step c r line ch)) (snd (step c r line ch)) (i + ulen c)) as [a [b [-> E]]].
    exists (c :: a), b. split; [reflexivity|]. rewrite E. cbn [blen]. lia.
Qed.

Lemma gii_ge pl pc line ch i s : i <= gii_from pl pc line ch i s.
Proof. destruct (gii_boundary s pl pc line ch i) as [a [b [_ ->]]]. lia. Qed.

Theorem index_on_boundary : forall t l c,
  exists a b, t = a ++ b /\ blen a = get_insertion_index l c t.
Proof.
  intros t l c. unfold get_insertion_index.
  destruct (gii_boundary t l c 0 0 0) as [a [b [E ->]]]. exists a, b. split; [exact E | lia].
Qed.

(* ---------------------------------------------------------------------------------------- *)
(* 3. monotone                                                                               *)

Lemma gii_mono s : forall l1 c1 l2 c2 line ch i,
  (l1 < l2 \/ (l1 = l2 /\ c1 <= c2)) -> line <= l1 ->
  gii_from l1 c1 line ch i s <= gii_from l2 c2 line ch i s.
Proof.
  induction s as [|c r IH]; intros l1 c1 l2 c2 line ch i Hle Hline.
  - cbn [gii_from]. lia.
  - rewrite (gii_cons l1 c1).
    destruct ((line =? l1) && (c1 <=? ch)) eqn:T1; [apply gii_ge|].
    destruct (isnl c && (line =? l1)) eqn:T2; [apply gii_ge|].
    rewrite (gii_cons l2 c2).
    destruct ((line =? l2) && (c2 <=? ch)) eqn:T3; [b2p; lia|].
    destruct (isnl c && (line =? l2)) eqn:T4.
    { b2p; try congruence; lia. }
    apply IH; [exact Hle|].
    destruct (N.eq_dec line l1) as [->|Hne].
    + assert (Hnl : isnl c = false).
      { destruct (isnl c); [|reflexivity]. cbn [andb] in T2. b2p; congruence. }
      rewrite step_regular by exact Hnl. cbn [fst]. lia.
    + destruct (step_line c r line ch) as [-> | ->]; lia.
Qed.

Theorem index_monotone : forall t l1 c1 l2 c2,
  (l1 < l2 \/ (l1 = l2 /\ c1 <= c2)) ->
  get_insertion_index l1 c1 t <= get_insertion_index l2 c2 t.
Proof. intros. unfold get_insertion_index. apply gii_mono; [assumption | lia]. Qed.

(* ---------------------------------------------------------------------------------------- *)
(* 4. applying a change never panics                                                         *)

Lemma replace_bytes_boundaries t a1 b1 a2 b2 ins :
  t = a1 ++ b1 -> t = a2 ++ b2 -> blen a1 <= blen a2 ->
  exists t', replace_bytes t (blen a1) (blen a2) ins = Some t'.
Proof.
  intros E1 E2 L. rewrite E1 in E2.
  destruct (app_split_le a1 b1 a2 b2 E2 L) as [m [-> ->]].
  subst t. rewrite blen_app, replace_bytes_app. eexists; reflexivity.
Qed.

Theorem apply_total : forall t l1 c1 l2 c2 new,
  (l1 < l2 \/ (l1 = l2 /\ c1 <= c2)) ->
  exists t', apply_change t {| crange := Some ((l1, c1), (l2, c2)); ctext := new |} = Some t'.
Proof.
  intros t l1 c1 l2 c2 new H. unfold apply_change. cbn [crange ctext].
  pose proof (index_monotone t l1 c1 l2 c2 H) as M.
  destruct (index_on_boundary t l1 c1) as [a1 [b1 [E1 B1]]].
  destruct (index_on_boundary t l2 c2) as [a2 [b2 [E2 B2]]].
  rewrite <- B1, <- B2 in *. now apply (replace_bytes_boundaries t a1 b1 a2 b2).
Qed.

Theorem apply_total_full : forall t new,
  apply_change t {| crange := None; ctext := new |} = Some new.
Proof. intros. unfold apply_change. cbn [crange ctext]. apply replace_bytes_all. Qed.

(* ---------------------------------------------------------------------------------------- *)
(* 1. the conversion is the LSP rule                                                         *)

Definition prepend (p : text) (ls : list (text * text)) : list (text * text) :=
  match ls with [] => [] | (c, t) :: rest => (p ++ c, t) :: rest end.

Lemma sla_prepend s : forall cur,
  split_lines_acc cur s = prepend (rev cur) (split_lines_acc [] s).
Proof.
  induction s as [|c r IH]; intros cur; cbn [split_lines_acc].
  - cbn [rev prepend]. now rewrite app_nil_r.
  - destruct (c =? 10). { cbn [rev prepend]. now rewrite app_nil_r. }
    destruct (c =? 13).
    { destruct r as [|c2 r']; [cbn [rev prepend]; now rewrite app_nil_r|].
      destruct (c2 =? 10); cbn [rev prepend]; now rewrite app_nil_r. }
    rewrite (IH (c :: cur)), (IH [c]). cbn [rev app].
    destruct (split_lines_acc [] r) as [|[ct tm] rest]; cbn [prepend]; [reflexivity|].
    now rewrite <- app_assoc.
Qed.

Lemma split_lines_nil : split_lines [] = [([], [])].
Proof. reflexivity. Qed.

Lemma split_lines_cons c r :
  split_lines (c :: r) =
  if c =? 10 then ([], [10]) :: split_lines r
  else if c =? 13 then
    (if lf_next r then ([], [13; 10]) :: split_lines (tl r) else ([], [13]) :: split_lines r)
  else prepend [c] (split_lines r).
Proof.
  unfold split_lines. cbn [split_lines_acc]. unfold lf_next.
  destruct (c =? 10); [reflexivity|].
  destruct (c =? 13).
  { destruct r as [|c2 r']; [reflexivity|]. destruct (c2 =? 10); reflexivity. }
  now rewrite sla_prepend.
Qed.

Lemma split_lines_nonnil s : split_lines s <> [].
Proof.
  induction s as [|c r IH]; [discriminate|]. rewrite split_lines_cons.
  destruct (c =? 10); [discriminate|].
  destruct (c =? 13); [destruct (lf_next r); discriminate|].
  destruct (split_lines r) as [|[ct tm] rest]; [congruence | discriminate].
Qed.

(* content of the first line *)
Definition hdl (s : text) : text := fst (hd ([], []) (split_lines s)).

Lemma hdl_cons c r : hdl (c :: r) = if isnl c then [] else c :: hdl r.
Proof.
  unfold hdl, isnl. rewrite split_lines_cons.
  destruct (c =? 10); [reflexivity|].
  destruct (c =? 13); [destruct (lf_next r); reflexivity|].
  pose proof (split_lines_nonnil r).
  destruct (split_lines r) as [|[ct tm] rest]; [congruence | reflexivity].
Qed.

Lemma col_prefix_0 l : col_prefix 0 l = [].
Proof.
  destruct l as [|c r]; [reflexivity|]. cbn [col_prefix].
  pose proof (u16len_bounds c). destruct (u16len c <=? 0) eqn:E; [b2p; lia | reflexivity].
Qed.

(* inside the target line *)
Lemma gii_in_line s : forall pl pc ch i,
  ch <= pc -> col_ok_line (pc - ch) (hdl s) = true ->
  gii_from pl pc pl ch i s = i + blen (col_prefix (pc - ch) (hdl s)).
Proof.
  induction s as [|c r IH]; intros pl pc ch i Hle Hok.
  - cbn [gii_from]. change (hdl []) with (@nil char). cbn [col_prefix blen]. lia.
  - rewrite gii_cons, N.eqb_refl, andb_true_r. cbn [andb].
    destruct (pc <=? ch) eqn:T1.
    { b2p. replace (pc - ch) with 0 by lia. rewrite col_prefix_0. cbn [blen]. lia. }
    rewrite hdl_cons in *.
    destruct (isnl c) eqn:Hnl.
    { cbn [col_prefix blen]. lia. }
    rewrite step_regular by exact Hnl. cbn [fst snd].
    b2p. cbn [col_ok_line] in Hok.
    destruct (pc - ch =? 0) eqn:Z; [b2p; lia|].
    cbn [col_prefix].
    destruct (u16len c <=? pc - ch) eqn:U; [|discriminate].
    b2p. rewrite IH.
    + replace (pc - (ch + u16len c)) with (pc - ch - u16len c) by lia.
      cbn [blen]. lia.
    + lia.
    + replace (pc - (ch + u16len c)) with (pc - ch - u16len c) by lia. exact Hok.
Qed.

Definition colok_ls (ls : list (text * text)) (l col : N) : bool :=
  match nth_error ls (N.to_nat l) with
  | Some (content, _) => col_ok_line col content
  | None => true
  end.

Lemma col_ok_colok_ls t l c : col_ok t l c = colok_ls (split_lines t) l c.
Proof. reflexivity. Qed.

Lemma gii_at_line_start s pl pc i :
  colok_ls (split_lines s) 0 pc = true ->
  gii_from pl pc pl 0 i s = offset_in_lines (split_lines s) 0 pc i.
Proof.
  intros H. pose proof (gii_in_line s pl pc 0 i) as G.
  rewrite N.sub_0_r in G. unfold hdl in G. unfold colok_ls in H.
  pose proof (split_lines_nonnil s).
  destruct (split_lines s) as [|[ct tm] rest]; [congruence|].
  cbn [N.to_nat nth_error] in H. cbn [hd fst] in G.
  rewrite G; [| lia | exact H]. reflexivity.
Qed.

Lemma oil_skip ct tm rest L pc i :
  L <> 0 -> rest <> [] ->
  offset_in_lines ((ct, tm) :: rest) L pc i = offset_in_lines rest (L - 1) pc (i + blen ct + blen tm).
Proof.
  intros HL Hr. cbn [offset_in_lines].
  destruct (L =? 0) eqn:E; [b2p; congruence|].
  destruct rest; [congruence | reflexivity].
Qed.

Lemma colok_skip x rest L pc : L <> 0 -> colok_ls (x :: rest) L pc = colok_ls rest (L - 1) pc.
Proof.
  intros HL. unfold colok_ls.
  replace (N.to_nat L) with (S (N.to_nat (L - 1))) by lia. reflexivity.
Qed.

Lemma gii_spec s : forall pl pc line ch i,
  line <= pl -> (line = pl -> ch = 0) ->
  colok_ls (split_lines s) (pl - line) pc = true ->
  gii_from pl pc line ch i s = offset_in_lines (split_lines s) (pl - line) pc i.
Proof.
  induction s as [|c r IH]; intros pl pc line ch i Hle Hch Hok.
  - cbn [gii_from]. rewrite split_lines_nil. cbn [offset_in_lines].
    destruct (pl - line =? 0); cbn [col_prefix blen]; lia.
  - destruct (N.eq_dec line pl) as [->|Hne].
    { rewrite (Hch eq_refl). rewrite N.sub_diag in *. now apply gii_at_line_start. }
    assert (HL : pl - line <> 0) by lia.
    rewrite gii_cons.
    destruct ((line =? pl) && (pc <=? ch)) eqn:T1; [b2p; lia|].
    destruct (isnl c && (line =? pl)) eqn:T2; [b2p; lia|].
    clear T1 T2.
    pose proof (split_lines_nonnil r) as Hnn.
    rewrite split_lines_cons in *. unfold step.
    destruct (c =? 10) eqn:E10.
    { (* "\n" *)
      b2p; subst c. cbn [fst snd].
      rewrite oil_skip by assumption. rewrite colok_skip in Hok by assumption.
      replace (pl - line - 1) with (pl - (line + 1)) in * by lia.
      rewrite IH; [| lia | reflexivity | exact Hok].
      f_equal. cbn [blen]. lia. }
    destruct (c =? 13) eqn:E13.
    { b2p; subst c.
      destruct (lf_next r) eqn:LF.
      - (* "\r\n" *)
        destruct r as [|c2 r']; [discriminate|]. unfold lf_next in LF. b2p; subst c2.
        cbn [fst snd tl] in *.
        pose proof (split_lines_nonnil r') as Hnn'.
        rewrite oil_skip by assumption. rewrite colok_skip in Hok by assumption.
        rewrite IH; [| lia | lia |].
        + rewrite split_lines_cons. change (10 =? 10) with true. cbv iota.
          rewrite oil_skip by assumption. f_equal. cbn [blen]. lia.
        + rewrite split_lines_cons. change (10 =? 10) with true. cbv iota.
          rewrite colok_skip by assumption. exact Hok.
      - (* lone "\r" *)
        cbn [fst snd].
        rewrite oil_skip by assumption. rewrite colok_skip in Hok by assumption.
        replace (pl - line - 1) with (pl - (line + 1)) in * by lia.
        rewrite IH; [| lia | reflexivity | exact Hok].
        f_equal. cbn [blen]. lia. }
    (* an ordinary character *)
    cbn [fst snd].
    destruct (split_lines r) as [|[ct tm] rest] eqn:SL; [congruence|].
    cbn [prepend app] in *.
    rewrite IH; [| lia | lia |].
    + cbn [offset_in_lines]. destruct (pl - line =? 0) eqn:Z; [b2p; lia|].
      destruct rest; cbn [blen]; [lia | f_equal; lia].
    + rewrite colok_skip in * by assumption. exact Hok.
Qed.

Theorem index_is_offset : forall t l c,
  col_ok t l c = true -> get_insertion_index l c t = offset_of t l c.
Proof.
  intros t l c H. unfold get_insertion_index, offset_of.
  rewrite col_ok_colok_ls in H.
  rewrite (gii_spec t l c 0 0 0); rewrite ?N.sub_0_r; [reflexivity | lia | reflexivity | exact H].
Qed.

(* ---------------------------------------------------------------------------------------- *)
(* 5./6. the server's edits are the client's edits                                           *)

Definition change_ok (t : text) (ch : change) : Prop :=
  match crange ch with
  | Some ((l1, c1), (l2, c2)) => col_ok t l1 c1 = true /\ col_ok t l2 c2 = true
  | None => True
  end.

Theorem apply_is_lsp : forall t ch,
  change_ok t ch -> apply_change t ch = lsp_apply t (crange ch) (ctext ch).
Proof.
  intros t [[[[l1 c1] [l2 c2]]|] new]; unfold change_ok, apply_change, lsp_apply; cbn [crange ctext].
  - intros [H1 H2].
    rewrite (index_is_offset t l1 c1 H1), (index_is_offset t l2 c2 H2).
    symmetry. apply splice_is_replace_bytes.
  - intros _. apply replace_bytes_all.
Qed.

(* the client applies its changes one after the other to its own copy of the text *)
Fixpoint lsp_apply_all (t : text) (chs : list change) : option text :=
  match chs with
  | [] => Some t
  | ch :: r => match lsp_apply t (crange ch) (ctext ch) with
               | Some t' => lsp_apply_all t' r
               | None => None
               end
  end.

(* every change's positions are well-formed w.r.t. the client's text it is applied to *)
Fixpoint changes_ok (t : text) (chs : list change) : Prop :=
  match chs with
  | [] => True
  | ch :: r => change_ok t ch /\
               match lsp_apply t (crange ch) (ctext ch) with
               | Some t' => changes_ok t' r
               | None => True
               end
  end.

Theorem sync : forall chs t, changes_ok t chs -> apply_changes t chs = lsp_apply_all t chs.
Proof.
  induction chs as [|ch r IH]; intros t H; [reflexivity|].
  cbn [apply_changes lsp_apply_all changes_ok] in *. destruct H as [H1 H2].
  rewrite (apply_is_lsp t ch H1).
  destruct (lsp_apply t (crange ch) (ctext ch)) as [t'|]; [now apply IH | reflexivity].
Qed.

(* ---------------------------------------------------------------------------------------- *)
(* 7. index -> position -> index                                                             *)

Lemma pos_mono s : forall idx line ch i pl pc,
  pos_from idx line ch i s = (pl, pc) -> line < pl \/ (line = pl /\ ch <= pc).
Proof.
  induction s as [|c r IH]; intros idx line ch i pl pc H.
  - cbn [pos_from] in H. injection H as <- <-. lia.
  - rewrite pos_cons in H. destruct (idx <=? i); [injection H as <- <-; lia|].
    apply IH in H. pose proof (step_mono c r line ch). lia.
Qed.

Lemma roundtrip_gen a : forall b line ch i pl pc,
  ~ (exists a' b', a = a' ++ [13] /\ b = 10 :: b') ->
  pos_from (i + blen a) line ch i (a ++ b) = (pl, pc) ->
  gii_from pl pc line ch i (a ++ b) = i + blen a.
Proof.
  induction a as [|c a IH]; intros b line ch i pl pc Hcr H; cbn [app blen] in *.
  - rewrite N.add_0_r in *. destruct b as [|c r].
    + reflexivity.
    + rewrite pos_cons, N.leb_refl in H. injection H as <- <-.
      now rewrite gii_cons, N.eqb_refl, N.leb_refl.
  - pose proof (ulen_pos c) as Hu.
    rewrite pos_cons in H.
    destruct (i + (ulen c + blen a) <=? i) eqn:T0; [b2p; lia|]. clear T0.
    replace (i + (ulen c + blen a)) with (i + ulen c + blen a) in * by lia.
    assert (Hcr' : ~ (exists a' b', a = a' ++ [13] /\ b = 10 :: b')).
    { intros [a' [b' [-> ->]]]. apply Hcr. exists (c :: a'), b'. split; reflexivity. }
    assert (Hpos : (line < pl \/ (line = pl /\ ch < pc)) /\ (isnl c = true -> line < pl)).
    { pose proof (pos_mono _ _ _ _ _ _ _ H) as M. unfold step in M. unfold isnl.
      pose proof (u16len_bounds c).
      destruct (c =? 10) eqn:E10; [cbn [fst snd] in M; split; [lia | intros _; lia]|].
      destruct (c =? 13) eqn:E13; cycle 1.
      { cbn [fst snd] in M. split; [lia | discriminate]. }
      destruct (lf_next (a ++ b)) eqn:LF; cycle 1.
      { cbn [fst snd] in M. split; [lia | intros _; lia]. }
      (* "\r\n" *)
      b2p; subst c. clear M. unfold step in H. change (13 =? 10) with false in H.
      change (13 =? 13) with true in H. rewrite LF in H. cbn [fst snd] in H.
      destruct a as [|c2 a''].
      { exfalso. apply Hcr. destruct b as [|c2 b']; [discriminate|].
        unfold lf_next in LF. cbn [app] in LF. b2p; subst c2. exists [], b'. split; reflexivity. }
      unfold lf_next in LF. cbn [app] in LF. b2p; subst c2. cbn [app blen] in H.
      rewrite pos_cons in H. pose proof (ulen_pos 10).
      destruct (i + ulen 13 + (ulen 10 + blen a'') <=? i + ulen 13) eqn:T0; [b2p; lia|].
      apply pos_mono in H. unfold step in H. change (10 =? 10) with true in H.
      cbn [fst snd] in H. split; [lia | intros _; lia]. }
    destruct Hpos as [Hp1 Hp2].
    rewrite gii_cons.
    destruct ((line =? pl) && (pc <=? ch)) eqn:T1; [b2p; lia|].
    destruct (isnl c && (line =? pl)) eqn:T2; [apply andb_true_iff in T2; destruct T2 as [T2 T3]; specialize (Hp2 T2); b2p; lia|].
    rewrite (IH b _ _ _ pl pc Hcr' H). lia.
Qed.

Theorem roundtrip : forall a b,
  ~ (exists a' b', a = a' ++ [13] /\ b = 10 :: b') ->
  let p := as_position (blen a) (a ++ b) in
  get_insertion_index (fst p) (snd p) (a ++ b) = blen a.
Proof.
  intros a b H p. subst p. unfold as_position, get_insertion_index.
  destruct (pos_from (blen a) 0 0 0 (a ++ b)) as [pl pc] eqn:E. cbn [fst snd].
  rewrite (roundtrip_gen a b 0 0 0 pl pc H); [lia|]. rewrite N.add_0_l. exact E.
Qed.
