(* C06, conformance of one token: the model's [lex_raw] on a lexeme of the declarative lexical
   grammar (Spec/LexSpec.v: [Lexeme k lx]) that is delimited by what follows it ([Delimited k lx rest])
   returns exactly that lexeme with kind and value [k], no lexical error, and the rest untouched.
   This is longest match + keywords only as whole words + literal values + comment extent. *)
From Spl Require Import Model.Lexer Spec.LexSpec Proofs.LexerProofs Proofs.LexLocality.

(* ---- character classes ---- *)

Lemma alnum_ascii_lt c : is_alnum_ascii c = true -> c < 256.
Proof.
  unfold is_alnum_ascii, is_alpha, is_upper, is_lower, is_digit. intros H.
  repeat (apply orb_true_iff in H as [H|H]); try (apply andb_true_iff in H as [_ H]; apply N.leb_le in H; lia).
  apply N.eqb_eq in H. lia.
Qed.

Lemma alnum_ascii_trunc c : is_alnum_ascii c = true -> is_alnum_trunc c = true.
Proof.
  intros H. pose proof (alnum_ascii_lt c H) as Hlt. unfold is_alnum_trunc. cbv zeta.
  rewrite N.mod_small by exact Hlt. exact H.
Qed.

Lemma alnum_ascii_all_trunc r : forallb is_alnum_ascii r = true -> forallb is_alnum_trunc r = true.
Proof.
  induction r as [|c r IH]; [reflexivity|]. cbn [forallb]. intros H. apply andb_true_iff in H as [Hc Hr].
  now rewrite (alnum_ascii_trunc c Hc), (IH Hr).
Qed.

Lemma ident_start_ascii c : is_ident_start c = true -> is_alnum_ascii c = true.
Proof.
  unfold is_ident_start, is_alnum_ascii. intros H. apply orb_true_iff in H as [H|H]; rewrite H; [reflexivity|].
  now rewrite orb_true_r.
Qed.

Lemma digit_ascii c : is_digit c = true -> is_alnum_ascii c = true.
Proof. unfold is_alnum_ascii. intros ->. now rewrite orb_true_r. Qed.

Lemma digit_range c : is_digit c = true -> 48 <= c <= 57.
Proof. unfold is_digit. intros H. apply andb_true_iff in H as [H1 H2]. apply N.leb_le in H1, H2. lia. Qed.

Lemma digit_not_ident_start c : is_digit c = true -> is_ident_start c = false.
Proof.
  intros H. apply digit_range in H. unfold is_ident_start, is_alpha, is_upper, is_lower.
  destruct (N.leb_spec 65 c); [lia|]. destruct (N.leb_spec 97 c); [lia|].
  destruct (N.eqb_spec c 95); [lia|]. reflexivity.
Qed.

Lemma digit_is_hex c : is_digit c = true -> is_hex c = true.
Proof. unfold is_hex. now intros ->. Qed.

Lemma is_ws_cases c : is_ws c = true -> c = 32 \/ c = 9 \/ c = 13 \/ c = 10.
Proof.
  unfold is_ws. intros H. repeat (apply orb_true_iff in H as [H|H]); apply N.eqb_eq in H; auto.
Qed.

Lemma ws_not_alnum c : is_ws c = true -> is_alnum_ascii c = false /\ is_alnum_trunc c = false.
Proof. intros H. destruct (is_ws_cases c H) as [-> | [-> | [-> | ->]]]; split; reflexivity. Qed.

Lemma alnum_ascii_not_ws c : is_alnum_ascii c = true -> is_ws c = false.
Proof.
  intros H. destruct (is_ws c) eqn:E; [|reflexivity]. destruct (ws_not_alnum c E) as [E2 _]. congruence.
Qed.

(* ---- heads of the symbols ---- *)

Definition sym_heads : list char := [40; 41; 91; 93; 123; 125; 61; 35; 60; 62; 58; 44; 59; 43; 45; 42; 47].

Lemma lex_sym_some_hd c s : lex_sym (c :: s) <> None -> In c sym_heads.
Proof.
  unfold lex_sym. destruct (first_match sym_table (c :: s)) as [[p k]|] eqn:E; [|congruence]. intros _.
  apply first_match_in in E as [Hin Hs]. cbn in Hin.
  repeat (destruct Hin as [Hin|Hin];
          [inversion Hin; subst; clear Hin; cbn [starts] in Hs; apply andb_true_iff in Hs as [Hs _];
           apply N.eqb_eq in Hs; subst c; cbn; tauto|]).
  destruct Hin.
Qed.

Lemma lex_sym_hd_none c s : ~ In c sym_heads -> lex_sym (c :: s) = None.
Proof.
  intros H. destruct (lex_sym (c :: s)) eqn:E; [|reflexivity]. exfalso. apply H.
  apply (lex_sym_some_hd c s). congruence.
Qed.

Lemma alnum_ascii_not_sym c : is_alnum_ascii c = true -> ~ In c sym_heads.
Proof.
  intros Hc H. cbn in H.
  repeat (destruct H as [H|H]; [subst c; vm_compute in Hc; discriminate Hc|]). exact H.
Qed.

Lemma alnum_ascii_ne c d : is_alnum_ascii c = true -> is_alnum_ascii d = false -> c <> d.
Proof. intros H1 H2 ->. congruence. Qed.

Lemma lex_comment_hd_none c s : c <> 47 -> lex_comment (c :: s) = None.
Proof.
  intros H. unfold lex_comment. cbn [starts]. destruct (N.eqb_spec 47 c) as [E|_]; [congruence|]. reflexivity.
Qed.

Lemma lex_hex_hd_none c s : c <> 48 -> lex_hex (c :: s) = None.
Proof.
  intros H. unfold lex_hex. cbn [starts]. destruct (N.eqb_spec 48 c) as [E|_]; [congruence|]. reflexivity.
Qed.

Lemma lex_int_hd_none c s : is_digit c = false -> lex_int (c :: s) = None.
Proof. intros H. unfold lex_int. cbn [span]. rewrite H. reflexivity. Qed.

(* the first four alternatives fail on a text that starts with a letter, a digit or '_' ... *)
Lemma pre_alnum_none c s :
  is_alnum_ascii c = true ->
  lex_comment (c :: s) = None /\ lex_sym (c :: s) = None /\ lex_char (c :: s) = None.
Proof.
  intros Hc. split; [|split].
  - apply lex_comment_hd_none. apply (alnum_ascii_ne c 47 Hc). reflexivity.
  - apply lex_sym_hd_none. now apply alnum_ascii_not_sym.
  - apply lex_char_none_hd. apply (alnum_ascii_ne c 39 Hc). reflexivity.
Qed.

(* ---- symbols ---- *)

Lemma lex_raw_la0 p k rest :
  lex_raw p = Some (k, [], p, []) -> look_ahead k = 0 -> lex_raw (p ++ rest) = Some (k, [], p, rest).
Proof.
  intros H Hla. apply (lex_raw_local p k [] p [] rest H). intros H1. rewrite Hla in H1. discriminate H1.
Qed.

(* one-character symbols that are a prefix of a longer lexeme: '<' '>' ':' before '=', '/' before '/' *)
Lemma eqb_neq_l a c : c <> a -> (a =? c) = false.
Proof. intros H. destruct (N.eqb_spec a c); congruence. Qed.

Lemma lex_raw_lt rest :
  match rest with 61 :: _ => False | _ => True end -> lex_raw (60 :: rest) = Some (LtT, [], [60], rest).
Proof.
  destruct rest as [|c r]; [reflexivity|]. intros H.
  assert (Hc : (61 =? c) = false).
  { apply eqb_neq_l. intros ->. exact H. }
  unfold lex_raw, lex_comment, lex_sym, sym_table. cbn [starts first_match]. rewrite Hc. reflexivity.
Qed.

Lemma lex_raw_gt rest :
  match rest with 61 :: _ => False | _ => True end -> lex_raw (62 :: rest) = Some (GtT, [], [62], rest).
Proof.
  destruct rest as [|c r]; [reflexivity|]. intros H.
  assert (Hc : (61 =? c) = false).
  { apply eqb_neq_l. intros ->. exact H. }
  unfold lex_raw, lex_comment, lex_sym, sym_table. cbn [starts first_match]. rewrite Hc. reflexivity.
Qed.

Lemma lex_raw_colon rest :
  match rest with 61 :: _ => False | _ => True end -> lex_raw (58 :: rest) = Some (Colon, [], [58], rest).
Proof.
  destruct rest as [|c r]; [reflexivity|]. intros H.
  assert (Hc : (61 =? c) = false).
  { apply eqb_neq_l. intros ->. exact H. }
  unfold lex_raw, lex_comment, lex_sym, sym_table. cbn [starts first_match]. rewrite Hc. reflexivity.
Qed.

Lemma lex_raw_divide rest :
  match rest with 47 :: _ => False | _ => True end -> lex_raw (47 :: rest) = Some (Divide, [], [47], rest).
Proof.
  destruct rest as [|c r]; [reflexivity|]. intros H.
  assert (Hc : (47 =? c) = false).
  { apply eqb_neq_l. intros ->. exact H. }
  unfold lex_raw, lex_comment, lex_sym, sym_table. cbn [starts first_match]. rewrite Hc. reflexivity.
Qed.

Lemma lex_raw_sym p k rest :
  In (p, k) sym_table -> Delimited k p rest -> lex_raw (p ++ rest) = Some (k, [], p, rest).
Proof.
  intros Hin HD. cbn in Hin.
  repeat (destruct Hin as [Hin|Hin]; [inversion Hin; subst p k; clear Hin|]); [..|destruct Hin].
  all: try (apply lex_raw_la0; reflexivity).
  - exact (lex_raw_lt rest HD).
  - exact (lex_raw_gt rest HD).
  - exact (lex_raw_colon rest HD).
  - exact (lex_raw_divide rest HD).
Qed.

(* ---- keywords and identifiers: whole words ---- *)

Lemma lex_kw_word w rest :
  forallb is_alnum_trunc w = true -> stops is_alnum_trunc rest ->
  lex_kw (w ++ rest) =
  match first_kw' kw_table w with
  | Some (p, k) => Some (k, [], p, skipn (length p) (w ++ rest))
  | None => None
  end.
Proof.
  intros Hw Hst. unfold lex_kw. rewrite first_kw_span by apply kw_table_alnum.
  rewrite (span_app_stop _ _ _ Hw Hst). reflexivity.
Qed.

Lemma first_kw'_none tbl w :
  existsb (fun pk => text_eqb (fst pk) w) tbl = false -> first_kw' tbl w = None.
Proof.
  induction tbl as [|[p k] tbl IH]; [reflexivity|]. cbn [existsb first_kw' fst]. intros H.
  apply orb_false_iff in H as [H1 H2]. rewrite H1. exact (IH H2).
Qed.

Lemma kw_delimited p k rest : In (p, k) kw_table -> Delimited k p rest -> stops is_alnum_trunc rest.
Proof.
  intros Hin. cbn in Hin.
  repeat (destruct Hin as [Hin|Hin]; [inversion Hin; subst p k; clear Hin; exact (fun H => H)|]). destruct Hin.
Qed.

Lemma kw_first p k : In (p, k) kw_table -> first_kw' kw_table p = Some (p, k) /\ exists c p', p = c :: p' /\ is_alnum_ascii c = true.
Proof.
  intros Hin. cbn in Hin.
  repeat (destruct Hin as [Hin|Hin]; [inversion Hin; subst p k; clear Hin; split; [reflexivity | do 2 eexists; split; reflexivity]|]).
  destruct Hin.
Qed.

Lemma lex_raw_kw p k rest :
  In (p, k) kw_table -> Delimited k p rest -> lex_raw (p ++ rest) = Some (k, [], p, rest).
Proof.
  intros Hin HD. pose proof (kw_delimited p k rest Hin HD) as Hst.
  assert (Hp : forallb is_alnum_trunc p = true).
  { pose proof kw_table_alnum as F. rewrite Forall_forall in F. apply (F _ Hin). }
  destruct (kw_first p k Hin) as [Hf [c [p' [-> Hc]]]].
  pose proof (lex_kw_word (c :: p') rest Hp Hst) as Hk. rewrite Hf, skipn_length_app in Hk.
  cbn [app] in *. destruct (pre_alnum_none c (p' ++ rest) Hc) as [H1 [H2 _]].
  unfold lex_raw. rewrite H1, H2, Hk. reflexivity.
Qed.

Lemma lex_raw_ident c r rest :
  is_ident_start c = true -> forallb is_alnum_ascii r = true -> is_keyword_text (c :: r) = false ->
  stops is_alnum_trunc rest ->
  lex_raw ((c :: r) ++ rest) = Some (Ident (c :: r), [], c :: r, rest).
Proof.
  intros Hc Hr Hnk Hst.
  pose proof (ident_start_ascii c Hc) as Hca.
  assert (Hw : forallb is_alnum_trunc (c :: r) = true).
  { cbn [forallb]. now rewrite (alnum_ascii_trunc c Hca), (alnum_ascii_all_trunc r Hr). }
  pose proof (lex_kw_word (c :: r) rest Hw Hst) as Hk.
  rewrite (first_kw'_none kw_table (c :: r) Hnk) in Hk.
  cbn [app] in *. destruct (pre_alnum_none c (r ++ rest) Hca) as [H1 [H2 H3]].
  assert (H4 : lex_hex (c :: r ++ rest) = None).
  { apply lex_hex_hd_none. intros ->. discriminate Hc. }
  assert (H5 : lex_int (c :: r ++ rest) = None).
  { apply lex_int_hd_none. destruct (is_digit c) eqn:E; [|reflexivity].
    rewrite (digit_not_ident_start c E) in Hc. discriminate Hc. }
  unfold lex_raw. rewrite H1, H2, Hk, H3, H4, H5. cbn [orelse].
  unfold lex_ident. rewrite Hc.
  rewrite (span_app_stop _ _ _ (alnum_ascii_all_trunc r Hr) Hst). reflexivity.
Qed.

(* ---- literals ---- *)

Lemma pre_digit_none c s :
  is_digit c = true ->
  lex_comment (c :: s) = None /\ lex_sym (c :: s) = None /\ lex_kw (c :: s) = None /\ lex_char (c :: s) = None.
Proof.
  intros Hc. destruct (pre_alnum_none c s (digit_ascii c Hc)) as [H1 [H2 H3]].
  repeat split; auto. apply lex_kw_none_hd. now apply digit_not_ident_start.
Qed.

Lemma lex_raw_int d v rest :
  d <> [] -> forallb is_digit d = true ->
  v = fold_left (fun a c => a * 10 + (c - 48)) d 0 -> v < 4294967296 ->
  match rest with [] => True | c :: _ => is_digit c = false /\ ~ (d = [48] /\ c = 120) end ->
  lex_raw (d ++ rest) = Some (IntT (IntOk v), [], d, rest).
Proof.
  intros Hne Hd Hv Hlt HD. destruct d as [|c0 d']; [congruence|].
  pose proof Hd as Hd0. cbn [forallb] in Hd0. apply andb_true_iff in Hd0 as [Hc0 Hd'].
  assert (Hst : stops is_digit rest). { destruct rest as [|c r]; [exact I | exact (proj1 HD)]. }
  cbn [app]. destruct (pre_digit_none c0 (d' ++ rest) Hc0) as [H1 [H2 [H3 H4]]].
  assert (H5 : lex_hex (c0 :: d' ++ rest) = None).
  { unfold lex_hex. destruct (starts [48; 120] (c0 :: d' ++ rest)) eqn:E; [|reflexivity]. exfalso.
    cbn [starts] in E. apply andb_true_iff in E as [E1 E2]. apply N.eqb_eq in E1. subst c0.
    destruct d' as [|x d'].
    - cbn [app] in E2. destruct rest as [|c r]; [discriminate E2|].
      apply andb_true_iff in E2 as [E2 _]. apply N.eqb_eq in E2. subst c. apply (proj2 HD). auto.
    - cbn [app] in E2. apply andb_true_iff in E2 as [E2 _]. apply N.eqb_eq in E2. subst x.
      cbn [forallb] in Hd'. apply andb_true_iff in Hd' as [Hx _]. discriminate Hx. }
  unfold lex_raw. rewrite H1, H2, H3, H4, H5. cbn [orelse].
  change (c0 :: d' ++ rest) with ((c0 :: d') ++ rest).
  unfold lex_int. rewrite (span_app_stop _ _ _ Hd Hst). cbn [fst snd].
  assert (Hval : dec_value (c0 :: d') = v) by (subst v; reflexivity).
  rewrite Hval. apply N.ltb_lt in Hlt. unfold u32_limit. rewrite Hlt. reflexivity.
Qed.

Lemma hex_val_spec c :
  is_hex c = true -> hex_val c = (if c <=? 57 then c - 48 else if c <=? 70 then c - 55 else c - 87).
Proof.
  unfold hex_val, is_hex, is_digit. intros H.
  destruct (N.leb_spec c 57) as [L|L].
  - destruct (N.leb_spec 48 c) as [L2|L2]; [reflexivity|]. exfalso.
    cbn [andb orb] in H. apply orb_true_iff in H as [H|H]; apply andb_true_iff in H as [H _]; apply N.leb_le in H; lia.
  - rewrite andb_false_r. reflexivity.
Qed.

Lemma fold_left_ext_in {A B} (f g : A -> B -> A) l :
  (forall a c, In c l -> f a c = g a c) -> forall a, fold_left f l a = fold_left g l a.
Proof.
  induction l as [|x l IH]; intros H a; [reflexivity|]. cbn [fold_left].
  rewrite (H a x (or_introl eq_refl)). apply IH. intros a' c Hc. apply H. now right.
Qed.

Lemma hex_value_spec d :
  forallb is_hex d = true ->
  hex_value d = fold_left (fun a c => a * 16 + (if c <=? 57 then c - 48 else if c <=? 70 then c - 55 else c - 87)) d 0.
Proof.
  intros H. unfold hex_value. apply fold_left_ext_in. intros a c Hc.
  rewrite forallb_forall in H. now rewrite (hex_val_spec c (H c Hc)).
Qed.

Lemma lex_raw_skip4 s :
  lex_comment s = None -> lex_sym s = None -> lex_kw s = None -> lex_char s = None ->
  lex_raw s = orelse (lex_hex s) (orelse (lex_int s) (orelse (lex_ident s) (lex_unknown s))).
Proof. intros H1 H2 H3 H4. unfold lex_raw. rewrite H1, H2, H3, H4. reflexivity. Qed.

Lemma lex_raw_hex d v rest :
  d <> [] -> forallb is_hex d = true ->
  v = fold_left (fun a c => a * 16 + (if c <=? 57 then c - 48 else if c <=? 70 then c - 55 else c - 87)) d 0 ->
  v < 4294967296 -> stops is_hex rest ->
  lex_raw (48 :: 120 :: d ++ rest) = Some (HexT (IntOk v), [], 48 :: 120 :: d, rest).
Proof.
  intros Hne Hd Hv Hlt Hst.
  match goal with |- lex_raw (48 :: ?s) = _ => destruct (pre_digit_none 48 s eq_refl) as [H1 [H2 [H3 H4]]] end.
  etransitivity; [exact (lex_raw_skip4 _ H1 H2 H3 H4)|].
  rewrite lex_hex_unfold, (span_app_stop _ _ _ Hd Hst). cbn [fst snd].
  rewrite (hex_value_spec d Hd), <- Hv. apply N.ltb_lt in Hlt. unfold u32_limit. rewrite Hlt.
  destruct d; [congruence | reflexivity].
Qed.

Lemma lex_raw_char c rest : lex_raw ([39; c; 39] ++ rest) = Some (CharT c, [], [39; c; 39], rest).
Proof.
  cbn [app].
  assert (H1 : lex_comment (39 :: c :: 39 :: rest) = None) by reflexivity.
  assert (H2 : lex_sym (39 :: c :: 39 :: rest) = None) by reflexivity.
  assert (H3 : lex_kw (39 :: c :: 39 :: rest) = None) by (apply lex_kw_none_hd; reflexivity).
  unfold lex_raw. rewrite H1, H2, H3. cbn [orelse]. rewrite lex_char_eq. cbn [lex_char'].
  assert (Hs : starts [92; 110] (c :: 39 :: rest) = false).
  { cbn [starts]. destruct (92 =? c); reflexivity. }
  rewrite Hs. reflexivity.
Qed.

Lemma lex_raw_char_nl rest : lex_raw ([39; 92; 110; 39] ++ rest) = Some (CharT 10, [], [39; 92; 110; 39], rest).
Proof.
  cbn [app].
  assert (H3 : lex_kw (39 :: 92 :: 110 :: 39 :: rest) = None) by (apply lex_kw_none_hd; reflexivity).
  unfold lex_raw. rewrite H3. reflexivity.
Qed.

(* ---- comments ---- *)

Lemma lex_raw_comment_nl (body rest : text) :
  forallb not_nl body = true ->
  lex_raw (47 :: 47 :: body ++ 10 :: rest) = Some (Comment body, [], 47 :: 47 :: body ++ [10], rest).
Proof.
  intros Hb. unfold lex_raw. rewrite lex_comment_unfold.
  rewrite (span_app_stop not_nl body (10 :: rest) Hb eq_refl). reflexivity.
Qed.

Lemma lex_raw_comment_eot (body : text) :
  forallb not_nl body = true ->
  lex_raw (47 :: 47 :: body) = Some (Comment body, [], 47 :: 47 :: body, []).
Proof.
  intros Hb.
  assert (E : span not_nl body = (body, [])).
  { rewrite <- (app_nil_r body) at 1. exact (span_app_stop not_nl body [] Hb I). }
  unfold lex_raw. rewrite lex_comment_unfold, E. reflexivity.
Qed.

Lemma last_app_single {A} (l : list A) x d : last (l ++ [x]) d = x.
Proof. induction l as [|a l IH]; [reflexivity|]. cbn [app]. destruct (l ++ [x]) eqn:E; [destruct l; discriminate E|]. exact IH. Qed.

Lemma last_not_in (l : text) d x : forallb (fun c => negb (c =? x)) l = true -> d <> x -> last l d <> x.
Proof.
  revert d. induction l as [|a l IH]; intros d H Hd; [exact Hd|].
  cbn [forallb] in H. apply andb_true_iff in H as [Ha Hl].
  destruct l as [|b l]; [cbn; apply negb_true_iff, N.eqb_neq in Ha; exact Ha|].
  change (last (a :: b :: l) d) with (last (b :: l) d). now apply IH.
Qed.

(* ---- the theorem ---- *)

Theorem lex_raw_lexeme k lx rest :
  Lexeme k lx -> Delimited k lx rest -> lex_raw (lx ++ rest) = Some (k, [], lx, rest).
Proof.
  intros HL HD. destruct HL as [p k Hin | p k Hin | c r Hc Hr Hnk | d v Hne Hd Hv Hlt | d v Hne Hd Hv Hlt | c | | body Hb | body Hb].
  - now apply lex_raw_sym.
  - now apply lex_raw_kw.
  - apply lex_raw_ident; assumption.
  - apply lex_raw_int; assumption.
  - apply lex_raw_hex; assumption.
  - apply lex_raw_char.
  - apply lex_raw_char_nl.
  - cbn [app]. rewrite <- app_assoc. cbn [app]. now apply lex_raw_comment_nl.
  - destruct rest as [|x rest]; [rewrite app_nil_r; now apply lex_raw_comment_eot|]. exfalso.
    cbn [Delimited] in HD. revert HD.
    change (last (47 :: 47 :: body) 0) with (last (47 :: body) 0).
    destruct body as [|b body]; [discriminate|].
    change (last (47 :: b :: body) 0) with (last (b :: body) 0).
    apply (last_not_in (b :: body) 0 10 Hb). discriminate.
Qed.

Print Assumptions lex_raw_lexeme.
