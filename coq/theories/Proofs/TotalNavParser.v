(* C02 / C12 / C13, request handlers, parser part of [nav_wf_b]: in every tree the parser returns - for
   ALL token lists and all fuel - the name of a declaration ends inside the declaration's range, and
   the parameter and variable declarations of a procedure (each behind its own Reference: range start
   0) end inside the procedure's range ([parse_nest]).  These are the facts table::build turns into
   the ranges of the table entries (`pe_range`, `ve_range`, the name's range relative to them).

   Everything is read off the position discipline [Fwd] (ParserComb / ParserFwd): an AstInfo built
   by `info(p)` at state s is [pos s - refp s, pos s' - refp s), and whatever ran inside p ended at
   or before s'. *)
From Coq Require Import Arith Lia List Bool.
From Spl Require Import Model.Parser Proofs.ParserComb Proofs.ParserEqns Proofs.ParserFwd Proofs.ParserDecl
  Proofs.RangeProofsIdent.
Import ListNotations.
Local Open Scope nat_scope.

Definition name_in (len : nat) (o : option ident) : Prop := OptP (fun i => i_e (id_info i) <= len) o.

Definition vardecl_name (v : vardecl) : option ident := match v with VValid _ n _ _ => n | VError _ => None end.
Definition paramdecl_name (p : paramdecl) : option ident := match p with PValid _ _ n _ _ => n | PError _ => None end.

(* a node behind a Reference inside a parent of length len *)
Definition LocalNest {A} (info_of : A -> info) (name_of : A -> option ident) (len : nat) (x : A * nat) : Prop :=
  i_s (info_of (fst x)) = 0 /\ snd x + i_e (info_of (fst x)) <= len /\
  name_in (i_e (info_of (fst x))) (name_of (fst x)).

Definition ProcNest (d : procdecl) : Prop :=
  name_in (i_e (pd_info d)) (pd_name d) /\
  Forall (LocalNest paramdecl_info paramdecl_name (i_e (pd_info d))) (pd_params d) /\
  Forall (LocalNest vardecl_info vardecl_name (i_e (pd_info d))) (pd_vars d).

Definition TypeNest (d : typedecl) : Prop := name_in (i_e (td_info d)) (td_name d).

Definition GdeclNest (g : gdecl) : Prop :=
  match g with GType d => TypeNest d | GProc d => ProcNest d | GError _ => True end.

Lemma name_in_mono len len' o : len <= len' -> name_in len o -> name_in len' o.
Proof. destruct o as [i|]; cbn [name_in OptP]; [lia | auto]. Qed.

Lemma LocalNest_mono {A} (info_of : A -> info) name_of len len' x :
  len <= len' -> LocalNest info_of name_of len x -> LocalNest info_of name_of len' x.
Proof. unfold LocalNest. intros H (A1 & A2 & A3). repeat split; [exact A1 | lia | exact A3]. Qed.

Section Nest.
Variable toks : list token.
Notation N := (length toks).
Notation Mv0 := (Mv toks sync_none).
Notation Fwd0 := (Fwd toks sync_none).

Ltac mv H M :=
  match type of H with
  | ?q ?s = POk ?s' ?a =>
      assert (M : Mv toks sync_none s s');
      [ apply (Fwd_ok toks sync_none q s s' a); [ fwd_solve sync_none_ok | cbn [pos set_ebuf set_refp] in *; lia | exact H ] | ]
  end.

(* ---- generic: many0 ---- *)
Lemma many0_forall {A} (q : parser A) (R : nat -> A -> Prop) :
  (forall a b x, a <= b -> R a x -> R b x) ->
  (forall s s' x, pos s <= N -> refp s <= pos s -> q s = POk s' x -> R (pos s' - refp s) x) ->
  Fwd0 q ->
  forall fuel s s' l, pos s <= N -> refp s <= pos s -> p_many0 fuel q s = POk s' l ->
    Forall (R (pos s' - refp s)) l /\ Mv0 s s'.
Proof.
  intros Hmono Hq Fq. induction fuel as [|n IH]; intros s s' l Hs Hr H; [discriminate|].
  assert (M : Mv0 s s') by exact (Fwd_ok toks sync_none _ s s' l (Fwd_many0 _ _ _ _ Fq) Hs H).
  split; [|exact M]. cbn [p_many0] in H.
  destruct (q s) as [s1 x|e|] eqn:E1; [| injection H as _ <-; constructor | discriminate].
  destruct (Nat.eqb (pos s1) (pos s)); [discriminate|].
  apply bind_ok in H as (s2 & l2 & H2 & [= -> <-]).
  pose proof (Fwd_ok toks sync_none _ _ _ _ Fq Hs E1) as (M1 & M2 & M3 & _).
  destruct (IH _ _ _ M2 ltac:(lia) H2) as (C & (M4 & M5 & M6 & _)).
  constructor.
  - apply (Hmono (pos s1 - refp s)); [lia|]. exact (Hq _ _ _ Hs Hr E1).
  - rewrite M3 in C. exact C.
Qed.

(* ---- identifiers ---- *)
Lemma ident_end s s' i : p_ident toks s = POk s' i -> i_e (id_info i) = pos s' - refp s.
Proof.
  intros H. unfold p_ident in H. apply p_map_ok in H as ([t inf] & H & ->).
  apply p_info_ok in H as (s1 & _ & -> & Hinf). cbn [fst snd] in *. subst inf. reflexivity.
Qed.

Lemma expect_ident_end m s s' o :
  pos s <= N -> p_expect (p_ident toks) m s = POk s' o -> name_in (pos s' - refp s) o /\ Mv0 s s'.
Proof.
  intros Hs H. mv H M. split; [|exact M].
  apply p_expect_ok in H as [(a & H & ->)|(e & _ & _ & ->)]; [|exact I].
  cbn [name_in OptP]. rewrite (ident_end _ _ _ H). lia.
Qed.

(* ---- nodes with an AstInfo and a name ---- *)
Definition NodeSpec {A} (info_of : A -> info) (name_of : A -> option ident) (p : parser A) : Prop :=
  forall s s' x, pos s <= N -> refp s <= pos s -> p s = POk s' x ->
    i_s (info_of x) = pos s - refp s /\ i_e (info_of x) = pos s' - refp s /\ name_in (pos s' - refp s) (name_of x).

Lemma ref_local {A} (info_of : A -> info) name_of (p : parser A) :
  NodeSpec info_of name_of p -> Fwd0 p ->
  forall s s' xo, pos s <= N -> refp s <= pos s -> p_ref p s = POk s' xo ->
    LocalNest info_of name_of (pos s' - refp s) xo.
Proof.
  intros Sp Fp s s' [x off] Hs Hr H.
  pose proof (Fwd_ok toks sync_none _ _ _ _ (Fwd_ref _ _ _ Fp) Hs H) as (M1 & M2 & M3 & _).
  apply p_ref_ok in H as (s1 & H & -> & Hoff). cbn [fst snd] in *.
  destruct (Sp (set_refp s (pos s)) _ _ Hs (le_n _) H) as (A1 & A2 & A3). cbn [pos refp set_refp] in *.
  unfold LocalNest. cbn [fst snd]. repeat split; [lia | lia |]. rewrite A2. exact A3.
Qed.

Lemma vardecl_spec f : NodeSpec vardecl_info vardecl_name (p_vardecl toks f).
Proof.
  intros s s' v Hs Hr H. unfold p_vardecl in H. apply p_alt_ok in H as [H|[_ H]].
  - apply p_map_ok in H as ([[doc [kw [name [col [ty semi]]]]] inf] & H & ->).
    apply p_info_ok in H as (s1 & H & -> & Hinf). cbn [fst snd] in H, Hinf. subst inf.
    apply p_pair_ok in H as (sa & Ha & H). cbn [fst snd] in Ha, H. mv Ha Ma. destruct Ma as (Ma1 & Ma2 & Ma3 & _).
    apply p_pair_ok in H as (sb & Hb & H). cbn [fst snd] in Hb, H. mv Hb Mb. destruct Mb as (Mb1 & Mb2 & Mb3 & _).
    apply p_pair_ok in H as (sc & Hc & H). cbn [fst snd] in Hc, H.
    destruct (expect_ident_end _ _ _ _ Mb2 Hc) as (Kn & (Mc1 & Mc2 & Mc3 & _)).
    mv H Md. destruct Md as (Md1 & Md2 & Md3 & _).
    cbn [vardecl_info vardecl_name i_s i_e pos refp set_ebuf] in *. repeat split.
    eapply name_in_mono; [|exact Kn]. lia.
  - apply p_map_ok in H as ([ign inf] & H & ->).
    apply p_info_ok in H as (s1 & _ & -> & Hinf). cbn [fst snd] in Hinf. subst inf.
    cbn [vardecl_info vardecl_name info_append i_s i_e pos set_ebuf snd]. repeat split.
Qed.

Lemma paramdecl_spec f : NodeSpec paramdecl_info paramdecl_name (p_paramdecl toks f).
Proof.
  intros s s' v Hs Hr H. unfold p_paramdecl in H. apply p_alt_ok in H as [H|[_ H]].
  - apply p_map_ok in H as ([[doc [rn [col [ty pk]]]] inf] & H & ->).
    apply p_info_ok in H as (s1 & H & -> & Hinf). cbn [fst snd] in H, Hinf. subst inf.
    apply p_pair_ok in H as (sa & Ha & H). cbn [fst snd] in Ha, H. mv Ha Ma. destruct Ma as (Ma1 & Ma2 & Ma3 & _).
    apply p_pair_ok in H as (sb & Hb & H). cbn [fst snd] in Hb, H. mv Hb Mb. destruct Mb as (Mb1 & Mb2 & Mb3 & _).
    mv H Md. destruct Md as (Md1 & Md2 & Md3 & _).
    cbn [paramdecl_info paramdecl_name i_s i_e pos refp set_ebuf] in *. repeat split.
    apply p_alt_ok in Hb as [Hb|[_ Hb]].
    + apply p_map_ok in Hb as ([kw name] & Hb & ->). cbn [fst snd].
      apply p_pair_ok in Hb as (sc & Hc & Hb). cbn [fst snd] in Hc, Hb. mv Hc Mc. destruct Mc as (Mc1 & Mc2 & Mc3 & _).
      destruct (expect_ident_end _ _ _ _ Mc2 Hb) as (Kn & (Me1 & Me2 & Me3 & _)).
      eapply name_in_mono; [|exact Kn]. lia.
    + apply p_map_ok in Hb as (i & Hb & ->). cbn [fst snd name_in OptP].
      rewrite (ident_end _ _ _ Hb). lia.
  - apply p_map_ok in H as ([ign inf] & H & ->).
    apply p_info_ok in H as (s1 & _ & -> & Hinf). cbn [fst snd] in Hinf. subst inf.
    cbn [paramdecl_info paramdecl_name info_append i_s i_e pos set_ebuf snd]. repeat split.
Qed.

(* ---- parse_list ---- *)
Lemma list_local {A} (info_of : A -> info) name_of (p : parser A) fuel :
  NodeSpec info_of name_of p -> Fwd0 p ->
  forall s s' l, pos s <= N -> refp s <= pos s -> p_list toks fuel p s = POk s' l ->
    Forall (LocalNest info_of name_of (pos s' - refp s)) l.
Proof.
  intros Sp Fp s s' l Hs Hr H. unfold p_list in H.
  apply bind_ok in H as (s1 & head & H1 & H). apply bind_ok in H as (s2 & tail & H2 & [= <- <-]).
  pose proof (Fwd_ok toks sync_none _ _ _ _ (Fwd_ref _ _ _ Fp) Hs H1) as (M1 & M2 & M3 & _).
  pose proof (ref_local info_of name_of p Sp Fp _ _ _ Hs Hr H1) as Kh.
  set (q := p_map (fun r : A * nat * nat => (fst (fst r), snd r + snd (fst r)))
              (p_ref (p_preceded (p_tag toks (is_k Comma)) (p_ref p)))) in H2.
  assert (Fq : Fwd0 q) by (unfold q; fwd_solve sync_none_ok).
  destruct (many0_forall q (LocalNest info_of name_of)) with (fuel := fuel) (s := s1) (s' := s2) (l := tail)
    as (Kt & (M4 & M5 & M6 & _)); try assumption; [| |lia|].
  - intros a b x. apply LocalNest_mono.
  - intros sx sx' x Hsx Hrx Hx. unfold q in Hx. apply p_map_ok in Hx as ([[a o1] o2] & Hx & ->). cbn [fst snd].
    assert (Fr : Fwd0 (p_ref (p_preceded (p_tag toks (is_k Comma)) (p_ref p)))) by fwd_solve sync_none_ok.
    pose proof (Fwd_ok toks sync_none _ _ _ _ Fr Hsx Hx) as (X1 & X2 & X3 & _).
    apply p_ref_ok in Hx as (sy & Hx & -> & Ho2). cbn [fst snd] in Hx, Ho2.
    unfold p_preceded in Hx. apply p_map_ok in Hx as ([cm ao] & Hx & Hao). cbn [snd] in Hao. subst ao.
    apply p_pair_ok in Hx as (sz & Hz & Hx). cbn [fst snd] in Hz, Hx.
    mv Hz Mz. destruct Mz as (Mz1 & Mz2 & Mz3 & _). cbn [pos refp set_refp] in *.
    pose proof (Fwd_ok toks sync_none _ _ _ _ (Fwd_ref _ _ _ Fp) Mz2 Hx) as (Y1 & Y2 & Y3 & _).
    destruct (ref_local info_of name_of p Sp Fp _ _ _ Mz2 ltac:(lia) Hx) as (B1 & B2 & B3).
    unfold LocalNest. cbn [fst snd] in *. repeat split; [exact B1 | lia | exact B3].
  - constructor.
    + eapply LocalNest_mono; [|exact Kh]. lia.
    + rewrite M3 in Kt. exact Kt.
Qed.

(* ---- declarations ---- *)
Lemma typedecl_spec f : NodeSpec td_info td_name (p_typedecl toks f).
Proof.
  intros s s' d Hs Hr H. unfold p_typedecl in H. apply p_map_ok in H as (r & H & ->).
  destruct r as [[doc [kw [name [eq [ty semi]]]]] inf].
  apply p_info_ok in H as (s1 & H & -> & Hinf). cbn [fst snd] in H, Hinf. subst inf.
  apply p_pair_ok in H as (sa & Ha & H). cbn [fst snd] in Ha, H. mv Ha Ma. destruct Ma as (Ma1 & Ma2 & Ma3 & _).
  apply p_pair_ok in H as (sb & Hb & H). cbn [fst snd] in Hb, H. mv Hb Mb. destruct Mb as (Mb1 & Mb2 & Mb3 & _).
  apply p_pair_ok in H as (sc & Hc & H). cbn [fst snd] in Hc, H.
  destruct (expect_ident_end _ _ _ _ Mb2 Hc) as (Kn & (Mc1 & Mc2 & Mc3 & _)).
  mv H Md. destruct Md as (Md1 & Md2 & Md3 & _).
  cbn [td_info td_name i_s i_e pos refp set_ebuf] in *. repeat split.
  eapply name_in_mono; [|exact Kn]. lia.
Qed.

Lemma procdecl_spec f s s' d :
  pos s <= N -> refp s <= pos s -> p_procdecl toks f s = POk s' d ->
  i_s (pd_info d) = pos s - refp s /\ i_e (pd_info d) = pos s' - refp s /\ ProcNest d.
Proof.
  intros Hs Hr H. unfold p_procdecl in H. apply p_map_ok in H as (r & H & ->).
  destruct r as [[doc [kw [name [lp [params [rp [lc [vars [stmts rc]]]]]]]]] inf].
  apply p_info_ok in H as (s1 & H & -> & Hinf). cbn [fst snd] in H, Hinf. subst inf.
  apply p_pair_ok in H as (sa & Ha & H). cbn [fst snd] in Ha, H. mv Ha Ma. destruct Ma as (Ma1 & Ma2 & Ma3 & _).
  apply p_pair_ok in H as (sb & Hb & H). cbn [fst snd] in Hb, H. mv Hb Mb. destruct Mb as (Mb1 & Mb2 & Mb3 & _).
  apply p_pair_ok in H as (sc & Hc & H). cbn [fst snd] in Hc, H.
  destruct (expect_ident_end _ _ _ _ Mb2 Hc) as (Kn & (Mc1 & Mc2 & Mc3 & _)).
  apply p_pair_ok in H as (sd & Hd & H). cbn [fst snd] in Hd, H. mv Hd Md. destruct Md as (Md1 & Md2 & Md3 & _).
  apply p_pair_ok in H as (se & He & H). cbn [fst snd] in He, H.
  assert (Fpar : Fwd0 (p_paramdecl toks f)) by fwd_solve sync_none_ok.
  assert (Me : Mv0 sd se).
  { refine (Fwd_ok toks sync_none _ sd se params _ Md2 He).
    apply Fwd_alt; [fwd_solve sync_none_ok|]. apply Fwd_list; [exact sync_none_ok | exact Fpar]. }
  destruct Me as (Me1 & Me2 & Me3 & _).
  apply p_pair_ok in H as (sf & Hf & H). cbn [fst snd] in Hf, H. mv Hf Mf. destruct Mf as (Mf1 & Mf2 & Mf3 & _).
  apply p_pair_ok in H as (sg & Hg & H). cbn [fst snd] in Hg, H. mv Hg Mg. destruct Mg as (Mg1 & Mg2 & Mg3 & _).
  apply p_pair_ok in H as (sh & Hh & H). cbn [fst snd] in Hh, H. mv Hh Mh0. destruct Mh0 as (Mh01 & Mh02 & Mh03 & _).
  mv H Mi. destruct Mi as (Mi1 & Mi2 & Mi3 & _).
  cbn [pos refp set_ebuf] in *.
  assert (Fvar : Fwd0 (p_vardecl toks f)) by fwd_solve sync_none_ok.
  destruct (many0_forall (p_ref (p_vardecl toks f)) (LocalNest vardecl_info vardecl_name)) with (fuel := f) (s := sg) (s' := sh) (l := vars)
    as (Kv & (Mh1 & Mh2 & Mh3 & _)); try assumption; [| | apply Fwd_ref; exact Fvar | lia |].
  { intros a b x. apply LocalNest_mono. }
  { intros sx sx' x Hsx Hrx Hx. exact (ref_local _ _ _ (vardecl_spec f) Fvar _ _ _ Hsx Hrx Hx). }
  cbn [pd_info pd_name pd_params pd_vars i_s i_e]. split; [reflexivity|]. split; [reflexivity|].
  unfold ProcNest. cbn [pd_info pd_name pd_params pd_vars i_s i_e]. repeat split.
  - eapply name_in_mono; [|exact Kn]. lia.
  - apply p_alt_ok in He as [He|[_ He]]; [apply p_map_ok in He as (u & _ & ->); constructor|].
    pose proof (list_local _ _ _ f (paramdecl_spec f) Fpar _ _ _ Md2 ltac:(lia) He) as Kp.
    eapply Forall_impl; [|exact Kp]. intros x. apply LocalNest_mono. lia.
  - eapply Forall_impl; [|exact Kv]. intros x. apply LocalNest_mono. lia.
Qed.

Lemma gdecl_nest f s s' g :
  pos s <= N -> refp s <= pos s -> p_gdecl toks f s = POk s' g -> GdeclNest g.
Proof.
  intros Hs Hr H. unfold p_gdecl in H.
  apply p_alt_ok in H as [H|[_ H]].
  { apply p_map_ok in H as (d & H & ->). cbn [GdeclNest]. unfold TypeNest.
    destruct (typedecl_spec f _ _ _ Hs Hr H) as (_ & -> & K). exact K. }
  apply p_alt_ok in H as [H|[_ H]].
  - apply p_map_ok in H as (d & H & ->). cbn [GdeclNest]. exact (proj2 (proj2 (procdecl_spec f _ _ _ Hs Hr H))).
  - apply p_map_ok in H as ([ign inf] & _ & ->). exact I.
Qed.

Theorem parse_nest prog : parse toks = Done prog -> Forall (fun go : gdecl * nat => GdeclNest (fst go)) (pg_decls prog).
Proof.
  unfold parse.
  destruct (p_program toks (parse_fuel toks) {| pos := 0; refp := 0; ebuf := [] |}) as [s p|e|] eqn:E;
    [|discriminate|discriminate].
  intros [= <-]. unfold p_program in E. apply p_map_ok in E as ([[ds inf] u] & E & ->).
  apply p_pair_ok in E as (s1 & E & _). cbn [fst snd] in E.
  apply p_info_ok in E as (s2 & E & _ & _). cbn [fst] in E. cbn [pg_decls fst].
  destruct (many0_forall (p_ref (p_gdecl toks (parse_fuel toks))) (fun _ go => GdeclNest (fst go)))
    with (fuel := parse_fuel toks) (s := set_ebuf {| pos := 0; refp := 0; ebuf := [] |} []) (s' := s2) (l := ds) as (K & _);
    try exact E; try exact (Nat.le_0_l _); [auto | | apply Fwd_ref, Fwd0_gdecl | exact K].
  intros sx sx' [g off] Hsx Hrx Hx. cbn [fst].
  apply p_ref_ok in Hx as (sy & Hx & _ & _). cbn [fst] in Hx.
  exact (gdecl_nest _ (set_refp sx (pos sx)) sy g Hsx (le_n _) Hx).
Qed.

End Nest.
