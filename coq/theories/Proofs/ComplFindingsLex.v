(* C16 - a lexer fact for the position classes of Proofs/ComplFindings.v: the punctuation tokens have the
   length of their spelling ([lex_len_ok]: `( ) [ ] { } : , ;` one character, `:=` two), so a cursor
   directly behind a one-character token is moved by `correct_index` onto its FIRST character and
   `token_before` returns the token in front of it; a comment token has two characters or more
   ([lex_comment_len]), so directly behind a comment `token_before` returns the comment. *)
From Coq Require Import NArith Lia List Bool.
From Spl Require Import Model.Lexer Proofs.LexerProofs.
Import ListNotations.
Local Open Scope N_scope.

Definition klen (k : kind) : option N :=
  match k with
  | LParen | RParen | LBracket | RBracket | LCurly | RCurly | Colon | Comma | Semic => Some 1
  | Assign => Some 2
  | _ => None
  end.

Definition len_ok (t : token) : Prop :=
  match klen (tk t) with Some n => te t = ts t + n | None => True end.

Lemma lex_raw_klen s k e lx rest :
  lex_raw s = Some (k, e, lx, rest) -> match klen k with Some n => blen lx = n | None => True end.
Proof.
  unfold lex_raw. intros H.
  repeat (apply orelse_inv in H as [H|H]).
  - unfold lex_comment in H. destruct (starts _ s); [|discriminate].
    destruct (snd _); inversion H; subst; exact I.
  - unfold lex_sym in H. destruct (first_match sym_table s) as [[p j]|] eqn:E; [|discriminate].
    inversion H; subst. apply first_match_in in E as [Hin _]. unfold sym_table in Hin.
    repeat (destruct Hin as [Hin|Hin]; [injection Hin as <- <-; first [reflexivity | exact I]|]). destruct Hin.
  - unfold lex_kw in H. destruct (first_kw kw_table s) as [[p j]|] eqn:E; [|discriminate].
    inversion H; subst. apply first_kw_in in E as [Hin _]. unfold kw_table in Hin.
    repeat (destruct Hin as [Hin|Hin]; [injection Hin as <- <-; exact I|]). destruct Hin.
  - unfold lex_char in H. destruct s as [|c r]; [discriminate|].
    destruct c as [|p]; [discriminate|]. do 6 (destruct p as [p|p|]; try discriminate).
    destruct (if starts [92; 110] r then _ else _) as [[[c lx'] r2]|]; [|discriminate].
    destruct r2 as [|d r3]; [inversion H; subst; exact I|].
    destruct d as [|p]; [inversion H; subst; exact I|].
    do 6 (destruct p as [p|p|]; try (inversion H; subst; exact I)).
  - unfold lex_hex in H. destruct (starts _ s); [|discriminate].
    destruct (fst _); [inversion H; subst; exact I|]. destruct (_ <? _); inversion H; subst; exact I.
  - unfold lex_int in H. destruct (fst _); [discriminate|]. destruct (_ <? _); inversion H; subst; exact I.
  - unfold lex_ident in H. destruct s; [discriminate|]. destruct (is_ident_start _); inversion H; subst; exact I.
  - unfold lex_unknown in H. destruct s; inversion H; subst; exact I.
Qed.

Lemma lex_from_len_ok fuel : forall off s toks, lex_from fuel off s = Some toks -> Forall len_ok toks.
Proof.
  induction fuel as [|f IH]; intros off s toks; [discriminate|].
  cbn [lex_from]. destruct (span is_ws s) as [ws s1]. cbn [fst snd].
  destruct (lex_raw s1) as [[[[k e] lx] rest]|] eqn:E.
  - destruct (lex_from f _ rest) as [tl|] eqn:El; [|discriminate]. intros [= <-].
    constructor; [|exact (IH _ _ _ El)].
    pose proof (lex_raw_klen _ _ _ _ _ E) as Hk. unfold len_ok, mk_token. cbn [tk ts te].
    destruct (klen k); [now rewrite Hk | exact I].
  - intros [= <-]. constructor; [exact I | constructor].
Qed.

Theorem lex_len_ok s toks : lex s = Some toks -> Forall len_ok toks.
Proof. apply lex_from_len_ok. Qed.

Lemma tok_len s toks i t n :
  lex s = Some toks -> nth_error toks i = Some t -> klen (tk t) = Some n -> te t = ts t + n.
Proof.
  intros Hl Hn Hk. pose proof (lex_len_ok s toks Hl) as H. rewrite Forall_forall in H.
  specialize (H t (nth_error_In _ _ Hn)). unfold len_ok in H. now rewrite Hk in H.
Qed.

(* ---- comments: `//` and more ---- *)
Definition cmt_ok (t : token) : Prop :=
  match tk t with Comment _ => ts t + 2 <= te t | _ => True end.

Lemma lex_raw_cmt s k e lx rest :
  lex_raw s = Some (k, e, lx, rest) -> match k with Comment _ => 2 <= blen lx | _ => True end.
Proof.
  unfold lex_raw. intros H.
  repeat (apply orelse_inv in H as [H|H]).
  - unfold lex_comment in H. destruct (starts _ s); [|discriminate].
    destruct (snd _); inversion H; subst; cbn [app blen]; change (ulen 47) with 1; lia.
  - unfold lex_sym in H. destruct (first_match sym_table s) as [[p j]|] eqn:E; [|discriminate].
    inversion H; subst. apply first_match_in in E as [Hin _]. unfold sym_table in Hin.
    repeat (destruct Hin as [Hin|Hin]; [injection Hin as <- <-; exact I|]). destruct Hin.
  - unfold lex_kw in H. destruct (first_kw kw_table s) as [[p j]|] eqn:E; [|discriminate].
    inversion H; subst. apply first_kw_in in E as [Hin _]. unfold kw_table in Hin.
    repeat (destruct Hin as [Hin|Hin]; [injection Hin as <- <-; exact I|]). destruct Hin.
  - unfold lex_char in H. destruct s as [|c r]; [discriminate|].
    destruct c as [|p]; [discriminate|]. do 6 (destruct p as [p|p|]; try discriminate).
    destruct (if starts [92; 110] r then _ else _) as [[[c lx'] r2]|]; [|discriminate].
    destruct r2 as [|d r3]; [inversion H; subst; exact I|].
    destruct d as [|p]; [inversion H; subst; exact I|].
    do 6 (destruct p as [p|p|]; try (inversion H; subst; exact I)).
  - unfold lex_hex in H. destruct (starts _ s); [|discriminate].
    destruct (fst _); [inversion H; subst; exact I|]. destruct (_ <? _); inversion H; subst; exact I.
  - unfold lex_int in H. destruct (fst _); [discriminate|]. destruct (_ <? _); inversion H; subst; exact I.
  - unfold lex_ident in H. destruct s; [discriminate|]. destruct (is_ident_start _); inversion H; subst; exact I.
  - unfold lex_unknown in H. destruct s; inversion H; subst; exact I.
Qed.

Lemma lex_from_cmt_ok fuel : forall off s toks, lex_from fuel off s = Some toks -> Forall cmt_ok toks.
Proof.
  induction fuel as [|f IH]; intros off s toks; [discriminate|].
  cbn [lex_from]. destruct (span is_ws s) as [ws s1]. cbn [fst snd].
  destruct (lex_raw s1) as [[[[k e] lx] rest]|] eqn:E.
  - destruct (lex_from f _ rest) as [tl|] eqn:El; [|discriminate]. intros [= <-].
    constructor; [|exact (IH _ _ _ El)].
    pose proof (lex_raw_cmt _ _ _ _ _ E) as Hk. unfold cmt_ok, mk_token. cbn [tk ts te].
    destruct k; try exact I. lia.
  - intros [= <-]. constructor; [exact I | constructor].
Qed.

Lemma lex_comment_len s toks i t c :
  lex s = Some toks -> nth_error toks i = Some t -> tk t = Comment c -> ts t + 1 < te t.
Proof.
  intros Hl Hn Hk. pose proof (lex_from_cmt_ok _ _ _ _ Hl) as H. rewrite Forall_forall in H.
  specialize (H t (nth_error_In _ _ Hn)). unfold cmt_ok in H. rewrite Hk in H. lia.
Qed.

(* both facts in one statement *)
Theorem lex_punctuation_lengths s toks :
  lex s = Some toks ->
  Forall (fun tok => match tk tok with
                     | LParen | RParen | LBracket | RBracket | LCurly | RCurly | Colon | Comma | Semic => te tok = ts tok + 1
                     | Assign => te tok = ts tok + 2
                     | Comment _ => ts tok + 2 <= te tok
                     | _ => True
                     end) toks.
Proof.
  intros H. pose proof (lex_len_ok _ _ H) as H1. pose proof (lex_from_cmt_ok _ _ _ _ H) as H2.
  rewrite Forall_forall in *. intros tok Hin. specialize (H1 _ Hin). specialize (H2 _ Hin).
  unfold len_ok, cmt_ok in *. destruct (tk tok); cbn [klen] in H1; try exact I; assumption.
Qed.
