(* C02 / C12 / C13, request handlers, table part of [nav_wf_b]: every entry of the global table that
   table::build constructs from a tree of the parser satisfies [gentry_ok]:
     - it is stored under its own name;
     - predefined entries are the ones of GlobalTable::initialized();
     - the range of a declared type / procedure is the declaration's token range, which lies inside
       the token vector (T5), and the range of its name lies inside that range (TotalNavParser);
     - the entries of a procedure's local table carry the ranges of its parameter / variable
       declarations relative to the procedure, which lie inside the procedure's range, and their
       names lie inside those.
   The table is append-only ([enter]), so the invariant is checked once per entered entry. *)
From Coq Require Import Arith Lia List Bool.
From Spl Require Import Model.Refs Proofs.ParserComb Proofs.ParserTotal Proofs.ParserSync Proofs.FormatProofs
  Proofs.RangeProofs Proofs.TotalNavParser.
Import ListNotations.
Local Open Scope nat_scope.

Definition TabInv (n : nat) (t : gtable) : Prop := forallb (gentry_ok n) t = true.
Definition LocInv (len : nat) (l : ltable) : Prop :=
  forallb (fun kv : text * lentry => ventry_ok len (lentry_var (snd kv))) l = true.

Lemma enter_forallb {V} (f : text * V -> bool) t k v t' ok :
  enter t k v = (t', ok) -> forallb f t = true -> f (k, v) = true -> forallb f t' = true.
Proof.
  unfold enter. destruct (lookup t k); intros [= <- _] H1 H2; [exact H1|].
  rewrite forallb_app, H1. cbn [forallb]. now rewrite H2.
Qed.

Lemma TabInv_initialized n : TabInv n initialized.
Proof. unfold TabInv. vm_compute. reflexivity. Qed.

(* ---- local entries ---- *)
Lemma local_ventry_ok {A} (info_of : A -> info) name_of len (x : A) off name r ty doc :
  LocalNest info_of name_of len (x, off) -> name_of x = Some name -> IdOk name ->
  ventry_ok len {| ve_name := name; ve_ref := r; ve_ty := ty;
                   ve_range := shift_range (info_range (info_of x)) off; ve_doc := doc |} = true.
Proof.
  unfold LocalNest, ventry_ok, range_ok, info_ok, range_len, shift_range, info_range, IdOk.
  cbn [fst snd ve_range ve_name]. intros (A1 & A2 & A3) Hn Hi. rewrite Hn in A3. cbn [name_in OptP] in A3.
  rewrite A1, (proj2 (Nat.ltb_lt _ _) Hi). rewrite !andb_true_iff, !Nat.leb_le. lia.
Qed.

Lemma build_parameter_loc len p pn g local p' local' oe :
  build_parameter p pn g local = ROk (p', local', oe) ->
  LocalNest paramdecl_info paramdecl_name len p -> RefP ParamdeclOk p -> LocInv len local -> LocInv len local'.
Proof.
  destruct p as [pd off]. intros H HN HO HL. unfold build_parameter in H.
  destruct pd as [doc is_ref [name|] ty inf|inf]; try (injection H as _ <- _; exact HL).
  destruct (get_data_type None (Some g) (Some (anonymous_creator pn name)) ty) as [[ty' dt]|]; cbn [rbind] in H; [|discriminate].
  match type of H with rbind ?e _ = _ => destruct e as [name1|] end; cbn [rbind] in H; [|discriminate].
  destruct (enter local (id_val name) _) as [local'' ok] eqn:Een.
  match type of H with rbind ?e _ = _ => destruct e as [name2|] end; cbn [rbind] in H; [|discriminate].
  injection H as _ <- _.
  refine (enter_forallb _ _ _ _ _ _ Een HL _). cbn [snd lentry_var].
  apply (local_ventry_ok paramdecl_info paramdecl_name len _ off name); [exact HN | reflexivity|].
  unfold RefP in HO. cbn [fst ParamdeclOk OptP] in HO. exact (proj1 HO).
Qed.

Lemma build_parameters_loc len pn g : forall ps local ps' local' es,
  build_parameters ps pn g local = ROk (ps', local', es) ->
  Forall (LocalNest paramdecl_info paramdecl_name len) ps -> Forall (RefP ParamdeclOk) ps ->
  LocInv len local -> LocInv len local'.
Proof.
  induction ps as [|p r IH]; intros local ps' local' es H HN HO HL; cbn [build_parameters] in H.
  - injection H as _ <- _. exact HL.
  - destruct (build_parameter p pn g local) as [[[p1 local1] oe]|] eqn:E1; cbn [rbind] in H; [|discriminate].
    destruct (build_parameters r pn g local1) as [[[r1 local2] es1]|] eqn:E2; cbn [rbind] in H; [|discriminate].
    injection H as _ <- _. inversion HN as [|? ? N1 N2]; inversion HO as [|? ? O1 O2]; subst.
    exact (IH _ _ _ _ E2 N2 O2 (build_parameter_loc _ _ _ _ _ _ _ _ E1 N1 O1 HL)).
Qed.

Lemma build_variable_loc len v pn g local v' local' :
  build_variable v pn g local = ROk (v', local') ->
  LocalNest vardecl_info vardecl_name len v -> RefP VardeclOk v -> LocInv len local -> LocInv len local'.
Proof.
  destruct v as [vd off]. intros H HN HO HL. unfold build_variable in H.
  destruct vd as [doc [name|] ty inf|inf]; try (injection H as _ <-; exact HL).
  destruct (get_data_type (Some local) (Some g) (Some (anonymous_creator pn name)) ty) as [[ty' dt]|]; cbn [rbind] in H; [|discriminate].
  destruct (enter local (id_val name) _) as [local'' ok] eqn:Een.
  match type of H with rbind ?e _ = _ => destruct e as [name2|] end; cbn [rbind] in H; [|discriminate].
  injection H as _ <-.
  refine (enter_forallb _ _ _ _ _ _ Een HL _). cbn [snd lentry_var].
  apply (local_ventry_ok vardecl_info vardecl_name len _ off name); [exact HN | reflexivity|].
  unfold RefP in HO. cbn [fst VardeclOk OptP] in HO. exact (proj1 HO).
Qed.

Lemma build_variables_loc len pn g : forall vs local vs' local',
  build_variables vs pn g local = ROk (vs', local') ->
  Forall (LocalNest vardecl_info vardecl_name len) vs -> Forall (RefP VardeclOk) vs ->
  LocInv len local -> LocInv len local'.
Proof.
  induction vs as [|v r IH]; intros local vs' local' H HN HO HL; cbn [build_variables] in H.
  - injection H as _ <-. exact HL.
  - destruct (build_variable v pn g local) as [[v1 local1]|] eqn:E1; cbn [rbind] in H; [|discriminate].
    destruct (build_variables r pn g local1) as [[r1 local2]|] eqn:E2; cbn [rbind] in H; [|discriminate].
    injection H as _ <-. inversion HN as [|? ? N1 N2]; inversion HO as [|? ? O1 O2]; subst.
    exact (IH _ _ _ E2 N2 O2 (build_variable_loc _ _ _ _ _ _ _ E1 N1 O1 HL)).
Qed.

(* ---- global entries ---- *)

(* what the build needs to know about one global declaration of the parser's tree *)
Definition DeclFacts (n : nat) (go : gdecl * nat) : Prop :=
  i_s (gdecl_info (fst go)) = 0 /\ snd go + i_e (gdecl_info (fst go)) <= n /\
  GdeclNest (fst go) /\ GdeclOk (fst go).

Lemma build_typedecl_tab n d t off d' t' :
  build_typedecl d t off = ROk (d', t') -> DeclFacts n (GType d, off) -> TabInv n t -> TabInv n t'.
Proof.
  intros H (F1 & F2 & F3 & F4) HT. cbn [fst snd gdecl_info GdeclNest GdeclOk] in *. unfold build_typedecl in H.
  destruct (td_name d) as [name|] eqn:En; [|injection H as _ <-; exact HT].
  destruct (text_eqb (id_val name) s_main).
  { destruct (ident_flag name _) as [name'|]; cbn [rbind] in H; [|discriminate]. injection H as _ <-. exact HT. }
  destruct (get_data_type None (Some t) (Some (id_val name)) (td_ty d)) as [[ty' dt]|]; cbn [rbind] in H; [|discriminate].
  destruct (enter t (id_val name) _) as [table' ok] eqn:Een.
  match type of H with rbind ?e _ = _ => destruct e as [name2|] end; cbn [rbind] in H; [|discriminate].
  injection H as _ <-.
  refine (enter_forallb _ _ _ _ _ _ Een HT _).
  unfold gentry_ok. cbn [fst snd ten_name]. rewrite text_eqb_refl. cbn [andb]. apply orb_true_iff. right.
  unfold TypeNest, TypedeclOk in *. rewrite En in F3, F4. cbn [name_in OptP] in F3, F4. destruct F4 as [F4 _].
  unfold tentry_ok, range_ok, info_ok, range_len, shift_range, info_range, IdOk in *. cbn [fst snd ten_range ten_name].
  rewrite F1, (proj2 (Nat.ltb_lt _ _) F4). rewrite !andb_true_iff, !Nat.leb_le. lia.
Qed.

Lemma build_procdecl_tab n d t off d' t' :
  build_procdecl d t off = ROk (d', t') -> DeclFacts n (GProc d, off) -> TabInv n t -> TabInv n t'.
Proof.
  intros H (F1 & F2 & F3 & F4) HT. cbn [fst snd gdecl_info GdeclNest GdeclOk] in *. unfold build_procdecl in H.
  destruct (pd_name d) as [name|] eqn:En; [|injection H as _ <-; exact HT].
  destruct (build_parameters (pd_params d) (id_val name) t []) as [[[params' local1] parameters]|] eqn:Ep; cbn [rbind] in H; [|discriminate].
  destruct (build_variables (pd_vars d) (id_val name) t local1) as [[vars' local2]|] eqn:Ev; cbn [rbind] in H; [|discriminate].
  destruct (enter t (id_val name) _) as [table' ok] eqn:Een.
  match type of H with rbind ?e _ = _ => destruct e as [name2|] end; cbn [rbind] in H; [|discriminate].
  injection H as _ <-.
  refine (enter_forallb _ _ _ _ _ _ Een HT _).
  unfold gentry_ok. cbn [fst snd pe_name]. rewrite text_eqb_refl. cbn [andb]. apply orb_true_iff. right.
  destruct F3 as (N1 & N2 & N3). destruct F4 as (O1 & O2 & O3 & _). rewrite En in N1, O1. cbn [name_in OptP] in N1, O1.
  assert (HL : LocInv (i_e (pd_info d)) local2).
  { apply (build_variables_loc _ _ _ _ _ _ _ Ev N3 O3). apply (build_parameters_loc _ _ _ _ _ _ _ _ Ep N2 O2). reflexivity. }
  unfold pentry_ok. cbn [pe_range pe_name pe_local].
  assert (Hlen : range_len (shift_range (info_range (pd_info d)) off) = i_e (pd_info d)).
  { unfold range_len, shift_range, info_range. cbn [fst snd]. lia. }
  rewrite Hlen. unfold LocInv in HL. rewrite HL, andb_true_r.
  unfold range_ok, info_ok, shift_range, info_range, IdOk in *. cbn [fst snd].
  rewrite F1, (proj2 (Nat.ltb_lt _ _) O1). rewrite !andb_true_iff, !Nat.leb_le. lia.
Qed.

Lemma build_gdecls_tab n : forall ds t ds' t',
  build_gdecls ds t 0 = ROk (ds', t') -> Forall (DeclFacts n) ds -> TabInv n t -> TabInv n t'.
Proof.
  induction ds as [|[g o] ds IH]; intros t ds' t' H HF HT; cbn [build_gdecls] in H.
  - injection H as _ <-. exact HT.
  - cbn [Nat.add] in H.
    destruct (build_gdecl g t o) as [[g' t1]|] eqn:Eg; cbn [rbind] in H; [|discriminate].
    destruct (build_gdecls ds t1 0) as [[r' t2]|] eqn:Er; cbn [rbind] in H; [|discriminate].
    injection H as _ <-. inversion HF as [|? ? F1 F2]; subst. apply (IH _ _ _ Er F2).
    destruct g as [td|pd|inf]; cbn [build_gdecl] in Eg.
    + destruct (build_typedecl td t o) as [[td' t1']|] eqn:E; cbn [rbind] in Eg; [|discriminate].
      injection Eg as _ <-. exact (build_typedecl_tab n _ _ _ _ _ E F1 HT).
    + destruct (build_procdecl pd t o) as [[pd' t1']|] eqn:E; cbn [rbind] in Eg; [|discriminate].
      injection Eg as _ <-. exact (build_procdecl_tab n _ _ _ _ _ E F1 HT).
    + injection Eg as _ <-. exact HT.
Qed.

Lemma build_res_tab n p p1 table :
  build_res p = ROk (p1, table) -> Forall (DeclFacts n) (pg_decls p) -> TabInv n table.
Proof.
  unfold build_res, build_program.
  destruct (build_gdecls (pg_decls p) initialized 0) as [[ds' table']|] eqn:E; cbn [rbind]; [|discriminate].
  intros H HF. pose proof (build_gdecls_tab n _ _ _ _ E HF (TabInv_initialized n)) as Hr.
  destruct (lookup table' s_main) as [[te|main]|].
  - discriminate.
  - destruct (pe_params main).
    + injection H as _ <-. exact Hr.
    + destruct (to_error _ _); cbn [rbind] in H; [|discriminate]. injection H as _ <-. exact Hr.
  - injection H as _ <-. exact Hr.
Qed.

(* ---- the facts hold for every tree of the parser ---- *)
Lemma spans_facts toks n : forall l a b,
  Spans toks a l b -> b <= n ->
  Forall (fun go : gdecl * nat => GdeclNest (fst go)) l -> Forall (RefP GdeclOk) l -> Forall (DeclFacts n) l.
Proof.
  induction l as [|[g off] r IH]; intros a b Hsp Hb HN HO; [constructor|].
  cbn [Spans] in Hsp. destruct Hsp as (-> & Hs0 & Hpos & _ & Hr). pose proof (Spans_le toks _ _ _ Hr) as Hle.
  inversion HN as [|? ? N1 N2]; inversion HO as [|? ? O1 O2]; subst.
  constructor; [|exact (IH _ _ Hr Hb N2 O2)].
  unfold DeclFacts. cbn [fst snd] in *. repeat split; [exact Hs0 | lia | exact N1 | exact O1].
Qed.

Theorem parse_facts toks prog :
  EofLast toks -> parse toks = Done prog -> Forall (DeclFacts (length toks)) (pg_decls prog).
Proof.
  intros HE H. destruct (parse_sync toks prog HE H) as (Hsp & _ & Hsig).
  apply (spans_facts toks _ _ 0 (i_e (pg_info prog)) Hsp).
  - pose proof (sig_at_ge toks (i_e (pg_info prog))). lia.
  - exact (parse_nest toks prog H).
  - exact (parse_idents_nonempty toks prog H).
Qed.

Theorem new_doc_table_ok t d : new_doc_res t = ODone d -> forallb (gentry_ok (length (d_toks d))) (d_table d) = true.
Proof.
  intros H. destruct (new_doc_shape t d H) as (_ & _ & HE & _ & p & p1 & Hp & Hb & _).
  exact (build_res_tab _ _ _ _ Hb (parse_facts _ _ HE Hp)).
Qed.
