(* The text half of the rename round trip: a text cut into pieces, some of them flagged; the edits
   "replace every flagged piece by [new]" (LSP position ranges computed in the original text), sorted
   by descending start and applied one after the other by Doc.apply_changes, yield the text with every
   flagged piece replaced. *)
From Coq Require Import Lia Bool List NArith.
From Spl Require Import Model.Doc Proofs.DocProofs Model.Cursor Spec.Nav Proofs.SemTokProofs.
Import ListNotations.
Local Open Scope N_scope.

(* a text cut into consecutive pieces; the flagged pieces are the ones an edit replaces *)
Definition seg_text (segs : list (text * bool)) : text := concat (map fst segs).
Definition seg_subst (new : text) (segs : list (text * bool)) : text :=
  concat (map (fun sg : text * bool => if snd sg then new else fst sg) segs).
(* the byte ranges of the flagged pieces, in text order; off = byte offset of the first piece *)
Fixpoint seg_ranges (off : N) (segs : list (text * bool)) : list (N * N) :=
  match segs with
  | [] => []
  | sg :: r => (if snd sg then [(off, off + blen (fst sg))] else []) ++ seg_ranges (off + blen (fst sg)) r
  end.
(* a flagged piece is non-empty and contains no CR / LF *)
Definition seg_ok (sg : text * bool) : Prop :=
  snd sg = true -> fst sg <> [] /\ forallb (fun c => negb (isnl c)) (fst sg) = true.


(* ------------------------------------------------------------------------------------------ *)
(* 1. sorting: a list whose later elements never start before earlier ones is reversed          *)

Lemma insert_desc_last x l :
  Forall (fun y => loc_start_ltb y x = false) l -> insert_desc x l = l ++ [x].
Proof.
  induction 1 as [|y r Hy Hr IH]; cbn [insert_desc app]; [reflexivity|]. now rewrite Hy, IH.
Qed.

Lemma sort_desc_rev l :
  ForallOrdPairs (fun a b => loc_start_ltb b a = false) l -> fold_right insert_desc [] l = rev l.
Proof.
  induction 1 as [|a l Ha Hl IH]; cbn [fold_right rev]; [reflexivity|].
  rewrite IH. apply insert_desc_last. apply Forall_rev. exact Ha.
Qed.

Lemma pos_le_not_ltb (a b : loc) : pos_le (fst a) (fst b) -> loc_start_ltb b a = false.
Proof.
  unfold loc_start_ltb, pos_le. intros H.
  destruct (fst (fst b) <? fst (fst a)) eqn:E1; cbn [orb]; [b2p; lia|].
  destruct (fst (fst b) =? fst (fst a)) eqn:E2; cbn [andb]; [|reflexivity].
  destruct (snd (fst b) <? snd (fst a)) eqn:E3; [b2p; lia | reflexivity].
Qed.

Lemma FOP_map_impl {A B} (f : A -> B) (R : A -> A -> Prop) (R' : B -> B -> Prop) l :
  (forall a b, R a b -> R' (f a) (f b)) -> ForallOrdPairs R l -> ForallOrdPairs R' (map f l).
Proof.
  intros HR. induction 1 as [|a l Ha Hl IH]; cbn [map]; constructor; [|exact IH].
  apply Forall_map. eapply Forall_impl; [|exact Ha]. intros b Hb. now apply HR.
Qed.

(* byte ranges with weakly increasing starts: their position ranges come out reversed *)
Lemma sort_pos_ranges t (rs : list (N * N)) :
  ForallOrdPairs (fun a b => fst a <= fst b) rs ->
  fold_right insert_desc [] (map (fun r => pos_range r t) rs) = rev (map (fun r => pos_range r t) rs).
Proof.
  intros H. apply sort_desc_rev.
  apply (FOP_map_impl (fun r => pos_range r t) (fun a b => fst a <= fst b)); [|exact H].
  intros a b Hab. apply pos_le_not_ltb. unfold pos_range. cbn [fst].
  now apply as_position_mono.
Qed.

Lemma seg_ranges_ge segs : forall off, Forall (fun r => off <= fst r) (seg_ranges off segs).
Proof.
  induction segs as [|sg r IH]; intros off; cbn [seg_ranges]; [constructor|].
  apply Forall_app. split.
  - destruct (snd sg); constructor; [cbn [fst]; lia | constructor].
  - eapply Forall_impl; [|apply IH]. cbn beta. intros a Ha. lia.
Qed.

Lemma seg_ranges_sorted segs : forall off,
  ForallOrdPairs (fun a b => fst a <= fst b) (seg_ranges off segs).
Proof.
  induction segs as [|sg r IH]; intros off; cbn [seg_ranges]; [constructor|].
  destruct (snd sg); cbn [app]; [|apply IH].
  constructor; [|apply IH].
  eapply Forall_impl; [|apply seg_ranges_ge]. cbn [fst]. intros a Ha. lia.
Qed.

(* ------------------------------------------------------------------------------------------ *)
(* 2. as_position does not depend on the text behind the index                                  *)

Lemma pos_from_past b b' idx line ch i :
  idx <= i -> pos_from idx line ch i b = pos_from idx line ch i b'.
Proof.
  intros H.
  assert (E : forall s, pos_from idx line ch i s = (line, ch)).
  { intros [|c r]; [reflexivity|]. rewrite pos_cons.
    replace (idx <=? i) with true by (symmetry; apply N.leb_le; exact H). reflexivity. }
  now rewrite (E b), (E b').
Qed.

Lemma step_indep c r r' line ch :
  (c = 13 -> lf_next r = lf_next r') -> step c r line ch = step c r' line ch.
Proof.
  unfold step. intros H. destruct (c =? 10); [reflexivity|].
  destruct (c =? 13) eqn:E; [|reflexivity]. b2p. now rewrite (H E).
Qed.

Lemma pos_from_behind a : forall b b' idx line ch i,
  idx <= i + blen a -> last a 0 <> 13 ->
  pos_from idx line ch i (a ++ b) = pos_from idx line ch i (a ++ b').
Proof.
  induction a as [|c a IH]; intros b b' idx line ch i Hidx Hlast.
  - cbn [app blen] in *. apply pos_from_past. lia.
  - cbn [app]. rewrite !pos_cons. destruct (idx <=? i); [reflexivity|].
    assert (Hs : step c (a ++ b) line ch = step c (a ++ b') line ch).
    { apply step_indep. intros ->.
      destruct a as [|c2 a']; [cbn [last] in Hlast; congruence | reflexivity]. }
    rewrite Hs. apply IH.
    + cbn [blen] in Hidx. lia.
    + destruct a as [|c2 a']; [cbn [last]; lia | exact Hlast].
Qed.

(* a = [] or a does not end with CR *)
Lemma as_position_behind a b b' idx :
  idx <= blen a -> last a 0 <> 13 -> as_position idx (a ++ b) = as_position idx (a ++ b').
Proof. intros H1 H2. apply pos_from_behind; [lia | exact H2]. Qed.

(* ------------------------------------------------------------------------------------------ *)
(* 3. one edit: the range was computed in a text that differs behind the piece only            *)

Definition piece_ok (m : text) : Prop := m <> [] /\ forallb (fun c => negb (isnl c)) m = true.

Lemma piece_last x m : piece_ok m -> last (x ++ m) 0 <> 13.
Proof.
  intros [Hne Hnl]. destruct (exists_last Hne) as [m' [c ->]].
  rewrite app_assoc, last_last. rewrite forallb_app in Hnl. cbn [forallb] in Hnl.
  intros ->. b2p. discriminate.
Qed.

Lemma apply_change_piece x m y y0 new :
  piece_ok m ->
  apply_change (x ++ m ++ y)
    {| crange := Some (pos_range (blen x, blen x + blen m) (x ++ m ++ y0)); ctext := new |}
  = Some (x ++ new ++ y).
Proof.
  intros Hm. pose proof (piece_last x m Hm) as Hlast. destruct Hm as [Hne Hnl].
  assert (E1 : as_position (blen x) (x ++ m ++ y0) = as_position (blen x) (x ++ m ++ y)).
  { rewrite !app_assoc. apply as_position_behind; [rewrite blen_app; lia | exact Hlast]. }
  assert (E2 : as_position (blen x + blen m) (x ++ m ++ y0)
               = as_position (blen x + blen m) (x ++ m ++ y)).
  { rewrite !app_assoc. apply as_position_behind; [rewrite blen_app; lia | exact Hlast]. }
  assert (H1 : ~ (exists a' b', x = a' ++ [13] /\ m ++ y = 10 :: b')).
  { intros [a' [b' [_ E]]]. destruct m as [|c m']; [congruence|].
    cbn [app] in E. injection E as -> _. cbn [forallb] in Hnl. b2p. discriminate. }
  assert (H2 : ~ (exists a' b', x ++ m = a' ++ [13] /\ y = 10 :: b')).
  { intros [a' [b' [E _]]]. rewrite E, last_last in Hlast. congruence. }
  assert (R1 : get_insertion_index (fst (as_position (blen x) (x ++ m ++ y)))
                 (snd (as_position (blen x) (x ++ m ++ y))) (x ++ m ++ y) = blen x)
    by exact (roundtrip x (m ++ y) H1).
  assert (R2 : get_insertion_index (fst (as_position (blen x + blen m) (x ++ m ++ y)))
                 (snd (as_position (blen x + blen m) (x ++ m ++ y))) (x ++ m ++ y)
               = blen x + blen m).
  { pose proof (roundtrip (x ++ m) y H2) as R2. cbv zeta in R2.
    rewrite blen_app, <- app_assoc in R2. exact R2. }
  unfold pos_range. cbn [fst snd]. rewrite E1, E2. revert R1 R2.
  destruct (as_position (blen x) (x ++ m ++ y)) as [l1 c1].
  destruct (as_position (blen x + blen m) (x ++ m ++ y)) as [l2 c2].
  cbn [fst snd]. intros R1 R2.
  unfold apply_change. cbn [crange ctext]. rewrite R1, R2. apply replace_bytes_app.
Qed.

(* ------------------------------------------------------------------------------------------ *)
(* 4. all edits, last piece first                                                               *)

Lemma apply_changes_app l1 : forall t l2,
  apply_changes t (l1 ++ l2)
  = match apply_changes t l1 with Some t' => apply_changes t' l2 | None => None end.
Proof.
  induction l1 as [|ch l1 IH]; intros t l2; cbn [app apply_changes]; [reflexivity|].
  destruct (apply_change t ch) as [t'|]; [apply IH | reflexivity].
Qed.

Lemma seg_text_cons sg r : seg_text (sg :: r) = fst sg ++ seg_text r.
Proof. reflexivity. Qed.
Lemma seg_subst_cons new sg r :
  seg_subst new (sg :: r) = (if snd sg then new else fst sg) ++ seg_subst new r.
Proof. reflexivity. Qed.

Lemma apply_segs_rev new segs : forall pre,
  Forall seg_ok segs ->
  apply_changes (pre ++ seg_text segs)
    (map (fun r => {| crange := Some r; ctext := new |})
       (rev (map (fun r => pos_range r (pre ++ seg_text segs)) (seg_ranges (blen pre) segs))))
  = Some (pre ++ seg_subst new segs).
Proof.
  induction segs as [|[m f] r IH]; intros pre Hok; [reflexivity|].
  inversion Hok as [|sg0 r0 Hsg Hr]; subst sg0 r0.
  rewrite seg_text_cons, seg_subst_cons. cbn [seg_ranges fst snd].
  rewrite map_app, rev_app_distr, map_app, apply_changes_app.
  specialize (IH (pre ++ m) Hr). rewrite blen_app, <- !app_assoc in IH. rewrite IH.
  destruct f; cbn [map rev app apply_changes]; [|reflexivity].
  rewrite apply_change_piece; [reflexivity|]. exact (Hsg eq_refl).
Qed.

Theorem apply_rename_segs : forall (segs : list (text * bool)) (new : text),
  Forall seg_ok segs ->
  apply_rename (seg_text segs) (map (fun r => pos_range r (seg_text segs)) (seg_ranges 0 segs)) new
  = Some (seg_subst new segs).
Proof.
  intros segs new Hok. unfold apply_rename.
  rewrite sort_pos_ranges by apply seg_ranges_sorted.
  exact (apply_segs_rev new segs [] Hok).
Qed.

Print Assumptions apply_rename_segs.
