(* C09 "same diagnostics" for programs with comments, the RANGES, part 3: the nodes of the mandated tree.

   [phi] maps a token index to the number of non-comment tokens in front of it.  [seg phi a A ks]: the tokens ks sit at
   index a, and A non-comment tokens precede them.  For the tree [expected p] that the grammar mandates, the positions
   of the nodes (Proofs/FormatRangesNodes.v) mapped through phi are [cr_* A x] - a function of the abstract syntax that
   does not look at any comment slot ([xr_*]); so it is the same for x and for what [kept] makes of x ([cr_k_*]):
   emptying comment slots and hoisting comments does not move any node relative to the non-comment tokens.
   The range of a node starts at the first comment in front of its first token - phi sends that index and the index
   of the first token itself to the same number; the last token of an identifier is the identifier. *)
From Coq Require Import String List Lia PeanoNat.
From Spl Require Import Model.Errors Spec.Grammar Proofs.FormatStructText Proofs.FormatStructTok Proofs.FormatStructExpr Proofs.FormatStructStmt
  Proofs.FormatAnyPP Proofs.FormatAnyKept Proofs.FormatRangesNodes.
From Spl Require Proofs.GrammarExpr Proofs.GrammarStmt.
Import ListNotations.
Local Open Scope nat_scope.

(* ================================================================================================
   1. Counting non-comment tokens
   ================================================================================================ *)
Definition cl (ks : list kind) : nat := length (code ks).

Lemma cl_app a b : cl (a ++ b) = cl a + cl b.
Proof. unfold cl. rewrite code_app, app_length. reflexivity. Qed.
Lemma cl_cm c : cl (cm c) = 0.
Proof. unfold cl. rewrite code_cm. reflexivity. Qed.
Lemma cl_cons k r : is_comment k = false -> cl (k :: r) = S (cl r).
Proof. intros H. unfold cl. rewrite (code_cons k r H). reflexivity. Qed.
Lemma cl_code ks : cl (code ks) = cl ks.
Proof. unfold cl. rewrite code_idem. reflexivity. Qed.

Definition seg (phi : nat -> nat) (a A : nat) (ks : list kind) : Prop :=
  forall m, m <= length ks -> phi (a + m) = A + cl (firstn m ks).

Lemma seg_eq phi a a' A A' ks : a = a' -> A = A' -> seg phi a A ks -> seg phi a' A' ks.
Proof. intros -> ->. exact (fun H => H). Qed.

Lemma seg_start phi a A ks : seg phi a A ks -> forall n, n = a -> phi n = A.
Proof. intros H n ->. specialize (H 0 (Nat.le_0_l _)). rewrite Nat.add_0_r in H. rewrite H. cbn [firstn]. unfold cl. cbn. lia. Qed.

Lemma seg_end phi a A ks : seg phi a A ks -> forall n, n = a + length ks -> phi n = A + cl ks.
Proof. intros H n ->. rewrite (H (length ks) (le_n _)), firstn_all. reflexivity. Qed.

Lemma seg_app phi a A x y : seg phi a A (x ++ y) -> seg phi a A x /\ seg phi (a + length x) (A + cl x) y.
Proof.
  intros H. split; intros m Hm.
  - rewrite (H m) by (rewrite app_length; lia). rewrite firstn_app. replace (m - length x) with 0 by lia. cbn [firstn]. rewrite app_nil_r. reflexivity.
  - rewrite <- Nat.add_assoc, (H (length x + m)) by (rewrite app_length; lia). rewrite firstn_app_2, cl_app. lia.
Qed.

Lemma seg_cons phi a A k y : seg phi a A (k :: y) -> is_comment k = false -> seg phi (a + 1) (A + 1) y.
Proof.
  intros H Hk. destruct (seg_app phi a A [k] y H) as [_ H2]. cbn [length] in H2. rewrite (cl_cons k [] Hk) in H2. exact H2.
Qed.

(* split a segment hypothesis along the pieces of a flattened construct *)
Ltac seg_dec H :=
  lazymatch type of H with
  | seg _ _ _ (_ ++ _) =>
      let H1 := fresh "S" in let H2 := fresh "S" in
      destruct (seg_app _ _ _ _ _ H) as [H1 H2]; seg_dec H2
  | seg _ _ _ (_ :: _) =>
      let H2 := fresh "S" in
      assert (H2 := seg_cons _ _ _ _ _ H);
      match type of H2 with ?P -> _ => let E := fresh "E" in assert (E : P) by nc; specialize (H2 E); clear E end;
      seg_dec H2
  | _ => idtac
  end.

(* the facts lia needs about comment slots *)
Ltac cm_facts :=
  repeat match goal with
         | c : cs |- _ =>
             lazymatch goal with
             | _ : length (cm c) = length c |- _ => fail
             | _ => pose proof (cm_length c); pose proof (cl_cm c)
             end
         end.

(* phi at a boundary of a known segment *)
Ltac phi_tac :=
  match goal with
  | S : seg ?phi _ _ _ |- ?phi _ = _ =>
      first [ rewrite (seg_start _ _ _ _ S) by lia | rewrite (seg_end _ _ _ _ S) by lia ]; lia
  end.

Ltac seg_tac :=
  match goal with
  | S : seg ?phi ?a ?A ?ks |- seg ?phi ?a' ?A' ?ks => apply (seg_eq phi a a' A A' ks); [lia | lia | exact S]
  end.

Definition mt (phi : nat -> nat) (t : tri) : tri := match t with (s, p, e) => (phi s, phi p, phi e) end.

Notation pos phi l := (map (mt phi) (map fst l)).

Lemma pos_app phi (l1 l2 : list node) : pos phi (l1 ++ l2) = pos phi l1 ++ pos phi l2.
Proof. rewrite !map_app. reflexivity. Qed.

(* the node of an AstInfo / of an identifier of the mandated tree *)
Ltac tri_tac :=
  unfold nd, ndi, x_ident, x_lit, mt, mkinfo; cbn [fst id_info il_info i_s i_e length]; repeat (f_equal; try phi_tac).

(* ================================================================================================
   2. Expressions
   ================================================================================================ *)
Fixpoint cr_var (A : nat) (v : avar) : list tri :=
  match v with
  | AName _ _ => [(A, A, A + 1)]
  | AIndex v' _ e _ => (A, A, A + cl (fl_var v)) :: cr_var A v' ++ cr_cmp (A + cl (fl_var v') + 1) e
  end
with cr_fac (A : nat) (f : afac) : list tri :=
  match f with
  | FLit _ _ => [(A, A, A + 1)]
  | FVar v => cr_var A v
  | FNeg _ f' => (A, A, A + cl (fl_fac f)) :: cr_fac (A + 1) f'
  | FPar _ e _ => (A, A, A + cl (fl_fac f)) :: cr_cmp (A + 1) e
  end
with cr_mul (A : nat) (m : amul) : list tri :=
  match m with
  | MFac f => cr_fac A f
  | MBin m' _ _ f => (A, A, A + cl (fl_mul m)) :: cr_mul A m' ++ cr_fac (A + cl (fl_mul m') + 1) f
  end
with cr_add (A : nat) (a : aadd) : list tri :=
  match a with
  | AMul m => cr_mul A m
  | ABin a' _ _ m => (A, A, A + cl (fl_add a)) :: cr_add A a' ++ cr_mul (A + cl (fl_add a') + 1) m
  end
with cr_cmp (A : nat) (e : acmp) : list tri :=
  match e with
  | CAdd a => cr_add A a
  | CBin l _ _ r => (A, A, A + cl (fl_cmp e)) :: cr_add A l ++ cr_add (A + cl (fl_add l) + 1) r
  end.

Ltac xr_start H H0 :=
  pose proof H as H0;
  cbn [fl_var fl_fac fl_mul fl_add fl_cmp fl_type fl_stmt fl_stmts] in H; seg_dec H; cm_facts.

Ltac xr_ih :=
  match goal with
  | IH : forall (phi : nat -> nat) (b o A : nat), seg _ _ _ _ -> _ |- _ => apply IH; seg_tac
  end.

Lemma xr_expr :
  (forall v phi b o A, seg phi (b + o) A (fl_var v) -> pos phi (nd_var b (x_var o v)) = cr_var A v) /\
  (forall f phi b o A, seg phi (b + o) A (fl_fac f) -> pos phi (nd_expr b (x_fac o f)) = cr_fac A f) /\
  (forall m phi b o A, seg phi (b + o) A (fl_mul m) -> pos phi (nd_expr b (x_mul o m)) = cr_mul A m) /\
  (forall a phi b o A, seg phi (b + o) A (fl_add a) -> pos phi (nd_expr b (x_add o a)) = cr_add A a) /\
  (forall e phi b o A, seg phi (b + o) A (fl_cmp e) -> pos phi (nd_expr b (x_cmp o e)) = cr_cmp A e).
Proof.
  apply GrammarExpr.aexpr_mutind.
  - intros c x phi b o A H. xr_start H H0. cbn [x_var nd_var cr_var map]. f_equal. tri_tac.
  - intros v IHv c1 e IHe c2 phi b o A H. xr_start H H0. cbn [x_var nd_var cr_var map]. rewrite !map_app. f_equal; [tri_tac|]. f_equal; xr_ih.
  - intros c l phi b o A H. xr_start H H0. cbn [x_fac nd_expr cr_fac map]. f_equal. tri_tac.
  - intros v IHv phi b o A H. cbn [x_fac nd_expr cr_fac]. apply IHv. exact H.
  - intros c f IHf phi b o A H. xr_start H H0. cbn [x_fac nd_expr cr_fac map]. f_equal; [tri_tac | xr_ih].
  - intros c1 e IHe c2 phi b o A H. xr_start H H0. cbn [x_fac nd_expr cr_fac map]. f_equal; [tri_tac | xr_ih].
  - intros f IHf phi b o A H. cbn [x_mul cr_mul]. apply IHf. exact H.
  - intros m IHm c op f IHf phi b o A H. xr_start H H0. cbn [x_mul nd_expr cr_mul map]. rewrite !map_app. f_equal; [tri_tac|]. f_equal; xr_ih.
  - intros m IHm phi b o A H. cbn [x_add cr_add]. apply IHm. exact H.
  - intros a IHa c op m IHm phi b o A H. xr_start H H0. cbn [x_add nd_expr cr_add map]. rewrite !map_app. f_equal; [tri_tac|]. f_equal; xr_ih.
  - intros a IHa phi b o A H. cbn [x_cmp cr_cmp]. apply IHa. exact H.
  - intros l IHl c op r IHr phi b o A H. xr_start H H0. cbn [x_cmp nd_expr cr_cmp map]. rewrite !map_app. f_equal; [tri_tac|]. f_equal; xr_ih.
Qed.

Lemma xr_var v phi b o A : seg phi (b + o) A (fl_var v) -> pos phi (nd_var b (x_var o v)) = cr_var A v.
Proof. apply xr_expr. Qed.
Lemma xr_cmp e phi b o A : seg phi (b + o) A (fl_cmp e) -> pos phi (nd_expr b (x_cmp o e)) = cr_cmp A e.
Proof. apply xr_expr. Qed.
Lemma xr_cmp0 e phi b A : seg phi b A (fl_cmp e) -> pos phi (nd_expr b (x_cmp 0 e)) = cr_cmp A e.
Proof. intros H. apply xr_cmp. rewrite Nat.add_0_r. exact H. Qed.

(* ================================================================================================
   3. Type expressions, comma-separated lists
   ================================================================================================ *)
Fixpoint cr_type (A : nat) (t : atype) : list tri :=
  match t with
  | TName _ _ => [(A, A, A + 1)]
  | TArr _ _ _ _ _ _ base => (A, A, A + cl (fl_type t)) :: cr_type (A + 5) base
  end.

Lemma xr_type t : forall phi b o A, seg phi (b + o) A (fl_type t) -> pos phi (nd_texpr b (x_type o t)) = cr_type A t.
Proof.
  induction t as [c x|ca cl0 cz size cr co base IH]; intros phi b o A H; xr_start H H0; cbn [x_type nd_texpr cr_type map]; cbv zeta.
  - f_equal. tri_tac.
  - cbn [nd_texpr map]. f_equal; [tri_tac | xr_ih].
Qed.

Lemma xr_type0 t phi b A : seg phi b A (fl_type t) -> pos phi (nd_texpr b (x_type 0 t)) = cr_type A t.
Proof. intros H. apply xr_type. rewrite Nat.add_0_r. exact H. Qed.

Fixpoint cr_tail {T} (fl : T -> list kind) (cr : nat -> T -> list tri) (A : nat) (l : list (cs * T)) : list tri :=
  match l with
  | [] => []
  | (_, a) :: r => cr (A + 1) a ++ cr_tail fl cr (A + 1 + cl (fl a)) r
  end.
Definition cr_sep {T} (fl : T -> list kind) (cr : nat -> T -> list tri) (A : nat) (o : option (T * list (cs * T))) : list tri :=
  match o with None => [] | Some (a, r) => cr A a ++ cr_tail fl cr (A + cl (fl a)) r end.

Section Sep.
Context {T U : Type} (fl : T -> list kind) (x : T -> U) (f : nat -> U -> list node) (cr : nat -> T -> list tri).
Hypothesis Hx : forall a phi b A, seg phi b A (fl a) -> pos phi (f b (x a)) = cr A a.

Lemma xr_tail l : forall phi b o A, seg phi (b + o) A (fl_tail fl l) -> pos phi (nd_refs f b (x_tail fl x o l)) = cr_tail fl cr A l.
Proof.
  induction l as [|[c a] r IH]; intros phi b o A H; [reflexivity|]. rewrite fl_tail_cons in H. seg_dec H. cm_facts.
  cbn [x_tail cr_tail]. unfold nd_refs. cbn [flat_map fst snd]. fold (nd_refs f b (x_tail fl x (o + length c + 1 + length (fl a)) r)).
  rewrite pos_app. f_equal; [apply Hx; seg_tac | apply IH; seg_tac].
Qed.

Lemma xr_sep ps phi b o A : seg phi (b + o) A (fl_sep fl ps) -> pos phi (nd_refs f b (x_sep fl x o ps)) = cr_sep fl cr A ps.
Proof.
  destruct ps as [[a l]|]; [|reflexivity]. cbn [fl_sep x_sep cr_sep]. intros H. seg_dec H.
  unfold nd_refs. cbn [flat_map fst snd]. fold (nd_refs f b (x_tail fl x (o + length (fl a)) l)).
  rewrite pos_app. f_equal; [apply Hx; seg_tac | apply xr_tail; seg_tac].
Qed.
End Sep.

(* ================================================================================================
   4. Statements
   ================================================================================================ *)
Fixpoint cr_stmt (A : nat) (s : astmt) : list tri :=
  match s with
  | SEmp _ => [(A, A, A + cl (fl_stmt s))]
  | SAsg v _ e _ => (A, A, A + cl (fl_stmt s)) :: cr_var A v ++ cr_cmp (A + cl (fl_var v) + 1) e
  | SCal _ _ _ a _ _ => (A, A, A + cl (fl_stmt s)) :: (A, A, A + 1) :: cr_sep fl_cmp cr_cmp (A + 2) a
  | SIfT _ _ e _ t => (A, A, A + cl (fl_stmt s)) :: cr_cmp (A + 2) e ++ cr_stmt (A + 2 + cl (fl_cmp e) + 1) t
  | SIfE _ _ e _ t _ s' =>
      (A, A, A + cl (fl_stmt s)) :: cr_cmp (A + 2) e ++ cr_stmt (A + 2 + cl (fl_cmp e) + 1) t
      ++ cr_stmt (A + 2 + cl (fl_cmp e) + 1 + cl (fl_stmt t) + 1) s'
  | SWhl _ _ e _ t => (A, A, A + cl (fl_stmt s)) :: cr_cmp (A + 2) e ++ cr_stmt (A + 2 + cl (fl_cmp e) + 1) t
  | SBlk _ b _ => (A, A, A + cl (fl_stmt s)) :: cr_stmts (A + 1) b
  end
with cr_stmts (A : nat) (b : astmts) : list tri :=
  match b with SNil => [] | SCons s r => cr_stmt A s ++ cr_stmts (A + cl (fl_stmt s)) r end.

Ltac xr_sub := first [ xr_ih | apply xr_var; seg_tac | apply xr_cmp0; seg_tac ].

Lemma xr_stmt_all :
  (forall s phi b o A, seg phi (b + o) A (fl_stmt s) -> pos phi (nd_stmt b (x_stmt o s)) = cr_stmt A s) /\
  (forall bl phi b o A, seg phi (b + o) A (fl_stmts bl) -> pos phi (nd_refs nd_stmt b (x_stmts o bl)) = cr_stmts A bl).
Proof.
  apply GrammarStmt.astmt_mutind.
  - intros c phi b o A H. xr_start H H0. cbn [x_stmt nd_stmt cr_stmt map]. f_equal. tri_tac.
  - intros v c1 e c2 phi b o A H. xr_start H H0. cbn [x_stmt nd_stmt nd_oexpr cr_stmt map]. rewrite !map_app. f_equal; [tri_tac|]. f_equal; xr_sub.
  - intros c1 fn c2 a c3 c4 phi b o A H. xr_start H H0. cbn [x_stmt nd_stmt cr_stmt map]. f_equal; [tri_tac|]. f_equal; [tri_tac|].
    apply (xr_sep fl_cmp (x_cmp 0) nd_expr cr_cmp xr_cmp0). seg_tac.
  - intros c1 c2 e c3 t IHt phi b o A H. xr_start H H0. cbn [x_stmt cr_stmt]. cbv zeta. rewrite nd_stmt_if. cbn [nd_oexpr nd_ostmt map].
    rewrite !map_app. f_equal; [tri_tac|]. f_equal; [xr_sub|]. cbn [app]. rewrite app_nil_r. xr_sub.
  - intros c1 c2 e c3 t IHt c4 s' IHs phi b o A H. xr_start H H0. cbn [x_stmt cr_stmt]. cbv zeta. rewrite nd_stmt_if. cbn [nd_oexpr nd_ostmt map].
    rewrite !map_app. f_equal; [tri_tac|]. f_equal; [xr_sub|]. f_equal; [apply IHt; seg_tac | apply IHs; seg_tac].
  - intros c1 c2 e c3 t IHt phi b o A H. xr_start H H0. cbn [x_stmt cr_stmt]. cbv zeta. rewrite nd_stmt_while. cbn [nd_oexpr nd_ostmt map].
    rewrite !map_app. f_equal; [tri_tac|]. f_equal; xr_sub.
  - intros c1 bl IHb c2 phi b o A H. xr_start H H0. cbn [x_stmt cr_stmt]. rewrite nd_stmt_block. cbn [map]. f_equal; [tri_tac | xr_ih].
  - intros phi b o A H. reflexivity.
  - intros s IHs r IHr phi b o A H. xr_start H H0. cbn [x_stmts cr_stmts]. unfold nd_refs. cbn [flat_map fst snd].
    fold (nd_refs nd_stmt b (x_stmts (o + length (fl_stmt s)) r)). rewrite pos_app. f_equal; [apply IHs; seg_tac | apply IHr; seg_tac].
Qed.

Lemma xr_stmts bl phi b o A : seg phi (b + o) A (fl_stmts bl) -> pos phi (nd_refs nd_stmt b (x_stmts o bl)) = cr_stmts A bl.
Proof. apply xr_stmt_all. Qed.

(* ================================================================================================
   5. Parameters, variable declarations, declarations
   ================================================================================================ *)
Definition cr_param (A : nat) (p : aparam) : list tri :=
  match p with
  | PVal _ _ _ t => (A, A, A + cl (fl_param p)) :: (A, A, A + 1) :: cr_type (A + 2) t
  | PRef _ _ _ _ t => (A, A, A + cl (fl_param p)) :: (A + 1, A + 1, A + 2) :: cr_type (A + 3) t
  end.

Lemma xr_param p phi b A : seg phi b A (fl_param p) -> pos phi (nd_paramdecl b (x_param p)) = cr_param A p.
Proof.
  intros H. pose proof H as H0. destruct p as [c x cc t|cr c x cc t]; cbn [fl_param] in H; seg_dec H; cm_facts;
    cbn [x_param nd_paramdecl nd_oid nd_oty cr_param map app]; (f_equal; [tri_tac|]); (f_equal; [tri_tac|]); apply xr_type0; seg_tac.
Qed.

Definition cr_vardecl (A : nat) (v : avardecl) : list tri :=
  (A, A, A + cl (fl_vardecl v)) :: (A + 1, A + 1, A + 2) :: cr_type (A + 3) (v_t v).

Lemma xr_vardecl v phi b A : seg phi b A (fl_vardecl v) -> pos phi (nd_vardecl b (x_vardecl v)) = cr_vardecl A v.
Proof.
  intros H. pose proof H as H0. destruct v as [c1 c2 x c3 t c4]. unfold fl_vardecl in H. cbn [v_c1 v_c2 v_x v_c3 v_t v_c4] in H. seg_dec H. cm_facts.
  unfold x_vardecl, cr_vardecl. cbn [v_c1 v_c2 v_x v_c3 v_t v_c4 nd_vardecl nd_oid nd_oty map app].
  (f_equal; [tri_tac|]); (f_equal; [tri_tac|]); apply xr_type0; seg_tac.
Qed.

Fixpoint cr_vardecls (A : nat) (l : list avardecl) : list tri :=
  match l with [] => [] | v :: r => cr_vardecl A v ++ cr_vardecls (A + cl (fl_vardecl v)) r end.

Lemma xr_vardecls l : forall phi b o A, seg phi (b + o) A (flat_map fl_vardecl l) -> pos phi (nd_refs nd_vardecl b (x_vardecls o l)) = cr_vardecls A l.
Proof.
  induction l as [|v r IH]; intros phi b o A H; [reflexivity|]. cbn [flat_map] in H. seg_dec H.
  cbn [x_vardecls cr_vardecls]. unfold nd_refs. cbn [flat_map fst snd]. fold (nd_refs nd_vardecl b (x_vardecls (o + length (fl_vardecl v)) r)).
  rewrite pos_app. f_equal; [apply xr_vardecl; seg_tac | apply IH; seg_tac].
Qed.

Definition cr_decl (A : nat) (d : adecl) : list tri :=
  match d with
  | DType _ _ _ _ t _ => (A, A, A + cl (fl_decl d)) :: (A + 1, A + 1, A + 2) :: cr_type (A + 3) t
  | DProc _ _ _ _ ps _ _ vs b _ =>
      (A, A, A + cl (fl_decl d)) :: (A + 1, A + 1, A + 2) :: cr_sep fl_param cr_param (A + 3) ps
      ++ cr_vardecls (A + 3 + cl (fl_sep fl_param ps) + 2) vs
      ++ cr_stmts (A + 3 + cl (fl_sep fl_param ps) + 2 + cl (flat_map fl_vardecl vs)) b
  end.

Lemma xr_decl d phi b A : seg phi b A (fl_decl d) -> pos phi (nd_gdecl b (x_decl d)) = cr_decl A d.
Proof.
  intros H. pose proof H as H0. destruct d as [c1 c2 x c3 t c4|c1 c2 x c3 ps c4 c5 vs bl c6]; cbn [fl_decl] in H; seg_dec H; cm_facts.
  - cbn [x_decl nd_gdecl td_info td_name td_ty nd_oid nd_oty cr_decl map app].
    (f_equal; [tri_tac|]); (f_equal; [tri_tac|]); apply xr_type0; seg_tac.
  - cbn [x_decl cr_decl]. cbv zeta. cbn [nd_gdecl pd_info pd_name pd_params pd_vars pd_stmts nd_oid map app].
    (f_equal; [tri_tac|]); (f_equal; [tri_tac|]). rewrite !pos_app. f_equal; [|f_equal].
    + apply (xr_sep fl_param x_param nd_paramdecl cr_param xr_param). seg_tac.
    + apply xr_vardecls. seg_tac.
    + apply xr_stmts. seg_tac.
Qed.

Fixpoint cr_decls (A : nat) (l : list adecl) : list tri :=
  match l with [] => [] | d :: r => cr_decl A d ++ cr_decls (A + cl (fl_decl d)) r end.

Theorem xr_decls l : forall phi o A, seg phi o A (flat_map fl_decl l) -> pos phi (nd_refs nd_gdecl 0 (x_decls o l)) = cr_decls A l.
Proof.
  induction l as [|d r IH]; intros phi o A H; [reflexivity|]. cbn [flat_map] in H. seg_dec H.
  cbn [x_decls cr_decls]. unfold nd_refs. cbn [flat_map fst snd Nat.add]. fold (nd_refs nd_gdecl 0 (x_decls (o + length (fl_decl d)) r)).
  rewrite pos_app. f_equal; [apply xr_decl; seg_tac | apply IH; seg_tac].
Qed.

(* ================================================================================================
   6. [kept] does not move a node relative to the non-comment tokens
   ================================================================================================ *)
Lemma sub_cl ks' ks : sub ks' ks -> cl ks' = cl ks.
Proof. intros [H _]. unfold cl. rewrite H. reflexivity. Qed.

Lemma cl_s_var v : cl (fl_var (s_var v)) = cl (fl_var v).
Proof. rewrite fl_s_var. apply cl_code. Qed.
Lemma cl_s_fac f : cl (fl_fac (s_fac f)) = cl (fl_fac f).
Proof. rewrite (proj1 (proj2 fl_s_expr)). apply cl_code. Qed.
Lemma cl_s_mul m : cl (fl_mul (s_mul m)) = cl (fl_mul m).
Proof. rewrite (proj1 (proj2 (proj2 fl_s_expr))). apply cl_code. Qed.
Lemma cl_s_add a : cl (fl_add (s_add a)) = cl (fl_add a).
Proof. rewrite (proj1 (proj2 (proj2 (proj2 fl_s_expr)))). apply cl_code. Qed.
Lemma cl_s_cmp e : cl (fl_cmp (s_cmp e)) = cl (fl_cmp e).
Proof. rewrite fl_s_cmp. apply cl_code. Qed.
Lemma cl_s_type t : cl (fl_type (s_type t)) = cl (fl_type t).
Proof. rewrite fl_s_type. apply cl_code. Qed.

Ltac cr_same CL X :=
  let L := fresh "L" in
  pose proof (CL X) as L; cbn [s_var s_fac s_mul s_add s_cmp s_type] in L;
  cbn [s_var s_fac s_mul s_add s_cmp s_type cr_var cr_fac cr_mul cr_add cr_cmp cr_type];
  rewrite ?L, ?cl_s_var, ?cl_s_fac, ?cl_s_mul, ?cl_s_add, ?cl_s_cmp, ?cl_s_type;
  repeat match goal with H : forall A : nat, _ = _ |- _ => rewrite H; clear H end; try reflexivity.

Lemma cr_s_expr :
  (forall v A, cr_var A (s_var v) = cr_var A v) /\ (forall f A, cr_fac A (s_fac f) = cr_fac A f) /\
  (forall m A, cr_mul A (s_mul m) = cr_mul A m) /\ (forall a A, cr_add A (s_add a) = cr_add A a) /\
  (forall e A, cr_cmp A (s_cmp e) = cr_cmp A e).
Proof.
  apply GrammarExpr.aexpr_mutind.
  - intros c x A. reflexivity.
  - intros v IHv c1 e IHe c2 A. cr_same cl_s_var (AIndex v c1 e c2).
  - intros c l A. reflexivity.
  - intros v IHv A. cr_same cl_s_fac (FVar v).
  - intros c f IHf A. cr_same cl_s_fac (FNeg c f).
  - intros c1 e IHe c2 A. cr_same cl_s_fac (FPar c1 e c2).
  - intros f IHf A. cr_same cl_s_mul (MFac f).
  - intros m IHm c op f IHf A. cr_same cl_s_mul (MBin m c op f).
  - intros m IHm A. cr_same cl_s_add (AMul m).
  - intros a IHa c op m IHm A. cr_same cl_s_add (ABin a c op m).
  - intros a IHa A. cr_same cl_s_cmp (CAdd a).
  - intros l IHl c op r IHr A. cr_same cl_s_cmp (CBin l c op r).
Qed.

Lemma cr_s_var v A : cr_var A (s_var v) = cr_var A v.
Proof. apply cr_s_expr. Qed.
Lemma cr_s_cmp e A : cr_cmp A (s_cmp e) = cr_cmp A e.
Proof. apply cr_s_expr. Qed.

Lemma cr_s_type t : forall A, cr_type A (s_type t) = cr_type A t.
Proof.
  induction t as [c x|ca cl0 cz size cr co base IH]; intros A; [reflexivity|]. cr_same cl_s_type (TArr ca cl0 cz size cr co base).
Qed.

Lemma cl_set_lead C v : cl (fl_var (set_lead C v)) = cl (fl_var v).
Proof. rewrite (fl_var_lead (set_lead C v)), (fl_var_lead v), var_lead_set, var_code_set, !cl_app, !cl_cm. reflexivity. Qed.

Lemma cr_set_lead C v : forall A, cr_var A (set_lead C v) = cr_var A v.
Proof.
  induction v as [c x|v' IH c1 e c2]; intros A; [reflexivity|].
  pose proof (cl_set_lead C (AIndex v' c1 e c2)) as L. cbn [set_lead] in L. cbn [set_lead cr_var]. rewrite L, IH, cl_set_lead. reflexivity.
Qed.

Lemma cr_s_tail {T} (fl : T -> list kind) (cr : nat -> T -> list tri) (sf : T -> T) l :
  (forall a A, cr A (sf a) = cr A a) -> (forall a, cl (fl (sf a)) = cl (fl a)) ->
  forall A, cr_tail fl cr A (s_tail sf l) = cr_tail fl cr A l.
Proof.
  intros H1 H2. induction l as [|[c a] r IH]; intros A; [reflexivity|]. unfold s_tail in *. cbn [map snd cr_tail]. rewrite H1, H2, IH. reflexivity.
Qed.

Lemma cr_s_sep {T} (fl : T -> list kind) (cr : nat -> T -> list tri) (sf : T -> T) ps :
  (forall a A, cr A (sf a) = cr A a) -> (forall a, cl (fl (sf a)) = cl (fl a)) ->
  forall A, cr_sep fl cr A (s_sep sf ps) = cr_sep fl cr A ps.
Proof.
  intros H1 H2 A. destruct ps as [[a l]|]; [|reflexivity]. cbn [s_sep cr_sep]. rewrite H1, H2, (cr_s_tail fl cr sf l H1 H2). reflexivity.
Qed.

Lemma cl_k_stmt s : cl (fl_stmt (k_stmt s)) = cl (fl_stmt s).
Proof. apply sub_cl, sub_stmt. Qed.
Lemma cl_k_branch s : cl (fl_stmt (k_branch s)) = cl (fl_stmt s).
Proof. apply sub_cl, sub_stmt. Qed.

Theorem cr_k_stmt :
  (forall s A, cr_stmt A (k_stmt s) = cr_stmt A s /\ cr_stmt A (k_branch s) = cr_stmt A s) /\
  (forall b A, cr_stmts A (k_stmts b) = cr_stmts A b).
Proof.
  apply GrammarStmt.astmt_mutind.
  - intros c A. split; reflexivity.
  - intros v c1 e c2 A.
    assert (G : cr_stmt A (k_stmt (SAsg v c1 e c2)) = cr_stmt A (SAsg v c1 e c2)).
    { pose proof (cl_k_stmt (SAsg v c1 e c2)) as L. cbn [k_stmt] in L. cbn [k_stmt cr_stmt].
      rewrite L, cr_set_lead, cr_s_var, cl_set_lead, cl_s_var, cr_s_cmp. reflexivity. }
    split; exact G.
  - intros c1 fn c2 a c3 c4 A.
    assert (G : cr_stmt A (k_stmt (SCal c1 fn c2 a c3 c4)) = cr_stmt A (SCal c1 fn c2 a c3 c4)).
    { pose proof (cl_k_stmt (SCal c1 fn c2 a c3 c4)) as L. cbn [k_stmt] in L. cbn [k_stmt cr_stmt].
      rewrite L, (cr_s_sep fl_cmp cr_cmp s_cmp a cr_s_cmp cl_s_cmp). reflexivity. }
    split; exact G.
  - intros c1 c2 e c3 t IHt A.
    assert (G : cr_stmt A (k_stmt (SIfT c1 c2 e c3 t)) = cr_stmt A (SIfT c1 c2 e c3 t)).
    { pose proof (cl_k_stmt (SIfT c1 c2 e c3 t)) as L. rewrite k_ift in *. cbn [cr_stmt]. rewrite L, cr_s_cmp, cl_s_cmp, (proj2 (IHt _)). reflexivity. }
    split; exact G.
  - intros c1 c2 e c3 t IHt c4 s' IHs A.
    assert (G : cr_stmt A (k_stmt (SIfE c1 c2 e c3 t c4 s')) = cr_stmt A (SIfE c1 c2 e c3 t c4 s')).
    { pose proof (cl_k_stmt (SIfE c1 c2 e c3 t c4 s')) as L. rewrite k_ife in *. cbn [cr_stmt].
      rewrite L, cr_s_cmp, cl_s_cmp, (proj2 (IHt _)), cl_k_branch, (proj2 (IHs _)). reflexivity. }
    split; exact G.
  - intros c1 c2 e c3 t IHt A.
    assert (G : cr_stmt A (k_stmt (SWhl c1 c2 e c3 t)) = cr_stmt A (SWhl c1 c2 e c3 t)).
    { pose proof (cl_k_stmt (SWhl c1 c2 e c3 t)) as L. rewrite k_whl in *. cbn [cr_stmt]. rewrite L, cr_s_cmp, cl_s_cmp, (proj2 (IHt _)). reflexivity. }
    split; exact G.
  - intros c1 b IHb c2 A. split.
    + pose proof (cl_k_stmt (SBlk c1 b c2)) as L. rewrite k_blk in *. cbn [cr_stmt]. rewrite L, IHb. reflexivity.
    + pose proof (cl_k_branch (SBlk c1 b c2)) as L. cbn [k_branch] in *. cbn [cr_stmt]. rewrite L, IHb. reflexivity.
  - intros A. reflexivity.
  - intros s IHs r IHr A. cbn [k_stmts cr_stmts]. rewrite (proj1 (IHs _)), cl_k_stmt, IHr. reflexivity.
Qed.

Lemma cl_k_param p : cl (fl_param (k_param p)) = cl (fl_param p).
Proof. rewrite fl_k_param. unfold cl. rewrite code_hoisted. reflexivity. Qed.
Lemma cl_k_vardecl v : cl (fl_vardecl (k_vardecl v)) = cl (fl_vardecl v).
Proof. rewrite fl_k_vardecl. unfold cl. rewrite code_hoisted. reflexivity. Qed.

Lemma cr_k_param p A : cr_param A (k_param p) = cr_param A p.
Proof.
  pose proof (cl_k_param p) as L. destruct p as [c x cc t|cr c x cc t]; unfold k_param in *; cbn [cr_param]; rewrite L, cr_s_type; reflexivity.
Qed.

Lemma cr_k_vardecl v A : cr_vardecl A (k_vardecl v) = cr_vardecl A v.
Proof. pose proof (cl_k_vardecl v) as L. unfold cr_vardecl. rewrite L. unfold k_vardecl. cbn [v_t]. rewrite cr_s_type. reflexivity. Qed.

Lemma cr_k_vardecls l : forall A, cr_vardecls A (map k_vardecl l) = cr_vardecls A l.
Proof. induction l as [|v r IH]; intros A; [reflexivity|]. cbn [map cr_vardecls]. rewrite cr_k_vardecl, cl_k_vardecl, IH. reflexivity. Qed.

Lemma cl_k_decl d : cl (fl_decl (k_decl d)) = cl (fl_decl d).
Proof. apply sub_cl, sub_decl. Qed.

Theorem cr_k_decl d A : cr_decl A (k_decl d) = cr_decl A d.
Proof.
  pose proof (cl_k_decl d) as L. destruct d as [c1 c2 x c3 t c4|c1 c2 x c3 ps c4 c5 vs b c6]; cbn [k_decl] in *; cbn [cr_decl]; rewrite L.
  - rewrite cr_s_type. reflexivity.
  - rewrite (cr_s_sep fl_param cr_param k_param ps cr_k_param cl_k_param), cr_k_vardecls, (proj2 cr_k_stmt).
    rewrite (sub_cl _ _ (sub_sep fl_param k_param ps (fun p => sub_eq _ _ _ (fl_k_param p) (sub_hoisted _)))), (sub_cl _ _ (sub_vardecls vs)). reflexivity.
Qed.

Theorem cr_k_decls l : forall A, cr_decls A (map k_decl l) = cr_decls A l.
Proof. induction l as [|d r IH]; intros A; [reflexivity|]. cbn [map cr_decls]. rewrite cr_k_decl, cl_k_decl, IH. reflexivity. Qed.

(* ================================================================================================
   7. The declarations of [expected p] and of [expected (kept p)]
   ================================================================================================ *)
Definition ord (ks : list kind) (n : nat) : nat := length (code (firstn n ks)).

Lemma seg_ord ks : seg (ord ks) 0 0 ks.
Proof. intros m _. reflexivity. Qed.

Theorem kept_positions p :
  pos (ord (flatten p)) (nd_refs nd_gdecl 0 (pg_decls (expected p)))
  = pos (ord (flatten (kept p))) (nd_refs nd_gdecl 0 (pg_decls (expected (kept p)))).
Proof.
  unfold expected, kept. cbn [pg_decls a_decls].
  rewrite (xr_decls (a_decls p) (ord (flatten p)) 0 0), (xr_decls (map k_decl (a_decls p)) (ord (flatten {| a_decls := map k_decl (a_decls p); a_ceof := [] |})) 0 0).
  - symmetry. apply cr_k_decls.
  - unfold flatten. cbn [a_decls a_ceof]. exact (proj1 (seg_app _ _ _ _ _ (seg_ord _))).
  - unfold flatten. exact (proj1 (seg_app _ _ _ _ _ (seg_ord _))).
Qed.
