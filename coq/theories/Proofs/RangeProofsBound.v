(* R2, parser side: on a token list that ends with its only Eof token (index M = length - 1), every
   AstInfo range and every error range the parser attaches anywhere in the tree, shifted by the
   offsets of the enclosing References, ends at or before M.  So `tokens[range.end]` exists and
   `&tokens[range]` is in bounds for every diagnostic errors() collects.

   [Inv P p]: from a state with refp <= pos <= M, a run of p (success or error) ends in such a state,
   leaves refp unchanged, keeps every error of the buffer in bounds *relative to any reference
   position r <= refp* (errors pushed inside a Reference stay in the buffer when the Reference is
   left and are then read relative to the outer one), and a returned tree satisfies P at the
   accumulated offset refp. *)
From Coq Require Import Arith Lia List.
From Spl Require Import Model.Parser Proofs.ParserComb Proofs.ParserEqns Proofs.ParserFwd Proofs.ParserDecl
  Proofs.ParserTotal Proofs.RangeProofsIdent.
Import ListNotations.
Local Open Scope nat_scope.

(* ------------------------------------------------------------------------------------------ *)
(* the predicate on trees: [XB M off x] - every range in x, read at accumulated offset off, ends <= M *)
Section Bound.
Variable M : nat.

Definition ErrB (off : nat) (e : err) : Prop := off + e_e e <= M.
Definition InfoB (off : nat) (i : info) : Prop := off + i_e i <= M /\ Forall (ErrB off) (i_errs i).
Definition IdB (off : nat) (i : ident) : Prop := InfoB off (id_info i).
Definition IntlitB (off : nat) (i : intlit) : Prop := InfoB off (il_info i).

Definition OptB {A} (P : nat -> A -> Prop) (off : nat) (o : option A) : Prop :=
  match o with Some a => P off a | None => True end.
Definition RefB {A} (P : nat -> A -> Prop) (off : nat) (x : A * nat) : Prop := P (off + snd x) (fst x).

Fixpoint VarB (off : nat) (v : variable) {struct v} : Prop :=
  match v with
  | NamedVar i => IdB off i
  | ArrAccess a idx inf =>
      InfoB off inf /\ VarB off a /\ match idx with Some (e, o) => ExprB (off + o) e | None => True end
  end
with ExprB (off : nat) (e : expr) {struct e} : Prop :=
  match e with
  | EBin _ l r inf => InfoB off inf /\ ExprB off l /\ ExprB off r
  | EBrack a inf => InfoB off inf /\ ExprB off a
  | EUn _ a inf => InfoB off inf /\ ExprB off a
  | EInt i => IntlitB off i
  | EVar v => VarB off v
  | EErr inf => InfoB off inf
  end.

Fixpoint TexprB (off : nat) (t : typeexpr) {struct t} : Prop :=
  match t with
  | TNamed i => IdB off i
  | TArray size base inf =>
      InfoB off inf /\ OptB IntlitB off size /\
      match base with Some (b, o) => TexprB (off + o) b | None => True end
  end.

Fixpoint StmtB (off : nat) (s : stmt) {struct s} : Prop :=
  let opt_stmt (r : option (stmt * nat)) : Prop :=
    match r with Some (x, o) => StmtB (off + o) x | None => True end in
  match s with
  | SEmpty inf | SError inf => InfoB off inf
  | SAssign v e inf => InfoB off inf /\ VarB off v /\ OptB (RefB ExprB) off e
  | SCall name args inf => InfoB off inf /\ IdB off name /\ Forall (RefB ExprB off) args
  | SIf c t e inf => InfoB off inf /\ OptB (RefB ExprB) off c /\ opt_stmt t /\ opt_stmt e
  | SWhile c b inf => InfoB off inf /\ OptB (RefB ExprB) off c /\ opt_stmt b
  | SBlock body inf =>
      InfoB off inf /\
      (fix go (l : list (stmt * nat)) : Prop :=
         match l with [] => True | (x, o) :: r => StmtB (off + o) x /\ go r end) body
  end.

Definition VardeclB (off : nat) (v : vardecl) : Prop :=
  match v with
  | VValid _ name ty inf => InfoB off inf /\ OptB IdB off name /\ OptB (RefB TexprB) off ty
  | VError inf => InfoB off inf
  end.

Definition ParamdeclB (off : nat) (p : paramdecl) : Prop :=
  match p with
  | PValid _ _ name ty inf => InfoB off inf /\ OptB IdB off name /\ OptB (RefB TexprB) off ty
  | PError inf => InfoB off inf
  end.

Definition TypedeclB (off : nat) (d : typedecl) : Prop :=
  InfoB off (td_info d) /\ OptB IdB off (td_name d) /\ OptB (RefB TexprB) off (td_ty d).

Definition ProcdeclB (off : nat) (d : procdecl) : Prop :=
  InfoB off (pd_info d) /\ OptB IdB off (pd_name d) /\
  Forall (RefB ParamdeclB off) (pd_params d) /\ Forall (RefB VardeclB off) (pd_vars d) /\
  Forall (RefB StmtB off) (pd_stmts d).

Definition GdeclB (off : nat) (g : gdecl) : Prop :=
  match g with GType d => TypedeclB off d | GProc d => ProcdeclB off d | GError inf => InfoB off inf end.

Definition ProgB (p : program) : Prop := InfoB 0 (pg_info p) /\ Forall (RefB GdeclB 0) (pg_decls p).

Lemma StmtB_block off body inf : StmtB off (SBlock body inf) <-> InfoB off inf /\ Forall (RefB StmtB off) body.
Proof.
  cbn [StmtB]. apply and_iff_compat_l. induction body as [|[x o] r IH].
  - split; [constructor | exact (fun _ => I)].
  - split.
    + intros [H1 H2]. constructor; [exact H1 | apply IH, H2].
    + intros H. inversion H as [|? ? H1 H2]; subst. split; [exact H1 | apply IH, H2].
Qed.

Lemma StmtB_optref off (r : option (stmt * nat)) :
  match r with Some (x, o) => StmtB (off + o) x | None => True end <-> OptB (RefB StmtB) off r.
Proof. destruct r as [[x o]|]; reflexivity. Qed.

Lemma ExprB_optref off (r : option (expr * nat)) :
  match r with Some (x, o) => ExprB (off + o) x | None => True end <-> OptB (RefB ExprB) off r.
Proof. destruct r as [[x o]|]; reflexivity. Qed.

Lemma TexprB_optref off (r : option (typeexpr * nat)) :
  match r with Some (x, o) => TexprB (off + o) x | None => True end <-> OptB (RefB TexprB) off r.
Proof. destruct r as [[x o]|]; reflexivity. Qed.

Lemma InfoB_append off inf e : InfoB off inf -> ErrB off e -> InfoB off (info_append inf e).
Proof.
  intros [H1 H2] He. split; [exact H1|]. cbn [info_append i_errs]. apply Forall_app. split; [exact H2|].
  constructor; [exact He | constructor].
Qed.

Lemma InfoB_self_err off inf m : InfoB off inf -> InfoB off (info_append inf {| e_s := i_s inf; e_e := i_e inf; e_m := m |}).
Proof. intros H. apply InfoB_append; [exact H | exact (proj1 H)]. Qed.

Lemma InfoB_mk off a b : off + b <= M -> InfoB off (mkinfo a b).
Proof. intros H. split; [exact H | constructor]. Qed.

Lemma InfoB_extend off idx base : InfoB off idx -> InfoB off base -> InfoB off (extend_range idx base).
Proof.
  intros [H1 H2] [H3 _]. split; [|exact H2]. cbn [extend_range i_e]. lia.
Qed.

End Bound.

(* canonical predicate per result type (first argument: the bound M) *)
Class Bd (A : Type) := bd : nat -> nat -> A -> Prop.

Definition trivB {A} : nat -> nat -> A -> Prop := fun _ _ _ => True.

#[global] Instance bd_ident : Bd ident := IdB.
#[global] Instance bd_intlit : Bd intlit := IntlitB.
#[global] Instance bd_info : Bd info := InfoB.
#[global] Instance bd_variable : Bd variable := VarB.
#[global] Instance bd_expr : Bd expr := ExprB.
#[global] Instance bd_texpr : Bd typeexpr := TexprB.
#[global] Instance bd_stmt : Bd stmt := StmtB.
#[global] Instance bd_vardecl : Bd vardecl := VardeclB.
#[global] Instance bd_paramdecl : Bd paramdecl := ParamdeclB.
#[global] Instance bd_typedecl : Bd typedecl := TypedeclB.
#[global] Instance bd_procdecl : Bd procdecl := ProcdeclB.
#[global] Instance bd_gdecl : Bd gdecl := GdeclB.
#[global] Instance bd_token : Bd token := trivB.
#[global] Instance bd_unit : Bd unit := trivB.
#[global] Instance bd_bool : Bd bool := trivB.
#[global] Instance bd_texts : Bd (list text) := trivB.
#[global] Instance bd_tokens : Bd (list token) := trivB.
#[global] Instance bd_optN : Bd (option N) := trivB.
#[global] Instance bd_opt {A} (H : Bd A) : Bd (option A) | 5 := fun M => OptB (H M).
#[global] Instance bd_list {A} (H : Bd A) : Bd (list A) | 5 := fun M off => Forall (H M off).
#[global] Instance bd_ref {A} (H : Bd A) : Bd (A * nat) | 4 := fun M => RefB (H M).
#[global] Instance bd_pair {A B} (HA : Bd A) (HB : Bd B) : Bd (A * B) | 5 :=
  fun M off x => HA M off (fst x) /\ HB M off (snd x).

Ltac unfold_bd :=
  unfold bd, bd_ident, bd_intlit, bd_info, bd_variable, bd_expr, bd_texpr, bd_stmt, bd_vardecl, bd_paramdecl,
    bd_typedecl, bd_procdecl, bd_gdecl, bd_token, bd_unit, bd_bool, bd_texts, bd_tokens, bd_optN,
    bd_opt, bd_list, bd_ref, bd_pair, trivB in *.
Ltac bd_unf := unfold TypedeclB, ProcdeclB, GdeclB, VardeclB, ParamdeclB, OptB, RefB, IdB, IntlitB in *.

(* ------------------------------------------------------------------------------------------ *)
Section Inv.
Variable toks : list token.
Hypothesis HE : EofLast toks.
Notation N := (length toks).
Notation M := (length toks - 1).

Definition GoodS (s : st) : Prop := pos s <= M /\ refp s <= pos s.
Definition St (s s' : st) : Prop := pos s <= pos s' /\ pos s' <= M /\ refp s' = refp s.
Definition EB (r : nat) (s : st) : Prop := Forall (ErrB M r) (ebuf s).

Definition postc {A} (s : st) (r : nat) (P : A -> Prop) (x : pres A) : Prop :=
  match x with
  | POk s' a => St s s' /\ EB r s' /\ P a
  | PErr s' => St s s' /\ EB r s'
  | PFuel => True
  end.

Definition InvAt {A} (off : nat) (P : A -> Prop) (p : parser A) : Prop :=
  forall s r, GoodS s -> refp s = off -> r <= off -> EB r s -> postc s r P (p s).

Definition Inv {A} (P : Bd A) (p : parser A) : Prop := forall off, InvAt off (P M off) p.

Lemma N_pos' : 0 < N. Proof. exact (N_pos toks HE). Qed.

Lemma St_refl s : pos s <= M -> St s s.
Proof. intros H. repeat split; [lia | exact H]. Qed.

Lemma St_trans s1 s2 s3 : St s1 s2 -> St s2 s3 -> St s1 s3.
Proof. intros (A1 & A2 & A3) (B1 & B2 & B3). repeat split; [lia | lia | congruence]. Qed.

Lemma St_good s s' : GoodS s -> St s s' -> GoodS s'.
Proof. intros [G1 G2] (A1 & A2 & A3). split; [exact A2 | lia]. Qed.

Lemma postc_bind {A B} s r (P : A -> Prop) (Q : B -> Prop) (x : pres A) (k : st -> A -> pres B) :
  postc s r P x ->
  (forall s1 a, St s s1 -> EB r s1 -> P a -> postc s1 r Q (k s1 a)) ->
  postc s r Q (bind x k).
Proof.
  destruct x as [s1 a|e|]; cbn [postc bind]; intros H K; [|exact H|exact I].
  destruct H as (S1 & B1 & Pa). specialize (K s1 a S1 B1 Pa).
  destruct (k s1 a) as [s2 b|e|]; cbn [postc] in *; [| |exact I].
  - destruct K as (S2 & K). split; [eapply St_trans; eassumption | exact K].
  - destruct K as (S2 & K). split; [eapply St_trans; eassumption | exact K].
Qed.

Lemma postc_weaken {A} s r (P Q : A -> Prop) (x : pres A) :
  (forall a, P a -> Q a) -> postc s r P x -> postc s r Q x.
Proof. intros H. destruct x; cbn [postc]; intuition. Qed.

(* ---- InvAt level: bind / return / loops ---- *)
Lemma InvAt_bind {A B} off (P : A -> Prop) (Q : B -> Prop) (p : parser A) (k : st -> A -> pres B) :
  InvAt off P p -> (forall a, P a -> InvAt off Q (fun s => k s a)) -> InvAt off Q (fun s => bind (p s) k).
Proof.
  intros Hp Hk s r G Ho Hr Hb. apply postc_bind with (P := P); [now apply Hp|].
  intros s1 a S1 B1 Pa. apply (Hk a Pa); [eapply St_good; eassumption | | exact Hr | exact B1].
  destruct S1 as (_ & _ & E). congruence.
Qed.

Lemma InvAt_ret {A} off (Q : A -> Prop) (f : st -> A) :
  (forall s, GoodS s -> refp s = off -> Q (f s)) -> InvAt off Q (fun s => POk s (f s)).
Proof.
  intros H s r G Ho Hr Hb. cbn [postc]. split; [apply St_refl, G | split; [exact Hb | now apply H]].
Qed.

Lemma InvAt_ext {A} off (Q : A -> Prop) (p q : parser A) : (forall s, p s = q s) -> InvAt off Q p -> InvAt off Q q.
Proof. intros E Hp s r G Ho Hr Hb. rewrite <- E. now apply Hp. Qed.

Lemma InvAt_fuel {A} off (Q : A -> Prop) : InvAt off Q (fun _ => PFuel).
Proof. intros s r _ _ _ _. exact I. Qed.

Lemma Inv_fuel {A} (P : Bd A) : Inv P (fun _ => PFuel).
Proof. intros off. apply InvAt_fuel. Qed.

(* ---- leaves ---- *)
Lemma ebuf_adv s n : ebuf (adv s n) = ebuf s. Proof. reflexivity. Qed.

Lemma Inv_comments : Inv bd_texts (p_comments toks).
Proof.
  intros off s r [G1 G2] Ho Hr Hb. unfold p_comments. cbn [postc]. pose proof N_pos' as HN.
  assert (Hlt : sig_at toks (pos s) < N) by (apply (sig_lt toks HE); lia).
  unfold sig_at in Hlt. repeat split; cbn [pos adv refp]; try lia. exact Hb.
Qed.

Lemma Inv_tag f : f Eof = false -> Inv bd_token (p_tag toks f).
Proof.
  intros Hf off s r [G1 G2] Ho Hr Hb. pose proof N_pos' as HN.
  assert (Hlt : sig_at toks (pos s) < N) by (apply (sig_lt toks HE); lia).
  pose proof (sig_at_ge toks (pos s)) as Hge.
  destruct (p_tag toks f s) as [s' t|s'|] eqn:E; cbn [postc]; [| |exact I].
  - apply p_tag_ok in E as (Ht & Hft & ->).
    assert (Hne : tk t <> Eof) by (intros Heq; rewrite Heq in Hft; congruence).
    pose proof (noneof_lt toks HE _ _ Ht Hne) as Hlt2.
    repeat split; cbn [pos adv refp]; try lia. exact Hb.
  - apply p_tag_err in E as [[-> _]|[-> _]].
    + split; [apply St_refl; exact G1 | exact Hb].
    + repeat split; cbn [pos adv refp]; try lia. exact Hb.
Qed.

Lemma Inv_peek_la la : Inv bd_unit (p_peek_la la).
Proof.
  intros off s r [G1 G2] Ho Hr Hb. unfold p_peek_la.
  destruct (la (pos s)); cbn [postc]; repeat split; try lia; try exact Hb; exact I.
Qed.

Lemma ignore_from_stays n la s :
  la M = true -> pos s <= M ->
  match ignore_from toks n la s with
  | POk s' _ | PErr s' => pos s <= pos s' /\ pos s' <= M /\ refp s' = refp s /\ ebuf s' = ebuf s
  | PFuel => True
  end.
Proof.
  intros Hla. revert s. induction n as [|n IH]; intros s Hs; cbn [ignore_from];
    destruct (la (pos s)) eqn:E; try (repeat split; lia).
  destruct (Nat.ltb (pos s) N) eqn:El; [|repeat split; lia].
  assert (pos s <> M) by (intros Heq; rewrite Heq in E; congruence).
  specialize (IH (adv s 1)). cbn [pos adv refp ebuf] in IH.
  destruct (ignore_from toks n la (adv s 1)) as [s' u|s'|]; [| |exact I];
    (destruct IH as (A1 & A2 & A3 & A4); [lia|]; repeat split; try assumption; lia).
Qed.

Lemma Inv_ignore0 la : la M = true -> Inv bd_tokens (p_ignore0 toks la).
Proof.
  intros Hla off s r [G1 G2] Ho Hr Hb. unfold p_ignore0.
  pose proof (ignore_from_stays (S (N - pos s)) la s Hla G1) as H.
  destruct (ignore_from toks (S (N - pos s)) la s) as [s' u|s'|]; cbn [bind postc]; [| |exact I];
    destruct H as (A1 & A2 & A3 & A4); unfold EB; rewrite A4; repeat split; try assumption.
Qed.

Lemma Inv_ignore1 la : la M = true -> Inv bd_tokens (p_ignore1 toks la).
Proof.
  intros Hla off s r G Ho Hr Hb. unfold p_ignore1. destruct (la (pos s)).
  - cbn [postc]. split; [apply St_refl, G | exact Hb].
  - now apply Inv_ignore0.
Qed.

(* ---- combinators ---- *)
Lemma Inv_map {A B} (HA : Bd A) (HB : Bd B) (f : A -> B) p :
  Inv HA p -> (forall off a, HA M off a -> HB M off (f a)) -> Inv HB (p_map f p).
Proof.
  intros Hp Hf off s r G Ho Hr Hb. unfold p_map. apply postc_bind with (P := HA M off); [now apply Hp|].
  intros s1 a S1 B1 Pa. cbn [postc]. split; [apply St_refl, S1 | split; [exact B1 | now apply Hf]].
Qed.

Lemma Inv_alt {A} (H : Bd A) (p q : parser A) : Inv H p -> Inv H q -> Inv H (p_alt p q).
Proof.
  intros Hp Hq off s r G Ho Hr Hb. unfold p_alt. specialize (Hp off s r G Ho Hr Hb).
  destruct (p s); [exact Hp | now apply Hq | exact I].
Qed.

Lemma Inv_restore {A} (H : Bd A) (p : parser A) : Inv H p -> Inv H (p_restore p).
Proof.
  intros Hp off s r G Ho Hr Hb. unfold p_restore. specialize (Hp off s r G Ho Hr Hb).
  destruct (p s) as [s1 a|e|]; cbn [postc] in *; [exact Hp | | exact I].
  split; [apply St_refl, G | exact Hb].
Qed.

Lemma Inv_opt {A} (H : Bd A) (p : parser A) : Inv H p -> Inv (bd_opt H) (p_opt p).
Proof.
  intros Hp off s r G Ho Hr Hb. unfold p_opt. specialize (Hp off s r G Ho Hr Hb).
  destruct (p s) as [s1 a|e|]; cbn [postc] in *; [exact Hp | | exact I].
  split; [apply St_refl, G | split; [exact Hb | exact I]].
Qed.

Lemma Inv_pair {A B} (HA : Bd A) (HB : Bd B) (p : parser A) (q : parser B) :
  Inv HA p -> Inv HB q -> Inv (bd_pair HA HB) (p_pair p q).
Proof.
  intros Hp Hq off. unfold p_pair. apply InvAt_bind with (P := HA M off); [apply Hp|].
  intros a Pa. apply InvAt_bind with (P := HB M off); [apply Hq|].
  intros b Pb. apply InvAt_ret. intros; split; assumption.
Qed.

Lemma Inv_preceded {A B} (HA : Bd A) (HB : Bd B) (p : parser A) (q : parser B) :
  Inv HA p -> Inv HB q -> Inv HB (p_preceded p q).
Proof.
  intros Hp Hq. unfold p_preceded. apply Inv_map with (HA := bd_pair HA HB); [now apply Inv_pair|].
  intros off a [_ H]. exact H.
Qed.

Lemma Inv_terminated {A B} (HA : Bd A) (HB : Bd B) (p : parser A) (q : parser B) :
  Inv HA p -> Inv HB q -> Inv HA (p_terminated p q).
Proof.
  intros Hp Hq. unfold p_terminated. apply Inv_map with (HA := bd_pair HA HB); [now apply Inv_pair|].
  intros off a [H _]. exact H.
Qed.

Lemma Inv_many0 {A} (H : Bd A) fuel (p : parser A) : Inv H p -> Inv (bd_list H) (p_many0 fuel p).
Proof.
  intros Hp off. induction fuel as [|f IH]; intros s r G Ho Hr Hb; cbn [p_many0]; [exact I|].
  pose proof (Hp off s r G Ho Hr Hb) as H1.
  destruct (p s) as [s1 a|e|]; cbn [postc] in H1; [| |exact I].
  2:{ cbn [postc]. split; [apply St_refl, G | split; [exact Hb | constructor]]. }
  destruct H1 as (S1 & B1 & Pa).
  destruct (Nat.eqb (pos s1) (pos s)); [cbn [postc]; split; [apply St_refl, G | exact Hb]|].
  assert (G1 : GoodS s1) by (eapply St_good; eassumption).
  assert (Ho1 : refp s1 = off) by (destruct S1 as (_ & _ & E); congruence).
  specialize (IH s1 r G1 Ho1 Hr B1).
  destruct (p_many0 f p s1) as [s2 l|e|]; cbn [bind postc] in *; [| |exact I].
  - destruct IH as (S2 & B2 & Pl). split; [eapply St_trans; eassumption|]. split; [exact B2|].
    constructor; assumption.
  - destruct IH as (S2 & B2). split; [eapply St_trans; eassumption | exact B2].
Qed.

Lemma Inv_info {A} (H : Bd A) (p : parser A) : Inv H p -> Inv (bd_pair H bd_info) (p_info p).
Proof.
  intros Hp off s r G Ho Hr Hb. unfold p_info.
  assert (H0 : postc (set_ebuf s []) off (H M off) (p (set_ebuf s []))).
  { apply Hp; [exact G | exact Ho | lia | constructor]. }
  destruct G as [G1 G2].
  destruct (p (set_ebuf s [])) as [s1 a|s1|]; cbn [postc] in *; [| |exact I].
  - destruct H0 as ((A1 & A2 & A3) & B1 & Pa). cbn [pos refp set_ebuf] in *.
    repeat split; cbn [pos refp set_ebuf fst snd i_e i_errs]; try assumption; try lia.
  - destruct H0 as ((A1 & A2 & A3) & B1). cbn [pos refp set_ebuf] in *.
    repeat split; cbn [pos refp set_ebuf]; assumption.
Qed.

Lemma EB_expect_error r e m : r <= refp e -> refp e <= pos e -> pos e <= M -> EB r e -> EB r (expect_error e m).
Proof.
  intros H1 H2 H3 Hb. unfold EB, expect_error, push_err. cbn [ebuf set_ebuf].
  apply Forall_app. split; [exact Hb|]. constructor; [|constructor]. unfold ErrB. cbn [e_e]. lia.
Qed.

Lemma Inv_expect {A} (H : Bd A) (p : parser A) m : Inv H p -> Inv (bd_opt H) (p_expect p m).
Proof.
  intros Hp off s r G Ho Hr Hb. unfold p_expect. specialize (Hp off s r G Ho Hr Hb).
  destruct (p s) as [s1 a|e|]; cbn [postc] in *; [exact Hp | | exact I].
  destruct Hp as (S1 & B1). pose proof (St_good _ _ G S1) as [G1 G2].
  assert (Hre : refp e = off) by (destruct S1 as (_ & _ & E); congruence).
  split; [exact S1|]. split; [|exact I]. apply EB_expect_error; try assumption. lia.
Qed.

Lemma Inv_ref {A} (H : Bd A) (p : parser A) : Inv H p -> Inv (bd_ref H) (p_ref p).
Proof.
  intros Hp off s r [G1 G2] Ho Hr Hb. unfold p_ref.
  assert (H0 : postc (set_refp s (pos s)) r (H M (pos s)) (p (set_refp s (pos s)))).
  { apply Hp; [split; cbn [pos refp set_refp]; lia | reflexivity | lia | exact Hb]. }
  destruct (p (set_refp s (pos s))) as [s1 a|s1|]; cbn [postc] in *; [| |exact I].
  - destruct H0 as ((A1 & A2 & A3) & B1 & Pa). cbn [pos refp set_refp] in *.
    repeat split; cbn [pos refp set_refp]; try assumption.
    unfold bd_ref, RefB. cbn [fst snd]. replace (off + (pos s - refp s)) with (pos s) by lia. exact Pa.
  - destruct H0 as ((A1 & A2 & A3) & B1). cbn [pos refp set_refp] in *.
    repeat split; cbn [pos refp set_refp]; assumption.
Qed.

Lemma Inv_confusable {A} (H : Bd A) (p : parser A) m : Inv H p -> Inv H (p_confusable p m).
Proof.
  intros Hp off s r G Ho Hr Hb. unfold p_confusable.
  apply postc_bind with (P := bd_pair H bd_info M off); [now apply Inv_info|].
  intros s1 [a inf] S1 B1 [Pa [Pi _]]. cbn [fst snd] in *. cbn [postc].
  split; [destruct S1 as (A1 & A2 & A3); repeat split; cbn [pos refp push_err set_ebuf]; lia|].
  split; [|exact Pa].
  unfold EB, push_err. cbn [ebuf set_ebuf]. apply Forall_app. split; [exact B1|].
  constructor; [|constructor]. unfold ErrB. cbn [e_e]. lia.
Qed.

Lemma Inv_bind {A B} (HA : Bd A) (HB : Bd B) (p : parser A) (k : st -> A -> pres B) :
  Inv HA p -> (forall off a, HA M off a -> InvAt off (HB M off) (fun s => k s a)) ->
  Inv HB (fun s => bind (p s) k).
Proof. intros Hp Hk off. apply InvAt_bind with (P := HA M off); [apply Hp | apply Hk]. Qed.

Lemma InvAt_tag_loop {A} off (Q : A -> Prop) f (k : st -> token -> pres A) (d : A) :
  f Eof = false -> Q d -> (forall t, InvAt off Q (fun s => k s t)) ->
  InvAt off Q (fun s => match p_tag toks f s with POk s1 op => k s1 op | PErr _ => POk s d | PFuel => PFuel end).
Proof.
  intros Hf Hd Hk s r G Ho Hr Hb. pose proof (Inv_tag f Hf off s r G Ho Hr Hb) as H.
  destruct (p_tag toks f s) as [s1 t|e|]; cbn [postc] in *; [| |exact I].
  - destruct H as (S1 & B1 & _).
    assert (K : postc s1 r Q (k s1 t)).
    { apply (Hk t); [eapply St_good; eassumption | | exact Hr | exact B1].
      destruct S1 as (_ & _ & E); congruence. }
    destruct (k s1 t) as [s2 b|e|]; cbn [postc] in *; [| |exact I];
      (destruct K as (S2 & K); split; [eapply St_trans; eassumption | exact K]).
  - split; [apply St_refl, G | split; [exact Hb | exact Hd]].
Qed.

End Inv.

(* ------------------------------------------------------------------------------------------ *)
(* tactics *)
Ltac la_last HE :=
  first [ exact (la_param_last _ HE) | exact (la_var_dec_last _ HE) | exact (la_stmt_last _ HE)
        | exact (la_global_last _ HE) ].

Ltac bd_destruct := repeat match goal with x : _ * _ |- _ => destruct x end.
Ltac bd_opts :=
  repeat match goal with
         | |- context [match ?o with Some _ => _ | None => _ end] => is_var o; destruct o
         end.
Ltac bd_side :=
  solve [ intros; unfold_bd; bd_unf; bd_destruct; cbn in *; bd_unf; bd_opts; bd_destruct; cbn in *; bd_unf;
          intuition (auto using InfoB_self_err) ].

Ltac inv_step HE :=
  first
  [ assumption
  | apply (Inv_fuel _)
  | apply (Inv_comments _ HE)
  | apply (Inv_tag _ HE); [reflexivity]
  | apply (Inv_peek_la _)
  | apply (Inv_ignore0 _); [la_last HE]
  | apply (Inv_ignore1 _); [la_last HE]
  | apply (Inv_restore _) | apply (Inv_alt _) | apply (Inv_opt _) | apply (Inv_pair _) | apply (Inv_preceded _) | apply (Inv_terminated _)
  | apply (Inv_many0 _) | apply (Inv_info _) | apply (Inv_expect _) | apply (Inv_ref _)
  | apply (Inv_confusable _)
  | eapply (Inv_map _); [ | bd_side ] ].
Ltac inv HE := repeat (inv_step HE).

(* ------------------------------------------------------------------------------------------ *)
Section NonTerminalsB.
Variable toks : list token.
Hypothesis HE : EofLast toks.
Notation M := (length toks - 1).
Notation InvT := (Inv toks).
Notation InvAtT := (InvAt toks).

Lemma Inv_ident : InvT bd_ident (p_ident toks).
Proof. unfold p_ident. inv HE. Qed.

Lemma Inv_intlit : InvT bd_intlit (p_intlit toks).
Proof. unfold p_intlit. inv HE. Qed.

Lemma InvAt_rhs off p lhs op :
  InvT bd_expr p -> ExprB M off lhs -> InvAtT off (ExprB M off) (p_rhs p lhs op).
Proof.
  intros Hp Hl. unfold p_rhs.
  apply InvAt_bind with (P := bd_opt bd_expr M off); [apply (Inv_expect _), Hp|].
  intros rhs Hr. apply InvAt_ret. intros s [G1 G2] Ho. cbn [ExprB].
  split; [apply InfoB_mk; lia|]. split; [exact Hl|].
  destruct rhs as [e|]; [exact Hr|]. cbn [ExprB]. apply InfoB_mk. lia.
Qed.

Lemma VarB_fold off accesses : forall v0 vinfo,
  VarB M off v0 -> InfoB M off vinfo ->
  Forall (fun a : (option (expr * nat) * option token) * info =>
            OptB (RefB (ExprB M)) off (fst (fst a)) /\ InfoB M off (snd a)) accesses ->
  VarB M off (fold_left (fun v a => ArrAccess v (fst (fst a)) (extend_range (snd a) vinfo)) accesses v0).
Proof.
  induction accesses as [|a r IH]; intros v0 vinfo Hv Hi Ha; cbn [fold_left]; [exact Hv|].
  inversion Ha as [|? ? [H1 H1'] H2]; subst. apply IH; [|exact Hi|exact H2].
  cbn [VarB]. split; [apply InfoB_extend; assumption|]. split; [exact Hv | apply ExprB_optref, H1].
Qed.

Lemma Inv_expr_all f :
  InvT bd_variable (p_variable toks f) /\ InvT bd_expr (p_primary toks f) /\ InvT bd_expr (p_factor toks f) /\
  (forall off e, ExprB M off e -> InvAtT off (ExprB M off) (fun s => mul_loop toks f s e)) /\
  InvT bd_expr (p_mul toks f) /\
  (forall off e, ExprB M off e -> InvAtT off (ExprB M off) (fun s => add_loop toks f s e)) /\
  InvT bd_expr (p_add toks f) /\
  InvT bd_expr (p_comparison toks f).
Proof.
  induction f as [|f (IHvar & IHpri & IHfac & IHml & IHmul & IHal & IHadd & IHcmp)].
  - repeat split; try intros off e He; try apply Inv_fuel; apply InvAt_fuel.
  - pose proof (Inv_ident) as Hid. pose proof (Inv_intlit) as Hil. repeat split.
    + rewrite p_variable_S. eapply (Inv_bind _); [inv HE|].
      intros off [[v0 vinfo] acc] [[Hv Hvi] Hacc]. apply InvAt_ret. intros _ _ _. apply VarB_fold; [exact Hv | exact Hvi |].
      eapply Forall_impl; [|exact Hacc]. intros a [[Ha _] Hai]. split; assumption.
    + rewrite p_primary_S. apply (Inv_alt _); [inv HE|]. apply (Inv_alt _); [inv HE|].
      eapply (Inv_bind _); [inv HE|].
      intros off [[[x lp] [e y]] inf] [[[_ Hlp] [He _]] Hinf]. cbn [fst snd] in *.
      apply InvAt_ret. intros _ _ _. cbn [ExprB]. split; [exact Hinf|].
      destruct e as [e|]; [exact He|]. cbn [ExprB]. apply InfoB_mk. exact (proj1 Hlp).
    + rewrite p_factor_S. apply (Inv_alt _); [exact IHpri|]. inv HE.
    + intros off e He.
      apply InvAt_ext with (p := fun s => match p_tag toks is_mulop s with
         | POk s1 op => bind (p_rhs (p_factor toks f) e (op_of (tk op)) s1) (fun s2 e' => mul_loop toks f s2 e')
         | PErr _ => POk s e | PFuel => PFuel end); [intros s; now rewrite mul_loop_S|].
      apply (InvAt_tag_loop _ HE); [reflexivity | exact He|]. intros t.
      apply (InvAt_bind toks off (ExprB M off) (ExprB M off) (p_rhs (p_factor toks f) e (op_of (tk t)))).
      * now apply InvAt_rhs.
      * intros a Ha. now apply IHml.
    + rewrite p_mul_S. apply (Inv_bind toks bd_expr bd_expr (p_factor toks f)); [exact IHfac | exact IHml].
    + intros off e He.
      apply InvAt_ext with (p := fun s => match p_tag toks is_addop s with
         | POk s1 op => bind (p_rhs (p_mul toks f) e (op_of (tk op)) s1) (fun s2 e' => add_loop toks f s2 e')
         | PErr _ => POk s e | PFuel => PFuel end); [intros s; now rewrite add_loop_S|].
      apply (InvAt_tag_loop _ HE); [reflexivity | exact He|]. intros t.
      apply (InvAt_bind toks off (ExprB M off) (ExprB M off) (p_rhs (p_mul toks f) e (op_of (tk t)))).
      * now apply InvAt_rhs.
      * intros a Ha. now apply IHal.
    + rewrite p_add_S. apply (Inv_bind toks bd_expr bd_expr (p_mul toks f)); [exact IHmul | exact IHal].
    + rewrite p_comparison_S. apply (Inv_bind toks bd_expr bd_expr (p_add toks f)); [exact IHadd|].
      intros off e He. apply (InvAt_tag_loop _ HE); [reflexivity | exact He|]. intros t. now apply InvAt_rhs.
Qed.

Lemma Inv_variable f : InvT bd_variable (p_variable toks f). Proof. apply Inv_expr_all. Qed.
Lemma Inv_comparison f : InvT bd_expr (p_comparison toks f). Proof. apply Inv_expr_all. Qed.
Lemma Inv_expr f : InvT bd_expr (p_expr toks f). Proof. apply Inv_comparison. Qed.

Lemma Inv_texpr f : InvT bd_texpr (p_texpr toks f).
Proof.
  pose proof (Inv_ident) as Hid. pose proof (Inv_intlit) as Hil.
  induction f as [|f IH]; [apply Inv_fuel|]. rewrite p_texpr_S. apply (Inv_alt _); inv HE.
Qed.

Lemma Inv_list {A} (H : Bd A) fuel (p : parser A) :
  InvT H p -> InvT (bd_list (bd_ref H)) (p_list toks fuel p).
Proof.
  intros Hp. unfold p_list. eapply (Inv_bind _); [inv HE|].
  intros off head Hh.
  eapply (InvAt_bind toks off _ _ (p_many0 fuel
     (p_map (fun r => (fst (fst r), snd r + snd (fst r)))
        (p_ref (p_preceded (p_tag toks (is_k Comma)) (p_ref p)))))).
  - apply (Inv_many0 _). eapply (Inv_map _); [inv HE|].
    intros off' [[a o1] o2] Ha. unfold bd_ref, RefB in *. cbn [fst snd] in *.
    replace (off' + (o2 + o1)) with (off' + o2 + o1) by lia. exact Ha.
  - intros tail Ht. apply InvAt_ret. intros _ _ _. constructor; assumption.
Qed.

Lemma Inv_argument f : InvT bd_expr (p_argument toks f).
Proof. pose proof (Inv_expr f). unfold p_argument. inv HE. Qed.

Lemma Inv_call f : InvT bd_stmt (p_call toks f).
Proof.
  pose proof (Inv_ident) as Hid. pose proof (Inv_list _ f _ (Inv_argument f)).
  unfold p_call. inv HE.
Qed.

Lemma Inv_assign f : InvT bd_stmt (p_assign toks f).
Proof. pose proof (Inv_variable f). pose proof (Inv_expr f). unfold p_assign. inv HE. Qed.

Lemma Inv_stmt f : InvT bd_stmt (p_stmt toks f).
Proof.
  induction f as [|f IH]; [apply Inv_fuel|]. rewrite p_stmt_S.
  pose proof (Inv_expr f). pose proof (Inv_call f). pose proof (Inv_assign f).
  apply (Inv_alt _); [inv HE|]. apply (Inv_alt _); [inv HE|]. apply (Inv_alt _); [inv HE|].
  apply (Inv_alt _).
  { eapply (Inv_map _); [inv HE|]. intros off [[body t] inf] [[Hb _] Hi]. apply StmtB_block. split; assumption. }
  inv HE.
Qed.

Lemma Inv_vardecl f : InvT bd_vardecl (p_vardecl toks f).
Proof. pose proof (Inv_ident) as Hid. pose proof (Inv_texpr f). unfold p_vardecl. inv HE. Qed.

Lemma Inv_paramdecl f : InvT bd_paramdecl (p_paramdecl toks f).
Proof. pose proof (Inv_ident) as Hid. pose proof (Inv_texpr f). unfold p_paramdecl. inv HE. Qed.

Lemma Inv_typedecl f : InvT bd_typedecl (p_typedecl toks f).
Proof. pose proof (Inv_ident) as Hid. pose proof (Inv_texpr f). unfold p_typedecl. inv HE. Qed.

Lemma Inv_procdecl f : InvT bd_procdecl (p_procdecl toks f).
Proof.
  pose proof (Inv_ident) as Hid. pose proof (Inv_list _ f _ (Inv_paramdecl f)).
  pose proof (Inv_vardecl f). pose proof (Inv_stmt f). unfold p_procdecl. inv HE.
Qed.

Lemma Inv_gdecl f : InvT bd_gdecl (p_gdecl toks f).
Proof. pose proof (Inv_typedecl f). pose proof (Inv_procdecl f). unfold p_gdecl. inv HE. Qed.

Lemma Inv_decls f f' : InvT (bd_pair (bd_list (bd_ref bd_gdecl)) bd_info) (p_info (p_many0 f (p_ref (p_gdecl toks f')))).
Proof. pose proof (Inv_gdecl f'). inv HE. Qed.

End NonTerminalsB.

(* R2 for the parser: all ranges of the tree `parse` returns on an EofLast token list are in bounds *)
Theorem parse_bounded toks prog : EofLast toks -> parse toks = Done prog -> ProgB (length toks - 1) prog.
Proof.
  intros HE. unfold parse.
  destruct (p_program toks (parse_fuel toks) {| pos := 0; refp := 0; ebuf := [] |}) as [s p|e|] eqn:E;
    [|discriminate|discriminate].
  intros [= <-]. unfold p_program in E. apply p_map_ok in E as ([[ds inf] u] & E & ->).
  apply p_pair_ok in E as (s1 & E & _). cbn [fst snd] in *.
  pose proof (Inv_decls toks HE (parse_fuel toks) (parse_fuel toks) 0 {| pos := 0; refp := 0; ebuf := [] |} 0) as H.
  rewrite E in H. cbn [postc] in H.
  destruct H as (_ & _ & [Hd Hi]); [split; cbn [pos refp]; lia | reflexivity | lia | constructor|].
  split; [exact Hi | exact Hd].
Qed.
