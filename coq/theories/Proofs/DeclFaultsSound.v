(* C03 - a program with exactly one declaration fault (Proofs/DeclFaults.v: decl_fault_program) gets exactly the
   prescribed diagnostics from build; analyze; errors(), and `build` returns the prescribed table. *)
From Coq Require Import PeanoNat Lia.
From Spl Require Import Proofs.GrammarProofs Spec.Typing Model.Errors Proofs.SemProofs Proofs.TypingProofs Proofs.DeclFaults.
Local Open Scope nat_scope.

Lemma build_gdecls_app ds1 ds2 G off ds1' G1 ds2' G2 :
  build_gdecls ds1 G off = ROk (ds1', G1) -> build_gdecls ds2 G1 off = ROk (ds2', G2) ->
  build_gdecls (ds1 ++ ds2) G off = ROk (ds1' ++ ds2', G2).
Proof.
  revert G ds1'. induction ds1 as [|[d o] r IH]; intros G ds1' H1 H2.
  - cbn [build_gdecls] in H1. injection H1 as <- <-. exact H2.
  - cbn [build_gdecls app] in *. destruct (build_gdecl d G (off + o)) as [[d' Ga]|]; cbn [rbind] in *; [|discriminate].
    destruct (build_gdecls r Ga off) as [[r' Gb]|] eqn:Er; cbn [rbind] in *; [|discriminate].
    injection H1 as <- <-. rewrite (IH _ _ Er H2). reflexivity.
Qed.

Lemma wf_gdecls_app_inv G l1 l2 es :
  wf_gdecls G (l1 ++ l2) es -> exists es1 es2, es = es1 ++ es2 /\ wf_gdecls G l1 es1 /\ wf_gdecls (G ++ es1) l2 es2.
Proof.
  revert G es. induction l1 as [|[d off] r IH]; intros G es H.
  - exists [], es. rewrite app_nil_r. repeat split; [constructor | exact H].
  - cbn [app] in H. inversion H as [|G0 d0 off0 ke r0 es0 Hd Hr]; subst.
    destruct (IH _ _ Hr) as [es1 [es2 [-> [H1 H2]]]]. exists (ke :: es1), es2. repeat split.
    + constructor; assumption.
    + rewrite <- app_assoc in H2. exact H2.
Qed.

(* `analyze` does not see what `build` changed in the faulty declaration *)
Lemma same_body_entry G d d' off :
  same_body d d' -> has_entry G (d, off) /\ wt_body G (d, off) -> has_entry G (d', off) /\ wt_body G (d', off).
Proof.
  destruct d as [a | a | inf], d' as [b | b | inf']; cbn [same_body]; try contradiction; try (intros _ _; split; exact I).
  intros [Hn [Hi Hs]] [He Hb]. unfold has_entry, wt_body in *. cbn [fst snd] in *.
  destruct (pd_name a) as [na|] eqn:Ea, (pd_name b) as [nb|] eqn:Eb; cbn [option_map] in Hn; try discriminate.
  - injection Hn as Hn. split; [rewrite <- Hn; exact He|].
    intros pe [name [Hname [Hl Hr]]]. rewrite Eb in Hname. injection Hname as <-. rewrite <- Hs. apply Hb.
    exists na. rewrite Ea. split; [reflexivity|]. split; [rewrite Hn; exact Hl | rewrite Hi; exact Hr].
  - split; [exact I|]. intros pe [name [Hname _]]. rewrite Eb in Hname. discriminate.
Qed.

(* build on the declarations: the faulty one is decorated, the others are unchanged *)
Lemma decl_fault_build p dpre d off dpost es1 kes es2 ys :
  tree_clean p = true -> pg_decls p = dpre ++ (d, off) :: dpost ->
  wf_gdecls initialized dpre es1 -> fault_gdecl (initialized ++ es1) off d kes ys ->
  wf_gdecls (initialized ++ es1 ++ kes) dpost es2 ->
  exists d', build_gdecls (pg_decls p) initialized 0 = ROk (dpre ++ (d', off) :: dpost, initialized ++ es1 ++ kes ++ es2)
             /\ gdecl_errors d' = ys /\ same_body d d'.
Proof.
  intros Hc Hds Hpre Hd Hpost. unfold tree_clean in Hc. apply andb_true_iff in Hc. destruct Hc as [Hcd _]. rewrite Hds in Hcd.
  apply forallb_app_inv in Hcd. destruct Hcd as [_ [Hcd _]]. cbn [fst] in Hcd.
  pose proof (int_ok_app _ es1 int_ok_initialized) as Hint1.
  destruct (fault_gdecl_sound _ _ _ _ _ Hint1 Hd Hcd) as [d' [Hb [He Hs]]].
  exists d'. split; [|split; assumption]. rewrite Hds.
  apply (build_gdecls_app dpre ((d, off) :: dpost) initialized 0 dpre (initialized ++ es1)).
  - apply build_gdecls_sound; [exact int_ok_initialized | exact Hpre].
  - cbn [build_gdecls]. change (0 + off) with off. rewrite Hb. cbn [rbind].
    rewrite <- app_assoc. rewrite (build_gdecls_sound _ _ _ (int_ok_app _ _ int_ok_initialized) Hpost). cbn [rbind].
    rewrite <- !app_assoc. reflexivity.
Qed.

(* analyze and errors() on the tree `build` returns *)
Lemma decl_fault_finish p G dpre d d' off dpost minfo :
  tree_clean p = true -> pg_decls p = dpre ++ (d, off) :: dpost -> same_body d d' -> wt_bodies G p ->
  analyze_res {| pg_decls := dpre ++ (d', off) :: dpost; pg_info := minfo |} G
  = ROk {| pg_decls := dpre ++ (d', off) :: dpost; pg_info := minfo |} /\
  tree_errors {| pg_decls := dpre ++ (d', off) :: dpost; pg_info := minfo |} = i_errs minfo ++ shift_es off (gdecl_errors d').
Proof.
  intros Hc Hds Hs Hwt. split.
  - apply analyze_sound. unfold wt_bodies in *. cbn [pg_decls]. rewrite Hds in Hwt.
    apply Forall_app in Hwt. destruct Hwt as [Hpre Hrest]. inversion Hrest as [|x l Hd Hpost]; subst.
    apply Forall_app. split; [exact Hpre|]. constructor; [|exact Hpost]. exact (same_body_entry _ _ _ _ Hs Hd).
  - unfold tree_clean in Hc. apply andb_true_iff in Hc. destruct Hc as [Hcd _]. rewrite Hds in Hcd.
    apply forallb_app_inv in Hcd. destruct Hcd as [Hcpre [_ Hcpost]].
    unfold tree_errors. cbn [pg_info pg_decls]. rewrite flat_map_app. cbn [flat_map fst snd].
    fold (gdecls_errors dpre). fold (gdecls_errors dpost).
    rewrite (gdecls_errors_clean _ Hcpre), (gdecls_errors_clean _ Hcpost), app_nil_r. reflexivity.
Qed.

Lemma clean_program_errors p minfo G :
  tree_clean p = true -> wt_bodies G p ->
  analyze_res {| pg_decls := pg_decls p; pg_info := minfo |} G = ROk {| pg_decls := pg_decls p; pg_info := minfo |} /\
  tree_errors {| pg_decls := pg_decls p; pg_info := minfo |} = i_errs minfo.
Proof.
  intros Hc Hwt. split; [apply analyze_sound; exact Hwt|].
  unfold tree_clean in Hc. apply andb_true_iff in Hc. destruct Hc as [Hcd _].
  unfold tree_errors. cbn [pg_info pg_decls]. fold (gdecls_errors (pg_decls p)).
  rewrite (gdecls_errors_clean _ Hcd), app_nil_r. reflexivity.
Qed.

Lemma wf_params_nonempty G pname L ps L' es : wf_params G pname L ps L' es -> ps <> [] -> es <> [].
Proof. intros H. destruct H; [intros Hn; contradiction | intros _; discriminate]. Qed.

Lemma shift_es_shift_e off x : shift_es off [x] = [shift_e off x].
Proof. reflexivity. Qed.

Theorem decl_fault_sound p G ys :
  tree_clean p = true -> decl_fault_program p G ys ->
  exists p1, build_res p = ROk (p1, G) /\ analyze_res p1 G = ROk p1 /\ tree_errors p1 = ys.
Proof.
  intros Hc H. pose proof Hc as Hc'. unfold tree_clean in Hc'. apply andb_true_iff in Hc'. destruct Hc' as [_ Hci].
  destruct H as [dpre d off dpost es1 kes es2 ys Hds Hpre Hd Hpost -> [pe [Hmain Hnp]] Hwt
                | dpre d off dpost es1 es2 name te o t Hds Hpre Hn Hm Hty Hden He Hpost -> Hmain Hwt
                | es Hwf -> Hmain Hwt
                | dpre d off dpost es name Hds Hn Hm Hps His He Hwf -> Hwt].
  - destruct (decl_fault_build _ _ _ _ _ _ _ _ _ Hc Hds Hpre Hd Hpost) as [d' [Hb [Hes Hs]]].
    destruct (decl_fault_finish p _ dpre d d' off dpost (pg_info p) Hc Hds Hs Hwt) as [Ha Ht].
    eexists. split; [|split; [exact Ha|]].
    + unfold build_res, build_program. rewrite Hb. cbn [rbind]. rewrite Hmain, Hnp. reflexivity.
    + rewrite Ht, (clean_nil _ Hci), Hes. reflexivity.
  - assert (Hd : fault_gdecl (initialized ++ es1) off (GType d) [] [name_err name (EBuild MainIsNotAProcedure)])
      by (eapply FG_type_main; eassumption).
    destruct (decl_fault_build _ _ _ _ _ _ [] _ _ Hc Hds Hpre Hd ltac:(rewrite app_nil_r; exact Hpost)) as [d' [Hb [Hes Hs]]].
    cbn [app] in Hb.
    destruct (decl_fault_finish p _ dpre _ d' off dpost
                (info_append (pg_info p) (mkerr_t (0, 0) (EBuild MainIsMissing))) Hc Hds Hs Hwt) as [Ha Ht].
    eexists. split; [|split; [exact Ha|]].
    + unfold build_res, build_program. rewrite Hb. cbn [rbind]. rewrite Hmain. reflexivity.
    + rewrite Ht, Hes. cbn [info_append i_errs]. rewrite (clean_nil _ Hci). reflexivity.
  - destruct (clean_program_errors p (info_append (pg_info p) (mkerr_t (0, 0) (EBuild MainIsMissing))) _ Hc Hwt) as [Ha Ht].
    eexists. split; [|split; [exact Ha|]].
    + apply rule_main_is_missing; [apply build_gdecls_sound; [exact int_ok_initialized | exact Hwf] | exact Hmain].
    + rewrite Ht. cbn [info_append i_errs]. rewrite (clean_nil _ Hci). reflexivity.
  - (* the entry of main *)
    pose proof Hwf as Hwf'. rewrite Hds in Hwf'. apply wf_gdecls_app_inv in Hwf'. destruct Hwf' as [es1 [es2 [-> [H1 H2]]]].
    inversion H2 as [|G0 d0 off0 ke r0 es0 Hd Hr]; subst.
    inversion Hd as [|d0 name0 L1 ps L2 Hn0 Hfresh Hp Hv]; subst. rewrite Hn in Hn0. injection Hn0 as <-.
    pose proof (wf_params_nonempty _ _ _ _ _ _ Hp Hps) as Hne.
    set (main := {| pe_name := name; pe_local := L2; pe_params := ps;
                    pe_range := shift_range (info_range (pd_info d)) off; pe_doc := doc_of (pd_doc d) |}) in *.
    assert (Hmain : lookup (initialized ++ es1 ++ (id_val name, GProcE main) :: es0) s_main = Some (GProcE main)).
    { rewrite app_assoc. rewrite lookup_app_none; [|rewrite <- Hm; exact Hfresh].
      cbn [lookup]. rewrite Hm, text_eqb_refl. reflexivity. }
    set (x := mkerr_t (i_e (id_info (pe_name main)) - 1 + fst (pe_range main), i_e (id_info (pe_name main)) + fst (pe_range main))
                      (EBuild MainMustNotHaveParameters)).
    destruct (clean_program_errors p (info_append (pg_info p) x) _ Hc Hwt) as [Ha Ht].
    eexists. split; [|split; [exact Ha|]].
    + apply rule_main_must_not_have_parameters; [apply build_gdecls_sound; [exact int_ok_initialized | exact Hwf] | exact Hmain | exact Hne | exact He].
    + rewrite Ht. cbn [info_append i_errs]. rewrite (clean_nil _ Hci). cbn [app]. f_equal.
      unfold x, main, mkerr_t, shift_e, name_err. cbn [pe_name pe_range fst snd shift_range info_range e_s e_e e_m]. rewrite His.
      f_equal; lia.
Qed.
