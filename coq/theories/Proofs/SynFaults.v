(* C03 - single SYNTAX faults, family A: the `;` that closes an assignment or a call statement is missing.

   A program with exactly one such fault is described DIRECTLY (a zipper through Spec/Grammar.v): `fstmt` is a statement
   in which exactly one assignment / call has lost its `;` (the leaves FAsg / FCal), everything around it being ordinary
   abstract syntax; `fstmts` a statement sequence with one such statement, `fdecl` a procedure whose body is one, `fprog`
   a program with one such procedure.

     orig_*     the VALID program the faulty one stems from: the `;` put back (with an empty comment slot in front of it;
                comments that stood in front of the deleted `;` now stand in front of the next token and belong to ITS slot)
     ffl_*      the token kinds of the faulty program  (= `fl_* (orig_* _)` with that one Semic removed: ffl_ins)
     fx_*       the tree SPL's parser is to build: the mandated tree of the original, except that
                  - the node of the statement that lost its `;` ends one token earlier and carries ONE error,
                    MissingTrailingSemic with the EMPTY range (g, g), g = the index of the token in front of the gap,
                  - every range / Reference offset behind the gap is one smaller
     gap_*      g, relative to the first token of the construct
     after_*    the tokens behind the gap (to say: the token behind the gap is not `;` - otherwise nothing is missing)

   Proofs: SynFaultsStmt.v (statements), SynFaultsProg.v (programs, parse), SynFaultsText.v (errors, analysis, texts). *)
From Coq Require Import List Lia Arith Bool.
From Spl Require Import Spec.Grammar Model.Parser.
Import ListNotations.
Local Open Scope nat_scope.

(* ---- the faulty syntax ---- *)
Inductive fstmt :=
| FAsg (v : avar) (c1 : cs) (e : acmp)                                  (* v c1 := e            `;` missing *)
| FCal (c1 : cs) (f : text) (c2 : cs) (a : aargs) (c3 : cs)             (* c1 f c2 ( a c3 )     `;` missing *)
| FIfT (c1 c2 : cs) (e : acmp) (c3 : cs) (t : fstmt)                    (* if without else, fault in the branch *)
| FIfE1 (c1 c2 : cs) (e : acmp) (c3 : cs) (t : fstmt) (c4 : cs) (s : astmt)   (* fault in the then-branch *)
| FIfE2 (c1 c2 : cs) (e : acmp) (c3 : cs) (t : astmt) (c4 : cs) (s : fstmt)   (* fault in the else-branch *)
| FWhl (c1 c2 : cs) (e : acmp) (c3 : cs) (b : fstmt)
| FBlk (c1 : cs) (b : fstmts) (c2 : cs)
with fstmts :=
| FHere (s : fstmt) (r : astmts)
| FLater (s : astmt) (r : fstmts).

(* c1 proc c2 x c3 ( ps c4 ) c5 { vs b c6 } with the fault in b *)
Inductive fdecl := FProc (c1 c2 : cs) (x : text) (c3 : cs) (ps : aparams) (c4 c5 : cs) (vs : list avardecl) (b : fstmts) (c6 : cs).

Record fprog := { fp_pre : list adecl; fp_decl : fdecl; fp_post : list adecl; fp_ceof : cs }.

(* ---- the valid program it stems from ---- *)
Fixpoint orig_stmt (s : fstmt) : astmt :=
  match s with
  | FAsg v c1 e => SAsg v c1 e []
  | FCal c1 f c2 a c3 => SCal c1 f c2 a c3 []
  | FIfT c1 c2 e c3 t => SIfT c1 c2 e c3 (orig_stmt t)
  | FIfE1 c1 c2 e c3 t c4 s' => SIfE c1 c2 e c3 (orig_stmt t) c4 s'
  | FIfE2 c1 c2 e c3 t c4 s' => SIfE c1 c2 e c3 t c4 (orig_stmt s')
  | FWhl c1 c2 e c3 b => SWhl c1 c2 e c3 (orig_stmt b)
  | FBlk c1 b c2 => SBlk c1 (orig_stmts b) c2
  end
with orig_stmts (b : fstmts) : astmts :=
  match b with
  | FHere s r => SCons (orig_stmt s) r
  | FLater s r => SCons s (orig_stmts r)
  end.

Definition orig_decl (d : fdecl) : adecl :=
  match d with FProc c1 c2 x c3 ps c4 c5 vs b c6 => DProc c1 c2 x c3 ps c4 c5 vs (orig_stmts b) c6 end.

Definition orig_prog (p : fprog) : aprog :=
  {| a_decls := fp_pre p ++ orig_decl (fp_decl p) :: fp_post p; a_ceof := fp_ceof p |}.

(* ---- its tokens ---- *)
Fixpoint ffl_stmt (s : fstmt) : list kind :=
  match s with
  | FAsg v c1 e => fl_var v ++ cm c1 ++ Assign :: fl_cmp e
  | FCal c1 f c2 a c3 => cm c1 ++ Ident f :: cm c2 ++ LParen :: fl_sep fl_cmp a ++ cm c3 ++ [RParen]
  | FIfT c1 c2 e c3 t => cm c1 ++ KIf :: cm c2 ++ LParen :: fl_cmp e ++ cm c3 ++ RParen :: ffl_stmt t
  | FIfE1 c1 c2 e c3 t c4 s' =>
      cm c1 ++ KIf :: cm c2 ++ LParen :: fl_cmp e ++ cm c3 ++ RParen :: ffl_stmt t ++ cm c4 ++ KElse :: fl_stmt s'
  | FIfE2 c1 c2 e c3 t c4 s' =>
      cm c1 ++ KIf :: cm c2 ++ LParen :: fl_cmp e ++ cm c3 ++ RParen :: fl_stmt t ++ cm c4 ++ KElse :: ffl_stmt s'
  | FWhl c1 c2 e c3 b => cm c1 ++ KWhile :: cm c2 ++ LParen :: fl_cmp e ++ cm c3 ++ RParen :: ffl_stmt b
  | FBlk c1 b c2 => cm c1 ++ LCurly :: ffl_stmts b ++ cm c2 ++ [RCurly]
  end
with ffl_stmts (b : fstmts) : list kind :=
  match b with
  | FHere s r => ffl_stmt s ++ fl_stmts r
  | FLater s r => fl_stmt s ++ ffl_stmts r
  end.

Definition ffl_decl (d : fdecl) : list kind :=
  match d with
  | FProc c1 c2 x c3 ps c4 c5 vs b c6 =>
      cm c1 ++ KProc :: cm c2 ++ Ident x :: cm c3 ++ LParen :: fl_sep fl_param ps ++ cm c4 ++ RParen :: cm c5 ++ LCurly ::
      flat_map fl_vardecl vs ++ ffl_stmts b ++ cm c6 ++ [RCurly]
  end.

(* the token kinds of the faulty program, without the final Eof *)
Definition fflatten (p : fprog) : list kind :=
  flat_map fl_decl (fp_pre p) ++ ffl_decl (fp_decl p) ++ flat_map fl_decl (fp_post p) ++ cm (fp_ceof p).

(* ---- the gap: index of the token in front of it, relative to the construct's first token ---- *)
Fixpoint gap_stmt (s : fstmt) : nat :=
  match s with
  | FAsg _ _ _ | FCal _ _ _ _ _ => len (ffl_stmt s) - 1
  | FIfT c1 c2 e c3 t | FIfE1 c1 c2 e c3 t _ _ | FWhl c1 c2 e c3 t => len c1 + 1 + len c2 + 1 + len (fl_cmp e) + len c3 + 1 + gap_stmt t
  | FIfE2 c1 c2 e c3 t c4 s' => len c1 + 1 + len c2 + 1 + len (fl_cmp e) + len c3 + 1 + len (fl_stmt t) + len c4 + 1 + gap_stmt s'
  | FBlk c1 b _ => len c1 + 1 + gap_stmts b
  end
with gap_stmts (b : fstmts) : nat :=
  match b with
  | FHere s _ => gap_stmt s
  | FLater s r => len (fl_stmt s) + gap_stmts r
  end.

Definition gap_decl (d : fdecl) : nat :=
  match d with
  | FProc c1 c2 x c3 ps c4 c5 vs b c6 =>
      len c1 + 1 + len c2 + 1 + len c3 + 1 + len (fl_sep fl_param ps) + len c4 + 1 + len c5 + 1 + len (flat_map fl_vardecl vs)
      + gap_stmts b
  end.

(* absolute: the index, in the token vector, of the token in front of the gap *)
Definition gap_prog (p : fprog) : nat := len (flat_map fl_decl (fp_pre p)) + gap_decl (fp_decl p).

(* ---- what stands behind the gap, given what stands behind the construct ---- *)
Fixpoint after_stmt (s : fstmt) (rest : list kind) : list kind :=
  match s with
  | FAsg _ _ _ | FCal _ _ _ _ _ => rest
  | FIfT _ _ _ _ t | FWhl _ _ _ _ t => after_stmt t rest
  | FIfE1 _ _ _ _ t c4 s' => after_stmt t (cm c4 ++ KElse :: fl_stmt s' ++ rest)
  | FIfE2 _ _ _ _ _ _ s' => after_stmt s' rest
  | FBlk _ b c2 => after_stmts b (cm c2 ++ RCurly :: rest)
  end
with after_stmts (b : fstmts) (rest : list kind) : list kind :=
  match b with
  | FHere s r => after_stmt s (fl_stmts r ++ rest)
  | FLater _ r => after_stmts r rest
  end.

Definition after_decl (d : fdecl) (rest : list kind) : list kind :=
  match d with FProc _ _ _ _ _ _ _ _ b c6 => after_stmts b (cm c6 ++ RCurly :: rest) end.

Definition after_prog (p : fprog) : list kind :=
  after_decl (fp_decl p) (flat_map fl_decl (fp_post p) ++ cm (fp_ceof p) ++ [Eof]).

(* the first token that is not a comment *)
Fixpoint next_sig (l : list kind) : option kind :=
  match l with
  | [] => None
  | Comment _ :: r => next_sig r
  | k :: _ => Some k
  end.

(* the token behind the gap is not `;`: with a `;` there, nothing would be missing (the `;` of an empty statement
   would close the statement) *)
Definition gap_open (l : list kind) : bool :=
  match next_sig l with Some Semic => false | _ => true end.

(* a single-fault variant: the original is a valid program (no dangling else), and the gap is a gap *)
Definition fprog_ok (p : fprog) : bool := prog_ok (orig_prog p) && gap_open (after_prog p).

(* ---- the mandated tree ---- *)
Definition gap_err (m : pmsg) (g : nat) : err := {| e_s := g; e_e := g; e_m := EParse m |}.
(* a node of n tokens at o whose last expected token is missing: one error, the empty range at its last token *)
Definition finfo (m : pmsg) (o n : nat) : info := {| i_s := o; i_e := o + n; i_errs := [gap_err m (o + n - 1)] |}.

Fixpoint fx_stmt (o : nat) (s : fstmt) : stmt :=
  match s with
  | FAsg v c1 e =>
      SAssign (x_var o v) (Some (x_cmp 0 e, o + len (fl_var v) + len c1 + 1)) (finfo MissingTrailingSemic o (len (ffl_stmt s)))
  | FCal c1 f c2 a c3 =>
      SCall (x_ident o c1 f) (x_sep fl_cmp (x_cmp 0) (o + len c1 + 1 + len c2 + 1) a) (finfo MissingTrailingSemic o (len (ffl_stmt s)))
  | FIfT c1 c2 e c3 t =>
      let o_e := o + len c1 + 1 + len c2 + 1 in
      let o_t := o_e + len (fl_cmp e) + len c3 + 1 in
      SIf (Some (x_cmp 0 e, o_e)) (Some (fx_stmt 0 t, o_t)) None (mkinfo o (o + len (ffl_stmt s)))
  | FIfE1 c1 c2 e c3 t c4 s' =>
      let o_e := o + len c1 + 1 + len c2 + 1 in
      let o_t := o_e + len (fl_cmp e) + len c3 + 1 in
      let o_s := o_t + len (ffl_stmt t) + len c4 + 1 in
      SIf (Some (x_cmp 0 e, o_e)) (Some (fx_stmt 0 t, o_t)) (Some (x_stmt 0 s', o_s)) (mkinfo o (o + len (ffl_stmt s)))
  | FIfE2 c1 c2 e c3 t c4 s' =>
      let o_e := o + len c1 + 1 + len c2 + 1 in
      let o_t := o_e + len (fl_cmp e) + len c3 + 1 in
      let o_s := o_t + len (fl_stmt t) + len c4 + 1 in
      SIf (Some (x_cmp 0 e, o_e)) (Some (x_stmt 0 t, o_t)) (Some (fx_stmt 0 s', o_s)) (mkinfo o (o + len (ffl_stmt s)))
  | FWhl c1 c2 e c3 b =>
      let o_e := o + len c1 + 1 + len c2 + 1 in
      let o_b := o_e + len (fl_cmp e) + len c3 + 1 in
      SWhile (Some (x_cmp 0 e, o_e)) (Some (fx_stmt 0 b, o_b)) (mkinfo o (o + len (ffl_stmt s)))
  | FBlk c1 b c2 => SBlock (fx_stmts (o + len c1 + 1) b) (mkinfo o (o + len (ffl_stmt s)))
  end
with fx_stmts (o : nat) (b : fstmts) : list (stmt * nat) :=
  match b with
  | FHere s r => (fx_stmt 0 s, o) :: x_stmts (o + len (ffl_stmt s)) r
  | FLater s r => (x_stmt 0 s, o) :: fx_stmts (o + len (fl_stmt s)) r
  end.

Definition fx_decl (d : fdecl) : gdecl :=
  match d with
  | FProc c1 c2 x c3 ps c4 c5 vs b c6 =>
      let o_ps := len c1 + 1 + len c2 + 1 + len c3 + 1 in
      let o_vs := o_ps + len (fl_sep fl_param ps) + len c4 + 1 + len c5 + 1 in
      GProc {| pd_doc := c1; pd_name := Some (x_ident (len c1 + 1) c2 x);
               pd_params := x_sep fl_param x_param o_ps ps;
               pd_vars := x_vardecls o_vs vs;
               pd_stmts := fx_stmts (o_vs + len (flat_map fl_vardecl vs)) b;
               pd_info := mkinfo 0 (len (ffl_decl d)) |}
  end.

Definition fexpected (p : fprog) : program :=
  let o := len (flat_map fl_decl (fp_pre p)) in
  {| pg_decls := x_decls 0 (fp_pre p) ++ (fx_decl (fp_decl p), o) :: x_decls (o + len (ffl_decl (fp_decl p))) (fp_post p);
     pg_info := mkinfo 0 (o + len (ffl_decl (fp_decl p)) + len (flat_map fl_decl (fp_post p))) |}.

(* ---- the faulty tokens are the original's with one Semic taken out ---- *)
Definition ins {A} (n : nat) (x : A) (l : list A) : list A := firstn n l ++ x :: skipn n l.

Lemma ins_end {A} (x : A) l : ins (len l) x l = l ++ [x].
Proof. unfold ins. rewrite firstn_all, skipn_all. reflexivity. Qed.

Lemma ins_app_l {A} n (x : A) l1 l2 : n <= len l1 -> ins n x (l1 ++ l2) = ins n x l1 ++ l2.
Proof.
  intros H. unfold ins. rewrite firstn_app, skipn_app. replace (n - len l1) with 0 by lia.
  cbn [firstn skipn]. rewrite app_nil_r, <- app_assoc. reflexivity.
Qed.

Lemma ins_app_r {A} n (x : A) l1 l2 : ins (len l1 + n) x (l1 ++ l2) = l1 ++ ins n x l2.
Proof.
  unfold ins. rewrite firstn_app, skipn_app. replace (len l1 + n - len l1) with n by lia.
  rewrite firstn_all2 by lia. rewrite skipn_all2 by lia. rewrite <- app_assoc. reflexivity.
Qed.

Lemma ins_cons {A} n (x y : A) l : ins (S n) x (y :: l) = y :: ins n x l.
Proof. reflexivity. Qed.

Lemma ins_length {A} n (x : A) l : len (ins n x l) = S (len l).
Proof.
  unfold ins. rewrite app_length. cbn [length]. rewrite Nat.add_succ_r, <- app_length, firstn_skipn. reflexivity.
Qed.

Lemma cm_len c : len (cm c) = len c.
Proof. apply map_length. Qed.

Ltac flens :=
  cbn [fl_var fl_fac fl_mul fl_add fl_cmp fl_type fl_stmt fl_stmts ffl_stmt ffl_stmts];
  repeat (rewrite app_length || rewrite cm_len || cbn [length]).

Scheme fstmt_mind := Induction for fstmt Sort Prop
  with fstmts_mind := Induction for fstmts Sort Prop.
Combined Scheme fstmt_mutind from fstmt_mind, fstmts_mind.

Lemma fl_var_pos v : 1 <= len (fl_var v).
Proof. destruct v as [c x|v c1 e c2]; cbn [fl_var]; rewrite !app_length; cbn [length]; lia. Qed.

Lemma ffl_pos :
  (forall s, gap_stmt s < len (ffl_stmt s)) /\ (forall b, gap_stmts b < len (ffl_stmts b)).
Proof.
  apply fstmt_mutind; intros; cbn [gap_stmt gap_stmts]; flens; lia.
Qed.

Lemma ins_pre {A} n m (x : A) pre l : n = len pre + m -> ins n x (pre ++ l) = pre ++ ins m x l.
Proof. intros ->. apply ins_app_r. Qed.

Ltac norm_app := repeat (rewrite <- app_assoc || cbn [app]).

Lemma ffl_ins :
  (forall s, ins (S (gap_stmt s)) Semic (ffl_stmt s) = fl_stmt (orig_stmt s)) /\
  (forall b, ins (S (gap_stmts b)) Semic (ffl_stmts b) = fl_stmts (orig_stmts b)).
Proof.
  apply fstmt_mutind.
  - intros v c1 e. cbn [gap_stmt orig_stmt fl_stmt]. pose proof (fl_var_pos v).
    replace (S (len (ffl_stmt (FAsg v c1 e)) - 1)) with (len (ffl_stmt (FAsg v c1 e))) by (flens; lia).
    rewrite ins_end. cbn [ffl_stmt cm map]. norm_app. reflexivity.
  - intros c1 f c2 a c3. cbn [gap_stmt orig_stmt fl_stmt].
    replace (S (len (ffl_stmt (FCal c1 f c2 a c3)) - 1)) with (len (ffl_stmt (FCal c1 f c2 a c3))) by (flens; lia).
    rewrite ins_end. cbn [ffl_stmt cm map]. norm_app. reflexivity.
  - intros c1 c2 e c3 t IH. cbn [orig_stmt fl_stmt]. rewrite <- IH.
    replace (ffl_stmt (FIfT c1 c2 e c3 t)) with ((cm c1 ++ KIf :: cm c2 ++ LParen :: fl_cmp e ++ cm c3 ++ [RParen]) ++ ffl_stmt t)
      by (cbn [ffl_stmt]; norm_app; reflexivity).
    rewrite (ins_pre _ (S (gap_stmt t))) by (cbn [gap_stmt]; flens; lia). norm_app. reflexivity.
  - intros c1 c2 e c3 t IH c4 s. cbn [orig_stmt fl_stmt]. rewrite <- IH.
    replace (ffl_stmt (FIfE1 c1 c2 e c3 t c4 s))
      with ((cm c1 ++ KIf :: cm c2 ++ LParen :: fl_cmp e ++ cm c3 ++ [RParen]) ++ ffl_stmt t ++ cm c4 ++ KElse :: fl_stmt s)
      by (cbn [ffl_stmt]; norm_app; reflexivity).
    rewrite (ins_pre _ (S (gap_stmt t))) by (cbn [gap_stmt]; flens; lia).
    rewrite ins_app_l by (pose proof (proj1 ffl_pos t); lia). norm_app. reflexivity.
  - intros c1 c2 e c3 t c4 s IH. cbn [orig_stmt fl_stmt]. rewrite <- IH.
    replace (ffl_stmt (FIfE2 c1 c2 e c3 t c4 s))
      with ((cm c1 ++ KIf :: cm c2 ++ LParen :: fl_cmp e ++ cm c3 ++ RParen :: fl_stmt t ++ cm c4 ++ [KElse]) ++ ffl_stmt s)
      by (cbn [ffl_stmt]; norm_app; reflexivity).
    rewrite (ins_pre _ (S (gap_stmt s))) by (cbn [gap_stmt]; flens; lia). norm_app. reflexivity.
  - intros c1 c2 e c3 b IH. cbn [orig_stmt fl_stmt]. rewrite <- IH.
    replace (ffl_stmt (FWhl c1 c2 e c3 b)) with ((cm c1 ++ KWhile :: cm c2 ++ LParen :: fl_cmp e ++ cm c3 ++ [RParen]) ++ ffl_stmt b)
      by (cbn [ffl_stmt]; norm_app; reflexivity).
    rewrite (ins_pre _ (S (gap_stmt b))) by (cbn [gap_stmt]; flens; lia). norm_app. reflexivity.
  - intros c1 b IH c2. cbn [orig_stmt fl_stmt]. rewrite <- IH.
    replace (ffl_stmt (FBlk c1 b c2)) with ((cm c1 ++ [LCurly]) ++ ffl_stmts b ++ cm c2 ++ [RCurly])
      by (cbn [ffl_stmt]; norm_app; reflexivity).
    rewrite (ins_pre _ (S (gap_stmts b))) by (cbn [gap_stmt]; flens; lia).
    rewrite ins_app_l by (pose proof (proj2 ffl_pos b); lia). norm_app. reflexivity.
  - intros s IH r. cbn [orig_stmts fl_stmts ffl_stmts gap_stmts]. rewrite <- IH.
    rewrite ins_app_l by (pose proof (proj1 ffl_pos s); lia). reflexivity.
  - intros s r IH. cbn [orig_stmts fl_stmts ffl_stmts gap_stmts]. rewrite <- IH.
    rewrite (ins_pre _ (S (gap_stmts r))) by lia. reflexivity.
Qed.

Lemma ffl_decl_ins d : ins (S (gap_decl d)) Semic (ffl_decl d) = fl_decl (orig_decl d).
Proof.
  destruct d as [c1 c2 x c3 ps c4 c5 vs b c6]. cbn [orig_decl fl_decl]. rewrite <- (proj2 ffl_ins b).
  replace (ffl_decl (FProc c1 c2 x c3 ps c4 c5 vs b c6))
    with ((cm c1 ++ KProc :: cm c2 ++ Ident x :: cm c3 ++ LParen :: fl_sep fl_param ps ++ cm c4 ++ RParen :: cm c5 ++ LCurly ::
           flat_map fl_vardecl vs) ++ ffl_stmts b ++ cm c6 ++ [RCurly])
    by (cbn [ffl_decl]; norm_app; reflexivity).
  rewrite (ins_pre _ (S (gap_stmts b))) by (cbn [gap_decl]; flens; lia).
  rewrite ins_app_l by (pose proof (proj2 ffl_pos b); lia). norm_app. reflexivity.
Qed.

Lemma gap_decl_lt d : gap_decl d < len (ffl_decl d).
Proof.
  destruct d as [c1 c2 x c3 ps c4 c5 vs b c6]. pose proof (proj2 ffl_pos b). cbn [gap_decl ffl_decl]. flens. lia.
Qed.

(* the faulty token vector is the original one with the `;` behind token number gap_prog taken out *)
Theorem fflatten_ins p : ins (S (gap_prog p)) Semic (fflatten p) = flatten (orig_prog p).
Proof.
  unfold fflatten, flatten, orig_prog, gap_prog. cbn [a_decls a_ceof]. rewrite flat_map_app. cbn [flat_map].
  rewrite <- ffl_decl_ins.
  rewrite (ins_pre _ (S (gap_decl (fp_decl p)))) by lia.
  rewrite ins_app_l by (pose proof (gap_decl_lt (fp_decl p)); lia). norm_app. reflexivity.
Qed.

Lemma fflatten_length p : len (flatten (orig_prog p)) = S (len (fflatten p)).
Proof. rewrite <- fflatten_ins. apply ins_length. Qed.

Lemma gap_prog_lt p : gap_prog p < len (fflatten p).
Proof.
  unfold gap_prog, fflatten. pose proof (gap_decl_lt (fp_decl p)). rewrite !app_length. lia.
Qed.
