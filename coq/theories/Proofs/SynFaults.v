(* C03 - single SYNTAX faults: ONE required closing token is missing.

   A program with exactly one such fault is described DIRECTLY, as a zipper through Spec/Grammar.v: `fstmt` is a statement
   in which exactly one token is missing (at a leaf), everything around it being ordinary abstract syntax; `fstmts` a
   statement sequence with one such statement, `fdecl` a global declaration with one fault, `fprog` a program with one
   such declaration.  The leaves:
     FAsg, FCal            the `;` that closes an assignment / a call statement
     FCalP                 the `)` that closes the argument list of a call statement
     FIfP, FIfPE, FWhlP    the `)` that closes the condition of an if (without / with else) / a while
     FProcV                the `;` of a local variable declaration
     FProcC                the `}` that closes a procedure body
     FType                 the `;` of a type declaration
     FAsgL, FAsgR, FIfC, FIfEC, FWhlC, FCalA (fargs)
                           a fault inside an expression of the statement - the left- / right-hand side of an assignment, the
                           condition of an if / while, an argument of a call; the faulty expressions are Proofs/SynFaultsE.v:
                           the `)` of a parenthesis (FaParC) or the `]` of an index (VIdxC), at any depth

     orig_*     the VALID program the faulty one stems from: the token put back, with an empty comment slot in front of it
                (comments that stood in front of the deleted token now stand in front of the next one and belong to ITS slot)
     gk_*       the kind of the missing token, msg_of_kind: the message SPL prescribes for it
     ffl_*      the token kinds of the faulty program  (= `fl_* (orig_* _)` with that one token removed: ffl_ins, fflatten_ins)
     gap_*      g: the index of the token in front of the gap (relative to the construct's first token; gap_prog: absolute)
     fxg_* E    the tree SPL's parser is to build (fx_* := fxg_* e_real): the mandated tree of the original, except that
                  - the node whose closing token is missing carries ONE error, msg_of_kind with the EMPTY range (g, g),
                  - every range / Reference offset behind the gap is one smaller;
                fx0_* := fxg_* e_none is the same tree without the error (used to talk about the analysis)
     after_*    the tokens behind the gap (for the condition `gap_open` on the token behind the gap, Proofs/SynFaultsE.v)

   Proofs: SynFaultsEP.v (expressions), SynFaultsArgs.v (argument lists), SynFaultsStmt.v (statements), SynFaultsProg.v
   (declarations, programs, parse), SynFaultsText.v (errors, texts), SynFaultsSem.v (no semantic follow-up). *)
From Coq Require Import List Lia Arith Bool.
From Spl Require Import Spec.Grammar Model.Parser.
From Spl Require Export Proofs.SynFaultsE.
Import ListNotations.
Local Open Scope nat_scope.

(* ---- the faulty syntax ---- *)
(* an argument list with the fault inside one argument *)
Inductive fargs :=
| FArgH (e : fcmp) (l : list (cs * acmp))                                                  (* in the first argument *)
| FArgT (e0 : acmp) (pre : list (cs * acmp)) (c : cs) (e : fcmp) (post : list (cs * acmp)). (* e0 pre c , e post *)

Inductive fstmt :=
| FAsg (v : avar) (c1 : cs) (e : acmp)                                  (* v c1 := e            `;` missing *)
| FCal (c1 : cs) (f : text) (c2 : cs) (a : aargs) (c3 : cs)             (* c1 f c2 ( a c3 )     `;` missing *)
| FCalP (c1 : cs) (f : text) (c2 : cs) (a : aargs) (c4 : cs)            (* c1 f c2 ( a  c4 ;    `)` missing *)
| FIfP (c1 c2 : cs) (e : acmp) (t : astmt)                              (* c1 if c2 ( e  t      `)` missing *)
| FIfPE (c1 c2 : cs) (e : acmp) (t : astmt) (c4 : cs) (s : astmt)       (* c1 if c2 ( e  t c4 else s *)
| FWhlP (c1 c2 : cs) (e : acmp) (b : astmt)                             (* c1 while c2 ( e  b   `)` missing *)
| FAsgL (v : fvar) (c1 : cs) (e : acmp) (c2 : cs)                       (* fault in the left-hand side (an index) *)
| FAsgR (v : avar) (c1 : cs) (e : fcmp) (c2 : cs)                       (* fault in the right-hand side *)
| FIfC (c1 c2 : cs) (e : fcmp) (c3 : cs) (t : astmt)                    (* fault in the condition *)
| FIfEC (c1 c2 : cs) (e : fcmp) (c3 : cs) (t : astmt) (c4 : cs) (s : astmt)
| FWhlC (c1 c2 : cs) (e : fcmp) (c3 : cs) (b : astmt)
| FCalA (c1 : cs) (f : text) (c2 : cs) (a : fargs) (c3 c4 : cs)         (* fault in an argument of a call *)
| FIfT (c1 c2 : cs) (e : acmp) (c3 : cs) (t : fstmt)                    (* if without else, fault in the branch *)
| FIfE1 (c1 c2 : cs) (e : acmp) (c3 : cs) (t : fstmt) (c4 : cs) (s : astmt)   (* fault in the then-branch *)
| FIfE2 (c1 c2 : cs) (e : acmp) (c3 : cs) (t : astmt) (c4 : cs) (s : fstmt)   (* fault in the else-branch *)
| FWhl (c1 c2 : cs) (e : acmp) (c3 : cs) (b : fstmt)
| FBlk (c1 : cs) (b : fstmts) (c2 : cs)
with fstmts :=
| FHere (s : fstmt) (r : astmts)
| FLater (s : astmt) (r : fstmts).

Scheme fstmt_mind := Induction for fstmt Sort Prop
  with fstmts_mind := Induction for fstmts Sort Prop.
Combined Scheme fstmt_mutind from fstmt_mind, fstmts_mind.

Inductive fdecl :=
(* c1 proc c2 x c3 ( ps c4 ) c5 { vs b c6 } with the fault in b *)
| FProc (c1 c2 : cs) (x : text) (c3 : cs) (ps : aparams) (c4 c5 : cs) (vs : list avardecl) (b : fstmts) (c6 : cs)
(* ... { vs1  d1 var d2 y d3 : t  vs2 b c6 }: the `;` of that variable declaration is missing *)
| FProcV (c1 c2 : cs) (x : text) (c3 : cs) (ps : aparams) (c4 c5 : cs) (vs1 : list avardecl)
         (d1 d2 : cs) (y : text) (d3 : cs) (t : atype) (vs2 : list avardecl) (b : astmts) (c6 : cs)
(* ... { vs b : the closing `}` is missing *)
| FProcC (c1 c2 : cs) (x : text) (c3 : cs) (ps : aparams) (c4 c5 : cs) (vs : list avardecl) (b : astmts)
(* c1 type c2 x c3 = t : the `;` is missing *)
| FType (c1 c2 : cs) (x : text) (c3 : cs) (t : atype).

Record fprog := { fp_pre : list adecl; fp_decl : fdecl; fp_post : list adecl; fp_ceof : cs }.

(* ---- the valid program it stems from ---- *)
Definition orig_args (a : fargs) : aargs :=
  match a with
  | FArgH e l => Some (orig_cmp e, l)
  | FArgT e0 pre c e post => Some (e0, pre ++ (c, orig_cmp e) :: post)
  end.
Definition gk_args (a : fargs) : kind := match a with FArgH e _ | FArgT _ _ _ e _ => gk_cmp e end.
Definition ffl_args (a : fargs) : list kind :=
  match a with
  | FArgH e l => ffl_cmp e ++ fl_tail fl_cmp l
  | FArgT e0 pre c e post => fl_cmp e0 ++ fl_tail fl_cmp pre ++ cm c ++ Comma :: ffl_cmp e ++ fl_tail fl_cmp post
  end.
Definition gap_args (a : fargs) : nat :=
  match a with
  | FArgH e _ => gap_cmp e
  | FArgT e0 pre c e _ => len (fl_cmp e0) + len (fl_tail fl_cmp pre) + len c + 1 + gap_cmp e
  end.
Definition after_args (a : fargs) (rest : list kind) : list kind :=
  match a with
  | FArgH e l => after_cmp e (fl_tail fl_cmp l ++ rest)
  | FArgT _ _ _ e post => after_cmp e (fl_tail fl_cmp post ++ rest)
  end.

Fixpoint orig_stmt (s : fstmt) : astmt :=
  match s with
  | FAsg v c1 e => SAsg v c1 e []
  | FCal c1 f c2 a c3 => SCal c1 f c2 a c3 []
  | FCalP c1 f c2 a c4 => SCal c1 f c2 a [] c4
  | FIfP c1 c2 e t => SIfT c1 c2 e [] t
  | FIfPE c1 c2 e t c4 s' => SIfE c1 c2 e [] t c4 s'
  | FWhlP c1 c2 e b => SWhl c1 c2 e [] b
  | FAsgL v c1 e c2 => SAsg (orig_var v) c1 e c2
  | FAsgR v c1 e c2 => SAsg v c1 (orig_cmp e) c2
  | FIfC c1 c2 e c3 t => SIfT c1 c2 (orig_cmp e) c3 t
  | FIfEC c1 c2 e c3 t c4 s' => SIfE c1 c2 (orig_cmp e) c3 t c4 s'
  | FWhlC c1 c2 e c3 b => SWhl c1 c2 (orig_cmp e) c3 b
  | FCalA c1 f c2 a c3 c4 => SCal c1 f c2 (orig_args a) c3 c4
  | FIfT c1 c2 e c3 t => SIfT c1 c2 e c3 (orig_stmt t)
  | FIfE1 c1 c2 e c3 t c4 s' => SIfE c1 c2 e c3 (orig_stmt t) c4 s'
  | FIfE2 c1 c2 e c3 t c4 s' => SIfE c1 c2 e c3 t c4 (orig_stmt s')
  | FWhl c1 c2 e c3 b => SWhl c1 c2 e c3 (orig_stmt b)
  | FBlk c1 b c2 => SBlk c1 (orig_stmts b) c2
  end
with orig_stmts (b : fstmts) : astmts :=
  match b with
  | FHere s r => SCons (orig_stmt s) r
  | FLater s r => SCons s (orig_stmts r)
  end.

Definition fvdecl (d1 d2 : cs) (y : text) (d3 : cs) (t : atype) : avardecl :=
  {| v_c1 := d1; v_c2 := d2; v_x := y; v_c3 := d3; v_t := t; v_c4 := [] |}.

Definition orig_decl (d : fdecl) : adecl :=
  match d with
  | FProc c1 c2 x c3 ps c4 c5 vs b c6 => DProc c1 c2 x c3 ps c4 c5 vs (orig_stmts b) c6
  | FProcV c1 c2 x c3 ps c4 c5 vs1 d1 d2 y d3 t vs2 b c6 => DProc c1 c2 x c3 ps c4 c5 (vs1 ++ fvdecl d1 d2 y d3 t :: vs2) b c6
  | FProcC c1 c2 x c3 ps c4 c5 vs b => DProc c1 c2 x c3 ps c4 c5 vs b []
  | FType c1 c2 x c3 t => DType c1 c2 x c3 t []
  end.

Definition orig_prog (p : fprog) : aprog :=
  {| a_decls := fp_pre p ++ orig_decl (fp_decl p) :: fp_post p; a_ceof := fp_ceof p |}.

(* ---- the missing token and its message ---- *)
Fixpoint gk_stmt (s : fstmt) : kind :=
  match s with
  | FAsg _ _ _ | FCal _ _ _ _ _ => Semic
  | FCalP _ _ _ _ _ | FIfP _ _ _ _ | FIfPE _ _ _ _ _ _ | FWhlP _ _ _ _ => RParen
  | FAsgL v _ _ _ => gk_var v
  | FAsgR _ _ e _ | FIfC _ _ e _ _ | FIfEC _ _ e _ _ _ _ | FWhlC _ _ e _ _ => gk_cmp e
  | FCalA _ _ _ a _ _ => gk_args a
  | FIfT _ _ _ _ t | FIfE1 _ _ _ _ t _ _ | FIfE2 _ _ _ _ _ _ t | FWhl _ _ _ _ t => gk_stmt t
  | FBlk _ b _ => gk_stmts b
  end
with gk_stmts (b : fstmts) : kind :=
  match b with FHere s _ => gk_stmt s | FLater _ r => gk_stmts r end.

Definition gk_decl (d : fdecl) : kind :=
  match d with
  | FProc _ _ _ _ _ _ _ _ b _ => gk_stmts b
  | FProcV _ _ _ _ _ _ _ _ _ _ _ _ _ _ _ _ => Semic
  | FProcC _ _ _ _ _ _ _ _ _ => RCurly
  | FType _ _ _ _ _ => Semic
  end.

Definition gk_prog (p : fprog) : kind := gk_decl (fp_decl p).

(* ---- its tokens ---- *)
Fixpoint ffl_stmt (s : fstmt) : list kind :=
  match s with
  | FAsg v c1 e => fl_var v ++ cm c1 ++ Assign :: fl_cmp e
  | FCal c1 f c2 a c3 => cm c1 ++ Ident f :: cm c2 ++ LParen :: fl_sep fl_cmp a ++ cm c3 ++ [RParen]
  | FCalP c1 f c2 a c4 => cm c1 ++ Ident f :: cm c2 ++ LParen :: fl_sep fl_cmp a ++ cm c4 ++ [Semic]
  | FIfP c1 c2 e t => cm c1 ++ KIf :: cm c2 ++ LParen :: fl_cmp e ++ fl_stmt t
  | FIfPE c1 c2 e t c4 s' => cm c1 ++ KIf :: cm c2 ++ LParen :: fl_cmp e ++ fl_stmt t ++ cm c4 ++ KElse :: fl_stmt s'
  | FWhlP c1 c2 e b => cm c1 ++ KWhile :: cm c2 ++ LParen :: fl_cmp e ++ fl_stmt b
  | FAsgL v c1 e c2 => ffl_var v ++ cm c1 ++ Assign :: fl_cmp e ++ cm c2 ++ [Semic]
  | FAsgR v c1 e c2 => fl_var v ++ cm c1 ++ Assign :: ffl_cmp e ++ cm c2 ++ [Semic]
  | FIfC c1 c2 e c3 t => cm c1 ++ KIf :: cm c2 ++ LParen :: ffl_cmp e ++ cm c3 ++ RParen :: fl_stmt t
  | FIfEC c1 c2 e c3 t c4 s' => cm c1 ++ KIf :: cm c2 ++ LParen :: ffl_cmp e ++ cm c3 ++ RParen :: fl_stmt t ++ cm c4 ++ KElse :: fl_stmt s'
  | FWhlC c1 c2 e c3 b => cm c1 ++ KWhile :: cm c2 ++ LParen :: ffl_cmp e ++ cm c3 ++ RParen :: fl_stmt b
  | FCalA c1 f c2 a c3 c4 => cm c1 ++ Ident f :: cm c2 ++ LParen :: ffl_args a ++ cm c3 ++ RParen :: cm c4 ++ [Semic]
  | FIfT c1 c2 e c3 t => cm c1 ++ KIf :: cm c2 ++ LParen :: fl_cmp e ++ cm c3 ++ RParen :: ffl_stmt t
  | FIfE1 c1 c2 e c3 t c4 s' =>
      cm c1 ++ KIf :: cm c2 ++ LParen :: fl_cmp e ++ cm c3 ++ RParen :: ffl_stmt t ++ cm c4 ++ KElse :: fl_stmt s'
  | FIfE2 c1 c2 e c3 t c4 s' =>
      cm c1 ++ KIf :: cm c2 ++ LParen :: fl_cmp e ++ cm c3 ++ RParen :: fl_stmt t ++ cm c4 ++ KElse :: ffl_stmt s'
  | FWhl c1 c2 e c3 b => cm c1 ++ KWhile :: cm c2 ++ LParen :: fl_cmp e ++ cm c3 ++ RParen :: ffl_stmt b
  | FBlk c1 b c2 => cm c1 ++ LCurly :: ffl_stmts b ++ cm c2 ++ [RCurly]
  end
with ffl_stmts (b : fstmts) : list kind :=
  match b with
  | FHere s r => ffl_stmt s ++ fl_stmts r
  | FLater s r => fl_stmt s ++ ffl_stmts r
  end.

(* d1 var d2 y d3 : t   (no `;`) *)
Definition ffl_vdecl (d1 d2 : cs) (y : text) (d3 : cs) (t : atype) : list kind :=
  cm d1 ++ KVar :: cm d2 ++ Ident y :: cm d3 ++ Colon :: fl_type t.

(* c1 proc c2 x c3 ( ps c4 ) c5 { *)
Definition fl_prochead (c1 c2 : cs) (x : text) (c3 : cs) (ps : aparams) (c4 c5 : cs) : list kind :=
  cm c1 ++ KProc :: cm c2 ++ Ident x :: cm c3 ++ LParen :: fl_sep fl_param ps ++ cm c4 ++ RParen :: cm c5 ++ [LCurly].

Definition ffl_decl (d : fdecl) : list kind :=
  match d with
  | FProc c1 c2 x c3 ps c4 c5 vs b c6 =>
      fl_prochead c1 c2 x c3 ps c4 c5 ++ flat_map fl_vardecl vs ++ ffl_stmts b ++ cm c6 ++ [RCurly]
  | FProcV c1 c2 x c3 ps c4 c5 vs1 d1 d2 y d3 t vs2 b c6 =>
      fl_prochead c1 c2 x c3 ps c4 c5 ++ flat_map fl_vardecl vs1 ++ ffl_vdecl d1 d2 y d3 t ++ flat_map fl_vardecl vs2 ++
      fl_stmts b ++ cm c6 ++ [RCurly]
  | FProcC c1 c2 x c3 ps c4 c5 vs b => fl_prochead c1 c2 x c3 ps c4 c5 ++ flat_map fl_vardecl vs ++ fl_stmts b
  | FType c1 c2 x c3 t => cm c1 ++ KType :: cm c2 ++ Ident x :: cm c3 ++ EqT :: fl_type t
  end.

(* the token kinds of the faulty program, without the final Eof *)
Definition fflatten (p : fprog) : list kind :=
  flat_map fl_decl (fp_pre p) ++ ffl_decl (fp_decl p) ++ flat_map fl_decl (fp_post p) ++ cm (fp_ceof p).

(* ---- the gap: index of the token in front of it, relative to the construct's first token ---- *)
Definition o_cond (c1 c2 : cs) : nat := len c1 + 1 + len c2 + 1.     (* c1 if/while/f c2 (   *)

Fixpoint gap_stmt (s : fstmt) : nat :=
  match s with
  | FAsg _ _ _ | FCal _ _ _ _ _ => len (ffl_stmt s) - 1
  | FCalP c1 f c2 a c4 => o_cond c1 c2 + len (fl_sep fl_cmp a) - 1
  | FIfP c1 c2 e _ | FIfPE c1 c2 e _ _ _ | FWhlP c1 c2 e _ => o_cond c1 c2 + len (fl_cmp e) - 1
  | FAsgL v _ _ _ => gap_var v
  | FAsgR v c1 e _ => len (fl_var v) + len c1 + 1 + gap_cmp e
  | FIfC c1 c2 e _ _ | FIfEC c1 c2 e _ _ _ _ | FWhlC c1 c2 e _ _ => o_cond c1 c2 + gap_cmp e
  | FCalA c1 _ c2 a _ _ => o_cond c1 c2 + gap_args a
  | FIfT c1 c2 e c3 t | FIfE1 c1 c2 e c3 t _ _ | FWhl c1 c2 e c3 t => o_cond c1 c2 + len (fl_cmp e) + len c3 + 1 + gap_stmt t
  | FIfE2 c1 c2 e c3 t c4 s' => o_cond c1 c2 + len (fl_cmp e) + len c3 + 1 + len (fl_stmt t) + len c4 + 1 + gap_stmt s'
  | FBlk c1 b _ => len c1 + 1 + gap_stmts b
  end
with gap_stmts (b : fstmts) : nat :=
  match b with
  | FHere s _ => gap_stmt s
  | FLater s r => len (fl_stmt s) + gap_stmts r
  end.

Definition gap_decl (d : fdecl) : nat :=
  match d with
  | FProc c1 c2 x c3 ps c4 c5 vs b c6 => len (fl_prochead c1 c2 x c3 ps c4 c5) + len (flat_map fl_vardecl vs) + gap_stmts b
  | FProcV c1 c2 x c3 ps c4 c5 vs1 d1 d2 y d3 t vs2 b c6 =>
      len (fl_prochead c1 c2 x c3 ps c4 c5) + len (flat_map fl_vardecl vs1) + len (ffl_vdecl d1 d2 y d3 t) - 1
  | FProcC _ _ _ _ _ _ _ _ _ | FType _ _ _ _ _ => len (ffl_decl d) - 1
  end.

(* absolute: the index, in the token vector, of the token in front of the gap *)
Definition gap_prog (p : fprog) : nat := len (flat_map fl_decl (fp_pre p)) + gap_decl (fp_decl p).

(* ---- what stands behind the gap, given what stands behind the construct ---- *)
Fixpoint after_stmt (s : fstmt) (rest : list kind) : list kind :=
  match s with
  | FAsg _ _ _ | FCal _ _ _ _ _ => rest
  | FCalP _ _ _ _ c4 => cm c4 ++ Semic :: rest
  | FIfP _ _ _ t | FWhlP _ _ _ t => fl_stmt t ++ rest
  | FIfPE _ _ _ t c4 s' => fl_stmt t ++ cm c4 ++ KElse :: fl_stmt s' ++ rest
  | FAsgL v c1 e c2 => after_var v (cm c1 ++ Assign :: fl_cmp e ++ cm c2 ++ Semic :: rest)
  | FAsgR _ _ e c2 => after_cmp e (cm c2 ++ Semic :: rest)
  | FIfC _ _ e c3 t | FWhlC _ _ e c3 t => after_cmp e (cm c3 ++ RParen :: fl_stmt t ++ rest)
  | FIfEC _ _ e c3 t c4 s' => after_cmp e (cm c3 ++ RParen :: fl_stmt t ++ cm c4 ++ KElse :: fl_stmt s' ++ rest)
  | FCalA _ _ _ a c3 c4 => after_args a (cm c3 ++ RParen :: cm c4 ++ Semic :: rest)
  | FIfT _ _ _ _ t | FWhl _ _ _ _ t => after_stmt t rest
  | FIfE1 _ _ _ _ t c4 s' => after_stmt t (cm c4 ++ KElse :: fl_stmt s' ++ rest)
  | FIfE2 _ _ _ _ _ _ s' => after_stmt s' rest
  | FBlk _ b c2 => after_stmts b (cm c2 ++ RCurly :: rest)
  end
with after_stmts (b : fstmts) (rest : list kind) : list kind :=
  match b with
  | FHere s r => after_stmt s (fl_stmts r ++ rest)
  | FLater _ r => after_stmts r rest
  end.

Definition after_decl (d : fdecl) (rest : list kind) : list kind :=
  match d with
  | FProc _ _ _ _ _ _ _ _ b c6 => after_stmts b (cm c6 ++ RCurly :: rest)
  | FProcV _ _ _ _ _ _ _ _ _ _ _ _ _ vs2 b c6 => flat_map fl_vardecl vs2 ++ fl_stmts b ++ cm c6 ++ RCurly :: rest
  | FProcC _ _ _ _ _ _ _ _ _ | FType _ _ _ _ _ => rest
  end.

Definition after_prog (p : fprog) : list kind :=
  after_decl (fp_decl p) (flat_map fl_decl (fp_post p) ++ cm (fp_ceof p) ++ [Eof]).

(* a single-fault variant: the original is a valid program (no dangling else), and the gap is a gap (SynFaultsE.gap_open:
   the token behind it is not the missing token itself, and does not continue an expression in front of the gap) *)
Definition fprog_ok (p : fprog) : bool := prog_ok (orig_prog p) && gap_open (gk_prog p) (after_prog p).

(* ---- the mandated tree ---- *)
Section Tree.
Variable E : pmsg -> nat -> list err.

Notation einfo := (einfo E).

(* every argument is a Reference at its own first token *)
Definition fxg_args (o : nat) (a : fargs) : list (expr * nat) :=
  match a with
  | FArgH e l => (fxg_cmp E 0 e, o) :: x_tail fl_cmp (x_cmp 0) (o + len (ffl_cmp e)) l
  | FArgT e0 pre c e post =>
      let o2 := o + len (fl_cmp e0) + len (fl_tail fl_cmp pre) in
      (x_cmp 0 e0, o) :: x_tail fl_cmp (x_cmp 0) (o + len (fl_cmp e0)) pre ++
      (fxg_cmp E 0 e, o2 + len c + 1) :: x_tail fl_cmp (x_cmp 0) (o2 + len c + 1 + len (ffl_cmp e)) post
  end.

Fixpoint fxg_stmt (o : nat) (s : fstmt) : stmt :=
  match s with
  | FAsg v c1 e =>
      SAssign (x_var o v) (Some (x_cmp 0 e, o + len (fl_var v) + len c1 + 1)) (einfo Semic o (len (ffl_stmt s)) (o + gap_stmt s))
  | FCal c1 f c2 a c3 =>
      SCall (x_ident o c1 f) (x_sep fl_cmp (x_cmp 0) (o + o_cond c1 c2) a) (einfo Semic o (len (ffl_stmt s)) (o + gap_stmt s))
  | FCalP c1 f c2 a c4 =>
      SCall (x_ident o c1 f) (x_sep fl_cmp (x_cmp 0) (o + o_cond c1 c2) a) (einfo RParen o (len (ffl_stmt s)) (o + gap_stmt s))
  | FIfP c1 c2 e t =>
      let o_e := o + o_cond c1 c2 in
      SIf (Some (x_cmp 0 e, o_e)) (Some (x_stmt 0 t, o_e + len (fl_cmp e))) None (einfo RParen o (len (ffl_stmt s)) (o + gap_stmt s))
  | FIfPE c1 c2 e t c4 s' =>
      let o_e := o + o_cond c1 c2 in
      let o_t := o_e + len (fl_cmp e) in
      SIf (Some (x_cmp 0 e, o_e)) (Some (x_stmt 0 t, o_t)) (Some (x_stmt 0 s', o_t + len (fl_stmt t) + len c4 + 1))
          (einfo RParen o (len (ffl_stmt s)) (o + gap_stmt s))
  | FWhlP c1 c2 e b =>
      let o_e := o + o_cond c1 c2 in
      SWhile (Some (x_cmp 0 e, o_e)) (Some (x_stmt 0 b, o_e + len (fl_cmp e))) (einfo RParen o (len (ffl_stmt s)) (o + gap_stmt s))
  | FAsgL v c1 e c2 =>
      SAssign (fxg_var E o v) (Some (x_cmp 0 e, o + len (ffl_var v) + len c1 + 1)) (mkinfo o (o + len (ffl_stmt s)))
  | FAsgR v c1 e c2 =>
      SAssign (x_var o v) (Some (fxg_cmp E 0 e, o + len (fl_var v) + len c1 + 1)) (mkinfo o (o + len (ffl_stmt s)))
  | FIfC c1 c2 e c3 t =>
      let o_e := o + o_cond c1 c2 in
      SIf (Some (fxg_cmp E 0 e, o_e)) (Some (x_stmt 0 t, o_e + len (ffl_cmp e) + len c3 + 1)) None (mkinfo o (o + len (ffl_stmt s)))
  | FIfEC c1 c2 e c3 t c4 s' =>
      let o_e := o + o_cond c1 c2 in
      let o_t := o_e + len (ffl_cmp e) + len c3 + 1 in
      SIf (Some (fxg_cmp E 0 e, o_e)) (Some (x_stmt 0 t, o_t)) (Some (x_stmt 0 s', o_t + len (fl_stmt t) + len c4 + 1))
          (mkinfo o (o + len (ffl_stmt s)))
  | FWhlC c1 c2 e c3 b =>
      let o_e := o + o_cond c1 c2 in
      SWhile (Some (fxg_cmp E 0 e, o_e)) (Some (x_stmt 0 b, o_e + len (ffl_cmp e) + len c3 + 1)) (mkinfo o (o + len (ffl_stmt s)))
  | FCalA c1 f c2 a c3 c4 => SCall (x_ident o c1 f) (fxg_args (o + o_cond c1 c2) a) (mkinfo o (o + len (ffl_stmt s)))
  | FIfT c1 c2 e c3 t =>
      let o_e := o + o_cond c1 c2 in
      let o_t := o_e + len (fl_cmp e) + len c3 + 1 in
      SIf (Some (x_cmp 0 e, o_e)) (Some (fxg_stmt 0 t, o_t)) None (mkinfo o (o + len (ffl_stmt s)))
  | FIfE1 c1 c2 e c3 t c4 s' =>
      let o_e := o + o_cond c1 c2 in
      let o_t := o_e + len (fl_cmp e) + len c3 + 1 in
      let o_s := o_t + len (ffl_stmt t) + len c4 + 1 in
      SIf (Some (x_cmp 0 e, o_e)) (Some (fxg_stmt 0 t, o_t)) (Some (x_stmt 0 s', o_s)) (mkinfo o (o + len (ffl_stmt s)))
  | FIfE2 c1 c2 e c3 t c4 s' =>
      let o_e := o + o_cond c1 c2 in
      let o_t := o_e + len (fl_cmp e) + len c3 + 1 in
      let o_s := o_t + len (fl_stmt t) + len c4 + 1 in
      SIf (Some (x_cmp 0 e, o_e)) (Some (x_stmt 0 t, o_t)) (Some (fxg_stmt 0 s', o_s)) (mkinfo o (o + len (ffl_stmt s)))
  | FWhl c1 c2 e c3 b =>
      let o_e := o + o_cond c1 c2 in
      let o_b := o_e + len (fl_cmp e) + len c3 + 1 in
      SWhile (Some (x_cmp 0 e, o_e)) (Some (fxg_stmt 0 b, o_b)) (mkinfo o (o + len (ffl_stmt s)))
  | FBlk c1 b c2 => SBlock (fxg_stmts (o + len c1 + 1) b) (mkinfo o (o + len (ffl_stmt s)))
  end
with fxg_stmts (o : nat) (b : fstmts) : list (stmt * nat) :=
  match b with
  | FHere s r => (fxg_stmt 0 s, o) :: x_stmts (o + len (ffl_stmt s)) r
  | FLater s r => (x_stmt 0 s, o) :: fxg_stmts (o + len (fl_stmt s)) r
  end.

(* the variable declaration without its `;`: a Reference, its own range starts at 0 *)
Definition fxg_vdecl (d1 d2 : cs) (y : text) (d3 : cs) (t : atype) : vardecl :=
  let n := len (ffl_vdecl d1 d2 y d3 t) in
  VValid d1 (Some (x_ident (len d1 + 1) d2 y)) (Some (x_type 0 t, len d1 + 1 + len d2 + 1 + len d3 + 1)) (einfo Semic 0 n (n - 1)).

Definition fxg_decl (d : fdecl) : gdecl :=
  match d with
  | FProc c1 c2 x c3 ps c4 c5 vs b c6 =>
      let o_vs := len (fl_prochead c1 c2 x c3 ps c4 c5) in
      GProc {| pd_doc := c1; pd_name := Some (x_ident (len c1 + 1) c2 x);
               pd_params := x_sep fl_param x_param (len c1 + 1 + len c2 + 1 + len c3 + 1) ps;
               pd_vars := x_vardecls o_vs vs;
               pd_stmts := fxg_stmts (o_vs + len (flat_map fl_vardecl vs)) b;
               pd_info := mkinfo 0 (len (ffl_decl d)) |}
  | FProcV c1 c2 x c3 ps c4 c5 vs1 d1 d2 y d3 t vs2 b c6 =>
      let o_vs := len (fl_prochead c1 c2 x c3 ps c4 c5) in
      let o_v := o_vs + len (flat_map fl_vardecl vs1) in
      let o_v2 := o_v + len (ffl_vdecl d1 d2 y d3 t) in
      GProc {| pd_doc := c1; pd_name := Some (x_ident (len c1 + 1) c2 x);
               pd_params := x_sep fl_param x_param (len c1 + 1 + len c2 + 1 + len c3 + 1) ps;
               pd_vars := x_vardecls o_vs vs1 ++ (fxg_vdecl d1 d2 y d3 t, o_v) :: x_vardecls o_v2 vs2;
               pd_stmts := x_stmts (o_v2 + len (flat_map fl_vardecl vs2)) b;
               pd_info := mkinfo 0 (len (ffl_decl d)) |}
  | FProcC c1 c2 x c3 ps c4 c5 vs b =>
      let o_vs := len (fl_prochead c1 c2 x c3 ps c4 c5) in
      GProc {| pd_doc := c1; pd_name := Some (x_ident (len c1 + 1) c2 x);
               pd_params := x_sep fl_param x_param (len c1 + 1 + len c2 + 1 + len c3 + 1) ps;
               pd_vars := x_vardecls o_vs vs;
               pd_stmts := x_stmts (o_vs + len (flat_map fl_vardecl vs)) b;
               pd_info := einfo RCurly 0 (len (ffl_decl d)) (len (ffl_decl d) - 1) |}
  | FType c1 c2 x c3 t =>
      GType {| td_doc := c1; td_name := Some (x_ident (len c1 + 1) c2 x);
               td_ty := Some (x_type 0 t, len c1 + 1 + len c2 + 1 + len c3 + 1);
               td_info := einfo Semic 0 (len (ffl_decl d)) (len (ffl_decl d) - 1) |}
  end.

Definition fxg_prog (p : fprog) : program :=
  let o := len (flat_map fl_decl (fp_pre p)) in
  {| pg_decls := x_decls 0 (fp_pre p) ++ (fxg_decl (fp_decl p), o) :: x_decls (o + len (ffl_decl (fp_decl p))) (fp_post p);
     pg_info := mkinfo 0 (o + len (ffl_decl (fp_decl p)) + len (flat_map fl_decl (fp_post p))) |}.
End Tree.

Notation fx_args := (fxg_args e_real).
Notation fx_stmt := (fxg_stmt e_real).
Notation fx_stmts := (fxg_stmts e_real).
Notation fx_decl := (fxg_decl e_real).
Notation fexpected := (fxg_prog e_real).
Notation fx0_stmt := (fxg_stmt e_none).
Notation fx0_stmts := (fxg_stmts e_none).
Notation fx0_decl := (fxg_decl e_none).
Notation fexpected0 := (fxg_prog e_none).

(* ---- the faulty tokens are the original's with one token taken out (ins: SynFaultsE.v) ---- *)
Ltac flens :=
  cbn [fl_var fl_fac fl_mul fl_add fl_cmp fl_type fl_stmt fl_stmts ffl_stmt ffl_stmts ffl_var ffl_fac ffl_mul ffl_add ffl_cmp];
  unfold o_cond, ffl_vdecl, fl_prochead;
  repeat (rewrite app_length || rewrite cm_len || cbn [length]).

Lemma fl_tail_app {A} (f : A -> list kind) l1 l2 : fl_tail f (l1 ++ l2) = fl_tail f l1 ++ fl_tail f l2.
Proof. unfold fl_tail. apply flat_map_app. Qed.

Lemma fl_tail_cons {A} (f : A -> list kind) c a l : fl_tail f ((c, a) :: l) = cm c ++ Comma :: f a ++ fl_tail f l.
Proof. unfold fl_tail. cbn [flat_map fst snd]. rewrite <- app_assoc. reflexivity. Qed.

Lemma ffl_args_pos a : gap_args a < len (ffl_args a).
Proof.
  destruct a as [e l|e0 pre c e post]; cbn [gap_args ffl_args]; pose proof (proj2 (proj2 (proj2 (proj2 ffl_expr_pos))) e);
    rewrite !app_length; cbn [length]; rewrite ?app_length, ?cm_len; lia.
Qed.

Lemma ffl_args_ins a : ins (S (gap_args a)) (gk_args a) (ffl_args a) = fl_sep fl_cmp (orig_args a).
Proof.
  destruct a as [e l|e0 pre c e post]; cbn [gap_args gk_args ffl_args orig_args fl_sep];
    pose proof (proj2 (proj2 (proj2 (proj2 ffl_expr_pos))) e).
  - rewrite <- (proj2 (proj2 (proj2 (proj2 ffl_expr_ins))) e). rewrite ins_app_l by lia. reflexivity.
  - rewrite fl_tail_app, fl_tail_cons.
    rewrite <- (proj2 (proj2 (proj2 (proj2 ffl_expr_ins))) e).
    replace (fl_cmp e0 ++ fl_tail fl_cmp pre ++ cm c ++ Comma :: ffl_cmp e ++ fl_tail fl_cmp post)
      with ((fl_cmp e0 ++ fl_tail fl_cmp pre ++ cm c ++ [Comma]) ++ ffl_cmp e ++ fl_tail fl_cmp post) by (norm_app; reflexivity).
    rewrite (ins_pre _ (S (gap_cmp e))) by (rewrite !app_length, cm_len; cbn [length]; lia).
    rewrite ins_app_l by lia. norm_app. reflexivity.
Qed.

Lemma ffl_pos :
  (forall s, gap_stmt s < len (ffl_stmt s)) /\ (forall b, gap_stmts b < len (ffl_stmts b)).
Proof.
  destruct ffl_expr_pos as (Pv & _ & _ & _ & Pc).
  apply fstmt_mutind; intros; cbn [gap_stmt gap_stmts]; flens;
    try match goal with e : acmp |- _ => pose proof (fl_cmp_pos e) end;
    try match goal with e : fcmp |- _ => pose proof (Pc e) end;
    try match goal with v : fvar |- _ => pose proof (Pv v) end;
    try match goal with a : fargs |- _ => pose proof (ffl_args_pos a) end; lia.
Qed.

Lemma ffl_ins :
  (forall s, ins (S (gap_stmt s)) (gk_stmt s) (ffl_stmt s) = fl_stmt (orig_stmt s)) /\
  (forall b, ins (S (gap_stmts b)) (gk_stmts b) (ffl_stmts b) = fl_stmts (orig_stmts b)).
Proof.
  apply fstmt_mutind.
  - intros v c1 e. cbn [gap_stmt gk_stmt orig_stmt fl_stmt]. pose proof (fl_var_pos v).
    replace (S (len (ffl_stmt (FAsg v c1 e)) - 1)) with (len (ffl_stmt (FAsg v c1 e))) by (flens; lia).
    rewrite ins_end. cbn [ffl_stmt cm map]. norm_app. reflexivity.
  - intros c1 f c2 a c3. cbn [gap_stmt gk_stmt orig_stmt fl_stmt].
    replace (S (len (ffl_stmt (FCal c1 f c2 a c3)) - 1)) with (len (ffl_stmt (FCal c1 f c2 a c3))) by (flens; lia).
    rewrite ins_end. cbn [ffl_stmt cm map]. norm_app. reflexivity.
  - intros c1 f c2 a c4. cbn [gap_stmt gk_stmt orig_stmt fl_stmt].
    replace (ffl_stmt (FCalP c1 f c2 a c4)) with ((cm c1 ++ Ident f :: cm c2 ++ LParen :: fl_sep fl_cmp a) ++ cm c4 ++ [Semic])
      by (cbn [ffl_stmt]; norm_app; reflexivity).
    rewrite ins_mid by (flens; lia). cbn [cm map]. norm_app. reflexivity.
  - intros c1 c2 e t. cbn [gap_stmt gk_stmt orig_stmt fl_stmt]. pose proof (fl_cmp_pos e).
    replace (ffl_stmt (FIfP c1 c2 e t)) with ((cm c1 ++ KIf :: cm c2 ++ LParen :: fl_cmp e) ++ fl_stmt t)
      by (cbn [ffl_stmt]; norm_app; reflexivity).
    rewrite ins_mid by (flens; lia). cbn [cm map]. norm_app. reflexivity.
  - intros c1 c2 e t c4 s. cbn [gap_stmt gk_stmt orig_stmt fl_stmt]. pose proof (fl_cmp_pos e).
    replace (ffl_stmt (FIfPE c1 c2 e t c4 s)) with ((cm c1 ++ KIf :: cm c2 ++ LParen :: fl_cmp e) ++ fl_stmt t ++ cm c4 ++ KElse :: fl_stmt s)
      by (cbn [ffl_stmt]; norm_app; reflexivity).
    rewrite ins_mid by (flens; lia). cbn [cm map]. norm_app. reflexivity.
  - intros c1 c2 e b. cbn [gap_stmt gk_stmt orig_stmt fl_stmt]. pose proof (fl_cmp_pos e).
    replace (ffl_stmt (FWhlP c1 c2 e b)) with ((cm c1 ++ KWhile :: cm c2 ++ LParen :: fl_cmp e) ++ fl_stmt b)
      by (cbn [ffl_stmt]; norm_app; reflexivity).
    rewrite ins_mid by (flens; lia). cbn [cm map]. norm_app. reflexivity.
  - intros v c1 e c2. cbn [gap_stmt gk_stmt orig_stmt fl_stmt ffl_stmt]. rewrite <- (proj1 ffl_expr_ins v).
    rewrite ins_app_l by (pose proof (proj1 ffl_expr_pos v); lia). reflexivity.
  - intros v c1 e c2. cbn [gap_stmt gk_stmt orig_stmt fl_stmt]. rewrite <- (proj2 (proj2 (proj2 (proj2 ffl_expr_ins))) e).
    replace (ffl_stmt (FAsgR v c1 e c2)) with ((fl_var v ++ cm c1 ++ [Assign]) ++ ffl_cmp e ++ cm c2 ++ [Semic])
      by (cbn [ffl_stmt]; norm_app; reflexivity).
    rewrite (ins_pre _ (S (gap_cmp e))) by (flens; lia).
    rewrite ins_app_l by (pose proof (proj2 (proj2 (proj2 (proj2 ffl_expr_pos))) e); lia). norm_app. reflexivity.
  - intros c1 c2 e c3 t. cbn [gap_stmt gk_stmt orig_stmt fl_stmt]. rewrite <- (proj2 (proj2 (proj2 (proj2 ffl_expr_ins))) e).
    replace (ffl_stmt (FIfC c1 c2 e c3 t)) with ((cm c1 ++ KIf :: cm c2 ++ [LParen]) ++ ffl_cmp e ++ cm c3 ++ RParen :: fl_stmt t)
      by (cbn [ffl_stmt]; norm_app; reflexivity).
    rewrite (ins_pre _ (S (gap_cmp e))) by (flens; lia).
    rewrite ins_app_l by (pose proof (proj2 (proj2 (proj2 (proj2 ffl_expr_pos))) e); lia). norm_app. reflexivity.
  - intros c1 c2 e c3 t c4 s. cbn [gap_stmt gk_stmt orig_stmt fl_stmt]. rewrite <- (proj2 (proj2 (proj2 (proj2 ffl_expr_ins))) e).
    replace (ffl_stmt (FIfEC c1 c2 e c3 t c4 s))
      with ((cm c1 ++ KIf :: cm c2 ++ [LParen]) ++ ffl_cmp e ++ cm c3 ++ RParen :: fl_stmt t ++ cm c4 ++ KElse :: fl_stmt s)
      by (cbn [ffl_stmt]; norm_app; reflexivity).
    rewrite (ins_pre _ (S (gap_cmp e))) by (flens; lia).
    rewrite ins_app_l by (pose proof (proj2 (proj2 (proj2 (proj2 ffl_expr_pos))) e); lia). norm_app. reflexivity.
  - intros c1 c2 e c3 b. cbn [gap_stmt gk_stmt orig_stmt fl_stmt]. rewrite <- (proj2 (proj2 (proj2 (proj2 ffl_expr_ins))) e).
    replace (ffl_stmt (FWhlC c1 c2 e c3 b)) with ((cm c1 ++ KWhile :: cm c2 ++ [LParen]) ++ ffl_cmp e ++ cm c3 ++ RParen :: fl_stmt b)
      by (cbn [ffl_stmt]; norm_app; reflexivity).
    rewrite (ins_pre _ (S (gap_cmp e))) by (flens; lia).
    rewrite ins_app_l by (pose proof (proj2 (proj2 (proj2 (proj2 ffl_expr_pos))) e); lia). norm_app. reflexivity.
  - intros c1 f c2 a c3 c4. cbn [gap_stmt gk_stmt orig_stmt fl_stmt]. rewrite <- ffl_args_ins.
    replace (ffl_stmt (FCalA c1 f c2 a c3 c4)) with ((cm c1 ++ Ident f :: cm c2 ++ [LParen]) ++ ffl_args a ++ cm c3 ++ RParen :: cm c4 ++ [Semic])
      by (cbn [ffl_stmt]; norm_app; reflexivity).
    rewrite (ins_pre _ (S (gap_args a))) by (flens; lia).
    rewrite ins_app_l by (pose proof (ffl_args_pos a); lia). norm_app. reflexivity.
  - intros c1 c2 e c3 t IH. cbn [orig_stmt fl_stmt gk_stmt]. rewrite <- IH.
    replace (ffl_stmt (FIfT c1 c2 e c3 t)) with ((cm c1 ++ KIf :: cm c2 ++ LParen :: fl_cmp e ++ cm c3 ++ [RParen]) ++ ffl_stmt t)
      by (cbn [ffl_stmt]; norm_app; reflexivity).
    rewrite (ins_pre _ (S (gap_stmt t))) by (cbn [gap_stmt]; flens; lia). norm_app. reflexivity.
  - intros c1 c2 e c3 t IH c4 s. cbn [orig_stmt fl_stmt gk_stmt]. rewrite <- IH.
    replace (ffl_stmt (FIfE1 c1 c2 e c3 t c4 s))
      with ((cm c1 ++ KIf :: cm c2 ++ LParen :: fl_cmp e ++ cm c3 ++ [RParen]) ++ ffl_stmt t ++ cm c4 ++ KElse :: fl_stmt s)
      by (cbn [ffl_stmt]; norm_app; reflexivity).
    rewrite (ins_pre _ (S (gap_stmt t))) by (cbn [gap_stmt]; flens; lia).
    rewrite ins_app_l by (pose proof (proj1 ffl_pos t); lia). norm_app. reflexivity.
  - intros c1 c2 e c3 t c4 s IH. cbn [orig_stmt fl_stmt gk_stmt]. rewrite <- IH.
    replace (ffl_stmt (FIfE2 c1 c2 e c3 t c4 s))
      with ((cm c1 ++ KIf :: cm c2 ++ LParen :: fl_cmp e ++ cm c3 ++ RParen :: fl_stmt t ++ cm c4 ++ [KElse]) ++ ffl_stmt s)
      by (cbn [ffl_stmt]; norm_app; reflexivity).
    rewrite (ins_pre _ (S (gap_stmt s))) by (cbn [gap_stmt]; flens; lia). norm_app. reflexivity.
  - intros c1 c2 e c3 b IH. cbn [orig_stmt fl_stmt gk_stmt]. rewrite <- IH.
    replace (ffl_stmt (FWhl c1 c2 e c3 b)) with ((cm c1 ++ KWhile :: cm c2 ++ LParen :: fl_cmp e ++ cm c3 ++ [RParen]) ++ ffl_stmt b)
      by (cbn [ffl_stmt]; norm_app; reflexivity).
    rewrite (ins_pre _ (S (gap_stmt b))) by (cbn [gap_stmt]; flens; lia). norm_app. reflexivity.
  - intros c1 b IH c2. cbn [orig_stmt fl_stmt gk_stmt]. rewrite <- IH.
    replace (ffl_stmt (FBlk c1 b c2)) with ((cm c1 ++ [LCurly]) ++ ffl_stmts b ++ cm c2 ++ [RCurly])
      by (cbn [ffl_stmt]; norm_app; reflexivity).
    rewrite (ins_pre _ (S (gap_stmts b))) by (cbn [gap_stmt]; flens; lia).
    rewrite ins_app_l by (pose proof (proj2 ffl_pos b); lia). norm_app. reflexivity.
  - intros s IH r. cbn [orig_stmts fl_stmts ffl_stmts gap_stmts gk_stmts]. rewrite <- IH.
    rewrite ins_app_l by (pose proof (proj1 ffl_pos s); lia). reflexivity.
  - intros s r IH. cbn [orig_stmts fl_stmts ffl_stmts gap_stmts gk_stmts]. rewrite <- IH.
    rewrite (ins_pre _ (S (gap_stmts r))) by lia. reflexivity.
Qed.

Lemma fl_prochead_eq c1 c2 x c3 ps c4 c5 vs b c6 :
  fl_decl (DProc c1 c2 x c3 ps c4 c5 vs b c6) = fl_prochead c1 c2 x c3 ps c4 c5 ++ flat_map fl_vardecl vs ++ fl_stmts b ++ cm c6 ++ [RCurly].
Proof. unfold fl_prochead. cbn [fl_decl]. norm_app. reflexivity. Qed.

Lemma fl_fvar d1 d2 y d3 t : fl_vardecl (fvdecl d1 d2 y d3 t) = ffl_vdecl d1 d2 y d3 t ++ [Semic].
Proof. unfold fl_vardecl, fvdecl, ffl_vdecl. cbn [v_c1 v_c2 v_x v_c3 v_t v_c4 cm map]. norm_app. reflexivity. Qed.

Lemma ffl_vdecl_pos d1 d2 y d3 t : 4 <= len (ffl_vdecl d1 d2 y d3 t).
Proof. assert (1 <= len (fl_type t)) by (destruct t; cbn [fl_type]; rewrite !app_length; cbn [length]; lia). flens. lia. Qed.

Lemma gap_decl_lt d : gap_decl d < len (ffl_decl d).
Proof.
  destruct d as [c1 c2 x c3 ps c4 c5 vs b c6|c1 c2 x c3 ps c4 c5 vs1 d1 d2 y d3 t vs2 b c6|c1 c2 x c3 ps c4 c5 vs b|c1 c2 x c3 t];
    cbn [gap_decl ffl_decl].
  - pose proof (proj2 ffl_pos b). rewrite !app_length. lia.
  - pose proof (ffl_vdecl_pos d1 d2 y d3 t). rewrite !app_length. lia.
  - assert (1 <= len (fl_prochead c1 c2 x c3 ps c4 c5)) by (flens; lia). rewrite !app_length. lia.
  - rewrite !app_length. cbn [length]. lia.
Qed.

Lemma ffl_decl_ins d : ins (S (gap_decl d)) (gk_decl d) (ffl_decl d) = fl_decl (orig_decl d).
Proof.
  destruct d as [c1 c2 x c3 ps c4 c5 vs b c6|c1 c2 x c3 ps c4 c5 vs1 d1 d2 y d3 t vs2 b c6|c1 c2 x c3 ps c4 c5 vs b|c1 c2 x c3 t];
    cbn [orig_decl gk_decl].
  - rewrite fl_prochead_eq, <- (proj2 ffl_ins b). cbn [ffl_decl gap_decl].
    replace (fl_prochead c1 c2 x c3 ps c4 c5 ++ flat_map fl_vardecl vs ++ ffl_stmts b ++ cm c6 ++ [RCurly])
      with ((fl_prochead c1 c2 x c3 ps c4 c5 ++ flat_map fl_vardecl vs) ++ ffl_stmts b ++ cm c6 ++ [RCurly]) by (norm_app; reflexivity).
    rewrite (ins_pre _ (S (gap_stmts b))) by (rewrite app_length; lia).
    rewrite ins_app_l by (pose proof (proj2 ffl_pos b); lia). norm_app. reflexivity.
  - rewrite fl_prochead_eq, flat_map_app. cbn [flat_map]. rewrite fl_fvar. cbn [ffl_decl gap_decl]. pose proof (ffl_vdecl_pos d1 d2 y d3 t).
    replace (fl_prochead c1 c2 x c3 ps c4 c5 ++ flat_map fl_vardecl vs1 ++ ffl_vdecl d1 d2 y d3 t ++ flat_map fl_vardecl vs2 ++ fl_stmts b ++ cm c6 ++ [RCurly])
      with ((fl_prochead c1 c2 x c3 ps c4 c5 ++ flat_map fl_vardecl vs1 ++ ffl_vdecl d1 d2 y d3 t) ++ flat_map fl_vardecl vs2 ++ fl_stmts b ++ cm c6 ++ [RCurly])
      by (norm_app; reflexivity).
    rewrite ins_mid by (rewrite !app_length; lia). norm_app. reflexivity.
  - rewrite fl_prochead_eq. pose proof (gap_decl_lt (FProcC c1 c2 x c3 ps c4 c5 vs b)) as Hlt. cbn [gap_decl] in *.
    replace (S (len (ffl_decl (FProcC c1 c2 x c3 ps c4 c5 vs b)) - 1)) with (len (ffl_decl (FProcC c1 c2 x c3 ps c4 c5 vs b))) by lia.
    rewrite ins_end. cbn [ffl_decl cm map]. norm_app. reflexivity.
  - pose proof (gap_decl_lt (FType c1 c2 x c3 t)) as Hlt. cbn [gap_decl] in *.
    replace (S (len (ffl_decl (FType c1 c2 x c3 t)) - 1)) with (len (ffl_decl (FType c1 c2 x c3 t))) by lia.
    rewrite ins_end. cbn [ffl_decl fl_decl cm map]. norm_app. reflexivity.
Qed.

(* the faulty token vector is the original one with the closing token behind token number gap_prog taken out *)
Theorem fflatten_ins p : ins (S (gap_prog p)) (gk_prog p) (fflatten p) = flatten (orig_prog p).
Proof.
  unfold fflatten, flatten, orig_prog, gap_prog, gk_prog. cbn [a_decls a_ceof]. rewrite flat_map_app. cbn [flat_map].
  rewrite <- ffl_decl_ins.
  rewrite (ins_pre _ (S (gap_decl (fp_decl p)))) by lia.
  rewrite ins_app_l by (pose proof (gap_decl_lt (fp_decl p)); lia). norm_app. reflexivity.
Qed.

Lemma fflatten_length p : len (flatten (orig_prog p)) = S (len (fflatten p)).
Proof. rewrite <- fflatten_ins. apply ins_length. Qed.

Lemma gap_prog_lt p : gap_prog p < len (fflatten p).
Proof.
  unfold gap_prog, fflatten. pose proof (gap_decl_lt (fp_decl p)). rewrite !app_length. lia.
Qed.

Lemma fl_orig_decl_len d : len (fl_decl (orig_decl d)) = S (len (ffl_decl d)).
Proof. rewrite <- ffl_decl_ins. apply ins_length. Qed.
