(* C03 - syntax faults, family A: NO SEMANTIC FOLLOW-UP.  If the valid program the faulty one stems from is well-typed,
   the tree the parser builds for the faulty one is well-typed too (with respect to the table `build` makes for it:
   the same entries, the ranges behind the gap one smaller) - so build and analyze attach nothing to it.

   The typing judgements never read a range, an offset or an attached error, but the TABLE carries ranges, so the two
   trees are compared through the analysis (Proofs/FormatDiag*.v: trees that agree up to erasure, with an injective
   correspondence of the declaration ranges, are built and analysed to trees that agree up to erasure):
     fx0_*   the faulty tree WITHOUT its error: clean, same erasure as the original's tree, declaration ranges shifted;
     build/analyze succeed on it (Proofs/RangeProofs.v) and publish nothing (same messages as the original: none),
     so it is well-typed (Proofs/CompleteSem.v: back_end_complete); the judgements do not see the error: fx_* is too. *)
From Coq Require Import List Lia Arith Bool.
From Spl Require Import Proofs.GrammarProofs Spec.Typing Model.Errors Proofs.SemProofs Proofs.TypingProofs Proofs.CompleteSem
  Proofs.FormatDiagErase Proofs.FormatDiagSem Proofs.FormatDiagMsgs Proofs.FormatDiagTop Proofs.FormatDiagAny Proofs.RangeProofs
  Proofs.SynFaults Proofs.SynFaultsStmt Proofs.SynFaultsProg Proofs.SynFaultsText.
Import ListNotations.
Local Open Scope nat_scope.

(* ---- the faulty tree without its error ---- *)
Fixpoint fx0_stmt (o : nat) (s : fstmt) : stmt :=
  match s with
  | FAsg v c1 e =>
      SAssign (x_var o v) (Some (x_cmp 0 e, o + len (fl_var v) + len c1 + 1)) (mkinfo o (o + len (ffl_stmt s)))
  | FCal c1 f c2 a c3 =>
      SCall (x_ident o c1 f) (x_sep fl_cmp (x_cmp 0) (o + len c1 + 1 + len c2 + 1) a) (mkinfo o (o + len (ffl_stmt s)))
  | FIfT c1 c2 e c3 t =>
      let o_e := o + len c1 + 1 + len c2 + 1 in
      let o_t := o_e + len (fl_cmp e) + len c3 + 1 in
      SIf (Some (x_cmp 0 e, o_e)) (Some (fx0_stmt 0 t, o_t)) None (mkinfo o (o + len (ffl_stmt s)))
  | FIfE1 c1 c2 e c3 t c4 s' =>
      let o_e := o + len c1 + 1 + len c2 + 1 in
      let o_t := o_e + len (fl_cmp e) + len c3 + 1 in
      let o_s := o_t + len (ffl_stmt t) + len c4 + 1 in
      SIf (Some (x_cmp 0 e, o_e)) (Some (fx0_stmt 0 t, o_t)) (Some (x_stmt 0 s', o_s)) (mkinfo o (o + len (ffl_stmt s)))
  | FIfE2 c1 c2 e c3 t c4 s' =>
      let o_e := o + len c1 + 1 + len c2 + 1 in
      let o_t := o_e + len (fl_cmp e) + len c3 + 1 in
      let o_s := o_t + len (fl_stmt t) + len c4 + 1 in
      SIf (Some (x_cmp 0 e, o_e)) (Some (x_stmt 0 t, o_t)) (Some (fx0_stmt 0 s', o_s)) (mkinfo o (o + len (ffl_stmt s)))
  | FWhl c1 c2 e c3 b =>
      let o_e := o + len c1 + 1 + len c2 + 1 in
      let o_b := o_e + len (fl_cmp e) + len c3 + 1 in
      SWhile (Some (x_cmp 0 e, o_e)) (Some (fx0_stmt 0 b, o_b)) (mkinfo o (o + len (ffl_stmt s)))
  | FBlk c1 b c2 => SBlock (fx0_stmts (o + len c1 + 1) b) (mkinfo o (o + len (ffl_stmt s)))
  end
with fx0_stmts (o : nat) (b : fstmts) : list (stmt * nat) :=
  match b with
  | FHere s r => (fx0_stmt 0 s, o) :: x_stmts (o + len (ffl_stmt s)) r
  | FLater s r => (x_stmt 0 s, o) :: fx0_stmts (o + len (fl_stmt s)) r
  end.

Definition with_stmts (g : gdecl) (ss : list (stmt * nat)) : gdecl :=
  match g with
  | GProc d => GProc {| pd_doc := pd_doc d; pd_name := pd_name d; pd_params := pd_params d; pd_vars := pd_vars d;
                        pd_stmts := ss; pd_info := pd_info d |}
  | _ => g
  end.

Definition body_off (d : fdecl) : nat :=
  match d with
  | FProc c1 c2 x c3 ps c4 c5 vs b c6 =>
      len c1 + 1 + len c2 + 1 + len c3 + 1 + len (fl_sep fl_param ps) + len c4 + 1 + len c5 + 1 + len (flat_map fl_vardecl vs)
  end.
Definition body_of (d : fdecl) : fstmts := match d with FProc _ _ _ _ _ _ _ _ b _ => b end.

Definition fx0_decl (d : fdecl) : gdecl := with_stmts (fx_decl d) (fx0_stmts (body_off d) (body_of d)).

Lemma fx_decl_with d : fx_decl d = with_stmts (fx_decl d) (fx_stmts (body_off d) (body_of d)).
Proof. destruct d; reflexivity. Qed.

Definition fexpected0 (p : fprog) : program :=
  let o := len (flat_map fl_decl (fp_pre p)) in
  {| pg_decls := x_decls 0 (fp_pre p) ++ (fx0_decl (fp_decl p), o) :: x_decls (o + len (ffl_decl (fp_decl p))) (fp_post p);
     pg_info := pg_info (fexpected p) |}.

(* ---- it is clean ---- *)
Lemma fx0_clean :
  (forall s o, clean_stmt (fx0_stmt o s) = true) /\
  (forall b o, forallb (fun r : stmt * nat => clean_stmt (fst r)) (fx0_stmts o b) = true).
Proof.
  apply fstmt_mutind; intros; cbn [fx0_stmt fx0_stmts clean_stmt clean_opt forallb fst];
    rewrite ?clean_cmp, ?clean_var_ok, ?H, ?(proj1 clean_stmt_all), ?(proj2 clean_stmt_all); try reflexivity.
  destruct a as [[e l]|]; cbn [x_sep forallb fst]; [|reflexivity]. now rewrite clean_cmp, clean_tail.
Qed.

Lemma x_decls_clean o ds : forallb (fun r : gdecl * nat => clean_gdecl (fst r)) (x_decls o ds) = true.
Proof. revert o. induction ds as [|d ds IH]; intros o; cbn [x_decls forallb fst]; [reflexivity|]. now rewrite clean_decl, IH. Qed.

Lemma fexpected0_clean p : tree_clean (fexpected0 p) = true.
Proof.
  unfold tree_clean, fexpected0, fexpected. cbn [pg_decls pg_info]. rewrite andb_true_r, forallb_app. cbn [forallb fst].
  rewrite !x_decls_clean. cbn [andb]. rewrite andb_true_r.
  destruct (fp_decl p) as [c1 c2 x c3 ps c4 c5 vs b c6]. unfold fx0_decl. cbn [fx_decl with_stmts body_off body_of clean_gdecl].
  cbn [pd_name pd_params pd_vars pd_stmts pd_info clean_opt fst].
  rewrite clean_vardecls, (proj2 fx0_clean).
  destruct ps as [[q l]|]; cbn [x_sep forallb fst]; [|reflexivity]. now rewrite clean_param, clean_params_tail.
Qed.

(* ---- every identifier of it has a non-empty range: the parser's tree has, and the two differ in one statement's info ---- *)
Lemma fx0_ok :
  (forall s o, StmtOk (fx_stmt o s) -> StmtOk (fx0_stmt o s)) /\
  (forall b o, Forall (RefP StmtOk) (fx_stmts o b) -> Forall (RefP StmtOk) (fx0_stmts o b)).
Proof.
  apply fstmt_mutind.
  - intros v c1 e o H. exact H.
  - intros c1 f c2 a c3 o H. exact H.
  - intros c1 c2 e c3 t IH o [H1 [H2 H3]]. split; [exact H1|]. split; [apply IH, H2 | exact H3].
  - intros c1 c2 e c3 t IH c4 s o [H1 [H2 H3]]. split; [exact H1|]. split; [apply IH, H2 | exact H3].
  - intros c1 c2 e c3 t c4 s IH o [H1 [H2 H3]]. split; [exact H1|]. split; [exact H2 | apply IH, H3].
  - intros c1 c2 e c3 b IH o [H1 H2]. split; [exact H1 | apply IH, H2].
  - intros c1 b IH c2 o H. cbn [fx_stmt fx0_stmt] in *. rewrite StmtOk_block in *. apply IH, H.
  - intros s IH r o H. cbn [fx_stmts fx0_stmts] in *. inversion H as [|x l H1 H2]; subst. constructor; [apply IH, H1 | exact H2].
  - intros s r IH o H. cbn [fx_stmts fx0_stmts] in *. inversion H as [|x l H1 H2]; subst. constructor; [exact H1 | apply IH, H2].
Qed.

Lemma fexpected0_idents p : IdentsNonEmpty (fexpected p) -> IdentsNonEmpty (fexpected0 p).
Proof.
  unfold IdentsNonEmpty, fexpected0, fexpected. cbn [pg_decls]. intros H.
  apply Forall_app in H. destruct H as [H1 H2]. inversion H2 as [|x l H3 H4]; subst.
  apply Forall_app. split; [exact H1|]. constructor; [|exact H4].
  unfold RefP in *. cbn [fst] in *. rewrite fx_decl_with in H3. unfold fx0_decl.
  destruct (fx_decl (fp_decl p)) as [d|d|inf] eqn:E; [destruct (fp_decl p); discriminate E | | destruct (fp_decl p); discriminate E].
  cbn [with_stmts GdeclOk] in *. destruct H3 as [Hn [Hp [Hv Hs]]]. cbn [pd_name pd_params pd_vars pd_stmts] in *.
  repeat split; try assumption. apply fx0_ok, Hs.
Qed.

(* ---- it has the erasure of the original's tree ---- *)
Lemma er_x_off :
  (forall v o o', er_var (x_var o v) = er_var (x_var o' v)) /\
  (forall f o o', er_expr (x_fac o f) = er_expr (x_fac o' f)) /\
  (forall m o o', er_expr (x_mul o m) = er_expr (x_mul o' m)) /\
  (forall a o o', er_expr (x_add o a) = er_expr (x_add o' a)) /\
  (forall e o o', er_expr (x_cmp o e) = er_expr (x_cmp o' e)).
Proof.
  apply GrammarExpr.aexpr_mutind; intros; cbn [x_var x_fac x_mul x_add x_cmp er_var er_expr]; first [solve [auto] | f_equal; auto].
Qed.

Lemma er_args_off a o o' : er_args (x_sep fl_cmp (x_cmp 0) o a) = er_args (x_sep fl_cmp (x_cmp 0) o' a).
Proof.
  unfold er_args. destruct a as [[e l]|]; [|reflexivity]. cbn [x_sep map fst]. f_equal.
  generalize (o + len (fl_cmp e)), (o' + len (fl_cmp e)). induction l as [|[c x] l IH]; intros n n'; [reflexivity|].
  cbn [x_tail map fst]. f_equal. apply IH.
Qed.

Lemma er_stmts_map l : er_stmts l = map (fun a : stmt * nat => (er_stmt (fst a), 0)) l.
Proof. induction l as [|[x o] r IH]; [reflexivity|]. cbn [er_stmts map fst]. rewrite IH. reflexivity. Qed.

Lemma er_x_stmt_off :
  (forall s o o', er_stmt (x_stmt o s) = er_stmt (x_stmt o' s)) /\
  (forall b o o', er_stmts (x_stmts o b) = er_stmts (x_stmts o' b)).
Proof.
  apply GrammarStmt.astmt_mutind.
  - intros c o o'. reflexivity.
  - intros v c1 e c2 o o'. cbn [x_stmt er_stmt er_oexpr]. rewrite (proj1 er_x_off v o o'). reflexivity.
  - intros c1 f c2 a c3 c4 o o'. cbn [x_stmt]. rewrite !er_stmt_call, (er_args_off a _ (o' + len c1 + 1 + len c2 + 1)). reflexivity.
  - intros c1 c2 e c3 t IH o o'. cbn [x_stmt]. cbv zeta. rewrite !er_stmt_if. reflexivity.
  - intros c1 c2 e c3 t IHt c4 s IHs o o'. cbn [x_stmt]. cbv zeta. rewrite !er_stmt_if. reflexivity.
  - intros c1 c2 e c3 b IH o o'. cbn [x_stmt]. cbv zeta. rewrite !er_stmt_while. reflexivity.
  - intros c1 b IH c2 o o'. cbn [x_stmt]. rewrite !er_stmt_block, (IH _ (o' + len c1 + 1)). reflexivity.
  - intros o o'. reflexivity.
  - intros s IHs r IHr o o'. cbn [x_stmts er_stmts]. rewrite (IHr _ (o' + len (fl_stmt s))). reflexivity.
Qed.

Lemma er_fx0 :
  (forall s o o', er_stmt (fx0_stmt o s) = er_stmt (x_stmt o' (orig_stmt s))) /\
  (forall b o o', er_stmts (fx0_stmts o b) = er_stmts (x_stmts o' (orig_stmts b))).
Proof.
  apply fstmt_mutind.
  - intros v c1 e o o'. cbn [fx0_stmt orig_stmt x_stmt er_stmt er_oexpr]. rewrite (proj1 er_x_off v o o'). reflexivity.
  - intros c1 f c2 a c3 o o'. cbn [fx0_stmt orig_stmt x_stmt]. rewrite !er_stmt_call, (er_args_off a _ (o' + len c1 + 1 + len c2 + 1)). reflexivity.
  - intros c1 c2 e c3 t IH o o'. cbn [fx0_stmt orig_stmt x_stmt]. cbv zeta. rewrite !er_stmt_if. cbn [er_oexpr er_ostmt].
    rewrite (IH 0 0). reflexivity.
  - intros c1 c2 e c3 t IH c4 s o o'. cbn [fx0_stmt orig_stmt x_stmt]. cbv zeta. rewrite !er_stmt_if. cbn [er_oexpr er_ostmt].
    rewrite (IH 0 0). reflexivity.
  - intros c1 c2 e c3 t c4 s IH o o'. cbn [fx0_stmt orig_stmt x_stmt]. cbv zeta. rewrite !er_stmt_if. cbn [er_oexpr er_ostmt].
    rewrite (IH 0 0). reflexivity.
  - intros c1 c2 e c3 b IH o o'. cbn [fx0_stmt orig_stmt x_stmt]. cbv zeta. rewrite !er_stmt_while. cbn [er_oexpr er_ostmt].
    rewrite (IH 0 0). reflexivity.
  - intros c1 b IH c2 o o'. cbn [fx0_stmt orig_stmt x_stmt]. rewrite !er_stmt_block, (IH _ (o' + len c1 + 1)). reflexivity.
  - intros s IH r o o'. cbn [fx0_stmts orig_stmts x_stmts er_stmts]. rewrite (IH 0 0).
    rewrite (proj2 er_x_stmt_off r _ (o' + len (fl_stmt (orig_stmt s)))). reflexivity.
  - intros s r IH o o'. cbn [fx0_stmts orig_stmts x_stmts er_stmts]. rewrite (IH _ (o' + len (fl_stmt s))). reflexivity.
Qed.

Lemma er_params_off ps o o' : er_params (x_sep fl_param x_param o ps) = er_params (x_sep fl_param x_param o' ps).
Proof.
  unfold er_params. destruct ps as [[q l]|]; [|reflexivity]. cbn [x_sep map fst]. f_equal.
  generalize (o + len (fl_param q)), (o' + len (fl_param q)). induction l as [|[c x] l IH]; intros n n'; [reflexivity|].
  cbn [x_tail map fst]. f_equal. apply IH.
Qed.

Lemma er_vars_off vs o o' : er_vars (x_vardecls o vs) = er_vars (x_vardecls o' vs).
Proof.
  unfold er_vars. revert o o'. induction vs as [|v vs IH]; intros o o'; [reflexivity|]. cbn [x_vardecls map fst]. f_equal. apply IH.
Qed.

Lemma er_fx0_decl d : er_gdecl (fx0_decl d) = er_gdecl (x_decl (orig_decl d)).
Proof.
  destruct d as [c1 c2 x c3 ps c4 c5 vs b c6]. unfold fx0_decl. cbn [fx_decl with_stmts body_off body_of orig_decl x_decl er_gdecl]. cbv zeta.
  f_equal. unfold er_procdecl. cbn [pd_name pd_params pd_vars pd_stmts pd_info option_map]. f_equal.
  apply (proj2 er_fx0).
Qed.

(* ---- the declaration ranges: everything behind the gap is one smaller ---- *)
Section Shift.
Variable g : nat.
Definition sh (x : nat) : nat := if x <=? g then x else x - 1.
Definition okp (x : nat) : Prop := x <= g \/ g + 2 <= x.
Definition rho (r r' : range) : Prop := okp (fst r) /\ okp (snd r) /\ r' = (sh (fst r), sh (snd r)).

Lemma sh_inj x y : okp x -> okp y -> sh x = sh y -> x = y.
Proof. unfold sh, okp. intros Hx Hy. destruct (Nat.leb_spec x g), (Nat.leb_spec y g); lia. Qed.

Lemma rho_inj a a' b b' : rho a a' -> rho b b' -> (a = b <-> a' = b').
Proof.
  intros (A1 & A2 & ->) (B1 & B2 & ->). destruct a as [a1 a2], b as [b1 b2]. cbn [fst snd] in *. split.
  - intros E. injection E as -> ->. reflexivity.
  - intros E. injection E as E1 E2. apply sh_inj in E1; try assumption. apply sh_inj in E2; try assumption. congruence.
Qed.

Lemma drange_x d o : drange (x_decl d, o) = (o, o + len (fl_decl d)).
Proof.
  unfold drange. destruct d; cbn [fst snd x_decl gdecl_info td_info pd_info]; cbv zeta; unfold info_range, shift_range, mkinfo;
    cbn [i_s i_e fst snd]; f_equal; lia.
Qed.

(* in front of the gap nothing moves *)
Lemma decls_dsim_same ds : forall o, o + len (flat_map fl_decl ds) <= g -> Forall2 (dsim rho) (x_decls o ds) (x_decls o ds).
Proof.
  induction ds as [|d ds IH]; intros o H; cbn [x_decls]; [constructor|]. cbn [flat_map] in H. rewrite app_length in H. constructor.
  - split; [reflexivity|]. rewrite drange_x. unfold rho, okp, sh. cbn [fst snd].
    split; [lia|]. split; [lia|]. destruct (Nat.leb_spec o g), (Nat.leb_spec (o + len (fl_decl d)) g); try lia. reflexivity.
  - apply IH. lia.
Qed.

(* behind it everything moves by one *)
Lemma decls_dsim_shift ds : forall o, g + 2 <= o -> Forall2 (dsim rho) (x_decls o ds) (x_decls (o - 1) ds).
Proof.
  induction ds as [|d ds IH]; intros o H; cbn [x_decls]; [constructor|]. constructor.
  - split; [reflexivity|]. rewrite !drange_x. unfold rho, okp, sh. cbn [fst snd].
    split; [lia|]. split; [lia|]. destruct (Nat.leb_spec o g), (Nat.leb_spec (o + len (fl_decl d)) g); try lia. f_equal; lia.
  - replace (o - 1 + len (fl_decl d)) with (o + len (fl_decl d) - 1) by lia. apply IH. lia.
Qed.
End Shift.

Lemma fl_orig_decl_len d : len (fl_decl (orig_decl d)) = S (len (ffl_decl d)).
Proof. rewrite <- ffl_decl_ins. apply ins_length. Qed.

Lemma fexpected0_prsim p : prsim (rho (gap_prog p)) (expected (orig_prog p)) (fexpected0 p).
Proof.
  split; [|reflexivity]. unfold expected, orig_prog, fexpected0. cbn [pg_decls a_decls].
  set (o := len (flat_map fl_decl (fp_pre p))).
  assert (Hx : forall l1 d l2 n, x_decls n (l1 ++ d :: l2) =
               x_decls n l1 ++ (x_decl d, n + len (flat_map fl_decl l1)) :: x_decls (n + len (flat_map fl_decl l1) + len (fl_decl d)) l2).
  { induction l1 as [|a l1 IH]; intros d l2 n; cbn [app x_decls flat_map length].
    - rewrite Nat.add_0_r. reflexivity.
    - rewrite IH, app_length, !Nat.add_assoc. reflexivity. }
  rewrite Hx. cbn [Nat.add]. fold o.
  pose proof (gap_decl_lt (fp_decl p)) as Hg. pose proof (fl_orig_decl_len (fp_decl p)) as Hl.
  unfold gap_prog. fold o.
  apply Forall2_app; [apply decls_dsim_same; cbn [Nat.add]; fold o; lia|]. constructor.
  - split; [cbn [fst]; symmetry; apply er_fx0_decl|]. rewrite drange_x.
    assert (Hd : drange (fx0_decl (fp_decl p), o) = (o, o + len (ffl_decl (fp_decl p)))).
    { unfold drange, fx0_decl. destruct (fp_decl p) as [c1 c2 x c3 ps c4 c5 vs b c6].
      cbn [fst snd fx_decl with_stmts gdecl_info pd_info]. unfold info_range, shift_range, mkinfo. cbn [i_s i_e fst snd]. f_equal; lia. }
    rewrite Hd. unfold rho, okp, sh. cbn [fst snd]. split; [lia|]. split; [lia|].
    destruct (Nat.leb_spec o (o + gap_decl (fp_decl p))), (Nat.leb_spec (o + len (fl_decl (orig_decl (fp_decl p)))) (o + gap_decl (fp_decl p)));
      try lia. f_equal. lia.
  - replace (o + len (ffl_decl (fp_decl p))) with (o + len (fl_decl (orig_decl (fp_decl p))) - 1) by lia.
    apply decls_dsim_shift. lia.
Qed.

(* ---- the judgements do not see the attached error ---- *)
Lemma wt_fx L G :
  (forall s o, wt_stmt L G (fx0_stmt o s) -> wt_stmt L G (fx_stmt o s)) /\
  (forall b o, wt_stmts L G (fx0_stmts o b) -> wt_stmts L G (fx_stmts o b)).
Proof.
  apply fstmt_mutind.
  - intros v c1 e o H. cbn [fx0_stmt fx_stmt] in *. inversion H; subst. apply WT_assign; assumption.
  - intros c1 f c2 a c3 o H. cbn [fx0_stmt fx_stmt] in *. inversion H; subst. eapply WT_call; eassumption.
  - intros c1 c2 e c3 t IH o H. cbn [fx0_stmt fx_stmt] in *. inversion H; subst. apply WT_if; [assumption | apply IH; assumption].
  - intros c1 c2 e c3 t IH c4 s o H. cbn [fx0_stmt fx_stmt] in *. inversion H; subst.
    apply WT_if_else; [assumption | apply IH; assumption | assumption].
  - intros c1 c2 e c3 t c4 s IH o H. cbn [fx0_stmt fx_stmt] in *. inversion H; subst.
    apply WT_if_else; [assumption | assumption | apply IH; assumption].
  - intros c1 c2 e c3 b IH o H. cbn [fx0_stmt fx_stmt] in *. inversion H; subst. apply WT_while; [assumption | apply IH; assumption].
  - intros c1 b IH c2 o H. cbn [fx0_stmt fx_stmt] in *. inversion H; subst. apply WT_block. apply IH. assumption.
  - intros s IH r o H. cbn [fx0_stmts fx_stmts] in *. inversion H; subst. apply WT_cons; [apply IH; assumption | assumption].
  - intros s r IH o H. cbn [fx0_stmts fx_stmts] in *. inversion H; subst. apply WT_cons; [assumption | apply IH; assumption].
Qed.

(* the declaration rules do not look at the body *)
Lemma wf_gdecl_with G off g ss ke : wf_gdecl G off g ke -> wf_gdecl G off (with_stmts g ss) ke.
Proof.
  intros H. destruct H as [d name te o t Hn Hm Hl Ht Hd | d name L1 ps L2 Hn Hl Hp Hv]; cbn [with_stmts].
  - eapply WF_type; eassumption.
  - exact (WF_proc G off {| pd_doc := pd_doc d; pd_name := pd_name d; pd_params := pd_params d; pd_vars := pd_vars d;
                            pd_stmts := ss; pd_info := pd_info d |} name L1 ps L2 Hn Hl Hp Hv).
Qed.

Lemma wf_gdecls_with pre g off post ss : forall G es,
  wf_gdecls G (pre ++ (g, off) :: post) es -> wf_gdecls G (pre ++ (with_stmts g ss, off) :: post) es.
Proof.
  induction pre as [|[a oa] pre IH]; intros G es H; cbn [app] in *.
  - inversion H; subst. constructor; [apply wf_gdecl_with; assumption | assumption].
  - inversion H; subst. constructor; [assumption | apply IH; assumption].
Qed.

Theorem fexpected_well_typed p G : well_typed (fexpected0 p) G -> well_typed (fexpected p) G.
Proof.
  intros [[es [Hwf [HG Hmain]]] Hwt]. unfold fexpected0, fexpected in *. cbn [pg_decls pg_info] in *. cbv zeta in *.
  set (o := len (flat_map fl_decl (fp_pre p))) in *. split.
  - exists es. split; [|split; assumption]. cbn [pg_decls]. rewrite fx_decl_with. unfold fx0_decl in Hwf.
    apply (wf_gdecls_with _ _ _ _ (fx_stmts (body_off (fp_decl p)) (body_of (fp_decl p)))) in Hwf.
    destruct (fx_decl (fp_decl p)) as [d|d|inf]; exact Hwf.
  - unfold wt_bodies in *. cbn [pg_decls] in *. apply Forall_app in Hwt. destruct Hwt as [H1 H2].
    inversion H2 as [|x l H3 H4]; subst. apply Forall_app. split; [exact H1|]. constructor; [|exact H4].
    destruct H3 as [He Hb]. unfold fx0_decl in He, Hb.
    destruct (fp_decl p) as [c1 c2 x c3 ps c4 c5 vs b c6]. cbn [fx_decl with_stmts body_off body_of] in *. split; [exact He|].
    unfold wt_body in *. cbn [fst snd] in *. intros pe Ho. cbn [pd_stmts]. apply (proj2 (wt_fx _ _)). apply Hb. exact Ho.
Qed.

(* ---- the theorem ---- *)
Lemma initialized_tsim (R : range -> range -> Prop) : R (0, 0) (0, 0) -> tsim R initialized initialized.
Proof.
  intros H0. split; [reflexivity|]. intros k pe pe' L1 L2.
  rewrite (initialized_ranges k pe L1), (initialized_ranges k pe' L2). exact H0.
Qed.

Definition toks_of_kinds (l : list kind) : list token := map (fun k => {| tk := k; ts := 0%N; te := 0%N; terr := [] |}) l.
Lemma toks_of_kinds_tk l : map tk (toks_of_kinds l) = l.
Proof. unfold toks_of_kinds. rewrite map_map. cbn [tk]. apply map_id. Qed.

(* if the original program is well-typed, so is the tree of the faulty one *)
Theorem orig_well_typed p G : fprog_ok p = true -> well_typed (expected (orig_prog p)) G -> exists G', well_typed (fexpected p) G'.
Proof.
  intros Hok Hwt.
  destruct (no_false_positive_tree _ _ (expected_clean (orig_prog p)) Hwt) as [Hb [Ha He]].
  pose proof (fparse p (toks_of_kinds (fflatten p ++ [Eof])) Hok (toks_of_kinds_tk _)) as Hp.
  pose proof (fexpected0_idents p (parse_idents_nonempty _ _ Hp)) as Hid.
  destruct (build_res_ok _ Hid) as (p1 & tb & Hb1 & Hid1 & _).
  destruct (analyze_res_ok _ _ _ Hb1 Hid1) as (p2 & Ha2 & _).
  set (R := rho (gap_prog p)).
  assert (Rinj : forall a a' b b', R a a' -> R b b' -> (a = b <-> a' = b')) by (apply rho_inj).
  pose proof (fexpected0_prsim p) as P0. fold R in P0.
  assert (T0 : tsim R initialized initialized).
  { apply initialized_tsim. unfold R, rho, okp, sh. cbn [fst snd]. split; [lia|]. split; [lia|]. reflexivity. }
  unfold build_res in Hb, Hb1.
  destruct (build_program_2 R _ _ _ _ _ _ P0 T0 Hb Hb1) as [P1 T1]. cbn [fst snd] in P1, T1.
  pose proof (analyze_res_2 R Rinj _ _ _ _ _ _ P1 T1 Ha Ha2) as P2.
  pose proof (prsim_msgs R _ _ P2) as Hm. rewrite He in Hm. cbn [map] in Hm. symmetry in Hm. apply map_eq_nil in Hm.
  destruct (back_end_complete _ _ _ _ (fexpected0_clean p) Hb1 Ha2 Hm) as [_ [_ Hwt0]].
  exists tb. apply fexpected_well_typed, Hwt0.
Qed.

(* family A from texts on, in terms of the ORIGINAL program: if it is well-typed, every text that lexes to its tokens
   minus that `;` gets exactly the one diagnostic `missing trailing ;` at the end of the token in front of the gap *)
Theorem missing_semicolon_text_orig p t G toks tok :
  fprog_ok p = true -> well_typed (expected (orig_prog p)) G ->
  lex t = Some toks -> map tk toks = fflatten p ++ [Eof] -> nth_error toks (gap_prog p) = Some tok ->
  diagnostics t = Done [(te tok, te tok, EParse MissingTrailingSemic)].
Proof.
  intros Hok Hwt Hlex Hk Htok. destruct (orig_well_typed p G Hok Hwt) as [G' Hwt'].
  exact (missing_semicolon_text p t G' toks tok Hok Hlex Hk Hwt' Htok).
Qed.
