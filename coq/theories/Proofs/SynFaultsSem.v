(* C03 - syntax faults: NO SEMANTIC FOLLOW-UP.  If the valid program the faulty one stems from is well-typed, the tree the
   parser builds for the faulty one is well-typed too (with respect to the table `build` makes for it: the same entries,
   the ranges behind the gap one smaller) - so build and analyze attach nothing to it.

   The typing judgements never read a range, an offset or an attached error, but the TABLE carries ranges, so the two
   trees are compared through the analysis (Proofs/FormatDiag*.v: trees that agree up to erasure, with an injective
   correspondence of the declaration ranges, are built and analysed to trees that agree up to erasure):
     fx0_*   the faulty tree WITHOUT its error: clean, same erasure as the original's tree, declaration ranges shifted;
     build/analyze succeed on it (Proofs/RangeProofs.v) and publish nothing (same messages as the original: none),
     so it is well-typed (Proofs/CompleteSem.v: back_end_complete); the judgements do not see the error: fx_* is too. *)
From Coq Require Import List Lia Arith Bool.
From Spl Require Import Proofs.GrammarProofs Spec.Typing Model.Errors Proofs.SemProofs Proofs.TypingProofs Proofs.CompleteSem
  Proofs.FormatDiagErase Proofs.FormatDiagSem Proofs.FormatDiagMsgs Proofs.FormatDiagTop Proofs.FormatDiagAny Proofs.RangeProofs.
From Spl Require Import Proofs.SynFaults Proofs.SynFaultsEP Proofs.SynFaultsStmt Proofs.SynFaultsProg Proofs.SynFaultsText.
Import ListNotations.
Local Open Scope nat_scope.

Ltac unblk :=
  repeat match goal with
  | |- context [fxg_stmt ?E ?o (FBlk ?c1 ?b ?c2)] =>
      change (fxg_stmt E o (FBlk c1 b c2)) with (SBlock (fxg_stmts E (o + len c1 + 1) b) (mkinfo o (o + len (ffl_stmt (FBlk c1 b c2)))))
  | |- context [fxg_stmts ?E ?o (FHere ?s ?r)] =>
      change (fxg_stmts E o (FHere s r)) with ((fxg_stmt E 0 s, o) :: x_stmts (o + len (ffl_stmt s)) r)
  | |- context [fxg_stmts ?E ?o (FLater ?s ?r)] =>
      change (fxg_stmts E o (FLater s r)) with ((x_stmt 0 s, o) :: fxg_stmts E (o + len (fl_stmt s)) r)
  | H : context [fxg_stmt ?E ?o (FBlk ?c1 ?b ?c2)] |- _ =>
      change (fxg_stmt E o (FBlk c1 b c2)) with (SBlock (fxg_stmts E (o + len c1 + 1) b) (mkinfo o (o + len (ffl_stmt (FBlk c1 b c2))))) in H
  | H : context [fxg_stmts ?E ?o (FHere ?s ?r)] |- _ =>
      change (fxg_stmts E o (FHere s r)) with ((fxg_stmt E 0 s, o) :: x_stmts (o + len (ffl_stmt s)) r) in H
  | H : context [fxg_stmts ?E ?o (FLater ?s ?r)] |- _ =>
      change (fxg_stmts E o (FLater s r)) with ((x_stmt 0 s, o) :: fxg_stmts E (o + len (fl_stmt s)) r) in H
  end.

(* ---- the tree without the error is clean ---- *)
Lemma x_args_clean a o : forallb (fun r : expr * nat => clean_expr (fst r)) (x_sep fl_cmp (x_cmp 0) o a) = true.
Proof. destruct a as [[e l]|]; cbn [x_sep forallb fst]; [|reflexivity]. now rewrite clean_cmp, clean_tail. Qed.

Lemma fxe0_clean :
  (forall v o, clean_var (fxg_var e_none o v) = true) /\ (forall f o, clean_expr (fxg_fac e_none o f) = true) /\
  (forall m o, clean_expr (fxg_mul e_none o m) = true) /\ (forall a o, clean_expr (fxg_add e_none o a) = true) /\
  (forall e o, clean_expr (fxg_cmp e_none o e) = true).
Proof.
  pose proof clean_expr_all as (Cv & Cf & Cm & Ca & Cc).
  apply fexpr_mutind; intros; fxg_eqs; cbn [clean_var clean_expr clean_opt fst einfo i_errs]; rewrite ?Cv, ?Cf, ?Cm, ?Ca, ?Cc, ?H; reflexivity.
Qed.

Lemma fx0_args_clean a o : forallb (fun r : expr * nat => clean_expr (fst r)) (fxg_args e_none o a) = true.
Proof.
  destruct a as [e l|e0 pre c e post]; cbn [fxg_args]; cbv zeta; cbn [forallb fst]; rewrite ?forallb_app; cbn [forallb fst];
    rewrite ?clean_cmp, ?clean_tail, ?(proj2 (proj2 (proj2 (proj2 fxe0_clean)))); reflexivity.
Qed.

Lemma fx0_clean :
  (forall s o, clean_stmt (fx0_stmt o s) = true) /\
  (forall b o, forallb (fun r : stmt * nat => clean_stmt (fst r)) (fx0_stmts o b) = true).
Proof.
  apply fstmt_mutind; intros; unblk; cbn [fxg_stmt clean_stmt clean_opt forallb fst einfo i_errs];
    rewrite ?clean_cmp, ?clean_var_ok, ?x_args_clean, ?H, ?(proj1 clean_stmt_all), ?(proj2 clean_stmt_all),
      ?(proj1 fxe0_clean), ?(proj2 (proj2 (proj2 (proj2 fxe0_clean)))), ?fx0_args_clean; reflexivity.
Qed.

Lemma x_decls_clean o ds : forallb (fun r : gdecl * nat => clean_gdecl (fst r)) (x_decls o ds) = true.
Proof. revert o. induction ds as [|d ds IH]; intros o; cbn [x_decls forallb fst]; [reflexivity|]. now rewrite clean_decl, IH. Qed.

Lemma x_params_clean o ps : forallb (fun r : paramdecl * nat => clean_paramdecl (fst r)) (x_sep fl_param x_param o ps) = true.
Proof. destruct ps as [[q l]|]; cbn [x_sep forallb fst]; [|reflexivity]. now rewrite clean_param, clean_params_tail. Qed.

Lemma fx0_decl_clean d : clean_gdecl (fx0_decl d) = true.
Proof.
  destruct d as [c1 c2 x c3 ps c4 c5 vs b c6|c1 c2 x c3 ps c4 c5 vs1 d1 d2 y d3 t vs2 b c6|c1 c2 x c3 ps c4 c5 vs b|c1 c2 x c3 t];
    cbn [fxg_decl clean_gdecl]; cbv zeta; cbn [pd_name pd_params pd_vars pd_stmts pd_info td_name td_ty td_info clean_opt fst einfo i_errs].
  - rewrite x_params_clean, clean_vardecls, (proj2 fx0_clean). reflexivity.
  - rewrite x_params_clean, forallb_app. cbn [forallb fst]. rewrite !clean_vardecls, (proj2 clean_stmt_all).
    unfold fxg_vdecl. cbv zeta. cbn [clean_vardecl clean_opt fst]. rewrite clean_type. reflexivity.
  - rewrite x_params_clean, clean_vardecls, (proj2 clean_stmt_all). reflexivity.
  - rewrite clean_type. reflexivity.
Qed.

Lemma fexpected0_clean p : tree_clean (fexpected0 p) = true.
Proof.
  unfold tree_clean, fxg_prog. cbn [pg_decls pg_info]. rewrite andb_true_r, forallb_app. cbn [forallb fst].
  rewrite !x_decls_clean, fx0_decl_clean. reflexivity.
Qed.

(* ---- every identifier of it has a non-empty range: the parser's tree has, and the two differ in infos only ---- *)
Section Two.
Variables E E' : pmsg -> nat -> list err.

Lemma fxge_ok :
  (forall v o, VarOk (fxg_var E o v) -> VarOk (fxg_var E' o v)) /\ (forall f o, ExprOk (fxg_fac E o f) -> ExprOk (fxg_fac E' o f)) /\
  (forall m o, ExprOk (fxg_mul E o m) -> ExprOk (fxg_mul E' o m)) /\ (forall a o, ExprOk (fxg_add E o a) -> ExprOk (fxg_add E' o a)) /\
  (forall e o, ExprOk (fxg_cmp E o e) -> ExprOk (fxg_cmp E' o e)).
Proof.
  apply fexpr_mutind; intros; repeat rewrite ?fxg_eq_VIdxC, ?fxg_eq_VArr, ?fxg_eq_VIdx, ?fxg_eq_FaVar, ?fxg_eq_FaNeg, ?fxg_eq_FaParC, ?fxg_eq_FaPar,
    ?fxg_eq_MuFac, ?fxg_eq_MuL, ?fxg_eq_MuR, ?fxg_eq_AdMul, ?fxg_eq_AdL, ?fxg_eq_AdR, ?fxg_eq_CmAdd, ?fxg_eq_CmL, ?fxg_eq_CmR in *;
    cbn [VarOk ExprOk] in *; intuition auto.
Qed.

Lemma ty_fxge L G :
  (forall v o t, var_type L G (fxg_var E o v) t -> var_type L G (fxg_var E' o v) t) /\
  (forall f o t, expr_type L G (fxg_fac E o f) t -> expr_type L G (fxg_fac E' o f) t) /\
  (forall m o t, expr_type L G (fxg_mul E o m) t -> expr_type L G (fxg_mul E' o m) t) /\
  (forall a o t, expr_type L G (fxg_add E o a) t -> expr_type L G (fxg_add E' o a) t) /\
  (forall e o t, expr_type L G (fxg_cmp E o e) t -> expr_type L G (fxg_cmp E' o e) t).
Proof.
  apply fexpr_mutind; intros; repeat rewrite ?fxg_eq_VIdxC, ?fxg_eq_VArr, ?fxg_eq_VIdx, ?fxg_eq_FaVar, ?fxg_eq_FaNeg, ?fxg_eq_FaParC, ?fxg_eq_FaPar,
    ?fxg_eq_MuFac, ?fxg_eq_MuL, ?fxg_eq_MuR, ?fxg_eq_AdMul, ?fxg_eq_AdL, ?fxg_eq_AdR, ?fxg_eq_CmAdd, ?fxg_eq_CmL, ?fxg_eq_CmR in *;
    auto;
    match goal with
    | Ht : var_type _ _ (ArrAccess _ _ _) _ |- _ => inversion Ht; subst; eapply VT_index; eauto
    | Ht : expr_type _ _ (EVar _) _ |- _ => inversion Ht; subst; apply ET_var; auto
    | Ht : expr_type _ _ (EUn _ _ _) _ |- _ => inversion Ht; subst; apply ET_neg; auto
    | Ht : expr_type _ _ (EBrack _ _) _ |- _ => inversion Ht; subst; apply ET_paren; auto
    | Ht : expr_type _ _ (EBin _ _ _ _) _ |- _ => inversion Ht; subst; [apply ET_arith | apply ET_compare]; auto
    end.
Qed.

Lemma fxg_args_ok a o : Forall (RefP ExprOk) (fxg_args E o a) -> Forall (RefP ExprOk) (fxg_args E' o a).
Proof.
  destruct a as [e l|e0 pre c e post]; cbn [fxg_args]; cbv zeta; intros H.
  - inversion H as [|x0 l0 H1 H2]; subst. constructor; [|exact H2]. apply (proj2 (proj2 (proj2 (proj2 fxge_ok)))), H1.
  - inversion H as [|x0 l0 H1 H2]; subst. constructor; [exact H1|]. apply Forall_app in H2. destruct H2 as [H3 H4].
    inversion H4 as [|x1 l1 H5 H6]; subst. apply Forall_app. split; [exact H3|]. constructor; [|exact H6].
    apply (proj2 (proj2 (proj2 (proj2 fxge_ok)))), H5.
Qed.

Lemma is_var_fxg e o : (exists v, fxg_cmp E o e = EVar v) -> exists v, fxg_cmp E' o e = EVar v.
Proof.
  destruct e as [a|l c op r|l c op r]; [|intros [v Hv]; discriminate Hv..].
  destruct a as [m|a c op m|a c op m]; [|intros [v Hv]; discriminate Hv..].
  destruct m as [f|m c op f|m c op f]; [|intros [v Hv]; discriminate Hv..].
  destruct f as [v0|c f|c1 e|c1 e c2]; [|intros [v Hv]; discriminate Hv..].
  intros _. eexists. reflexivity.
Qed.

Lemma arg_fxg L G e off p : arg_ok L G (fxg_cmp E 0 e, off) p -> arg_ok L G (fxg_cmp E' 0 e, off) p.
Proof.
  intros H. inversion H as [a off0 p0 t Ht Hp Hr]; subst. eapply Arg_ok; [apply (proj2 (proj2 (proj2 (proj2 (ty_fxge L G))))), Ht | exact Hp|].
  intros Hv. apply is_var_fxg, Hr, Hv.
Qed.

Lemma args_fxg L G a o ps : Forall2 (arg_ok L G) (fxg_args E o a) ps -> Forall2 (arg_ok L G) (fxg_args E' o a) ps.
Proof.
  destruct a as [e l|e0 pre c e post]; cbn [fxg_args]; cbv zeta; intros H.
  - inversion H as [|x0 y0 l0 l1 H1 H2]; subst. constructor; [apply arg_fxg, H1 | exact H2].
  - inversion H as [|x0 y0 l0 l1 H1 H2]; subst. constructor; [exact H1|].
    apply Forall2_app_inv_l in H2. destruct H2 as (q1 & q2 & H3 & H4 & ->).
    inversion H4 as [|x1 y1 l2 l3 H5 H6]; subst. apply Forall2_app; [exact H3|]. constructor; [apply arg_fxg, H5 | exact H6].
Qed.

Lemma fxg_ok :
  (forall s o, StmtOk (fxg_stmt E o s) -> StmtOk (fxg_stmt E' o s)) /\
  (forall b o, Forall (RefP StmtOk) (fxg_stmts E o b) -> Forall (RefP StmtOk) (fxg_stmts E' o b)).
Proof.
  apply fstmt_mutind.
  - intros v c1 e o H. exact H.
  - intros c1 f c2 a c3 o H. exact H.
  - intros c1 f c2 a c4 o H. exact H.
  - intros c1 c2 e t o H. exact H.
  - intros c1 c2 e t c4 s o H. exact H.
  - intros c1 c2 e b o H. exact H.
  - intros v c1 e c2 o [H1 H2]. split; [apply (proj1 fxge_ok), H1 | exact H2].
  - intros v c1 e c2 o [H1 H2]. split; [exact H1 | apply (proj2 (proj2 (proj2 (proj2 fxge_ok)))), H2].
  - intros c1 c2 e c3 t o [H1 H2]. split; [apply (proj2 (proj2 (proj2 (proj2 fxge_ok)))), H1 | exact H2].
  - intros c1 c2 e c3 t c4 s o [H1 H2]. split; [apply (proj2 (proj2 (proj2 (proj2 fxge_ok)))), H1 | exact H2].
  - intros c1 c2 e c3 b o [H1 H2]. split; [apply (proj2 (proj2 (proj2 (proj2 fxge_ok)))), H1 | exact H2].
  - intros c1 f c2 a c3 c4 o [H1 H2]. split; [exact H1 | apply fxg_args_ok, H2].
  - intros c1 c2 e c3 t IH o [H1 [H2 H3]]. split; [exact H1|]. split; [apply IH, H2 | exact H3].
  - intros c1 c2 e c3 t IH c4 s o [H1 [H2 H3]]. split; [exact H1|]. split; [apply IH, H2 | exact H3].
  - intros c1 c2 e c3 t c4 s IH o [H1 [H2 H3]]. split; [exact H1|]. split; [exact H2 | apply IH, H3].
  - intros c1 c2 e c3 b IH o [H1 H2]. split; [exact H1 | apply IH, H2].
  - intros c1 b IH c2 o H. unblk. rewrite StmtOk_block in *. apply IH, H.
  - intros s IH r o H. unblk. inversion H as [|x l H1 H2]; subst. constructor; [apply IH, H1 | exact H2].
  - intros s r IH o H. unblk. inversion H as [|x l H1 H2]; subst. constructor; [exact H1 | apply IH, H2].
Qed.

Lemma fxg_decl_ok d : GdeclOk (fxg_decl E d) -> GdeclOk (fxg_decl E' d).
Proof.
  destruct d as [c1 c2 x c3 ps c4 c5 vs b c6|c1 c2 x c3 ps c4 c5 vs1 d1 d2 y d3 t vs2 b c6|c1 c2 x c3 ps c4 c5 vs b|c1 c2 x c3 t];
    cbn [fxg_decl GdeclOk]; cbv zeta.
  - intros [Hn [Hp [Hv Hs]]]. cbn [pd_name pd_params pd_vars pd_stmts] in *. repeat split; try assumption. apply (proj2 fxg_ok), Hs.
  - intros [Hn [Hp [Hv Hs]]]. cbn [pd_name pd_params pd_vars pd_stmts] in *. repeat split; try assumption.
    apply Forall_app in Hv. destruct Hv as [H1 H2]. inversion H2 as [|x0 l H3 H4]; subst.
    apply Forall_app. split; [exact H1|]. constructor; [exact H3 | exact H4].
  - intros H. exact H.
  - intros H. exact H.
Qed.

Lemma fxg_prog_idents p : IdentsNonEmpty (fxg_prog E p) -> IdentsNonEmpty (fxg_prog E' p).
Proof.
  unfold IdentsNonEmpty, fxg_prog. cbn [pg_decls]. intros H.
  apply Forall_app in H. destruct H as [H1 H2]. inversion H2 as [|x l H3 H4]; subst.
  apply Forall_app. split; [exact H1|]. constructor; [|exact H4]. unfold RefP in *. cbn [fst] in *. apply fxg_decl_ok, H3.
Qed.

(* ---- the judgements do not see the attached error ---- *)
Lemma wt_fxg L G :
  (forall s o, wt_stmt L G (fxg_stmt E o s) -> wt_stmt L G (fxg_stmt E' o s)) /\
  (forall b o, wt_stmts L G (fxg_stmts E o b) -> wt_stmts L G (fxg_stmts E' o b)).
Proof.
  apply fstmt_mutind.
  - intros v c1 e o H. cbn [fxg_stmt] in *. inversion H; subst. apply WT_assign; assumption.
  - intros c1 f c2 a c3 o H. cbn [fxg_stmt] in *. inversion H; subst. eapply WT_call; eassumption.
  - intros c1 f c2 a c4 o H. cbn [fxg_stmt] in *. inversion H; subst. eapply WT_call; eassumption.
  - intros c1 c2 e t o H. cbn [fxg_stmt] in *. inversion H; subst. apply WT_if; assumption.
  - intros c1 c2 e t c4 s o H. cbn [fxg_stmt] in *. inversion H; subst. apply WT_if_else; assumption.
  - intros c1 c2 e b o H. cbn [fxg_stmt] in *. inversion H; subst. apply WT_while; assumption.
  - intros v c1 e c2 o H. cbn [fxg_stmt] in *. inversion H; subst. apply WT_assign; [apply (proj1 (ty_fxge _ _)) |]; assumption.
  - intros v c1 e c2 o H. cbn [fxg_stmt] in *. inversion H; subst. apply WT_assign; [|apply (proj2 (proj2 (proj2 (proj2 (ty_fxge _ _)))))]; assumption.
  - intros c1 c2 e c3 t o H. cbn [fxg_stmt] in *. inversion H; subst. apply WT_if; [apply (proj2 (proj2 (proj2 (proj2 (ty_fxge _ _)))))|]; assumption.
  - intros c1 c2 e c3 t c4 s o H. cbn [fxg_stmt] in *. inversion H; subst.
    apply WT_if_else; [apply (proj2 (proj2 (proj2 (proj2 (ty_fxge _ _))))) | |]; assumption.
  - intros c1 c2 e c3 b o H. cbn [fxg_stmt] in *. inversion H; subst. apply WT_while; [apply (proj2 (proj2 (proj2 (proj2 (ty_fxge _ _)))))|]; assumption.
  - intros c1 f c2 a c3 c4 o H. cbn [fxg_stmt] in *. inversion H; subst. eapply WT_call; [eassumption | apply args_fxg; eassumption].
  - intros c1 c2 e c3 t IH o H. cbn [fxg_stmt] in *. inversion H; subst. apply WT_if; [assumption | apply IH; assumption].
  - intros c1 c2 e c3 t IH c4 s o H. cbn [fxg_stmt] in *. inversion H; subst.
    apply WT_if_else; [assumption | apply IH; assumption | assumption].
  - intros c1 c2 e c3 t c4 s IH o H. cbn [fxg_stmt] in *. inversion H; subst.
    apply WT_if_else; [assumption | assumption | apply IH; assumption].
  - intros c1 c2 e c3 b IH o H. cbn [fxg_stmt] in *. inversion H; subst. apply WT_while; [assumption | apply IH; assumption].
  - intros c1 b IH c2 o H. unblk. inversion H; subst. apply WT_block. apply IH. assumption.
  - intros s IH r o H. unblk. inversion H; subst. apply WT_cons; [apply IH; assumption | assumption].
  - intros s r IH o H. unblk. inversion H; subst. apply WT_cons; [assumption | apply IH; assumption].
Qed.

(* the declaration rules do not look at the bodies, nor at the errors of an info *)
Lemma wf_vars_info G pname doc name ty inf inf' off l2 : info_range inf = info_range inf' -> forall l1 L L',
  wf_vars G pname L (l1 ++ (VValid doc name ty inf, off) :: l2) L' -> wf_vars G pname L (l1 ++ (VValid doc name ty inf', off) :: l2) L'.
Proof.
  intros Hi. induction l1 as [|[a oa] l1 IH]; intros L L' H; cbn [app] in *.
  - inversion H; subst. rewrite Hi in *. eapply WFV_cons; eassumption.
  - inversion H; subst. eapply WFV_cons; try eassumption. apply IH. assumption.
Qed.

Lemma wf_fxg_decl G off d ke : wf_gdecl G off (fxg_decl E d) ke -> wf_gdecl G off (fxg_decl E' d) ke.
Proof.
  destruct d as [c1 c2 x c3 ps c4 c5 vs b c6|c1 c2 x c3 ps c4 c5 vs1 d1 d2 y d3 t vs2 b c6|c1 c2 x c3 ps c4 c5 vs b|c1 c2 x c3 t];
    cbn [fxg_decl]; cbv zeta; intros H.
  - inversion H as [|d name L1 ps' L2 Hn Hl Hp Hv]; subst.
    match goal with |- wf_gdecl _ _ (GProc ?d') _ => exact (WF_proc G off d' name L1 ps' L2 Hn Hl Hp Hv) end.
  - inversion H as [|d name L1 ps' L2 Hn Hl Hp Hv]; subst. cbn [pd_vars pd_name pd_params] in *.
    match goal with |- wf_gdecl _ _ (GProc ?d') _ => refine (WF_proc G off d' name L1 ps' L2 Hn Hl Hp _) end.
    cbn [pd_vars]. unfold fxg_vdecl in *. cbv zeta in *. eapply wf_vars_info; [|exact Hv]. reflexivity.
  - inversion H as [|d name L1 ps' L2 Hn Hl Hp Hv]; subst.
    match goal with |- wf_gdecl _ _ (GProc ?d') _ => exact (WF_proc G off d' name L1 ps' L2 Hn Hl Hp Hv) end.
  - inversion H as [d name te o t0 Hn Hm Hl Ht Hd|]; subst.
    match goal with |- wf_gdecl _ _ (GType ?d') _ => exact (WF_type G off d' name te o t0 Hn Hm Hl Ht Hd) end.
Qed.

Lemma wf_gdecls_fxg pre d off post : forall G es,
  wf_gdecls G (pre ++ (fxg_decl E d, off) :: post) es -> wf_gdecls G (pre ++ (fxg_decl E' d, off) :: post) es.
Proof.
  induction pre as [|[a oa] pre IH]; intros G es H; cbn [app] in *.
  - inversion H; subst. constructor; [apply wf_fxg_decl; assumption | assumption].
  - inversion H; subst. constructor; [assumption | apply IH; assumption].
Qed.

Theorem fxg_well_typed p G : well_typed (fxg_prog E p) G -> well_typed (fxg_prog E' p) G.
Proof.
  intros [[es [Hwf [HG Hmain]]] Hwt]. unfold fxg_prog in *. cbn [pg_decls pg_info] in *. cbv zeta in *.
  set (o := len (flat_map fl_decl (fp_pre p))) in *. split.
  - exists es. split; [|split; assumption]. cbn [pg_decls]. apply wf_gdecls_fxg, Hwf.
  - unfold wt_bodies in *. cbn [pg_decls] in *. apply Forall_app in Hwt. destruct Hwt as [H1 H2].
    inversion H2 as [|x l H3 H4]; subst. apply Forall_app. split; [exact H1|]. constructor; [|exact H4].
    destruct H3 as [He Hb].
    destruct (fp_decl p) as [c1 c2 x c3 ps c4 c5 vs b c6|c1 c2 x c3 ps c4 c5 vs1 d1 d2 y d3 t vs2 b c6|c1 c2 x c3 ps c4 c5 vs b|c1 c2 x c3 t];
      cbn [fxg_decl] in *; cbv zeta in *; (split; [exact He|]); unfold wt_body in *; cbn [fst snd] in *.
    + intros pe Ho. cbn [pd_stmts]. apply (proj2 (wt_fxg _ _)). apply Hb. exact Ho.
    + intros pe Ho. apply Hb. exact Ho.
    + intros pe Ho. apply Hb. exact Ho.
    + exact I.
Qed.
End Two.

(* ---- the tree without the error has the erasure of the original's tree ---- *)
Lemma er_x_off :
  (forall v o o', er_var (x_var o v) = er_var (x_var o' v)) /\
  (forall f o o', er_expr (x_fac o f) = er_expr (x_fac o' f)) /\
  (forall m o o', er_expr (x_mul o m) = er_expr (x_mul o' m)) /\
  (forall a o o', er_expr (x_add o a) = er_expr (x_add o' a)) /\
  (forall e o o', er_expr (x_cmp o e) = er_expr (x_cmp o' e)).
Proof.
  apply GrammarExpr.aexpr_mutind; intros; cbn [x_var x_fac x_mul x_add x_cmp er_var er_expr]; first [solve [auto] | f_equal; auto].
Qed.

Lemma er_args_off a o o' : er_args (x_sep fl_cmp (x_cmp 0) o a) = er_args (x_sep fl_cmp (x_cmp 0) o' a).
Proof.
  unfold er_args. destruct a as [[e l]|]; [|reflexivity]. cbn [x_sep map fst]. f_equal.
  generalize (o + len (fl_cmp e)), (o' + len (fl_cmp e)). induction l as [|[c x] l IH]; intros n n'; [reflexivity|].
  cbn [x_tail map fst]. f_equal. apply IH.
Qed.

Lemma er_x_stmt_off :
  (forall s o o', er_stmt (x_stmt o s) = er_stmt (x_stmt o' s)) /\
  (forall b o o', er_stmts (x_stmts o b) = er_stmts (x_stmts o' b)).
Proof.
  apply GrammarStmt.astmt_mutind.
  - intros c o o'. reflexivity.
  - intros v c1 e c2 o o'. cbn [x_stmt er_stmt er_oexpr]. rewrite (proj1 er_x_off v o o'). reflexivity.
  - intros c1 f c2 a c3 c4 o o'. cbn [x_stmt]. rewrite !er_stmt_call, (er_args_off a _ (o' + len c1 + 1 + len c2 + 1)). reflexivity.
  - intros c1 c2 e c3 t IH o o'. cbn [x_stmt]. cbv zeta. rewrite !er_stmt_if. reflexivity.
  - intros c1 c2 e c3 t IHt c4 s IHs o o'. cbn [x_stmt]. cbv zeta. rewrite !er_stmt_if. reflexivity.
  - intros c1 c2 e c3 b IH o o'. cbn [x_stmt]. cbv zeta. rewrite !er_stmt_while. reflexivity.
  - intros c1 b IH c2 o o'. cbn [x_stmt]. rewrite !er_stmt_block, (IH _ (o' + len c1 + 1)). reflexivity.
  - intros o o'. reflexivity.
  - intros s IHs r IHr o o'. cbn [x_stmts er_stmts]. rewrite (IHr _ (o' + len (fl_stmt s))). reflexivity.
Qed.

Lemma er_fxe0 :
  (forall v o o', er_var (fxg_var e_none o v) = er_var (x_var o' (orig_var v))) /\
  (forall f o o', er_expr (fxg_fac e_none o f) = er_expr (x_fac o' (orig_fac f))) /\
  (forall m o o', er_expr (fxg_mul e_none o m) = er_expr (x_mul o' (orig_mul m))) /\
  (forall a o o', er_expr (fxg_add e_none o a) = er_expr (x_add o' (orig_add a))) /\
  (forall e o o', er_expr (fxg_cmp e_none o e) = er_expr (x_cmp o' (orig_cmp e))).
Proof.
  pose proof er_x_off as (Xv & Xf & Xm & Xa & Xc).
  apply fexpr_mutind; intros; fxg_eqs; cbn [orig_var orig_fac orig_mul orig_add orig_cmp x_var x_fac x_mul x_add x_cmp er_var er_expr];
    first [solve [auto] | f_equal; auto].
  all: try (f_equal; f_equal; auto).
Qed.

Lemma er_tail_off l o o' : er_args (x_tail fl_cmp (x_cmp 0) o l) = er_args (x_tail fl_cmp (x_cmp 0) o' l).
Proof.
  unfold er_args. revert o o'. induction l as [|[c x] l IH]; intros o o'; [reflexivity|]. cbn [x_tail map fst]. f_equal. apply IH.
Qed.

Lemma x_tail_app l1 c a l2 o :
  x_tail fl_cmp (x_cmp 0) o (l1 ++ (c, a) :: l2) =
  x_tail fl_cmp (x_cmp 0) o l1 ++ (x_cmp 0 a, o + len (fl_tail fl_cmp l1) + len c + 1)
    :: x_tail fl_cmp (x_cmp 0) (o + len (fl_tail fl_cmp l1) + len c + 1 + len (fl_cmp a)) l2.
Proof.
  revert o. induction l1 as [|[c' a'] l1 IH]; intros o; cbn [app x_tail].
  - cbn [fl_tail flat_map length]. rewrite Nat.add_0_r. reflexivity.
  - rewrite IH, fl_tail_cons. rewrite !app_length, cm_len. cbn [length]. rewrite app_length.
    f_equal. f_equal. f_equal; [f_equal; lia|]. f_equal. lia.
Qed.

Lemma er_fx0_args a o o' : er_args (fxg_args e_none o a) = er_args (x_sep fl_cmp (x_cmp 0) o' (orig_args a)).
Proof.
  destruct a as [e l|e0 pre c e post]; cbn [fxg_args orig_args x_sep]; cbv zeta.
  - unfold er_args at 1 2. cbn [map fst]. f_equal; [f_equal; apply er_fxe0|]. apply er_tail_off.
  - rewrite x_tail_app. unfold er_args. cbn [map fst]. rewrite !map_app. cbn [map fst]. f_equal.
    f_equal; [apply er_tail_off|]. f_equal; [f_equal; apply er_fxe0 | apply er_tail_off].
Qed.

Lemma er_fx0 :
  (forall s o o', er_stmt (fx0_stmt o s) = er_stmt (x_stmt o' (orig_stmt s))) /\
  (forall b o o', er_stmts (fx0_stmts o b) = er_stmts (x_stmts o' (orig_stmts b))).
Proof.
  apply fstmt_mutind.
  - intros v c1 e o o'. cbn [fxg_stmt orig_stmt x_stmt er_stmt er_oexpr]. rewrite (proj1 er_x_off v o o'). reflexivity.
  - intros c1 f c2 a c3 o o'. cbn [fxg_stmt orig_stmt x_stmt]. rewrite !er_stmt_call, (er_args_off a _ (o' + len c1 + 1 + len c2 + 1)). reflexivity.
  - intros c1 f c2 a c4 o o'. cbn [fxg_stmt orig_stmt x_stmt]. rewrite !er_stmt_call, (er_args_off a _ (o' + len c1 + 1 + len c2 + 1)). reflexivity.
  - intros c1 c2 e t o o'. cbn [fxg_stmt orig_stmt x_stmt]. cbv zeta. rewrite !er_stmt_if. reflexivity.
  - intros c1 c2 e t c4 s o o'. cbn [fxg_stmt orig_stmt x_stmt]. cbv zeta. rewrite !er_stmt_if. reflexivity.
  - intros c1 c2 e b o o'. cbn [fxg_stmt orig_stmt x_stmt]. cbv zeta. rewrite !er_stmt_while. reflexivity.
  - intros v c1 e c2 o o'. cbn [fxg_stmt orig_stmt x_stmt er_stmt er_oexpr]. rewrite (proj1 er_fxe0 v o o'). reflexivity.
  - intros v c1 e c2 o o'. cbn [fxg_stmt orig_stmt x_stmt er_stmt er_oexpr]. rewrite (proj1 er_x_off v o o'), (proj2 (proj2 (proj2 (proj2 er_fxe0))) e 0 0). reflexivity.
  - intros c1 c2 e c3 t o o'. cbn [fxg_stmt orig_stmt x_stmt]. cbv zeta. rewrite !er_stmt_if. cbn [er_oexpr er_ostmt].
    rewrite (proj2 (proj2 (proj2 (proj2 er_fxe0))) e 0 0). reflexivity.
  - intros c1 c2 e c3 t c4 s o o'. cbn [fxg_stmt orig_stmt x_stmt]. cbv zeta. rewrite !er_stmt_if. cbn [er_oexpr er_ostmt].
    rewrite (proj2 (proj2 (proj2 (proj2 er_fxe0))) e 0 0). reflexivity.
  - intros c1 c2 e c3 b o o'. cbn [fxg_stmt orig_stmt x_stmt]. cbv zeta. rewrite !er_stmt_while. cbn [er_oexpr er_ostmt].
    rewrite (proj2 (proj2 (proj2 (proj2 er_fxe0))) e 0 0). reflexivity.
  - intros c1 f c2 a c3 c4 o o'. cbn [fxg_stmt orig_stmt x_stmt]. rewrite !er_stmt_call, (er_fx0_args a _ (o' + len c1 + 1 + len c2 + 1)). reflexivity.
  - intros c1 c2 e c3 t IH o o'. cbn [fxg_stmt orig_stmt x_stmt]. cbv zeta. rewrite !er_stmt_if. cbn [er_oexpr er_ostmt].
    rewrite (IH 0 0). reflexivity.
  - intros c1 c2 e c3 t IH c4 s o o'. cbn [fxg_stmt orig_stmt x_stmt]. cbv zeta. rewrite !er_stmt_if. cbn [er_oexpr er_ostmt].
    rewrite (IH 0 0). reflexivity.
  - intros c1 c2 e c3 t c4 s IH o o'. cbn [fxg_stmt orig_stmt x_stmt]. cbv zeta. rewrite !er_stmt_if. cbn [er_oexpr er_ostmt].
    rewrite (IH 0 0). reflexivity.
  - intros c1 c2 e c3 b IH o o'. cbn [fxg_stmt orig_stmt x_stmt]. cbv zeta. rewrite !er_stmt_while. cbn [er_oexpr er_ostmt].
    rewrite (IH 0 0). reflexivity.
  - intros c1 b IH c2 o o'. unblk. cbn [orig_stmt x_stmt]. rewrite !er_stmt_block, (IH _ (o' + len c1 + 1)). reflexivity.
  - intros s IH r o o'. unblk. cbn [orig_stmts x_stmts er_stmts]. rewrite (IH 0 0).
    rewrite (proj2 er_x_stmt_off r _ (o' + len (fl_stmt (orig_stmt s)))). reflexivity.
  - intros s r IH o o'. unblk. cbn [orig_stmts x_stmts er_stmts]. rewrite (IH _ (o' + len (fl_stmt s))). reflexivity.
Qed.

Lemma er_params_off ps o o' : er_params (x_sep fl_param x_param o ps) = er_params (x_sep fl_param x_param o' ps).
Proof.
  unfold er_params. destruct ps as [[q l]|]; [|reflexivity]. cbn [x_sep map fst]. f_equal.
  generalize (o + len (fl_param q)), (o' + len (fl_param q)). induction l as [|[c x] l IH]; intros n n'; [reflexivity|].
  cbn [x_tail map fst]. f_equal. apply IH.
Qed.

Lemma er_vars_off vs o o' : er_vars (x_vardecls o vs) = er_vars (x_vardecls o' vs).
Proof.
  unfold er_vars. revert o o'. induction vs as [|v vs IH]; intros o o'; [reflexivity|]. cbn [x_vardecls map fst]. f_equal. apply IH.
Qed.

Lemma x_vardecls_app l1 v l2 o :
  x_vardecls o (l1 ++ v :: l2) =
  x_vardecls o l1 ++ (x_vardecl v, o + len (flat_map fl_vardecl l1)) :: x_vardecls (o + len (flat_map fl_vardecl l1) + len (fl_vardecl v)) l2.
Proof.
  revert o. induction l1 as [|a l1 IH]; intros o; cbn [app x_vardecls flat_map length].
  - rewrite Nat.add_0_r. reflexivity.
  - rewrite IH, app_length, !Nat.add_assoc. reflexivity.
Qed.

Lemma er_fx0_decl d : er_gdecl (fx0_decl d) = er_gdecl (x_decl (orig_decl d)).
Proof.
  destruct d as [c1 c2 x c3 ps c4 c5 vs b c6|c1 c2 x c3 ps c4 c5 vs1 d1 d2 y d3 t vs2 b c6|c1 c2 x c3 ps c4 c5 vs b|c1 c2 x c3 t];
    cbn [fxg_decl orig_decl x_decl er_gdecl]; cbv zeta; f_equal.
  - unfold er_procdecl. cbn [pd_name pd_params pd_vars pd_stmts pd_info option_map]. f_equal.
    + apply er_vars_off.
    + apply (proj2 er_fx0).
  - unfold er_procdecl. cbn [pd_name pd_params pd_vars pd_stmts pd_info option_map]. f_equal.
    + rewrite x_vardecls_app. unfold er_vars. rewrite !map_app. cbn [map fst]. f_equal; [apply er_vars_off|]. f_equal; try reflexivity; apply er_vars_off.
    + apply (proj2 er_x_stmt_off).
  - unfold er_procdecl. cbn [pd_name pd_params pd_vars pd_stmts pd_info option_map]. f_equal.
    + apply er_vars_off.
    + apply (proj2 er_x_stmt_off).
Qed.

(* ---- the declaration ranges: everything behind the gap is one smaller ---- *)
Section Shift.
Variable g : nat.
Definition sh (x : nat) : nat := if x <=? g then x else x - 1.
Definition okp (x : nat) : Prop := x <= g \/ g + 2 <= x.
Definition rho (r r' : range) : Prop := okp (fst r) /\ okp (snd r) /\ r' = (sh (fst r), sh (snd r)).

Lemma sh_inj x y : okp x -> okp y -> sh x = sh y -> x = y.
Proof. unfold sh, okp. intros Hx Hy. destruct (Nat.leb_spec x g), (Nat.leb_spec y g); lia. Qed.

Lemma rho_inj a a' b b' : rho a a' -> rho b b' -> (a = b <-> a' = b').
Proof.
  intros (A1 & A2 & ->) (B1 & B2 & ->). destruct a as [a1 a2], b as [b1 b2]. cbn [fst snd] in *. split.
  - intros E. injection E as -> ->. reflexivity.
  - intros E. injection E as E1 E2. apply sh_inj in E1; try assumption. apply sh_inj in E2; try assumption. congruence.
Qed.

Lemma drange_x d o : drange (x_decl d, o) = (o, o + len (fl_decl d)).
Proof.
  unfold drange. destruct d; cbn [fst snd x_decl gdecl_info td_info pd_info]; cbv zeta; unfold info_range, shift_range, mkinfo;
    cbn [i_s i_e fst snd]; f_equal; lia.
Qed.

(* in front of the gap nothing moves *)
Lemma decls_dsim_same ds : forall o, o + len (flat_map fl_decl ds) <= g -> Forall2 (dsim rho) (x_decls o ds) (x_decls o ds).
Proof.
  induction ds as [|d ds IH]; intros o H; cbn [x_decls]; [constructor|]. cbn [flat_map] in H. rewrite app_length in H. constructor.
  - split; [reflexivity|]. rewrite drange_x. unfold rho, okp, sh. cbn [fst snd].
    split; [lia|]. split; [lia|]. destruct (Nat.leb_spec o g), (Nat.leb_spec (o + len (fl_decl d)) g); try lia. reflexivity.
  - apply IH. lia.
Qed.

(* behind it everything moves by one *)
Lemma decls_dsim_shift ds : forall o, g + 2 <= o -> Forall2 (dsim rho) (x_decls o ds) (x_decls (o - 1) ds).
Proof.
  induction ds as [|d ds IH]; intros o H; cbn [x_decls]; [constructor|]. constructor.
  - split; [reflexivity|]. rewrite !drange_x. unfold rho, okp, sh. cbn [fst snd].
    split; [lia|]. split; [lia|]. destruct (Nat.leb_spec o g), (Nat.leb_spec (o + len (fl_decl d)) g); try lia. f_equal; lia.
  - replace (o - 1 + len (fl_decl d)) with (o + len (fl_decl d) - 1) by lia. apply IH. lia.
Qed.
End Shift.

Lemma drange_fx E d o : drange (fxg_decl E d, o) = (o, o + len (ffl_decl d)).
Proof.
  unfold drange. destruct d; cbn [fst snd fxg_decl gdecl_info td_info pd_info]; cbv zeta; unfold info_range, shift_range, mkinfo, einfo;
    cbn [i_s i_e fst snd]; f_equal; lia.
Qed.

Lemma fexpected0_prsim p : prsim (rho (gap_prog p)) (expected (orig_prog p)) (fexpected0 p).
Proof.
  split; [|reflexivity]. unfold expected, orig_prog, fxg_prog. cbn [pg_decls a_decls].
  set (o := len (flat_map fl_decl (fp_pre p))).
  assert (Hx : forall l1 d l2 n, x_decls n (l1 ++ d :: l2) =
               x_decls n l1 ++ (x_decl d, n + len (flat_map fl_decl l1)) :: x_decls (n + len (flat_map fl_decl l1) + len (fl_decl d)) l2).
  { induction l1 as [|a l1 IH]; intros d l2 n; cbn [app x_decls flat_map length].
    - rewrite Nat.add_0_r. reflexivity.
    - rewrite IH, app_length, !Nat.add_assoc. reflexivity. }
  rewrite Hx. cbn [Nat.add]. fold o.
  pose proof (gap_decl_lt (fp_decl p)) as Hg. pose proof (fl_orig_decl_len (fp_decl p)) as Hl.
  unfold gap_prog. fold o.
  apply Forall2_app; [apply decls_dsim_same; cbn [Nat.add]; fold o; lia|]. constructor.
  - split; [cbn [fst]; symmetry; apply er_fx0_decl|]. rewrite drange_x, drange_fx.
    unfold rho, okp, sh. cbn [fst snd]. split; [lia|]. split; [lia|].
    destruct (Nat.leb_spec o (o + gap_decl (fp_decl p))), (Nat.leb_spec (o + len (fl_decl (orig_decl (fp_decl p)))) (o + gap_decl (fp_decl p)));
      try lia. f_equal. lia.
  - replace (o + len (ffl_decl (fp_decl p))) with (o + len (fl_decl (orig_decl (fp_decl p))) - 1) by lia.
    apply decls_dsim_shift. lia.
Qed.

(* ---- the theorem ---- *)
Lemma initialized_tsim (R : range -> range -> Prop) : R (0, 0) (0, 0) -> tsim R initialized initialized.
Proof.
  intros H0. split; [reflexivity|]. intros k pe pe' L1 L2.
  rewrite (initialized_ranges k pe L1), (initialized_ranges k pe' L2). exact H0.
Qed.

Definition toks_of_kinds (l : list kind) : list token := map (fun k => {| tk := k; ts := 0%N; te := 0%N; terr := [] |}) l.
Lemma toks_of_kinds_tk l : map tk (toks_of_kinds l) = l.
Proof. unfold toks_of_kinds. rewrite map_map. cbn [tk]. apply map_id. Qed.

(* if the original program is well-typed, so is the tree of the faulty one *)
Theorem orig_well_typed p G : fprog_ok p = true -> well_typed (expected (orig_prog p)) G -> exists G', well_typed (fexpected p) G'.
Proof.
  intros Hok Hwt.
  destruct (no_false_positive_tree _ _ (expected_clean (orig_prog p)) Hwt) as [Hb [Ha He]].
  pose proof (fparse p (toks_of_kinds (fflatten p ++ [Eof])) Hok (toks_of_kinds_tk _)) as Hp.
  pose proof (fxg_prog_idents e_real e_none p (parse_idents_nonempty _ _ Hp)) as Hid.
  destruct (build_res_ok _ Hid) as (p1 & tb & Hb1 & Hid1 & _).
  destruct (analyze_res_ok _ _ _ Hb1 Hid1) as (p2 & Ha2 & _).
  set (R := rho (gap_prog p)).
  assert (Rinj : forall a a' b b', R a a' -> R b b' -> (a = b <-> a' = b')) by (apply rho_inj).
  pose proof (fexpected0_prsim p) as P0. fold R in P0.
  assert (T0 : tsim R initialized initialized).
  { apply initialized_tsim. unfold R, rho, okp, sh. cbn [fst snd]. split; [lia|]. split; [lia|]. reflexivity. }
  unfold build_res in Hb, Hb1.
  destruct (build_program_2 R _ _ _ _ _ _ P0 T0 Hb Hb1) as [P1 T1]. cbn [fst snd] in P1, T1.
  pose proof (analyze_res_2 R Rinj _ _ _ _ _ _ P1 T1 Ha Ha2) as P2.
  pose proof (prsim_msgs R _ _ P2) as Hm. rewrite He in Hm. cbn [map] in Hm. symmetry in Hm. apply map_eq_nil in Hm.
  destruct (back_end_complete _ _ _ _ (fexpected0_clean p) Hb1 Ha2 Hm) as [_ [_ Hwt0]].
  exists tb. exact (fxg_well_typed e_none e_real p tb Hwt0).
Qed.

(* from texts on, in terms of the ORIGINAL program: if it is well-typed, every text that lexes to its tokens minus that one
   closing token gets exactly the one prescribed diagnostic, at the end of the token in front of the gap *)
Theorem missing_token_text_orig p t G toks tok :
  fprog_ok p = true -> well_typed (expected (orig_prog p)) G ->
  lex t = Some toks -> map tk toks = fflatten p ++ [Eof] -> nth_error toks (gap_prog p) = Some tok ->
  diagnostics t = Done [(te tok, te tok, EParse (msg_of_kind (gk_prog p)))].
Proof.
  intros Hok Hwt Hlex Hk Htok. destruct (orig_well_typed p G Hok Hwt) as [G' Hwt'].
  exact (missing_token_text p t G' toks tok Hok Hlex Hk Hwt' Htok).
Qed.
