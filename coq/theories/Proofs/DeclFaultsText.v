(* C03 - declaration faults from texts on: with C04's round-trip theorem (as in TypingProofs.single_semantic_fault),
   every text that lexes to the tokens of an abstract program whose mandated tree has exactly one declaration fault
   gets exactly the prescribed diagnostics, each with the byte range of its tokens; an EMPTY token range (0,0)
   (MainIsMissing) is published as the empty byte range at the end of the first token of the text. *)
From Coq Require Import PeanoNat Lia.
From Spl Require Import Proofs.GrammarProofs Spec.Typing Model.Errors Proofs.SemProofs Proofs.TypingProofs
  Proofs.DeclFaults Proofs.DeclFaultsSound.
Local Open Scope nat_scope.

Theorem single_declaration_fault p t G ys :
  prog_ok p = true -> decl_fault_program (expected p) G ys ->
  forall toks, lex t = Some toks -> map tk toks = flatten p ++ [Eof] ->
  forall rs, byte_ranges toks ys = ROk rs -> diagnostics t = Done rs.
Proof.
  intros Hok Hf toks Hlex Hk rs Hr.
  destruct (decl_fault_sound _ _ _ (expected_clean p) Hf) as [p1 [Hb [Ha He]]].
  unfold diagnostics, new_doc, new_doc_res. rewrite Hlex, (roundtrip p toks Hok Hk), Hb, Ha.
  cbn [ores_outcome]. unfold doc_errors, doc_errors_res. cbn [d_ast d_toks]. rewrite He, Hr. reflexivity.
Qed.

(* the byte range published for an empty token range (i, i): the empty range at the end of token i *)
Lemma byte_range_empty toks x tok :
  e_s x = e_e x -> nth_error toks (e_e x) = Some tok -> byte_range toks x = ROk (te tok, te tok, e_m x).
Proof.
  intros He Hn. unfold byte_range. rewrite He, Nat.ltb_irrefl, Hn. reflexivity.
Qed.

(* exactly one diagnostic with a non-empty range *)
Corollary single_declaration_fault_one p t G y :
  prog_ok p = true -> decl_fault_program (expected p) G [y] -> e_s y < e_e y ->
  forall toks first last, lex t = Some toks -> map tk toks = flatten p ++ [Eof] ->
  nth_error toks (e_s y) = Some first -> nth_error toks (e_e y - 1) = Some last ->
  diagnostics t = Done [(ts first, te last, e_m y)].
Proof.
  intros Hok Hf Hlt toks first last Hlex Hk Hfirst Hlast.
  eapply single_declaration_fault; try eassumption.
  cbn [byte_ranges]. rewrite (byte_range_nonempty _ _ _ _ Hlt Hfirst Hlast). reflexivity.
Qed.

(* MainIsMissing alone *)
Corollary main_is_missing_text p t G :
  prog_ok p = true -> decl_fault_program (expected p) G [mkerr_t (0, 0) (EBuild MainIsMissing)] ->
  forall toks tok0, lex t = Some toks -> map tk toks = flatten p ++ [Eof] -> nth_error toks 0 = Some tok0 ->
  diagnostics t = Done [(te tok0, te tok0, EBuild MainIsMissing)].
Proof.
  intros Hok Hf toks tok0 Hlex Hk H0.
  eapply single_declaration_fault; try eassumption.
  cbn [byte_ranges]. rewrite (byte_range_empty toks (mkerr_t (0, 0) (EBuild MainIsMissing)) tok0 eq_refl H0). reflexivity.
Qed.

(* `type main = ...` without a procedure main: MainIsMissing and MainIsNotAProcedure on the name *)
Corollary main_is_not_a_procedure_text p t G y :
  prog_ok p = true -> decl_fault_program (expected p) G [mkerr_t (0, 0) (EBuild MainIsMissing); y] -> e_s y < e_e y ->
  forall toks tok0 first last, lex t = Some toks -> map tk toks = flatten p ++ [Eof] -> nth_error toks 0 = Some tok0 ->
  nth_error toks (e_s y) = Some first -> nth_error toks (e_e y - 1) = Some last ->
  diagnostics t = Done [(te tok0, te tok0, EBuild MainIsMissing); (ts first, te last, e_m y)].
Proof.
  intros Hok Hf Hlt toks tok0 first last Hlex Hk H0 Hfirst Hlast.
  eapply single_declaration_fault; try eassumption.
  cbn [byte_ranges]. rewrite (byte_range_empty toks (mkerr_t (0, 0) (EBuild MainIsMissing)) tok0 eq_refl H0). cbn [rbind].
  rewrite (byte_range_nonempty _ _ _ _ Hlt Hfirst Hlast). reflexivity.
Qed.

(* the token vector of a program is never empty: there is always a first token *)
Lemma first_token_exists (p : aprog) (toks : list token) :
  map tk toks = flatten p ++ [Eof] -> exists tok0, nth_error toks 0 = Some tok0.
Proof.
  destruct toks as [|t0 r]; [|intros _; exists t0; reflexivity].
  cbn [map]. intros H. destruct (flatten p); discriminate.
Qed.

(* for concrete programs: DF_decl with the diagnostics as an equation; the table `build` computes; a build diagnostic *)
Lemma DF_decl_eq p G dpre d off dpost es1 kes es2 ys ys' :
  pg_decls p = dpre ++ (d, off) :: dpost -> wf_gdecls initialized dpre es1 ->
  fault_gdecl (initialized ++ es1) off d kes ys -> wf_gdecls (initialized ++ es1 ++ kes) dpost es2 ->
  G = initialized ++ es1 ++ kes ++ es2 -> main_ok G -> wt_bodies G p -> ys' = shift_es off ys ->
  decl_fault_program p G ys'.
Proof. intros H1 H2 H3 H4 H5 H6 H7 ->. eapply DF_decl; eassumption. Qed.

Definition built_table (p : program) : gtable := match build_res p with ROk (_, g) => g | RFail _ => [] end.
Definition berr (s e : nat) (m : bmsg) : err := {| e_s := s; e_e := e; e_m := EBuild m |}.
