(* A relational presentation of [lex_from], and generic facts about runs of the lexer:
   equivalence with [lex_from]/[relex], visited positions, position independence. *)
From Spl Require Import Model.LexUpdate Spec.LexSpec Proofs.LexerProofs Proofs.LexLocality.

(* ---- texts and byte lengths ---- *)

Lemma app_blen_split (x y q z : text) :
  x ++ y = q ++ z -> blen x <= blen q -> exists q', q = x ++ q' /\ y = q' ++ z.
Proof.
  revert q; induction x as [|c x IH]; intros q H Hl.
  - exists q. auto.
  - destruct q as [|c' q].
    + cbn [blen] in Hl. pose proof (ulen_pos c). lia.
    + cbn [app] in H. injection H as -> H. cbn [blen] in Hl.
      destruct (IH q H ltac:(lia)) as [q' [-> ->]]. exists q'. auto.
Qed.

Lemma app_blen_inj (x y x' y' : text) :
  x ++ y = x' ++ y' -> blen x = blen x' -> x = x' /\ y = y'.
Proof.
  intros H Hl. destruct (app_blen_split x y x' y' H ltac:(lia)) as [q' [-> ->]].
  rewrite blen_app in Hl. assert (Hq : blen q' = 0) by lia. apply blen_nil_iff in Hq. subst q'.
  now rewrite app_nil_r.
Qed.

Lemma drop_bytes_app p x fuel : (length p <= fuel)%nat -> drop_bytes (blen p) (p ++ x) fuel = Some x.
Proof.
  revert fuel; induction p as [|c p IH]; intros fuel Hf.
  - destruct fuel, x; reflexivity.
  - cbn [length] in Hf. destruct fuel as [|f]; [lia|]. cbn [drop_bytes blen app].
    pose proof (ulen_pos c).
    destruct (N.eqb_spec (ulen c + blen p) 0); [lia|].
    destruct (N.ltb_spec (ulen c + blen p) (ulen c)); [lia|].
    replace (ulen c + blen p - ulen c) with (blen p) by lia. apply IH. lia.
Qed.

Lemma str_from_app p x : str_from (blen p) (p ++ x) = Some x.
Proof. unfold str_from. apply drop_bytes_app. rewrite app_length. lia. Qed.

(* ---- runs ---- *)

Inductive Run : N -> text -> list token -> Prop :=
| Run_eof off ws : forallb is_ws ws = true -> Run off ws [eof_token (off + blen ws)]
| Run_tok off ws s1 k e lx rest tl :
    forallb is_ws ws = true -> stops is_ws s1 -> lex_raw s1 = Some (k, e, lx, rest) ->
    Run (off + blen ws + blen lx) rest tl ->
    Run off (ws ++ s1) (mk_token (off + blen ws) k e lx :: tl).

Lemma Run_tok0 p s1 k e lx rest tl :
  stops is_ws s1 -> lex_raw s1 = Some (k, e, lx, rest) -> Run (p + blen lx) rest tl ->
  Run p s1 (mk_token p k e lx :: tl).
Proof.
  intros Hst E Hr. pose proof (Run_tok p [] s1 k e lx rest tl eq_refl Hst E) as H.
  cbn [blen app] in H. rewrite N.add_0_r in H. auto.
Qed.

Lemma Run_eof0 p : Run p [] [eof_token p].
Proof. pose proof (Run_eof p [] eq_refl) as H. cbn [blen] in H. now rewrite N.add_0_r in H. Qed.

Lemma run_nonempty off s toks : Run off s toks -> toks <> [].
Proof. destruct 1; discriminate. Qed.

Lemma lex_from_run fuel off s toks : lex_from fuel off s = Some toks -> Run off s toks.
Proof.
  revert off s toks; induction fuel as [|f IH]; intros off s toks; [discriminate|].
  cbn [lex_from]. pose proof (span_app is_ws s) as Hs. pose proof (span_all is_ws s) as Hw.
  pose proof (span_snd_stops is_ws s) as Hst.
  destruct (span is_ws s) as [ws s1]. cbn [fst snd] in *. subst s.
  destruct (lex_raw s1) as [[[[k e] lx] rest]|] eqn:E.
  - destruct (lex_from f _ rest) as [tl|] eqn:El; [|discriminate]. intros [= <-].
    eapply Run_tok; eauto.
  - intros [= <-]. destruct s1 as [|c r]; [|exfalso; eapply lex_raw_nonempty; [|exact E]; discriminate].
    rewrite app_nil_r. now apply Run_eof.
Qed.

Lemma span_ws_all ws : forallb is_ws ws = true -> span is_ws ws = (ws, []).
Proof. intros H. rewrite <- (app_nil_r ws) at 1. apply span_app_stop; [exact H | exact I]. Qed.

Lemma run_lex_from off s toks :
  Run off s toks -> forall fuel, (length s < fuel)%nat -> lex_from fuel off s = Some toks.
Proof.
  induction 1 as [off ws Hw | off ws s1 k e lx rest tl Hw Hst E _ IH]; intros fuel Hf.
  - destruct fuel; [lia|]. cbn [lex_from]. rewrite (span_ws_all ws Hw). reflexivity.
  - destruct fuel; [lia|]. cbn [lex_from]. rewrite (span_app_stop _ _ _ Hw Hst). cbn [fst snd].
    rewrite E. rewrite IH; [reflexivity|].
    apply lex_raw_split in E as [-> Hne]. rewrite !app_length in Hf.
    destruct lx; [congruence|]. cbn [length] in Hf. lia.
Qed.

Lemma run_total off s : exists toks, Run off s toks.
Proof.
  destruct (lex_from_total (S (length s)) off s ltac:(lia)) as [toks H]. exists toks.
  eapply lex_from_run; eauto.
Qed.

Lemma run_det off s t1 t2 : Run off s t1 -> Run off s t2 -> t1 = t2.
Proof.
  intros H1 H2. pose proof (run_lex_from _ _ _ H1 (S (length s)) ltac:(lia)) as E1.
  pose proof (run_lex_from _ _ _ H2 (S (length s)) ltac:(lia)) as E2. congruence.
Qed.

Lemma run_tiles off s toks : Run off s toks -> Tiles off s toks.
Proof. intros H. eapply lex_from_tiles. apply (run_lex_from _ _ _ H (S (length s))). lia. Qed.

(* ---- relex as a cut of the run ---- *)

Fixpoint cut (reus : list token) (toks : list token) : list token :=
  match toks with
  | [] => []
  | t :: tl =>
      match tl with
      | [] => []
      | _ :: _ => if existsb (token_eqb t) reus then [] else t :: cut reus tl
      end
  end.

Lemma run_relex reus off s toks :
  Run off s toks -> forall fuel, (length s < fuel)%nat -> relex fuel off s reus = Some (cut reus toks).
Proof.
  induction 1 as [off ws Hw | off ws s1 k e lx rest tl Hw Hst E Hr IH]; intros fuel Hf.
  - destruct fuel; [lia|]. cbn [relex]. rewrite (span_ws_all ws Hw). reflexivity.
  - destruct fuel; [lia|]. cbn [relex]. rewrite (span_app_stop _ _ _ Hw Hst). cbn [fst snd].
    rewrite E. pose proof (run_nonempty _ _ _ Hr) as Hne.
    destruct tl as [|t2 tl]; [congruence|].
    change (cut reus (mk_token (off + blen ws) k e lx :: t2 :: tl)) with
      (if existsb (token_eqb (mk_token (off + blen ws) k e lx)) reus then []
       else mk_token (off + blen ws) k e lx :: cut reus (t2 :: tl)).
    destruct (existsb _ reus); [reflexivity|].
    rewrite IH; [reflexivity|].
    apply lex_raw_split in E as [-> Hne']. rewrite !app_length in Hf.
    destruct lx; [congruence|]. cbn [length] in Hf. lia.
Qed.

Lemma cut_split reus toks :
  toks <> [] ->
  exists l1 u l2, toks = l1 ++ u :: l2 /\ cut reus toks = l1 /\
    Forall (fun t => existsb (token_eqb t) reus = false) l1 /\
    (l2 = [] \/ existsb (token_eqb u) reus = true).
Proof.
  induction toks as [|t tl IH]; [congruence|]. intros _.
  destruct tl as [|t2 tl].
  - exists [], t, []. cbn. auto.
  - change (cut reus (t :: t2 :: tl)) with
      (if existsb (token_eqb t) reus then [] else t :: cut reus (t2 :: tl)).
    destruct (existsb (token_eqb t) reus) eqn:Ex.
    + exists [], t, (t2 :: tl). cbn [app]. auto.
    + destruct (IH ltac:(discriminate)) as [l1 [u [l2 [Heq [Hc [Hf Hu]]]]]].
      exists (t :: l1), u, l2. rewrite Heq at 1. rewrite Hc. cbn [app]. auto.
Qed.

(* ---- visited positions ---- *)

Definition last_te (off : N) (l : list token) : N := fold_left (fun _ t => te t) l off.

Lemma last_te_snoc off l x : last_te off (l ++ [x]) = te x.
Proof. unfold last_te. now rewrite fold_left_app. Qed.

Lemma run_visit off s toks :
  Run off s toks -> forall pre l1 t l2, blen pre = off -> toks = l1 ++ t :: l2 ->
  exists pg ws s_t,
    pre ++ s = pg ++ ws ++ s_t /\ blen pg = last_te off l1 /\ forallb is_ws ws = true /\
    stops is_ws s_t /\ ts t = blen pg + blen ws /\ Run (ts t) s_t (t :: l2) /\ (tk t <> Eof -> s_t <> []).
Proof.
  induction 1 as [off ws Hw | off ws s1 k e lx rest tl Hw Hst E Hr IH]; intros pre l1 t l2 Hp Heq.
  - destruct l1 as [|t1 l1].
    + cbn [app] in Heq. injection Heq as <- <-.
      exists pre, ws, []. rewrite app_nil_r. cbn [last_te fold_left eof_token ts tk].
      repeat split; auto; try lia. apply Run_eof0.
    + cbn [app] in Heq. injection Heq as _ Heq. destruct l1; discriminate.
  - destruct l1 as [|t1 l1].
    + cbn [app] in Heq. injection Heq as <- <-.
      exists pre, ws, s1. cbn [last_te fold_left mk_token ts tk].
      repeat split; auto; try lia.
      * eapply Run_tok0; eauto.
      * intros _. apply lex_raw_split in E as [-> Hne]. destruct lx; [congruence | discriminate].
    + cbn [app] in Heq. injection Heq as <- Heq.
      destruct (IH (pre ++ ws ++ lx) l1 t l2) as [pg [ws' [s_t [H1 [H2 H3]]]]].
      * rewrite !blen_app. lia.
      * exact Heq.
      * exists pg, ws', s_t. split; [|split; [|exact H3]].
        -- rewrite <- H1. apply lex_raw_split in E as [-> _]. now rewrite <- !app_assoc.
        -- exact H2.
Qed.

(* ---- position independence ---- *)

Lemma shift_signed_eq ins del x x' : x + ins = x' + del -> shift_signed ins del x = Some x'.
Proof.
  intros H. unfold shift_signed. destruct (N.leb_spec del (x + ins)); [f_equal; lia | lia].
Qed.

Lemma shift_errs_eq ins del p p' e :
  p + ins = p' + del ->
  map_opt (shift_err_signed ins del) (map (shift_err p) e) = Some (map (shift_err p') e).
Proof.
  intros H. induction e as [|x e IH]; [reflexivity|]. cbn [map map_opt]. rewrite IH.
  unfold shift_err_signed, shift_err. cbn [le_s le_e le_m].
  rewrite (shift_signed_eq ins del (le_s x + p) (le_s x + p')) by lia.
  rewrite (shift_signed_eq ins del (le_e x + p) (le_e x + p')) by lia. reflexivity.
Qed.

Lemma shift_mk_token ins del p p' k e lx :
  p + ins = p' + del -> shift_token_signed ins del (mk_token p k e lx) = Some (mk_token p' k e lx).
Proof.
  intros H. unfold shift_token_signed, mk_token. cbn [ts te terr tk].
  rewrite (shift_signed_eq ins del p p' H).
  rewrite (shift_signed_eq ins del (p + blen lx) (p' + blen lx)) by lia.
  rewrite (shift_errs_eq ins del p p' e H). reflexivity.
Qed.

Lemma shift_eof_token ins del p p' :
  p + ins = p' + del -> shift_token_signed ins del (eof_token p) = Some (eof_token p').
Proof.
  intros H. unfold shift_token_signed, eof_token. cbn [ts te terr tk map_opt].
  rewrite (shift_signed_eq ins del p p' H). reflexivity.
Qed.

Lemma run_shift ins del off s toks :
  Run off s toks -> forall off', off + ins = off' + del ->
  exists toks', Run off' s toks' /\ map_opt (shift_token_signed ins del) toks = Some toks'.
Proof.
  induction 1 as [off ws Hw | off ws s1 k e lx rest tl Hw Hst E Hr IH]; intros off' Ho.
  - exists [eof_token (off' + blen ws)]. split; [now apply Run_eof|].
    cbn [map_opt]. rewrite (shift_eof_token ins del _ (off' + blen ws)) by lia. reflexivity.
  - destruct (IH (off' + blen ws + blen lx) ltac:(lia)) as [tl' [Hr' Hm]].
    exists (mk_token (off' + blen ws) k e lx :: tl'). split; [eapply Run_tok; eauto|].
    cbn [map_opt]. rewrite (shift_mk_token ins del _ (off' + blen ws)) by lia. now rewrite Hm.
Qed.
