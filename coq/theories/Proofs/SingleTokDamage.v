(* C05 in the property's own terms: ONE token of one global declaration is deleted, inserted or replaced.
   Corollaries of containment (ParserShiftKeyword / ParserShiftSuffix), the located diagnostics (ErrInsideTop)
   and the table part (TableContainTop), with hypotheses on the TOKENS only.

   The documents are  pre ++ mid ++ post  (original) and  pre ++ mid' ++ post  (damaged):
     pre   the untouched tokens in front of the damage; the keyword (`proc`/`type`) of the damaged declaration is
           token j of pre;
     post  = tq :: post'  the untouched tokens from the next SYNCHRONISING token on: tq is the `proc`/`type` keyword of
           the next declaration, or the Eof token (the damaged declaration is the last one; then post' = []);
     mid, mid'  what stands between: for a single-token damage at the position behind pre,
           deletion     mid = t :: rest        mid' = rest
           insertion    mid = rest             mid' = t' :: rest
           replacement  mid = t :: rest        mid' = t' :: rest
           where rest is the untouched remainder of the damaged declaration (rest = []: the damage concerns the last
           token of the declaration).
   Side conditions, all about tokens:
     - both token lists end with their only Eof token (every lexer output does): EofLast of the original, and the
       inserted token t' is not Eof;
     - the token directly in front of tq is not a comment, in either version [last_nc (pre ++ mid)]: a comment there is
       the doc comment of the declaration tq begins (resp. a trailing comment in front of Eof), and the boundary lies in
       front of it.  For rest <> [] this is a condition on the last token of rest alone; for rest = [] it is a condition
       on t / t' / the last token of pre (lemmas last_nc_snoc, last_nc_app and the three `_last` corollaries).
   NOT needed: that t, t' are not declaration keywords - a damage that inserts or removes a `proc`/`type` token only
   changes how many declarations the damaged region k .. k2-1 resp. k .. k2'-1 consists of; everything in front of
   declaration k and everything from tq on is kept all the same. *)
From Coq Require Import Arith Lia List.
From Spl Require Import Model.Parser Model.Errors Proofs.ParserComb Proofs.ParserFwd Proofs.ParserSync Proofs.ParserTotal
  Proofs.ParserProofs Proofs.ParserShiftProofs Proofs.ErrInsideTop Proofs.TableContainTop.
Import ListNotations.
Local Open Scope nat_scope.

(* ------------------------------------------------------------------------------------------ *)
(* 1. the side condition: the last token of a list is not a comment *)
Definition last_nc (l : list token) : Prop :=
  exists t, nth_error l (length l - 1) = Some t /\ ParserComb.is_comment (tk t) = false.

Lemma last_nc_snoc l t : last_nc (l ++ [t]) <-> ParserComb.is_comment (tk t) = false.
Proof.
  unfold last_nc. rewrite app_length. cbn [length]. replace (length l + 1 - 1) with (length l) by lia.
  rewrite nth_error_app2 by lia. rewrite Nat.sub_diag. cbn [nth_error]. split.
  - intros (t0 & [= <-] & Hc). exact Hc.
  - intros Hc. exists t. split; [reflexivity | exact Hc].
Qed.

Lemma last_nc_app l r : r <> [] -> (last_nc (l ++ r) <-> last_nc r).
Proof.
  intros Hr. destruct (exists_last Hr) as (r0 & x & ->). rewrite app_assoc. rewrite !last_nc_snoc. reflexivity.
Qed.

Lemma last_nc_cons t r : r <> [] -> (last_nc (t :: r) <-> last_nc r).
Proof. intros Hr. exact (last_nc_app [t] r Hr). Qed.

(* ------------------------------------------------------------------------------------------ *)
(* 2. the conclusion *)
Definition ContainedAt (pre mid mid' post : list token) (j : nat) (p p' : program) (k o k2 k2' : nat) : Prop :=
  parse (pre ++ mid ++ post) = Done p /\ parse (pre ++ mid' ++ post) = Done p' /\
  (* declaration k of the original is the Type/Procedure declaration whose keyword is token j; it starts at o
     (its doc comments stand between o and j) - in the damaged document as well *)
  (exists g, nth_error (pg_decls p) k = Some (g, o) /\ is_kw_decl g = true) /\
  sig_at (pre ++ mid ++ post) o = j /\ Boundary p' k o /\
  (* the declaration that tq begins is declaration k2 resp. k2' (behind the last declaration: the end) *)
  Boundary p k2 (length pre + length mid) /\ Boundary p' k2' (length pre + length mid') /\ k < k2 /\ k < k2' /\
  (* the declarations in front: identical; from tq on: identical subtrees, offsets moved by the length difference *)
  firstn k (pg_decls p) = firstn k (pg_decls p') /\
  shift_offs (length mid') (skipn k2 (pg_decls p)) = shift_offs (length mid) (skipn k2' (pg_decls p')) /\
  i_e (pg_info p) + length mid' = i_e (pg_info p') + length mid /\
  (* the syntax diagnostics *)
  (exists before damaged damaged' after after',
    tree_errors p = before ++ damaged ++ after /\
    tree_errors p' = before ++ damaged' ++ after' /\
    shift_es (length mid') after = shift_es (length mid) after' /\
    before = decl_errors (firstn k (pg_decls p)) /\
    damaged = decl_errors (firstn (k2 - k) (skipn k (pg_decls p))) /\
    damaged' = decl_errors (firstn (k2' - k) (skipn k (pg_decls p'))) /\
    after = decl_errors (skipn k2 (pg_decls p)) /\ after' = decl_errors (skipn k2' (pg_decls p')) /\
    (forall e, In e before -> Located 0 o e) /\
    (forall e, In e damaged -> Located o (length pre + length mid) e) /\
    (forall e, In e damaged' -> Located o (length pre + length mid') e) /\
    (forall e, In e after -> Located (length pre + length mid) (i_e (pg_info p)) e) /\
    (forall e, In e after' -> Located (length pre + length mid') (i_e (pg_info p')) e)) /\
  (* the symbol tables *)
  (exists q T q' T',
    build_res p = ROk (q, T) /\ build_res p' = ROk (q', T') /\
    table_kept (length mid) (length mid') (pg_decls p) (pg_decls p') k k2 k2' T T').

Definition Contained (pre mid mid' post : list token) (j : nat) : Prop :=
  exists p p' k o k2 k2', ContainedAt pre mid mid' post j p p' k o k2 k2'.

(* ------------------------------------------------------------------------------------------ *)
(* 3. auxiliary facts *)
Lemma parse_done toks : EofLast toks -> exists p, parse toks = Done p.
Proof.
  intros HE. pose proof (T3_parse_no_panic toks HE) as H3. pose proof (T4_parse_fuel_suffices toks) as H4.
  destruct (parse toks) as [p| |]; [exists p; reflexivity | congruence | congruence].
Qed.

Lemma Boundary_end p : Boundary p (length (pg_decls p)) (i_e (pg_info p)).
Proof.
  split; [lia|]. unfold decl_start, start_of.
  destruct (nth_error (pg_decls p) (length (pg_decls p))) eqn:E; [|reflexivity].
  assert (length (pg_decls p) < length (pg_decls p)) by (apply nth_error_Some; congruence). lia.
Qed.

(* a synchronising token (proc / type / Eof) that no comment directly precedes is a declaration boundary *)
Lemma sync_boundary toks p q t :
  EofLast toks -> parse toks = Done p -> nth_error toks q = Some t -> sync_full (tk t) = true ->
  (exists t', nth_error toks (q - 1) = Some t' /\ ParserComb.is_comment (tk t') = false) ->
  exists k2, Boundary p k2 q.
Proof.
  intros HE Hp Ht Hs Hprev.
  destruct (is_declkw (tk t)) eqn:Hkw.
  - destruct (keyword_boundary toks p q t HE Hp Ht Hkw) as (k2 & _ & _ & _ & Hb); [right; exact Hprev|].
    exists k2. exact Hb.
  - assert (Heof : tk t = Eof) by (destruct (tk t); try discriminate Hs; try discriminate Hkw; reflexivity).
    pose proof (eof_only_last toks HE q t Ht Heof) as Hq.
    destruct (T5_sync toks p HE Hp) as (_ & _ & Hsig).
    exists (length (pg_decls p)).
    assert (Hie : i_e (pg_info p) = q).
    { pose proof (sig_at_ge toks (i_e (pg_info p))) as Hge.
      destruct (Nat.eq_dec (i_e (pg_info p)) q) as [|Hne]; [assumption|]. exfalso.
      destruct Hprev as (t' & Ht' & Hc').
      destruct (sig_at_comment toks (i_e (pg_info p)) (q - 1)) as (t2 & Ht2 & Hc2); [lia|]. congruence. }
    rewrite <- Hie. apply Boundary_end.
Qed.

(* exchanging Eof-free tokens in front of a non-empty rest keeps EofLast *)
Lemma EofLast_swap pre mid mid' tq post' :
  EofLast (pre ++ mid ++ tq :: post') -> Forall (fun t => tk t <> Eof) mid' -> EofLast (pre ++ mid' ++ tq :: post').
Proof.
  intros (body & e & Heq & He & Hb) Hm'.
  assert (Hne : tq :: post' <> []) by discriminate.
  destruct (exists_last Hne) as (r0 & x & Hr). rewrite Hr in *.
  assert (Heq2 : (pre ++ mid ++ r0) ++ [x] = body ++ [e]) by (rewrite <- Heq, <- !app_assoc; reflexivity).
  apply app_inj_tail in Heq2 as [Hbody Hx]. subst x. subst body.
  apply Forall_app in Hb as [Hpre Hb]. apply Forall_app in Hb as [_ Hr0].
  exists (pre ++ mid' ++ r0), e. split; [rewrite <- !app_assoc; reflexivity|]. split; [exact He|].
  apply Forall_app. split; [exact Hpre|]. apply Forall_app. split; [exact Hm' | exact Hr0].
Qed.

(* ------------------------------------------------------------------------------------------ *)
(* 4. containment with explicit boundaries (for instances), then from tokens alone *)
Lemma contained_at pre mid mid' post p p' j tj k g o k2 k2' :
  EofLast (pre ++ mid ++ post) -> EofLast (pre ++ mid' ++ post) ->
  parse (pre ++ mid ++ post) = Done p -> parse (pre ++ mid' ++ post) = Done p' ->
  nth_error pre j = Some tj -> is_declkw (tk tj) = true ->
  nth_error (pg_decls p) k = Some (g, o) -> is_kw_decl g = true -> sig_at (pre ++ mid ++ post) o = j ->
  Boundary p k2 (length pre + length mid) -> Boundary p' k2' (length pre + length mid') ->
  ContainedAt pre mid mid' post j p p' k o k2 k2'.
Proof.
  intros HE HE' Hp Hp' Hj Hkj Hk Hg Hs Hb2 Hb2'.
  assert (Hsync : exists t, nth_error pre j = Some t /\ sync_full (tk t) = true).
  { exists tj. split; [exact Hj|]. destruct (tk tj); try discriminate Hkj; reflexivity. }
  assert (Hb : Boundary p k o).
  { split; [apply Nat.lt_le_incl, nth_error_Some; congruence|]. unfold decl_start, start_of. now rewrite Hk. }
  assert (Ho : o <= j) by (rewrite <- Hs; apply sig_at_ge).
  destruct (containment pre mid mid' post p p' j k o k2 k2' HE HE' Hp Hp' Hsync Hb Ho Hb2 Hb2')
    as (C1 & C2 & C3 & C4 & C5 & C6).
  pose proof (errors_contained_located pre mid mid' post p p' j k o k2 k2' HE HE' Hp Hp' Hsync Hb Ho Hb2 Hb2') as HErr.
  pose proof (table_contained pre mid mid' post p p' j k o k2 k2' HE HE' Hp Hp' Hsync Hb Ho Hb2 Hb2') as HTab.
  unfold ContainedAt.
  split; [exact Hp|]. split; [exact Hp'|]. split; [exists g; split; [exact Hk | exact Hg]|].
  split; [exact Hs|]. split; [exact C2|]. split; [exact Hb2|]. split; [exact Hb2'|]. split; [exact C5|]. split; [exact C6|].
  split; [exact C1|]. split; [exact C3|]. split; [exact C4|]. split; [exact HErr | exact HTab].
Qed.

(* the general form: anything between a declaration keyword and the next synchronising token is replaced *)
Theorem damage_contained pre mid mid' post post' j tj tq :
  EofLast (pre ++ mid ++ post) -> EofLast (pre ++ mid' ++ post) ->
  nth_error pre j = Some tj -> is_declkw (tk tj) = true ->
  post = tq :: post' -> sync_full (tk tq) = true ->
  last_nc (pre ++ mid) -> last_nc (pre ++ mid') ->
  Contained pre mid mid' post j.
Proof.
  intros HE HE' Hj Hkj Hpost Hsq Hl Hl'.
  destruct (parse_done _ HE) as [p Hp]. destruct (parse_done _ HE') as [p' Hp'].
  assert (Hjl : j < length pre) by (apply nth_error_Some; congruence).
  destruct (keyword_decl _ p j tj HE Hp) as (k & g & o & Hk & Hs & Ho & Hg);
    [rewrite nth_error_app1 by exact Hjl; exact Hj | exact Hkj |].
  assert (Hbnd : forall m q, EofLast (pre ++ m ++ post) -> parse (pre ++ m ++ post) = Done q -> last_nc (pre ++ m) ->
                             exists k2, Boundary q k2 (length pre + length m)).
  { intros m q HEm Hq (t' & Ht' & Hc'). rewrite app_length in Ht'.
    apply (sync_boundary _ q (length pre + length m) tq HEm Hq).
    - rewrite Hpost, app_assoc, nth_error_app2 by (rewrite app_length; lia). rewrite app_length, Nat.sub_diag. reflexivity.
    - exact Hsq.
    - exists t'. split; [|exact Hc']. rewrite app_assoc, nth_error_app1 by (rewrite app_length; lia). exact Ht'. }
  destruct (Hbnd mid p HE Hp Hl) as [k2 Hb2]. destruct (Hbnd mid' p' HE' Hp' Hl') as [k2' Hb2'].
  exists p, p', k, o, k2, k2'.
  exact (contained_at pre mid mid' post p p' j tj k g o k2 k2' HE HE' Hp Hp' Hj Hkj Hk Hg Hs Hb2 Hb2').
Qed.

(* ------------------------------------------------------------------------------------------ *)
(* 5. one token.  [rest]: the untouched remainder of the damaged declaration *)
Section OneToken.
Variables (pre rest post post' : list token) (j : nat) (tj tq : token).
Hypothesis Hj : nth_error pre j = Some tj.
Hypothesis Hkj : is_declkw (tk tj) = true.
Hypothesis Hpost : post = tq :: post'.
Hypothesis Hsq : sync_full (tk tq) = true.

Theorem token_deleted t :
  EofLast (pre ++ (t :: rest) ++ post) ->
  last_nc (pre ++ t :: rest) -> last_nc (pre ++ rest) ->
  Contained pre (t :: rest) rest post j.
Proof.
  intros HE Hl Hl'.
  assert (HE' : EofLast (pre ++ rest ++ post)).
  { destruct HE as (body & e & Heq & He & Hb).
    assert (Hne : post <> []) by (rewrite Hpost; discriminate).
    destruct (exists_last Hne) as (r0 & x & Hr). rewrite Hr in *.
    assert (Heq2 : (pre ++ (t :: rest) ++ r0) ++ [x] = body ++ [e]) by (rewrite <- Heq, <- !app_assoc; reflexivity).
    apply app_inj_tail in Heq2 as [Hbody Hx]. subst x. subst body.
    apply Forall_app in Hb as [Hpre Hb]. apply Forall_app in Hb as [Hm Hr0]. inversion Hm as [|? ? _ Hrest]; subst.
    exists (pre ++ rest ++ r0), e. split; [rewrite <- !app_assoc; reflexivity|]. split; [exact He|].
    apply Forall_app. split; [exact Hpre|]. apply Forall_app. split; [exact Hrest | exact Hr0]. }
  exact (damage_contained pre (t :: rest) rest post post' j tj tq HE HE' Hj Hkj Hpost Hsq Hl Hl').
Qed.

Theorem token_inserted t' :
  EofLast (pre ++ rest ++ post) -> tk t' <> Eof ->
  last_nc (pre ++ rest) -> last_nc (pre ++ t' :: rest) ->
  Contained pre rest (t' :: rest) post j.
Proof.
  intros HE Ht' Hl Hl'.
  assert (HE' : EofLast (pre ++ (t' :: rest) ++ post)).
  { rewrite Hpost in *. apply (EofLast_swap pre rest (t' :: rest) tq post' HE).
    destruct HE as (body & e & Heq & He & Hb).
    assert (Hne : tq :: post' <> []) by discriminate.
    destruct (exists_last Hne) as (r0 & x & Hr). rewrite Hr in Heq.
    assert (Heq2 : (pre ++ rest ++ r0) ++ [x] = body ++ [e]) by (rewrite <- Heq, <- !app_assoc; reflexivity).
    apply app_inj_tail in Heq2 as [Hbody Hx]. subst body.
    apply Forall_app in Hb as [_ Hb]. apply Forall_app in Hb as [Hm _]. constructor; [exact Ht' | exact Hm]. }
  exact (damage_contained pre rest (t' :: rest) post post' j tj tq HE HE' Hj Hkj Hpost Hsq Hl Hl').
Qed.

Theorem token_replaced t t' :
  EofLast (pre ++ (t :: rest) ++ post) -> tk t' <> Eof ->
  last_nc (pre ++ t :: rest) -> last_nc (pre ++ t' :: rest) ->
  Contained pre (t :: rest) (t' :: rest) post j.
Proof.
  intros HE Ht' Hl Hl'.
  assert (HE' : EofLast (pre ++ (t' :: rest) ++ post)).
  { rewrite Hpost in *. apply (EofLast_swap pre (t :: rest) (t' :: rest) tq post' HE).
    destruct HE as (body & e & Heq & He & Hb).
    assert (Hne : tq :: post' <> []) by discriminate.
    destruct (exists_last Hne) as (r0 & x & Hr). rewrite Hr in Heq.
    assert (Heq2 : (pre ++ (t :: rest) ++ r0) ++ [x] = body ++ [e]) by (rewrite <- Heq, <- !app_assoc; reflexivity).
    apply app_inj_tail in Heq2 as [Hbody Hx]. subst body.
    apply Forall_app in Hb as [_ Hb]. apply Forall_app in Hb as [Hm _]. inversion Hm as [|? ? _ Hrest]; subst.
    constructor; [exact Ht' | exact Hrest]. }
  exact (damage_contained pre (t :: rest) (t' :: rest) post post' j tj tq HE HE' Hj Hkj Hpost Hsq Hl Hl').
Qed.
End OneToken.

(* ------------------------------------------------------------------------------------------ *)
(* 6. the damage concerns the LAST token of the declaration (rest = []): the side condition spelled out *)
Section LastToken.
Variables (pre post post' : list token) (j : nat) (tj tq : token).
Hypothesis Hj : nth_error pre j = Some tj.
Hypothesis Hkj : is_declkw (tk tj) = true.
Hypothesis Hpost : post = tq :: post'.
Hypothesis Hsq : sync_full (tk tq) = true.

Theorem token_deleted_last t :
  EofLast (pre ++ [t] ++ post) ->
  ParserComb.is_comment (tk t) = false -> last_nc pre ->
  Contained pre [t] [] post j.
Proof.
  intros HE Hc Hl. apply (token_deleted pre [] post post' j tj tq Hj Hkj Hpost Hsq t HE).
  - apply last_nc_snoc. exact Hc.
  - rewrite app_nil_r. exact Hl.
Qed.

Theorem token_inserted_last t' :
  EofLast (pre ++ post) -> tk t' <> Eof ->
  last_nc pre -> ParserComb.is_comment (tk t') = false ->
  Contained pre [] [t'] post j.
Proof.
  intros HE Ht' Hl Hc. apply (token_inserted pre [] post post' j tj tq Hj Hkj Hpost Hsq t' HE Ht').
  - rewrite app_nil_r. exact Hl.
  - apply last_nc_snoc. exact Hc.
Qed.

(* insertion in front of the last token t of the declaration: only t matters *)
Theorem token_inserted_before_last t t' :
  EofLast (pre ++ [t] ++ post) -> tk t' <> Eof ->
  ParserComb.is_comment (tk t) = false ->
  Contained pre [t] [t'; t] post j.
Proof.
  intros HE Ht' Hc. apply (token_inserted pre [t] post post' j tj tq Hj Hkj Hpost Hsq t' HE Ht').
  - apply last_nc_snoc. exact Hc.
  - apply (last_nc_snoc (pre ++ [t']) t) in Hc. rewrite <- app_assoc in Hc. exact Hc.
Qed.

Theorem token_replaced_last t t' :
  EofLast (pre ++ [t] ++ post) -> tk t' <> Eof ->
  ParserComb.is_comment (tk t) = false -> ParserComb.is_comment (tk t') = false ->
  Contained pre [t] [t'] post j.
Proof.
  intros HE Ht' Hc Hc'. apply (token_replaced pre [] post post' j tj tq Hj Hkj Hpost Hsq t t' HE Ht').
  - apply last_nc_snoc. exact Hc.
  - apply last_nc_snoc. exact Hc'.
Qed.
End LastToken.

(* with a non-empty rest the side condition concerns the last token of rest alone *)
Lemma last_nc_rest pre t rest : rest <> [] ->
  (last_nc (pre ++ t :: rest) <-> last_nc rest) /\ (last_nc (pre ++ rest) <-> last_nc rest).
Proof.
  intros Hr. split; [|exact (last_nc_app pre rest Hr)].
  rewrite (last_nc_app pre (t :: rest)) by discriminate. exact (last_nc_cons t rest Hr).
Qed.

(* ------------------------------------------------------------------------------------------ *)
(* 7. instances.  The document  `type x = x ; proc x ( ) { x := x ; } type x = x ; Eof`  (tokens 0..19; the
   declarations start at 0, 5, 15 and end at 20) *)
Definition eoflastb (toks : list token) : bool :=
  match rev toks with
  | e :: b => match tk e with Eof => forallb (fun t => match tk t with Eof => false | _ => true end) b | _ => false end
  | [] => false
  end.

Lemma eoflastb_ok toks : eoflastb toks = true -> EofLast toks.
Proof.
  unfold eoflastb. intros H. destruct (rev toks) as [|e b] eqn:E; [discriminate H|].
  exists (rev b), e. split; [|split].
  - rewrite <- (rev_involutive toks), E. reflexivity.
  - destruct (tk e); try discriminate H; reflexivity.
  - destruct (tk e); try discriminate H. rewrite forallb_forall in H. apply Forall_forall. intros t Ht.
    apply in_rev in Ht. specialize (H t Ht). intros Hk. rewrite Hk in H. discriminate H.
Qed.

(* ContainedAt from checks that evaluate *)
Lemma contained_at_chk pre mid mid' post j tj k o k2 k2' :
  eoflastb (pre ++ mid ++ post) = true -> eoflastb (pre ++ mid' ++ post) = true ->
  nth_error pre j = Some tj -> is_declkw (tk tj) = true ->
  option_map (fun go => (is_kw_decl (fst go), snd go)) (nth_error (pg_decls (prog_of (pre ++ mid ++ post))) k) = Some (true, o) ->
  sig_at (pre ++ mid ++ post) o = j ->
  (k2 <=? length (pg_decls (prog_of (pre ++ mid ++ post)))) = true ->
  decl_start (prog_of (pre ++ mid ++ post)) k2 = length pre + length mid ->
  (k2' <=? length (pg_decls (prog_of (pre ++ mid' ++ post)))) = true ->
  decl_start (prog_of (pre ++ mid' ++ post)) k2' = length pre + length mid' ->
  ContainedAt pre mid mid' post j (prog_of (pre ++ mid ++ post)) (prog_of (pre ++ mid' ++ post)) k o k2 k2'.
Proof.
  intros HE HE' Hj Hkj Hk Hs Hl2 Hd2 Hl2' Hd2'. apply eoflastb_ok in HE. apply eoflastb_ok in HE'.
  assert (Hp : forall toks, EofLast toks -> parse toks = Done (prog_of toks)).
  { intros toks H. destruct (parse_done toks H) as [p Hp]. unfold prog_of. rewrite Hp. reflexivity. }
  destruct (nth_error (pg_decls (prog_of (pre ++ mid ++ post))) k) as [[g o']|] eqn:E; [|discriminate Hk].
  cbn [option_map fst snd] in Hk. injection Hk as Hg Ho. subst o'.
  apply (contained_at pre mid mid' post _ _ j tj k g o k2 k2' HE HE' (Hp _ HE) (Hp _ HE') Hj Hkj E Hg Hs).
  - split; [apply Nat.leb_le; exact Hl2 | exact Hd2].
  - split; [apply Nat.leb_le; exact Hl2' | exact Hd2'].
Qed.

Definition tok (k : kind) : token := {| tk := k; ts := 0; te := 0; terr := [] |}.
Definition epre := mk [KType; idx; EqT; idx; Semic; KProc; idx; LParen; RParen; LCurly; idx; Assign].
Definition erest := mk [Semic; RCurly].
Definition epost := mk [KType; idx; EqT; idx; Semic; Eof].
Definition epre_last := epre ++ mk [idx; Semic; RCurly; KType; idx].
Definition erest_last := mk [idx; Semic].
Definition epost_last := mk [Eof].

Example e_parse : summary (epre ++ (tok idx :: erest) ++ epost) = Some ([(1, 0, 5); (2, 5, 10); (1, 15, 5)], 20).
Proof. vm_compute. reflexivity. Qed.
Example e_same : epre_last ++ (tok EqT :: erest_last) ++ epost_last = epre ++ (tok idx :: erest) ++ epost.
Proof. reflexivity. Qed.

Ltac chk := first [ reflexivity | vm_compute; reflexivity ].
Ltac lnc := eexists; split; reflexivity.

(* deletion of token 12 (the right-hand side `x`): `x := ; }` - k = 1, o = 5, k2 = k2' = 2 *)
Example ex_deleted :
  Contained epre (tok idx :: erest) erest epost 5 /\
  ContainedAt epre (tok idx :: erest) erest epost 5
    (prog_of (epre ++ (tok idx :: erest) ++ epost)) (prog_of (epre ++ erest ++ epost)) 1 5 2 2.
Proof.
  split.
  - apply (token_deleted epre erest epost (tl epost) 5 (tok KProc) (tok KType)); try reflexivity; try lnc.
    apply eoflastb_ok. vm_compute. reflexivity.
  - apply (contained_at_chk epre (tok idx :: erest) erest epost 5 (tok KProc) 1 5 2 2); chk.
Qed.

(* insertion of `}` behind token 12: `x := x } ; }` - the procedure ends early, `; }` becomes an Error declaration:
   k = 1, o = 5, k2 = 2, k2' = 3 *)
Example ex_inserted :
  Contained (epre ++ [tok idx]) erest (tok RCurly :: erest) epost 5 /\
  ContainedAt (epre ++ [tok idx]) erest (tok RCurly :: erest) epost 5
    (prog_of ((epre ++ [tok idx]) ++ erest ++ epost)) (prog_of ((epre ++ [tok idx]) ++ (tok RCurly :: erest) ++ epost)) 1 5 2 3.
Proof.
  split.
  - apply (token_inserted (epre ++ [tok idx]) erest epost (tl epost) 5 (tok KProc) (tok KType)); try reflexivity; try lnc.
    + apply eoflastb_ok. vm_compute. reflexivity.
    + discriminate.
  - apply (contained_at_chk (epre ++ [tok idx]) erest (tok RCurly :: erest) epost 5 (tok KProc) 1 5 2 3); chk.
Qed.

(* replacement of token 12 by `)`: `x := ) ; }` - k = 1, o = 5, k2 = k2' = 2 *)
Example ex_replaced :
  Contained epre (tok idx :: erest) (tok RParen :: erest) epost 5 /\
  ContainedAt epre (tok idx :: erest) (tok RParen :: erest) epost 5
    (prog_of (epre ++ (tok idx :: erest) ++ epost)) (prog_of (epre ++ (tok RParen :: erest) ++ epost)) 1 5 2 2.
Proof.
  split.
  - apply (token_replaced epre erest epost (tl epost) 5 (tok KProc) (tok KType)); try reflexivity; try lnc.
    + apply eoflastb_ok. vm_compute. reflexivity.
    + discriminate.
  - apply (contained_at_chk epre (tok idx :: erest) (tok RParen :: erest) epost 5 (tok KProc) 1 5 2 2); chk.
Qed.

(* the LAST declaration is damaged (post = the Eof token): deletion of token 17 (`=`): `type x x ;` - k = 2, o = 15,
   k2 = k2' = 3 = the number of declarations *)
Example ex_deleted_in_last :
  Contained epre_last (tok EqT :: erest_last) erest_last epost_last 15 /\
  ContainedAt epre_last (tok EqT :: erest_last) erest_last epost_last 15
    (prog_of (epre_last ++ (tok EqT :: erest_last) ++ epost_last)) (prog_of (epre_last ++ erest_last ++ epost_last)) 2 15 3 3.
Proof.
  split.
  - apply (token_deleted epre_last erest_last epost_last [] 15 (tok KType) (tok Eof)); try reflexivity; try lnc.
    apply eoflastb_ok. vm_compute. reflexivity.
  - apply (contained_at_chk epre_last (tok EqT :: erest_last) erest_last epost_last 15 (tok KType) 2 15 3 3); chk.
Qed.

(* the diagnostics of the four damaged documents (token ranges): all inside [o, next boundary] *)
Example ex_diagnostics :
  map (fun e => (e_s e, e_e e)) (tree_errors (prog_of (epre ++ (tok idx :: erest) ++ epost))) = [] /\
  map (fun e => (e_s e, e_e e)) (tree_errors (prog_of (epre ++ erest ++ epost))) = [(11, 11)] /\
  map (fun e => (e_s e, e_e e)) (tree_errors (prog_of ((epre ++ [tok idx]) ++ (tok RCurly :: erest) ++ epost))) = [(12, 12); (14, 16)] /\
  map (fun e => (e_s e, e_e e)) (tree_errors (prog_of (epre ++ (tok RParen :: erest) ++ epost))) = [(11, 11); (11, 11); (12, 13)] /\
  map (fun e => (e_s e, e_e e)) (tree_errors (prog_of (epre_last ++ erest_last ++ epost_last))) = [(16, 16)].
Proof. vm_compute. repeat split. Qed.
