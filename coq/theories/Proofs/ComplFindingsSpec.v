(* C16 - the position classifier of Model/Completion.v on VALID programs, decided at EVERY position:
   part 1, statements.

   A position is described by two token indices [lo], [hi] of a token vector in text order
   ([pos_at]): token lo is the last token that starts at or before the position, token hi the first
   one that ends behind it.  hi = lo + 1: the position lies in the gap behind token lo (white space
   or nothing); hi = lo: it lies INSIDE token lo - this is where `correct_index` puts a cursor that
   stands directly behind a token.

   [st_spec] / [sts_spec]: what `complete_statement` / `complete_statements` answer on the statements
   of the grammar, as a function of the ABSTRACT statement, the index a of its first token, lo, hi, the
   kind of the token `token_before` returned, and the `last_stmt_is_if` flag - no token slices, no text
   ranges.  The answer is one of seven [shape]s, [render]ed with the tables.
   [complete_statement_spec], [complete_statements_spec]: the model computes exactly this.

   The second half holds the pure facts about the specification functions that the position classes
   of Proofs/ComplFindings.v need: [snest] (a statement nested at any depth in another one),
   [st_spec_nest] (descending to it), [sts_spec_past], [sts_spec_front]. *)
From Coq Require Import PeanoNat NArith Lia List Bool.
From Spl Require Import Proofs.GrammarBase Proofs.GrammarExpr Proofs.GrammarStmt.
From Spl Require Import Proofs.GrammarProofs Spec.Typing Model.Errors Proofs.SemProofs Proofs.TypingProofs.
From Spl Require Import Model.Hover Model.Fold Proofs.LexerProofs Proofs.FoldProofs Proofs.HoverProofs.
From Spl Require Import Proofs.HoverValid Model.Completion Proofs.CompletionProofs.
From Spl Require Import Proofs.ComplValidBase Proofs.ComplValidProc Proofs.ComplValidNest Proofs.ComplValid.
Import ListNotations.
Local Open Scope nat_scope.

(* ---------------------------------------------------------------------------------------- *)
(* the answers                                                                                *)

Inductive shape := ANull | AVars | AStmt | AElse | AVarStmt | ATypes | ARef.

Definition render (l : option ltable) (g : gtable) (a : shape) : option (list item) :=
  match a with
  | ANull => None
  | AVars => match l with Some lt => Some (search_variables lt) | None => None end
  | AStmt => Some (new_stmt l g)
  | AElse => Some ([snip_else; item_else] ++ new_stmt l g)
  | AVarStmt => Some ([snip_var; item_var] ++ new_stmt l g)
  | ATypes => Some (search_types g)
  | ARef => Some [item_ref]
  end.

Definition vars_if (b : bool) : shape := if b then AVars else ANull.

(* tokens a .. a + n - 1 hold the position *)
Definition inside (a n lo hi : nat) : bool := (a <=? lo) && (hi <? a + n).

Definition is_ifa (s : astmt) : bool := match s with SIfT _ _ _ _ _ | SIfE _ _ _ _ _ _ _ => true | _ => false end.

Fixpoint st_spec (s : astmt) (a lo hi : nat) (lastk : kind) (prev_if : bool) {struct s} : shape :=
  if prev_if && is_rcurly lastk then AElse else
  match s with
  | SEmp _ => AStmt
  | SAsg v c1 _ _ => vars_if (a + len (fl_var v) + len c1 <? hi)
  | SCal c1 _ c2 _ _ _ => vars_if (a + len c1 + 1 + len c2 <? hi)
  | SIfT c1 c2 e c3 t =>
      let ot := a + len c1 + 1 + len c2 + 1 + len (fl_cmp e) + len c3 + 1 in
      if inside ot (len (fl_stmt t)) lo hi then st_spec t ot lo hi lastk false
      else vars_if (a + len c1 + 1 + len c2 <? hi)
  | SIfE c1 c2 e c3 t c4 s' =>
      let ot := a + len c1 + 1 + len c2 + 1 + len (fl_cmp e) + len c3 + 1 in
      let os := ot + len (fl_stmt t) + len c4 + 1 in
      if inside ot (len (fl_stmt t)) lo hi then st_spec t ot lo hi lastk false
      else if inside os (len (fl_stmt s')) lo hi then st_spec s' os lo hi lastk false
      else vars_if (a + len c1 + 1 + len c2 <? hi)
  | SWhl c1 c2 e c3 b =>
      let ob := a + len c1 + 1 + len c2 + 1 + len (fl_cmp e) + len c3 + 1 in
      if inside ob (len (fl_stmt b)) lo hi then st_spec b ob lo hi lastk false
      else vars_if (a + len c1 + 1 + len c2 <? hi)
  | SBlk c1 b _ => sts_spec b (a + len c1 + 1) lo hi lastk false
  end
with sts_spec (b : astmts) (a lo hi : nat) (lastk : kind) (prev_if : bool) {struct b} : shape :=
  match b with
  | SNil => AStmt
  | SCons s r =>
      if inside a (len (fl_stmt s)) lo hi then st_spec s a lo hi lastk prev_if
      else sts_spec r (a + len (fl_stmt s)) lo hi lastk (is_ifa s)
  end.

Lemma is_if_x s : is_if (x_stmt 0 s) = is_ifa s.
Proof. destruct s; reflexivity. Qed.

(* ---------------------------------------------------------------------------------------- *)
(* positions                                                                                  *)

(* sl is a slice of a token vector in text order that starts at token index a *)
Definition pos_at (sl : list token) (position : N) (a lo hi : nat) : Prop :=
  forall k t, nth_error sl k = Some t ->
    (a + k <= lo -> (ts t <= position)%N) /\ (lo < a + k -> (position < ts t)%N) /\
    (a + k < hi -> (te t <= position)%N) /\ (hi <= a + k -> (position < te t)%N).

Lemma nth_sub {A} (l : list A) off n k : k < n -> nth_error (firstn n (skipn off l)) k = nth_error l (off + k).
Proof. intros H. rewrite HoverValid.nth_firstn_lt by exact H. apply FoldProofs.nth_skipn. Qed.

Lemma nth_sub_inv {A} (l : list A) off n k x :
  nth_error (firstn n (skipn off l)) k = Some x -> nth_error l (off + k) = Some x /\ k < n.
Proof.
  intros H. assert (Hk : k < n).
  { assert (Hl : k < len (firstn n (skipn off l))) by (apply nth_error_Some; congruence).
    rewrite firstn_length in Hl. lia. }
  split; [|exact Hk]. now rewrite nth_sub in H.
Qed.

Lemma pos_at_sub sl position a lo hi off n :
  pos_at sl position a lo hi -> pos_at (firstn n (skipn off sl)) position (a + off) lo hi.
Proof.
  intros H k t Hk. apply nth_sub_inv in Hk as [Hk _]. specialize (H _ _ Hk).
  replace (a + off + k) with (a + (off + k)) by lia. exact H.
Qed.

(* the slicing steps in front of a child node with n tokens at offset off, and the range test *)
Lemma range_pos sl position a lo hi off n inf :
  pos_at sl position a lo hi -> 1 <= n -> off + n <= len sl -> i_s inf = 0 -> i_e inf = n ->
  exists tr, slice_from sl off = ROk (skipn off sl) /\
    slice (skipn off sl) (info_range inf) = ROk (firstn n (skipn off sl)) /\
    info_text_range (firstn n (skipn off sl)) inf = ROk tr /\
    in_range tr position = inside (a + off) n lo hi.
Proof.
  intros Hpos Hp Hl His Hie.
  destruct (stmt_range_at sl off n inf Hp Hl His Hie) as [f [la [Hf [Hla [E1 [E2 E3]]]]]].
  exists (ts f, te la). repeat split; try assumption.
  destruct (Hpos _ _ Hf) as [F1 [F2 _]]. destruct (Hpos _ _ Hla) as [_ [_ [L3 L4]]].
  unfold in_range, inside. cbn [fst snd].
  destruct (Nat.leb_spec (a + off) lo) as [H1|H1].
  - destruct (N.leb_spec (ts f) position) as [_|H]; [|specialize (F1 H1); lia]. cbn [andb].
    destruct (Nat.ltb_spec hi (a + off + n)) as [H2|H2].
    + destruct (N.ltb_spec position (te la)) as [_|H]; [reflexivity|]. specialize (L4 ltac:(lia)). lia.
    + destruct (N.ltb_spec position (te la)) as [H|_]; [|reflexivity]. specialize (L3 ltac:(lia)). lia.
  - destruct (N.leb_spec (ts f) position) as [H|_]; [|reflexivity]. specialize (F2 H1). lia.
Qed.

(* ---------------------------------------------------------------------------------------- *)
(* `complete_vars`: the first `:=` / `(` of a statement                                        *)

Definition ek (k : kind) : Prop := kind_eqb k Assign = false /\ is_rcurly k = false.

Lemma ek_cm c : Forall ek (cm c).
Proof. induction c; constructor; [split; reflexivity | assumption]. Qed.

Ltac eks := repeat first [assumption | apply ek_cm | apply Forall_nil | apply Forall_app; split | apply Forall_cons | split; reflexivity].

Theorem expr_ek :
  (forall v, Forall ek (fl_var v)) /\ (forall f, Forall ek (fl_fac f)) /\
  (forall m, Forall ek (fl_mul m)) /\ (forall a, Forall ek (fl_add a)) /\
  (forall e, Forall ek (fl_cmp e)).
Proof.
  apply aexpr_mutind; intros; cbn [fl_var fl_fac fl_mul fl_add fl_cmp]; eks;
    try (match goal with |- ek (k_lit ?l) => destruct l end; split; reflexivity);
    try (match goal with |- ek (_ ?op) => destruct op end; split; reflexivity).
Qed.

Lemma complete_vars_at (sl : list token) position a lo hi l pre k post :
  map tk sl = pre ++ k :: post -> Forall (fun x => kind_eqb x k = false) pre -> kind_eqb k k = true ->
  pos_at sl position a lo hi ->
  complete_vars sl position l k = render l [] (vars_if (a + len pre <? hi)).
Proof.
  intros Hk Hpre Hkk Hpos.
  destruct (find_kind (fun x => kind_eqb x k) sl pre k post Hk Hpre Hkk) as [st [Hn [_ Hf]]].
  unfold complete_vars. rewrite Hf. destruct (Hpos _ _ Hn) as [_ [_ [H3 H4]]].
  destruct (Nat.ltb_spec (a + len pre) hi) as [H|H].
  - destruct (N.leb_spec (te st) position) as [_|H']; [reflexivity | specialize (H3 H); lia].
  - destruct (N.leb_spec (te st) position) as [H'|_]; [specialize (H4 H); lia | reflexivity].
Qed.

Lemma render_vars l g b : render l g (vars_if b) = render l [] (vars_if b).
Proof. destruct b; reflexivity. Qed.

Lemma not_lparen_cm c : Forall (fun x => kind_eqb x LParen = false) (cm c).
Proof. induction c; constructor; [reflexivity | assumption]. Qed.

(* ---------------------------------------------------------------------------------------- *)
(* the model computes the specification                                                       *)

Definition StSpec (s : astmt) : Prop :=
  forall sl position a lo hi last prev_if l g,
    map tk sl = fl_stmt s -> pos_at sl position a lo hi ->
    complete_statement (x_stmt 0 s) position sl last prev_if l g =
      ROk (render l g (st_spec s a lo hi (tk last) prev_if)).

Definition StsSpec (b : astmts) : Prop :=
  forall sl pre post position a lo hi last prev_if l g,
    map tk sl = pre ++ fl_stmts b ++ post -> pos_at sl position a lo hi ->
    complete_statements (x_stmts (len pre) b) position sl last prev_if l g =
      ROk (render l g (sts_spec b (a + len pre) lo hi (tk last) prev_if)).

(* the three slicing steps and the range test in front of a nested statement *)
Lemma child_step s sl pre post position a lo hi last l g (K : res (option (list item))) :
  StSpec s -> map tk sl = pre ++ fl_stmt s ++ post -> pos_at sl position a lo hi ->
  (do tl <- slice_from sl (len pre);
   do sl' <- slice tl (info_range (stmt_info (x_stmt 0 s)));
   do tr <- info_text_range sl' (stmt_info (x_stmt 0 s));
   if in_range tr position then complete_statement (x_stmt 0 s) position sl' last false l g else K)
  = if inside (a + len pre) (len (fl_stmt s)) lo hi
    then ROk (render l g (st_spec s (a + len pre) lo hi (tk last) false)) else K.
Proof.
  intros IH Hk Hpos. destruct (x_stmt_info s) as [His Hie]. pose proof (stmt_len_pos s) as Hp.
  pose proof (dslice_room sl _ _ _ Hk) as Hroom.
  destruct (range_pos sl position a lo hi (len pre) (len (fl_stmt s)) _ Hpos Hp Hroom His Hie) as [tr [E1 [E2 [E3 E4]]]].
  rewrite E1. cbn [rbind]. rewrite E2. cbn [rbind]. rewrite E3. cbn [rbind]. rewrite E4.
  destruct (inside _ _ _ _); [|reflexivity].
  apply IH; [exact (dslice_kinds sl _ _ _ Hk) | now apply pos_at_sub].
Qed.

Lemma spec_emp c : StSpec (SEmp c).
Proof.
  intros sl position a lo hi last prev_if l g _ _. cbn [x_stmt complete_statement st_spec].
  destruct (prev_if && is_rcurly (tk last)); reflexivity.
Qed.

Lemma spec_asg v c1 e c2 : StSpec (SAsg v c1 e c2).
Proof.
  intros sl position a lo hi last prev_if l g Hk Hpos. cbn [x_stmt complete_statement st_spec].
  destruct (prev_if && is_rcurly (tk last)); [reflexivity|]. f_equal.
  rewrite render_vars.
  replace (a + len (fl_var v) + len c1) with (a + len (fl_var v ++ cm c1)) by leneq.
  apply (complete_vars_at sl position a lo hi l (fl_var v ++ cm c1) Assign (fl_cmp e ++ cm c2 ++ [Semic])); try assumption.
  - rewrite Hk. cbn [fl_stmt]. listeq.
  - apply Forall_app. split.
    + eapply Forall_impl; [|apply expr_ek]. intros x [H _]. exact H.
    + eapply Forall_impl; [|apply ek_cm]. intros x [H _]. exact H.
  - reflexivity.
Qed.

Lemma spec_cal c1 f c2 args c3 c4 : StSpec (SCal c1 f c2 args c3 c4).
Proof.
  intros sl position a lo hi last prev_if l g Hk Hpos. cbn [x_stmt complete_statement st_spec].
  destruct (prev_if && is_rcurly (tk last)); [reflexivity|]. f_equal.
  rewrite render_vars.
  replace (a + len c1 + 1 + len c2) with (a + len (cm c1 ++ Ident f :: cm c2)) by leneq.
  apply (complete_vars_at sl position a lo hi l (cm c1 ++ Ident f :: cm c2) LParen
           (fl_sep fl_cmp args ++ cm c3 ++ RParen :: cm c4 ++ [Semic])); try assumption.
  - rewrite Hk. cbn [fl_stmt]. listeq.
  - apply Forall_app. split; [apply not_lparen_cm|]. constructor; [reflexivity | apply not_lparen_cm].
  - reflexivity.
Qed.

(* the fall-through of `if` and `while`: the `(` behind the keyword *)
Lemma head_vars (sl : list token) position a lo hi l g c1 kw c2 rest :
  map tk sl = cm c1 ++ kw :: cm c2 ++ LParen :: rest -> kind_eqb kw LParen = false ->
  pos_at sl position a lo hi ->
  complete_vars sl position l LParen = render l g (vars_if (a + len c1 + 1 + len c2 <? hi)).
Proof.
  intros Hk Hkw Hpos. rewrite render_vars.
  replace (a + len c1 + 1 + len c2) with (a + len (cm c1 ++ kw :: cm c2)) by leneq.
  apply (complete_vars_at sl position a lo hi l (cm c1 ++ kw :: cm c2) LParen rest); try assumption.
  - rewrite Hk. listeq.
  - apply Forall_app. split; [apply not_lparen_cm|]. constructor; [exact Hkw | apply not_lparen_cm].
  - reflexivity.
Qed.

Lemma spec_ift c1 c2 e c3 t : StSpec t -> StSpec (SIfT c1 c2 e c3 t).
Proof.
  intros IH sl position a lo hi last prev_if l g Hk Hpos. cbn [x_stmt complete_statement st_spec].
  destruct (prev_if && is_rcurly (tk last)); [reflexivity|].
  cbn [fl_stmt] in Hk.
  replace (0 + len c1 + 1 + len c2 + 1 + len (fl_cmp e) + len c3 + 1)
    with (len (cm c1 ++ KIf :: cm c2 ++ LParen :: fl_cmp e ++ cm c3 ++ [RParen])) by leneq.
  rewrite (child_step t sl (cm c1 ++ KIf :: cm c2 ++ LParen :: fl_cmp e ++ cm c3 ++ [RParen]) [] position a lo hi last l g _ IH
             ltac:(rewrite Hk; listeq) Hpos).
  replace (a + len (cm c1 ++ KIf :: cm c2 ++ LParen :: fl_cmp e ++ cm c3 ++ [RParen]))
    with (a + len c1 + 1 + len c2 + 1 + len (fl_cmp e) + len c3 + 1) by leneq.
  destruct (inside _ _ _ _); [reflexivity|]. f_equal.
  exact (head_vars sl position a lo hi l g c1 KIf c2 _ Hk eq_refl Hpos).
Qed.

Lemma spec_ife c1 c2 e c3 t c4 s : StSpec t -> StSpec s -> StSpec (SIfE c1 c2 e c3 t c4 s).
Proof.
  intros IHt IHs sl position a lo hi last prev_if l g Hk Hpos. cbn [x_stmt complete_statement st_spec].
  destruct (prev_if && is_rcurly (tk last)); [reflexivity|].
  cbn [fl_stmt] in Hk.
  set (pt := cm c1 ++ KIf :: cm c2 ++ LParen :: fl_cmp e ++ cm c3 ++ [RParen]).
  replace (0 + len c1 + 1 + len c2 + 1 + len (fl_cmp e) + len c3 + 1) with (len pt) by (unfold pt; leneq).
  replace (len pt + len (fl_stmt t) + len c4 + 1) with (len (pt ++ fl_stmt t ++ cm c4 ++ [KElse])) by leneq.
  rewrite (child_step t sl pt (cm c4 ++ KElse :: fl_stmt s) position a lo hi last l g _ IHt
             ltac:(rewrite Hk; unfold pt; listeq) Hpos).
  rewrite (child_step s sl (pt ++ fl_stmt t ++ cm c4 ++ [KElse]) [] position a lo hi last l g _ IHs
             ltac:(rewrite Hk; unfold pt; listeq) Hpos).
  replace (a + len pt) with (a + len c1 + 1 + len c2 + 1 + len (fl_cmp e) + len c3 + 1) by (unfold pt; leneq).
  replace (a + len (pt ++ fl_stmt t ++ cm c4 ++ [KElse]))
    with (a + len c1 + 1 + len c2 + 1 + len (fl_cmp e) + len c3 + 1 + len (fl_stmt t) + len c4 + 1) by (unfold pt; leneq).
  destruct (inside _ _ _ _); [reflexivity|]. destruct (inside _ _ _ _); [reflexivity|]. f_equal.
  exact (head_vars sl position a lo hi l g c1 KIf c2 _ Hk eq_refl Hpos).
Qed.

Lemma spec_whl c1 c2 e c3 b : StSpec b -> StSpec (SWhl c1 c2 e c3 b).
Proof.
  intros IH sl position a lo hi last prev_if l g Hk Hpos. cbn [x_stmt complete_statement st_spec].
  destruct (prev_if && is_rcurly (tk last)); [reflexivity|].
  cbn [fl_stmt] in Hk.
  replace (0 + len c1 + 1 + len c2 + 1 + len (fl_cmp e) + len c3 + 1)
    with (len (cm c1 ++ KWhile :: cm c2 ++ LParen :: fl_cmp e ++ cm c3 ++ [RParen])) by leneq.
  rewrite (child_step b sl (cm c1 ++ KWhile :: cm c2 ++ LParen :: fl_cmp e ++ cm c3 ++ [RParen]) [] position a lo hi last l g _ IH
             ltac:(rewrite Hk; listeq) Hpos).
  replace (a + len (cm c1 ++ KWhile :: cm c2 ++ LParen :: fl_cmp e ++ cm c3 ++ [RParen]))
    with (a + len c1 + 1 + len c2 + 1 + len (fl_cmp e) + len c3 + 1) by leneq.
  destruct (inside _ _ _ _); [reflexivity|]. f_equal.
  exact (head_vars sl position a lo hi l g c1 KWhile c2 _ Hk eq_refl Hpos).
Qed.

Lemma spec_blk c1 b c2 : StsSpec b -> StSpec (SBlk c1 b c2).
Proof.
  intros IH sl position a lo hi last prev_if l g Hk Hpos. cbn [x_stmt]. rewrite complete_statement_block.
  cbn [st_spec]. destruct (prev_if && is_rcurly (tk last)); [reflexivity|].
  cbn [fl_stmt] in Hk.
  replace (0 + len c1 + 1) with (len (cm c1 ++ [LCurly])) by leneq.
  rewrite (IH sl (cm c1 ++ [LCurly]) (cm c2 ++ [RCurly]) position a lo hi last false l g ltac:(rewrite Hk; listeq) Hpos).
  do 3 f_equal. leneq.
Qed.

Lemma spec_nil : StsSpec SNil.
Proof. intros sl pre post position a lo hi last prev_if l g _ _. reflexivity. Qed.

Lemma spec_cons s r : StSpec s -> StsSpec r -> StsSpec (SCons s r).
Proof.
  intros IHs IHr sl pre post position a lo hi last prev_if l g Hk Hpos.
  cbn [x_stmts complete_statements sts_spec]. cbn [fl_stmts] in Hk. rewrite <- app_assoc in Hk.
  destruct (x_stmt_info s) as [His Hie]. pose proof (stmt_len_pos s) as Hp.
  pose proof (dslice_room sl _ _ _ Hk) as Hroom.
  destruct (range_pos sl position a lo hi (len pre) (len (fl_stmt s)) _ Hpos Hp Hroom His Hie) as [tr [E1 [E2 [E3 E4]]]].
  rewrite E1. cbn [rbind]. rewrite E2. cbn [rbind]. rewrite E3. cbn [rbind]. rewrite E4.
  destruct (inside _ _ _ _).
  - apply IHs; [exact (dslice_kinds sl _ _ _ Hk) | now apply pos_at_sub].
  - rewrite is_if_x. replace (len pre + len (fl_stmt s)) with (len (pre ++ fl_stmt s)) by leneq.
    rewrite (IHr sl (pre ++ fl_stmt s) post position a lo hi last (is_ifa s) l g ltac:(rewrite Hk; listeq) Hpos).
    do 3 f_equal. leneq.
Qed.

Theorem stmt_spec_all : (forall s, StSpec s) /\ (forall b, StsSpec b).
Proof.
  apply astmt_mutind.
  - apply spec_emp.
  - apply spec_asg.
  - apply spec_cal.
  - intros; now apply spec_ift.
  - intros; now apply spec_ife.
  - intros; now apply spec_whl.
  - intros; now apply spec_blk.
  - apply spec_nil.
  - intros; now apply spec_cons.
Qed.

Theorem complete_statement_spec s : StSpec s.
Proof. apply stmt_spec_all. Qed.
Theorem complete_statements_spec b : StsSpec b.
Proof. apply stmt_spec_all. Qed.
