(* C13, second half, in the wording of Spec/Nav.v: [roundtrip_statement] over documents without diagnostics
   ([clean_doc]).  By the completeness of the front end (Proofs/CompleteFront.v [clean_doc_valid]) such a document is
   the document of a layout of a well-typed abstract program, so Proofs/RefsRound.v [roundtrip_valid] applies:
   [roundtrip_clean] = roundtrip_statement for every binding except the procedure `main`.  For `main` the
   statement is FALSE ([roundtrip_statement_refuted]): `proc main() {}` - rename offers the edit, the result
   `proc m() {}` gets the diagnostic "main is missing". *)
From Coq Require Import PeanoNat Lia Bool List NArith String.
From Spl Require Import Model.Lexer Spec.LexSpec Proofs.LexerProofs Proofs.LexLocality Proofs.LexRun Proofs.LexConform.
From Spl Require Import Spec.Typing Model.Errors Spec.Nav Proofs.RefsProofs Proofs.FormatProofs.
From Spl Require Import Proofs.RefsRoundLex Proofs.RefsRound Proofs.CompleteFront.
Import ListNotations.
Local Open Scope nat_scope.

Lemma run_cons_inv off s tok tl : Run off s (tok :: tl) -> tk tok <> Eof ->
  exists ws s1 k e lx rest', s = ws ++ s1 /\ lex_raw s1 = Some (k, e, lx, rest') /\ tk tok = k.
Proof.
  intros H Hne. inversion H as [off' ws Hw E1 E2 | off' ws s1 k e lx rest' tl' Hw Hst E Hr E1 E2 E3].
  - exfalso. apply Hne. subst tok. reflexivity.
  - exists ws, s1, k, e, lx, rest'. repeat split; auto.
Qed.

(* a text that lexes as exactly one identifier token with its own spelling is a valid identifier *)
Lemma one_ident_ok (new : text) tok rest : lex new = Some (tok :: rest) -> tk tok = Ident new -> ident_ok new.
Proof.
  intros Hlex Hk. unfold lex in Hlex. apply lex_from_run in Hlex.
  destruct (run_cons_inv _ _ _ _ Hlex) as [ws [s1 [k [e [lx [rest' [Es [E Ek]]]]]]]]; [rewrite Hk; discriminate|].
  rewrite Hk in Ek. subst k. destruct (lex_raw_ident_inv _ _ _ _ _ E) as [Elx [_ [_ [c [r [Enew [Hc Hr0]]]]]]].
  pose proof (lex_raw_split _ _ _ _ _ E) as [Es1 _]. rewrite Elx in Es1.
  assert (Hlen : length ws + length rest' = 0).
  { assert (Hl : length new = length (ws ++ new ++ rest')) by (rewrite <- Es1, <- Es; reflexivity). rewrite !app_length in Hl. lia. }
  assert (ws = [] /\ rest' = []) as [Ews Er] by (destruct ws, rest'; cbn [length] in Hlen; try lia; auto).
  rewrite Er, app_nil_r in Es1. rewrite Es1, Elx, Er in E.
  split; [rewrite Enew; auto|].
  apply forallb_forall. intros [pw k] Hin. cbn [fst]. destruct (text_eqb pw new) eqn:Ee; [|reflexivity]. exfalso.
  apply text_eqb_eq in Ee. subst pw. pose proof (kw_whole_word new k [] Hin I) as Hkw. rewrite app_nil_r in Hkw.
  rewrite Hkw in E. injection E as E. exact (kw_not_ident' _ _ Hin new E).
Qed.

Lemma fresh_name_for d new : fresh_name d new -> fresh_for (d_toks d) new.
Proof.
  intros [[tok [rest [Hlex [Hk _]]]] [Hf Hd]]. split; [exact (one_ident_ok new tok rest Hlex Hk)|]. split; assumption.
Qed.

Lemma noerr_forallb (l : list token) :
  forallb (fun tok => match terr tok with [] => true | _ => false end) l = true <-> Forall (fun x => terr x = []) l.
Proof.
  rewrite forallb_forall, Forall_forall. split; intros H x Hx; specialize (H x Hx); destruct (terr x); congruence.
Qed.

(* roundtrip_statement for every binding but the procedure main *)
Theorem roundtrip_clean : forall t d n o l c new es t',
  clean_doc t d -> nth_error (occurrences (d_ast d)) n = Some o -> binding (occurrences (d_ast d)) o <> None ->
  cursor_inside d o l c -> fresh_name d new ->
  ~ ((o_role o = RProcDecl \/ o_role o = RCall) /\ o_name o = s_main) ->
  rename d l c = ROk (Some es) -> apply_rename t es new = Some t' ->
  exists d',
    clean_doc t' d'
    /\ length (occurrences (d_ast d')) = length (occurrences (d_ast d))
    /\ (forall i j a b a' b',
          nth_error (occurrences (d_ast d)) i = Some a -> nth_error (occurrences (d_ast d)) j = Some b ->
          nth_error (occurrences (d_ast d')) i = Some a' -> nth_error (occurrences (d_ast d')) j = Some b' ->
          same_entity (occurrences (d_ast d')) a' b' = same_entity (occurrences (d_ast d)) a b)
    /\ (forall o' l' c',
          nth_error (occurrences (d_ast d')) n = Some o' -> cursor_inside d' o' l' c' ->
          exists es', rename d' l' c' = ROk (Some es') /\ apply_rename t' es' (o_name o) = Some t).
Proof.
  intros t d n o l c new es t' Hcl Hn Hb Hcur Hfr Hmain Hren Happ.
  destruct (clean_doc_valid t d Hcl) as [p [G [Hok [Hwt [Hlex [Hk _]]]]]]. destruct Hcl as [Hd [_ Hne]].
  destruct (roundtrip_valid p G t (d_toks d) d n o l c new es t' Hok Hwt Hlex Hk Hd Hn Hb Hcur (fresh_name_for d new Hfr) Hmain Hren Happ)
    as [p1 [G1 [toks1 [d1 [_ [_ [_ [_ [Hd1 [He1 [Hn1 [H1 [H2 H3]]]]]]]]]]]]].
  exists d1. split; [|split; [exact H1 | split; [exact H2 | exact H3]]].
  split; [exact Hd1|]. split; [exact He1|]. apply noerr_forallb, Hn1. now apply noerr_forallb.
Qed.
Print Assumptions roundtrip_clean.

(* ... and for main it fails: the witness *)
Definition witness_main : text := str "proc main() {}".
Definition witness_main_renamed : text := str "proc m() {}".

Example roundtrip_main_counterexample :
  is_clean witness_main = true
  /\ map (fun o => (o_role o, o_name o)) (occurrences (d_ast (doc_of witness_main))) = [(RProcDecl, s_main)]
  /\ rename (doc_of witness_main) 0 5 = ROk (Some [((0, 5), (0, 9))])%N
  /\ apply_rename witness_main [((0, 5), (0, 9))]%N [109%N] = Some (str "proc m() {}")
  /\ doc_errors_res (doc_of (str "proc m() {}")) = ROk [(4, 4, EBuild MainIsMissing)]%N.
Proof. vm_compute. repeat split. Qed.

Lemma ODone_inj {A} (a b : A) : ODone a = ODone b -> a = b.
Proof. intros H. injection H. auto. Qed.

Theorem roundtrip_statement_refuted : ~ roundtrip_statement.
Proof.
  intros H.
  assert (Hd : new_doc_res witness_main = ODone (doc_of witness_main)) by (vm_compute; reflexivity).
  destruct (nth_error (occurrences (d_ast (doc_of witness_main))) 0) as [o|] eqn:Eo; [|vm_compute in Eo; discriminate Eo].
  destruct (H witness_main (doc_of witness_main) 0 o 0%N 5%N [109%N] [((0, 5), (0, 9))]%N (str "proc m() {}")) as [d' [[Hd' [He' _]] _]].
  - split; [exact Hd|]. split; vm_compute; reflexivity.
  - exact Eo.
  - vm_compute in Eo. injection Eo as <-. vm_compute. discriminate.
  - vm_compute in Eo. injection Eo as <-. unfold cursor_inside.
    destruct (nth_error (d_toks (doc_of witness_main)) 1) as [tok|] eqn:Et; [|vm_compute in Et; discriminate Et].
    exists tok. split; [exact Et|]. vm_compute in Et. injection Et as <-. vm_compute. reflexivity.
  - split; [|split].
    + destruct (lex [109%N]) as [[|tok rest]|] eqn:El; try (vm_compute in El; discriminate El).
      exists tok, rest. split; [reflexivity|]. vm_compute in El. injection El as <- <-. split; vm_compute; reflexivity.
    + intros tok Hin. vm_compute in Hin. repeat (destruct Hin as [<-|Hin]; [vm_compute; discriminate|]). destruct Hin.
    + vm_compute. reflexivity.
  - vm_compute. reflexivity.
  - vm_compute. reflexivity.
  - assert (E : d' = doc_of (str "proc m() {}")).
    { assert (E2 : new_doc_res (str "proc m() {}") = ODone (doc_of (str "proc m() {}"))) by (vm_compute; reflexivity).
      rewrite E2 in Hd'. symmetry. exact (ODone_inj _ _ Hd'). }
    rewrite E in He'. vm_compute in He'. discriminate He'.
Qed.
Print Assumptions roundtrip_statement_refuted.
