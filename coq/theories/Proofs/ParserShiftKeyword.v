(* When are the boundary hypotheses of S2 - S4 met?  Every `proc` / `type` token that is not directly
   preceded by a comment is a declaration boundary (from T5_heads).  This turns containment into a
   statement about TOKENS only: replace anything between a declaration keyword and a later keyword. *)
From Coq Require Import Arith Lia List.
From Spl Require Import Model.Parser Proofs.ParserProofs Proofs.ParserShift Proofs.ParserShiftMono Proofs.ParserShiftSuffix.
Import ListNotations.
Local Open Scope nat_scope.

(* every `proc` / `type` token is the keyword of a Type/Procedure declaration of the program *)
Lemma keyword_decl toks p q t :
  EofLast toks -> parse toks = Done p -> nth_error toks q = Some t -> is_declkw (tk t) = true ->
  exists k g o, nth_error (pg_decls p) k = Some (g, o) /\ sig_at toks o = q /\ o <= q /\ is_kw_decl g = true.
Proof.
  intros HE Hp Ht Hkw. pose proof (T5_heads toks p HE Hp) as Hh.
  assert (Hin : In (q, tk t) (kw_in toks 0 (length toks))).
  { unfold kw_in. apply in_flat_map. exists q. split.
    - apply in_seq. assert (q < length toks) by (apply nth_error_Some; congruence). lia.
    - rewrite Ht, Hkw. left. reflexivity. }
  rewrite <- Hh in Hin. unfold decl_heads in Hin. apply in_flat_map in Hin as ([g o] & Hin & Hq). cbn [fst snd] in Hq.
  apply In_nth_error in Hin as [k Hk]. exists k, g, o.
  destruct g as [d|d|inf]; cbn in Hq; try contradiction; destruct Hq as [Hq|[]]; injection Hq as Hs _;
    (repeat split; [exact Hk | exact Hs | rewrite <- Hs; apply sig_at_ge]).
Qed.

(* ... and where no comment stands directly in front of it, the declaration starts at the keyword *)
Lemma keyword_boundary toks p q t :
  EofLast toks -> parse toks = Done p -> nth_error toks q = Some t -> is_declkw (tk t) = true ->
  (q = 0 \/ exists t', nth_error toks (q - 1) = Some t' /\ is_comment (tk t') = false) ->
  exists k g, nth_error (pg_decls p) k = Some (g, q) /\ is_kw_decl g = true /\ Boundary p k q.
Proof.
  intros HE Hp Ht Hkw Hprev.
  destruct (keyword_decl toks p q t HE Hp Ht Hkw) as (k & g & o & Hk & Hs & Ho & Hg).
  assert (o = q).
  { destruct (Nat.eq_dec o q) as [|Hne]; [assumption|]. exfalso.
    destruct Hprev as [->|(t' & Ht' & Hc')]; [lia|].
    destruct (sig_at_comment toks o (q - 1)) as (t2 & Ht2 & Hc2); [lia|]. congruence. }
  subst o. exists k, g. split; [exact Hk|]. split; [exact Hg|].
  split; [apply Nat.lt_le_incl, nth_error_Some; congruence|]. unfold decl_start, start_of. now rewrite Hk.
Qed.

(* containment between two keywords: pre contains a proc/type token (index j); post begins with a
   proc/type token; the replaced tokens mid / mid' are arbitrary, only the token in front of post must not
   be a comment (else that comment is the doc comment of the declaration post begins with, and the
   boundary lies in front of it) *)
Theorem containment_between_keywords pre mid mid' post post' p p' j tj tq :
  EofLast (pre ++ mid ++ post) -> EofLast (pre ++ mid' ++ post) ->
  parse (pre ++ mid ++ post) = Done p -> parse (pre ++ mid' ++ post) = Done p' ->
  nth_error pre j = Some tj -> is_declkw (tk tj) = true ->
  post = tq :: post' -> is_declkw (tk tq) = true ->
  (exists t', nth_error (pre ++ mid) (length pre + length mid - 1) = Some t' /\ is_comment (tk t') = false) ->
  (exists t', nth_error (pre ++ mid') (length pre + length mid' - 1) = Some t' /\ is_comment (tk t') = false) ->
  exists k g o k2 k2',
    (* declaration k is the one introduced by the keyword at j *)
    nth_error (pg_decls p) k = Some (g, o) /\ is_kw_decl g = true /\ sig_at (pre ++ mid ++ post) o = j /\
    Boundary p k2 (length pre + length mid) /\ Boundary p' k2' (length pre + length mid') /\
    firstn k (pg_decls p) = firstn k (pg_decls p') /\ Boundary p' k o /\
    shift_offs (length mid') (skipn k2 (pg_decls p)) = shift_offs (length mid) (skipn k2' (pg_decls p')) /\
    i_e (pg_info p) + length mid' = i_e (pg_info p') + length mid /\
    k < k2 /\ k < k2'.
Proof.
  intros HE HE' Hp Hp' Hj Hkj -> Hkq Hlast Hlast'.
  assert (Hjl : j < length pre) by (apply nth_error_Some; congruence).
  destruct (keyword_decl _ p j tj HE Hp) as (k & g & o & Hk & Hs & Ho & Hg); [rewrite nth_error_app1 by exact Hjl; exact Hj | exact Hkj |].
  assert (Hb2 : exists k2, Boundary p k2 (length pre + length mid)).
  { destruct (keyword_boundary _ p (length pre + length mid) tq HE Hp) as (k2 & _ & _ & _ & Hb2); [| exact Hkq | | eauto].
    - rewrite app_assoc, nth_error_app2 by (rewrite app_length; lia). rewrite app_length, Nat.sub_diag. reflexivity.
    - right. destruct Hlast as (t' & Ht' & Hc'). exists t'. split; [|exact Hc'].
      rewrite app_assoc, nth_error_app1 by (rewrite app_length; lia). exact Ht'. }
  assert (Hb2' : exists k2', Boundary p' k2' (length pre + length mid')).
  { destruct (keyword_boundary _ p' (length pre + length mid') tq HE' Hp') as (k2 & _ & _ & _ & Hb2'); [| exact Hkq | | eauto].
    - rewrite app_assoc, nth_error_app2 by (rewrite app_length; lia). rewrite app_length, Nat.sub_diag. reflexivity.
    - right. destruct Hlast' as (t' & Ht' & Hc'). exists t'. split; [|exact Hc'].
      rewrite app_assoc, nth_error_app1 by (rewrite app_length; lia). exact Ht'. }
  destruct Hb2 as [k2 Hb2]. destruct Hb2' as [k2' Hb2'].
  exists k, g, o, k2, k2'. split; [exact Hk|]. split; [exact Hg|]. split; [exact Hs|]. split; [exact Hb2|]. split; [exact Hb2'|].
  apply (containment pre mid mid' (tq :: post') p p' j k o k2 k2'); try assumption.
  - exists tj. split; [exact Hj|]. destruct (tk tj); try discriminate Hkj; reflexivity.
  - split; [apply Nat.lt_le_incl, nth_error_Some; congruence|]. unfold decl_start, start_of. now rewrite Hk.
Qed.
