(* R1, parser side: every identifier node of a tree returned by the parser model has a non-empty
   range (i_s < i_e, hence 0 < i_e).  For ALL token lists and all fuel.

   [Ret P p]: every value a successful run of p returns satisfies P, from any state that is in
   bounds and whose reference position does not lie behind the input position (the only thing
   `usize` subtraction `location_offset - reference_pos` needs).  One lemma per combinator; the
   predicate attached to a type is canonical (class [Ok]), so the proofs for the non-terminals are
   syntax directed. *)
From Coq Require Import Arith Lia List.
From Spl Require Import Model.Parser Proofs.ParserComb Proofs.ParserEqns Proofs.ParserFwd Proofs.ParserDecl.
Import ListNotations.
Local Open Scope nat_scope.

(* ------------------------------------------------------------------------------------------ *)
(* the predicate on trees *)

Definition IdOk (i : ident) : Prop := i_s (id_info i) < i_e (id_info i).

Definition OptP {A} (P : A -> Prop) (o : option A) : Prop := match o with Some a => P a | None => True end.
Definition RefP {A} (P : A -> Prop) (x : A * nat) : Prop := P (fst x).

Fixpoint VarOk (v : variable) : Prop :=
  match v with
  | NamedVar i => IdOk i
  | ArrAccess a idx _ => VarOk a /\ match idx with Some (e, _) => ExprOk e | None => True end
  end
with ExprOk (e : expr) : Prop :=
  match e with
  | EBin _ l r _ => ExprOk l /\ ExprOk r
  | EBrack a _ => ExprOk a
  | EUn _ a _ => ExprOk a
  | EVar v => VarOk v
  | EInt _ | EErr _ => True
  end.

Fixpoint TexprOk (t : typeexpr) : Prop :=
  match t with
  | TNamed i => IdOk i
  | TArray _ base _ => match base with Some (b, _) => TexprOk b | None => True end
  end.

Fixpoint StmtOk (s : stmt) : Prop :=
  let opt_stmt (r : option (stmt * nat)) : Prop :=
    match r with Some (x, _) => StmtOk x | None => True end in
  match s with
  | SEmpty _ | SError _ => True
  | SAssign v e _ => VarOk v /\ OptP (RefP ExprOk) e
  | SCall name args _ => IdOk name /\ Forall (RefP ExprOk) args
  | SIf c t e _ => OptP (RefP ExprOk) c /\ opt_stmt t /\ opt_stmt e
  | SWhile c b _ => OptP (RefP ExprOk) c /\ opt_stmt b
  | SBlock body _ =>
      (fix go (l : list (stmt * nat)) : Prop :=
         match l with [] => True | (x, _) :: r => StmtOk x /\ go r end) body
  end.

Definition VardeclOk (v : vardecl) : Prop :=
  match v with
  | VValid _ name ty _ => OptP IdOk name /\ OptP (RefP TexprOk) ty
  | VError _ => True
  end.

Definition ParamdeclOk (p : paramdecl) : Prop :=
  match p with
  | PValid _ _ name ty _ => OptP IdOk name /\ OptP (RefP TexprOk) ty
  | PError _ => True
  end.

Definition TypedeclOk (d : typedecl) : Prop := OptP IdOk (td_name d) /\ OptP (RefP TexprOk) (td_ty d).

Definition ProcdeclOk (d : procdecl) : Prop :=
  OptP IdOk (pd_name d) /\ Forall (RefP ParamdeclOk) (pd_params d) /\
  Forall (RefP VardeclOk) (pd_vars d) /\ Forall (RefP StmtOk) (pd_stmts d).

Definition GdeclOk (g : gdecl) : Prop :=
  match g with GType d => TypedeclOk d | GProc d => ProcdeclOk d | GError _ => True end.

(* every identifier node of the program - names of declarations, parameters, variables, named
   types, named variables, call names - has a non-empty range *)
Definition IdentsNonEmpty (p : program) : Prop := Forall (RefP GdeclOk) (pg_decls p).

Lemma IdOk_pos i : IdOk i -> 0 < i_e (id_info i).
Proof. unfold IdOk. lia. Qed.

Lemma StmtOk_block body inf : StmtOk (SBlock body inf) <-> Forall (RefP StmtOk) body.
Proof.
  cbn [StmtOk]. induction body as [|[x off] r IH].
  - split; [constructor | exact (fun _ => I)].
  - split.
    + intros [H1 H2]. constructor; [exact H1 | apply IH, H2].
    + intros H. inversion H as [|? ? H1 H2]; subst. split; [exact H1 | apply IH, H2].
Qed.

Lemma StmtOk_optref (r : option (stmt * nat)) :
  match r with Some (x, _) => StmtOk x | None => True end <-> OptP (RefP StmtOk) r.
Proof. destruct r as [[x off]|]; reflexivity. Qed.

Lemma ExprOk_optref (r : option (expr * nat)) :
  match r with Some (x, _) => ExprOk x | None => True end <-> OptP (RefP ExprOk) r.
Proof. destruct r as [[x off]|]; reflexivity. Qed.

Lemma TexprOk_optref (r : option (typeexpr * nat)) :
  match r with Some (x, _) => TexprOk x | None => True end <-> OptP (RefP TexprOk) r.
Proof. destruct r as [[x off]|]; reflexivity. Qed.

(* ------------------------------------------------------------------------------------------ *)
(* canonical predicate per result type *)

Class Ok (A : Type) := ok : A -> Prop.

Definition triv {A} : A -> Prop := fun _ => True.

#[global] Instance ok_ident : Ok ident := IdOk.
#[global] Instance ok_variable : Ok variable := VarOk.
#[global] Instance ok_expr : Ok expr := ExprOk.
#[global] Instance ok_texpr : Ok typeexpr := TexprOk.
#[global] Instance ok_stmt : Ok stmt := StmtOk.
#[global] Instance ok_vardecl : Ok vardecl := VardeclOk.
#[global] Instance ok_paramdecl : Ok paramdecl := ParamdeclOk.
#[global] Instance ok_typedecl : Ok typedecl := TypedeclOk.
#[global] Instance ok_procdecl : Ok procdecl := ProcdeclOk.
#[global] Instance ok_gdecl : Ok gdecl := GdeclOk.
#[global] Instance ok_token : Ok token := triv.
#[global] Instance ok_unit : Ok unit := triv.
#[global] Instance ok_bool : Ok bool := triv.
#[global] Instance ok_info : Ok info := triv.
#[global] Instance ok_intlit : Ok intlit := triv.
#[global] Instance ok_texts : Ok (list text) := triv.
#[global] Instance ok_tokens : Ok (list token) := triv.
#[global] Instance ok_optN : Ok (option N) := triv.
#[global] Instance ok_opt {A} (H : Ok A) : Ok (option A) | 5 := OptP H.
#[global] Instance ok_list {A} (H : Ok A) : Ok (list A) | 5 := Forall H.
#[global] Instance ok_ref {A} (H : Ok A) : Ok (A * nat) | 4 := RefP H.
#[global] Instance ok_pair {A B} (HA : Ok A) (HB : Ok B) : Ok (A * B) | 5 := fun x => HA (fst x) /\ HB (snd x).

Ltac unfold_ok :=
  unfold ok, ok_ident, ok_variable, ok_expr, ok_texpr, ok_stmt, ok_vardecl, ok_paramdecl, ok_typedecl,
    ok_procdecl, ok_gdecl, ok_token, ok_unit, ok_bool, ok_info, ok_intlit, ok_texts, ok_tokens, ok_optN,
    ok_opt, ok_list, ok_ref, ok_pair, triv, OptP, RefP in *.

(* ------------------------------------------------------------------------------------------ *)
Section Ret.
Variable toks : list token.
Notation N := (length toks).
Notation Fwd0 := (Fwd toks sync_none).

Definition Good (s : st) : Prop := pos s <= N /\ refp s <= pos s.

Definition Ret {A} (P : Ok A) (p : parser A) : Prop :=
  forall s s' a, Good s -> p s = POk s' a -> P a.

Lemma Good_Mv s s' : Good s -> Mv toks sync_none s s' -> Good s'.
Proof. intros [G1 G2] (M1 & M2 & M3 & _). split; [exact M2 | lia]. Qed.

Lemma Good_ok {A} (p : parser A) s s' a : Fwd0 p -> Good s -> p s = POk s' a -> Good s'.
Proof. intros F G H. eapply Good_Mv; [exact G|]. eapply Fwd_ok; [exact F | apply G | exact H]. Qed.

Lemma Good_err {A} (p : parser A) s s' : Fwd0 p -> Good s -> p s = PErr s' -> Good s'.
Proof. intros F G H. eapply Good_Mv; [exact G|]. eapply Fwd_err; [exact F | apply G | exact H]. Qed.

Lemma Ret_triv {A} (p : parser A) : Ret triv p.
Proof. intros s s' a _ _. exact I. Qed.

Lemma Ret_fuel {A} (P : Ok A) : Ret P (fun _ => PFuel).
Proof. intros s s' a _ H. discriminate H. Qed.

Lemma Ret_map {A B} (HA : Ok A) (HB : Ok B) (f : A -> B) p :
  Ret HA p -> (forall a, HA a -> HB (f a)) -> Ret HB (p_map f p).
Proof. intros Hp Hf s s' b G H. apply p_map_ok in H as (a & H & ->). apply Hf. eapply Hp; eassumption. Qed.

Lemma Ret_alt {A} (H : Ok A) (p q : parser A) : Ret H p -> Ret H q -> Ret H (p_alt p q).
Proof. intros Hp Hq s s' a G E. apply p_alt_ok in E as [E|[_ E]]; [eapply Hp | eapply Hq]; eassumption. Qed.

Lemma Ret_restore {A} (H : Ok A) (p : parser A) : Ret H p -> Ret H (p_restore p).
Proof. intros Hp s s' a G E. apply p_restore_ok in E. eapply Hp; eassumption. Qed.

Lemma Ret_opt {A} (H : Ok A) (p : parser A) : Ret H p -> Ret (ok_opt H) (p_opt p).
Proof.
  intros Hp s s' o G E. unfold p_opt in E. destruct (p s) as [s1 a|e|] eqn:E1; [| |discriminate].
  - injection E as <- <-. exact (Hp _ _ _ G E1).
  - injection E as <- <-. exact I.
Qed.

Lemma Ret_pair {A B} (HA : Ok A) (HB : Ok B) (p : parser A) (q : parser B) :
  Ret HA p -> Fwd0 p -> Ret HB q -> Ret (ok_pair HA HB) (p_pair p q).
Proof.
  intros Hp Fp Hq s s' ab G E. apply p_pair_ok in E as (s1 & E1 & E2). split.
  - eapply Hp; eassumption.
  - eapply Hq; [|exact E2]. eapply Good_ok; eassumption.
Qed.

Lemma Ret_preceded {A B} (HB : Ok B) (p : parser A) (q : parser B) :
  Fwd0 p -> Ret HB q -> Ret HB (p_preceded p q).
Proof.
  intros Fp Hq. unfold p_preceded. apply Ret_map with (HA := ok_pair triv HB).
  - apply Ret_pair; [apply Ret_triv | exact Fp | exact Hq].
  - intros a [_ H]. exact H.
Qed.

Lemma Ret_terminated {A B} (HA : Ok A) (p : parser A) (q : parser B) :
  Ret HA p -> Fwd0 p -> Ret HA (p_terminated p q).
Proof.
  intros Hp Fp. unfold p_terminated. apply Ret_map with (HA := ok_pair HA triv).
  - apply Ret_pair; [exact Hp | exact Fp | apply Ret_triv].
  - intros a [H _]. exact H.
Qed.

Lemma Ret_many0 {A} (H : Ok A) fuel (p : parser A) : Ret H p -> Fwd0 p -> Ret (ok_list H) (p_many0 fuel p).
Proof.
  intros Hp Fp. induction fuel as [|f IH]; intros s s' l G E; cbn [p_many0] in E; [discriminate|].
  destruct (p s) as [s1 a|e|] eqn:E1; [| injection E as <- <-; constructor | discriminate].
  destruct (Nat.eqb (pos s1) (pos s)); [discriminate|].
  apply bind_ok in E as (s2 & l2 & E2 & [= <- <-]). constructor.
  - eapply Hp; eassumption.
  - eapply IH; [|exact E2]. eapply Good_ok; eassumption.
Qed.

Lemma Good_set_ebuf s b : Good s -> Good (set_ebuf s b).
Proof. intros G. exact G. Qed.

Lemma Ret_info {A} (H : Ok A) (p : parser A) : Ret H p -> Ret (ok_pair H ok_info) (p_info p).
Proof.
  intros Hp s s' ai G E. apply p_info_ok in E as (s1 & E & _ & _). split; [|exact I].
  eapply Hp; [|exact E]. exact G.
Qed.

Lemma Ret_expect {A} (H : Ok A) (p : parser A) m : Ret H p -> Ret (ok_opt H) (p_expect p m).
Proof.
  intros Hp s s' o G E. apply p_expect_ok in E as [(a & E & ->)|(e & _ & _ & ->)]; [|exact I].
  eapply Hp; eassumption.
Qed.

Lemma Ret_ref {A} (H : Ok A) (p : parser A) : Ret H p -> Ret (ok_ref H) (p_ref p).
Proof.
  intros Hp s s' ao G E. apply p_ref_ok in E as (s1 & E & _ & _).
  eapply Hp; [|exact E]. destruct G as [G1 G2]. split; cbn [pos refp set_refp]; [exact G1 | lia].
Qed.

Lemma Ret_confusable {A} (H : Ok A) (p : parser A) m : Ret H p -> Ret H (p_confusable p m).
Proof.
  intros Hp s s' a G E. unfold p_confusable in E. apply bind_ok in E as (s1 & ai & E & [= _ <-]).
  exact (proj1 (Ret_info H p Hp _ _ _ G E)).
Qed.

Lemma Ret_bind {A B} (HA : Ok A) (HB : Ok B) (p : parser A) (k : st -> A -> pres B) :
  Ret HA p -> Fwd0 p -> (forall a, HA a -> Ret HB (fun s => k s a)) -> Ret HB (fun s => bind (p s) k).
Proof.
  intros Hp Fp Hk s s' b G E. apply bind_ok in E as (s1 & a & E1 & E2).
  eapply (Hk a); [eapply Hp; eassumption | | exact E2]. eapply Good_ok; eassumption.
Qed.

Lemma Ret_ext {A} (H : Ok A) (p q : parser A) : (forall s, p s = q s) -> Ret H p -> Ret H q.
Proof. intros E Hp s s' a G Hq. rewrite <- E in Hq. eapply Hp; eassumption. Qed.

(* the heart of R1: p_ident consumes one token after the position where its info starts *)
Lemma Ret_ident : Ret ok_ident (p_ident toks).
Proof.
  intros s s' i [G1 G2] E. unfold p_ident in E. apply p_map_ok in E as ([t inf] & E & ->).
  apply p_info_ok in E as (s1 & E & _ & Hinf). cbn [fst snd] in *.
  apply p_tag_ok in E as (_ & _ & ->). subst inf.
  unfold ok_ident, IdOk. cbn [id_info i_s i_e pos adv set_ebuf refp].
  pose proof (sig_at_ge toks (pos s)). lia.
Qed.

Lemma Ret_ret {A} (H : Ok A) (f : st -> A) : (forall s, H (f s)) -> Ret H (fun s => POk s (f s)).
Proof. intros Ha s s' b _ [= _ <-]. apply Ha. Qed.

Lemma TagOk0 f : TagOk sync_none f.
Proof. intros k _. reflexivity. Qed.

Lemma Fwd0_tag f : Fwd0 (p_tag toks f).
Proof. apply Fwd_tag; [apply Hc, Hs0 | apply TagOk0]. Qed.

(* the shape `match p_tag f s with POk s1 t => k s1 t | PErr _ => POk s d | PFuel => PFuel end` *)
Lemma Ret_tag_loop {A} (H : Ok A) f (k : st -> token -> pres A) (d : A) :
  H d -> (forall t, Ret H (fun s => k s t)) ->
  Ret H (fun s => match p_tag toks f s with POk s1 op => k s1 op | PErr _ => POk s d | PFuel => PFuel end).
Proof.
  intros Hd Hk s s' a G E. destruct (p_tag toks f s) as [s1 t|e|] eqn:E1; [| |discriminate].
  - eapply (Hk t); [|exact E]. eapply Good_ok; [apply Fwd0_tag | exact G | exact E1].
  - injection E as _ <-. exact Hd.
Qed.

End Ret.

(* ------------------------------------------------------------------------------------------ *)
(* tactics *)
Ltac ret_step :=
  first
  [ assumption
  | apply Ret_fuel
  | apply Ret_ident
  | apply Ret_triv
  | apply Ret_restore
  | apply Ret_alt
  | apply Ret_opt
  | apply Ret_pair; [ | solve [fwd_solve Hs0] | ]
  | apply Ret_preceded; [ solve [fwd_solve Hs0] | ]
  | apply Ret_terminated; [ | solve [fwd_solve Hs0] ]
  | apply Ret_many0; [ | solve [fwd_solve Hs0] ]
  | apply Ret_info | apply Ret_expect | apply Ret_ref | apply Ret_confusable ].

Ltac ok_destruct := repeat match goal with x : _ * _ |- _ => destruct x end.
Ltac ok_opts :=
  repeat match goal with
         | |- context [match ?o with Some _ => _ | None => _ end] => is_var o; destruct o
         end.
Ltac ok_unf := unfold TypedeclOk, ProcdeclOk, GdeclOk, VardeclOk, ParamdeclOk, OptP, RefP in *.
Ltac ok_side :=
  solve [ intros; unfold_ok; ok_unf; ok_destruct; cbn in *; ok_unf; ok_opts; ok_destruct; cbn in *; ok_unf;
          intuition ].
Ltac ret := repeat first [ ret_step | eapply Ret_map; [ | ok_side ] ].

(* ------------------------------------------------------------------------------------------ *)
Section NonTerminals.
Variable toks : list token.
Notation Fwd0 := (Fwd toks sync_none).
Notation RetT := (Ret toks).

Lemma Ret_rhs p lhs op : RetT ok_expr p -> Fwd0 p -> ExprOk lhs -> RetT ok_expr (p_rhs p lhs op).
Proof.
  intros Hp Fp Hl. unfold p_rhs. eapply Ret_bind; [ret | fwd_solve Hs0 |].
  intros rhs Hr. apply Ret_ret. intros s. destruct rhs as [e|]; cbn; auto.
Qed.

Lemma VarOk_fold accesses : forall v0 vinfo,
  VarOk v0 ->
  Forall (fun a : (option (expr * nat) * option token) * info => OptP (RefP ExprOk) (fst (fst a))) accesses ->
  VarOk (fold_left (fun v a => ArrAccess v (fst (fst a)) (extend_range (snd a) vinfo)) accesses v0).
Proof.
  induction accesses as [|a r IH]; intros v0 vinfo Hv Ha; cbn [fold_left]; [exact Hv|].
  inversion Ha as [|? ? H1 H2]; subst. apply IH; [|exact H2].
  cbn [VarOk]. split; [exact Hv | apply ExprOk_optref, H1].
Qed.

Lemma Ret_expr_all f :
  RetT ok_variable (p_variable toks f) /\ RetT ok_expr (p_primary toks f) /\ RetT ok_expr (p_factor toks f) /\
  (forall e, ExprOk e -> RetT ok_expr (fun s => mul_loop toks f s e)) /\ RetT ok_expr (p_mul toks f) /\
  (forall e, ExprOk e -> RetT ok_expr (fun s => add_loop toks f s e)) /\ RetT ok_expr (p_add toks f) /\
  RetT ok_expr (p_comparison toks f).
Proof.
  induction f as [|f (IHvar & IHpri & IHfac & IHml & IHmul & IHal & IHadd & IHcmp)].
  - repeat split; try intros e He; apply Ret_fuel.
  - pose proof (Fwd_expr_all toks sync_none Hs0 f) as (F1 & F2 & F3 & F4 & F5 & F6 & F7 & F8).
    repeat split.
    + rewrite p_variable_S. eapply Ret_bind; [ret | fwd_solve Hs0 |].
      intros [[v0 vinfo] acc] [[Hv _] Hacc]. apply Ret_ret. intros _. apply VarOk_fold; [exact Hv|].
      eapply Forall_impl; [|exact Hacc]. intros a [[Ha _] _]. exact Ha.
    + rewrite p_primary_S. apply Ret_alt; [eapply Ret_map; [ret | ok_side]|].
      apply Ret_alt; [eapply Ret_map; [ret | ok_side]|].
      eapply Ret_bind; [ret | fwd_solve Hs0 |].
      intros [[[x lp] [e y]] inf] Hr. apply Ret_ret. intros _. revert Hr. ok_side.
    + rewrite p_factor_S. apply Ret_alt; [exact IHpri|]. eapply Ret_map; [ret | ok_side].
    + intros e He.
      apply Ret_ext with (p := fun s => match p_tag toks is_mulop s with
         | POk s1 op => bind (p_rhs (p_factor toks f) e (op_of (tk op)) s1) (fun s2 e' => mul_loop toks f s2 e')
         | PErr _ => POk s e | PFuel => PFuel end); [intros s; now rewrite mul_loop_S|].
      apply Ret_tag_loop; [exact He|]. intros t.
      apply (Ret_bind toks ok_expr ok_expr (p_rhs (p_factor toks f) e (op_of (tk t)))).
      * now apply Ret_rhs.
      * now apply Fwd_rhs.
      * exact IHml.
    + rewrite p_mul_S. apply (Ret_bind toks ok_expr ok_expr (p_factor toks f)); [exact IHfac | exact F3 | exact IHml].
    + intros e He.
      apply Ret_ext with (p := fun s => match p_tag toks is_addop s with
         | POk s1 op => bind (p_rhs (p_mul toks f) e (op_of (tk op)) s1) (fun s2 e' => add_loop toks f s2 e')
         | PErr _ => POk s e | PFuel => PFuel end); [intros s; now rewrite add_loop_S|].
      apply Ret_tag_loop; [exact He|]. intros t.
      apply (Ret_bind toks ok_expr ok_expr (p_rhs (p_mul toks f) e (op_of (tk t)))).
      * now apply Ret_rhs.
      * now apply Fwd_rhs.
      * exact IHal.
    + rewrite p_add_S. apply (Ret_bind toks ok_expr ok_expr (p_mul toks f)); [exact IHmul | exact F5 | exact IHal].
    + rewrite p_comparison_S. apply (Ret_bind toks ok_expr ok_expr (p_add toks f)); [exact IHadd | exact F7 |].
      intros e He. apply Ret_tag_loop; [exact He|]. intros t. now apply Ret_rhs.
Qed.

Lemma Ret_variable f : RetT ok_variable (p_variable toks f). Proof. apply Ret_expr_all. Qed.
Lemma Ret_comparison f : RetT ok_expr (p_comparison toks f). Proof. apply Ret_expr_all. Qed.
Lemma Ret_expr f : RetT ok_expr (p_expr toks f). Proof. apply Ret_comparison. Qed.

Lemma Ret_texpr f : RetT ok_texpr (p_texpr toks f).
Proof.
  induction f as [|f IH]; [apply Ret_fuel|]. rewrite p_texpr_S. apply Ret_alt.
  - eapply Ret_map; [ret | ok_side].
  - eapply Ret_map; [ret | ok_side].
Qed.

Lemma Ret_list {A} (H : Ok A) fuel (p : parser A) :
  RetT H p -> Fwd0 p -> RetT (ok_list (ok_ref H)) (p_list toks fuel p).
Proof.
  intros Hp Fp. unfold p_list. eapply Ret_bind; [ret | fwd_solve Hs0 |].
  intros head Hh.
  eapply (Ret_bind toks _ _ (p_many0 fuel
     (p_map (fun r => (fst (fst r), snd r + snd (fst r)))
        (p_ref (p_preceded (p_tag toks (is_k Comma)) (p_ref p)))))).
  - apply Ret_many0; [|fwd_solve Hs0]. eapply Ret_map; [ret|]. intros a Ha. exact Ha.
  - fwd_solve Hs0.
  - intros tail Ht. apply Ret_ret. intros _. constructor; assumption.
Qed.

Lemma Ret_argument f : RetT ok_expr (p_argument toks f).
Proof.
  pose proof (Ret_expr f). unfold p_argument. apply Ret_alt; [ret|].
  eapply Ret_map; [ret | ok_side].
Qed.

Lemma Ret_call f : RetT ok_stmt (p_call toks f).
Proof.
  pose proof (Ret_list _ f _ (Ret_argument f) (Fwd_argument toks sync_none Hs0 f)).
  unfold p_call. eapply Ret_map; [ret | ok_side].
Qed.

Lemma Ret_assign f : RetT ok_stmt (p_assign toks f).
Proof.
  pose proof (Ret_variable f). pose proof (Ret_expr f).
  unfold p_assign. eapply Ret_map; [ret | ok_side].
Qed.

Lemma Ret_stmt f : RetT ok_stmt (p_stmt toks f).
Proof.
  induction f as [|f IH]; [apply Ret_fuel|]. rewrite p_stmt_S.
  pose proof (Ret_expr f). pose proof (Ret_call f). pose proof (Ret_assign f).
  apply Ret_alt; [eapply Ret_map; [ret | ok_side]|].
  apply Ret_alt; [eapply Ret_map; [ret | ok_side]|].
  apply Ret_alt; [eapply Ret_map; [ret | ok_side]|].
  apply Ret_alt.
  { eapply Ret_map; [ret|]. intros [[body t] inf] [[Hb _] _]. apply StmtOk_block. exact Hb. }
  apply Ret_alt; [assumption|]. apply Ret_alt; [assumption|]. apply Ret_restore.
  eapply Ret_map; [ret | ok_side].
Qed.

Lemma Ret_vardecl f : RetT ok_vardecl (p_vardecl toks f).
Proof.
  pose proof (Ret_texpr f). unfold p_vardecl. apply Ret_alt; (eapply Ret_map; [ret | ok_side]).
Qed.

Lemma Ret_paramdecl f : RetT ok_paramdecl (p_paramdecl toks f).
Proof.
  pose proof (Ret_texpr f). unfold p_paramdecl. apply Ret_alt.
  - eapply Ret_map; [ret | ok_side].
  - eapply Ret_map; [ret | ok_side].
Qed.

Lemma Ret_typedecl f : RetT ok_typedecl (p_typedecl toks f).
Proof.
  pose proof (Ret_texpr f). unfold p_typedecl. eapply Ret_map; [ret | ok_side].
Qed.

Lemma Ret_procdecl f : RetT ok_procdecl (p_procdecl toks f).
Proof.
  pose proof (Ret_list _ f _ (Ret_paramdecl f) (Fwd_paramdecl toks sync_none Hs0 f)).
  pose proof (Ret_vardecl f). pose proof (Ret_stmt f).
  unfold p_procdecl. eapply Ret_map; [ret | ok_side].
Qed.

Lemma Ret_gdecl f : RetT ok_gdecl (p_gdecl toks f).
Proof.
  pose proof (Ret_typedecl f). pose proof (Ret_procdecl f). unfold p_gdecl.
  apply Ret_alt; [eapply Ret_map; [ret | ok_side]|].
  apply Ret_alt; [eapply Ret_map; [ret | ok_side]|].
  eapply Ret_map; [ret | ok_side].
Qed.

Lemma Ret_program f : RetT IdentsNonEmpty (p_program toks f).
Proof.
  pose proof (Ret_gdecl f). pose proof (Fwd0_gdecl toks f). unfold p_program. eapply Ret_map; [ret|].
  intros [[ds inf] u] [[Hd _] _]. exact Hd.
Qed.

End NonTerminals.

(* R1 for the parser: every tree `parse` returns - for ANY token list - has only non-empty
   identifier ranges *)
Theorem parse_idents_nonempty toks prog : parse toks = Done prog -> IdentsNonEmpty prog.
Proof.
  unfold parse.
  destruct (p_program toks (parse_fuel toks) {| pos := 0; refp := 0; ebuf := [] |}) as [s p|e|] eqn:E;
    [|discriminate|discriminate].
  intros [= <-]. eapply Ret_program; [|exact E]. split; cbn [pos refp]; lia.
Qed.
