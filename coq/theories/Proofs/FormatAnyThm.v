(* C09 / C11 for comments ANYWHERE, part 4.  [kept p] (FormatAnyKept.v)
     - has its comments in leading positions only ([lead_only], Proofs/FormatStructProg.v) and is valid when p is,
     - has the dangling-else shape of p,
     - is printed to the same text as p ([pp_kept]);
   hence every theorem about programs with leading comments only carries over to ALL valid programs:
     [tokens_any] / [document_any]        the formatted text lexes, without lexical error, to the same non-comment kinds
                                          and values, in the same order - wherever the comments of the program stand;
     [total_any]                          the printer does not panic;
     [idempotent_any] / [idempotent_document_any]   formatting the formatted text answers null. *)
From Coq Require Import String Lia PeanoNat.
From Spl Require Import Model.Format Model.Lexer Spec.Grammar Proofs.LexerProofs Proofs.RenderProofs Proofs.PipelineText
  Proofs.FormatProofs Proofs.FormatStructText Proofs.FormatStructTok Proofs.FormatStructExpr Proofs.FormatStructStmt
  Proofs.FormatStructProg Proofs.FormatStructIdem Proofs.FormatAnyPP Proofs.FormatAnyProg Proofs.FormatAnyKept.
From Spl Require Proofs.GrammarStmt Proofs.GrammarProg.
Import ListNotations.
Local Open Scope nat_scope.

(* ================================================================================================
   1. [kept p] has its comments in leading positions only
   ================================================================================================ *)
Theorem lo_stmt_kept :
  (forall s, forallb valid_kind (fl_stmt s) = true -> lo_stmt (k_stmt s) = true /\ lo_branch (k_branch s) = true) /\
  (forall b, forallb valid_kind (fl_stmts b) = true -> lo_stmts (k_stmts b) = true).
Proof.
  apply GrammarStmt.astmt_mutind.
  - intros c _. split; reflexivity.
  - intros v c1 e c2 Hv. cbn [fl_stmt] in Hv. valid_split.
    assert (G : lo_stmt (k_stmt (SAsg v c1 e c2)) = true).
    { cbn [k_stmt lo_stmt]. rewrite var_code_set, var_code_s, fl_s_cmp, cm_nil. cbn [app]. nice_tac. }
    split; exact G.
  - intros c1 fn c2 a c3 c4 Hv. cbn [fl_stmt] in Hv. valid_split.
    assert (G : lo_stmt (k_stmt (SCal c1 fn c2 a c3 c4)) = true).
    { cbn [k_stmt lo_stmt]. rewrite (fl_s_sep fl_cmp s_cmp a fl_s_cmp), cm_nil. cbn [app]. nice_tac. }
    split; exact G.
  - intros c1 c2 e c3 t IHt Hv. cbn [fl_stmt] in Hv. valid_split. destruct (IHt ltac:(assumption)) as [_ Lt].
    assert (G : lo_stmt (k_stmt (SIfT c1 c2 e c3 t)) = true).
    { rewrite k_ift, lo_ift, Lt, andb_true_r, fl_s_cmp, cm_nil. cbn [app]. nice_tac. }
    split; exact G.
  - intros c1 c2 e c3 t IHt c4 s' IHs Hv. cbn [fl_stmt] in Hv. valid_split.
    destruct (IHt ltac:(assumption)) as [_ Lt]. destruct (IHs ltac:(assumption)) as [_ Ls].
    assert (G : lo_stmt (k_stmt (SIfE c1 c2 e c3 t c4 s')) = true).
    { rewrite k_ife, lo_ife, Lt, Ls. cbn [is_nil]. rewrite !andb_true_r, fl_s_cmp, cm_nil. cbn [app]. nice_tac. }
    split; exact G.
  - intros c1 c2 e c3 t IHt Hv. cbn [fl_stmt] in Hv. valid_split. destruct (IHt ltac:(assumption)) as [_ Lt].
    assert (G : lo_stmt (k_stmt (SWhl c1 c2 e c3 t)) = true).
    { rewrite k_whl, lo_whl, Lt, andb_true_r, fl_s_cmp, cm_nil. cbn [app]. nice_tac. }
    split; exact G.
  - intros c1 b IHb c2 Hv. cbn [fl_stmt] in Hv. valid_split. pose proof (IHb ltac:(assumption)) as Lb. split.
    + rewrite k_blk. cbn [lo_stmt is_nil]. rewrite Lb. reflexivity.
    + cbn [k_branch]. unfold lo_branch. cbn [is_nil andb]. exact Lb.
  - intros _. reflexivity.
  - intros s IHs r IHr Hv. cbn [fl_stmts] in Hv. valid_split. cbn [k_stmts lo_stmts].
    rewrite (proj1 (IHs ltac:(assumption))), (IHr ltac:(assumption)). reflexivity.
Qed.

Lemma lo_vardecl_kept v : forallb valid_kind (fl_vardecl v) = true -> lo_vardecl (k_vardecl v) = true.
Proof.
  intros Hv. unfold fl_vardecl in Hv. valid_split. unfold lo_vardecl, k_vardecl. cbn [v_c2 v_x v_c3 v_t v_c4].
  rewrite fl_s_type, !cm_nil. cbn [app]. nice_tac.
Qed.

Lemma lo_param_kept p : forallb valid_kind (fl_param p) = true -> lo_param (k_param p) = true.
Proof.
  intros Hv. destruct p as [c x cc t|cr c x cc t]; cbn [fl_param] in Hv; valid_split; cbn [k_param lo_param];
    rewrite fl_s_type, ?cm_nil; cbn [app]; nice_tac.
Qed.

Lemma lo_params_kept ps : forallb valid_kind (fl_sep fl_param ps) = true -> lo_params (s_sep k_param ps) = true.
Proof.
  destruct ps as [[p l]|]; [|reflexivity]. cbn [fl_sep s_sep lo_params]. intros Hv. apply valid_app in Hv. destruct Hv as [Hp Hl].
  rewrite (lo_param_kept p Hp). cbn [andb]. induction l as [|[c q] r IH]; [reflexivity|].
  rewrite fl_tail_cons in Hl. valid_split. unfold s_tail in *. cbn [map forallb fst snd is_nil andb].
  rewrite (lo_param_kept q) by assumption. apply IH. assumption.
Qed.

Lemma lo_decl_kept d : forallb valid_kind (fl_decl d) = true -> lo_decl (k_decl d) = true.
Proof.
  destruct d as [c1 c2 x c3 t c4|c1 c2 x c3 ps c4 c5 vs b c6]; cbn [fl_decl]; intros Hv; valid_split; cbn [k_decl lo_decl].
  - rewrite fl_s_type, !cm_nil. cbn [app]. nice_tac.
  - rewrite (lo_params_kept ps) by assumption. rewrite (proj2 lo_stmt_kept b) by assumption. cbn [is_nil]. rewrite !andb_true_r.
    apply andb_true_iff. split; [rewrite !cm_nil; cbn [app]; nice_tac|].
    match goal with V : forallb valid_kind (flat_map fl_vardecl vs) = true |- _ => revert V end. clear.
    induction vs as [|v r IH]; [reflexivity|]. cbn [flat_map map forallb]. intros H. apply valid_app in H. destruct H as [Hv Hr].
    rewrite (lo_vardecl_kept v Hv). apply IH. exact Hr.
Qed.

Theorem kept_lead_only p : aprog_valid p = true -> lead_only (kept p) = true.
Proof.
  unfold aprog_valid, flatten, lead_only, kept. cbn [a_decls a_ceof is_nil]. rewrite andb_true_r. intros Hv.
  apply valid_app in Hv. destruct Hv as [Hv _].
  induction (a_decls p) as [|d r IH]; [reflexivity|]. cbn [flat_map map forallb] in *. apply valid_app in Hv. destruct Hv as [Hd Hr].
  rewrite (lo_decl_kept d Hd). apply IH. exact Hr.
Qed.

Theorem kept_valid p : aprog_valid p = true -> aprog_valid (kept p) = true.
Proof. unfold aprog_valid. apply sub_valid. apply sub_kept. Qed.

Theorem kept_code p : code (flatten (kept p)) = code (flatten p).
Proof. exact (proj1 (sub_kept p)). Qed.

(* every comment of [kept p] is a comment of p *)
Theorem kept_subseq p : subseq (cmts (flatten (kept p))) (cmts (flatten p)).
Proof. exact (proj2 (sub_kept p)). Qed.

Theorem kept_comments p : incl (cmts (flatten (kept p))) (cmts (flatten p)).
Proof. apply subseq_incl, kept_subseq. Qed.

(* ================================================================================================
   2. ... and the dangling-else shape of p
   ================================================================================================ *)
Lemma open_if_k s : open_if (k_stmt s) = open_if s /\ open_if (k_branch s) = open_if s.
Proof.
  induction s as [c|v c1 e c2|c1 fn c2 a c3 c4|c1 c2 e c3 t IHt|c1 c2 e c3 t IHt c4 s' IHs|c1 c2 e c3 b IHb|c1 b c2];
    try (split; reflexivity).
  - assert (G : open_if (k_stmt (SIfE c1 c2 e c3 t c4 s')) = open_if (SIfE c1 c2 e c3 t c4 s')) by (rewrite k_ife; exact (proj2 IHs)).
    split; exact G.
  - assert (G : open_if (k_stmt (SWhl c1 c2 e c3 b)) = open_if (SWhl c1 c2 e c3 b)) by (rewrite k_whl; exact (proj2 IHb)).
    split; exact G.
Qed.

Lemma else_ok_k :
  (forall s, else_ok (k_stmt s) = else_ok s /\ else_ok (k_branch s) = else_ok s) /\ (forall b, else_oks (k_stmts b) = else_oks b).
Proof.
  apply GrammarStmt.astmt_mutind; try (intros; split; reflexivity).
  - intros c1 c2 e c3 t [_ IHt].
    assert (G : else_ok (k_stmt (SIfT c1 c2 e c3 t)) = else_ok (SIfT c1 c2 e c3 t)) by (rewrite k_ift; exact IHt).
    split; exact G.
  - intros c1 c2 e c3 t [_ IHt] c4 s' [_ IHs].
    assert (G : else_ok (k_stmt (SIfE c1 c2 e c3 t c4 s')) = else_ok (SIfE c1 c2 e c3 t c4 s')).
    { rewrite k_ife. cbn [else_ok]. rewrite (proj2 (open_if_k t)), IHt, IHs. reflexivity. }
    split; exact G.
  - intros c1 c2 e c3 b [_ IHb].
    assert (G : else_ok (k_stmt (SWhl c1 c2 e c3 b)) = else_ok (SWhl c1 c2 e c3 b)) by (rewrite k_whl; exact IHb).
    split; exact G.
  - intros c1 b IHb c2. split; [rewrite k_blk | cbn [k_branch]]; exact IHb.
  - intros s [IHs _] r IHr. cbn [k_stmts else_oks]. rewrite IHs, IHr. reflexivity.
Qed.

Theorem kept_prog_ok p : prog_ok (kept p) = prog_ok p.
Proof.
  unfold prog_ok, kept. cbn [a_decls]. induction (a_decls p) as [|d r IH]; [reflexivity|]. cbn [map forallb]. rewrite IH. f_equal.
  destruct d; cbn [k_decl decl_ok]; [reflexivity | apply else_ok_k].
Qed.

(* ================================================================================================
   3. p and [kept p] are printed to the same text
   ================================================================================================ *)
Section Same.
Variable f : fopts.

Lemma pp_asg_ext v c1 e c2 v' c1' e' c2' :
  cmts (fl_stmt (SAsg v' c1' e' c2')) = cmts (fl_stmt (SAsg v c1 e c2)) -> pp_var v' = pp_var v -> pp_cmp e' = pp_cmp e ->
  pp_stmt f (SAsg v' c1' e' c2') = pp_stmt f (SAsg v c1 e c2).
Proof.
  intros H1 H2 H3.
  change (lead_text (cmts (fl_stmt (SAsg v' c1' e' c2'))) ++ pp_var v' ++ [32%N] ++ sh Assign ++ [32%N] ++ pp_cmp e' ++ sh Semic ++ [10%N]
          = lead_text (cmts (fl_stmt (SAsg v c1 e c2))) ++ pp_var v ++ [32%N] ++ sh Assign ++ [32%N] ++ pp_cmp e ++ sh Semic ++ [10%N]).
  rewrite H1, H2, H3. reflexivity.
Qed.

Lemma pp_cal_ext c1 fn c2 a c3 c4 c1' c2' a' c3' c4' :
  cmts (fl_stmt (SCal c1' fn c2' a' c3' c4')) = cmts (fl_stmt (SCal c1 fn c2 a c3 c4)) ->
  map pp_cmp (sep_list a') = map pp_cmp (sep_list a) ->
  pp_stmt f (SCal c1' fn c2' a' c3' c4') = pp_stmt f (SCal c1 fn c2 a c3 c4).
Proof.
  intros H1 H2.
  change (lead_text (cmts (fl_stmt (SCal c1' fn c2' a' c3' c4'))) ++ fn ++ sh LParen ++ join (sh Comma ++ [32%N]) (map pp_cmp (sep_list a'))
          ++ sh RParen ++ sh Semic ++ [10%N]
          = lead_text (cmts (fl_stmt (SCal c1 fn c2 a c3 c4))) ++ fn ++ sh LParen ++ join (sh Comma ++ [32%N]) (map pp_cmp (sep_list a))
            ++ sh RParen ++ sh Semic ++ [10%N]).
  rewrite H1, H2. reflexivity.
Qed.

Lemma is_ablk_k s : is_ablk (k_stmt s) = is_ablk s.
Proof. destruct s; reflexivity. Qed.
Lemma is_aif_kb s : is_aif (k_branch s) = is_aif s.
Proof. destruct s; reflexivity. Qed.
Lemma aif_not_blk s : is_aif s = true -> is_ablk s = false.
Proof. destruct s; try discriminate; reflexivity. Qed.

Lemma branch_from_stmt s :
  is_ablk s = false -> pp_stmt f (k_stmt s) = pp_stmt f s -> forall e, pp_branch f (k_branch s) e = pp_branch f s e.
Proof.
  intros Hb G e. rewrite (k_branch_plain s Hb), (pp_branch_plain f s e Hb), (pp_branch_plain f (k_stmt s) e), G; [reflexivity|].
  rewrite is_ablk_k. exact Hb.
Qed.

Lemma pp_stmts_cons s r : pp_stmts f (SCons s r) = pp_stmt f s ++ pp_stmts f r.
Proof. reflexivity. Qed.

Theorem pp_stmt_kept :
  (forall s, pp_stmt f (k_stmt s) = pp_stmt f s /\ (forall e, pp_branch f (k_branch s) e = pp_branch f s e)) /\
  (forall b, pp_stmts f (k_stmts b) = pp_stmts f b).
Proof.
  apply GrammarStmt.astmt_mutind.
  - intros c. split; [reflexivity | intros e; reflexivity].
  - intros v c1 e c2.
    assert (G : pp_stmt f (k_stmt (SAsg v c1 e c2)) = pp_stmt f (SAsg v c1 e c2)).
    { apply pp_asg_ext.
      - change (cmts (fl_stmt (k_stmt (SAsg v c1 e c2))) = cmts (fl_stmt (SAsg v c1 e c2))). rewrite fl_k_asg. apply cmts_hoisted.
      - rewrite pp_set_lead. apply pp_s_var.
      - apply pp_s_cmp. }
    split; [exact G | apply branch_from_stmt; [reflexivity | exact G]].
  - intros c1 fn c2 a c3 c4.
    assert (G : pp_stmt f (k_stmt (SCal c1 fn c2 a c3 c4)) = pp_stmt f (SCal c1 fn c2 a c3 c4)).
    { apply pp_cal_ext.
      - change (cmts (fl_stmt (k_stmt (SCal c1 fn c2 a c3 c4))) = cmts (fl_stmt (SCal c1 fn c2 a c3 c4))). rewrite fl_k_cal. apply cmts_hoisted.
      - rewrite sep_list_s, map_map. apply map_ext. exact pp_s_cmp. }
    split; [exact G | apply branch_from_stmt; [reflexivity | exact G]].
  - intros c1 c2 e c3 t [_ IHt].
    assert (G : pp_stmt f (k_stmt (SIfT c1 c2 e c3 t)) = pp_stmt f (SIfT c1 c2 e c3 t)) by (rewrite k_ift, !pp_ift, pp_s_cmp, IHt; reflexivity).
    split; [exact G | apply branch_from_stmt; [reflexivity | exact G]].
  - intros c1 c2 e c3 t [_ IHt] c4 s' [IHs IHsb].
    assert (G : pp_stmt f (k_stmt (SIfE c1 c2 e c3 t c4 s')) = pp_stmt f (SIfE c1 c2 e c3 t c4 s')).
    { rewrite k_ife, !pp_ife, pp_s_cmp, IHt, is_aif_kb. destruct (is_aif s') eqn:Ha.
      - rewrite (k_branch_plain s' (aif_not_blk s' Ha)), IHs. reflexivity.
      - rewrite IHsb. reflexivity. }
    split; [exact G | apply branch_from_stmt; [reflexivity | exact G]].
  - intros c1 c2 e c3 t [_ IHt].
    assert (G : pp_stmt f (k_stmt (SWhl c1 c2 e c3 t)) = pp_stmt f (SWhl c1 c2 e c3 t)) by (rewrite k_whl, !pp_whl, pp_s_cmp, IHt; reflexivity).
    split; [exact G | apply branch_from_stmt; [reflexivity | exact G]].
  - intros c1 b IHb c2. split.
    + rewrite k_blk, !pp_blk. destruct b as [|s r]; [reflexivity|].
      change (k_stmts (SCons s r)) with (SCons (k_stmt s) (k_stmts r)) in *. cbv iota. rewrite IHb. reflexivity.
    + intros e. cbn [k_branch]. unfold pp_branch. destruct b as [|s r]; [reflexivity|].
      change (k_stmts (SCons s r)) with (SCons (k_stmt s) (k_stmts r)) in *. cbv iota. rewrite IHb. reflexivity.
  - reflexivity.
  - intros s [IHs _] r IHr. cbn [k_stmts]. rewrite !pp_stmts_cons, IHs, IHr. reflexivity.
Qed.

Lemma pp_vardecl_kept v : pp_vardecl (k_vardecl v) = pp_vardecl v.
Proof.
  unfold pp_vardecl. rewrite fl_k_vardecl, cmts_hoisted. unfold k_vardecl. cbn [v_x v_t]. rewrite pp_s_type. reflexivity.
Qed.

Lemma pp_param_kept p : pp_param (k_param p) = pp_param p.
Proof.
  unfold pp_param. rewrite fl_k_param, cmts_hoisted. destruct p; cbn [k_param]; rewrite pp_s_type; reflexivity.
Qed.

Lemma pp_decl_kept d : pp_decl f (k_decl d) = pp_decl f d.
Proof.
  destruct d as [c1 c2 x c3 t c4|c1 c2 x c3 ps c4 c5 vs b c6]; cbn [k_decl pp_decl].
  - rewrite pp_s_type. reflexivity.
  - unfold pp_params. rewrite sep_list_s, map_map, (map_ext _ _ pp_param_kept), (proj2 pp_stmt_kept b).
    replace (flat_map pp_vardecl (map k_vardecl vs)) with (flat_map pp_vardecl vs); [reflexivity|].
    induction vs as [|v r IH]; [reflexivity|]. cbn [map flat_map]. rewrite pp_vardecl_kept, IH. reflexivity.
Qed.

Theorem pp_kept p : pp_prog f (kept p) = pp_prog f p.
Proof. unfold pp_prog, kept. cbn [a_decls]. rewrite map_map, (map_ext _ _ pp_decl_kept). reflexivity. Qed.

End Same.

(* ================================================================================================
   4. The theorems
   ================================================================================================ *)
Definition mk_tok (k : kind) : token := {| tk := k; ts := 0%N; te := 0%N; terr := [] |}.

Lemma mk_tok_kinds ks : map tk (map mk_tok ks) = ks.
Proof. rewrite map_map. apply map_id. Qed.

Lemma code_kinds_code toks : code_kinds toks = code (map tk toks).
Proof. unfold code_kinds, code. apply filter_ext. intros k. destruct k; reflexivity. Qed.

Lemma code_canon ks : code (map canon ks) = code ks.
Proof. induction ks as [|k ks IH]; [reflexivity|]. unfold code in *. cbn [map filter]. destruct k; cbn [canon is_comment negb]; rewrite IH; reflexivity. Qed.

(* the printer is total on the tree of every program (valid or not, comments anywhere) *)
Theorem total_any p toks f : map tk toks = flatten p ++ [Eof] -> exists txt, fmt_program f (expected p) toks = FOk txt.
Proof. intros Hk. exists (pp_prog f p). apply fmt_program_pp. exact Hk. Qed.

(* what is printed for p is what is printed for [kept p] *)
Theorem fmt_kept p toks toksk f :
  map tk toks = flatten p ++ [Eof] -> map tk toksk = flatten (kept p) ++ [Eof] ->
  fmt_program f (expected (kept p)) toksk = fmt_program f (expected p) toks.
Proof. intros H1 H2. rewrite (fmt_program_pp f p toks H1), (fmt_program_pp f (kept p) toksk H2), pp_kept. reflexivity. Qed.

(* the structure of the formatted text: the printed forms of the tokens of [kept p] - all non-comment tokens of p, in order,
   and those comments the printer keeps, as lines - woven with admissible whitespace *)
Theorem structure_any p toks f :
  unit_ok f -> aprog_valid p = true -> map tk toks = flatten p ++ [Eof] ->
  exists txt gaps,
    fmt_program f (expected p) toks = FOk txt /\
    txt = weave gaps (map show_kind (flatten (kept p))) /\
    gaps_ok (flatten (kept p)) gaps /\
    code (flatten (kept p)) = code (flatten p) /\ incl (cmts (flatten (kept p))) (cmts (flatten p)) /\
    Forall (fun g => forallb is_ws g = true) gaps.
Proof.
  intros Hf Hv Hk.
  destruct (structure_lead (kept p) (map mk_tok (flatten (kept p) ++ [Eof])) f Hf (kept_lead_only p Hv) (kept_valid p Hv) (mk_tok_kinds _))
    as (txt & gaps & E & Et & Hg & Hw & _).
  exists txt, gaps. rewrite <- (fmt_kept p toks _ f Hk (mk_tok_kinds _)).
  repeat split; try assumption; [apply kept_code | apply kept_comments].
Qed.

Theorem tokens_any p toks f txt :
  unit_ok f -> aprog_valid p = true -> map tk toks = flatten p ++ [Eof] ->
  fmt_program f (expected p) toks = FOk txt ->
  exists toks', lex txt = Some toks' /\ code_kinds toks' = code_kinds toks /\ Forall (fun t => terr t = []) toks'.
Proof.
  intros Hf Hv Hk Ht. rewrite <- (fmt_kept p toks _ f Hk (mk_tok_kinds _)) in Ht.
  destruct (tokens_lead (kept p) _ f txt Hf (kept_lead_only p Hv) (kept_valid p Hv) (mk_tok_kinds _) Ht) as (toks' & El & Ek & Ee).
  exists toks'. split; [exact El|]. split; [|exact Ee].
  rewrite !code_kinds_code, Ek, Hk, !code_app, code_canon, kept_code. reflexivity.
Qed.

Lemma mk_tok_bodies ks : comment_bodies (map mk_tok ks) = map trim (cmts ks).
Proof.
  unfold comment_bodies, cmts. induction ks as [|k ks IH]; [reflexivity|]. cbn [map flat_map]. rewrite map_app, IH.
  cbn [tk mk_tok]. destruct k; reflexivity.
Qed.

(* the comments of the formatted text: those of [kept p], trimmed *)
Theorem comments_any p toks f txt toks' :
  unit_ok f -> aprog_valid p = true -> map tk toks = flatten p ++ [Eof] ->
  fmt_program f (expected p) toks = FOk txt -> lex txt = Some toks' ->
  comment_bodies toks' = map trim (cmts (flatten (kept p))).
Proof.
  intros Hf Hv Hk Ht El. rewrite <- (fmt_kept p toks _ f Hk (mk_tok_kinds _)) in Ht.
  destruct (tokens_lead (kept p) _ f txt Hf (kept_lead_only p Hv) (kept_valid p Hv) (mk_tok_kinds _) Ht) as (toks2 & El2 & Ek & _).
  rewrite El in El2. injection El2 as <-.
  assert (Hc : map tk toks' = map canon (map tk (map mk_tok (flatten (kept p) ++ [Eof])))) by (rewrite mk_tok_kinds, map_app; exact Ek).
  rewrite (canon_bodies _ _ Hc), mk_tok_bodies, cmts_app. cbn [cmts flat_map]. rewrite app_nil_r. reflexivity.
Qed.

Theorem document_any p doc toks ins ts :
  prog_ok p = true -> aprog_valid p = true -> lex doc = Some toks -> map tk toks = flatten p ++ [Eof] ->
  exists txt toks',
    formatted_text doc ins ts = Done txt /\ lex txt = Some toks' /\
    code_kinds toks' = code_kinds toks /\ Forall (fun t => terr t = []) toks'.
Proof.
  intros Hok Hv El Hk.
  destruct (total_any p toks (options_of ins ts) Hk) as (txt & E).
  destruct (tokens_any p toks _ txt (options_unit_ok ins ts) Hv Hk E) as (toks' & El' & Ek & Ee).
  exists txt, toks'. split; [|split; [exact El' | split; [exact Ek | exact Ee]]].
  unfold formatted_text. rewrite El, (GrammarProg.roundtrip p toks Hok Hk), E. reflexivity.
Qed.

(* from a document, with the kinds of the formatted text: the canonical kinds of [kept p] *)
Theorem document_kept p doc toks ins ts :
  prog_ok p = true -> aprog_valid p = true -> lex doc = Some toks -> map tk toks = flatten p ++ [Eof] ->
  exists txt toks',
    formatted_text doc ins ts = Done txt /\ lex txt = Some toks' /\ map tk toks' = map canon (flatten (kept p)) ++ [Eof].
Proof.
  intros Hok Hv El Hk.
  destruct (total_any p toks (options_of ins ts) Hk) as (txt & E).
  pose proof E as Ht. rewrite <- (fmt_kept p toks _ _ Hk (mk_tok_kinds _)) in Ht.
  destruct (tokens_lead (kept p) _ _ txt (options_unit_ok ins ts) (kept_lead_only p Hv) (kept_valid p Hv) (mk_tok_kinds _) Ht)
    as (toks' & El' & Ek & _).
  exists txt, toks'. split; [|split; [exact El' | exact Ek]].
  unfold formatted_text. rewrite El, (GrammarProg.roundtrip p toks Hok Hk), E. reflexivity.
Qed.

(* C11: formatting the text printed for ANY valid program answers null *)
Theorem idempotent_any p toks ins ts txt :
  prog_ok p = true -> aprog_valid p = true -> map tk toks = flatten p ++ [Eof] ->
  fmt_program (options_of ins ts) (expected p) toks = FOk txt ->
  format_request txt ins ts = Done None.
Proof.
  intros Hok Hv Hk Ht. rewrite <- (fmt_kept p toks _ _ Hk (mk_tok_kinds _)) in Ht.
  apply (idempotent_lead (kept p) (map mk_tok (flatten (kept p) ++ [Eof])) ins ts txt); [rewrite kept_prog_ok; exact Hok | apply kept_lead_only; exact Hv | apply kept_valid; exact Hv
                                                 | apply mk_tok_kinds | exact Ht].
Qed.

Theorem idempotent_document_any p doc toks ins ts :
  prog_ok p = true -> aprog_valid p = true -> lex doc = Some toks -> map tk toks = flatten p ++ [Eof] ->
  exists out, formatted_text doc ins ts = Done out /\ format_request out ins ts = Done None.
Proof.
  intros Hok Hv El Hk. destruct (total_any p toks (options_of ins ts) Hk) as (txt & E). exists txt. split.
  - unfold formatted_text. rewrite El, (GrammarProg.roundtrip p toks Hok Hk), E. reflexivity.
  - exact (idempotent_any p toks ins ts txt Hok Hv Hk E).
Qed.

Print Assumptions tokens_any.
Print Assumptions document_any.
Print Assumptions structure_any.
Print Assumptions comments_any.
Print Assumptions idempotent_any.
Print Assumptions idempotent_document_any.
