(* The *_valid theorems of C14 (hover, signature help), C15 (semantic tokens), C16 (completion) and
   C17 (folding ranges) - stated for "a text that lexes to the tokens of a well-typed abstract
   program" - in the wording DOCUMENT WITHOUT DIAGNOSTICS, through the completeness of the front end
   (Proofs/CompleteFront.v [clean_doc_valid]: a document that AnalyzedSource::new builds, whose
   errors() is empty and none of whose tokens carries a lexical error, is the document of a layout
   of a well-typed abstract program; the lexical hypothesis is necessary because lexical errors are
   attached to tokens and never published as diagnostics).

     hover_full_statement_holds     HoverProofs.hover_full_statement   (its hypothesis [no_diagnostics]
     sighelp_full_statement_holds   HoverProofs.sighelp_full_statement  already asks for lexical cleanliness)
     semtok_valid_clean             SemTokValid.semtok_valid for every clean document
     clean_doc_layout               for a clean document EVERY derivation p of its token vector in the grammar
                                    satisfies the hypotheses of the *_valid theorems (the tree is the one p
                                    mandates, the table is one the static semantics accepts for it)
     propose_*_clean                the position theorems of C16 for clean documents, p any derivation of
                                    the token vector
     fold_clean, fold_syntax_clean  C17 for clean documents / for documents whose PARSE carries no
                                    diagnostic (semantic diagnostics allowed) *)
From Coq Require Import Arith Lia List Bool NArith.
From Spl Require Import Spec.Grammar Model.Parser Model.Errors Model.Lexer Proofs.LexerProofs
  Proofs.GrammarProofs Spec.Typing Proofs.CompleteBase Proofs.CompleteProg Proofs.CompleteFront.
From Spl Require Import Spec.Nav Model.Hover Model.SigHelp Model.Fold Proofs.HoverProofs Proofs.HoverValid.
From Spl Require Import Proofs.SigHelpValidSites Proofs.SigHelpValidModel Proofs.SigHelpValid Proofs.SigHelpValidActive.
From Spl Require Import Proofs.TypingProofs Model.SemTok Proofs.SemTokProofs Proofs.SemTokValid Proofs.SemTokNames.
From Spl Require Import Proofs.FoldProofs Proofs.FoldValid.
From Spl Require Import Model.Completion Proofs.CompletionProofs.
From Spl Require Import Proofs.ComplValidBase Proofs.ComplValidProc Proofs.ComplValidNest Proofs.ComplValid Proofs.ComplValidTop.
Import ListNotations.

(* ---- the two wordings of "no diagnostic" ---- *)
Lemma no_diagnostics_clean t d : new_doc_res t = ODone d -> no_diagnostics d -> clean_doc t d.
Proof.
  intros Hd [He Hf]. split; [exact Hd|]. split; [exact He|].
  apply forallb_forall. intros tok Hin. rewrite Forall_forall in Hf. now rewrite (Hf _ Hin).
Qed.

Lemma clean_no_diagnostics t d : clean_doc t d -> new_doc_res t = ODone d /\ no_diagnostics d.
Proof.
  intros (Hd & He & Hc). split; [exact Hd|]. split; [exact He|].
  apply Forall_forall. intros tok Hin. rewrite forallb_forall in Hc. specialize (Hc _ Hin).
  destruct (terr tok); [reflexivity | discriminate].
Qed.

(* ---- every derivation of the token vector of a clean document is a valid program ---- *)
Theorem clean_doc_layout t d p :
  clean_doc t d -> prog_ok p = true -> map tk (d_toks d) = flatten p ++ [Eof] ->
  well_typed (expected p) (d_table d) /\ lex t = Some (d_toks d) /\ new_doc_res t = ODone d /\ d_ast d = expected p.
Proof.
  intros Hcl Hok Hk. pose proof Hcl as (Hd & _).
  destruct (clean_doc_valid t d Hcl) as (p' & G & Hok' & Hwt & Hlex & Hk' & Hast & HG).
  pose proof (roundtrip p (d_toks d) Hok Hk) as H1. rewrite (roundtrip p' (d_toks d) Hok' Hk') in H1.
  assert (E : expected p' = expected p) by congruence. rewrite E in Hwt, Hast. subst G. auto.
Qed.
Print Assumptions clean_doc_layout.

(* ---------------------------------------------------------------------------------------- *)
(* C14                                                                                       *)

Theorem hover_full_statement_holds : hover_full_statement.
Proof.
  intros t d Hd Hnd owner k x sc Hin tok line col Hn H1 H2.
  destruct (clean_doc_valid t d (no_diagnostics_clean t d Hd Hnd)) as (p & G & Hok & Hwt & Hlex & Hk & Hast & HG).
  rewrite Hast in Hin.
  exact (hover_valid p G t (d_toks d) d Hok Hwt Hlex Hk Hd owner k x sc Hin tok line col Hn H1 H2).
Qed.
Print Assumptions hover_full_statement_holds.

Theorem sighelp_full_statement_holds : sighelp_full_statement.
Proof.
  intros t d Hd Hnd.
  destruct (clean_doc_valid t d (no_diagnostics_clean t d Hd Hnd)) as (p & G & Hok & Hwt & Hlex & Hk & Hast & HG).
  exact (sighelp_valid_full p G t (d_toks d) d Hok Hwt Hlex Hk Hd).
Qed.
Print Assumptions sighelp_full_statement_holds.

(* the same with [clean_doc] (the wording of C12_full / C13_full) *)
Corollary hover_clean : forall (t : text) (d : doc), clean_doc t d ->
  forall owner k x sc, In (owner, (k, x, sc)) (program_occs (d_ast d)) ->
  forall tok line col, nth_error (d_toks d) k = Some tok ->
    (ts tok <= get_insertion_index line col t)%N -> (get_insertion_index line col t < te tok)%N ->
    exists e, binding d owner sc x = Some e /\
      hover d line col = ROk (Some (hover_text e, (as_position (ts tok) t, as_position (te tok) t))).
Proof.
  intros t d Hcl. destruct (clean_no_diagnostics t d Hcl) as [Hd Hnd]. exact (hover_full_statement_holds t d Hd Hnd).
Qed.

(* signature help at the call sites of the grammar, for any derivation p of the token vector *)
Corollary sighelp_clean : forall (t : text) (d : doc) (p : aprog),
  clean_doc t d -> prog_ok p = true -> map tk (d_toks d) = flatten p ++ [Eof] ->
  forall owner k c, In (owner, (k, c)) (program_sites p) ->
  exists pe, lookup (d_table d) (k_f c) = Some (GProcE pe) /\ length (pe_params pe) = nargs (k_a c) /\
  (forall lp rp line col,
    nth_error (d_toks d) (k + lp_pos c) = Some lp -> nth_error (d_toks d) (k + rp_pos c) = Some rp ->
    (te lp <= get_insertion_index line col t)%N -> (get_insertion_index line col t <= ts rp)%N ->
    signature_help d line col
    = ROk (Some (sighelp_answer pe (firstn (length (fl_call c)) (skipn k (d_toks d))) (get_insertion_index line col t)))) /\
  (forall j qa qb a b line col,
    nth_error (call_seps c) j = Some qa -> nth_error (call_seps c) (S j) = Some qb ->
    nth_error (d_toks d) (k + qa) = Some a -> nth_error (d_toks d) (k + qb) = Some b ->
    (te a <= get_insertion_index line col t)%N -> (get_insertion_index line col t <= ts b)%N ->
    signature_help d line col
    = ROk (Some {| sh_label := Hover.show_pentry pe; sh_doc := sig_documentation (pe_doc pe);
                   sh_params := map Hover.show_ventry (pe_params pe);
                   sh_active := match pe_params pe with [] => None | _ :: _ => Some (N.of_nat j) end |})).
Proof.
  intros t d p Hcl Hok Hk owner k c Hin. destruct (clean_doc_layout t d p Hcl Hok Hk) as (Hwt & Hlex & Hd & _).
  destruct (sighelp_valid p _ t _ d Hok Hwt Hlex Hk Hd owner k c Hin) as [pe [H1 [H2 H3]]].
  destruct (sighelp_valid_arg p _ t _ d Hok Hwt Hlex Hk Hd owner k c Hin) as [pe' [H1' [_ H3']]].
  rewrite H1 in H1'. injection H1' as <-. exists pe.
  split; [exact H1|]. split; [exact H2|]. split; [exact H3 | exact H3'].
Qed.

Corollary sighelp_clean_none : forall (t : text) (d : doc) (p : aprog),
  clean_doc t d -> prog_ok p = true -> map tk (d_toks d) = flatten p ++ [Eof] ->
  forall line col,
  (forall owner k c first last, In (owner, (k, c)) (program_sites p) ->
     nth_error (d_toks d) k = Some first -> nth_error (d_toks d) (k + length (fl_call c) - 1) = Some last ->
     (get_insertion_index line col t < ts first)%N \/ (te last <= get_insertion_index line col t)%N) ->
  signature_help d line col = ROk None.
Proof.
  intros t d p Hcl Hok Hk. destruct (clean_doc_layout t d p Hcl Hok Hk) as (Hwt & Hlex & Hd & _).
  exact (sighelp_valid_none p _ t _ d Hok Hwt Hlex Hk Hd).
Qed.

(* ---------------------------------------------------------------------------------------- *)
(* C15: the binding half in the vocabulary of semtok_valid                                    *)

Theorem semtok_valid_clean : forall (t : text) (d : doc), clean_doc t d ->
  exists data, semantic_tokens d = SOk data /\
    forall owner k x sc dcl, In (owner, ((k, x, sc), dcl)) (program_roles (d_ast d)) ->
    forall tok, nth_error (d_toks d) k = Some tok ->
    exists e, binding d owner sc x = Some e /\
      let a := tok_view t (tok, (kind_of e, mod_of dcl)) in
      In a (decode data) /\ forall b, In b (decode data) -> at_pos b = at_pos a -> b = a.
Proof.
  intros t d Hcl. pose proof Hcl as (Hd & _).
  destruct (clean_doc_valid t d Hcl) as (p & G & Hok & Hwt & Hlex & Hk & Hast & HG). rewrite Hast.
  exact (semtok_valid p G t (d_toks d) d Hok Hwt Hlex Hk Hd).
Qed.
Print Assumptions semtok_valid_clean.

(* ---------------------------------------------------------------------------------------- *)
(* C17                                                                                       *)

(* a document whose PARSE carries no diagnostic (table construction and semantic analysis may report
   anything) and whose tokens carry no lexical error: the token vector is derivable, and the ranges are
   the procedure extents of every derivation *)
Theorem fold_syntax_clean : forall (t : text) (toks : list token) (p0 : program) (d : doc),
  lex t = Some toks -> parse toks = Done p0 -> tree_errors p0 = [] ->
  forallb (fun tok => match terr tok with [] => true | _ => false end) toks = true ->
  new_doc_res t = ODone d ->
  exists p, prog_ok p = true /\ map tk toks = flatten p ++ [Eof] /\ p0 = expected p /\
    exists rs, fold d = ROk rs /\ Forall2 (extent_rel t toks) (proc_spans 0 (a_decls p)) rs.
Proof.
  intros t toks p0 d Hlex Hp He Hc Hd.
  destruct (parse_complete toks (lex_lit t toks Hlex Hc) p0 Hp He) as (p & Hok & Hk & Hp0).
  exists p. repeat split; try assumption. exact (fold_valid p t toks d Hok Hlex Hk Hd).
Qed.
Print Assumptions fold_syntax_clean.

Corollary fold_clean : forall (t : text) (d : doc), clean_doc t d ->
  exists p, prog_ok p = true /\ map tk (d_toks d) = flatten p ++ [Eof] /\ d_ast d = expected p /\
    exists rs, fold d = ROk rs /\ Forall2 (extent_rel t (d_toks d)) (proc_spans 0 (a_decls p)) rs.
Proof.
  intros t d Hcl. pose proof Hcl as (Hd & _).
  destruct (clean_doc_valid t d Hcl) as (p & G & Hok & Hwt & Hlex & Hk & Hast & HG).
  exists p. repeat split; try assumption. exact (fold_valid p t (d_toks d) d Hok Hlex Hk Hd).
Qed.

(* ---------------------------------------------------------------------------------------- *)
(* C16: the position theorems for documents without diagnostics.  p is ANY derivation of the   *)
(* document's token vector in the grammar (one exists: [clean_doc_valid]); it only serves to   *)
(* describe the positions.                                                                    *)

Theorem propose_statement_position_clean : forall (t : text) (d : doc) (p : aprog),
  clean_doc t d -> prog_ok p = true -> map tk (d_toks d) = flatten p ++ [Eof] ->
  forall l1 c1 c2 x c3 ps c4 c5 vs1 vs2 b1 b2 c6 l2,
    a_decls p = l1 ++ DProc c1 c2 x c3 ps c4 c5 (vs1 ++ vs2) (sapp b1 b2) c6 :: l2 ->
    (vs2 = [] \/ b1 = SNil) ->
    let j := (length (flat_map fl_decl l1) + length (proc_head c1 c2 x c3 ps c4 c5)
              + length (flat_map fl_vardecl vs1) + length (fl_stmts b1))%nat in
    forall tprev tnext line col,
      nth_error (d_toks d) (j - 1) = Some tprev -> nth_error (d_toks d) j = Some tnext ->
      (te tprev < get_insertion_index line col t)%N -> (get_insertion_index line col t <= ts tnext)%N ->
      exists pe items,
        lookup (d_table d) x = Some (GProcE pe) /\
        map fst (pe_local pe) = aparams_names ps ++ map v_x (vs1 ++ vs2) /\
        propose d line col = ROk (Some items) /\
        items = (if has_real b1 then [] else [snip_var; item_var]) ++ new_stmt (Some (pe_local pe)) (d_table d) /\
        filter is_var items = search_variables (pe_local pe) /\
        filter is_fun items = search_procedures (d_table d) /\
        filter is_struct items = [].
Proof.
  intros t d p Hcl Hok Hk. destruct (clean_doc_layout t d p Hcl Hok Hk) as (Hwt & Hlex & Hd & _).
  exact (propose_statement_position p _ t _ d Hok Hwt Hlex Hk Hd).
Qed.

Theorem propose_nested_statement_position_clean : forall (t : text) (d : doc) (p : aprog),
  clean_doc t d -> prog_ok p = true -> map tk (d_toks d) = flatten p ++ [Eof] ->
  forall l1 c1 c2 x c3 ps c4 c5 vs b1 s b2 c6 l2 g,
    a_decls p = l1 ++ DProc c1 c2 x c3 ps c4 c5 vs (sapp b1 (SCons s b2)) c6 :: l2 ->
    sgap s g ->
    let j := (length (flat_map fl_decl l1) + length (proc_head c1 c2 x c3 ps c4 c5)
              + length (flat_map fl_vardecl vs) + length (fl_stmts b1) + g)%nat in
    forall tprev tnext line col,
      nth_error (d_toks d) (j - 1) = Some tprev -> nth_error (d_toks d) j = Some tnext ->
      (te tprev < get_insertion_index line col t)%N -> (get_insertion_index line col t <= ts tnext)%N ->
      exists pe pre items,
        lookup (d_table d) x = Some (GProcE pe) /\
        map fst (pe_local pe) = aparams_names ps ++ map v_x vs /\
        propose d line col = ROk (Some items) /\
        items = pre ++ new_stmt (Some (pe_local pe)) (d_table d) /\ else_or_not pre /\
        filter is_var items = search_variables (pe_local pe) /\
        filter is_fun items = search_procedures (d_table d) /\
        filter is_struct items = [].
Proof.
  intros t d p Hcl Hok Hk. destruct (clean_doc_layout t d p Hcl Hok Hk) as (Hwt & Hlex & Hd & _).
  exact (propose_nested_statement_position p _ t _ d Hok Hwt Hlex Hk Hd).
Qed.

Theorem propose_type_position_clean : forall (t : text) (d : doc) (p : aprog),
  clean_doc t d -> prog_ok p = true -> map tk (d_toks d) = flatten p ++ [Eof] ->
  forall l1 c1 c2 x c3 ps c4 c5 vs b c6 l2,
    a_decls p = l1 ++ DProc c1 c2 x c3 ps c4 c5 vs b c6 :: l2 ->
    let D := length (flat_map fl_decl l1) in
    forall k tprev tnext line col,
      (D <= k)%nat -> (S k < D + length (fl_decl (DProc c1 c2 x c3 ps c4 c5 vs b c6)))%nat ->
      nth_error (d_toks d) k = Some tprev -> tk tprev = Colon \/ tk tprev = KOf -> nth_error (d_toks d) (S k) = Some tnext ->
      (te tprev < get_insertion_index line col t)%N -> (get_insertion_index line col t <= ts tnext)%N ->
      propose d line col = ROk (Some (search_types (d_table d))).
Proof.
  intros t d p Hcl Hok Hk. destruct (clean_doc_layout t d p Hcl Hok Hk) as (Hwt & Hlex & Hd & _).
  exact (propose_type_position p _ t _ d Hok Hwt Hlex Hk Hd).
Qed.

Theorem propose_type_decl_position_clean : forall (t : text) (d : doc) (p : aprog),
  clean_doc t d -> prog_ok p = true -> map tk (d_toks d) = flatten p ++ [Eof] ->
  forall l1 c1 c2 x c3 ty c4 l2,
    a_decls p = l1 ++ DType c1 c2 x c3 ty c4 :: l2 ->
    let D := length (flat_map fl_decl l1) in
    forall k tprev tnext line col,
      (D <= k)%nat -> (S k < D + length (fl_decl (DType c1 c2 x c3 ty c4)))%nat ->
      nth_error (d_toks d) k = Some tprev -> nth_error (d_toks d) (S k) = Some tnext ->
      (te tprev < get_insertion_index line col t)%N -> (get_insertion_index line col t <= ts tnext)%N ->
      propose d line col =
        ROk (match tk tprev with
             | RBracket => Some [item_of]
             | EqT | KOf => Some ([snip_array; item_array] ++ search_types (d_table d))
             | _ => None
             end).
Proof.
  intros t d p Hcl Hok Hk. destruct (clean_doc_layout t d p Hcl Hok Hk) as (Hwt & Hlex & Hd & _).
  exact (propose_type_decl_position p _ t _ d Hok Hwt Hlex Hk Hd).
Qed.

Theorem propose_toplevel_position_clean : forall (t : text) (d : doc) (p : aprog),
  clean_doc t d -> prog_ok p = true -> map tk (d_toks d) = flatten p ++ [Eof] ->
  forall l1 l2, a_decls p = l1 ++ l2 ->
    let j := length (flat_map fl_decl l1) in
    forall tprev tnext line col,
      (1 <= j)%nat -> nth_error (d_toks d) (j - 1) = Some tprev -> nth_error (d_toks d) j = Some tnext ->
      (te tprev < get_insertion_index line col t)%N -> (get_insertion_index line col t <= ts tnext)%N ->
      propose d line col = ROk (Some [snip_proc; snip_type; item_proc; item_type]).
Proof.
  intros t d p Hcl Hok Hk. destruct (clean_doc_layout t d p Hcl Hok Hk) as (Hwt & Hlex & Hd & _).
  exact (propose_toplevel_position p _ t _ d Hok Hwt Hlex Hk Hd).
Qed.

(* here no derivation is needed to describe the position *)
Theorem propose_toplevel_start_clean : forall (t : text) (d : doc),
  clean_doc t d ->
  forall tnext line col,
    nth_error (d_toks d) 0 = Some tnext ->
    (0 < get_insertion_index line col t)%N -> (get_insertion_index line col t <= ts tnext)%N ->
    propose d line col = ROk (Some [snip_proc; snip_type; item_proc; item_type]).
Proof.
  intros t d Hcl. pose proof Hcl as (Hd & _).
  destruct (clean_doc_valid t d Hcl) as (p & G & Hok & Hwt & Hlex & Hk & Hast & HG).
  exact (propose_toplevel_start p G t _ d Hok Hwt Hlex Hk Hd).
Qed.

(* ---------------------------------------------------------------------------------------- *)
(* C15: the classification half in the vocabulary of SemTok.doc_occs (SemTokProofs            *)
(* [semtok_full_statement]): every identifier occurrence of the tree with the class its        *)
(* SYNTACTIC ROLE prescribes.  In a well-typed tree the role class is the class of the entity   *)
(* the occurrence is bound to, so the statement follows from [semtok_valid_clean].              *)

Local Notation hocc := HoverProofs.occ.

(* the role class c agrees with the binding B of occurrence o *)
Definition agree (B : occ_scope -> text -> option entry) (dcl : bool) (c : N * N) (o : hocc) : Prop :=
  forall e, B (HoverValid.o_scope o) (HoverValid.o_name o) = Some e -> c = (kind_of e, mod_of dcl).

(* every classified occurrence of M is an occurrence of R, and its class agrees with its binding *)
Definition bridged (B : occ_scope -> text -> option entry) (M : list SemTok.occ) (R : list rocc) : Prop :=
  forall j c, In (j, Some c) M ->
  exists o dcl, In (o, dcl) R /\ HoverValid.o_tok o = j /\ agree B dcl c o.

Lemma bridged_nil B R : bridged B [] R.
Proof. intros j c []. Qed.

Lemma bridged_app B M1 M2 R1 R2 : bridged B M1 R1 -> bridged B M2 R2 -> bridged B (M1 ++ M2) (R1 ++ R2).
Proof.
  intros H1 H2 j c Hin. apply in_app_or in Hin as [Hin|Hin].
  - destruct (H1 j c Hin) as (o & dcl & Ho & Hj & Ha). exists o, dcl. split; [apply in_or_app; now left | now split].
  - destruct (H2 j c Hin) as (o & dcl & Ho & Hj & Ha). exists o, dcl. split; [apply in_or_app; now right | now split].
Qed.

Lemma bridged_ident B base i c0 sc dcl :
  (forall c, c0 = Some c -> agree B dcl c (id_tok base i, id_val i, sc)) ->
  bridged B (ident_at base i c0) [((id_tok base i, id_val i, sc), dcl)].
Proof.
  intros H j c Hin. unfold ident_at in Hin. destruct (Nat.ltb _ _); [|contradiction].
  destruct Hin as [Heq|[]]. injection Heq as <- ->.
  eexists. eexists. split; [left; reflexivity|]. split; [reflexivity | now apply H].
Qed.

Lemma uses_app l1 l2 : uses (l1 ++ l2) = uses l1 ++ uses l2.
Proof. unfold uses. apply map_app. Qed.

Lemma stmt_occs_block l base body inf :
  stmt_occs l base (SBlock body inf) = flat_map (fun x => stmt_occs l (base + snd x) (fst x)) body.
Proof.
  induction body as [|[s n] body IH]; [reflexivity|].
  cbn [flat_map fst snd]. rewrite <- IH. reflexivity.
Qed.

Section Bridge.
Variable G : gtable.
Variable B : occ_scope -> text -> option entry.
Hypothesis HG : forall x, B ScGlobal x = option_map entry_of_g (lookup G x).

(* type expressions: the names denote types (of the table Gi the declaration sees, kept in G) *)
Lemma texpr_bridge L0 Gi cr te t :
  denotes L0 Gi cr te t -> (forall x v, lookup Gi x = Some v -> lookup G x = Some v) ->
  forall off, bridged B (texpr_occs off te) (uses (occs_texpr off te)).
Proof.
  intros Hden Hsub. induction Hden as [i te t Hb _ | il b o inf bt _ IH]; intros off.
  - cbn [texpr_occs occs_texpr uses map]. apply bridged_ident. intros c Hc e He.
    injection Hc as <-. unfold HoverValid.o_scope, HoverValid.o_name in He. cbn [fst snd] in He. rewrite HG in He.
    inversion Hb as [le Hl Hle | ge Hl Hg Hge]; [destruct le; discriminate Hle|].
    rewrite (Hsub _ _ Hg) in He. cbn [option_map] in He. injection He as <-. rewrite Hge. reflexivity.
  - cbn [texpr_occs occs_texpr]. apply IH.
Qed.

Section Proc.
Variable L : ltable.
Hypothesis HL : forall x, B ScLocal x = lt_lookup (Some L) (Some G) x.

Lemma typing_bridge :
  (forall v t, var_type L G v t -> forall off, bridged B (var_occs (Some L) off v) (uses (occs_var off v))) /\
  (forall e t, expr_type L G e t -> forall off, bridged B (expr_occs (Some L) off e) (uses (occs_expr off e))).
Proof.
  apply (typing_mutind L G).
  - intros i e ve t _ _ _ off. cbn [var_occs occs_var uses map]. apply bridged_ident. intros c Hc e0 He0.
    unfold HoverValid.o_scope, HoverValid.o_name in He0. cbn [fst snd] in He0. rewrite HL in He0.
    unfold var_use_class in Hc. unfold lt_lookup in He0.
    destruct (lookup L (id_val i)) as [[v|v]|]; [| |discriminate Hc]; injection Hc as <-; injection He0 as <-; reflexivity.
  - intros a e off inf sz b c _ IHa _ IHe off'. cbn [var_occs occs_var]. rewrite uses_app.
    apply bridged_app; [apply IHa | apply IHe].
  - intros i off. apply bridged_nil.
  - intros v t _ IH off. apply IH.
  - intros op l r inf _ _ IHl _ IHr off. cbn [expr_occs occs_expr]. rewrite uses_app. apply bridged_app; [apply IHl | apply IHr].
  - intros op l r inf _ _ IHl _ IHr off. cbn [expr_occs occs_expr]. rewrite uses_app. apply bridged_app; [apply IHl | apply IHr].
  - intros op a inf _ IH off. apply IH.
  - intros a inf t _ IH off. apply IH.
Qed.

Lemma args_bridge : forall args ps off,
  Forall2 (arg_ok L G) args ps ->
  bridged B (flat_map (fun a => expr_occs (Some L) (off + snd a) (fst a)) args) (uses (occs_args off args)).
Proof.
  intros args ps off H. induction H as [|[a o] p args ps Ha _ IH]; [apply bridged_nil|].
  unfold occs_args in *. cbn [flat_map fst snd]. rewrite uses_app. apply bridged_app; [|exact IH].
  inversion Ha; subst. eapply (proj2 typing_bridge); eassumption.
Qed.

Lemma wt_bridge :
  (forall s, wt_stmt L G s -> forall off, bridged B (stmt_occs (Some L) off s) (uses (occs_stmt off s))) /\
  (forall l, wt_stmts L G l -> forall off,
     bridged B (flat_map (fun x => stmt_occs (Some L) (off + snd x) (fst x)) l) (uses (occs_stmts off l))).
Proof.
  destruct typing_bridge as [Tv Te].
  apply (wt_mutind L G).
  - intros inf off. apply bridged_nil.
  - intros v e o inf Hv He off. cbn [stmt_occs occs_stmt opt_expr_occs occs_opt_expr]. rewrite uses_app.
    apply bridged_app; [eapply Tv | eapply Te]; eassumption.
  - intros name args inf pe Hb Ha off. cbn [stmt_occs occs_stmt].
    change (uses ((id_tok off name, id_val name, ScGlobal) :: flat_map (fun a => occs_expr (off + snd a) (fst a)) args))
      with ([((id_tok off name, id_val name, ScGlobal), false)] ++ uses (occs_args off args)).
    apply bridged_app; [|exact (args_bridge _ _ off Ha)].
    apply bridged_ident. intros c Hc e He. injection Hc as <-.
    unfold HoverValid.o_scope, HoverValid.o_name in He. cbn [fst snd] in He. rewrite HG in He.
    inversion Hb as [le Hl Hle | ge Hl Hg Hge]; [destruct le; discriminate Hle|].
    rewrite Hg in He. cbn [option_map] in He. injection He as <-. rewrite Hge. reflexivity.
  - intros c oc t ot inf Hc _ IHt off. cbn [stmt_occs occs_stmt opt_expr_occs occs_opt_expr]. rewrite !uses_app.
    apply bridged_app; [eapply Te; eassumption|]. apply bridged_app; [apply IHt | apply bridged_nil].
  - intros c oc t ot e oe inf Hc _ IHt _ IHe off. cbn [stmt_occs occs_stmt opt_expr_occs occs_opt_expr]. rewrite !uses_app.
    apply bridged_app; [eapply Te; eassumption|]. apply bridged_app; [apply IHt | apply IHe].
  - intros c oc b ob inf Hc _ IHb off. cbn [stmt_occs occs_stmt opt_expr_occs occs_opt_expr]. rewrite uses_app.
    apply bridged_app; [eapply Te; eassumption | apply IHb].
  - intros body inf _ IH off. rewrite occs_stmt_block, stmt_occs_block. apply IH.
  - intros off. apply bridged_nil.
  - intros s o r _ IHs _ IHr off. unfold occs_stmts in *. cbn [flat_map fst snd]. rewrite uses_app.
    apply bridged_app; [apply IHs | apply IHr].
Qed.

(* parameters and variables: a declared name is bound to the entry made from its declaration *)
Lemma params_bridge Gi pn L0 ps L1 es :
  wf_params Gi pn L0 ps L1 es ->
  (forall x v, lookup Gi x = Some v -> lookup G x = Some v) ->
  (forall y e, lookup L1 y = Some e -> lookup L y = Some e) ->
  forall D, bridged B (flat_map (param_occs D) ps) (flat_map (fun x => roles_paramdecl (D + snd x) (fst x)) ps).
Proof.
  intros H Hsub. induction H as [L0 | L0 doc is_ref name te o inf off t r L1 es Hd _ Hfresh Hr IH]; intros Hkeep D;
    [apply bridged_nil|].
  cbn [flat_map]. apply bridged_app; [|exact (IH Hkeep D)].
  unfold param_occs. cbn [fst snd roles_paramdecl opt_ident_at opt_texpr_occs occs_name occs_opt_texpr declares map].
  apply bridged_app; [|exact (texpr_bridge _ _ _ _ _ Hd Hsub _)].
  apply bridged_ident. intros c Hc e He. injection Hc as <-.
  unfold HoverValid.o_scope, HoverValid.o_name in He. cbn [fst snd] in He. rewrite HL in He. unfold lt_lookup in He.
  rewrite (Hkeep _ _ (wf_params_keep _ _ _ _ _ _ Hr _ _ (lookup_snoc_same _ _ _ Hfresh))) in He.
  injection He as <-. reflexivity.
Qed.

Lemma vars_bridge Gi pn L0 vs L1 :
  wf_vars Gi pn L0 vs L1 ->
  (forall x v, lookup Gi x = Some v -> lookup G x = Some v) ->
  (forall y e, lookup L1 y = Some e -> lookup L y = Some e) ->
  forall D, bridged B (flat_map (vardecl_occs D) vs) (flat_map (fun x => roles_vardecl (D + snd x) (fst x)) vs).
Proof.
  intros H Hsub. induction H as [L0 | L0 doc name te o inf off t r L1 Hd Hfresh Hr IH]; intros Hkeep D;
    [apply bridged_nil|].
  cbn [flat_map]. apply bridged_app; [|exact (IH Hkeep D)].
  unfold vardecl_occs. cbn [fst snd roles_vardecl opt_ident_at opt_texpr_occs occs_name occs_opt_texpr declares map].
  apply bridged_app; [|exact (texpr_bridge _ _ _ _ _ Hd Hsub _)].
  apply bridged_ident. intros c Hc e He. injection Hc as <-.
  unfold HoverValid.o_scope, HoverValid.o_name in He. cbn [fst snd] in He. rewrite HL in He. unfold lt_lookup in He.
  rewrite (Hkeep _ _ (wf_vars_keep _ _ _ _ _ Hr _ _ (lookup_snoc_same _ _ _ Hfresh))) in He.
  injection He as <-. reflexivity.
Qed.

End Proc.
End Bridge.

(* one declaration of a well-typed tree *)
Lemma decl_bridge (d : doc) :
  well_typed (d_ast d) (d_table d) ->
  forall g off, In (g, off) (pg_decls (d_ast d)) ->
  forall j c, In (j, Some c) (decl_occs (d_table d) g off) ->
  exists owner o dcl, In (owner, (o, dcl)) (roles_gdecl off g) /\ HoverValid.o_tok o = j /\
                      agree (HoverProofs.binding d owner) dcl c o.
Proof.
  intros [[es [Hwf [HG Hmain]]] Hbodies] g off Hg j c Hin.
  destruct (wf_gdecls_in_keep _ _ _ Hwf _ _ Hg) as [Gi [ke [Hke [Hlk Hsub]]]]. rewrite <- HG in Hlk, Hsub.
  destruct g as [td | pd | inf]; [| |destruct Hin].
  - (* a type declaration *)
    inversion Hke as [d0 name te o t Hname Hnm Hfresh Hty Hden | ]; subst. cbn [fst snd] in Hlk.
    set (B := HoverProofs.binding d (Some (id_val name))).
    assert (HGB : forall x, B ScGlobal x = option_map entry_of_g (lookup (d_table d) x)) by reflexivity.
    assert (Hbr : bridged B (decl_occs (d_table d) (GType td) off)
                    (declares (occs_name off ScGlobal (td_name td)) ++ uses (occs_opt_texpr off (td_ty td)))).
    { cbn [decl_occs]. rewrite Hname, Hty.
      cbn [opt_ident_at opt_texpr_occs occs_name occs_opt_texpr declares map]. apply bridged_app.
      - apply bridged_ident. intros c0 Hc e He. injection Hc as <-.
        unfold HoverValid.o_scope, HoverValid.o_name in He. cbn [fst snd] in He. rewrite HGB, Hlk in He.
        injection He as <-. reflexivity.
      - exact (texpr_bridge (d_table d) B HGB _ _ _ _ _ Hden Hsub _). }
    destruct (Hbr j c Hin) as (o' & dcl & Ho & Hj & Ha). exists (Some (id_val name)), o', dcl.
    split; [|split; assumption]. cbn [roles_gdecl]. rewrite Hname at 1. cbn [option_map]. now apply in_map.
  - (* a procedure declaration *)
    inversion Hke as [ | d0 name L1 ps L2 Hname Hfresh Hpar Hvar]; subst. cbn [fst snd] in Hlk.
    match type of Hlk with lookup _ _ = Some (GProcE ?pe0) => set (pe := pe0) in * end.
    set (B := HoverProofs.binding d (Some (id_val name))).
    assert (HGB : forall x, B ScGlobal x = option_map entry_of_g (lookup (d_table d) x)) by reflexivity.
    assert (HLB : forall x, B ScLocal x = lt_lookup (Some L2) (Some (d_table d)) x).
    { intros x. unfold B, HoverProofs.binding. rewrite Hlk. reflexivity. }
    assert (Hloc : get_local_table pd (d_table d) = Some L2).
    { unfold get_local_table. rewrite Hname, Hlk. reflexivity. }
    assert (Hwb : wt_stmts L2 (d_table d) (pd_stmts pd)).
    { unfold wt_bodies in Hbodies. rewrite Forall_forall in Hbodies. destruct (Hbodies _ Hg) as [_ Hwb].
      unfold wt_body in Hwb. cbn [fst snd] in Hwb. apply (Hwb pe). exists name. repeat split; [exact Hname | exact Hlk]. }
    assert (Hbr : bridged B (decl_occs (d_table d) (GProc pd) off)
                    (declares (occs_name off ScGlobal (pd_name pd))
                     ++ flat_map (fun x => roles_paramdecl (off + snd x) (fst x)) (pd_params pd)
                     ++ flat_map (fun x => roles_vardecl (off + snd x) (fst x)) (pd_vars pd)
                     ++ uses (flat_map (fun x => occs_stmt (off + snd x) (fst x)) (pd_stmts pd)))).
    { cbn [decl_occs]. rewrite Hloc, Hname. cbn [opt_ident_at occs_name declares map].
      apply bridged_app; [|apply bridged_app; [|apply bridged_app]].
      - apply bridged_ident. intros c0 Hc e He. injection Hc as <-.
        unfold HoverValid.o_scope, HoverValid.o_name in He. cbn [fst snd] in He. rewrite HGB, Hlk in He.
        injection He as <-. reflexivity.
      - exact (params_bridge (d_table d) B HGB L2 HLB _ _ _ _ _ _ Hpar Hsub (wf_vars_keep _ _ _ _ _ Hvar) off).
      - exact (vars_bridge (d_table d) B HGB L2 HLB _ _ _ _ _ Hvar Hsub (fun y e H => H) off).
      - exact (proj2 (wt_bridge (d_table d) B HGB L2 HLB) _ Hwb off). }
    destruct (Hbr j c Hin) as (o' & dcl & Ho & Hj & Ha). exists (Some (id_val name)), o', dcl.
    split; [|split; assumption]. cbn [roles_gdecl]. rewrite Hname at 1. cbn [option_map]. now apply in_map.
Qed.

(* the occurrences of SemTok.doc_occs are occurrences of SemTokValid.program_roles, and the class the
   role prescribes is the class of the entity the occurrence is bound to *)
Theorem doc_occs_roles (d : doc) :
  well_typed (d_ast d) (d_table d) ->
  forall j c, In (j, Some c) (doc_occs d) ->
  exists owner x sc dcl, In (owner, ((j, x, sc), dcl)) (program_roles (d_ast d)) /\
    forall e, HoverProofs.binding d owner sc x = Some e -> c = (kind_of e, mod_of dcl).
Proof.
  intros Hwt j c Hin. unfold doc_occs in Hin. apply in_flat_map in Hin as [[g off] [Hg Hin]]. cbn [fst snd] in Hin.
  destruct (decl_bridge d Hwt g off Hg j c Hin) as (owner & [[k x] sc] & dcl & Ho & Hj & Ha).
  unfold HoverValid.o_tok in Hj. cbn [fst] in Hj. subst k. exists owner, x, sc, dcl. split.
  - unfold program_roles. apply in_flat_map. exists (g, off). split; [exact Hg | exact Ho].
  - exact Ha.
Qed.
Print Assumptions doc_occs_roles.

Lemma new_doc_done t d : new_doc t = Done d -> new_doc_res t = ODone d.
Proof. unfold new_doc. destruct (new_doc_res t); cbn [ores_outcome]; [intros [= <-]; reflexivity | discriminate | discriminate]. Qed.

Lemma doc_errors_done d l : doc_errors d = Done l -> doc_errors_res d = ROk l.
Proof. unfold doc_errors. destruct (doc_errors_res d); cbn; [intros [= <-]; reflexivity | discriminate]. Qed.

(* SemTokProofs.semtok_full_statement (= Props/C15.v C15_full_statement) for every document without
   diagnostics whose tokens carry no lexical error *)
Theorem semtok_full_clean : forall t d data,
  new_doc t = Done d -> doc_errors d = Done [] ->
  forallb (fun tok => match terr tok with [] => true | _ => false end) (d_toks d) = true ->
  semantic_tokens d = SOk data ->
  (forall j k c, nth_error (d_toks d) j = Some k -> map_class (tk k) = Some c ->
                 In (tok_view (d_text d) (k, c)) (decode data)) /\
  (forall j k c, In (j, Some c) (doc_occs d) -> nth_error (d_toks d) j = Some k ->
                 In (tok_view (d_text d) (k, c)) (decode data)).
Proof.
  intros t d data Hn He Hc Hdata. split; [exact (new_doc_complete_total t d data Hn Hdata)|].
  assert (Hcl : clean_doc t d) by (split; [exact (new_doc_done t d Hn) | split; [exact (doc_errors_done d [] He) | exact Hc]]).
  destruct (clean_doc_valid t d Hcl) as (p & G & Hok & Hwt & Hlex & Hk & Hast & HG).
  destruct (new_doc_stages t d (new_doc_done t d Hn)) as (Htext & _).
  destruct (semtok_valid_clean t d Hcl) as (data' & Hdata' & Hroles). rewrite Hdata in Hdata'. injection Hdata' as <-.
  intros j k c Hin Hnth.
  assert (Hwt' : well_typed (d_ast d) (d_table d)) by (rewrite Hast, HG; exact Hwt).
  destruct (doc_occs_roles d Hwt' j c Hin) as (owner & x & sc & dcl & Hr & Hcls).
  destruct (Hroles owner j x sc dcl Hr k Hnth) as (e & Hb & Hview & _).
  rewrite (Hcls e Hb), Htext. exact Hview.
Qed.
Print Assumptions semtok_full_clean.
