(* C16 - completion on VALID programs, part 2: `complete_procedure` on the token slice of a procedure
   declaration of the grammar (its kinds are [fl_decl (DProc ..)], its bytes are in text order).

   [complete_procedure_stmt_gap]  position in the gap in front of a variable declaration, a top-level
        statement of the body or the closing brace: the statement proposals - `var` starters in front
        iff no statement other than `;` stands in front of the gap;
   [complete_procedure_tpos]      position in the gap behind ANY `:` or `of` of the declaration (parameter
        or variable declaration): all type entries of the table. *)
From Coq Require Import PeanoNat NArith Lia List Bool.
From Spl Require Import Proofs.GrammarBase Proofs.GrammarExpr Proofs.GrammarStmt.
From Spl Require Import Proofs.GrammarProofs Spec.Typing Model.Errors Proofs.SemProofs Proofs.TypingProofs.
From Spl Require Import Model.Hover Model.Fold Proofs.LexerProofs Proofs.FoldProofs Proofs.HoverProofs.
From Spl Require Import Proofs.HoverValid Model.Completion Proofs.CompletionProofs Proofs.ComplValidBase.
Import ListNotations.
Local Open Scope nat_scope.

(* ---------------------------------------------------------------------------------------- *)
(* complete_procedure, once the tests are decided                                             *)

Lemma complete_procedure_body pd position toks g last t flag :
  token_before toks position = Some last -> find is_sig_end toks = Some t -> (position <? ts t)%N = false ->
  in_stmts_test toks position (pd_stmts pd) = ROk flag ->
  complete_procedure pd position toks g =
    if flag then complete_statements (pd_stmts pd) position toks last false (get_local_table pd g) g
    else ROk (match tk last with
              | Colon | KOf => Some (search_types g)
              | Semic | LCurly => Some ([snip_var; item_var] ++ new_stmt (get_local_table pd g) g)
              | _ => None
              end).
Proof. unfold complete_procedure, in_stmts_test. intros -> -> -> ->. reflexivity. Qed.

Lemma complete_procedure_sig pd position toks g last t :
  token_before toks position = Some last -> find is_sig_end toks = Some t -> (position <? ts t)%N = true ->
  complete_procedure pd position toks g =
    ROk (match tk last with
         | LParen | Comma => Some [item_ref]
         | Colon | KOf => Some (search_types g)
         | _ => None
         end).
Proof. unfold complete_procedure. intros -> -> ->. reflexivity. Qed.

(* ---------------------------------------------------------------------------------------- *)
(* the header of a procedure declaration                                                      *)

(* everything up to and including `{` *)
Definition proc_head (c1 c2 : cs) (x : text) (c3 : cs) (ps : aparams) (c4 c5 : cs) : list kind :=
  cm c1 ++ KProc :: cm c2 ++ Ident x :: cm c3 ++ LParen :: fl_sep fl_param ps ++ cm c4 ++ RParen :: cm c5 ++ [LCurly].

(* everything in front of `)` *)
Definition proc_sig (c1 c2 : cs) (x : text) (c3 : cs) (ps : aparams) (c4 : cs) : list kind :=
  cm c1 ++ KProc :: cm c2 ++ Ident x :: cm c3 ++ LParen :: fl_sep fl_param ps ++ cm c4.

Lemma proc_head_sig c1 c2 x c3 ps c4 c5 :
  proc_head c1 c2 x c3 ps c4 c5 = proc_sig c1 c2 x c3 ps c4 ++ RParen :: cm c5 ++ [LCurly].
Proof. unfold proc_head, proc_sig. listeq. Qed.

Lemma fl_proc c1 c2 x c3 ps c4 c5 vs b c6 :
  fl_decl (DProc c1 c2 x c3 ps c4 c5 vs b c6) =
  proc_head c1 c2 x c3 ps c4 c5 ++ flat_map fl_vardecl vs ++ fl_stmts b ++ cm c6 ++ [RCurly].
Proof. unfold proc_head. cbn [fl_decl]. listeq. Qed.

Lemma the_proc_stmts c1 c2 x c3 ps c4 c5 vs b c6 :
  pd_stmts (the_proc (DProc c1 c2 x c3 ps c4 c5 vs b c6)) =
  x_stmts (len (proc_head c1 c2 x c3 ps c4 c5) + len (flat_map fl_vardecl vs)) b.
Proof. unfold the_proc, proc_head. cbn [x_decl pd_stmts]. f_equal. leneq. Qed.

Definition sig_end_k (k : kind) : bool := match k with RParen | LCurly => true | _ => false end.
Definition nse (k : kind) : Prop := sig_end_k k = false.

Lemma nse_cm c : Forall nse (cm c).
Proof. induction c; constructor; [reflexivity | assumption]. Qed.

Ltac ns := repeat first [assumption | apply nse_cm | apply Forall_nil | apply Forall_app; split | apply Forall_cons | reflexivity].

Lemma nse_type t : Forall nse (fl_type t).
Proof. induction t as [c x | ca cl cz size cr co base IH]; cbn [fl_type]; ns. destruct size; reflexivity. Qed.

Lemma nse_param p : Forall nse (fl_param p).
Proof. destruct p; cbn [fl_param]; ns; apply nse_type. Qed.

Lemma nse_params ps : Forall nse (fl_sep fl_param ps).
Proof.
  destruct ps as [[a l]|]; [|constructor]. cbn [fl_sep]. apply Forall_app. split; [apply nse_param|].
  unfold fl_tail. induction l as [|[c x] l IH]; [constructor|]. cbn [flat_map fst snd]. ns. apply nse_param.
Qed.

Lemma nse_sig c1 c2 x c3 ps c4 : Forall nse (proc_sig c1 c2 x c3 ps c4).
Proof. unfold proc_sig. ns. apply nse_params. Qed.

(* the `)` of the parameter list is what `find is_sig_end` finds *)
Lemma sig_end_found c1 c2 x c3 ps c4 c5 vs b c6 (sl : list token) :
  map tk sl = fl_decl (DProc c1 c2 x c3 ps c4 c5 vs b c6) ->
  exists rp, nth_error sl (len (proc_sig c1 c2 x c3 ps c4)) = Some rp /\ tk rp = RParen /\
             find is_sig_end sl = Some rp.
Proof.
  intros Hk. rewrite fl_proc, proc_head_sig, <- !app_assoc in Hk. cbn [app] in Hk.
  exact (find_kind sig_end_k sl _ RParen _ Hk (nse_sig c1 c2 x c3 ps c4) eq_refl).
Qed.

(* ---------------------------------------------------------------------------------------- *)
(* the token in front of the first non-empty statement is `{` or `;`                          *)

Definition ends_sl (l : list kind) : Prop := exists l' k, l = l' ++ [k] /\ (k = Semic \/ k = LCurly).

Lemma ends_app_semic a m : ends_sl (a ++ m ++ [Semic]).
Proof. exists (a ++ m), Semic. split; [now rewrite app_assoc | now left]. Qed.

Lemma ends_head c1 c2 x c3 ps c4 c5 : ends_sl (proc_head c1 c2 x c3 ps c4 c5).
Proof.
  exists (proc_sig c1 c2 x c3 ps c4 ++ RParen :: cm c5), LCurly. split; [|now right].
  rewrite proc_head_sig. listeq.
Qed.

Lemma ends_vardecls : forall vs a, ends_sl a -> ends_sl (a ++ flat_map fl_vardecl vs).
Proof.
  induction vs as [|v vs IH]; intros a Ha; cbn [flat_map]; [now rewrite app_nil_r|].
  rewrite app_assoc. apply IH. unfold fl_vardecl.
  replace (cm (v_c1 v) ++ KVar :: cm (v_c2 v) ++ Ident (v_x v) :: cm (v_c3 v) ++ Colon :: fl_type (v_t v) ++ cm (v_c4 v) ++ [Semic])
    with ((cm (v_c1 v) ++ KVar :: cm (v_c2 v) ++ Ident (v_x v) :: cm (v_c3 v) ++ Colon :: fl_type (v_t v) ++ cm (v_c4 v)) ++ [Semic])
    by listeq.
  apply ends_app_semic.
Qed.

Lemma ends_emps : forall b a, has_real b = false -> ends_sl a -> ends_sl (a ++ fl_stmts b).
Proof.
  induction b as [|s r IH]; intros a Hr Ha; cbn [fl_stmts]; [now rewrite app_nil_r|].
  cbn [has_real] in Hr. apply orb_false_iff in Hr as [Hs Hr]. destruct s; try discriminate Hs.
  rewrite app_assoc. apply IH; [exact Hr|]. cbn [fl_stmt]. apply ends_app_semic.
Qed.

Lemma ends_nth (sl : list token) l rest t :
  ends_sl l -> map tk sl = l ++ rest -> nth_error sl (len l - 1) = Some t -> tk t = Semic \/ tk t = LCurly.
Proof.
  intros [l' [k [-> Hk]]] Hm Hn. apply (map_nth_error tk) in Hn. rewrite Hm, <- app_assoc in Hn.
  rewrite app_length in Hn. cbn [length app] in Hn. replace (len l' + 1 - 1) with (len l') in Hn by lia.
  rewrite nth_error_at in Hn. injection Hn as ->. exact Hk.
Qed.

(* ---------------------------------------------------------------------------------------- *)
(* (S) the gap in front of a variable declaration, a top-level statement, or the closing brace *)

Lemma complete_procedure_stmt_gap c1 c2 x c3 ps c4 c5 vs1 vs2 b1 b2 c6 (sl : list token) G position tprev tnext :
  let dd := DProc c1 c2 x c3 ps c4 c5 (vs1 ++ vs2) (sapp b1 b2) c6 in
  let i := len (proc_head c1 c2 x c3 ps c4 c5) + len (flat_map fl_vardecl vs1) + len (fl_stmts b1) in
  (vs2 = [] \/ b1 = SNil) ->
  toks_sorted sl = true -> map tk sl = fl_decl dd ->
  nth_error sl (i - 1) = Some tprev -> nth_error sl i = Some tnext ->
  (ts tprev < position)%N -> (te tprev <= position)%N -> (position < ts tnext)%N ->
  complete_procedure (the_proc dd) position sl G =
    ROk (Some ((if has_real b1 then [] else [snip_var; item_var]) ++ new_stmt (get_local_table (the_proc dd) G) G)).
Proof.
  intros dd i Hcase Hs Hk Hp Hn H1 H2 H3.
  set (h := len (proc_head c1 c2 x c3 ps c4 c5)) in *.
  assert (Hh : len (proc_sig c1 c2 x c3 ps c4) + 2 <= h).
  { unfold h. rewrite proc_head_sig, app_length. cbn [length]. rewrite app_length. cbn [length]. lia. }
  assert (Hi : 1 <= i) by (unfold i; lia).
  assert (Hlen : len sl = h + len (flat_map fl_vardecl (vs1 ++ vs2)) + len (fl_stmts (sapp b1 b2)) + len c6 + 1).
  { rewrite <- (map_length tk sl), Hk. unfold dd. rewrite fl_proc. unfold h. leneq. }
  rewrite flat_map_app, fl_stmts_sapp, !app_length in Hlen.
  pose proof (gap_before sl i tprev position Hs Hi Hp H2) as Hbefore.
  pose proof (gap_after sl i tnext position Hs Hn H3) as Hafter.
  assert (Htb : token_before sl position = Some tprev).
  { apply (token_before_sorted sl (i - 1) tprev tnext); try assumption; [|lia]. now replace (S (i - 1)) with i by lia. }
  destruct (sig_end_found c1 c2 x c3 ps c4 c5 _ _ c6 sl Hk) as [rp [Hrp [_ Hfind]]].
  assert (Hsig : (position <? ts rp)%N = false).
  { destruct (Hbefore _ rp Hrp ltac:(unfold i; lia)) as [Hle _]. destruct (N.ltb_spec position (ts rp)); [lia | reflexivity]. }
  assert (Hprev : has_real b1 = false -> tk tprev = Semic \/ tk tprev = LCurly).
  { intros Hr. apply (ends_nth sl (proc_head c1 c2 x c3 ps c4 c5 ++ flat_map fl_vardecl vs1 ++ fl_stmts b1)
                        (flat_map fl_vardecl vs2 ++ fl_stmts b2 ++ cm c6 ++ [RCurly])).
    - rewrite app_assoc. apply ends_emps; [exact Hr|]. apply ends_vardecls, ends_head.
    - rewrite Hk. unfold dd. rewrite fl_proc, flat_map_app, fl_stmts_sapp.
      destruct Hcase as [-> | ->]; cbn [flat_map fl_stmts app]; rewrite ?app_nil_r; listeq.
    - rewrite !app_length. fold h. rewrite Nat.add_assoc. exact Hp. }
  assert (Hfalse : has_real b1 = false ->
            (if has_real b1 then complete_statements (pd_stmts (the_proc dd)) position sl tprev false (get_local_table (the_proc dd) G) G
             else ROk (match tk tprev with
                       | Colon | KOf => Some (search_types G)
                       | Semic | LCurly => Some ([snip_var; item_var] ++ new_stmt (get_local_table (the_proc dd) G) G)
                       | _ => None
                       end)) =
            ROk (Some ((if has_real b1 then [] else [snip_var; item_var]) ++ new_stmt (get_local_table (the_proc dd) G) G))).
  { intros Hr. rewrite Hr. destruct (Hprev Hr) as [-> | ->]; reflexivity. }
  destruct Hcase as [-> | ->].
  - (* no variable declaration behind the gap *)
    cbn [flat_map length] in Hlen.
    rewrite (complete_procedure_body _ position sl G tprev rp (has_real b1) Htb Hfind Hsig).
    + destruct (has_real b1) eqn:Hr; [|now apply Hfalse].
      unfold dd. rewrite the_proc_stmts, app_nil_r. fold h. cbn [app].
      apply (cs_gap sl position i Hbefore Hafter); [reflexivity | lia].
    + unfold dd. rewrite the_proc_stmts, app_nil_r. fold h.
      apply (in_stmts_gap sl position i Hbefore Hafter); [reflexivity | lia].
  - (* in front of a variable declaration: no statement in front of the gap *)
    cbn [sapp fl_stmts length has_real] in *.
    rewrite (complete_procedure_body _ position sl G tprev rp false Htb Hfind Hsig).
    + now apply Hfalse.
    + unfold dd. rewrite the_proc_stmts. fold h. cbn [sapp].
      apply (in_stmts_after sl position i Hafter); rewrite flat_map_app, app_length; unfold i; lia.
Qed.

(* ---------------------------------------------------------------------------------------- *)
(* (T) the gap behind a `:`                                                                    *)

Lemma nth_app_cases {A} (a b : list A) k x :
  nth_error (a ++ b) k = Some x ->
  (k < len a /\ nth_error a k = Some x) \/ (len a <= k /\ nth_error b (k - len a) = Some x).
Proof.
  intros H. destruct (Nat.lt_ge_cases k (len a)) as [Hlt|Hge].
  - left. split; [exact Hlt|]. now rewrite nth_error_app1 in H.
  - right. split; [exact Hge|]. now rewrite nth_error_app2 in H.
Qed.

(* `:` and `of` occur in the parameter list and in the variable declarations only *)
Definition tpos_kind (k : kind) : Prop := k = Colon \/ k = KOf.

Lemma nonglobal_nth l j k : Forall nonglobal l -> tpos_kind k -> nth_error l j = Some k -> False.
Proof.
  intros H Hk Hn. apply nth_error_In in Hn. rewrite Forall_forall in H. specialize (H _ Hn).
  destruct Hk as [-> | ->]; discriminate H.
Qed.

Lemma complete_procedure_tpos c1 c2 x c3 ps c4 c5 vs b c6 (sl : list token) G position k tprev tnext :
  let dd := DProc c1 c2 x c3 ps c4 c5 vs b c6 in
  toks_sorted sl = true -> map tk sl = fl_decl dd ->
  nth_error sl k = Some tprev -> tpos_kind (tk tprev) -> nth_error sl (S k) = Some tnext ->
  (ts tprev < position)%N -> (te tprev <= position)%N -> (position < ts tnext)%N ->
  complete_procedure (the_proc dd) position sl G = ROk (Some (search_types G)).
Proof.
  intros dd Hs Hk Hp Hc Hn H1 H2 H3.
  set (h := len (proc_head c1 c2 x c3 ps c4 c5)) in *.
  set (sg := len (proc_sig c1 c2 x c3 ps c4)) in *.
  assert (Hh : h = sg + 1 + len c5 + 1).
  { unfold h, sg. rewrite proc_head_sig, app_length. cbn [length]. rewrite app_length, cm_length. cbn [length]. lia. }
  assert (Hlen : len sl = h + len (flat_map fl_vardecl vs) + len (fl_stmts b) + len c6 + 1).
  { rewrite <- (map_length tk sl), Hk. unfold dd. rewrite fl_proc. unfold h. leneq. }
  pose proof (gap_before sl (S k) tprev position Hs ltac:(lia)) as Hbefore.
  replace (S k - 1) with k in Hbefore by lia. specialize (Hbefore Hp H2).
  pose proof (gap_after sl (S k) tnext position Hs Hn H3) as Hafter.
  assert (Htb : token_before sl position = Some tprev) by (apply (token_before_sorted sl k tprev tnext); try assumption; lia).
  destruct (sig_end_found c1 c2 x c3 ps c4 c5 vs b c6 sl Hk) as [rp [Hrp [Hkrp Hfind]]]. fold sg in Hrp.
  (* where is the token ? *)
  assert (Hkk : nth_error (fl_decl dd) k = Some (tk tprev)).
  { rewrite <- Hk. now apply map_nth_error. }
  unfold dd in Hkk. rewrite fl_proc, proc_head_sig, <- app_assoc in Hkk. fold sg in Hkk.
  apply nth_app_cases in Hkk as [[Hlt _] | [Hge Hkk]].
  - (* in the signature *)
    fold sg in Hlt.
    assert (Hsig : (position <? ts rp)%N = true).
    { pose proof (Hafter _ rp Hrp ltac:(lia)). destruct (N.ltb_spec position (ts rp)); [reflexivity | lia]. }
    rewrite (complete_procedure_sig _ position sl G tprev rp Htb Hfind Hsig).
    destruct Hc as [-> | ->]; reflexivity.
  - fold sg in Hge, Hkk.
    assert (Hne : k <> sg). { intros ->. rewrite Hrp in Hp. injection Hp as <-. rewrite Hkrp in Hc. destruct Hc; discriminate. }
    assert (Hsig : (position <? ts rp)%N = false).
    { destruct (Hbefore _ rp Hrp ltac:(lia)) as [Hle _]. destruct (N.ltb_spec position (ts rp)); [lia | reflexivity]. }
    cbn [app] in Hkk. destruct (k - sg) as [|j] eqn:Ej; [lia|]. cbn [nth_error] in Hkk.
    rewrite <- app_assoc in Hkk. apply nth_app_cases in Hkk as [[_ Hkk] | [Hge2 Hkk]]; [destruct (nonglobal_nth _ _ _ (nonglobal_cm c5) Hc Hkk)|].
    rewrite cm_length in Hge2, Hkk. cbn [app] in Hkk.
    destruct (j - len c5) as [|j2] eqn:Ej2; [injection Hkk as Hkk; rewrite <- Hkk in Hc; destruct Hc; discriminate|].
    cbn [nth_error] in Hkk.
    apply nth_app_cases in Hkk as [[Hlt2 _] | [_ Hkk]].
    + (* in the variable declarations *)
      rewrite (complete_procedure_body _ position sl G tprev rp false Htb Hfind Hsig).
      * destruct Hc as [-> | ->]; reflexivity.
      * unfold dd. rewrite the_proc_stmts. fold h. apply (in_stmts_after sl position (S k) Hafter); lia.
    + apply nth_app_cases in Hkk as [[_ Hkk] | [_ Hkk]];
        [destruct (nonglobal_nth _ _ _ (proj2 stmt_nonglobal b) Hc Hkk)|].
      apply nth_app_cases in Hkk as [[_ Hkk] | [_ Hkk]]; [destruct (nonglobal_nth _ _ _ (nonglobal_cm c6) Hc Hkk)|].
      destruct (j2 - _ - _ - _) as [|[|?]]; try discriminate Hkk.
      injection Hkk as Hkk; rewrite <- Hkk in Hc; destruct Hc; discriminate.
Qed.

Lemma complete_procedure_colon c1 c2 x c3 ps c4 c5 vs b c6 (sl : list token) G position k tprev tnext :
  let dd := DProc c1 c2 x c3 ps c4 c5 vs b c6 in
  toks_sorted sl = true -> map tk sl = fl_decl dd ->
  nth_error sl k = Some tprev -> tk tprev = Colon -> nth_error sl (S k) = Some tnext ->
  (ts tprev < position)%N -> (te tprev <= position)%N -> (position < ts tnext)%N ->
  complete_procedure (the_proc dd) position sl G = ROk (Some (search_types G)).
Proof.
  intros dd Hs Hk Hp Hc Hn H1 H2 H3.
  exact (complete_procedure_tpos c1 c2 x c3 ps c4 c5 vs b c6 sl G position k tprev tnext Hs Hk Hp
           (or_introl Hc) Hn H1 H2 H3).
Qed.
