(* C02 / C12 / C13, request handlers, identifier part of [nav_wf_b]: every identifier node the three
   tree walks of references.rs (find_procs / find_types / find_vars, over ANY test on identifiers)
   can return, with its token range shifted by the Reference offsets on the way up, ends inside the
   token vector.  Consequence of R2 (RangeProofsBound [ProgB]: every range of the tree, read at its
   accumulated offset, ends at or before M) - the walks shift by exactly those offsets. *)
From Coq Require Import Arith Lia List Bool.
From Spl Require Import Model.Refs Proofs.ParserTotal Proofs.RangeProofs Proofs.TypingProofs.
Import ListNotations.
Local Open Scope nat_scope.

Section Idents.
Variable M : nat.
Variable f : ident -> bool.

Definition IdsB (off : nat) (l : list ident) : Prop := Forall (fun i => off + i_e (id_info i) <= M) l.

Lemma IdsB_shift off o l : IdsB (off + o) l -> IdsB off (shift_idents l o).
Proof.
  unfold IdsB, shift_idents. intros H. apply Forall_map. eapply Forall_impl; [|exact H].
  intros i Hi. cbn beta in Hi. cbn beta. cbn [shift_ident id_info shift_info i_e]. lia.
Qed.

Lemma IdsB_app off a b : IdsB off a -> IdsB off b -> IdsB off (a ++ b).
Proof. intros Ha Hb. apply Forall_app. now split. Qed.

Lemma IdsB_flat_map {A} off (g : A -> list ident) l :
  (forall x, In x l -> IdsB off (g x)) -> IdsB off (flat_map g l).
Proof.
  induction l as [|x r IH]; intros H; [constructor|]. cbn [flat_map].
  apply IdsB_app; [apply H; now left | apply IH; intros y Hy; apply H; now right].
Qed.

Lemma IdsB_filter off l : IdsB off l -> IdsB off (filter f l).
Proof.
  unfold IdsB. rewrite !Forall_forall. intros H i Hi. apply filter_In in Hi as [Hi _]. exact (H i Hi).
Qed.

Lemma IdsB_if off i : IdB M off i -> IdsB off (if f i then [i] else []).
Proof. intros [H _]. destruct (f i); constructor; [exact H | constructor]. Qed.

Lemma IdsB_name off (n : option ident) :
  OptB (IdB M) off n -> IdsB off (match n with Some i => if f i then [i] else [] | None => [] end).
Proof. destruct n as [i|]; [apply IdsB_if | constructor]. Qed.

(* ---- variables and expressions ---- *)
Lemma vars_B :
  (forall v off, VarB M off v -> IdsB off (vars_in_variable f v)) /\
  (forall e off, ExprB M off e -> IdsB off (vars_in_expr f e)).
Proof.
  apply var_expr_ind.
  - intros i off H. cbn [vars_in_variable VarB] in *. now apply IdsB_if.
  - intros a inf IHa off H. cbn [vars_in_variable VarB] in *. destruct H as (_ & Ha & _).
    apply IdsB_app; [exact (IHa _ Ha) | constructor].
  - intros a e o inf IHa IHe off H. cbn [vars_in_variable VarB] in *. destruct H as (_ & Ha & He).
    apply IdsB_app; [exact (IHa _ Ha) | apply IdsB_shift; exact (IHe _ He)].
  - intros op l r inf IHl IHr off H. cbn [vars_in_expr ExprB] in *. destruct H as (_ & Hl & Hr).
    apply IdsB_app; [exact (IHl _ Hl) | exact (IHr _ Hr)].
  - intros a inf IHa off H. cbn [vars_in_expr ExprB] in *. exact (IHa _ (proj2 H)).
  - intros i off H. constructor.
  - intros op a inf IHa off H. cbn [vars_in_expr ExprB] in *. exact (IHa _ (proj2 H)).
  - intros v IHv off H. cbn [vars_in_expr ExprB] in *. exact (IHv _ H).
  - intros inf off H. constructor.
Qed.

Lemma oexpr_B off o : OptB (RefB (ExprB M)) off o -> IdsB off (vars_in_oexpr f o).
Proof.
  destruct o as [[e eo]|]; cbn [vars_in_oexpr OptB]; [|constructor].
  unfold RefB. cbn [fst snd]. intros H. apply IdsB_shift. exact (proj2 vars_B e _ H).
Qed.

(* ---- statements ---- *)
Definition StmtIds (s : stmt) : Prop :=
  forall off, StmtB M off s -> IdsB off (procs_in_stmt f s) /\ IdsB off (vars_in_stmt f s).

Lemma opt_stmt_ids off (o : option (stmt * nat)) :
  opt_stmt_P StmtIds o -> match o with Some (x, so) => StmtB M (off + so) x | None => True end ->
  IdsB off (match o with Some (x, so) => shift_idents (procs_in_stmt f x) so | None => [] end) /\
  IdsB off (match o with Some (x, so) => shift_idents (vars_in_stmt f x) so | None => [] end).
Proof.
  destruct o as [[x so]|]; cbn [opt_stmt_P]; [|split; constructor].
  intros IH H. destruct (IH _ H) as [H1 H2]. split; apply IdsB_shift; assumption.
Qed.

Lemma stmt_ids : forall s, StmtIds s.
Proof.
  induction s as [inf | v e inf | name args inf | c thn els inf IHt IHe | c b inf IHb | body inf IH | inf] using stmt_ind';
    intros off H.
  - split; constructor.
  - cbn [StmtB] in H. destruct H as (_ & Hv & He). cbn [procs_in_stmt vars_in_stmt]. split; [constructor|].
    apply IdsB_app; [exact (proj1 vars_B v _ Hv) | exact (oexpr_B _ _ He)].
  - cbn [StmtB] in H. destruct H as (_ & Hn & Ha). cbn [procs_in_stmt vars_in_stmt]. split; [now apply IdsB_if|].
    apply IdsB_flat_map. intros [a ao] Hin. rewrite Forall_forall in Ha. specialize (Ha _ Hin).
    unfold RefB in Ha. cbn [fst snd] in *. apply IdsB_shift. exact (proj2 vars_B a _ Ha).
  - cbn [StmtB] in H. destruct H as (_ & Hc & Ht & He). cbn [procs_in_stmt vars_in_stmt].
    destruct (opt_stmt_ids off thn IHt Ht) as [T1 T2]. destruct (opt_stmt_ids off els IHe He) as [E1 E2].
    split; [apply IdsB_app; assumption|]. apply IdsB_app; [exact (oexpr_B _ _ Hc)|]. apply IdsB_app; assumption.
  - cbn [StmtB] in H. destruct H as (_ & Hc & Hb). cbn [procs_in_stmt vars_in_stmt].
    destruct (opt_stmt_ids off b IHb Hb) as [B1 B2].
    split; [assumption|]. apply IdsB_app; [exact (oexpr_B _ _ Hc) | assumption].
  - apply StmtB_block in H as [_ H]. cbn [procs_in_stmt vars_in_stmt].
    induction body as [|[x so] r IHr]; [split; constructor|].
    inversion IH as [|? ? P1 P2]; inversion H as [|? ? B1 B2]; subst.
    destruct (IHr P2 B2) as [R1 R2]. unfold RefB in B1. cbn [fst snd] in *. destruct (P1 _ B1) as [X1 X2].
    split; (apply IdsB_app; [apply IdsB_shift; assumption | assumption]).
  - split; constructor.
Qed.

Lemma stmts_ids off l :
  Forall (RefB (StmtB M) off) l -> IdsB off (procs_in_stmts f l) /\ IdsB off (vars_in_stmts f l).
Proof.
  intros H. rewrite Forall_forall in H. unfold procs_in_stmts, vars_in_stmts.
  split; apply IdsB_flat_map; intros [x so] Hin; specialize (H _ Hin); unfold RefB in H; cbn [fst snd] in *;
    apply IdsB_shift; apply (stmt_ids x _ H).
Qed.

(* ---- type expressions ---- *)
Fixpoint texpr_ident_B (t : typeexpr) :
  forall off base i, TexprB M (base + off) t -> ident_in_texpr t off = Some i -> base + i_e (id_info i) <= M.
Proof.
  intros off base i HB H. destruct t as [n | size [[b bo]|] inf]; cbn [ident_in_texpr TexprB] in *.
  - injection H as <-. cbn [shift_ident id_info shift_info i_e]. destruct HB as [HB _]. lia.
  - destruct HB as (_ & _ & HB).
    destruct (ident_in_texpr b bo) as [j|] eqn:Ej; [|discriminate]. injection H as <-.
    pose proof (texpr_ident_B b bo (base + off) j HB Ej) as Hj. cbn [shift_ident id_info shift_info i_e]. lia.
  - discriminate.
Qed.

Lemma otexpr_B off (ty : option (typeexpr * nat)) :
  OptB (RefB (TexprB M)) off ty ->
  IdsB off (match ty with Some (te, toff) => filter f (opt_list (ident_in_texpr te toff)) | None => [] end).
Proof.
  destruct ty as [[te toff]|]; cbn [OptB]; [|constructor]. unfold RefB. cbn [fst snd]. intros H.
  apply IdsB_filter. destruct (ident_in_texpr te toff) as [i|] eqn:E; cbn [opt_list]; [|constructor].
  constructor; [exact (texpr_ident_B _ _ _ _ H E) | constructor].
Qed.

Lemma otexpr_shift_B off o (ty : option (typeexpr * nat)) :
  OptB (RefB (TexprB M)) (off + o) ty ->
  IdsB off (match ty with
            | Some (te, toff) => filter f (opt_list (option_map (fun i => shift_ident i o) (ident_in_texpr te toff)))
            | None => [] end).
Proof.
  destruct ty as [[te toff]|]; cbn [OptB]; [|constructor]. unfold RefB. cbn [fst snd]. intros H.
  apply IdsB_filter. destruct (ident_in_texpr te toff) as [i|] eqn:E; cbn [opt_list option_map]; [|constructor].
  pose proof (texpr_ident_B _ _ _ _ H E) as Hi.
  constructor; [cbn [shift_ident id_info shift_info i_e]; lia | constructor].
Qed.

(* ---- declarations ---- *)
Lemma params_ids off ps :
  Forall (RefB (ParamdeclB M) off) ps -> IdsB off (types_in_params f ps) /\ IdsB off (var_names_in_params f ps).
Proof.
  intros H. rewrite Forall_forall in H. unfold types_in_params, var_names_in_params.
  split; apply IdsB_flat_map; intros [p o] Hin; specialize (H _ Hin); unfold RefB in H; cbn [fst snd] in *.
  - destruct p as [doc r name ty inf|inf]; [|constructor]. cbn [ParamdeclB] in H. destruct H as (_ & _ & Ht).
    destruct ty as [[te toff]|]; [|constructor]. exact (otexpr_shift_B off o (Some (te, toff)) Ht).
  - destruct p as [doc r [name|] ty inf|inf]; try constructor. cbn [ParamdeclB OptB] in H. destruct H as (_ & [Hn _] & _).
    destruct (f name); constructor; [cbn [shift_ident id_info shift_info i_e]; lia | constructor].
Qed.

Lemma vardecls_ids off vs :
  Forall (RefB (VardeclB M) off) vs -> IdsB off (types_in_vars f vs) /\ IdsB off (var_names_in_vars f vs).
Proof.
  intros H. rewrite Forall_forall in H. unfold types_in_vars, var_names_in_vars.
  split; apply IdsB_flat_map; intros [p o] Hin; specialize (H _ Hin); unfold RefB in H; cbn [fst snd] in *.
  - destruct p as [doc name ty inf|inf]; [|constructor]. cbn [VardeclB] in H. destruct H as (_ & _ & Ht).
    destruct ty as [[te toff]|]; [|constructor]. exact (otexpr_shift_B off o (Some (te, toff)) Ht).
  - destruct p as [doc [name|] ty inf|inf]; try constructor. cbn [VardeclB OptB] in H. destruct H as (_ & [Hn _] & _).
    destruct (f name); constructor; [cbn [shift_ident id_info shift_info i_e]; lia | constructor].
Qed.

Lemma find_procs_B p : ProgB M p -> IdsB 0 (find_procs_f f p).
Proof.
  intros [_ H]. rewrite Forall_forall in H. unfold find_procs_f. apply IdsB_flat_map. intros [g o] Hin.
  specialize (H _ Hin). unfold RefB in H. cbn [fst snd Nat.add] in *.
  destruct g as [td|pd|inf]; try constructor. cbn [GdeclB] in H. destruct H as (_ & Hn & _ & _ & Hs).
  apply IdsB_shift. cbn [Nat.add]. apply IdsB_app; [exact (IdsB_name _ _ Hn) | exact (proj1 (stmts_ids _ _ Hs))].
Qed.

Lemma find_types_B p : ProgB M p -> IdsB 0 (find_types_f f p).
Proof.
  intros [_ H]. rewrite Forall_forall in H. unfold find_types_f. apply IdsB_flat_map. intros [g o] Hin.
  specialize (H _ Hin). unfold RefB in H. cbn [fst snd Nat.add] in *. apply IdsB_shift. cbn [Nat.add].
  destruct g as [td|pd|inf]; [| |constructor]; cbn [GdeclB] in H.
  - destruct H as (_ & Hn & Ht). apply IdsB_app; [exact (IdsB_name _ _ Hn) | exact (otexpr_B _ _ Ht)].
  - destruct H as (_ & _ & Hp & Hv & _).
    apply IdsB_app; [exact (proj1 (params_ids _ _ Hp)) | exact (proj1 (vardecls_ids _ _ Hv))].
Qed.

Lemma vars_of_proc_B pd off : ProcdeclB M off pd -> IdsB 0 (vars_of_proc f pd off).
Proof.
  intros (_ & _ & Hp & Hv & Hs). unfold vars_of_proc. apply IdsB_shift. cbn [Nat.add].
  apply IdsB_app; [exact (proj2 (params_ids _ _ Hp))|].
  apply IdsB_app; [exact (proj2 (vardecls_ids _ _ Hv)) | exact (proj2 (stmts_ids _ _ Hs))].
Qed.

End Idents.

Lemma all_vars_B M p : ProgB M p -> IdsB M 0 (all_vars p).
Proof.
  intros [_ H]. rewrite Forall_forall in H. unfold all_vars. apply IdsB_flat_map. intros [g o] Hin.
  specialize (H _ Hin). unfold RefB in H. cbn [fst snd Nat.add] in *.
  destruct g as [td|pd|inf]; try constructor. cbn [GdeclB] in H. exact (vars_of_proc_B M _ pd o H).
Qed.

Theorem doc_idents_B M p : ProgB M p -> IdsB M 0 (doc_idents p).
Proof.
  intros H. unfold doc_idents. apply IdsB_app; [exact (find_procs_B M _ p H)|].
  apply IdsB_app; [exact (find_types_B M _ p H) | exact (all_vars_B M p H)].
Qed.

Theorem new_doc_idents_ok t d :
  new_doc_res t = ODone d ->
  forallb (fun i => info_ok (length (d_toks d)) (id_info i)) (doc_idents (d_ast d)) = true.
Proof.
  intros H. destruct (doc_bounded t d H) as [Hb HE]. pose proof (N_pos _ HE) as HN.
  apply forallb_forall. intros i Hi.
  pose proof (doc_idents_B _ _ Hb) as HB. unfold IdsB in HB. rewrite Forall_forall in HB. specialize (HB i Hi).
  unfold info_ok. destruct (Nat.ltb (i_s (id_info i)) (i_e (id_info i))); [apply Nat.leb_le | apply Nat.ltb_lt]; lia.
Qed.
