(* C09 "same diagnostics" for programs with comments, part 3: `errors()` collects the diagnostics of a tree in an order
   that depends on the structure only; erasure keeps the messages and their order, so two trees with the same erasure
   carry the same messages in the same order. *)
From Coq Require Import String List Lia PeanoNat.
From Spl Require Import Model.Errors Proofs.FormatDiagErase.
From Spl Require Proofs.FormatProofs.
Import ListNotations.
Local Open Scope nat_scope.

Notation msgs l := (map e_m l).

Lemma m_info i : msgs (i_errs (er_info i)) = msgs (i_errs i).
Proof. cbn [er_info i_errs]. rewrite map_map. reflexivity. Qed.

Lemma m_shift off l : msgs (shift_es off l) = msgs l.
Proof. unfold shift_es. rewrite map_map. reflexivity. Qed.

Lemma m_ident i : msgs (ident_errors (er_ident i)) = msgs (ident_errors i).
Proof. apply m_info. Qed.

Fixpoint m_var (v : variable) {struct v} : msgs (var_errors (er_var v)) = msgs (var_errors v)
with m_expr (e : expr) {struct e} : msgs (expr_errors (er_expr e)) = msgs (expr_errors e).
Proof.
  - destruct v as [n|a idx inf]; cbn [er_var var_errors]; [apply m_ident|].
    rewrite !map_app, m_info, (m_var a). do 2 f_equal.
    destruct idx as [[e off]|]; [|reflexivity]. rewrite !m_shift. apply m_expr.
  - destruct e as [op l r inf|a inf|i|op a inf|v|inf]; cbn [er_expr expr_errors]; rewrite ?map_app, ?m_info;
      rewrite ?(m_expr l), ?(m_expr r), ?(m_expr a); try reflexivity.
    + apply m_info.
    + apply m_var.
Qed.

Lemma m_oexpr o : msgs (opt_expr_errors (er_oexpr o)) = msgs (opt_expr_errors o).
Proof. destruct o as [[e off]|]; [|reflexivity]. cbn [er_oexpr opt_expr_errors]. rewrite !m_shift. apply m_expr. Qed.

Fixpoint m_texpr (t : typeexpr) : msgs (texpr_errors (er_texpr t)) = msgs (texpr_errors t).
Proof.
  destruct t as [n|size base inf]; cbn [er_texpr texpr_errors]; [apply m_ident|].
  rewrite !map_app, m_info. f_equal. destruct base as [[b off]|]; [|reflexivity]. rewrite !m_shift. apply m_texpr.
Qed.

Lemma m_oty o : msgs (opt_texpr_errors (er_oty o)) = msgs (opt_texpr_errors o).
Proof. destruct o as [[e off]|]; [|reflexivity]. cbn [er_oty opt_texpr_errors]. rewrite !m_shift. apply m_texpr. Qed.

Lemma m_oident o : msgs (opt_ident_errors (option_map er_ident o)) = msgs (opt_ident_errors o).
Proof. destruct o; [apply m_ident | reflexivity]. Qed.

Lemma stmt_errors_block body inf :
  stmt_errors (SBlock body inf) = i_errs inf ++ flat_map (fun x => shift_es (snd x) (stmt_errors (fst x))) body.
Proof.
  cbn [stmt_errors]. f_equal. induction body as [|[x off] r IH]; [reflexivity|]. cbn [flat_map fst snd]. rewrite <- IH. reflexivity.
Qed.

Lemma stmt_errors_if c t e inf :
  stmt_errors (SIf c t e inf) =
  i_errs inf ++ opt_expr_errors c ++ match t with Some (x, off) => shift_es off (stmt_errors x) | None => [] end
  ++ match e with Some (x, off) => shift_es off (stmt_errors x) | None => [] end.
Proof. reflexivity. Qed.

Lemma stmt_errors_while c b inf :
  stmt_errors (SWhile c b inf) =
  i_errs inf ++ opt_expr_errors c ++ match b with Some (x, off) => shift_es off (stmt_errors x) | None => [] end.
Proof. reflexivity. Qed.

Definition stmt_m (s : stmt) : Prop := msgs (stmt_errors (er_stmt s)) = msgs (stmt_errors s).

Lemma m_ostmt r : (forall x off, r = Some (x, off) -> stmt_m x) ->
  msgs (match er_ostmt r with Some (x, off) => shift_es off (stmt_errors x) | None => [] end)
  = msgs (match r with Some (x, off) => shift_es off (stmt_errors x) | None => [] end).
Proof. intros IH. destruct r as [[x off]|]; [|reflexivity]. cbn [er_ostmt]. rewrite !m_shift. apply (IH x off eq_refl). Qed.

Lemma m_stmts_of body : (forall x off, In (x, off) body -> stmt_m x) ->
  msgs (flat_map (fun x => shift_es (snd x) (stmt_errors (fst x))) (er_stmts body))
  = msgs (flat_map (fun x => shift_es (snd x) (stmt_errors (fst x))) body).
Proof.
  induction body as [|[x off] r IH]; intros H; [reflexivity|]. cbn [er_stmts flat_map fst snd]. rewrite !map_app, !m_shift.
  rewrite (H x off (or_introl eq_refl)), (IH (fun y o Hy => H y o (or_intror Hy))). reflexivity.
Qed.

Theorem m_stmt : forall s, stmt_m s.
Proof.
  apply FormatProofs.stmt_ind'; unfold stmt_m.
  - intros inf. apply m_info.
  - intros v e inf. cbn [er_stmt stmt_errors]. rewrite !map_app, m_info, m_var, m_oexpr. reflexivity.
  - intros n a inf. cbn [er_stmt stmt_errors]. rewrite !map_app, m_info, m_ident. do 2 f_equal.
    induction a as [|[e off] r IH]; [reflexivity|]. cbn [map flat_map fst snd]. rewrite !map_app, !m_shift, m_expr, IH. reflexivity.
  - intros c t e inf IHt IHe. rewrite er_stmt_if, !stmt_errors_if, !map_app, m_info, m_oexpr, (m_ostmt t IHt), (m_ostmt e IHe). reflexivity.
  - intros c b inf IHb. rewrite er_stmt_while, !stmt_errors_while, !map_app, m_info, m_oexpr, (m_ostmt b IHb). reflexivity.
  - intros body inf IH. rewrite er_stmt_block, !stmt_errors_block, !map_app, m_info, (m_stmts_of body IH). reflexivity.
  - intros inf. apply m_info.
Qed.

Lemma m_stmts body :
  msgs (flat_map (fun x => shift_es (snd x) (stmt_errors (fst x))) (er_stmts body))
  = msgs (flat_map (fun x => shift_es (snd x) (stmt_errors (fst x))) body).
Proof. apply m_stmts_of. intros x off _. apply m_stmt. Qed.

Lemma m_vardecl v : msgs (vardecl_errors (er_vardecl v)) = msgs (vardecl_errors v).
Proof. destruct v; cbn [er_vardecl vardecl_errors]; rewrite ?map_app, ?m_info, ?m_oident, ?m_oty; reflexivity. Qed.

Lemma m_paramdecl v : msgs (paramdecl_errors (er_paramdecl v)) = msgs (paramdecl_errors v).
Proof. destruct v; cbn [er_paramdecl paramdecl_errors]; rewrite ?map_app, ?m_info, ?m_oident, ?m_oty; reflexivity. Qed.

Lemma m_flat {A} (f : A -> list err) (er : A -> A) (l : list (A * nat)) :
  (forall a, msgs (f (er a)) = msgs (f a)) ->
  msgs (flat_map (fun x => shift_es (snd x) (f (fst x))) (map (fun x => (er (fst x), 0)) l))
  = msgs (flat_map (fun x => shift_es (snd x) (f (fst x))) l).
Proof.
  intros H. induction l as [|[a off] r IH]; [reflexivity|]. cbn [map flat_map fst snd]. rewrite !map_app, !m_shift, H, IH. reflexivity.
Qed.

Lemma m_gdecl g : msgs (gdecl_errors (er_gdecl g)) = msgs (gdecl_errors g).
Proof.
  destruct g as [d|d|inf]; cbn [er_gdecl gdecl_errors].
  - unfold typedecl_errors. cbn [er_typedecl td_info td_name td_ty]. rewrite !map_app, m_info, m_oident, m_oty. reflexivity.
  - unfold procdecl_errors. cbn [er_procdecl pd_info pd_name pd_params pd_vars pd_stmts].
    rewrite !map_app, m_info, m_oident. unfold er_params, er_vars.
    rewrite (m_flat paramdecl_errors er_paramdecl _ m_paramdecl), (m_flat vardecl_errors er_vardecl _ m_vardecl), m_stmts. reflexivity.
  - apply m_info.
Qed.

(* the messages of a declaration list depend on the erasures of its declarations only *)
Lemma m_decls_eq (l l' : list (gdecl * nat)) :
  Forall2 (fun x x' => er_gdecl (fst x) = er_gdecl (fst x')) l l' ->
  msgs (flat_map (fun x => shift_es (snd x) (gdecl_errors (fst x))) l)
  = msgs (flat_map (fun x => shift_es (snd x) (gdecl_errors (fst x))) l').
Proof.
  induction 1 as [|x x' l l' Hx _ IH]; [reflexivity|]. cbn [flat_map]. rewrite !map_app, !m_shift, IH.
  rewrite <- (m_gdecl (fst x)), <- (m_gdecl (fst x')), Hx. reflexivity.
Qed.

(* the closure of AnalyzedSource::errors() keeps the messages *)
Lemma byte_ranges_msgs toks l r : byte_ranges toks l = ROk r -> map snd r = msgs l.
Proof.
  revert r. induction l as [|x l IH]; intros r H; cbn [byte_ranges] in H.
  - injection H as <-. reflexivity.
  - destruct (byte_range toks x) as [[[s e] m]|s] eqn:B; cbn [rbind] in H; [|discriminate H].
    destruct (byte_ranges toks l) as [r1|s1]; cbn [rbind] in H; [|discriminate H]. injection H as <-.
    cbn [map snd]. rewrite (IH r1 eq_refl). f_equal.
    unfold byte_range in B. destruct (Nat.ltb (e_s x) (e_e x)).
    + destruct (Nat.ltb (length toks) (e_e x)); [discriminate B|].
      destruct (hd_error _); [|discriminate B]. destruct (hd_error (rev _)); [|discriminate B]. injection B as _ _ <-. reflexivity.
    + destruct (nth_error toks (e_e x)); [|discriminate B]. injection B as _ _ <-. reflexivity.
Qed.
